import ExponaxModel.Proofs.C2RHermitian
/-
C11 support, P4 — the exact energy budget of one linear step `u ↦ irfftn (E ⊙ rfftn u)` on a real
state, the exact isometry condition, and a counterexample.

  * `linear_step_energy_budget`   : `‖u‖² − ‖step u‖² = N^{-D} Σ_h w_h (1 − |E_h|²) |û_h|²
                                      + N^{-D} Σ_h ((2 − w_h)/4) |E_h − conj E_{σh}|² |û_h|²`
                                    (damping loss + loss in the c2r projection; the latter lives on the
                                    self-conjugate columns `w_h = 1` only), any `D ≥ 1`, `N ≥ 1`, any `E`;
  * `linear_step_isometry_iff_herm` : for `|E_h| = 1`: norm preserved  ⇔  on every self-conjugate-column
                                    mode `h`, `E_h = conj E_{σh}` or `û_h = 0`;
  * `linear_step_isometry_iff_1d` : the 1-D form (`E_0` real or `û_0 = 0`; for even `N` also
                                    `E_{N/2}` real or `û_{N/2} = 0`);
  * `linear_step_strict_of_nonherm`, `nyquist_counterexample` : strict loss otherwise
                                    (`N = 2`, `u = (1, −1)`, advection factor `e^{−iθh}`, `sin θ ≠ 0`).
-/
set_option linter.unusedVariables false
set_option linter.unusedSimpArgs false
namespace Exponax.C2R
open Exponax Exponax.Layout Exponax.Transform Exponax.DFT Exponax.Conserve Finset

/-! ### the part discarded by the c2r transform, mode by mode -/

/-- for a real state `u` the part of `c = E ⊙ rfftn u` discarded by `irfftn` at stored mode `h` has
    weighted size `((2 − w_h)/4) |E_h − conj E_{σh}|² |û_h|²` -/
theorem discarded_term (D N : ℕ) (hD : 0 < D) (hN : 0 < N) (u : Array ℂ)
    (hu : ∀ j < N ^ D, (u.getD j 0).im = 0) (E : ℕ → ℂ) (h : ℕ) (hh : h < numModes D N) :
    (herm_weight D N h : ℝ) *
        ‖(tab (numModes D N) (fun h => E h * (rfftnM D N u).getD h 0)).getD h 0
          - (rfftnM D N (irfftnM D N
              (tab (numModes D N) (fun h => E h * (rfftnM D N u).getD h 0)))).getD h 0‖ ^ 2
      = ((2 - (herm_weight D N h : ℝ)) / 4)
          * ‖E h - (starRingEnd ℂ) (E (conjIdx D N h))‖ ^ 2 * ‖(rfftnM D N u).getD h 0‖ ^ 2 := by
  rcases herm_weight_eq D N h with hw | hw
  · rw [rfftn_irfftn_nd_w1 D N hD hN _ h hh hw, DFT.tab_getD _ _ _ _ hh,
      DFT.tab_getD _ _ _ _ (conjIdx_lt D N h hD hN), rfftn_conjIdx_of_real D N hD hN u hu h hh hw,
      map_mul, Complex.conj_conj, hw]
    rw [show E h * (rfftnM D N u).getD h 0
          - (E h * (rfftnM D N u).getD h 0
              + (starRingEnd ℂ) (E (conjIdx D N h)) * (rfftnM D N u).getD h 0) / 2
        = (1 / 2 : ℂ) * ((E h - (starRingEnd ℂ) (E (conjIdx D N h))) * (rfftnM D N u).getD h 0) by ring,
      norm_mul, norm_mul, mul_pow, mul_pow]
    have : ‖(1 / 2 : ℂ)‖ = 1 / 2 := by
      rw [norm_div, norm_one]; simp
    rw [this]
    push_cast
    ring
  · rw [rfftn_irfftn_nd_w2 D N hD hN _ h hh hw, sub_self, norm_zero, hw]
    push_cast
    ring

/-! ### the exact energy budget of one step -/

/-- **Energy budget of one linear step on a real state** (any `D ≥ 1`, `N ≥ 1`, ANY factors `E`):
    the loss of grid energy is the damping loss `N^{-D} Σ w_h (1 − |E_h|²)|û_h|²` plus the energy
    discarded by the c2r projection, `N^{-D} Σ ((2 − w_h)/4) |E_h − conj E_{σh}|² |û_h|²`, which is
    supported on the self-conjugate columns (`w_h = 1`: last-axis DC and, for even `N`, Nyquist). -/
theorem linear_step_energy_budget (D N : ℕ) (hD : 0 < D) (hN : 0 < N) (u : Array ℂ)
    (hu : ∀ j < N ^ D, (u.getD j 0).im = 0) (E : ℕ → ℂ) :
    ∑ j ∈ range (N ^ D), (u.getD j 0).re ^ 2
      - ∑ j ∈ range (N ^ D),
          ((irfftnM D N (tab (numModes D N) (fun h => E h * (rfftnM D N u).getD h 0))).getD j 0).re ^ 2
      = (1 / ((N ^ D : ℕ) : ℝ)) * ∑ h ∈ range (numModes D N),
            (herm_weight D N h : ℝ) * (1 - ‖E h‖ ^ 2) * ‖(rfftnM D N u).getD h 0‖ ^ 2
        + (1 / ((N ^ D : ℕ) : ℝ)) * ∑ h ∈ range (numModes D N),
            ((2 - (herm_weight D N h : ℝ)) / 4)
              * ‖E h - (starRingEnd ℂ) (E (conjIdx D N h))‖ ^ 2 * ‖(rfftnM D N u).getD h 0‖ ^ 2 := by
  have hpy := c2r_pythagoras D N hD hN (tab (numModes D N) (fun h => E h * (rfftnM D N u).getD h 0))
  have hpa := parseval_nd D N hD hN u hu
  rw [sum_norm_sq_real _ _ hu] at hpa
  have hA : ∑ h ∈ range (numModes D N), (herm_weight D N h : ℝ) *
        ‖(tab (numModes D N) (fun h => E h * (rfftnM D N u).getD h 0)).getD h 0‖ ^ 2
      = ∑ h ∈ range (numModes D N),
          (herm_weight D N h : ℝ) * ‖E h‖ ^ 2 * ‖(rfftnM D N u).getD h 0‖ ^ 2 := by
    apply Finset.sum_congr rfl
    intro h hh
    rw [DFT.tab_getD _ _ _ _ (Finset.mem_range.mp hh), norm_mul, mul_pow, mul_assoc]
  have hB := Finset.sum_congr (s₁ := range (numModes D N)) rfl
    (fun h hh => discarded_term D N hD hN u hu E h (Finset.mem_range.mp hh))
  have hC : ∑ h ∈ range (numModes D N),
        (herm_weight D N h : ℝ) * (1 - ‖E h‖ ^ 2) * ‖(rfftnM D N u).getD h 0‖ ^ 2
      = ∑ h ∈ range (numModes D N), (herm_weight D N h : ℝ) * ‖(rfftnM D N u).getD h 0‖ ^ 2
        - ∑ h ∈ range (numModes D N),
            (herm_weight D N h : ℝ) * ‖E h‖ ^ 2 * ‖(rfftnM D N u).getD h 0‖ ^ 2 := by
    rw [← Finset.sum_sub_distrib]
    exact Finset.sum_congr rfl (fun h _ => by ring)
  rw [hA, hB] at hpy
  rw [hC, hpa]
  linear_combination hpy

/-! ### P4 — the exact isometry condition -/

/-- **P4, general `D ≥ 1`, `N ≥ 1`.**  With `|E_h| = 1` on all stored modes, the step preserves the grid
    2-norm of the real state `u` IF AND ONLY IF on every stored mode `h` of a self-conjugate column
    (`herm_weight D N h = 1`: last-axis wavenumber `0`, or `N/2` for even `N`) either the factor is
    Hermitian-symmetric, `E_h = conj E_{σh}` (`σh = conjIdx D N h`, the stored index of `−k(h)`), or
    the state has no content there, `û_h = 0`. -/
theorem linear_step_isometry_iff_herm (D N : ℕ) (hD : 0 < D) (hN : 0 < N) (u : Array ℂ)
    (hu : ∀ j < N ^ D, (u.getD j 0).im = 0) (E : ℕ → ℂ) (hE : ∀ h < numModes D N, ‖E h‖ = 1) :
    ∑ j ∈ range (N ^ D),
        ((irfftnM D N (tab (numModes D N) (fun h => E h * (rfftnM D N u).getD h 0))).getD j 0).re ^ 2
        = ∑ j ∈ range (N ^ D), (u.getD j 0).re ^ 2
      ↔ ∀ h < numModes D N, herm_weight D N h = 1 →
          (E h = (starRingEnd ℂ) (E (conjIdx D N h)) ∨ (rfftnM D N u).getD h 0 = 0) := by
  have hb := linear_step_energy_budget D N hD hN u hu E
  have hz : ∑ h ∈ range (numModes D N),
        (herm_weight D N h : ℝ) * (1 - ‖E h‖ ^ 2) * ‖(rfftnM D N u).getD h 0‖ ^ 2 = 0 := by
    apply Finset.sum_eq_zero
    intro h hh
    rw [hE h (Finset.mem_range.mp hh)]
    ring
  rw [hz, mul_zero, zero_add] at hb
  have hG : (0 : ℝ) < 1 / ((N ^ D : ℕ) : ℝ) := by
    have : (0 : ℝ) < ((N ^ D : ℕ) : ℝ) := by exact_mod_cast pow_pos hN D
    positivity
  have hnn : ∀ h ∈ range (numModes D N), 0 ≤ ((2 - (herm_weight D N h : ℝ)) / 4)
      * ‖E h - (starRingEnd ℂ) (E (conjIdx D N h))‖ ^ 2 * ‖(rfftnM D N u).getD h 0‖ ^ 2 := by
    intro h _
    have : 0 ≤ (2 - (herm_weight D N h : ℝ)) / 4 := by
      rcases herm_weight_eq D N h with hw | hw <;> rw [hw] <;> norm_num
    positivity
  have hterm : ∀ h, ((2 - (herm_weight D N h : ℝ)) / 4)
        * ‖E h - (starRingEnd ℂ) (E (conjIdx D N h))‖ ^ 2 * ‖(rfftnM D N u).getD h 0‖ ^ 2 = 0
      ↔ (herm_weight D N h = 1 →
          (E h = (starRingEnd ℂ) (E (conjIdx D N h)) ∨ (rfftnM D N u).getD h 0 = 0)) := by
    intro h
    rcases herm_weight_eq D N h with hw | hw
    · rw [hw]
      constructor
      · intro h0 _
        rcases mul_eq_zero.mp h0 with h1 | h1
        · rcases mul_eq_zero.mp h1 with h2 | h2
          · norm_num at h2
          · left
            have := pow_eq_zero_iff (n := 2) (by norm_num) |>.mp h2
            exact sub_eq_zero.mp (norm_eq_zero.mp this)
        · right
          have := pow_eq_zero_iff (n := 2) (by norm_num) |>.mp h1
          exact norm_eq_zero.mp this
      · intro H
        rcases H rfl with h1 | h1
        · rw [← h1, sub_self, norm_zero]; ring
        · rw [h1, norm_zero]; ring
    · rw [hw]
      constructor
      · intro _ h2; norm_num at h2
      · intro _; push_cast; ring
  constructor
  · intro heq h hh
    have h0 : (1 / ((N ^ D : ℕ) : ℝ)) * ∑ h ∈ range (numModes D N),
        ((2 - (herm_weight D N h : ℝ)) / 4)
          * ‖E h - (starRingEnd ℂ) (E (conjIdx D N h))‖ ^ 2 * ‖(rfftnM D N u).getD h 0‖ ^ 2 = 0 := by
      rw [← hb, heq, sub_self]
    have h1 := (mul_eq_zero.mp h0).resolve_left hG.ne'
    exact (hterm h).mp ((Finset.sum_eq_zero_iff_of_nonneg hnn).mp h1 h (Finset.mem_range.mpr hh))
  · intro H
    have h1 : ∑ h ∈ range (numModes D N), ((2 - (herm_weight D N h : ℝ)) / 4)
        * ‖E h - (starRingEnd ℂ) (E (conjIdx D N h))‖ ^ 2 * ‖(rfftnM D N u).getD h 0‖ ^ 2 = 0 :=
      Finset.sum_eq_zero (fun h hh => (hterm h).mpr (H h (Finset.mem_range.mp hh)))
    rw [h1, mul_zero] at hb
    linarith

/-- sufficient: a Hermitian-symmetric factor array (what `exp(dt·L)` is for every real operator `L`)
    gives an isometry for EVERY real state -/
theorem linear_step_isometry_of_herm_symbol (D N : ℕ) (hD : 0 < D) (hN : 0 < N) (u : Array ℂ)
    (hu : ∀ j < N ^ D, (u.getD j 0).im = 0) (E : ℕ → ℂ) (hE : ∀ h < numModes D N, ‖E h‖ = 1)
    (hsym : ∀ h < numModes D N, herm_weight D N h = 1 → E h = (starRingEnd ℂ) (E (conjIdx D N h))) :
    ∑ j ∈ range (N ^ D),
        ((irfftnM D N (tab (numModes D N) (fun h => E h * (rfftnM D N u).getD h 0))).getD j 0).re ^ 2
      = ∑ j ∈ range (N ^ D), (u.getD j 0).re ^ 2 :=
  (linear_step_isometry_iff_herm D N hD hN u hu E hE).mpr (fun h hh hw => Or.inl (hsym h hh hw))

/-- sufficient: no content on the self-conjugate columns (e.g. a state without Nyquist and without
    last-axis-mean content) gives an isometry for EVERY unimodular factor array -/
theorem linear_step_isometry_of_no_content (D N : ℕ) (hD : 0 < D) (hN : 0 < N) (u : Array ℂ)
    (hu : ∀ j < N ^ D, (u.getD j 0).im = 0) (E : ℕ → ℂ) (hE : ∀ h < numModes D N, ‖E h‖ = 1)
    (hzero : ∀ h < numModes D N, herm_weight D N h = 1 → (rfftnM D N u).getD h 0 = 0) :
    ∑ j ∈ range (N ^ D),
        ((irfftnM D N (tab (numModes D N) (fun h => E h * (rfftnM D N u).getD h 0))).getD j 0).re ^ 2
      = ∑ j ∈ range (N ^ D), (u.getD j 0).re ^ 2 :=
  (linear_step_isometry_iff_herm D N hD hN u hu E hE).mpr (fun h hh hw => Or.inr (hzero h hh hw))

/-- strict loss: a self-conjugate-column mode with content and a non-Hermitian factor -/
theorem linear_step_strict_of_nonherm (D N : ℕ) (hD : 0 < D) (hN : 0 < N) (u : Array ℂ)
    (hu : ∀ j < N ^ D, (u.getD j 0).im = 0) (E : ℕ → ℂ) (hE : ∀ h < numModes D N, ‖E h‖ = 1)
    (h : ℕ) (hh : h < numModes D N) (hw : herm_weight D N h = 1)
    (hne : E h ≠ (starRingEnd ℂ) (E (conjIdx D N h))) (hcont : (rfftnM D N u).getD h 0 ≠ 0) :
    ∑ j ∈ range (N ^ D),
        ((irfftnM D N (tab (numModes D N) (fun h => E h * (rfftnM D N u).getD h 0))).getD j 0).re ^ 2
      < ∑ j ∈ range (N ^ D), (u.getD j 0).re ^ 2 := by
  apply lt_of_le_of_ne
    (linear_step_no_amplification D N hD hN u hu E (fun h hh => (hE h hh).le))
  intro heq
  rcases (linear_step_isometry_iff_herm D N hD hN u hu E hE).mp heq h hh hw with h1 | h1
  · exact hne h1
  · exact hcont h1

/-! ### one dimension -/

/-- **P4 in 1-D.**  With `|E_h| = 1`: norm preserved  ⇔  (`E_0` real or `û_0 = 0`) and, for even `N`,
    (`E_{N/2}` real or `û_{N/2} = 0`).  For odd `N` only the mean mode matters. -/
theorem linear_step_isometry_iff_1d (N : ℕ) (hN : 0 < N) (u : Array ℂ)
    (hu : ∀ j < N, (u.getD j 0).im = 0) (E : ℕ → ℂ) (hE : ∀ h ≤ N / 2, ‖E h‖ = 1) :
    ∑ j ∈ range N,
        ((irfftnM 1 N (tab (N / 2 + 1) (fun h => E h * (rfftnM 1 N u).getD h 0))).getD j 0).re ^ 2
        = ∑ j ∈ range N, (u.getD j 0).re ^ 2
      ↔ ((E 0).im = 0 ∨ (rfftnM 1 N u).getD 0 0 = 0) ∧
        (N % 2 = 0 → ((E (N / 2)).im = 0 ∨ (rfftnM 1 N u).getD (N / 2) 0 = 0)) := by
  have hu' : ∀ j < N ^ 1, (u.getD j 0).im = 0 := by simpa using hu
  have hE' : ∀ h < numModes 1 N, ‖E h‖ = 1 := by
    intro h hh; rw [numModes_one] at hh; exact hE h (by omega)
  have key := linear_step_isometry_iff_herm 1 N (by norm_num) hN u hu' E hE'
  rw [numModes_one, pow_one] at key
  rw [key]
  have hconj : ∀ h, h < N / 2 + 1 →
      ((E h = (starRingEnd ℂ) (E (conjIdx 1 N h))) ↔ (E h).im = 0) := by
    intro h hh
    rw [conjIdx_one N h (by rw [numModes_one]; exact hh), eq_comm]
    exact Complex.conj_eq_iff_im
  constructor
  · intro H
    refine ⟨?_, fun hev => ?_⟩
    · have := H 0 (by omega) ((herm_weight_one_iff N 0).mpr (Or.inl rfl))
      rwa [hconj 0 (by omega)] at this
    · have := H (N / 2) (by omega) ((herm_weight_one_iff N (N / 2)).mpr (Or.inr ⟨hev, rfl⟩))
      rwa [hconj (N / 2) (by omega)] at this
  · rintro ⟨H0, Hny⟩ h hh hw
    rw [hconj h hh]
    rcases (herm_weight_one_iff N h).mp hw with rfl | ⟨hev, rfl⟩
    · exact H0
    · exact Hny hev

/-- 1-D, odd `N`, real mean factor (e.g. `E_0 = 1`, every derivative operator): ALWAYS an isometry —
    there is no Nyquist mode, whatever the phases of the other factors -/
theorem linear_step_isometry_1d_odd (N : ℕ) (hodd : N % 2 = 1) (u : Array ℂ)
    (hu : ∀ j < N, (u.getD j 0).im = 0) (E : ℕ → ℂ) (hE : ∀ h ≤ N / 2, ‖E h‖ = 1)
    (hE0 : (E 0).im = 0) :
    ∑ j ∈ range N,
        ((irfftnM 1 N (tab (N / 2 + 1) (fun h => E h * (rfftnM 1 N u).getD h 0))).getD j 0).re ^ 2
      = ∑ j ∈ range N, (u.getD j 0).re ^ 2 :=
  (linear_step_isometry_iff_1d N (by omega) u hu E hE).mpr ⟨Or.inl hE0, fun hev => by omega⟩

/-! ### the counterexample: Nyquist content under an advection factor -/

/-- advection-like unimodular factors `E_h = e^{−iθh}` (shift by `θ` grid-angle units) -/
noncomputable def advE (θ : ℝ) (h : ℕ) : ℂ := Complex.exp (((-((h : ℝ) * θ) : ℝ) : ℂ) * Complex.I)

theorem norm_advE (θ : ℝ) (h : ℕ) : ‖advE θ h‖ = 1 := Complex.norm_exp_ofReal_mul_I _

theorem advE_zero (θ : ℝ) : advE θ 0 = 1 := by simp [advE]

theorem advE_one_im (θ : ℝ) : (advE θ 1).im = -Real.sin θ := by
  unfold advE
  rw [Complex.exp_ofReal_mul_I_im]
  simp

theorem zeta_two : zeta 2 = -1 := by
  unfold zeta
  rw [show -(2 * (Real.pi : ℂ) * Complex.I / ((2 : ℕ) : ℂ)) = -((Real.pi : ℂ) * Complex.I) by
    push_cast; ring, Complex.exp_neg, Complex.exp_pi_mul_I]
  norm_num

/-- the Nyquist coefficient of the saw-tooth `(1, −1)` on the 2-point grid is `2` -/
theorem rfft_sawtooth_nyquist : (rfftnM 1 2 #[(1 : ℂ), -1]).getD 1 0 = 2 := by
  rw [rfft1_getD 2 (by norm_num) _ 1 (by norm_num), dft, Finset.sum_range_succ, Finset.sum_range_one,
    zeta_two]
  simp
  norm_num

/-- **Counterexample (strict loss).**  `D = 1`, `N = 2`, the real saw-tooth `u = (1, −1)` (pure Nyquist
    content), advection factors `E_h = e^{−iθh}` with `sin θ ≠ 0` (so `|E_h| = 1`, `E_0 = 1`, but
    `E_1` is not real): the step STRICTLY decreases the grid 2-norm. -/
theorem nyquist_counterexample (θ : ℝ) (hθ : Real.sin θ ≠ 0) :
    ∑ j ∈ range 2,
        ((irfftnM 1 2 (tab (2 / 2 + 1)
          (fun h => advE θ h * (rfftnM 1 2 #[(1 : ℂ), -1]).getD h 0))).getD j 0).re ^ 2
      < ∑ j ∈ range 2, ((#[(1 : ℂ), -1] : Array ℂ).getD j 0).re ^ 2 := by
  have hu : ∀ j < 2, ((#[(1 : ℂ), -1] : Array ℂ).getD j 0).im = 0 := by
    intro j hj
    have : j = 0 ∨ j = 1 := by omega
    rcases this with rfl | rfl <;> simp
  have hE : ∀ h ≤ 2 / 2, ‖advE θ h‖ = 1 := fun h _ => norm_advE θ h
  have hle := linear_step_no_amplification 1 2 (by norm_num) (by norm_num) #[(1 : ℂ), -1]
    (by simpa using hu) (advE θ) (fun h _ => (norm_advE θ h).le)
  rw [numModes_one, pow_one] at hle
  apply lt_of_le_of_ne hle
  intro heq
  have := ((linear_step_isometry_iff_1d 2 (by norm_num) _ hu (advE θ) hE).mp heq).2 (by norm_num)
  rcases this with h1 | h1
  · rw [show 2 / 2 = 1 from rfl, advE_one_im] at h1
    exact hθ (by linarith)
  · rw [show 2 / 2 = 1 from rfl, rfft_sawtooth_nyquist] at h1
    norm_num at h1

/-- a concrete instance: quarter-period shift, `E_1 = −i` -/
example :
    ∑ j ∈ range 2,
        ((irfftnM 1 2 (tab (2 / 2 + 1)
          (fun h => advE (Real.pi / 2) h * (rfftnM 1 2 #[(1 : ℂ), -1]).getD h 0))).getD j 0).re ^ 2
      < ∑ j ∈ range 2, ((#[(1 : ℂ), -1] : Array ℂ).getD j 0).re ^ 2 :=
  nyquist_counterexample (Real.pi / 2) (by rw [Real.sin_pi_div_two]; norm_num)

/-! ### non-vacuity of the hypotheses -/

/-- hypotheses of `linear_step_isometry_of_herm_symbol`: real unimodular factors -/
example : ∃ (D N : ℕ) (E : ℕ → ℂ), 0 < D ∧ 0 < N ∧ (∀ h < numModes D N, ‖E h‖ = 1) ∧
    (∀ h < numModes D N, herm_weight D N h = 1 → E h = (starRingEnd ℂ) (E (conjIdx D N h))) :=
  ⟨2, 4, fun _ => -1, by norm_num, by norm_num, fun _ _ => by simp, fun _ _ _ => by simp⟩

/-- hypotheses of `linear_step_isometry_of_no_content`: the zero state -/
example : ∃ (D N : ℕ) (u : Array ℂ), 0 < D ∧ 0 < N ∧ (∀ j < N ^ D, (u.getD j 0).im = 0) ∧
    (∀ h < numModes D N, herm_weight D N h = 1 → (rfftnM D N u).getD h 0 = 0) := by
  refine ⟨1, 3, #[], by norm_num, by norm_num, fun j _ => by simp, fun h hh _ => ?_⟩
  rw [rfftnM_getD 1 3 (by norm_num) _ h hh]
  simp

/-- hypotheses of `linear_step_strict_of_nonherm` / `linear_step_isometry_iff_1d`: the counterexample -/
example : ∃ (u : Array ℂ) (E : ℕ → ℂ), (∀ j < 2 ^ 1, (u.getD j 0).im = 0) ∧
    (∀ h < numModes 1 2, ‖E h‖ = 1) ∧ (1 < numModes 1 2) ∧ herm_weight 1 2 1 = 1 ∧
    E 1 ≠ (starRingEnd ℂ) (E (conjIdx 1 2 1)) ∧ (rfftnM 1 2 u).getD 1 0 ≠ 0 := by
  refine ⟨#[(1 : ℂ), -1], advE (Real.pi / 2), ?_, fun h _ => norm_advE _ h, by decide, by decide, ?_, ?_⟩
  · intro j hj
    have : j = 0 ∨ j = 1 := by omega
    rcases this with rfl | rfl <;> simp
  · rw [conjIdx_one 2 1 (by decide)]
    intro h
    have him := Complex.conj_eq_iff_im.mp h.symm
    rw [advE_one_im, Real.sin_pi_div_two] at him
    norm_num at him
  · rw [rfft_sawtooth_nyquist]; norm_num

/-- hypotheses of `linear_step_isometry_1d_odd` -/
example : ∃ (N : ℕ) (E : ℕ → ℂ), N % 2 = 1 ∧ (∀ h ≤ N / 2, ‖E h‖ = 1) ∧ (E 0).im = 0 :=
  ⟨3, advE 1, by norm_num, fun h _ => norm_advE 1 h, by rw [advE_zero]; simp⟩

end Exponax.C2R
