import ExponaxModel.Proofs.DiffTermsSpace
import ExponaxModel.Proofs.DifferentiabilityVec
import Mathlib.Analysis.Calculus.ContDiff.Operations
/-
C07 support — T2 (every order, smooth nonlinear map on a normed algebra) and T3 (linear Jacobian, whole state).

Part A (abstract).  `V` a normed ring and normed algebra over `𝕜` (the model case is `V = Spec C M = Fin C → Fin M → ℂ`
with pointwise operations, `𝕜 = ℝ`; coefficient arrays multiply pointwise), `N : V → V`.
  * `E?step_contDiff`        : the regenerated stage formulas `E0step … E4step` are `ContDiff 𝕜 n` in the state if `N` is;
  * `iterate_contDiff`       : hence rollouts of every order are;
  * `E2step_fderiv`, `E3step_fderiv`, `E1step_fderiv`, `E4step_fderiv` : `fderiv` = the chain-rule formula written out;
  * `E2V_rollout_hasFDerivAt`: the order-2 rollout (orders 1, 3, 4 are in `DifferentiabilityVec`).

Part B (the model).  `N = specMap c C C term` for any model term with a `TermCalc` (convection, gradient norm, vorticity,
…): the assembled ETDRK-`p` step `etdrkStepF` (regenerated coefficients from `dt`, `λ`, fed to the regenerated stage
formulas), on stored spectra and between the model transforms on physical grid states, and its rollouts, are
`ContDiff ℝ n` for every `p`; `fderiv` of the nonlinear map is the term's JVP.

Part C (T3).  The linear step `u ↦ irfftn (E ⊙ rfftn u)` (`E0step` with ANY coefficient array) is ℝ-linear on physical
states, so its Fréchet derivative at every point is the map itself — for every `D`, `N`, `C`; same for its rollouts.
-/
set_option linter.unusedVariables false
namespace Exponax.DiffTerms
open Exponax Exponax.Gen.Etdrk Exponax.Nonlin Exponax.Transform Exponax.Diff

/-! ## Part A — abstract -/

section Abstract
variable {𝕜 : Type} [NontriviallyNormedField 𝕜] {V : Type} [NormedRing V] [NormedAlgebra 𝕜 V]
variable {n : WithTop ℕ∞}

theorem mulc_contDiff (c : V) {f : V → V} (hf : ContDiff 𝕜 n f) : ContDiff 𝕜 n (fun x => c * f x) :=
  contDiff_const.mul hf

theorem E0step_contDiff (E : V) : ContDiff 𝕜 n (E0step E) :=
  mulc_contDiff (𝕜 := 𝕜) E contDiff_id

theorem E1step_contDiff (E c1 : V) (N : V → V) (hN : ContDiff 𝕜 n N) : ContDiff 𝕜 n (E1step E c1 N) :=
  (mulc_contDiff (𝕜 := 𝕜) E contDiff_id).add (mulc_contDiff c1 hN)

/-- **T2, order 2.** -/
theorem E2step_contDiff (E c1 c2 : V) (N : V → V) (hN : ContDiff 𝕜 n N) : ContDiff 𝕜 n (E2step E c1 c2 N) := by
  have ha : ContDiff 𝕜 n (fun x : V => E * x + c1 * N x) := E1step_contDiff E c1 N hN
  exact ha.add (mulc_contDiff c2 ((hN.comp ha).sub hN))

/-- **T2, order 3.** -/
theorem E3step_contDiff (E Eh c1 c2 c3 c4 c5 : V) (N : V → V) (hN : ContDiff 𝕜 n N) :
    ContDiff 𝕜 n (E3step E Eh c1 c2 c3 c4 c5 N) := by
  have ha : ContDiff 𝕜 n (stageAV Eh c1 N) := E1step_contDiff Eh c1 N hN
  have hb : ContDiff 𝕜 n (E3stageBV E Eh c1 c2 N) :=
    (mulc_contDiff (𝕜 := 𝕜) E contDiff_id).add (mulc_contDiff c2 ((mulc_contDiff 2 (hN.comp ha)).sub hN))
  have e : E3step E Eh c1 c2 c3 c4 c5 N
      = fun x => E * x + c3 * N x + c4 * N (stageAV Eh c1 N x) + c5 * N (E3stageBV E Eh c1 c2 N x) :=
    funext (E3stepV_eq_stages E Eh c1 c2 c3 c4 c5 N)
  rw [e]
  exact (((mulc_contDiff (𝕜 := 𝕜) E contDiff_id).add (mulc_contDiff c3 hN)).add
    (mulc_contDiff c4 (hN.comp ha))).add (mulc_contDiff c5 (hN.comp hb))

/-- **T2, order 4.** -/
theorem E4step_contDiff (E Eh c1 c2 c3 c4 c5 c6 : V) (N : V → V) (hN : ContDiff 𝕜 n N) :
    ContDiff 𝕜 n (E4step E Eh c1 c2 c3 c4 c5 c6 N) := by
  have ha : ContDiff 𝕜 n (stageAV Eh c1 N) := E1step_contDiff Eh c1 N hN
  have hb : ContDiff 𝕜 n (E4stageBV Eh c1 c2 N) :=
    (mulc_contDiff (𝕜 := 𝕜) Eh contDiff_id).add (mulc_contDiff c2 (hN.comp ha))
  have hc : ContDiff 𝕜 n (E4stageCV Eh c1 c2 c3 N) :=
    (mulc_contDiff (𝕜 := 𝕜) Eh ha).add (mulc_contDiff c3 ((mulc_contDiff 2 (hN.comp hb)).sub hN))
  have e : E4step E Eh c1 c2 c3 c4 c5 c6 N
      = fun x => E * x + c4 * N x + c5 * 2 * (N (stageAV Eh c1 N x) + N (E4stageBV Eh c1 c2 N x))
          + c6 * N (E4stageCV Eh c1 c2 c3 N x) :=
    funext (E4stepV_eq_stages E Eh c1 c2 c3 c4 c5 c6 N)
  rw [e]
  exact (((mulc_contDiff (𝕜 := 𝕜) E contDiff_id).add (mulc_contDiff c4 hN)).add
    (mulc_contDiff (c5 * 2) ((hN.comp ha).add (hN.comp hb)))).add (mulc_contDiff c6 (hN.comp hc))

/-- rollouts: iterates of a `C^n` map are `C^n` -/
theorem iterate_contDiff {X : Type} [NormedAddCommGroup X] [NormedSpace 𝕜 X] {S : X → X} (hS : ContDiff 𝕜 n S)
    (k : ℕ) : ContDiff 𝕜 n (S^[k]) := by
  induction k with
  | zero => exact contDiff_id
  | succ k ih => rw [Function.iterate_succ']; exact hS.comp ih

/-- the Fréchet derivative of one ETDRK2 step: with `A' = E· + c₁·N'(u)` and `a = E u + c₁ N(u)`:
    `A' + c₂·(N'(a) ∘ A' − N'(u))` -/
noncomputable def E2stepV' (E c1 c2 : V) (N : V → V) (N' : V → V →L[𝕜] V) (u : V) : V →L[𝕜] V :=
  (mulL E + (mulL c1).comp (N' u))
    + (mulL c2).comp ((N' (E * u + c1 * N u)).comp (mulL E + (mulL c1).comp (N' u)) - N' u)

/-- the ETDRK2 derivative applied to a direction, written out -/
theorem E2stepV'_apply (E c1 c2 : V) (N : V → V) (N' : V → V →L[𝕜] V) (u v : V) :
    E2stepV' E c1 c2 N N' u v
      = (E * v + c1 * N' u v) + c2 * (N' (E * u + c1 * N u) (E * v + c1 * N' u v) - N' u v) := by
  simp only [E2stepV', _root_.add_apply, ContinuousLinearMap.comp_apply, _root_.sub_apply,
    mulL_apply]

theorem E2stepV_hasFDerivAt' (E c1 c2 : V) (N : V → V) (N' : V → V →L[𝕜] V) (u : V)
    (hu : HasFDerivAt N (N' u) u) (ha : HasFDerivAt N (N' (E * u + c1 * N u)) (E * u + c1 * N u)) :
    HasFDerivAt (E2step E c1 c2 N) (E2stepV' E c1 c2 N N' u) u :=
  E2stepV_hasFDerivAt E c1 c2 N u (N' u) (N' (E * u + c1 * N u)) hu ha

/-- **T2, order-2 rollouts**: derivative = ordered composition of the per-step derivatives -/
theorem E2V_rollout_hasFDerivAt (E c1 c2 : V) (N : V → V) (N' : V → V →L[𝕜] V)
    (hN : ∀ x, HasFDerivAt N (N' x) x) (u : V) (k : ℕ) :
    HasFDerivAt ((E2step E c1 c2 N)^[k]) (iterFDeriv (E2step E c1 c2 N) (E2stepV' E c1 c2 N N') u k) u :=
  iterate_hasFDerivAt _ _ u k (fun j _ => E2stepV_hasFDerivAt' E c1 c2 N N' _ (hN _) (hN _))

/-! `fderiv` of one step of every order, for a differentiable `N` (`N' = fderiv 𝕜 N`) -/

theorem E1step_fderiv (E c1 : V) (N : V → V) (hN : Differentiable 𝕜 N) (u : V) :
    fderiv 𝕜 (E1step E c1 N) u = mulL E + (mulL c1).comp (fderiv 𝕜 N u) :=
  (E1stepV_hasFDerivAt E c1 N u _ (hN u).hasFDerivAt).fderiv

theorem E2step_fderiv (E c1 c2 : V) (N : V → V) (hN : Differentiable 𝕜 N) (u : V) :
    fderiv 𝕜 (E2step E c1 c2 N) u = E2stepV' E c1 c2 N (fderiv 𝕜 N) u :=
  (E2stepV_hasFDerivAt' E c1 c2 N (fderiv 𝕜 N) u (hN u).hasFDerivAt (hN _).hasFDerivAt).fderiv

theorem E3step_fderiv (E Eh c1 c2 c3 c4 c5 : V) (N : V → V) (hN : Differentiable 𝕜 N) (u : V) :
    fderiv 𝕜 (E3step E Eh c1 c2 c3 c4 c5 N) u = E3stepV' E Eh c1 c2 c3 c4 c5 N (fderiv 𝕜 N) u :=
  (E3stepV_hasFDerivAt E Eh c1 c2 c3 c4 c5 N (fderiv 𝕜 N) u (hN u).hasFDerivAt (hN _).hasFDerivAt
    (hN _).hasFDerivAt).fderiv

theorem E4step_fderiv (E Eh c1 c2 c3 c4 c5 c6 : V) (N : V → V) (hN : Differentiable 𝕜 N) (u : V) :
    fderiv 𝕜 (E4step E Eh c1 c2 c3 c4 c5 c6 N) u = E4stepV' E Eh c1 c2 c3 c4 c5 c6 N (fderiv 𝕜 N) u :=
  (E4stepV_hasFDerivAt E Eh c1 c2 c3 c4 c5 c6 N (fderiv 𝕜 N) u (hN u).hasFDerivAt (hN _).hasFDerivAt
    (hN _).hasFDerivAt (hN _).hasFDerivAt).fderiv

/-- rollouts of ANY differentiable step map: `fderiv` of the `k`-fold iterate is the ordered composition -/
theorem iterate_fderiv {X : Type} [NormedAddCommGroup X] [NormedSpace 𝕜 X] (S : X → X) (hS : Differentiable 𝕜 S)
    (u : X) (k : ℕ) : fderiv 𝕜 (S^[k]) u = iterFDeriv S (fderiv 𝕜 S) u k :=
  (iterate_hasFDerivAt S (fderiv 𝕜 S) u k (fun j _ => (hS _).hasFDerivAt)).fderiv

end Abstract

/-! ## Part B — the model -/

section Model
variable {C M : ℕ}

/-- the assembled ETDRK-`p` step on stored spectra `Spec C M` (the finite-array form of `Interface.etdrkStep`):
    coefficient arrays computed entrywise from `dt` and the symbol array by the regenerated coefficient functions,
    then the regenerated stage formulas; `p > 4` does not exist in the source (identity here) -/
noncomputable def etdrkStepF (p : ℕ) (dt : ℂ) (lam : Spec C M) (Mc : ℕ) (r : ℂ) (N : Spec C M → Spec C M)
    (u : Spec C M) : Spec C M :=
  match p with
  | 0 => E0step (fun ch h => exp_term dt (lam ch h)) u
  | 1 => E1step (fun ch h => exp_term dt (lam ch h)) (fun ch h => E1_coef_1 dt (lam ch h) Mc r) N u
  | 2 => E2step (fun ch h => exp_term dt (lam ch h)) (fun ch h => E2_coef_1 dt (lam ch h) Mc r)
          (fun ch h => E2_coef_2 dt (lam ch h) Mc r) N u
  | 3 => E3step (fun ch h => exp_term dt (lam ch h)) (fun ch h => E3_half_exp_term dt (lam ch h) Mc r)
          (fun ch h => E3_coef_1 dt (lam ch h) Mc r) (fun ch h => E3_coef_2 dt (lam ch h) Mc r)
          (fun ch h => E3_coef_3 dt (lam ch h) Mc r) (fun ch h => E3_coef_4 dt (lam ch h) Mc r)
          (fun ch h => E3_coef_5 dt (lam ch h) Mc r) N u
  | 4 => E4step (fun ch h => exp_term dt (lam ch h)) (fun ch h => E4_half_exp_term dt (lam ch h) Mc r)
          (fun ch h => E4_coef_1 dt (lam ch h) Mc r) (fun ch h => E4_coef_2 dt (lam ch h) Mc r)
          (fun ch h => E4_coef_3 dt (lam ch h) Mc r) (fun ch h => E4_coef_4 dt (lam ch h) Mc r)
          (fun ch h => E4_coef_5 dt (lam ch h) Mc r) (fun ch h => E4_coef_6 dt (lam ch h) Mc r) N u
  | _ => u

/-- **T2 (assembled step, every order).** -/
theorem etdrkStepF_contDiff {n : WithTop ℕ∞} (p : ℕ) (dt : ℂ) (lam : Spec C M) (Mc : ℕ) (r : ℂ)
    (N : Spec C M → Spec C M) (hN : ContDiff ℝ n N) : ContDiff ℝ n (etdrkStepF p dt lam Mc r N) := by
  match p with
  | 0 => exact E0step_contDiff _
  | 1 => exact E1step_contDiff _ _ N hN
  | 2 => exact E2step_contDiff _ _ _ N hN
  | 3 => exact E3step_contDiff _ _ _ _ _ _ _ N hN
  | 4 => exact E4step_contDiff _ _ _ _ _ _ _ _ N hN
  | (k + 5) => exact contDiff_id

/-- **T2 (rollouts, every order).** -/
theorem etdrkStepF_rollout_contDiff {n : WithTop ℕ∞} (p : ℕ) (dt : ℂ) (lam : Spec C M) (Mc : ℕ) (r : ℂ)
    (N : Spec C M → Spec C M) (hN : ContDiff ℝ n N) (k : ℕ) : ContDiff ℝ n ((etdrkStepF p dt lam Mc r N)^[k]) :=
  iterate_contDiff (etdrkStepF_contDiff p dt lam Mc r N hN) k

/-- rollouts: the derivative is the ordered composition of the per-step derivatives along the orbit -/
theorem etdrkStepF_rollout_fderiv (p : ℕ) (dt : ℂ) (lam : Spec C M) (Mc : ℕ) (r : ℂ)
    (N : Spec C M → Spec C M) (hN : ContDiff ℝ 1 N) (u : Spec C M) (k : ℕ) :
    fderiv ℝ ((etdrkStepF p dt lam Mc r N)^[k]) u
      = iterFDeriv (etdrkStepF p dt lam Mc r N) (fderiv ℝ (etdrkStepF p dt lam Mc r N)) u k :=
  iterate_fderiv _ ((etdrkStepF_contDiff p dt lam Mc r N hN).differentiable (by norm_num)) u k

end Model

section ModelTerms
variable {term : MC ℂ → MC ℂ} {jvp : MC ℂ → MC ℂ → MC ℂ}

/-- **T2 for the model's terms**: ETDRK-`p` rollouts on stored spectra with a model term as nonlinear function -/
theorem TermCalc.etdrk_rollout_contDiff (h : TermCalc term jvp) (c : Cfg ℂ) (C : ℕ) {n : WithTop ℕ∞} (p : ℕ) (dt : ℂ)
    (lam : Spec C (modes c)) (Mc : ℕ) (r : ℂ) (k : ℕ) :
    ContDiff ℝ n ((etdrkStepF p dt lam Mc r (specMap c C C term))^[k]) :=
  etdrkStepF_rollout_contDiff p dt lam Mc r _ (h.specMap_contDiff c C C n) k

/-- order 2 with a model term: the derivative of one step, in terms of the term's JVP `N'(x)[w] = specJvp x w` -/
theorem TermCalc.etdrk2_fderiv (h : TermCalc term jvp) (c : Cfg ℂ) (C : ℕ) (E c1 c2 u v : Spec C (modes c)) :
    fderiv ℝ (E2step E c1 c2 (specMap c C C term)) u v
      = (E * v + c1 * specJvp c C C jvp u v)
        + c2 * (specJvp c C C jvp (E * u + c1 * specMap c C C term u) (E * v + c1 * specJvp c C C jvp u v)
                - specJvp c C C jvp u v) := by
  have hN : Differentiable ℝ (specMap c C C term) := (h.specMap_contDiff c C C 1).differentiable (by norm_num)
  rw [E2step_fderiv E c1 c2 _ hN u, E2stepV'_apply]
  simp only [h.specMap_fderiv]

/-- order 1 with a model term -/
theorem TermCalc.etdrk1_fderiv (h : TermCalc term jvp) (c : Cfg ℂ) (C : ℕ) (E c1 u v : Spec C (modes c)) :
    fderiv ℝ (E1step E c1 (specMap c C C term)) u v = E * v + c1 * specJvp c C C jvp u v := by
  have hN : Differentiable ℝ (specMap c C C term) := (h.specMap_contDiff c C C 1).differentiable (by norm_num)
  rw [E1step_fderiv E c1 _ hN u]
  simp only [_root_.add_apply, ContinuousLinearMap.comp_apply, mulL_apply, h.specMap_fderiv]

end ModelTerms

/-! ### between the model transforms: physical grid states -/

section Phys

/-- `rfftn` of a physical state, as a stored spectrum -/
noncomputable def physToSpec (c : Cfg ℂ) (C : ℕ) (u : Phys C (gridSize c)) : Spec C (modes c) :=
  readS C (modes c) (fftC c C (embP C (gridSize c) u))

/-- `irfftn` of a stored spectrum, as a physical state -/
noncomputable def specToPhys (c : Cfg ℂ) (C : ℕ) (x : Spec C (modes c)) : Phys C (gridSize c) :=
  readP C (gridSize c) (ifftC c C (embS C (modes c) x))

theorem physToSpec_contDiff (c : Cfg ℂ) (C : ℕ) (n : WithTop ℕ∞) : ContDiff ℝ n (physToSpec c C) := by
  have hA := funAlg₂_contDiff (X := Phys C (gridSize c)) n 0
  exact contDiff_readS C (modes c) _ (fftC_rel hA.toFunMod₂ c C (embP_rel hA.toFunMod₂ (fun L => L.contDiff)))

theorem specToPhys_contDiff (c : Cfg ℂ) (C : ℕ) (n : WithTop ℕ∞) : ContDiff ℝ n (specToPhys c C) := by
  have hA := funAlg₂_contDiff (X := Spec C (modes c)) n 0
  exact contDiff_readP C (gridSize c) _ (ifftC_rel hA.toFunMod₂ c C (embS_rel hA.toFunMod₂ (fun L => L.contDiff)))

theorem physToSpec_isLinearMap (c : Cfg ℂ) (C : ℕ) : IsLinearMap ℝ (physToSpec c C) := by
  have hM := funMod₂_linear (X := Phys C (gridSize c))
  exact isLinearMap_readS C (modes c) _ (fftC_rel hM c C (embP_rel hM (fun L => L.toLinearMap.isLinear)))

theorem specToPhys_isLinearMap (c : Cfg ℂ) (C : ℕ) : IsLinearMap ℝ (specToPhys c C) := by
  have hM := funMod₂_linear (X := Spec C (modes c))
  exact isLinearMap_readP C (gridSize c) _ (ifftC_rel hM c C (embS_rel hM (fun L => L.toLinearMap.isLinear)))

/-- what `BaseStepper.step` does: `ifft ∘ step_fourier ∘ fft` -/
noncomputable def physStep (c : Cfg ℂ) (C : ℕ) (S : Spec C (modes c) → Spec C (modes c)) (u : Phys C (gridSize c)) :
    Phys C (gridSize c) :=
  specToPhys c C (S (physToSpec c C u))

theorem physStep_contDiff (c : Cfg ℂ) (C : ℕ) {n : WithTop ℕ∞} (S : Spec C (modes c) → Spec C (modes c))
    (hS : ContDiff ℝ n S) : ContDiff ℝ n (physStep c C S) :=
  (specToPhys_contDiff c C n).comp (hS.comp (physToSpec_contDiff c C n))

/-- **T2 (whole stepper, physical states, every order, every model term with a `TermCalc`).**  `k` calls of
    `step = ifft ∘ ETDRK-p ∘ fft` are `ContDiff ℝ n` in the initial grid state -/
theorem TermCalc.phys_rollout_contDiff {term : MC ℂ → MC ℂ} {jvp : MC ℂ → MC ℂ → MC ℂ} (h : TermCalc term jvp)
    (c : Cfg ℂ) (C : ℕ) {n : WithTop ℕ∞} (p : ℕ) (dt : ℂ) (lam : Spec C (modes c)) (Mc : ℕ) (r : ℂ) (k : ℕ) :
    ContDiff ℝ n ((physStep c C (etdrkStepF p dt lam Mc r (specMap c C C term)))^[k]) :=
  iterate_contDiff (physStep_contDiff c C _ (etdrkStepF_contDiff p dt lam Mc r _ (h.specMap_contDiff c C C n))) k

/-- the chain rule through `fft`/`ifft` for one physical step: `D(step)(u) = ifft ∘ D(ETDRK)(fft u) ∘ fft` -/
theorem physStep_fderiv (c : Cfg ℂ) (C : ℕ) (S : Spec C (modes c) → Spec C (modes c)) (hS : Differentiable ℝ S)
    (u v : Phys C (gridSize c)) :
    fderiv ℝ (physStep c C S) u v = specToPhys c C (fderiv ℝ S (physToSpec c C u) (physToSpec c C v)) := by
  let A : Phys C (gridSize c) →L[ℝ] Spec C (modes c) :=
    LinearMap.toContinuousLinearMap (IsLinearMap.mk' _ (physToSpec_isLinearMap c C))
  let B : Spec C (modes c) →L[ℝ] Phys C (gridSize c) :=
    LinearMap.toContinuousLinearMap (IsLinearMap.mk' _ (specToPhys_isLinearMap c C))
  have hA : ∀ w, A w = physToSpec c C w := fun _ => rfl
  have hB : ∀ w, B w = specToPhys c C w := fun _ => rfl
  have h1 : HasFDerivAt (physStep c C S) (B.comp ((fderiv ℝ S (physToSpec c C u)).comp A)) u := by
    have := B.hasFDerivAt.comp u (((hS (A u)).hasFDerivAt).comp u A.hasFDerivAt)
    exact this
  rw [h1.fderiv]
  rfl

end Phys

/-! ## Part C — T3: the linear stepper's Jacobian is the stepper itself, whole state -/

section Linear

/-- the linear step on multi-channel spectra: `E0step` with a coefficient array `E` (e.g. `exp_term dt (λ h)`) -/
noncomputable def linearStepTerm (c : Cfg ℂ) (C : ℕ) (E : ℕ → ℕ → ℂ) (uh : MC ℂ) : MC ℂ :=
  tab2 C (modes c) (fun ch h => E0step (E ch h) (at2 uh ch h))

theorem linearStepTerm_termLin (c : Cfg ℂ) (C : ℕ) (E : ℕ → ℕ → ℂ) : TermLin (linearStepTerm c C E) :=
  ⟨fun R hM f f' hf => fun ch h =>
    hM.tab2_rel _ _ _ _ (fun ch _ h _ => hM.smul _ (hf ch h)) ch h⟩

/-- **T3.** `u ↦ irfftn (E ⊙ rfftn u)` is ℝ-linear on physical grid states (every `D`, `N`, `C`, any array `E`) -/
theorem linearStep_phys_isLinearMap (c : Cfg ℂ) (C : ℕ) (E : ℕ → ℕ → ℂ) :
    IsLinearMap ℝ (physMap c C C (linearStepTerm c C E)) :=
  (linearStepTerm_termLin c C E).physMap_isLinearMap c C C

/-- **T3.** … hence its Fréchet derivative at EVERY state `u` is the map itself -/
theorem linearStep_phys_jacobian (c : Cfg ℂ) (C : ℕ) (E : ℕ → ℕ → ℂ) (u : Phys C (gridSize c)) :
    ∃ L : Phys C (gridSize c) →L[ℝ] Phys C (gridSize c),
      (∀ v, L v = physMap c C C (linearStepTerm c C E) v) ∧
      HasFDerivAt (physMap c C C (linearStepTerm c C E)) L u ∧
      fderiv ℝ (physMap c C C (linearStepTerm c C E)) u = L :=
  ⟨(linearStepTerm_termLin c C E).physCLM c C C, fun _ => rfl,
    (linearStepTerm_termLin c C E).physMap_hasFDerivAt c C C u,
    ((linearStepTerm_termLin c C E).physMap_hasFDerivAt c C C u).fderiv⟩

theorem linearStep_phys_fderiv (c : Cfg ℂ) (C : ℕ) (E : ℕ → ℕ → ℂ) (u v : Phys C (gridSize c)) :
    fderiv ℝ (physMap c C C (linearStepTerm c C E)) u v = physMap c C C (linearStepTerm c C E) v :=
  (linearStepTerm_termLin c C E).physMap_fderiv c C C u v

/-- **T3, rollouts.** `k` linear steps: the derivative at every state is the `k`-step map itself -/
theorem linearStep_phys_rollout_fderiv (c : Cfg ℂ) (C : ℕ) (E : ℕ → ℕ → ℂ) (k : ℕ) (u v : Phys C (gridSize c)) :
    fderiv ℝ ((physMap c C C (linearStepTerm c C E))^[k]) u v = (physMap c C C (linearStepTerm c C E))^[k] v := by
  have hL := (linearStepTerm_termLin c C E).physCLM_apply c C C
  have e : (physMap c C C (linearStepTerm c C E))^[k] = fun w => (((linearStepTerm_termLin c C E).physCLM c C C) ^ k) w := by
    funext w
    induction k generalizing w with
    | zero => rfl
    | succ k ih => rw [Function.iterate_succ_apply', ih, pow_succ', _root_.mul_apply_eq_comp, hL]
  rw [e]
  exact congrArg (fun T : Phys C (gridSize c) →L[ℝ] Phys C (gridSize c) => T v)
    (((linearStepTerm_termLin c C E).physCLM c C C) ^ k).hasFDerivAt.fderiv

/-- the same on stored spectra: `E0step` with coefficient array `E` is its own derivative -/
theorem linearStep_spec_fderiv (c : Cfg ℂ) (C : ℕ) (E : ℕ → ℕ → ℂ) (x v : Spec C (modes c)) :
    fderiv ℝ (specMap c C C (linearStepTerm c C E)) x v = specMap c C C (linearStepTerm c C E) v :=
  (linearStepTerm_termLin c C E).specMap_fderiv c C C x v

/-- the spectral map of `linearStepTerm` IS the regenerated `E0step` on `Spec C M` with the restricted array -/
theorem specMap_linearStepTerm (c : Cfg ℂ) (C : ℕ) (E : ℕ → ℕ → ℂ) (x : Spec C (modes c)) :
    specMap c C C (linearStepTerm c C E) x = E0step (fun (ch : Fin C) (h : Fin (modes c)) => E ch h) x := by
  funext ch h
  simp only [specMap, readS, linearStepTerm, at2_tab2 _ _ _ _ _ ch.2 h.2, at2_embS, E0step, Pi.mul_apply]

/-- consequently `physMap … linearStepTerm = physStep … (E0step …)` is NOT needed for T3, but the two descriptions of the
    linear stepper agree: `ifft ∘ (E ⊙ ·) ∘ fft` -/
theorem physStep_E0step_isLinearMap (c : Cfg ℂ) (C : ℕ) (E : Spec C (modes c)) :
    IsLinearMap ℝ (physStep c C (E0step E)) := by
  have h1 := physToSpec_isLinearMap c C
  have h2 := specToPhys_isLinearMap c C
  refine ⟨fun x y => ?_, fun a x => ?_⟩
  · simp only [physStep, h1.map_add, E0step, mul_add, h2.map_add]
  · simp only [physStep, h1.map_smul, E0step, mul_smul_comm, h2.map_smul]

theorem physStep_E0step_fderiv (c : Cfg ℂ) (C : ℕ) (E : Spec C (modes c)) (u v : Phys C (gridSize c)) :
    fderiv ℝ (physStep c C (E0step E)) u v = physStep c C (E0step E) v := by
  let T : Phys C (gridSize c) →L[ℝ] Phys C (gridSize c) :=
    LinearMap.toContinuousLinearMap (IsLinearMap.mk' _ (physStep_E0step_isLinearMap c C E))
  have hT : physStep c C (E0step E) = fun w => T w := rfl
  rw [hT, T.hasFDerivAt.fderiv]

end Linear

end Exponax.DiffTerms
