import ExponaxModel.Proofs.LinearTestOrder
import Mathlib.Analysis.Calculus.MeanValue
/-
C02 support — T5: exponential Euler (ETDRK1) for a genuinely NONLINEAR, globally Lipschitz `N : ℂ → ℂ`.

`u' = λ u + N(u)` on `[0,T]`, exact solution `u` given as a hypothesis (`HasDerivAt u (λ u t + N (u t)) t`).

 * `variation_of_constants`  `y(b) = e^{c(b−a)} y(a) + ∫ₐᵇ e^{c(b−s)} f(s) ds` whenever `y' = c y + f`;
 * `expEuler_weight`         `(b−a)·φ₁(c(b−a)) = ∫ₐᵇ e^{c(b−s)} ds`  (φ₁ = the entire `phi1e`, so `c = 0` is covered);
 * `expEuler_defect`         one-step defect `≤ e^{ω(b−a)}·G·(b−a)²/2` if `‖f(s) − f(a)‖ ≤ G (s−a)`, `Re c ≤ ω`;
 * `expEuler_local_error`    local error of the regenerated `E1step` with the exact coefficients: `O(h²)`;
 * `expEuler_global_error`   global error `≤ K M T/2 · e^{(2ω+K)T} · dt` after `n` steps, `n·dt ≤ T`
                             (`K` = Lipschitz constant of `N`, `M` = bound of `‖u'‖` on `[0,T]`,
                             `ω ≥ max(0, Re λ)`): the constant does not depend on `|λ|` — stiffness-uniform.
-/
set_option linter.unusedVariables false
noncomputable section
namespace Exponax.LinearOrder
open Exponax Exponax.Spec Exponax.ContourTail Exponax.Gen.Etdrk intervalIntegral MeasureTheory

/-- **variation-of-constants formula** -/
theorem variation_of_constants (c : ℂ) (y f : ℝ → ℂ) (a b : ℝ) (hab : a ≤ b)
    (hy : ∀ s ∈ Set.Icc a b, HasDerivAt y (c * y s + f s) s) (hf : ContinuousOn f (Set.Icc a b)) :
    y b = Complex.exp (c * ((b : ℂ) - a)) * y a
      + ∫ s in a..b, Complex.exp (c * ((b : ℂ) - s)) * f s := by
  have hderiv : ∀ s ∈ Set.uIcc a b,
      HasDerivAt (fun s : ℝ => Complex.exp (c * ((b : ℂ) - s)) * y s)
        (Complex.exp (c * ((b : ℂ) - s)) * f s) s := by
    intro s hs
    rw [Set.uIcc_of_le hab] at hs
    have h1 : HasDerivAt (fun s : ℝ => Complex.exp (c * ((b : ℂ) - s)))
        (Complex.exp (c * ((b : ℂ) - s)) * (c * -1)) s :=
      (((hasDerivAt_ofReal s).const_sub (b : ℂ)).const_mul c).cexp
    have h2 := h1.mul (hy s hs)
    refine h2.congr_deriv ?_
    ring
  have hint : IntervalIntegrable (fun s : ℝ => Complex.exp (c * ((b : ℂ) - s)) * f s) volume a b := by
    apply ContinuousOn.intervalIntegrable
    rw [Set.uIcc_of_le hab]
    exact (Continuous.continuousOn (by fun_prop)).mul hf
  have h := integral_eq_sub_of_hasDerivAt hderiv hint
  simp only [sub_self, mul_zero, Complex.exp_zero, one_mul] at h
  rw [h]; ring

/-- the exponential-Euler weight is the integral of the propagator -/
theorem expEuler_weight (c : ℂ) (a b : ℝ) :
    ((b - a : ℝ) : ℂ) * phi1e (c * ((b - a : ℝ) : ℂ))
      = ∫ s in a..b, Complex.exp (c * ((b : ℂ) - s)) := by
  have h1 := intervalIntegral.integral_comp_sub_left (a := a) (b := b)
    (fun x : ℝ => Complex.exp (c * (x : ℂ))) b
  have h2 := intervalIntegral.smul_integral_comp_mul_left (a := (0 : ℝ)) (b := 1)
    (fun x : ℝ => Complex.exp (c * (x : ℂ))) (b - a)
  simp only [sub_self, mul_zero, mul_one, Complex.ofReal_sub, Complex.ofReal_mul] at h1 h2
  rw [h1, ← h2, phi1e_eq_integral, Complex.real_smul]
  congr 1
  refine integral_congr (fun x _ => ?_)
  simp only [Complex.ofReal_sub]
  ring_nf

/-- **one-step defect of exponential Euler** for `y' = c y + f`, `‖f(s) − f(a)‖ ≤ G (s − a)`, `Re c ≤ ω`, `0 ≤ ω` -/
theorem expEuler_defect (c : ℂ) (ω G : ℝ) (y f : ℝ → ℂ) (a b : ℝ) (hab : a ≤ b) (hω : 0 ≤ ω)
    (hc : c.re ≤ ω)
    (hy : ∀ s ∈ Set.Icc a b, HasDerivAt y (c * y s + f s) s) (hf : ContinuousOn f (Set.Icc a b))
    (hG : ∀ s ∈ Set.Icc a b, ‖f s - f a‖ ≤ G * (s - a)) :
    ‖y b - (Complex.exp (c * ((b - a : ℝ) : ℂ)) * y a
        + ((b - a : ℝ) : ℂ) * phi1e (c * ((b - a : ℝ) : ℂ)) * f a)‖
      ≤ Real.exp (ω * (b - a)) * G * (b - a) ^ 2 / 2 := by
  have hcont : Continuous fun s : ℝ => Complex.exp (c * ((b : ℂ) - s)) := by fun_prop
  have hint1 : IntervalIntegrable (fun s : ℝ => Complex.exp (c * ((b : ℂ) - s)) * f s) volume a b := by
    apply ContinuousOn.intervalIntegrable
    rw [Set.uIcc_of_le hab]
    exact hcont.continuousOn.mul hf
  have hint2 : IntervalIntegrable (fun s : ℝ => Complex.exp (c * ((b : ℂ) - s)) * f a) volume a b :=
    (hcont.mul continuous_const).intervalIntegrable _ _
  have hkey : y b - (Complex.exp (c * ((b - a : ℝ) : ℂ)) * y a
        + ((b - a : ℝ) : ℂ) * phi1e (c * ((b - a : ℝ) : ℂ)) * f a)
      = ∫ s in a..b, Complex.exp (c * ((b : ℂ) - s)) * (f s - f a) := by
    rw [variation_of_constants c y f a b hab hy hf, expEuler_weight c a b]
    have : (fun s : ℝ => Complex.exp (c * ((b : ℂ) - s)) * (f s - f a))
        = fun s : ℝ => Complex.exp (c * ((b : ℂ) - s)) * f s - Complex.exp (c * ((b : ℂ) - s)) * f a := by
      funext s; ring
    rw [this, integral_sub hint1 hint2, intervalIntegral.integral_mul_const]
    push_cast
    ring
  rw [hkey]
  have hbound : ∀ s ∈ Set.Ioc a b, ‖Complex.exp (c * ((b : ℂ) - s)) * (f s - f a)‖
      ≤ Real.exp (ω * (b - a)) * G * (s - a) := by
    intro s hs
    have hs' : s ∈ Set.Icc a b := ⟨hs.1.le, hs.2⟩
    have hre : (c * ((b : ℂ) - s)).re = c.re * (b - s) := by
      have : ((b : ℂ) - s) = ((b - s : ℝ) : ℂ) := by push_cast; ring
      rw [this, Complex.re_mul_ofReal]
    have hexp : ‖Complex.exp (c * ((b : ℂ) - s))‖ ≤ Real.exp (ω * (b - a)) := by
      rw [Complex.norm_exp, hre]
      refine Real.exp_le_exp.mpr ?_
      have h1 : c.re * (b - s) ≤ ω * (b - s) := mul_le_mul_of_nonneg_right hc (by linarith [hs.2])
      have h2 : ω * (b - s) ≤ ω * (b - a) := mul_le_mul_of_nonneg_left (by linarith [hs.1]) hω
      linarith
    rw [norm_mul, mul_assoc]
    exact mul_le_mul hexp (hG s hs') (norm_nonneg _) (Real.exp_pos _).le
  have hg : IntervalIntegrable (fun s : ℝ => Real.exp (ω * (b - a)) * G * (s - a)) volume a b :=
    (by fun_prop : Continuous fun s : ℝ => Real.exp (ω * (b - a)) * G * (s - a)).intervalIntegrable _ _
  refine (norm_integral_le_of_norm_le hab (Filter.Eventually.of_forall hbound) hg).trans (le_of_eq ?_)
  have hI : ∫ x in a..b, (x - a) = (b - a) ^ 2 / 2 := by
    have h := intervalIntegral.integral_comp_sub_right (a := a) (b := b) (fun x : ℝ => x) a
    simp only [sub_self] at h
    rw [h, integral_id]
    ring
  rw [intervalIntegral.integral_const_mul, hI]
  ring

/-! ### exponential Euler for `u' = λu + N(u)` -/

/-- the exact solution is `M`-Lipschitz in time -/
theorem solution_time_lipschitz (u u' : ℝ → ℂ) (a b M : ℝ)
    (hu : ∀ t ∈ Set.Icc a b, HasDerivAt u (u' t) t) (hM : ∀ t ∈ Set.Icc a b, ‖u' t‖ ≤ M) :
    ∀ s ∈ Set.Icc a b, ‖u s - u a‖ ≤ M * (s - a) :=
  norm_image_sub_le_of_norm_deriv_le_segment' (fun x hx => (hu x hx).hasDerivWithinAt)
    (fun x hx => hM x ⟨hx.1, hx.2.le⟩)

/-- **T5, local error of the regenerated ETDRK1 step** with the exact coefficients, nonlinear Lipschitz `N` -/
theorem expEuler_local_error (l : ℂ) (N : ℂ → ℂ) (K : NNReal) (hN : LipschitzWith K N) (u : ℝ → ℂ)
    (T M ω : ℝ) (hω : 0 ≤ ω) (hl : l.re ≤ ω)
    (hu : ∀ t ∈ Set.Icc (0 : ℝ) T, HasDerivAt u (l * u t + N (u t)) t)
    (hM : ∀ t ∈ Set.Icc (0 : ℝ) T, ‖l * u t + N (u t)‖ ≤ M)
    (t h : ℝ) (ht : 0 ≤ t) (hh : 0 ≤ h) (hth : t + h ≤ T) :
    ‖u (t + h) - E1step (Complex.exp (l * h)) (h * phi1e (l * h)) N (u t)‖
      ≤ Real.exp (ω * h) * (K * M) * h ^ 2 / 2 := by
  have hsub : Set.Icc t (t + h) ⊆ Set.Icc (0 : ℝ) T := fun s hs => ⟨ht.trans hs.1, hs.2.trans hth⟩
  have hucont : ContinuousOn u (Set.Icc t (t + h)) := fun s hs =>
    (hu s (hsub hs)).continuousAt.continuousWithinAt
  have hf : ContinuousOn (fun s => N (u s)) (Set.Icc t (t + h)) :=
    hN.continuous.comp_continuousOn hucont
  have hlip := solution_time_lipschitz u (fun t => l * u t + N (u t)) t (t + h) M
    (fun s hs => hu s (hsub hs)) (fun s hs => hM s (hsub hs))
  have hG : ∀ s ∈ Set.Icc t (t + h), ‖N (u s) - N (u t)‖ ≤ K * M * (s - t) := by
    intro s hs
    have h1 := hN.dist_le_mul (u s) (u t)
    rw [dist_eq_norm, dist_eq_norm] at h1
    calc ‖N (u s) - N (u t)‖ ≤ K * ‖u s - u t‖ := h1
      _ ≤ K * (M * (s - t)) := mul_le_mul_of_nonneg_left (hlip s hs) K.coe_nonneg
      _ = K * M * (s - t) := by ring
  have hd := expEuler_defect l ω (K * M) u (fun s => N (u s)) t (t + h) (by linarith) hω hl
    (fun s hs => hu s (hsub hs)) hf hG
  have hb : t + h - t = h := by ring
  rw [hb] at hd
  simpa [E1step] using hd

/-- stability of one exponential-Euler step: `‖S x − S y‖ ≤ e^{ω dt}(1 + K dt) ‖x − y‖` -/
theorem expEuler_stable (l : ℂ) (N : ℂ → ℂ) (K : NNReal) (hN : LipschitzWith K N) (ω dt : ℝ)
    (hω : 0 ≤ ω) (hl : l.re ≤ ω) (hdt : 0 ≤ dt) (x y : ℂ) :
    ‖E1step (Complex.exp (l * dt)) (dt * phi1e (l * dt)) N x
        - E1step (Complex.exp (l * dt)) (dt * phi1e (l * dt)) N y‖
      ≤ Real.exp (ω * dt) * (1 + K * dt) * ‖x - y‖ := by
  have hre : (l * (dt : ℂ)).re = l.re * dt := Complex.re_mul_ofReal l dt
  have hle : l.re * dt ≤ ω * dt := mul_le_mul_of_nonneg_right hl hdt
  have h1 : ‖Complex.exp (l * dt)‖ ≤ Real.exp (ω * dt) := by
    rw [Complex.norm_exp, hre]; exact Real.exp_le_exp.mpr hle
  have h2 : ‖phi1e (l * dt)‖ ≤ Real.exp (ω * dt) := by
    refine (norm_phi1e_le _).trans (max_le (Real.one_le_exp (mul_nonneg hω hdt)) ?_)
    rw [hre]; exact Real.exp_le_exp.mpr hle
  have h3 : ‖N x - N y‖ ≤ K * ‖x - y‖ := by
    have := hN.dist_le_mul x y
    rwa [dist_eq_norm, dist_eq_norm] at this
  have heq : E1step (Complex.exp (l * dt)) (dt * phi1e (l * dt)) N x
        - E1step (Complex.exp (l * dt)) (dt * phi1e (l * dt)) N y
      = Complex.exp (l * dt) * (x - y) + dt * phi1e (l * dt) * (N x - N y) := by
    simp only [E1step]; ring
  rw [heq]
  calc ‖Complex.exp (l * dt) * (x - y) + dt * phi1e (l * dt) * (N x - N y)‖
      ≤ ‖Complex.exp (l * dt)‖ * ‖x - y‖ + dt * ‖phi1e (l * dt)‖ * ‖N x - N y‖ := by
        refine (norm_add_le _ _).trans ?_
        rw [norm_mul, norm_mul, norm_mul, Complex.norm_real, Real.norm_eq_abs, abs_of_nonneg hdt]
    _ ≤ Real.exp (ω * dt) * ‖x - y‖ + dt * Real.exp (ω * dt) * (K * ‖x - y‖) := by gcongr
    _ = Real.exp (ω * dt) * (1 + K * dt) * ‖x - y‖ := by ring

/-- discrete Grönwall in the crude form used here -/
theorem discrete_gronwall (e : ℕ → ℝ) (A B : ℝ) (hA : 1 ≤ A) (hB : 0 ≤ B) (n : ℕ) (h0 : e 0 ≤ 0)
    (h : ∀ k < n, e (k + 1) ≤ A * e k + B) : ∀ k ≤ n, e k ≤ k * B * A ^ k := by
  intro k
  induction k with
  | zero => intro _; simpa using h0
  | succ k ih =>
    intro hk
    have h1 := h k (by omega)
    have h2 := ih (by omega)
    have hA0 : 0 ≤ A := by linarith
    have hAk : 1 ≤ A ^ (k + 1) := one_le_pow₀ hA
    calc e (k + 1) ≤ A * e k + B := h1
      _ ≤ A * (k * B * A ^ k) + B := by gcongr
      _ = k * B * A ^ (k + 1) + B * 1 := by ring
      _ ≤ k * B * A ^ (k + 1) + B * A ^ (k + 1) := by gcongr
      _ = ((k + 1 : ℕ) : ℝ) * B * A ^ (k + 1) := by push_cast; ring

/-- **T5, global error of exponential Euler** (the regenerated `E1step` with the exact coefficients) for a
    nonlinear `K`-Lipschitz `N`: after `n` steps of size `dt`, `n·dt ≤ T`, started at `u 0`,
    `‖u(n dt) − Uₙ‖ ≤ K M T/2 · e^{(2ω+K)T} · dt`. -/
theorem expEuler_global_error (l : ℂ) (N : ℂ → ℂ) (K : NNReal) (hN : LipschitzWith K N) (u : ℝ → ℂ)
    (T M ω : ℝ) (hω : 0 ≤ ω) (hl : l.re ≤ ω)
    (hu : ∀ t ∈ Set.Icc (0 : ℝ) T, HasDerivAt u (l * u t + N (u t)) t)
    (hM : ∀ t ∈ Set.Icc (0 : ℝ) T, ‖l * u t + N (u t)‖ ≤ M)
    (n : ℕ) (dt : ℝ) (hdt : 0 ≤ dt) (hn : n * dt ≤ T) :
    ‖u (n * dt) - (E1step (Complex.exp (l * dt)) (dt * phi1e (l * dt)) N)^[n] (u 0)‖
      ≤ K * M * T / 2 * Real.exp ((2 * ω + K) * T) * dt := by
  have hT : 0 ≤ T := le_trans (mul_nonneg (Nat.cast_nonneg n) hdt) hn
  have hM0 : 0 ≤ M := le_trans (norm_nonneg _) (hM 0 ⟨le_rfl, hT⟩)
  have hK0 : (0 : ℝ) ≤ K := K.coe_nonneg
  set S := E1step (Complex.exp (l * dt)) (dt * phi1e (l * dt)) N with hS
  set A := Real.exp (ω * dt) * (1 + K * dt) with hA
  set B := Real.exp (ω * dt) * (K * M) * dt ^ 2 / 2 with hB
  have hA1 : 1 ≤ A := by
    have h1 : 1 ≤ Real.exp (ω * dt) := Real.one_le_exp (mul_nonneg hω hdt)
    have h2 : 1 ≤ 1 + K * dt := by nlinarith
    calc (1 : ℝ) = 1 * 1 := by ring
      _ ≤ A := mul_le_mul h1 h2 zero_le_one (by linarith)
  have hB0 : 0 ≤ B := by positivity
  have hrec : ∀ k < n, ‖u ((k + 1 : ℕ) * dt) - S^[k + 1] (u 0)‖
      ≤ A * ‖u (k * dt) - S^[k] (u 0)‖ + B := by
    intro k hk
    have hk1 : ((k + 1 : ℕ) : ℝ) * dt ≤ T := by
      have : ((k + 1 : ℕ) : ℝ) ≤ n := by exact_mod_cast hk
      exact (mul_le_mul_of_nonneg_right this hdt).trans hn
    have hkt : ((k + 1 : ℕ) : ℝ) * dt = k * dt + dt := by push_cast; ring
    have hloc := expEuler_local_error l N K hN u T M ω hω hl hu hM (k * dt) dt
      (mul_nonneg (Nat.cast_nonneg k) hdt) hdt (by rw [← hkt]; exact hk1)
    have hst := expEuler_stable l N K hN ω dt hω hl hdt (u (k * dt)) (S^[k] (u 0))
    rw [Function.iterate_succ_apply', hkt]
    calc ‖u (k * dt + dt) - S (S^[k] (u 0))‖
        = ‖(u (k * dt + dt) - S (u (k * dt))) + (S (u (k * dt)) - S (S^[k] (u 0)))‖ := by
          congr 1; ring
      _ ≤ ‖u (k * dt + dt) - S (u (k * dt))‖ + ‖S (u (k * dt)) - S (S^[k] (u 0))‖ := norm_add_le _ _
      _ ≤ B + A * ‖u (k * dt) - S^[k] (u 0)‖ := add_le_add hloc hst
      _ = A * ‖u (k * dt) - S^[k] (u 0)‖ + B := by ring
  have hg := discrete_gronwall (fun k => ‖u (k * dt) - S^[k] (u 0)‖) A B hA1 hB0 n
    (by simp) hrec n le_rfl
  refine hg.trans ?_
  rcases Nat.eq_zero_or_pos n with rfl | hnpos
  · simp only [Nat.cast_zero, zero_mul, pow_zero]
    positivity
  have hn1 : (1 : ℝ) ≤ n := by exact_mod_cast hnpos
  have hdtT : dt ≤ T := le_trans (by nlinarith) hn
  have hAn : A ^ n ≤ Real.exp ((ω + K) * T) := by
    have h1 : A ≤ Real.exp ((ω + K) * dt) := by
      have : 1 + K * dt ≤ Real.exp (K * dt) := by
        have := Real.add_one_le_exp ((K : ℝ) * dt); linarith
      calc A ≤ Real.exp (ω * dt) * Real.exp (K * dt) :=
            mul_le_mul_of_nonneg_left this (Real.exp_pos _).le
        _ = Real.exp ((ω + K) * dt) := by rw [← Real.exp_add]; congr 1; ring
    calc A ^ n ≤ Real.exp ((ω + K) * dt) ^ n := pow_le_pow_left₀ (by linarith) h1 n
      _ = Real.exp (n * ((ω + K) * dt)) := by rw [Real.exp_nat_mul]
      _ ≤ Real.exp ((ω + K) * T) := by
          refine Real.exp_le_exp.mpr ?_
          calc (n : ℝ) * ((ω + K) * dt) = (ω + K) * (n * dt) := by ring
            _ ≤ (ω + K) * T := mul_le_mul_of_nonneg_left hn (by positivity)
  have hexp : Real.exp (ω * dt) ≤ Real.exp (ω * T) :=
    Real.exp_le_exp.mpr (mul_le_mul_of_nonneg_left hdtT hω)
  calc (n : ℝ) * B * A ^ n
      = Real.exp (ω * dt) * (K * M / 2 * dt) * (n * dt) * A ^ n := by rw [hB]; ring
    _ ≤ Real.exp (ω * T) * (K * M / 2 * dt) * T * Real.exp ((ω + K) * T) := by gcongr
    _ = K * M * T / 2 * (Real.exp (ω * T) * Real.exp ((ω + K) * T)) * dt := by ring
    _ = K * M * T / 2 * Real.exp ((2 * ω + K) * T) * dt := by
        rw [← Real.exp_add]; congr 3; ring

/-! ### non-vacuity: `N v = μ v` is `‖μ‖`-Lipschitz and `u t = e^{(λ+μ)t}` solves the equation with bounded
    derivative on `[0,1]` -/
example : ∃ (l : ℂ) (N : ℂ → ℂ) (K : NNReal) (u : ℝ → ℂ) (T M ω : ℝ), LipschitzWith K N ∧ 0 ≤ ω ∧ l.re ≤ ω ∧
    (∀ t ∈ Set.Icc (0 : ℝ) T, HasDerivAt u (l * u t + N (u t)) t) ∧
    (∀ t ∈ Set.Icc (0 : ℝ) T, ‖l * u t + N (u t)‖ ≤ M) ∧ 0 < T := by
  refine ⟨-1, fun v => Complex.I * v, 1, fun t => Complex.exp ((-1 + Complex.I) * t), 1, 2, 0, ?_,
    le_rfl, by simp, ?_, ?_, one_pos⟩
  · refine LipschitzWith.of_dist_le_mul (fun x y => ?_)
    rw [dist_eq_norm, dist_eq_norm, ← mul_sub, norm_mul, Complex.norm_I]
    simp
  · intro t _
    have h := hasDerivAt_exp_mul (-1 + Complex.I) t
    refine h.congr_deriv ?_
    ring
  · intro t ht
    have h1 : -1 * Complex.exp ((-1 + Complex.I) * t) + Complex.I * Complex.exp ((-1 + Complex.I) * t)
        = (-1 + Complex.I) * Complex.exp ((-1 + Complex.I) * t) := by ring
    rw [h1, norm_mul, Complex.norm_exp]
    have h2 : ‖(-1 + Complex.I : ℂ)‖ ≤ 2 := by
      refine (norm_add_le _ _).trans ?_
      simp; norm_num
    have h3 : Real.exp (((-1 + Complex.I) * (t : ℂ)).re) ≤ 1 := by
      rw [Real.exp_le_one_iff]
      simp
      exact ht.1
    calc _ ≤ 2 * 1 := mul_le_mul h2 h3 (Real.exp_pos _).le (by norm_num)
      _ = 2 := by ring

end Exponax.LinearOrder
end
