import ExponaxModel.Proofs.AliasND3Basic
import ExponaxModel.Proofs.AliasND3Rot
import ExponaxModel.Proofs.AliasND2Examples
/-
C03 in general dimension — part 11/12 entry point (H1, H2, H3) and non-vacuity.

  * `AliasND3Basic` : **H1** `general_alias_free_nd` (`GeneralNonlinearFun`, one channel, any `D`),
                      **H2** `bz_alias_free_nd` (Belousov–Zhabotinsky reaction, three channels, any `D`;
                      the model's `bzReact` is quadratic ⇒ `3·Kc < N`),
  * `AliasND3Rot`   : **H3** `projected3d_alias_free` (`ProjectedConvection3d` without injection,
                      `D = 3`), `projected3d_alias_free_explicit`, `rotSpec_eq_linConv`,
                      `lerayPsym_zero`, `invLapZeroSym_eq`,
  * this file       : concrete witnesses of the hypotheses (`D = 2`, `D = 3`; `N = 8` even, `N = 9`
                      odd; 2/3 rule; real scale `s = 1`) with a retained AND a dropped mode, and the
                      headline theorems instantiated at the witnesses.
-/
namespace Exponax.AliasND
open Exponax Exponax.Layout Exponax.Transform Exponax.DFT Exponax.Nonlin Exponax.Alias Finset

/-! ### the hypotheses are satisfiable -/

/-- H1 (`general_alias_free_nd`): `D = 3`, even `N`, 2/3 rule, `s = 1`, a retained and a dropped mode -/
example : ∃ (c : Cfg ℂ) (s : ℝ) (x : Array ℂ) (h h' : ℕ),
    0 < c.D ∧ c.fq ≠ 0 ∧ 3 * Kc c < (c.N : ℤ) ∧ 0 < c.N ∧ c.s = (s : ℂ) ∧
    IsRealND c.D c.N x ∧ h < numModes c.D c.N ∧ mask c h = 1 ∧ h' < numModes c.D c.N ∧ mask c h' = 0 :=
  ⟨cfg23 3, 1, ramp (8 ^ 3), 0, 2, by decide, by decide, by decide, by decide, cfg23_s 3,
    ramp_real 3 8, by decide, mask_zero_mode _ (by decide) (by decide), by decide, by
      unfold mask
      rw [if_neg (by decide), if_neg (by decide)]⟩

/-- H1, `D = 2`, odd `N` -/
example : ∃ (c : Cfg ℂ) (s : ℝ) (x : Array ℂ) (h h' : ℕ),
    0 < c.D ∧ c.fq ≠ 0 ∧ 3 * Kc c < (c.N : ℤ) ∧ 0 < c.N ∧ c.s = (s : ℂ) ∧
    IsRealND c.D c.N x ∧ h < numModes c.D c.N ∧ mask c h = 1 ∧ h' < numModes c.D c.N ∧ mask c h' = 0 :=
  ⟨cfg23odd 2, 1, ramp (9 ^ 2), 0, 3, by decide, by decide, by decide, by decide, cfg23odd_s 2,
    ramp_real 2 9, by decide, mask_zero_mode _ (by decide) (by decide), by decide, by
      unfold mask
      rw [if_neg (by decide), if_neg (by decide)]⟩

/-- H2 (`bz_alias_free_nd`): `D = 3`, 2/3 rule, three real states -/
example : ∃ (c : Cfg ℂ) (xa xb xd : Array ℂ) (h h' : ℕ),
    0 < c.D ∧ c.fq ≠ 0 ∧ 3 * Kc c < (c.N : ℤ) ∧ 0 < c.N ∧
    IsRealND c.D c.N xa ∧ IsRealND c.D c.N xb ∧ IsRealND c.D c.N xd ∧
    h < numModes c.D c.N ∧ mask c h = 1 ∧ h' < numModes c.D c.N ∧ mask c h' = 0 :=
  ⟨cfg23 3, ramp (8 ^ 3), tab (8 ^ 3) (fun _ => (1 : ℂ)), ramp (8 ^ 3), 0, 2, by decide, by decide,
    by decide, by decide, ramp_real 3 8, const_real 3 8, ramp_real 3 8, by decide,
    mask_zero_mode _ (by decide) (by decide), by decide, by
      unfold mask
      rw [if_neg (by decide), if_neg (by decide)]⟩

/-- the stored three-channel spectrum used as witness for H3 -/
noncomputable def uh3 : MC ℂ :=
  #[rfftnM 3 8 (ramp (8 ^ 3)), rfftnM 3 8 (tab (8 ^ 3) fun _ => (1 : ℂ)), rfftnM 3 8 (ramp (8 ^ 3))]

/-- … and its real velocity components -/
noncomputable def xs3 : ℕ → Array ℂ := fun ch => if ch = 1 then tab (8 ^ 3) (fun _ => (1 : ℂ)) else ramp (8 ^ 3)

theorem xs3_real (ch : ℕ) : IsRealND 3 8 (xs3 ch) := by
  unfold xs3
  split_ifs
  · exact const_real 3 8
  · exact ramp_real 3 8

theorem xs3_zero : xs3 0 = ramp (8 ^ 3) := if_neg (by decide)
theorem xs3_one : xs3 1 = tab (8 ^ 3) (fun _ => (1 : ℂ)) := if_pos rfl
theorem xs3_two : xs3 2 = ramp (8 ^ 3) := if_neg (by decide)

theorem uh3_eq (ch : ℕ) (hch : ch < 3) : uh3.getD ch #[] = rfftnM 3 8 (xs3 ch) := by
  interval_cases ch
  · rw [xs3_zero]; rfl
  · rw [xs3_one]; rfl
  · rw [xs3_two]; rfl

/-- H3 (`projected3d_alias_free`): `D = 3`, 2/3 rule, `s = 1`, three real velocity components, a
    retained and a dropped mode -/
example : ∃ (c : Cfg ℂ) (s : ℝ) (uh : MC ℂ) (xs : ℕ → Array ℂ) (i h h' : ℕ),
    c.D = 3 ∧ c.fq ≠ 0 ∧ 3 * Kc c < (c.N : ℤ) ∧ 0 < c.N ∧ c.s = (s : ℂ) ∧
    (∀ ch, ch < 3 → IsRealND c.D c.N (xs ch)) ∧
    (∀ ch, ch < 3 → uh.getD ch #[] = rfftnM c.D c.N (xs ch)) ∧ i < 3 ∧
    h < numModes c.D c.N ∧ mask c h = 1 ∧ h' < numModes c.D c.N ∧ mask c h' = 0 :=
  ⟨cfg23 3, 1, uh3, xs3, 1, 0, 2, rfl, by decide, by decide, by decide, cfg23_s 3,
    fun ch _ => xs3_real ch, uh3_eq, by norm_num, by decide,
    mask_zero_mode _ (by decide) (by decide), by decide, by
      unfold mask
      rw [if_neg (by decide), if_neg (by decide)]⟩

/-- `lapsym_eq_zero_iff`, `invLapZeroSym_eq`: a real non-zero scale -/
example : ∃ (c : Cfg ℂ) (s : ℝ), c.s = (s : ℂ) ∧ s ≠ 0 := ⟨cfg23 3, 1, cfg23_s 3, one_ne_zero⟩

/-- `dftV_cross_of_box`: six band-limited fields with known box spectra -/
example : ∃ (D N : ℕ) (K : ℤ) (v w : ℕ → Array ℂ) (V W : ℕ → (Fin D → ℤ) → ℂ) (i : ℕ)
    (k : Fin D → ℤ), 0 < N ∧ 3 * K < (N : ℤ) ∧ (∀ j, j < 3 → BandLimitedV D N K (v j)) ∧
    (∀ j, j < 3 → BandLimitedV D N K (w j)) ∧
    (∀ j, j < 3 → ∀ p : Fin D → ℤ, (∀ d, |p d| ≤ K) → dftV D N (v j) p = V j p) ∧
    (∀ j, j < 3 → ∀ p : Fin D → ℤ, (∀ d, |p d| ≤ K) → dftV D N (w j) p = W j p) ∧ i < 3 ∧
    ∀ d, |k d| ≤ K :=
  ⟨3, 8, 2, fun _ => tab (8 ^ 3) fun _ => (1 : ℂ), fun _ => tab (8 ^ 3) fun _ => (1 : ℂ),
    fun _ => dftV 3 8 (tab (8 ^ 3) fun _ => (1 : ℂ)), fun _ => dftV 3 8 (tab (8 ^ 3) fun _ => (1 : ℂ)),
    0, 0, by norm_num, by norm_num,
    fun _ _ => const_bandLimitedV 3 8 (by norm_num) 2 (by norm_num),
    fun _ _ => const_bandLimitedV 3 8 (by norm_num) 2 (by norm_num),
    fun _ _ _ _ => rfl, fun _ _ _ _ => rfl, by norm_num, fun d => by simp⟩

/-! ### the headline theorems instantiated at the witnesses -/

/-- H1 at `D = 3`, 2/3 rule, both values of the zero-mode fix -/
example (s0 s1 s2 : ℂ) (zeroFix : Bool) (h : ℕ) (hh : h < numModes 3 8) :=
  general_alias_free_nd_two_thirds (cfg23 3) (by decide) rfl rfl (by decide) 1 (cfg23_s 3) s0 s1 s2
    zeroFix _ (ramp_real 3 8) h hh

/-- H1 at `D = 2`, odd `N` -/
example (s0 s1 s2 : ℂ) (zeroFix : Bool) (h : ℕ) (hh : h < numModes 2 9) :=
  general_alias_free_nd (cfg23odd 2) (by decide) (by decide) (by decide) (by decide) 1 (cfg23odd_s 2)
    s0 s1 s2 zeroFix _ (ramp_real 2 9) h hh

/-- H2 at `D = 3`, 2/3 rule -/
example (h : ℕ) (hh : h < numModes 3 8) :=
  bz_alias_free_nd_two_thirds (cfg23 3) (by decide) rfl rfl (by decide) _ _ _
    (ramp_real 3 8) (const_real 3 8) (ramp_real 3 8) h hh

/-- H3 at `N = 8`, 2/3 rule -/
example (i : ℕ) (hi : i < 3) (h : ℕ) (hh : h < numModes 3 8) :=
  projected3d_alias_free_two_thirds (cfg23 3) rfl rfl rfl (by decide) 1 (cfg23_s 3) uh3 xs3
    (fun ch _ => xs3_real ch) uh3_eq i hi h hh

/-- H3, explicit form, at `N = 8` -/
example (i : ℕ) (hi : i < 3) (h : ℕ) (hh : h < numModes 3 8) :=
  projected3d_alias_free_explicit (cfg23 3) rfl (by decide) (by decide) (by decide) 1 (cfg23_s 3)
    uh3 xs3 (fun ch _ => xs3_real ch) uh3_eq i hi h hh

end Exponax.AliasND
