import ExponaxModel.Proofs.SmallGapsZero
import ExponaxModel.Proofs.SmallGapsDivFree
import ExponaxModel.Proofs.SmallGapsSpectrum
import ExponaxModel.Proofs.SmallGapsInterp
import ExponaxModel.Proofs.SmallGapsMetrics
import ExponaxModel.Proofs.SmallGapsSymbols
import ExponaxModel.Proofs.SmallGapsCoef
import ExponaxModel.Proofs.SmallGapsResample
/-
SmallGaps — gaps between the property statements (Properties/Cxx.lean) and the existing theorems, split by topic:

  G6 (C19)  SmallGapsZero      zero spectrum ↦ zero spectrum for every unforced nonlinear term; `E{0..4}step … 0 = 0`
  G7 (C10)  SmallGapsDivFree   ETDRK steps / rollouts of the 3-D velocity stepper preserve divergence-freeness
  G4 (C17)  SmallGapsSpectrum  average binning = sum binning / number of stored modes in the bin (count > 0)
  G1 (C15)  SmallGapsInterp    there-and-back of `map_between_resolutions` is the identity, every dimension
  G3 (C16)  SmallGapsMetrics   H1 metric = plain Fourier metric + metric of the spectral gradient
  G8 (C11)  SmallGapsSymbols   strict dissipation for positive-definite diffusion; isometry on odd grids
  G5 (C04)  SmallGapsCoef      composed coefficient extraction of a plane wave (derived factor `2^(n−1)`)
  G2 (C16)  SmallGapsResample  p = 2 aggregates (MSE / RMSE) of band-limited pairs do not depend on the resolution
-/
