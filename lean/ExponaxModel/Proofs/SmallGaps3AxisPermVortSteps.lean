import ExponaxModel.Proofs.SmallGaps3AxisPermVort
/-
SmallGaps3, part K4 (C08), step level: ETDRK steps of the 2-D vorticity Navier–Stokes stepper (no injection) commute with
`ω ↦ −P_σ ω`, `σ` the transposition of the two axes (the vorticity is a pseudo-scalar).

  * `NegGood c σ v v'`      the relation on spectral states "`v' = −P_σ v`" (`GoodMC c σ id v (−v')`);
  * `negGood_stepRel`       it is compatible with the ring operations of the stage formulas and isotropic coefficient arrays;
  * `liftTermND_negGood`    the lifted vorticity term preserves it (`vorticity2d_swap`, `vorticity2d_even`);
  * `E?step_negGood`        every ETDRK order `0..4`;
  * `E4_axisSwap_vorticity` (+ `physical_axisSwapNeg` for any order): `n` steps from `ω' = −P_σ ω` (real, Nyquist-free) end in
                            `ω'_n = −P_σ ω_n` on the grid.
-/
set_option linter.unusedVariables false
namespace Exponax.SmallGaps3
open Exponax Exponax.Layout Exponax.Transform Exponax.DFT Exponax.AliasND Exponax.Nonlin Exponax.Alias Exponax.AxisPerm
open Finset
open Exponax.Gen.Etdrk
open Exponax.EquivND (liftTermND specMC physCh liftTermND_apply)

/-- spectral states related by `v' = −P_σ v` (channel by channel) -/
def NegGood (c : Cfg ℂ) (σ : Equiv.Perm (Fin c.D)) (v v' : ℕ → ℕ → ℂ) : Prop := GoodMC c σ id v (-v')

theorem negGood_stepRel (c : Cfg ℂ) (hD : 0 < c.D) (hN : 0 < c.N) (σ : Equiv.Perm (Fin c.D)) :
    StepRel (NegGood c σ) (IsoCoef c σ id) where
  add := by
    intro a a' b b' h1 h2
    unfold NegGood at *
    rw [neg_add]
    exact (goodMC_stepRel c hD hN σ id).add h1 h2
  sub := by
    intro a a' b b' h1 h2
    unfold NegGood at *
    rw [neg_sub']
    exact (goodMC_stepRel c hD hN σ id).sub h1 h2
  mul := by
    intro e e' a b he h1
    unfold NegGood at *
    rw [← mul_neg]
    exact (goodMC_stepRel c hD hN σ id).mul he h1
  two := (goodMC_stepRel c hD hN σ id).two

theorem tab2_neg_eq (c : Cfg ℂ) (v' : ℕ → ℕ → ℂ) :
    tab2 1 (modes c) (-v') = negMC c (tab2 1 (modes c) v') := by
  unfold negMC
  apply Nonlin.tab2_congr
  intro ch i hch hi
  rw [Nonlin.at2_tab2 _ _ _ _ _ hch hi]
  rfl

/-- the lifted vorticity term preserves `v' = −P_σ v` -/
theorem liftTermND_negGood (c : Cfg ℂ) (hc : PermCfg c) (hD : 2 ≤ c.D) (scale : ℂ) (hsc : scale.im = 0)
    (v v' : ℕ → ℕ → ℂ) (h : NegGood c (swapσ c hD) v v') :
    NegGood c (swapσ c hD) (liftTermND c 1 (vorticity2d c scale none) v)
      (liftTermND c 1 (vorticity2d c scale none) v') := by
  have hin : MCSpecPerm c (swapσ c hD) id (tab2 1 (modes c) v) (tab2 1 (modes c) (-v')) :=
    mcSpecPerm_tab2 c hc.hN (swapσ c hD) id 1 (id_lt_iff 1) v (-v') (fun ch _ => h ch)
  rw [tab2_neg_eq] at hin
  have hout := vorticity2d_swap c hc hD scale hsc _ _ hin
  intro ch
  refine specPerm_congr c.D c.N hc.hN (swapσ c hD) _ _ _ _ ?_ ?_ (hout ch)
  · intro m hm
    have hm' : m < modes c := hm
    rw [DFT.tab_getD _ _ _ _ hm', DFT.tab_getD _ _ _ _ hm', liftTermND_apply c 1 _ v ch m hm']
  · intro m hm
    have hm' : m < modes c := hm
    rw [DFT.tab_getD _ _ _ _ hm', DFT.tab_getD _ _ _ _ hm']
    show at2 (negMC c _) ch m = -(liftTermND c 1 (vorticity2d c scale none) v' ch m)
    rw [liftTermND_apply c 1 _ v' ch m hm', at2_negMC_any, vorticity2d_even c hD hc.hN scale _ ch m]
    split_ifs with hc1
    · rfl
    · have : 1 ≤ ch := by
        by_contra hlt
        exact hc1 ⟨by omega, hm'⟩
      rw [vorticity2d_at2_out c scale _ ch m this, neg_zero]

/-! ### every order -/

section Steps
variable (c : Cfg ℂ) (hc : PermCfg c) (hD : 2 ≤ c.D) (scale : ℂ) (hsc : scale.im = 0)
include hc hsc

omit hsc in
theorem E0step_negGood {E E' u u' : ℕ → ℕ → ℂ} (hE : IsoCoef c (swapσ c hD) id E E')
    (hu : NegGood c (swapσ c hD) u u') : NegGood c (swapσ c hD) (E0step E u) (E0step E' u') :=
  E0step_rel (negGood_stepRel c hc.hD hc.hN _) hE hu

theorem E1step_negGood {E c1 E' c1' u u' : ℕ → ℕ → ℂ} (hE : IsoCoef c (swapσ c hD) id E E')
    (h1 : IsoCoef c (swapσ c hD) id c1 c1') (hu : NegGood c (swapσ c hD) u u') :
    NegGood c (swapσ c hD) (E1step E c1 (liftTermND c 1 (vorticity2d c scale none)) u)
      (E1step E' c1' (liftTermND c 1 (vorticity2d c scale none)) u') :=
  E1step_rel (negGood_stepRel c hc.hD hc.hN _) (liftTermND_negGood c hc hD scale hsc) hE h1 hu

theorem E2step_negGood {E c1 c2 E' c1' c2' u u' : ℕ → ℕ → ℂ} (hE : IsoCoef c (swapσ c hD) id E E')
    (h1 : IsoCoef c (swapσ c hD) id c1 c1') (h2 : IsoCoef c (swapσ c hD) id c2 c2')
    (hu : NegGood c (swapσ c hD) u u') :
    NegGood c (swapσ c hD) (E2step E c1 c2 (liftTermND c 1 (vorticity2d c scale none)) u)
      (E2step E' c1' c2' (liftTermND c 1 (vorticity2d c scale none)) u') :=
  E2step_rel (negGood_stepRel c hc.hD hc.hN _) (liftTermND_negGood c hc hD scale hsc) hE h1 h2 hu

theorem E3step_negGood {E Eh c1 c2 c3 c4 c5 E' Eh' c1' c2' c3' c4' c5' u u' : ℕ → ℕ → ℂ}
    (hE : IsoCoef c (swapσ c hD) id E E') (hEh : IsoCoef c (swapσ c hD) id Eh Eh')
    (h1 : IsoCoef c (swapσ c hD) id c1 c1') (h2 : IsoCoef c (swapσ c hD) id c2 c2')
    (h3 : IsoCoef c (swapσ c hD) id c3 c3') (h4 : IsoCoef c (swapσ c hD) id c4 c4')
    (h5 : IsoCoef c (swapσ c hD) id c5 c5') (hu : NegGood c (swapσ c hD) u u') :
    NegGood c (swapσ c hD) (E3step E Eh c1 c2 c3 c4 c5 (liftTermND c 1 (vorticity2d c scale none)) u)
      (E3step E' Eh' c1' c2' c3' c4' c5' (liftTermND c 1 (vorticity2d c scale none)) u') :=
  E3step_rel (negGood_stepRel c hc.hD hc.hN _) (liftTermND_negGood c hc hD scale hsc) hE hEh h1 h2 h3 h4 h5 hu

theorem E4step_negGood {E Eh c1 c2 c3 c4 c5 c6 E' Eh' c1' c2' c3' c4' c5' c6' u u' : ℕ → ℕ → ℂ}
    (hE : IsoCoef c (swapσ c hD) id E E') (hEh : IsoCoef c (swapσ c hD) id Eh Eh')
    (h1 : IsoCoef c (swapσ c hD) id c1 c1') (h2 : IsoCoef c (swapσ c hD) id c2 c2')
    (h3 : IsoCoef c (swapσ c hD) id c3 c3') (h4 : IsoCoef c (swapσ c hD) id c4 c4')
    (h5 : IsoCoef c (swapσ c hD) id c5 c5') (h6 : IsoCoef c (swapσ c hD) id c6 c6')
    (hu : NegGood c (swapσ c hD) u u') :
    NegGood c (swapσ c hD) (E4step E Eh c1 c2 c3 c4 c5 c6 (liftTermND c 1 (vorticity2d c scale none)) u)
      (E4step E' Eh' c1' c2' c3' c4' c5' c6' (liftTermND c 1 (vorticity2d c scale none)) u') :=
  E4step_rel (negGood_stepRel c hc.hD hc.hN _) (liftTermND_negGood c hc hD scale hsc) hE hEh h1 h2 h3 h4 h5 h6 hu

end Steps

/-! ### physical space -/

/-- the initial relation: real, Nyquist-free channels with `u' = −P_σ u` on the grid -/
theorem negGood_specMC (c : Cfg ℂ) (hD : 0 < c.D) (hN : 0 < c.N) (σ : Equiv.Perm (Fin c.D)) (u u' : MC ℂ)
    (hreal : ∀ ch, IsRealND c.D c.N (u.getD ch #[]))
    (hfree : ∀ ch, NyqFreeS c.D c.N (rfftnM c.D c.N (u.getD ch #[])))
    (hperm : ∀ ch j, j < c.N ^ c.D → (u'.getD ch #[]).getD j 0 = -(u.getD ch #[]).getD (permIdx c.D c.N σ j) 0) :
    NegGood c σ (specMC c.D c.N u) (specMC c.D c.N u') := by
  intro ch
  have base := specPerm_rfftn c.D c.N hD hN σ (u.getD ch #[]) (permField c.D c.N σ (u.getD ch #[])) (hreal ch)
    (hfree ch) (fieldPerm_permField c.D c.N σ _)
  refine specPerm_congr c.D c.N hN σ _ _ _ _ ?_ ?_ base
  · intro m hm
    rw [DFT.tab_getD _ _ _ _ (show m < modes c from hm)]
    rfl
  · intro m hm
    rw [DFT.tab_getD _ _ _ _ (show m < modes c from hm)]
    show _ = -(rfftnM c.D c.N (u'.getD ch #[])).getD m 0
    rw [rfftnM_getD c.D c.N hN _ m hm, rfftnM_getD c.D c.N hN _ m hm, ← Finset.sum_neg_distrib]
    apply Finset.sum_congr rfl
    intro j hj
    have hj' := Finset.mem_range.mp hj
    rw [permField_getD c.D c.N σ _ j hj', hperm ch j hj']
    ring

/-- back to physical space -/
theorem physCh_negGood (c : Cfg ℂ) (hN : 0 < c.N) (σ : Equiv.Perm (Fin c.D)) (v v' : ℕ → ℕ → ℂ)
    (h : NegGood c σ v v') (ch j : ℕ) (hj : j < c.N ^ c.D) :
    (physCh c.D c.N v' ch).getD j 0 = -(physCh c.D c.N v ch).getD (permIdx c.D c.N σ j) 0 := by
  have h1 := (h ch).2.2 j hj
  have e : (tab (modes c) ((-v') (id ch))) = tab (numModes c.D c.N) fun m => -(v' ch m) := rfl
  rw [e, irfftnM_neg_getD c.D c.N hN _ j hj] at h1
  have h2 : (irfftnM c.D c.N (tab (numModes c.D c.N) (v ch))).getD (permIdx c.D c.N σ j) 0
      = -(irfftnM c.D c.N (tab (numModes c.D c.N) (v' ch))).getD j 0 := h1.symm
  unfold physCh
  rw [h2, neg_neg]

/-- any pair of step maps preserving the relation, `n` steps -/
theorem physical_axisSwapNeg (c : Cfg ℂ) (hD : 0 < c.D) (hN : 0 < c.N) (σ : Equiv.Perm (Fin c.D))
    (step step' : (ℕ → ℕ → ℂ) → (ℕ → ℕ → ℂ))
    (hstep : ∀ v v', NegGood c σ v v' → NegGood c σ (step v) (step' v')) (n : ℕ) (u u' : MC ℂ)
    (hreal : ∀ ch, IsRealND c.D c.N (u.getD ch #[]))
    (hfree : ∀ ch, NyqFreeS c.D c.N (rfftnM c.D c.N (u.getD ch #[])))
    (hperm : ∀ ch j, j < c.N ^ c.D → (u'.getD ch #[]).getD j 0 = -(u.getD ch #[]).getD (permIdx c.D c.N σ j) 0)
    (ch j : ℕ) (hj : j < c.N ^ c.D) :
    (physCh c.D c.N (step'^[n] (specMC c.D c.N u')) ch).getD j 0
      = -(physCh c.D c.N (step^[n] (specMC c.D c.N u)) ch).getD (permIdx c.D c.N σ j) 0 :=
  physCh_negGood c hN σ _ _ (iterate_rel (NegGood c σ) step step' hstep n _ _
    (negGood_specMC c hD hN σ u u' hreal hfree hperm)) ch j hj

/-- **K4, step level, 2-D vorticity Navier–Stokes** (no injection): `n` ETDRK4 steps with isotropic coefficient arrays.
    If the initial vorticities satisfy `ω' = −P_σ ω` (`σ` the transposition; `ω` real, Nyquist-free) then so do the states
    after `n` steps, at every grid point. -/
theorem E4_axisSwap_vorticity (c : Cfg ℂ) (hc : PermCfg c) (hD : 2 ≤ c.D) (scale : ℂ) (hsc : scale.im = 0)
    {E Eh c1 c2 c3 c4 c5 c6 : ℕ → ℕ → ℂ} (hE : IsoCoef c (swapσ c hD) id E E) (hEh : IsoCoef c (swapσ c hD) id Eh Eh)
    (h1 : IsoCoef c (swapσ c hD) id c1 c1) (h2 : IsoCoef c (swapσ c hD) id c2 c2)
    (h3 : IsoCoef c (swapσ c hD) id c3 c3) (h4 : IsoCoef c (swapσ c hD) id c4 c4)
    (h5 : IsoCoef c (swapσ c hD) id c5 c5) (h6 : IsoCoef c (swapσ c hD) id c6 c6) (n : ℕ) (u u' : MC ℂ)
    (hreal : ∀ ch, IsRealND c.D c.N (u.getD ch #[]))
    (hfree : ∀ ch, NyqFreeS c.D c.N (rfftnM c.D c.N (u.getD ch #[])))
    (hperm : ∀ ch j, j < c.N ^ c.D →
      (u'.getD ch #[]).getD j 0 = -(u.getD ch #[]).getD (permIdx c.D c.N (swapσ c hD) j) 0)
    (ch j : ℕ) (hj : j < c.N ^ c.D) :
    (physCh c.D c.N ((E4step E Eh c1 c2 c3 c4 c5 c6 (liftTermND c 1 (vorticity2d c scale none)))^[n]
        (specMC c.D c.N u')) ch).getD j 0
      = -(physCh c.D c.N ((E4step E Eh c1 c2 c3 c4 c5 c6 (liftTermND c 1 (vorticity2d c scale none)))^[n]
        (specMC c.D c.N u)) ch).getD (permIdx c.D c.N (swapσ c hD) j) 0 :=
  physical_axisSwapNeg c hc.hD hc.hN (swapσ c hD) _ _
    (fun _ _ hv => E4step_negGood c hc hD scale hsc hE hEh h1 h2 h3 h4 h5 h6 hv) n u u' hreal hfree hperm ch j hj

/-! non-vacuity: the hypotheses on the states are met by `u = u' = ` the empty state (all channels zero), and by
`u' := −P_σ u` for any real Nyquist-free `u` (e.g. constants) -/
example (c : Cfg ℂ) (hN : 0 < c.N) (σ : Equiv.Perm (Fin c.D)) :
    ∃ u u' : MC ℂ, (∀ ch, IsRealND c.D c.N (u.getD ch #[])) ∧
      (∀ ch, NyqFreeS c.D c.N (rfftnM c.D c.N (u.getD ch #[]))) ∧
      (∀ ch j, j < c.N ^ c.D → (u'.getD ch #[]).getD j 0 = -(u.getD ch #[]).getD (permIdx c.D c.N σ j) 0) := by
  refine ⟨#[], #[], fun ch j _ => by simp, ?_, fun ch j _ => by simp⟩
  intro ch m hm _
  rw [rfftnM_getD c.D c.N hN _ m hm]
  apply Finset.sum_eq_zero
  intro j _
  simp

example (c : Cfg ℂ) (hc : PermCfg c) (hD : 2 ≤ c.D) : ∃ E, IsoCoef c (swapσ c hD) id E E :=
  ⟨_, isoCoef_generalLinear c hc.hs (swapσ c hD) id [0, 0, 1]
    (by intro x hx; simp at hx; rcases hx with rfl | rfl <;> simp)
    Complex.exp (fun z => by rw [← Complex.exp_conj])⟩

end Exponax.SmallGaps3
