import ExponaxModel.Proofs.ReadOffBasic
import ExponaxModel.Proofs.LerayAlgebra
/-
R2 (C12, physical-space link): the Kolmogorov injection of `Nonlin.vorticity2d` / `Nonlin.projected3d` is the
transform (`rfftnM`) of the documented forcing FIELD.

How the injection enters the model (read off `Model/Nonlin.lean`): it is ADDED to the already dealiased and
(3-D) Leray-projected convection spectrum, i.e. after dealiasing, with the `coef_extraction` scaling
(`scaling D N 2`), on the stored modes `(0, m)` (2-D, one mode) and `(0, ±m, 0)` (3-D, channel 0).  At the rest state
(`û = 0`) the convection part vanishes (`vorticity2d_rest_none`, `projected3d_rest_none`), so only the injection
contributes, and

* 2-D: `vorticity2d c scale (some (m, γ)) 0 = rfftn( −m s γ cos(m s x₁) )` — no extra factor, every `m` with `2m < N`
  (including `m = 0`, where both sides vanish), independent of `scale` and of the dealiasing fraction;
* 3-D: `projected3d c (some (m, γ)) 0 = ( rfftn( γ sin(m s x₁) ), 0, 0 )` for `0 < m`, `2m < N`.
  For `m = 0` the 3-D statement is FALSE for the model as written: the field `γ sin 0` is zero but the model puts
  `−i γ N³` into the mean mode of channel 0 (`projected3d_injection_m_zero`).

`x₁ = j₁ L/N`, `s = 2π/L`, so `m s x₁ = 2π m j₁/N = 2π κ·j/N` with `κ = (0, m)` resp. `(0, m, 0)`.
-/
set_option linter.unusedVariables false
namespace Exponax.ReadOff
open Exponax Exponax.Layout Exponax.Transform Exponax.ExactLinear Finset
open Exponax.Nonlin (Cfg MC at2 tab2 tabC modes gridSize mask nfft nifft vorticity2d projected3d leray kInt
  proj3 invLapZero)
open scoped ComplexConjugate

/-! ### the rest state -/

/-- the masked inverse transform of a vanishing spectrum vanishes -/
theorem nifft_zero (c : Cfg ℂ) (hN : 0 < c.N) (z : Array ℂ) (hz : ∀ h < modes c, z.getD h 0 = 0) (x : ℕ) :
    (nifft c z).getD x 0 = 0 := by
  have e : tab (modes c) (fun h => mask c h * z.getD h 0) = vzero (numModes c.D c.N) := by
    apply Nonlin.tab_congr
    intro h hh
    rw [hz h hh, mul_zero]
  unfold nifft
  rw [e, irfftnM_vzero c.D c.N hN, vzero_getD]

/-- the masked transform of a vanishing field vanishes -/
theorem nfft_zero (c : Cfg ℂ) (hN : 0 < c.N) (u : Array ℂ) (hu : ∀ j < c.N ^ c.D, u.getD j 0 = 0) (h : ℕ) :
    (nfft c u).getD h 0 = 0 := by
  unfold nfft
  simp only []
  rcases Nat.lt_or_ge h (modes c) with hh | hh
  · rw [Nonlin.tab_getD _ _ _ _ hh, DFT.rfftnM_getD c.D c.N hN u h hh]
    rw [Finset.sum_eq_zero (fun j hj => by rw [hu j (Finset.mem_range.mp hj), zero_mul]), mul_zero]
  · rw [Nonlin.tab_getD_of_le _ _ _ _ hh]

/-- the Leray projection of a vanishing spectrum vanishes -/
theorem leray_zero (c : Cfg ℂ) (wh : MC ℂ) (hw : ∀ d h, at2 wh d h = 0) (i h : ℕ) (hi : i < c.D)
    (hh : h < modes c) : at2 (leray c wh) i h = 0 := by
  rw [Nonlin.at2_leray c wh i h hi hh, Nonlin.specDiv_eq_sum, hw]
  rw [Finset.sum_eq_zero (fun d _ => by rw [hw, mul_zero])]
  ring

theorem cross_zero_left (b : ℂ × ℂ × ℂ) : Gen.Misc.cross_product_3d ((0 : ℂ), (0 : ℂ), (0 : ℂ)) b = (0, 0, 0) := by
  simp [Gen.Misc.cross_product_3d]

/-- **rest state, 2-D:** at `ω̂ = 0` the output of `vorticity2d` is exactly its injection term -/
theorem vorticity2d_rest (c : Cfg ℂ) (hN : 0 < c.N) (scale : ℂ) (uh : MC ℂ) (h0 : ∀ h, at2 uh 0 h = 0)
    (m : ℕ) (gam : ℂ) (h : ℕ) (hh : h < modes c) :
    at2 (vorticity2d c scale (some (m, gam)) uh) 0 h
      = if kInt c 0 h = 0 ∧ kInt c 1 h = (m : ℤ)
        then -(c.s * ((kInt c 1 h : ℤ) : ℂ)) * gam * scaling c.D c.N 2 (unflatten (wavenumberShape c.D c.N) h)
        else 0 := by
  obtain ⟨uH, vH, wxH, wyH, hmain, hu, hv, hwx, hwy⟩ := Nonlin.vorticity2d_spec c scale uh
  obtain ⟨e, hval, _, hsome⟩ := hmain (some (m, gam)) h hh
  rw [hval, hsome m gam rfl, nfft_zero c hN, mul_zero, zero_add]
  intro j hj
  have hj' : j < gridSize c := hj
  rw [Nonlin.tab_getD _ _ _ _ hj',
    nifft_zero c hN uH (fun h' hh' => by rw [hu h' hh', h0, mul_zero, mul_zero]),
    nifft_zero c hN vH (fun h' hh' => by rw [hv h' hh', h0, mul_zero, mul_zero])]
  ring

/-- without injection the rest state is a fixed point of the 2-D nonlinearity -/
theorem vorticity2d_rest_none (c : Cfg ℂ) (hN : 0 < c.N) (scale : ℂ) (uh : MC ℂ) (h0 : ∀ h, at2 uh 0 h = 0)
    (h : ℕ) (hh : h < modes c) : at2 (vorticity2d c scale none uh) 0 h = 0 := by
  obtain ⟨uH, vH, wxH, wyH, hmain, hu, hv, hwx, hwy⟩ := Nonlin.vorticity2d_spec c scale uh
  obtain ⟨e, hval, hnone, _⟩ := hmain none h hh
  rw [hval, hnone rfl, nfft_zero c hN, mul_zero, zero_add]
  intro j hj
  have hj' : j < gridSize c := hj
  rw [Nonlin.tab_getD _ _ _ _ hj',
    nifft_zero c hN uH (fun h' hh' => by rw [hu h' hh', h0, mul_zero, mul_zero]),
    nifft_zero c hN vH (fun h' hh' => by rw [hv h' hh', h0, mul_zero, mul_zero])]
  ring

/-- without injection the rest state is a fixed point of the 3-D nonlinearity -/
theorem projected3d_rest_none (c : Cfg ℂ) (hD : c.D = 3) (hN : 0 < c.N) (uh : MC ℂ)
    (h0 : ∀ i h, at2 uh i h = 0) (i h : ℕ) (hi : i < 3) (hh : h < modes c) :
    at2 (projected3d c none uh) i h = 0 := by
  unfold projected3d
  simp only []
  rw [Nonlin.at2_tab2 _ _ _ _ _ hi hh]
  apply leray_zero c _ _ i h (by omega) hh
  intro d h'
  rcases Nat.lt_or_ge d 3 with hd | hd
  · rw [Nonlin.at2_tabC _ _ _ _ hd]
    apply nfft_zero c hN
    intro j hj
    have hj' : j < gridSize c := hj
    change at2 _ d j = 0
    rw [Nonlin.at2_tab2 _ _ _ _ _ hd hj']
    have hv : ∀ k < 3, at2 (tabC 3 (fun i => nifft c (uh.getD i #[]))) k j = 0 := by
      intro k hk
      rw [Nonlin.at2_tabC _ _ _ _ hk]
      exact nifft_zero c hN _ (fun h'' _ => h0 k h'') j
    rw [hv 0 (by norm_num), hv 1 (by norm_num), hv 2 (by norm_num), cross_zero_left]
    simp [proj3]
  · unfold at2 tabC
    rw [Nonlin.tab_getD_of_le _ _ _ _ hd]
    simp

/-- **rest state, 3-D:** at `û = 0` the output of `projected3d` is exactly its injection term -/
theorem projected3d_rest (c : Cfg ℂ) (hD : c.D = 3) (hN : 0 < c.N) (uh : MC ℂ) (h0 : ∀ i h, at2 uh i h = 0)
    (m : ℕ) (gam : ℂ) (i h : ℕ) (hi : i < 3) (hh : h < modes c) :
    at2 (projected3d c (some (m, gam)) uh) i h
      = if i = 0 ∧ kInt c 0 h = 0 ∧ kInt c 2 h = 0 ∧ kInt c 1 h = (m : ℤ)
        then -Complex.I * gam * scaling c.D c.N 2 (unflatten (wavenumberShape c.D c.N) h)
        else if i = 0 ∧ kInt c 0 h = 0 ∧ kInt c 2 h = 0 ∧ kInt c 1 h = -(m : ℤ)
        then Complex.I * gam * scaling c.D c.N 2 (unflatten (wavenumberShape c.D c.N) h)
        else 0 := by
  have := Nonlin.projected3d_injection_documented c m gam uh i h hi hh
  rw [projected3d_rest_none c hD hN uh h0 i h hi hh, sub_zero] at this
  exact this

/-! ### the forcing fields on the grid -/

theorem exp_neg_pi_half : Complex.exp (((-(Real.pi / 2) : ℝ) : ℂ) * Complex.I) = -Complex.I := by
  have : ((-(Real.pi / 2) : ℝ) : ℂ) * Complex.I = -((Real.pi : ℂ) / 2 * Complex.I) := by push_cast; ring
  rw [this, Complex.exp_neg, Complex.exp_pi_div_two_mul_I, Complex.inv_I]

theorem exp_neg_neg_pi_half : Complex.exp (-(((-(Real.pi / 2) : ℝ) : ℂ) * Complex.I)) = Complex.I := by
  have : -(((-(Real.pi / 2) : ℝ) : ℂ) * Complex.I) = (Real.pi : ℂ) / 2 * Complex.I := by push_cast; ring
  rw [this, Complex.exp_pi_div_two_mul_I]

/-- `modeField` with phase `−π/2` is the sampled sine -/
theorem modeField_sine (D N : ℕ) (κ : List ℤ) (a : ℝ) :
    modeField D N κ a (-(Real.pi / 2))
      = tab (N ^ D) (fun j => (((a * Real.sin (2 * Real.pi * ((phaseK D N κ j : ℤ) : ℝ) / N)) : ℝ) : ℂ)) := by
  unfold modeField
  congr 1
  funext j
  rw [← sub_eq_add_neg, Real.cos_sub_pi_div_two]

/-- 2-D: `κ·j = m j₁` for `κ = (0, m)` (`j₁ = digit 2 N j 1`, the index along `x₁`) -/
theorem phaseK_2d_axis1 (N : ℕ) (m : ℤ) (j : ℕ) : phaseK 2 N [0, m] j = m * (digit 2 N j 1 : ℤ) := by
  rw [DFT.phaseK_eq_sum]
  simp [Finset.sum_range_succ]

/-- 3-D: `κ·j = m j₁` for `κ = (0, m, 0)` -/
theorem phaseK_3d_axis1 (N : ℕ) (m : ℤ) (j : ℕ) : phaseK 3 N [0, m, 0] j = m * (digit 3 N j 1 : ℤ) := by
  rw [DFT.phaseK_eq_sum]
  simp [Finset.sum_range_succ]

/-- the documented 2-D vorticity forcing `−m s γ cos(m s x₁)`, `x₁ = j₁ L/N`, on the grid -/
noncomputable def kolmogorovVorticity (N m : ℕ) (s γ : ℝ) : Array ℂ :=
  tab (N ^ 2) (fun j => (((-(m * s * γ) * Real.cos (2 * Real.pi * ((m : ℝ) * (digit 2 N j 1 : ℝ)) / N)) : ℝ) : ℂ))

/-- the documented 3-D velocity forcing `γ sin(m s x₁)` (channel 0) on the grid -/
noncomputable def kolmogorovVelocity (N m : ℕ) (γ : ℝ) : Array ℂ :=
  tab (N ^ 3) (fun j => (((γ * Real.sin (2 * Real.pi * ((m : ℝ) * (digit 3 N j 1 : ℝ)) / N)) : ℝ) : ℂ))

theorem kolmogorovVorticity_eq (N m : ℕ) (s γ : ℝ) :
    kolmogorovVorticity N m s γ = modeField 2 N [0, (m : ℤ)] (-(m * s * γ)) 0 := by
  unfold kolmogorovVorticity modeField
  congr 1
  funext j
  rw [phaseK_2d_axis1, add_zero]
  push_cast
  rfl

theorem kolmogorovVelocity_eq (N m : ℕ) (γ : ℝ) :
    kolmogorovVelocity N m γ = modeField 3 N [0, (m : ℤ), 0] γ (-(Real.pi / 2)) := by
  rw [modeField_sine]
  unfold kolmogorovVelocity
  congr 1
  funext j
  rw [phaseK_3d_axis1]
  push_cast
  rfl

/-! ### R2, 2-D -/

theorem belowNyquist_2d (N m : ℕ) (hmN : 2 * m < N) : BelowNyquist 2 N [0, (m : ℤ)] := by
  refine ⟨rfl, ?_⟩
  intro d hd
  interval_cases d
  · simp; omega
  · simp only [List.getD_cons_succ, List.getD_cons_zero, Nat.abs_cast]; omega

theorem belowNyquist_3d (N m : ℕ) (hmN : 2 * m < N) : BelowNyquist 3 N [0, (m : ℤ), 0] := by
  refine ⟨rfl, ?_⟩
  intro d hd
  interval_cases d
  · simp; omega
  · simp only [List.getD_cons_succ, List.getD_cons_zero, Nat.abs_cast]; omega
  · simp; omega

theorem wnFlat_eq_2d (c : Cfg ℂ) (hD : c.D = 2) (h : ℕ) (a b : ℤ) :
    wnFlat c.D c.N h = [a, b] ↔ kInt c 0 h = a ∧ kInt c 1 h = b := by
  unfold kInt
  constructor
  · intro he; rw [he]; simp
  · rintro ⟨h1, h2⟩
    apply list_ext_getD _ _ 2 (by rw [wnFlat_length, hD]) rfl
    intro d hd
    interval_cases d
    · simpa using h1
    · simpa using h2

theorem wnFlat_eq_3d (c : Cfg ℂ) (hD : c.D = 3) (h : ℕ) (a b e : ℤ) :
    wnFlat c.D c.N h = [a, b, e] ↔ kInt c 0 h = a ∧ kInt c 1 h = b ∧ kInt c 2 h = e := by
  unfold kInt
  constructor
  · intro he; rw [he]; simp
  · rintro ⟨h1, h2, h3⟩
    apply list_ext_getD _ _ 3 (by rw [wnFlat_length, hD]) rfl
    intro d hd
    interval_cases d
    · simpa using h1
    · simpa using h2
    · simpa using h3

/-- **R2, 2-D (entrywise).**  At the rest state the one-channel output of `vorticity2d` with injection `(m, γ)` is the
    transform of the vorticity forcing `−m s γ cos(m s x₁)`, at every stored mode, for every `N > 2m`, every `scale`,
    every dealiasing fraction. -/
theorem vorticity2d_injection_is_forcing (c : Cfg ℂ) (s γ : ℝ) (hs : c.s = (s : ℂ)) (hD : c.D = 2)
    (scale : ℂ) (m : ℕ) (hmN : 2 * m < c.N) (uh : MC ℂ) (h0 : ∀ h, at2 uh 0 h = 0)
    (h : ℕ) (hh : h < modes c) :
    at2 (vorticity2d c scale (some (m, (γ : ℂ))) uh) 0 h
      = (rfftnM c.D c.N (modeField c.D c.N [0, (m : ℤ)] (-(m * s * γ)) 0)).getD h 0 := by
  have hN : 0 < c.N := by omega
  have hκ : BelowNyquist c.D c.N [0, (m : ℤ)] := by rw [hD]; exact belowNyquist_2d c.N m hmN
  rw [vorticity2d_rest c hN scale uh h0 m γ h hh,
    rfftnM_modeField c.D c.N (by omega) hN _ hκ _ 0 h hh]
  rcases Nat.eq_zero_or_pos m with hm | hm
  · subst hm
    simp only [Nat.cast_zero, zero_mul, neg_zero, Complex.ofReal_zero, zero_div, ite_self, add_zero]
    split_ifs with hc
    · rw [hc.2]; simp
    · rfl
  · have hB : ¬ wnFlat c.D c.N h = negK [0, (m : ℤ)] := by
      intro he
      have := wnFlat_last_nonneg c.D c.N h (by omega)
      rw [he, hD] at this
      simp [negK] at this
      omega
    rw [if_neg hB, add_zero]
    by_cases hA : kInt c 0 h = 0 ∧ kInt c 1 h = (m : ℤ)
    · rw [if_pos hA, if_pos ((wnFlat_eq_2d c hD h 0 m).mpr hA),
        Nonlin.scaling_at_kolmogorov_2d c hD h m hm hmN hA.1 hA.2, hA.2, hs, hD]
      simp only [Complex.ofReal_zero, zero_mul, Complex.exp_zero, mul_one]
      push_cast
      ring
    · rw [if_neg hA, if_neg (fun he => hA ((wnFlat_eq_2d c hD h 0 m).mp he))]

/-- the output has exactly one channel … -/
theorem vorticity2d_size (c : Cfg ℂ) (scale : ℂ) (inj : Option (ℕ × ℂ)) (uh : MC ℂ) :
    (vorticity2d c scale inj uh).size = 1 := by
  unfold vorticity2d tab2
  simp

/-- … of `numModes` entries -/
theorem vorticity2d_channel_size (c : Cfg ℂ) (scale : ℂ) (inj : Option (ℕ × ℂ)) (uh : MC ℂ) :
    ((vorticity2d c scale inj uh).getD 0 #[]).size = numModes c.D c.N := by
  unfold vorticity2d tab2
  simp only []
  rw [Nonlin.tab_getD _ _ _ _ (by norm_num)]
  simp [modes]

/-- **R2, 2-D (array form).**  `vorticity2d c scale (some (m, γ)) 0 = [ rfftn( −m s γ cos(m s x₁) ) ]`. -/
theorem vorticity2d_injection_is_forcing_array (c : Cfg ℂ) (s γ : ℝ) (hs : c.s = (s : ℂ)) (hD : c.D = 2)
    (scale : ℂ) (m : ℕ) (hmN : 2 * m < c.N) (uh : MC ℂ) (h0 : ∀ h, at2 uh 0 h = 0) :
    (vorticity2d c scale (some (m, (γ : ℂ))) uh).getD 0 #[]
      = rfftnM 2 c.N (kolmogorovVorticity c.N m s γ) := by
  rw [kolmogorovVorticity_eq]
  apply array_ext_getD _ _ (numModes c.D c.N) (vorticity2d_channel_size c scale _ uh) (by rw [hD]; simp)
  intro h hh
  have := vorticity2d_injection_is_forcing c s γ hs hD scale m hmN uh h0 h hh
  rw [hD] at this
  exact this

/-! ### R2, 3-D -/

/-- **R2, 3-D (entrywise).**  At the rest state the output of `projected3d` with injection `(m, γ)`, `0 < m`, `2m < N`,
    is the transform of `γ sin(m s x₁)` in channel 0 and zero in channels 1, 2. -/
theorem projected3d_injection_is_forcing (c : Cfg ℂ) (γ : ℝ) (hD : c.D = 3) (m : ℕ) (hm : 0 < m)
    (hmN : 2 * m < c.N) (uh : MC ℂ) (h0 : ∀ i h, at2 uh i h = 0) (i h : ℕ) (hi : i < 3)
    (hh : h < modes c) :
    at2 (projected3d c (some (m, (γ : ℂ))) uh) i h
      = if i = 0 then (rfftnM c.D c.N (modeField c.D c.N [0, (m : ℤ), 0] γ (-(Real.pi / 2)))).getD h 0 else 0 := by
  have hN : 0 < c.N := by omega
  have hκ : BelowNyquist c.D c.N [0, (m : ℤ), 0] := by rw [hD]; exact belowNyquist_3d c.N m hmN
  rw [projected3d_rest c hD hN uh h0 m γ i h hi hh]
  by_cases hi0 : i = 0
  · subst hi0
    rw [if_pos rfl, rfftnM_modeField c.D c.N (by omega) hN _ hκ _ _ h hh, exp_neg_pi_half,
      exp_neg_neg_pi_half]
    have hneg : negK [0, (m : ℤ), 0] = [0, -(m : ℤ), 0] := by simp [negK]
    rw [hneg]
    by_cases hA : kInt c 0 h = 0 ∧ kInt c 2 h = 0 ∧ kInt c 1 h = (m : ℤ)
    · have hA' : wnFlat c.D c.N h = [0, (m : ℤ), 0] := (wnFlat_eq_3d c hD h 0 m 0).mpr ⟨hA.1, hA.2.2, hA.2.1⟩
      have hB' : ¬ wnFlat c.D c.N h = [0, -(m : ℤ), 0] := by
        rw [hA']; intro he; simp at he; omega
      rw [if_pos ⟨rfl, hA⟩, if_pos hA', if_neg hB', add_zero,
        Nonlin.scaling_at_kolmogorov_3d c hD h m hm hmN hA.1 hA.2.1 (Or.inl hA.2.2), hD]
      push_cast
      ring
    · have hA' : ¬ wnFlat c.D c.N h = [0, (m : ℤ), 0] := fun he =>
        hA (by have := (wnFlat_eq_3d c hD h 0 m 0).mp he; exact ⟨this.1, this.2.2, this.2.1⟩)
      rw [if_neg (fun hc => hA hc.2), if_neg hA', zero_add]
      by_cases hB : kInt c 0 h = 0 ∧ kInt c 2 h = 0 ∧ kInt c 1 h = -(m : ℤ)
      · have hB' : wnFlat c.D c.N h = [0, -(m : ℤ), 0] :=
          (wnFlat_eq_3d c hD h 0 (-m) 0).mpr ⟨hB.1, hB.2.2, hB.2.1⟩
        rw [if_pos ⟨rfl, hB⟩, if_pos hB',
          Nonlin.scaling_at_kolmogorov_3d c hD h m hm hmN hB.1 hB.2.1 (Or.inr hB.2.2), hD]
        push_cast
        ring
      · have hB' : ¬ wnFlat c.D c.N h = [0, -(m : ℤ), 0] := fun he =>
          hB (by have := (wnFlat_eq_3d c hD h 0 (-m) 0).mp he; exact ⟨this.1, this.2.2, this.2.1⟩)
        rw [if_neg (fun hc => hB hc.2), if_neg hB']
  · rw [if_neg (fun hc => hi0 hc.1), if_neg (fun hc => hi0 hc.1), if_neg hi0]

theorem projected3d_size (c : Cfg ℂ) (inj : Option (ℕ × ℂ)) (uh : MC ℂ) :
    (projected3d c inj uh).size = 3 := by
  unfold projected3d tab2
  simp

theorem projected3d_channel_size (c : Cfg ℂ) (inj : Option (ℕ × ℂ)) (uh : MC ℂ) (i : ℕ) (hi : i < 3) :
    ((projected3d c inj uh).getD i #[]).size = numModes c.D c.N := by
  unfold projected3d tab2
  simp only []
  rw [Nonlin.tab_getD _ _ _ _ hi]
  simp [modes]

/-- **R2, 3-D (array form).**  channel 0 is `rfftn( γ sin(m s x₁) )`, channels 1 and 2 are zero spectra. -/
theorem projected3d_injection_is_forcing_array (c : Cfg ℂ) (γ : ℝ) (hD : c.D = 3) (m : ℕ) (hm : 0 < m)
    (hmN : 2 * m < c.N) (uh : MC ℂ) (h0 : ∀ i h, at2 uh i h = 0) :
    (projected3d c (some (m, (γ : ℂ))) uh).getD 0 #[] = rfftnM 3 c.N (kolmogorovVelocity c.N m γ) ∧
    (projected3d c (some (m, (γ : ℂ))) uh).getD 1 #[] = vzero (numModes 3 c.N) ∧
    (projected3d c (some (m, (γ : ℂ))) uh).getD 2 #[] = vzero (numModes 3 c.N) := by
  refine ⟨?_, ?_, ?_⟩
  · rw [kolmogorovVelocity_eq]
    apply array_ext_getD _ _ (numModes c.D c.N) (projected3d_channel_size c _ uh 0 (by norm_num))
      (by rw [hD]; simp)
    intro h hh
    have := projected3d_injection_is_forcing c γ hD m hm hmN uh h0 0 h (by norm_num) hh
    rw [if_pos rfl, hD] at this
    exact this
  · apply array_ext_getD _ _ (numModes c.D c.N) (projected3d_channel_size c _ uh 1 (by norm_num))
      (by rw [hD]; simp)
    intro h hh
    have := projected3d_injection_is_forcing c γ hD m hm hmN uh h0 1 h (by norm_num) hh
    rw [if_neg (by norm_num)] at this
    rw [vzero_getD]
    exact this
  · apply array_ext_getD _ _ (numModes c.D c.N) (projected3d_channel_size c _ uh 2 (by norm_num))
      (by rw [hD]; simp)
    intro h hh
    have := projected3d_injection_is_forcing c γ hD m hm hmN uh h0 2 h (by norm_num) hh
    rw [if_neg (by norm_num)] at this
    rw [vzero_getD]
    exact this

/-- the requested 3-D statement is FALSE for `m = 0`: the forcing field `γ sin 0` vanishes, but the model writes
    `−i γ N³` into the mean mode of channel 0 -/
theorem projected3d_injection_m_zero (c : Cfg ℂ) (γ : ℝ) (hD : c.D = 3) (hN : 0 < c.N) (uh : MC ℂ)
    (h0 : ∀ i h, at2 uh i h = 0) :
    at2 (projected3d c (some (0, (γ : ℂ))) uh) 0 0 = -Complex.I * γ * ((c.N : ℂ) ^ 3) := by
  have hM : 0 < modes c := by
    change 0 < numModes c.D c.N
    rw [numModes_eq]; positivity
  have hk : ∀ d, kInt c d 0 = 0 := fun d => wnFlat_zero c.D c.N d
  rw [projected3d_rest c hD hN uh h0 0 γ 0 0 (by norm_num) hM,
    if_pos ⟨rfl, hk 0, hk 2, by rw [hk 1]; simp⟩, Nonlin.scaling_coef_extraction_3d c hD 0, hk 0, hk 1, hk 2]
  have hsp : ∀ b, isSpecial c.N b 0 = true := fun b => by simp [isSpecial]
  simp only [axisScale, hsp, if_true, lit_eq]
  ring

/-! non-vacuity -/
example : ∃ (c : Cfg ℂ) (s : ℝ) (m : ℕ) (uh : MC ℂ), c.s = (s : ℂ) ∧ c.D = 2 ∧ 2 * m < c.N ∧ 0 < m ∧
    (∀ h, at2 uh 0 h = 0) ∧ 0 < modes c :=
  ⟨⟨2, 8, ((1 : ℝ) : ℂ), 2, 3⟩, 1, 2, #[], rfl, rfl, by norm_num, by norm_num,
    fun h => by simp [at2], by decide⟩
example : ∃ (c : Cfg ℂ) (m : ℕ) (uh : MC ℂ), c.D = 3 ∧ 2 * m < c.N ∧ 0 < m ∧
    (∀ i h, at2 uh i h = 0) ∧ 0 < modes c :=
  ⟨⟨3, 8, 1, 2, 3⟩, 2, #[], rfl, by norm_num, by norm_num, fun i h => by simp [at2], by decide⟩

end Exponax.ReadOff
