import ExponaxModel.Proofs.Invariants
import ExponaxModel.Proofs.LerayAlgebra
import ExponaxModel.Proofs.CrossProduct
import ExponaxModel.Proofs.ConserveMean
/-
C09 (invariants), part 3 — 3-D Navier–Stokes in rotational form (`projected3d`, no injection): the
projected convection `P(u × ω)` does no work on a band-limited divergence-free velocity.

What the model does (`Model/Nonlin.lean`, `projected3d`):
  `ω̂ = (i s k) × û` (no mask), `ω = ifft(mask·ω̂)`, `u = ifft(mask·û)` (mask BEFORE every inverse
  transform), `c = u × ω` pointwise on the grid, `ĉ = mask·fft(c)` (mask AFTER the forward transform),
  `out = P ĉ` (Leray projection applied AFTER the mask; `P` is diagonal in `h`, so it commutes with it).

Identity satisfied:  `Σ_i Σ_j (u_i)_j · irfftn(out_i)_j = 0`  with `u_i = ifft(mask·û_i)` the TRUNCATED
velocity, provided the truncated velocity is divergence-free at every stored mode.
  * the pressure part `d_i·q` of `P ĉ` is orthogonal to `u` mode by mode (`Σ_i d_i conj û_i = −conj(d·û) = 0`);
  * the mask after the forward transform is invisible to the band-limited `u` (adjointness);
  * `Σ_i u_i (u × ω)_i = 0` POINTWISE on the grid — so no alias-freeness is needed: only `2·Kc < N`
    (band-limited ⇔ stored-band-limited), not `3·Kc < N`.
-/
set_option linter.unusedVariables false
set_option linter.unusedSimpArgs false
namespace Exponax.Invariants
open Exponax Exponax.Layout Exponax.Transform Exponax.DFT Exponax.Nonlin Exponax.Alias Exponax.AliasND Exponax.Conserve Finset

/-! ### read-off of `projected3d` without injection -/

/-- the grid field `(u × ω)_i` handed to the forward transform, verbatim the model's expression -/
noncomputable def crossArr (c : Cfg ℂ) (uh : MC ℂ) (i : ℕ) : Array ℂ :=
  tab (c.N ^ c.D) (fun x => crossGrid c uh i x)

/-- the masked transform of `u × ω`, three channels -/
noncomputable def convHat (c : Cfg ℂ) (uh : MC ℂ) : MC ℂ := tabC 3 (fun i => nfft c (crossArr c uh i))

theorem tabC_congr (nc : ℕ) (f g : ℕ → Array ℂ) (h : ∀ i, i < nc → f i = g i) : tabC nc f = tabC nc g :=
  Nonlin.tab_congr _ _ _ h

theorem tab2_getD (nc n : ℕ) (F : ℕ → ℕ → ℂ) (k : ℕ) (hk : k < nc) :
    (tab2 nc n F).getD k #[] = tab n (F k) := by
  unfold tab2
  rw [Nonlin.tab_getD _ _ _ _ hk]

/-- `projected3d c none û = leray (mask·fft(u × ω))`, entrywise -/
theorem projected3d_none_at2 (c : Cfg ℂ) (uh : MC ℂ) (i h : ℕ) (hi : i < 3) (hh : h < modes c) :
    at2 (projected3d c none uh) i h = at2 (leray c (convHat c uh)) i h := by
  unfold projected3d
  simp only []
  rw [at2_tab2 _ _ _ _ _ hi hh]
  refine congrArg (fun w => at2 (leray c w) i h) ?_
  unfold convHat
  apply tabC_congr
  intro k hk
  refine congrArg (nfft c) ?_
  rw [tab2_getD 3 (gridSize c) _ k hk]
  unfold crossArr
  apply Nonlin.tab_congr
  intro x hx
  have hv : ∀ k, k < 3 → at2 (tabC 3 fun i => nifft c (uh.getD i #[])) k x = velGrid c uh k x :=
    fun k hk => at2_tabC _ _ _ _ hk
  have hc : ∀ k, k < 3 →
      at2 (tabC 3 fun i => nifft c ((tab2 3 (modes c) fun i h =>
        proj3 (Gen.Misc.cross_product_3d (deriv c 0 h, deriv c 1 h, deriv c 2 h)
          (at2 uh 0 h, at2 uh 1 h, at2 uh 2 h)) i).getD i #[])) k x = curlGrid c uh k x := by
    intro k hk
    rw [at2_tabC _ _ _ _ hk]
    unfold curlGrid tab2
    rw [Nonlin.tab_getD _ _ _ _ hk]
  rw [hv 0 (by norm_num), hv 1 (by norm_num), hv 2 (by norm_num),
    hc 0 (by norm_num), hc 1 (by norm_num), hc 2 (by norm_num)]
  rfl

theorem at2_convHat (c : Cfg ℂ) (uh : MC ℂ) (i h : ℕ) (hi : i < 3) :
    at2 (convHat c uh) i h = (nfft c (crossArr c uh i)).getD h 0 := at2_tabC _ _ _ _ hi

/-! ### reality -/

theorem im_mul_sub_mul (a b e f : ℂ) (ha : a.im = 0) (hb : b.im = 0) (he : e.im = 0) (hf : f.im = 0) :
    (a * b - e * f).im = 0 := by
  rw [Complex.sub_im, Complex.mul_im, Complex.mul_im, ha, hb, he, hf]
  ring

theorem velGrid_im (c : Cfg ℂ) (hN : 0 < c.N) (uh : MC ℂ) (k x : ℕ) (hx : x < c.N ^ c.D) :
    (velGrid c uh k x).im = 0 := nifft_real_nd c hN _ x hx

theorem curlGrid_im (c : Cfg ℂ) (hN : 0 < c.N) (uh : MC ℂ) (k x : ℕ) (hx : x < c.N ^ c.D) :
    (curlGrid c uh k x).im = 0 := nifft_real_nd c hN _ x hx

theorem crossArr_isRealND (c : Cfg ℂ) (hN : 0 < c.N) (uh : MC ℂ) (i : ℕ) :
    IsRealND c.D c.N (crossArr c uh i) := by
  intro x hx
  unfold crossArr
  rw [DFT.tab_getD _ _ _ _ hx]
  unfold crossGrid proj3
  simp only [Gen.Misc.cross_product_3d]
  split_ifs
  · exact im_mul_sub_mul _ _ _ _ (velGrid_im c hN uh 1 x hx) (curlGrid_im c hN uh 2 x hx)
      (velGrid_im c hN uh 2 x hx) (curlGrid_im c hN uh 1 x hx)
  · exact im_mul_sub_mul _ _ _ _ (velGrid_im c hN uh 2 x hx) (curlGrid_im c hN uh 0 x hx)
      (velGrid_im c hN uh 0 x hx) (curlGrid_im c hN uh 2 x hx)
  · exact im_mul_sub_mul _ _ _ _ (velGrid_im c hN uh 0 x hx) (curlGrid_im c hN uh 1 x hx)
      (velGrid_im c hN uh 1 x hx) (curlGrid_im c hN uh 0 x hx)

/-! ### pointwise orthogonality `u · (u × ω) = 0` on the grid -/

theorem vel_dot_cross (c : Cfg ℂ) (uh : MC ℂ) (x : ℕ) :
    ∑ i ∈ range 3, velGrid c uh i x * crossGrid c uh i x = 0 := by
  have h := Cross.dot_cross_self_left (velGrid c uh 0 x, velGrid c uh 1 x, velGrid c uh 2 x)
    (curlGrid c uh 0 x, curlGrid c uh 1 x, curlGrid c uh 2 x)
  simp only [Finset.sum_range_succ, Finset.sum_range_zero, zero_add]
  unfold crossGrid proj3
  simp only [Cross.dot3] at h
  simpa using h

/-! ### three-channel adjointness bookkeeping -/

/-- if two triples of stored spectra have, mode by mode, the same Hermitian pairing with the
    transforms of three real grid fields, their inverse transforms have the same total grid inner
    product with these fields -/
theorem inner3_congr (D N : ℕ) (hN : 0 < N) (U : ℕ → Array ℂ) (hU : ∀ i, i < 3 → IsRealND D N (U i))
    (C C' : ℕ → Array ℂ)
    (hCC : ∀ h, h < numModes D N →
      ∑ i ∈ range 3, (C i).getD h 0 * (starRingEnd ℂ) ((rfftnM D N (U i)).getD h 0)
        = ∑ i ∈ range 3, (C' i).getD h 0 * (starRingEnd ℂ) ((rfftnM D N (U i)).getD h 0)) :
    ∑ i ∈ range 3, ∑ j ∈ range (N ^ D), (U i).getD j 0 * (irfftnM D N (C i)).getD j 0
      = ∑ i ∈ range 3, ∑ j ∈ range (N ^ D), (U i).getD j 0 * (irfftnM D N (C' i)).getD j 0 := by
  have e : ∀ Cx : ℕ → Array ℂ,
      ∑ i ∈ range 3, ∑ j ∈ range (N ^ D), (U i).getD j 0 * (irfftnM D N (Cx i)).getD j 0
      = ((∑ h ∈ range (numModes D N), (herm_weight D N h : ℝ) *
            (∑ i ∈ range 3, (Cx i).getD h 0 * (starRingEnd ℂ) ((rfftnM D N (U i)).getD h 0)).re : ℝ) : ℂ)
          / ((N ^ D : ℕ) : ℂ) := by
    intro Cx
    have h1 : ∀ i ∈ range 3, ∑ j ∈ range (N ^ D), (U i).getD j 0 * (irfftnM D N (Cx i)).getD j 0
        = ((∑ h ∈ range (numModes D N), (herm_weight D N h : ℝ) *
            ((Cx i).getD h 0 * (starRingEnd ℂ) ((rfftnM D N (U i)).getD h 0)).re : ℝ) : ℂ)
          / ((N ^ D : ℕ) : ℂ) :=
      fun i hi => real_inner_irfftn D N hN (U i) (Cx i) (hU i (Finset.mem_range.mp hi))
    rw [Finset.sum_congr rfl h1, ← Finset.sum_div, ← Complex.ofReal_sum]
    congr 2
    rw [Finset.sum_comm]
    apply Finset.sum_congr rfl
    intro h _
    rw [← Finset.mul_sum, ← Complex.re_sum]
  rw [e C, e C']
  congr 2
  apply Finset.sum_congr rfl
  intro h hh
  rw [hCC h (Finset.mem_range.mp hh)]

/-- for a real scale the derivative entry is purely imaginary: `conj d = −d` -/
theorem conj_deriv (c : Cfg ℂ) (s : ℝ) (hs : c.s = (s : ℂ)) (d h : ℕ) :
    (starRingEnd ℂ) (deriv c d h) = -deriv c d h := by
  rw [deriv_eq_real c s hs, map_mul, Complex.conj_I, Complex.conj_ofReal]
  ring

/-- stored output of `projected3d` without injection: `ĉ_i + d_i·q`, `q = −Δ̂⁻¹ (d·ĉ)`, `ĉ = mask·fft(u × ω)` -/
theorem projected3d_none_getD (c : Cfg ℂ) (hD : c.D = 3) (uh : MC ℂ) (i h : ℕ) (hi : i < 3)
    (hM : h < modes c) :
    ((projected3d c none uh).getD i #[]).getD h 0
      = (nfft c (crossArr c uh i)).getD h 0
        + deriv c i h * (-(invLapZero c h) * specDiv c (convHat c uh) h) := by
  show at2 (projected3d c none uh) i h = _
  rw [projected3d_none_at2 c uh i h hi hM, at2_leray c _ i h (by omega) hM, at2_convHat c uh i h hi]

/-- the stored output vanishes at the dropped modes (the projection is applied after the mask and is
    diagonal in `h`) -/
theorem projected3d_none_off_band (c : Cfg ℂ) (hD : c.D = 3) (uh : MC ℂ) (i h : ℕ) (hi : i < 3)
    (hM : h < modes c) (hm : mask c h = 0) :
    ((projected3d c none uh).getD i #[]).getD h 0 = 0 := by
  rw [projected3d_none_getD c hD uh i h hi hM, nfft_getD_of_mask_zero c _ h hm, specDiv_eq_sum]
  have : ∑ d ∈ range c.D, deriv c d h * at2 (convHat c uh) d h = 0 := by
    apply Finset.sum_eq_zero
    intro d hd
    have hd' : d < 3 := by have := Finset.mem_range.mp hd; omega
    rw [at2_convHat c uh d h hd', nfft_getD_of_mask_zero c _ h hm, mul_zero]
  rw [this]
  ring

/-! ### V3 -/

/-- **V3 (3-D rotational form, general form).**  `D = 3`, mask with `2·Kc < N`, real scale `s`, ANY stored
    three-channel spectrum `û`.  Let `u_i = ifft(mask·û_i)` be the truncated velocity on the grid and
    assume it is divergence-free at every stored mode, `Σ_d (i s k_d)·rfftn(u_d)_h = 0`.  Then the
    projected rotational convection term does no work on it:

      `Σ_i Σ_j (u_i)_j · irfftn(P[mask·fft(u × ω)]_i)_j = 0`  (`ω = ifft(mask·(i s k) × û)`). -/
theorem projected3d_no_work (c : Cfg ℂ) (hD : c.D = 3) (hq : c.fq ≠ 0) (h2 : 2 * Kc c < (c.N : ℤ))
    (hN : 0 < c.N) (s : ℝ) (hs : c.s = (s : ℂ)) (uh : MC ℂ)
    (hdiv : ∀ h, h < modes c →
      ∑ d ∈ range c.D, deriv c d h * (rfftnM c.D c.N (nifft c (uh.getD d #[]))).getD h 0 = 0) :
    ∑ i ∈ range 3, ∑ j ∈ range (c.N ^ c.D), (nifft c (uh.getD i #[])).getD j 0 *
        (irfftnM c.D c.N ((projected3d c none uh).getD i #[])).getD j 0 = 0 := by
  have hD0 : 0 < c.D := by omega
  -- step 1: replace `P ĉ` by `ĉ` (the pressure part is orthogonal to `u` mode by mode)
  rw [inner3_congr c.D c.N hN (fun i => nifft c (uh.getD i #[])) (fun i _ => nifft_isRealND c hN _)
    (fun i => (projected3d c none uh).getD i #[]) (fun i => nfft c (crossArr c uh i)) ?_]
  · -- step 2: the mask after the forward transform is invisible to the band-limited `u`
    have h1 : ∀ i ∈ range 3,
        ∑ j ∈ range (c.N ^ c.D), (nifft c (uh.getD i #[])).getD j 0 *
          (irfftnM c.D c.N (nfft c (crossArr c uh i))).getD j 0
        = ∑ j ∈ range (c.N ^ c.D), velGrid c uh i j * crossGrid c uh i j := by
      intro i _
      rw [inner_irfftn_nfft c hD0 hq hN h2 _ (crossArr c uh i) (nifft_isRealND c hN _)
        (crossArr_isRealND c hN uh i) (nifft_bandLimitedV c hq hN _) 1 _
        (fun h _ => by push_cast; ring)]
      push_cast
      rw [one_mul]
      apply Finset.sum_congr rfl
      intro j hj
      unfold crossArr
      rw [DFT.tab_getD _ _ _ _ (Finset.mem_range.mp hj)]
      rfl
    -- step 3: pointwise orthogonality
    rw [Finset.sum_congr rfl h1, Finset.sum_comm]
    exact Finset.sum_eq_zero (fun x _ => vel_dot_cross c uh x)
  · intro h hh
    have hM : h < modes c := hh
    have hout : ∀ i, i < 3 → ((projected3d c none uh).getD i #[]).getD h 0
        = (nfft c (crossArr c uh i)).getD h 0
          + deriv c i h * (-(invLapZero c h) * specDiv c (convHat c uh) h) :=
      fun i hi => projected3d_none_getD c hD uh i h hi hM
    have hd := hdiv h hM
    rw [show Finset.range c.D = Finset.range 3 by rw [hD]] at hd
    simp only [Finset.sum_range_succ, Finset.sum_range_zero, zero_add] at hd ⊢
    rw [hout 0 (by norm_num), hout 1 (by norm_num), hout 2 (by norm_num)]
    have hc := congrArg (starRingEnd ℂ) hd
    simp only [map_add, map_mul, map_zero, conj_deriv c s hs] at hc
    linear_combination (-(-(invLapZero c h) * specDiv c (convHat c uh) h)) * hc

/-- **V3 for a real velocity field.**  `û_i = rfftn v_i` for three real grid fields, divergence-free at
    every RETAINED stored mode (`Σ_d (i s k_d) û_d(h) = 0` whenever `mask_h = 1`; nothing is assumed at
    the dropped modes).  Then `Σ_i Σ_j (P_K v_i)_j · irfftn(N(û)_i)_j = 0`. -/
theorem projected3d_no_work_real (c : Cfg ℂ) (hD : c.D = 3) (hq : c.fq ≠ 0) (h2 : 2 * Kc c < (c.N : ℤ))
    (hN : 0 < c.N) (s : ℝ) (hs : c.s = (s : ℂ)) (v : ℕ → Array ℂ)
    (hv : ∀ i, i < 3 → IsRealND c.D c.N (v i))
    (hdiv : ∀ h, h < modes c → mask c h = 1 →
      ∑ d ∈ range c.D, deriv c d h * (rfftnM c.D c.N (v d)).getD h 0 = 0) :
    ∑ i ∈ range 3, ∑ j ∈ range (c.N ^ c.D),
        (nifft c ((#[rfftnM c.D c.N (v 0), rfftnM c.D c.N (v 1), rfftnM c.D c.N (v 2)] : MC ℂ).getD i #[])).getD j 0 *
        (irfftnM c.D c.N ((projected3d c none
          #[rfftnM c.D c.N (v 0), rfftnM c.D c.N (v 1), rfftnM c.D c.N (v 2)]).getD i #[])).getD j 0 = 0 := by
  have hD0 : 0 < c.D := by omega
  apply projected3d_no_work c hD hq h2 hN s hs
  intro h hh
  have hch : ∀ d, d < 3 →
      (#[rfftnM c.D c.N (v 0), rfftnM c.D c.N (v 1), rfftnM c.D c.N (v 2)] : MC ℂ).getD d #[]
        = rfftnM c.D c.N (v d) := by
    intro d hd
    interval_cases d <;> rfl
  have hterm : ∀ d ∈ range c.D,
      deriv c d h * (rfftnM c.D c.N (nifft c
        ((#[rfftnM c.D c.N (v 0), rfftnM c.D c.N (v 1), rfftnM c.D c.N (v 2)] : MC ℂ).getD d #[]))).getD h 0
      = mask c h * (deriv c d h * (rfftnM c.D c.N (v d)).getD h 0) := by
    intro d hd
    have hd' : d < 3 := by have := Finset.mem_range.mp hd; omega
    rw [hch d hd', rfftn_nifft_rfftn c hD0 hq hN h2 (v d) (hv d hd') h hh]
    ring
  rw [Finset.sum_congr rfl hterm, ← Finset.mul_sum]
  rcases Conserve.mask_zero_or_one c h with hm | hm
  · rw [hdiv h hh hm, mul_zero]
  · rw [hm, zero_mul]

/-- **V3 against the FULL velocity.**  Same hypotheses; since the nonlinear term is band-limited the
    untruncated real fields `v_i` do no work either: `Σ_i Σ_j (v_i)_j · irfftn(N(û)_i)_j = 0`. -/
theorem projected3d_no_work_real_full (c : Cfg ℂ) (hD : c.D = 3) (hq : c.fq ≠ 0)
    (h2 : 2 * Kc c < (c.N : ℤ)) (hN : 0 < c.N) (s : ℝ) (hs : c.s = (s : ℂ)) (v : ℕ → Array ℂ)
    (hv : ∀ i, i < 3 → IsRealND c.D c.N (v i))
    (hdiv : ∀ h, h < modes c → mask c h = 1 →
      ∑ d ∈ range c.D, deriv c d h * (rfftnM c.D c.N (v d)).getD h 0 = 0) :
    ∑ i ∈ range 3, ∑ j ∈ range (c.N ^ c.D), (v i).getD j 0 *
        (irfftnM c.D c.N ((projected3d c none
          #[rfftnM c.D c.N (v 0), rfftnM c.D c.N (v 1), rfftnM c.D c.N (v 2)]).getD i #[])).getD j 0 = 0 := by
  have hch : ∀ d, d < 3 →
      (#[rfftnM c.D c.N (v 0), rfftnM c.D c.N (v 1), rfftnM c.D c.N (v 2)] : MC ℂ).getD d #[]
        = rfftnM c.D c.N (v d) := by
    intro d hd
    interval_cases d <;> rfl
  have h1 : ∀ i ∈ range 3, ∑ j ∈ range (c.N ^ c.D), (v i).getD j 0 *
        (irfftnM c.D c.N ((projected3d c none
          #[rfftnM c.D c.N (v 0), rfftnM c.D c.N (v 1), rfftnM c.D c.N (v 2)]).getD i #[])).getD j 0
      = ∑ j ∈ range (c.N ^ c.D),
        (nifft c ((#[rfftnM c.D c.N (v 0), rfftnM c.D c.N (v 1), rfftnM c.D c.N (v 2)] : MC ℂ).getD i #[])).getD j 0 *
        (irfftnM c.D c.N ((projected3d c none
          #[rfftnM c.D c.N (v 0), rfftnM c.D c.N (v 1), rfftnM c.D c.N (v 2)]).getD i #[])).getD j 0 := by
    intro i hi
    have hi' := Finset.mem_range.mp hi
    rw [hch i hi']
    exact inner_irfftn_trunc c (by omega) hq hN h2 (v i) (hv i hi') _
      (fun h hh hm => projected3d_none_off_band c hD _ i h hi' hh hm)
  rw [Finset.sum_congr rfl h1]
  exact projected3d_no_work_real c hD hq h2 hN s hs v hv hdiv

/-- V3 with the transforms written `rfftnM 3 N`, `irfftnM 3 N`, grid `N³`, divergence written out -/
theorem projected3d_no_work_real_three (c : Cfg ℂ) (hD : c.D = 3) (hq : c.fq ≠ 0)
    (h2 : 2 * Kc c < (c.N : ℤ)) (hN : 0 < c.N) (s : ℝ) (hs : c.s = (s : ℂ)) (v0 v1 v2 : Array ℂ)
    (hv0 : IsRealND 3 c.N v0) (hv1 : IsRealND 3 c.N v1) (hv2 : IsRealND 3 c.N v2)
    (hdiv : ∀ h, h < modes c → mask c h = 1 →
      deriv c 0 h * (rfftnM 3 c.N v0).getD h 0 + deriv c 1 h * (rfftnM 3 c.N v1).getD h 0
        + deriv c 2 h * (rfftnM 3 c.N v2).getD h 0 = 0) :
    ∑ j ∈ range (c.N ^ 3), (nifft c (rfftnM 3 c.N v0)).getD j 0 *
        (irfftnM 3 c.N ((projected3d c none #[rfftnM 3 c.N v0, rfftnM 3 c.N v1, rfftnM 3 c.N v2]).getD 0 #[])).getD j 0
    + ∑ j ∈ range (c.N ^ 3), (nifft c (rfftnM 3 c.N v1)).getD j 0 *
        (irfftnM 3 c.N ((projected3d c none #[rfftnM 3 c.N v0, rfftnM 3 c.N v1, rfftnM 3 c.N v2]).getD 1 #[])).getD j 0
    + ∑ j ∈ range (c.N ^ 3), (nifft c (rfftnM 3 c.N v2)).getD j 0 *
        (irfftnM 3 c.N ((projected3d c none #[rfftnM 3 c.N v0, rfftnM 3 c.N v1, rfftnM 3 c.N v2]).getD 2 #[])).getD j 0
      = 0 := by
  let v : ℕ → Array ℂ := fun i => if i = 0 then v0 else if i = 1 then v1 else v2
  have hv : ∀ i, i < 3 → IsRealND c.D c.N (v i) := by
    intro i hi
    rw [hD]
    interval_cases i
    · exact hv0
    · exact hv1
    · exact hv2
  have := projected3d_no_work_real c hD hq h2 hN s hs v hv (by
    intro h hh hm
    rw [hD]
    simp only [Finset.sum_range_succ, Finset.sum_range_zero, zero_add]
    exact hdiv h hh hm)
  rw [hD] at this
  simp only [Finset.sum_range_succ, Finset.sum_range_zero, zero_add] at this
  exact this

/-! ### non-vacuity (the hypotheses of the V3 theorems are shown satisfiable in `InvariantsRot3dLeray`) -/

/-- `inner3_congr`: the pairing hypothesis holds e.g. when the two triples agree on the stored range -/
example (D N : ℕ) (U C : ℕ → Array ℂ) : ∀ h, h < numModes D N →
    ∑ i ∈ range 3, (C i).getD h 0 * (starRingEnd ℂ) ((rfftnM D N (U i)).getD h 0)
      = ∑ i ∈ range 3, (C i).getD h 0 * (starRingEnd ℂ) ((rfftnM D N (U i)).getD h 0) :=
  fun _ _ => rfl

end Exponax.Invariants
