import Mathlib.Tactic
import ExponaxModel.Proofs.ICGen2Lemmas
import ExponaxModel.Proofs.SpectralLayoutEq
import ExponaxModel.Proofs.LayoutLemmas
import ExponaxModel.Proofs.StepperSymbols
import ExponaxModel.Proofs.StepperWiringArgs
/-
`Generated/ICGen2.lean` (regenerated from `exponax/ic/*.py` by `harness/translate_ic2.py`) equals the documented model
of `Model/IC2.lean`, and honours the contract of property C18.
-/
set_option linter.unusedVariables false
set_option linter.unusedSectionVars false
namespace Exponax.Gen.IC2
open Exponax Exponax.Layout Exponax.Transform Exponax.DFT Exponax.Gen Exponax.Gen.Prelude Exponax.Gen.ICGen

section disc
variable {K : Type} [Field K] [HasLtB K] [HasSqrt K] [HasAbs K]

theorem Discontinuity_call_eq (self : Discontinuity K) (x : List (Array K)) :
    Discontinuity_call self x = IC2.discontinuity self.lower_limits self.upper_limits self.value x := by
  unfold Discontinuity_call IC2.discontinuity IC2.gridPoints
  simp only []
  have h := foldl_tab_and (List.zipIdx (List.zip self.lower_limits self.upper_limits)) (x.getD 0 #[]).size
    (fun (p : (K × K) × ℕ) j => HasLtB.ltb p.1.1 ((x.getD p.2 #[]).getD j 0) && HasLtB.ltb ((x.getD p.2 #[]).getD j 0) p.1.2)
    (fun _ => true)
  simp only [Bool.and_assoc] at h ⊢
  rw [h, tab_size]
  apply tab_congr
  intro j hj
  rw [tab_getD _ _ _ _ hj]
  simp only [Bool.true_and, IC2.inBox, IC2.coord]
  exact Bool.cond_eq_ite _ _ _

theorem discontinuity_size (lo hi : List K) (v : K) (x : List (Array K)) :
    (IC2.discontinuity lo hi v x).size = IC2.gridPoints x := by
  unfold IC2.discontinuity; simp

/-- the three inlined normalisation steps of `Discontinuities.__call__` are `normalize_ic` -/
theorem Discontinuities_call_normalize (self : Discontinuities K) (x : List (Array K)) :
    Discontinuities_call self x
      = normalize_ic (py_sum_arrays (self.discontinuity_list.map (fun d => Discontinuity_call d x)))
          self.zero_mean self.std_one self.max_one := rfl

/-- **`Discontinuities.__call__`** = normalised sum of the blocks (for at least one block: for the empty tuple
    Python's `sum` returns the int `0`, the regenerated definition the empty array) -/
theorem Discontinuities_call_eq_partial (hlaw : AbsLaw K) (self : Discontinuities K) (x : List (Array K))
    (hne : self.discontinuity_list ≠ []) :
    Discontinuities_call self x
      = IC2.discontinuities self.zero_mean self.std_one self.max_one (IC2.gridPoints x)
          (self.discontinuity_list.map (fun d => IC2.discontinuity d.lower_limits d.upper_limits d.value x)) := by
  rw [Discontinuities_call_normalize, normalize_ic_eq hlaw]
  unfold IC2.discontinuities
  have hmap : self.discontinuity_list.map (fun d => Discontinuity_call d x)
      = self.discontinuity_list.map (fun d => IC2.discontinuity d.lower_limits d.upper_limits d.value x) :=
    List.map_congr_left (fun d _ => Discontinuity_call_eq d x)
  rw [hmap, py_sum_arrays_eq _ (IC2.gridPoints x) (by simpa using hne)]
  intro a ha
  obtain ⟨d, _, rfl⟩ := List.mem_map.mp ha
  exact discontinuity_size _ _ _ _

end disc

/-! ### sine waves -/
section sine
variable {K : Type} [Field K] [HasLtB K] [HasSqrt K] [HasAbs K] [HasSin K] [HasPi K]

theorem SineWaves1d_call_normalize (self : SineWaves1d K) (x : Array K) :
    SineWaves1d_call self x
      = normalize_ic (tab x.size (fun j =>
          (List.foldl (fun (result : Array K) (it : K × (K × K)) =>
              tab result.size (fun j => result.getD j 0
                + it.1 * HasSin.sin (it.2.1 * (lit 2 * HasPi.pi / self.domain_extent) * x.getD j 0 + it.2.2)))
            (tab x.size (fun _ => (0 : K)))
            (List.zip self.amplitudes (List.zip self.wavenumbers self.phases))).getD j 0 + self.offset))
          false self.std_one self.max_one := by
  unfold SineWaves1d_call normalize_ic
  simp only [Bool.false_eq_true, if_false]
  have hs : (List.foldl (fun (result : Array K) (it : K × (K × K)) =>
              tab result.size (fun j => result.getD j 0
                + it.1 * HasSin.sin (it.2.1 * (lit 2 * HasPi.pi / self.domain_extent) * x.getD j 0 + it.2.2)))
            (tab x.size (fun _ => (0 : K)))
            (List.zip self.amplitudes (List.zip self.wavenumbers self.phases))).size = x.size := by
    rw [foldl_tab_add]; simp
  rw [hs]

/-- **`SineWaves1d.__call__`** = `Σ_i a_i sin(k_i 2π/L x + φ_i) + offset`, normalised -/
theorem SineWaves1d_call_eq (hlaw : AbsLaw K) (self : SineWaves1d K) (x : Array K) :
    SineWaves1d_call self x
      = IC2.sineWaves1d self.domain_extent self.amplitudes self.wavenumbers self.phases self.offset
          self.std_one self.max_one x := by
  rw [SineWaves1d_call_normalize, normalize_ic_eq hlaw]
  unfold IC2.sineWaves1d IC2.sineSum
  congr 1
  apply tab_congr
  intro j hj
  rw [foldl_tab_add, tab_getD _ _ _ _ hj, foldl_add_eq_sumList]

end sine
/-! ### Gaussian blobs -/
section blob
variable {K : Type} [Field K] [HasExp K]

/-- entry `j` of every array of `x − position` (broadcast over the grid axes) -/
theorem diff_map_getD (x : List (Array K)) (pos : List K) (n j : ℕ) (hj : j < n) (hs : ∀ a ∈ x, a.size = n) :
    (List.zipWith (fun (a : Array K) (p : K) => tab a.size (fun j => a.getD j 0 - p)) x pos).map (fun a => a.getD j 0)
      = List.zipWith (fun (a : Array K) (p : K) => a.getD j 0 - p) x pos := by
  induction x generalizing pos with
  | nil => simp
  | cons a x ih =>
    cases pos with
    | nil => simp
    | cons p pos =>
      simp only [List.zipWith_cons_cons, List.map_cons]
      have ha : a.size = n := hs a (by simp)
      rw [ih pos (fun b hb => hs b (by simp [hb])), tab_getD _ _ _ _ (by omega)]

theorem diff_headD_size (x : List (Array K)) (pos : List K) (hlen : pos.length = x.length) :
    ((List.zipWith (fun (a : Array K) (p : K) => tab a.size (fun j => a.getD j 0 - p)) x pos).headD #[]).size
      = IC2.gridPoints x := by
  cases x with
  | nil => simp [IC2.gridPoints]
  | cons a x =>
    cases pos with
    | nil => simp at hlen
    | cons p pos => simp [IC2.gridPoints]

/-- `jnp.einsum("i...,ij,j...->...", a, M, a)` at one grid point is the quadratic form of the entries -/
theorem einsum_getD (a : List (Array K)) (M : List (List K)) (p : ℕ) (hp : p < (a.headD #[]).size) :
    (einsum_i_ij_j a M a).getD p 0 = IC2.quadForm (a.map (fun c => c.getD p 0)) M := by
  unfold einsum_i_ij_j IC2.quadForm
  rw [tab_getD _ _ _ _ hp]
  simp only [List.zipWith_map_left, List.zipWith_map_right]

/-- **`GaussianBlob.__call__`** = `exp(−½ (x − p)ᵀ Σ⁻¹ (x − p))` (or one minus it) at every grid point; the grid has
    one coordinate array per entry of `position` (the guard of `__call__`), all of one size -/
theorem GaussianBlob_call_eq (self : GaussianBlob K) (x : List (Array K))
    (hlen : self.position.length = x.length) (hs : ∀ a ∈ x, a.size = IC2.gridPoints x) :
    GaussianBlob_call self x
      = IC2.gaussianBlob self.position self.priv_inv_covariance self.one_complement x := by
  unfold GaussianBlob_call IC2.gaussianBlob
  simp only []
  have hsz := diff_headD_size x self.position hlen
  have he : (einsum_i_ij_j (List.zipWith (fun (a : Array K) (p : K) => tab a.size (fun j => a.getD j 0 - p)) x self.position)
      self.priv_inv_covariance
      (List.zipWith (fun (a : Array K) (p : K) => tab a.size (fun j => a.getD j 0 - p)) x self.position)).size
      = IC2.gridPoints x := by
    unfold einsum_i_ij_j; rw [tab_size, hsz]
  have hq : ∀ j, j < IC2.gridPoints x →
      (einsum_i_ij_j (List.zipWith (fun (a : Array K) (p : K) => tab a.size (fun j => a.getD j 0 - p)) x self.position)
        self.priv_inv_covariance
        (List.zipWith (fun (a : Array K) (p : K) => tab a.size (fun j => a.getD j 0 - p)) x self.position)).getD j 0
      = IC2.quadForm (List.zipWith (fun (a : Array K) (p : K) => a.getD j 0 - p) x self.position)
          self.priv_inv_covariance := by
    intro j hj
    rw [einsum_getD _ _ _ (by rw [hsz]; exact hj), diff_map_getD x self.position _ j hj hs]
  rw [he]
  cases self.one_complement
  · simp only [Bool.false_eq_true, if_false]
    exact tab_congr _ _ _ (fun j hj => by rw [hq j hj])
  · simp only [if_true, tab_size]
    exact tab_congr _ _ _ (fun j hj => by rw [tab_getD _ _ _ _ hj, hq j hj])

theorem gaussianBlob_size (pos : List K) (M : List (List K)) (oc : Bool) (x : List (Array K)) :
    (IC2.gaussianBlob pos M oc x).size = IC2.gridPoints x := by
  unfold IC2.gaussianBlob; simp

/-- **`one_complement`**: the blob with the flag set is one minus the blob without it, point by point -/
theorem GaussianBlob_one_complement (self : GaussianBlob K) (x : List (Array K)) (j : ℕ)
    (hlen : self.position.length = x.length) (hs : ∀ a ∈ x, a.size = IC2.gridPoints x) (hj : j < IC2.gridPoints x) :
    (GaussianBlob_call { self with one_complement := true } x).getD j 0
      = 1 - (GaussianBlob_call { self with one_complement := false } x).getD j 0 := by
  rw [GaussianBlob_call_eq { self with one_complement := true } x hlen hs,
    GaussianBlob_call_eq { self with one_complement := false } x hlen hs]
  unfold IC2.gaussianBlob
  rw [tab_getD _ _ _ _ hj, tab_getD _ _ _ _ hj]
  simp

/-- the value formula of one blob -/
theorem GaussianBlob_value (self : GaussianBlob K) (x : List (Array K)) (j : ℕ)
    (hlen : self.position.length = x.length) (hs : ∀ a ∈ x, a.size = IC2.gridPoints x) (hj : j < IC2.gridPoints x) :
    (GaussianBlob_call self x).getD j 0
      = (let b := HasExp.exp (-(1 / 2 : K) * IC2.quadForm (List.zipWith (fun (a : Array K) (p : K) => a.getD j 0 - p) x
            self.position) self.priv_inv_covariance)
         if self.one_complement then 1 - b else b) := by
  rw [GaussianBlob_call_eq _ x hlen hs]
  unfold IC2.gaussianBlob
  rw [tab_getD _ _ _ _ hj]
  simp

/-- **`GaussianBlobs.__call__`** = the mean of its blobs (at least one blob) -/
theorem GaussianBlobs_call_eq_partial (self : GaussianBlobs K) (x : List (Array K)) (hne : self.blob_list ≠ [])
    (hlen : ∀ b ∈ self.blob_list, b.position.length = x.length) (hs : ∀ a ∈ x, a.size = IC2.gridPoints x) :
    GaussianBlobs_call self x
      = IC2.meanOfFields (IC2.gridPoints x)
          (self.blob_list.map (fun b => IC2.gaussianBlob b.position b.priv_inv_covariance b.one_complement x)) := by
  unfold GaussianBlobs_call IC2.meanOfFields
  simp only []
  have hmap : self.blob_list.map (fun b => GaussianBlob_call b x)
      = self.blob_list.map (fun b => IC2.gaussianBlob b.position b.priv_inv_covariance b.one_complement x) :=
    List.map_congr_left (fun b hb => GaussianBlob_call_eq b x (hlen b hb) hs)
  rw [hmap, py_sum_arrays_eq _ (IC2.gridPoints x) (by simpa using hne)
    (by intro a ha; obtain ⟨d, _, rfl⟩ := List.mem_map.mp ha; exact gaussianBlob_size _ _ _ _)]
  rw [sumOfFields_size]
  apply tab_congr
  intro j hj
  unfold IC2.sumOfFields
  rw [tab_getD _ _ _ _ hj, List.length_map]

end blob
/-! ### multi-channel wrappers: which sub-key goes to which sub-generator -/
section multi
variable {Key K : Type}

theorem flatten_map_singleton {α : Type} (l : List α) : (l.map (fun a => [a])).flatten = l := by
  induction l with
  | nil => rfl
  | cons a l ih => simp [ih]

/-- **`MultiChannelIC.__call__`**: channel `c` is the `c`-th initial condition evaluated on the grid -/
theorem MultiChannelIC_call_eq (self : MultiChannelIC K) (x : List (Array K)) :
    MultiChannelIC_call self x = self.initial_conditions.map (fun ic => ic x) := by
  unfold MultiChannelIC_call jnp_concatenate_axis0
  rw [flatten_map_singleton]

/-- **`RandomMultiChannelICGenerator.__call__`**: sub-generator `c` is called with the key `(split key n)[c]` -/
theorem RandomMultiChannelICGenerator_call_eq (split : Key → ℕ → List Key) (self : RandomMultiChannelICGenerator Key K)
    (N : ℕ) (key : Key) :
    RandomMultiChannelICGenerator_call split self N key
      = (List.zip self.ic_generators (split key self.ic_generators.length)).map (fun p => p.1.call N p.2) := by
  unfold RandomMultiChannelICGenerator_call jnp_concatenate_axis0
  simp only []
  rw [flatten_map_singleton]

/-- **`RandomMultiChannelICGenerator.gen_ic_fun`**: sub-generator `c` gets the key `(split key n)[c]`, too -/
theorem RandomMultiChannelICGenerator_gen_ic_fun_eq (split : Key → ℕ → List Key)
    (self : RandomMultiChannelICGenerator Key K) (key : Key) :
    (RandomMultiChannelICGenerator_gen_ic_fun split self key).initial_conditions
      = (List.zip self.ic_generators (split key self.ic_generators.length)).map (fun p => p.1.gen_ic_fun p.2) := rfl

/-- **function form = sampled form, channel by channel**: if every sub-generator's sampled form is its function form
    on the grid `x`, then `gen_ic_fun(key)(x) = __call__(N, key)` — because both paths hand sub-generator `c` the key
    `(split key n)[c]` -/
theorem multi_channel_function_form_eq_sampled (split : Key → ℕ → List Key)
    (self : RandomMultiChannelICGenerator Key K) (N : ℕ) (key : Key) (x : List (Array K))
    (h : ∀ g ∈ self.ic_generators, ∀ k, g.call N k = g.gen_ic_fun k x) :
    MultiChannelIC_call (RandomMultiChannelICGenerator_gen_ic_fun split self key) x
      = RandomMultiChannelICGenerator_call split self N key := by
  rw [MultiChannelIC_call_eq, RandomMultiChannelICGenerator_gen_ic_fun_eq, RandomMultiChannelICGenerator_call_eq,
    List.map_map]
  apply List.map_congr_left
  intro p hp
  exact (h p.1 (List.of_mem_zip hp).1 p.2).symm

/-- the channel count of the wrapper is the number of sub-generators (`split key n` returns `n` keys) -/
theorem multi_channel_channel_count (split : Key → ℕ → List Key) (self : RandomMultiChannelICGenerator Key K)
    (N : ℕ) (key : Key) (hs : (split key self.ic_generators.length).length = self.ic_generators.length) :
    (RandomMultiChannelICGenerator_call split self N key).length = self.ic_generators.length ∧
    (RandomMultiChannelICGenerator_gen_ic_fun split self key).initial_conditions.length
      = self.ic_generators.length := by
  rw [RandomMultiChannelICGenerator_call_eq, RandomMultiChannelICGenerator_gen_ic_fun_eq]
  simp [hs]

/-- channel `c` of the sampled form: sub-generator `c` called with `(split key n)[c]` -/
theorem multi_channel_call_channel (split : Key → ℕ → List Key) (self : RandomMultiChannelICGenerator Key K)
    (N : ℕ) (key : Key) (c : ℕ) (hc : c < self.ic_generators.length)
    (hk : c < (split key self.ic_generators.length).length) :
    (RandomMultiChannelICGenerator_call split self N key)[c]?
      = some ((self.ic_generators[c]).call N ((split key self.ic_generators.length)[c])) := by
  rw [RandomMultiChannelICGenerator_call_eq]
  simp [hc, hk]

/-- channel `c` of the function form: the function of sub-generator `c` for the key `(split key n)[c]` -/
theorem multi_channel_fun_channel (split : Key → ℕ → List Key) (self : RandomMultiChannelICGenerator Key K)
    (key : Key) (c : ℕ) (hc : c < self.ic_generators.length)
    (hk : c < (split key self.ic_generators.length).length) :
    (RandomMultiChannelICGenerator_gen_ic_fun split self key).initial_conditions[c]?
      = some ((self.ic_generators[c]).gen_ic_fun ((split key self.ic_generators.length)[c])) := by
  rw [RandomMultiChannelICGenerator_gen_ic_fun_eq]
  simp [hc, hk]

end multi

/-! ### the default sampled form: the function form on `make_grid` -/
section base
variable {Key K : Type} [Field K]

/-- **`BaseRandomICGenerator.__call__`** = `gen_ic_fun(key)` evaluated on the regenerated `make_grid` -/
theorem BaseRandomICGenerator_call_eq (gen_ic_fun : Key → BaseIC K) (D : ℕ) (L : K) (ix : String) (N : ℕ) (key : Key) :
    BaseRandomICGenerator_call gen_ic_fun D L ix N key = gen_ic_fun key (ext_make_grid D L N ix) := rfl

/-- the regenerated grid (`indexing="ij"`) is the documented one: coordinate `d` of the point with multi-index `i` is
    `i_d · L / N` -/
theorem ext_make_grid_ij (D : ℕ) (L : K) (N : ℕ) : ext_make_grid D L N "ij" = IC2.grid D L N := by
  unfold ext_make_grid IC2.grid
  apply List.map_congr_left
  intro d hd
  apply tab_congr
  intro j hj
  rw [Exponax.make_grid_ij]
  simp [List.getD_eq_getElem?_getD, List.mem_range.mp hd]

theorem grid_length (D : ℕ) (L : K) (N : ℕ) : (IC2.grid D L N).length = D := by
  unfold IC2.grid; simp

theorem grid_sizes (D : ℕ) (L : K) (N : ℕ) : ∀ a ∈ IC2.grid D L N, a.size = N ^ D := by
  intro a ha
  unfold IC2.grid at ha
  obtain ⟨d, _, rfl⟩ := List.mem_map.mp ha
  simp

theorem grid_coord (D : ℕ) (L : K) (N : ℕ) (d j : ℕ) (hd : d < D) (hj : j < N ^ D) :
    IC2.coord (IC2.grid D L N) d j = gridCoord L N false ((unflatten (spatialShape D N) j).getD d 0) := by
  unfold IC2.coord IC2.grid
  simp [List.getD_eq_getElem?_getD, hd, tab_getD _ _ _ _ hj]

theorem grid_gridPoints (D : ℕ) (L : K) (N : ℕ) (hD : 0 < D) : IC2.gridPoints (IC2.grid D L N) = N ^ D := by
  unfold IC2.gridPoints IC2.grid
  simp [List.getD_eq_getElem?_getD, hD]

end base
/-! ### `GaussianRandomField` -/
theorem setIfInBounds_zero_getD {α : Type} (a : Array α) (v d : α) (h : ℕ) (hh : h < a.size) :
    (a.setIfInBounds 0 v).getD h d = if h = 0 then v else a.getD h d := by
  rw [Array.getD_eq_getD_getElem?, Array.getD_eq_getD_getElem?, Array.getElem?_setIfInBounds]
  by_cases h0 : h = 0
  · subst h0; simp [hh]
  · simp [h0, Ne.symm h0]

theorem range_map_getD_eq_map {α β : Type} (l : List α) (d0 : α) (f : α → β) (n : ℕ) (hn : l.length = n) :
    (List.range n).map (fun d => f (l.getD d d0)) = l.map f := by
  subst hn
  conv_rhs => rw [← list_range_map_getD l d0]
  rw [List.map_map]
  rfl

section grf
variable {Key K : Type} [Field K] [HasExp K] [HasI K] [HasPi K] [HasRe K] [HasSqrt K] [HasAbs K] [HasRpow K]
  [HasLtB K] [HasIsZero K]

theorem ext_bsw_headD_size (D N : ℕ) (L : K) (hD : 1 ≤ D) :
    ((ext_build_scaled_wavenumbers D L N).headD #[]).size = numModes D N := by
  unfold ext_build_scaled_wavenumbers
  obtain ⟨E, rfl⟩ : ∃ E, D = E + 1 := ⟨D - 1, by omega⟩
  simp [List.range_succ_eq_map]

theorem norm_getD (D N : ℕ) (L : K) (hD : 1 ≤ D) (hN : 0 < N) (h : ℕ) (hh : h < numModes D N) :
    (jnp_linalg_norm_axis0 (ext_build_scaled_wavenumbers D L N)).getD h 0 = IC2.wnNorm D N L h := by
  unfold jnp_linalg_norm_axis0
  rw [tab_getD _ _ _ _ (by rw [ext_bsw_headD_size D N L hD]; exact hh)]
  unfold IC2.wnNorm ext_build_scaled_wavenumbers
  congr 2
  rw [List.map_map]
  have ht : ∀ d, (tab (numModes D N) (fun h =>
      (Exponax.Gen.SpectralLayout.build_scaled_wavenumbers D L N "ij" (unflatten (wavenumberShape D N) h)).getD d 0)).getD h 0
      = (Exponax.Gen.SpectralLayout.build_scaled_wavenumbers D L N "ij" (unflatten (wavenumberShape D N) h)).getD d 0 :=
    fun d => tab_getD _ _ _ _ hh
  simp only [Function.comp_def, ht]
  rw [Exponax.build_scaled_wavenumbers_ij D N L hD hN,
    range_map_getD_eq_map _ 0 (fun v => v * v) D (by rw [List.length_map, wnVec_length]), List.map_map]
  rfl

/-- **`GaussianRandomField.__call__`** = white noise → `rfftn` → `× |2πk/L|^(−exponent/2)` (mean mode `× 1`) → `irfftn`
    → `normalize_ic` -/
theorem GaussianRandomField_call_eq (hlaw : AbsLaw K) (wn : ℕ → Key → Array K) (self : GaussianRandomField K) (N : ℕ)
    (key : Key) (hD : 1 ≤ self.num_spatial_dims) (hN : 0 < N) :
    GaussianRandomField_call wn self N key
      = IC2.gaussianRandomField self.num_spatial_dims N self.domain_extent self.powerlaw_exponent
          self.zero_mean self.std_one self.max_one (wn N key) := by
  unfold GaussianRandomField_call IC2.gaussianRandomField
  simp only [normalize_ic_eq hlaw]
  congr 1
  unfold ext_ifft
  congr 1
  unfold ext_fft IC2.grfSpectrum
  rw [rfftnM_size']
  apply tab_congr
  intro h hh
  congr 1
  have hsz : (jnp_linalg_norm_axis0 (ext_build_scaled_wavenumbers self.num_spatial_dims self.domain_extent N)).size
      = numModes self.num_spatial_dims N := by
    unfold jnp_linalg_norm_axis0; rw [tab_size, ext_bsw_headD_size _ _ _ hD]
  rw [setIfInBounds_zero_getD _ _ _ _ (by rw [tab_size, hsz]; exact hh)]
  unfold IC2.powerLawAmplitude
  by_cases h0 : h = 0
  · rw [if_pos h0, if_pos h0]
  · rw [if_neg h0, if_neg h0, tab_getD _ _ _ _ (by rw [hsz]; exact hh), norm_getD _ _ _ hD hN h hh]

end grf

/-! ### `DiffusedNoise` (at `ℂ`) -/
section diffused
variable {Key : Type}

theorem diffusion_list_sum (ν s : ℂ) (k : List ℤ) :
    (k.map (fun (kd : ℤ) => ν * ((Complex.I * (s * (kd : ℂ))) * (Complex.I * (s * (kd : ℂ)))))).sum
      = -(ν * (s * s) * ((normSq k : ℤ) : ℂ)) := by
  induction k with
  | nil => simp [normSq_nil]
  | cons a k ih =>
    rw [List.map_cons, List.sum_cons, ih, normSq_cons]
    push_cast
    linear_combination (ν * s * s * (a : ℂ) * (a : ℂ)) * Complex.I_mul_I

/-- the symbol of the regenerated `Diffusion` stepper with a scalar diffusivity: `−ν (2π/L)² |k|²` -/
theorem diffusion_symbol (D N : ℕ) (L ν : ℂ) (hD : 1 ≤ D) (hN : 0 < N) (h : ℕ) :
    Exponax.Gen.Steppers.Diffusion_linear_operator
        (Exponax.Gen.SpectralLayout.build_derivative_operator D L N "ij" (unflatten (wavenumberShape D N) h))
        (Exponax.Gen.StepperWiring.Diffusion_init_diffusivity_scalar D ν)
      = -(ν * ((lit 2 * HasPi.pi / L) * (lit 2 * HasPi.pi / L)) * ((normSq (wnFlat D N h) : ℤ) : ℂ)) := by
  rw [Exponax.StepperWiringEq.Diffusion_init_diffusivity_scalar_eq, Exponax.build_derivative_operator_ij D N L hD hN]
  have hκ : ((wnVec D N (unflatten (wavenumberShape D N) h)).map
      (fun k => HasI.I * ((lit 2 * HasPi.pi / L) * (IntCast.intCast k : ℂ)))).length = D := by
    rw [List.length_map, wnVec_length]
  rw [Exponax.Diffusion_linear_operator_eq _ _ (by simp [Exponax.StepperWiringEq.scalarM, wnVec_length])
    (by intro r hr; simp only [Exponax.StepperWiringEq.scalarM, List.mem_map] at hr
        obtain ⟨i, _, rfl⟩ := hr; simp [wnVec_length])]
  unfold Exponax.qform
  rw [hκ]
  have hin : ∀ i ∈ Finset.range D, ∑ j ∈ Finset.range D,
      ((Exponax.StepperWiringEq.scalarM D ν).getD i []).getD j 0 *
        (((wnVec D N (unflatten (wavenumberShape D N) h)).map
          (fun k => HasI.I * ((lit 2 * HasPi.pi / L) * (IntCast.intCast k : ℂ)))).getD i 0 *
         ((wnVec D N (unflatten (wavenumberShape D N) h)).map
          (fun k => HasI.I * ((lit 2 * HasPi.pi / L) * (IntCast.intCast k : ℂ)))).getD j 0)
      = (fun c => ν * (c * c)) (((wnVec D N (unflatten (wavenumberShape D N) h)).map
          (fun k => HasI.I * ((lit 2 * HasPi.pi / L) * (IntCast.intCast k : ℂ)))).getD i 0) := by
    intro i hi
    have hi' := Finset.mem_range.mp hi
    rw [Finset.sum_eq_single i]
    · have := Exponax.StepperWiringEq.scalarM_entry D ν i i hi' hi'
      unfold Exponax.mfun at this
      rw [this, if_pos rfl]
    · intro j hj hne
      have := Exponax.StepperWiringEq.scalarM_entry D ν i j hi' (Finset.mem_range.mp hj)
      unfold Exponax.mfun at this
      rw [this, if_neg (Ne.symm hne), zero_mul]
    · intro hni; exact absurd hi hni
  rw [Finset.sum_congr rfl hin]
  have hl := list_map_sum_eq_sum_range ((wnVec D N (unflatten (wavenumberShape D N) h)).map
      (fun k => HasI.I * ((lit 2 * HasPi.pi / L) * (IntCast.intCast k : ℂ)))) 0 (fun c => ν * (c * c))
  rw [hκ] at hl
  rw [← hl, List.map_map]
  exact diffusion_list_sum ν (lit 2 * HasPi.pi / L) (wnFlat D N h)

/-- **`DiffusedNoise.__call__`** = white noise → `rfftn` → `× exp(−intensity (2π/L)² |k|²)` → `irfftn` →
    `normalize_ic` -/
theorem DiffusedNoise_call_eq (wn : ℕ → Key → Array ℂ) (self : DiffusedNoise ℂ) (N : ℕ) (key : Key)
    (hD : 1 ≤ self.num_spatial_dims) (hN : 0 < N) :
    DiffusedNoise_call wn self N key
      = IC2.diffusedNoise self.num_spatial_dims N self.domain_extent self.intensity
          self.zero_mean self.std_one self.max_one (wn N key) := by
  unfold DiffusedNoise_call IC2.diffusedNoise ext_Diffusion_call ext_ifft ext_fft IC2.diffusedSpectrum
  simp only [normalize_ic_eq absLaw_complex]
  congr 1
  congr 1
  apply tab_congr
  intro h hh
  unfold Exponax.Gen.Etdrk.E0step Exponax.Gen.Etdrk.exp_term IC2.diffusionKernel
  simp only []
  rw [diffusion_symbol _ _ _ _ hD hN]
  simp

end diffused
/-! ## contract theorems (property C18) about the regenerated definitions -/

/-! ### the pinned lists: a new class / method / draw site / default without a theorem here breaks the build -/

theorem generated_classes_pinned : generated_classes =
    ["BaseIC", "BaseRandomICGenerator", "GaussianRandomField", "DiffusedNoise", "Discontinuity", "Discontinuities",
     "RandomDiscontinuities", "SineWaves1d", "RandomSineWaves1d", "GaussianBlob", "GaussianBlobs", "RandomGaussianBlobs",
     "MultiChannelIC", "RandomMultiChannelICGenerator"] := rfl

theorem generated_ic2_pinned : generated_ic2 =
    ["BaseRandomICGenerator.__call__", "GaussianRandomField.__init__", "GaussianRandomField.__call__",
     "DiffusedNoise.__init__", "DiffusedNoise.__call__", "Discontinuity.__call__", "Discontinuities.__init__",
     "Discontinuities.__call__", "RandomDiscontinuities.__init__", "RandomDiscontinuities.gen_one_ic_fn",
     "RandomDiscontinuities.gen_ic_fun", "RandomDiscontinuities.__call__ (inherited)", "SineWaves1d.__init__",
     "SineWaves1d.__call__", "RandomSineWaves1d.__init__", "RandomSineWaves1d.gen_ic_fun",
     "RandomSineWaves1d.__call__ (inherited)", "GaussianBlob.__init__", "GaussianBlob.__call__", "GaussianBlobs.__init__",
     "GaussianBlobs.__call__", "RandomGaussianBlobs.__init__", "RandomGaussianBlobs.gen_blob",
     "RandomGaussianBlobs.gen_ic_fun", "RandomGaussianBlobs.__call__ (inherited)", "MultiChannelIC.__init__",
     "MultiChannelIC.__call__", "RandomMultiChannelICGenerator.__init__", "RandomMultiChannelICGenerator.gen_ic_fun",
     "RandomMultiChannelICGenerator.__call__"] := rfl

/-- every method of the translated classes is translated, except the abstract `BaseIC.__call__` and the
    `BaseRandomICGenerator.gen_ic_fun` stub (which only raises) -/
theorem untranslated_methods_pinned : untranslated_methods =
    ["BaseIC.__call__ (abstract)", "BaseRandomICGenerator.gen_ic_fun (raises NotImplementedError)"] := rfl

theorem source_methods_count : source_methods.length = 29 ∧ generated_ic2.length = 30 := ⟨rfl, rfl⟩

theorem source_functions_pinned : source_functions =
    ["ic/_base_ic.py::validate_normalization_options", "ic/_base_ic.py::normalize_ic"] := rfl

theorem generated_generators_pinned : generated_generators =
    ["RandomDiscontinuities_as_generator", "RandomSineWaves1d_as_generator", "RandomGaussianBlobs_as_generator"] := rfl

/-- the random draw sites (each is a sampler parameter of the regenerated definition), with their source text -/
theorem generated_draw_sites_pinned : generated_draw_sites =
    [("GaussianRandomField.__init__", ["white_noise : self.white_noise = WhiteNoise(num_spatial_dims)"]),
     ("GaussianRandomField.__call__", ["white_noise : self.white_noise(num_points, key=key)"]),
     ("DiffusedNoise.__init__", ["white_noise : self.white_noise = WhiteNoise(num_spatial_dims)"]),
     ("DiffusedNoise.__call__", ["white_noise : self.white_noise(num_points, key=key)"]),
     ("RandomDiscontinuities.gen_one_ic_fn",
      ["draw_lim_1 : lim_1 = jr.uniform(key_1, (), minval=0.0, maxval=self.domain_extent)",
       "draw_lim_2 : lim_2 = jr.uniform(key_2, (), minval=0.0, maxval=self.domain_extent)",
       "draw_value : value = jr.uniform(key, (), minval=self.value_range[0], maxval=self.value_range[1])"]),
     ("RandomSineWaves1d.gen_ic_fun",
      ["draw_amplitudes : amplitudes = jr.uniform(amplitude_key, shape=(self.cutoff,), minval=self.amplitude_range[0], maxval=self.amplitude_range[1])",
       "draw_phases : phases = jr.uniform(phase_key, shape=(self.cutoff,), minval=self.phase_range[0], maxval=self.phase_range[1])",
       "draw_offset : offset = jr.uniform(offset_key, shape=(), minval=self.offset_range[0], maxval=self.offset_range[1])"]),
     ("RandomGaussianBlobs.gen_blob",
      ["draw_position : position = jr.uniform(position_key, shape=(self.num_spatial_dims,), minval=self.position_range[0] * self.domain_extent, maxval=self.position_range[1] * self.domain_extent)",
       "draw_variances : variances = jr.uniform(variance_key, shape=(self.num_spatial_dims,), minval=self.variance_range[0] * self.domain_extent, maxval=self.variance_range[1] * self.domain_extent)"])] := rfl

theorem generated_defaults_pinned : generated_defaults =
    [("GaussianRandomField.__init__", "domain_extent=1.0, powerlaw_exponent=3.0, zero_mean=True, std_one=False, max_one=False"),
     ("DiffusedNoise.__init__", "domain_extent=1.0, intensity=0.001, zero_mean=True, std_one=False, max_one=False"),
     ("Discontinuities.__init__", "zero_mean=True, std_one=False, max_one=False"),
     ("RandomDiscontinuities.__init__", "domain_extent=1.0, num_discontinuities=3, value_range=(-1.0, 1.0), zero_mean=False, std_one=False, max_one=False"),
     ("SineWaves1d.__init__", "offset=0.0, std_one=False, max_one=False"),
     ("RandomSineWaves1d.__init__", "domain_extent=1.0, cutoff=5, amplitude_range=(-1.0, 1.0), phase_range=(0.0, 2 * jnp.pi), offset_range=(0.0, 0.0), std_one=False, max_one=False"),
     ("GaussianBlob.__init__", "one_complement=False"),
     ("RandomGaussianBlobs.__init__", "domain_extent=1.0, num_blobs=1, position_range=(0.4, 0.6), variance_range=(0.005, 0.01), one_complement=False")] := rfl

/-! ### spectral generators: the spectrum handed to the inverse transform -/
section spectra
variable {Key : Type}

/-- **GRF**: before normalisation the result is the inverse transform of a spectrum that is, at EVERY stored mode `h`,
    the noise spectrum times `|2πk(h)/L|^(−exponent/2)`; the mean mode (`h = 0`) is multiplied by `1` (unchanged);
    the three flags reach `normalize_ic` unchanged -/
theorem GaussianRandomField_contract (wn : ℕ → Key → Array ℂ) (D N : ℕ) (L e : ℂ) (zm so mo : Bool) (key : Key)
    (hD : 1 ≤ D) (hN : 0 < N) :
    GaussianRandomField_call wn (GaussianRandomField_init D L e zm so mo) N key
        = IC.normalizeIc zm so mo (irfftnM D N (IC2.grfSpectrum D N L e (wn N key))) ∧
    (∀ h, h < numModes D N → (IC2.grfSpectrum D N L e (wn N key)).getD h 0
        = (rfftnM D N (wn N key)).getD h 0
            * (if h = 0 then 1 else HasRpow.rpow (IC2.wnNorm D N L h) (-e / 2))) := by
  constructor
  · exact GaussianRandomField_call_eq absLaw_complex wn (GaussianRandomField_init D L e zm so mo) N key hD hN
  · intro h hh
    unfold IC2.grfSpectrum IC2.powerLawAmplitude
    rw [tab_getD _ _ _ _ hh]
    by_cases h0 : h = 0 <;> simp [h0]

/-- **diffused noise**: before normalisation the result is the inverse transform of a spectrum that is, at EVERY stored
    mode, the noise spectrum times `exp(−intensity (2π/L)² |k|²)` — a factor that vanishes nowhere; the three flags reach
    `normalize_ic` unchanged -/
theorem DiffusedNoise_contract (wn : ℕ → Key → Array ℂ) (D N : ℕ) (L ν : ℂ) (zm so mo : Bool) (key : Key)
    (hD : 1 ≤ D) (hN : 0 < N) :
    DiffusedNoise_call wn (DiffusedNoise_init D L ν zm so mo) N key
        = IC.normalizeIc zm so mo (irfftnM D N (IC2.diffusedSpectrum D N L ν (wn N key))) ∧
    (∀ h, h < numModes D N → (IC2.diffusedSpectrum D N L ν (wn N key)).getD h 0
        = Complex.exp (-(ν * ((2 * Real.pi / L) * (2 * Real.pi / L)) * ((normSq (wnFlat D N h) : ℤ) : ℂ)))
            * (rfftnM D N (wn N key)).getD h 0) ∧
    (∀ h, IC2.diffusionKernel D N L ν h ≠ 0) := by
  refine ⟨DiffusedNoise_call_eq wn (DiffusedNoise_init D L ν zm so mo) N key hD hN, ?_, ?_⟩
  · intro h hh
    unfold IC2.diffusedSpectrum IC2.diffusionKernel
    rw [tab_getD _ _ _ _ hh]
    simp
  · intro h
    unfold IC2.diffusionKernel
    exact Complex.exp_ne_zero _

end spectra

theorem scaled_list_sum (s : ℝ) (k : List ℤ) :
    (k.map (fun (kd : ℤ) => ((s : ℂ) * (kd : ℂ)) * ((s : ℂ) * (kd : ℂ)))).sum
      = ((s * s * ((normSq k : ℤ) : ℝ) : ℝ) : ℂ) := by
  induction k with
  | nil => simp [normSq_nil]
  | cons a k ih =>
    rw [List.map_cons, List.sum_cons, ih, normSq_cons]
    push_cast
    ring

/-- at a real domain extent `L > 0` the norm of the scaled wavenumber is the real number `2π/L · |k|` -/
theorem wnNorm_real (D N : ℕ) (L : ℝ) (hL : 0 < L) (h : ℕ) :
    IC2.wnNorm D N (L : ℂ) h = ((2 * Real.pi / L * Real.sqrt ((normSq (wnFlat D N h) : ℤ) : ℝ) : ℝ) : ℂ) := by
  unfold IC2.wnNorm IC2.scaledWn
  rw [sumList_eq]
  have hs : (lit 2 * HasPi.pi / (L : ℂ) : ℂ) = ((2 * Real.pi / L : ℝ) : ℂ) := by
    simp
  rw [hs]
  have hsum := scaled_list_sum (2 * Real.pi / L) (wnFlat D N h)
  have hsum' : (List.map (fun (k : ℤ) => ((2 * Real.pi / L : ℝ) : ℂ) * (IntCast.intCast k : ℂ)
      * (((2 * Real.pi / L : ℝ) : ℂ) * (IntCast.intCast k : ℂ))) (wnFlat D N h)).sum
      = ((2 * Real.pi / L * (2 * Real.pi / L) * ((normSq (wnFlat D N h) : ℤ) : ℝ) : ℝ) : ℂ) := hsum
  rw [hsum']
  have hn : (0 : ℝ) ≤ ((normSq (wnFlat D N h) : ℤ) : ℝ) := by exact_mod_cast normSq_nonneg _
  have hs0 : 0 ≤ 2 * Real.pi / L := by positivity
  have hx : 0 ≤ 2 * Real.pi / L * (2 * Real.pi / L) * ((normSq (wnFlat D N h) : ℤ) : ℝ) := by positivity
  show ((2 * Real.pi / L * (2 * Real.pi / L) * ((normSq (wnFlat D N h) : ℤ) : ℝ) : ℝ) : ℂ) ^ ((1 : ℂ) / 2) = _
  have h12 : ((1 : ℂ) / 2) = (((1 / 2 : ℝ)) : ℂ) := by push_cast; ring
  rw [h12, ← Complex.ofReal_cpow hx, ← Real.sqrt_eq_rpow, Real.sqrt_mul (by positivity), Real.sqrt_mul_self hs0]

/-- **the documented power law**: for real `L > 0` and a real exponent, the amplitude of a stored mode `h ≠ 0` is the
    real number `(2π/L · |k(h)|)^(−exponent/2)` (so the power spectrum decays like `|k|^(−exponent)`) -/
theorem powerLawAmplitude_real (D N : ℕ) (L e : ℝ) (hL : 0 < L) (h : ℕ) (h0 : h ≠ 0) :
    IC2.powerLawAmplitude D N (L : ℂ) (e : ℂ) h
      = (((2 * Real.pi / L * Real.sqrt ((normSq (wnFlat D N h) : ℤ) : ℝ)) ^ (-e / 2) : ℝ) : ℂ) := by
  unfold IC2.powerLawAmplitude
  rw [if_neg h0, wnNorm_real D N L hL h, hasRpow_complex]
  congr 2
  simp

/-! ### discontinuities -/
section disc2
variable {Key K : Type} [Field K] [HasLtB K] [HasSqrt K] [HasAbs K]

/-- the function form of one discontinuity takes exactly two values: `value` strictly inside the box, `0` elsewhere -/
theorem Discontinuity_two_values (self : Discontinuity K) (x : List (Array K)) (j : ℕ) (hj : j < IC2.gridPoints x) :
    (Discontinuity_call self x).getD j 0
      = if IC2.inBox self.lower_limits self.upper_limits x j then self.value else 0 := by
  rw [Discontinuity_call_eq]
  unfold IC2.discontinuity
  rw [tab_getD _ _ _ _ hj]
  simp

/-- **sampled form = function form on the regenerated `make_grid`** -/
theorem RandomDiscontinuities_sampled_eq_function_form [Inhabited Key] (split : Key → ℕ → List Key)
    (d1 d2 dv : Key → K → K → K) (self : RandomDiscontinuities K) (N : ℕ) (key : Key) :
    RandomDiscontinuities_call split d1 d2 dv self N key
      = Discontinuities_call (RandomDiscontinuities_gen_ic_fun split d1 d2 dv self key)
          (ext_make_grid self.num_spatial_dims self.domain_extent N self.indexing) := rfl

/-- the function form is built from one sub-key per discontinuity, and carries the generator's flags unchanged -/
theorem RandomDiscontinuities_gen_ic_fun_fields [Inhabited Key] (split : Key → ℕ → List Key)
    (d1 d2 dv : Key → K → K → K) (self : RandomDiscontinuities K) (key : Key) :
    (RandomDiscontinuities_gen_ic_fun split d1 d2 dv self key).discontinuity_list
        = (split key self.num_discontinuities).map (RandomDiscontinuities_gen_one_ic_fn split d1 d2 dv self) ∧
    (RandomDiscontinuities_gen_ic_fun split d1 d2 dv self key).zero_mean = self.zero_mean ∧
    (RandomDiscontinuities_gen_ic_fun split d1 d2 dv self key).std_one = self.std_one ∧
    (RandomDiscontinuities_gen_ic_fun split d1 d2 dv self key).max_one = self.max_one := ⟨rfl, rfl, rfl, rfl⟩

/-- the flags given to the constructor reach `normalize_ic` unchanged -/
theorem RandomDiscontinuities_flags [Inhabited Key] (split : Key → ℕ → List Key) (d1 d2 dv : Key → K → K → K)
    (D : ℕ) (L : K) (n : ℕ) (vr : K × K) (zm so mo : Bool) (N : ℕ) (key : Key) :
    RandomDiscontinuities_call split d1 d2 dv (RandomDiscontinuities_init D L n vr zm so mo) N key
      = normalize_ic (py_sum_arrays
          (((split key n).map (RandomDiscontinuities_gen_one_ic_fn split d1 d2 dv
              (RandomDiscontinuities_init D L n vr zm so mo))).map
            (fun d => Discontinuity_call d (ext_make_grid D L N "ij")))) zm so mo := rfl

theorem foldl_append_lengths {σ α β : Type} (l : List α) (g : σ × List β × List β → α → σ)
    (a b : σ × List β × List β → α → β) (st : σ × List β × List β) :
    (l.foldl (fun st it => (g st it, st.2.1 ++ [a st it], st.2.2 ++ [b st it])) st).2.1.length
        = st.2.1.length + l.length ∧
    (l.foldl (fun st it => (g st it, st.2.1 ++ [a st it], st.2.2 ++ [b st it])) st).2.2.length
        = st.2.2.length + l.length := by
  induction l generalizing st with
  | nil => simp
  | cons x l ih =>
    rw [List.foldl_cons]
    have := ih (g st x, st.2.1 ++ [a st x], st.2.2 ++ [b st x])
    simp only [List.length_append, List.length_cons, List.length_nil] at this ⊢
    omega

/-- one generated discontinuity has one `(lower, upper)` pair per spatial axis -/
theorem RandomDiscontinuities_gen_one_ic_fn_lengths [Inhabited Key] (split : Key → ℕ → List Key)
    (d1 d2 dv : Key → K → K → K) (self : RandomDiscontinuities K) (key : Key) :
    (RandomDiscontinuities_gen_one_ic_fn split d1 d2 dv self key).lower_limits.length = self.num_spatial_dims ∧
    (RandomDiscontinuities_gen_one_ic_fn split d1 d2 dv self key).upper_limits.length = self.num_spatial_dims := by
  unfold RandomDiscontinuities_gen_one_ic_fn
  simp only []
  have h := foldl_append_lengths (List.range self.num_spatial_dims)
    (fun (st : Key × List K × List K) (_ : ℕ) => (split st.1 3).getD 2 default)
    (fun st _ => jnp_minimum (d1 ((split st.1 3).getD 0 default) (lit 0) self.domain_extent)
      (d2 ((split st.1 3).getD 1 default) (lit 0) self.domain_extent))
    (fun st _ => jnp_maximum (d1 ((split st.1 3).getD 0 default) (lit 0) self.domain_extent)
      (d2 ((split st.1 3).getD 1 default) (lit 0) self.domain_extent))
    (key, [], [])
  simpa using h

end disc2

/-! ### sine waves -/
section sine2
variable {Key K : Type} [Field K] [HasLtB K] [HasSqrt K] [HasAbs K] [HasSin K] [HasPi K]

/-- **sampled form = function form on the regenerated `make_grid`** (its one coordinate array) -/
theorem RandomSineWaves1d_sampled_eq_function_form [Inhabited Key] (split : Key → ℕ → List Key)
    (da dp : Key → ℕ → K → K → List K) (doff : Key → K → K → K) (self : RandomSineWaves1d K) (N : ℕ) (key : Key) :
    RandomSineWaves1d_call split da dp doff self N key
      = SineWaves1d_call (RandomSineWaves1d_gen_ic_fun split da dp doff self key)
          ((ext_make_grid self.num_spatial_dims self.domain_extent N self.indexing).getD 0 #[]) := rfl

/-- the draws of `RandomSineWaves1d` → the fields of the `SineWaves1d`: three sub-keys of ONE `split(key, 3)`, wavenumbers
    `1 … cutoff`, the flags unchanged -/
theorem RandomSineWaves1d_gen_ic_fun_fields [Inhabited Key] (split : Key → ℕ → List Key)
    (da dp : Key → ℕ → K → K → List K) (doff : Key → K → K → K) (self : RandomSineWaves1d K) (key : Key) :
    RandomSineWaves1d_gen_ic_fun split da dp doff self key
      = { domain_extent := self.domain_extent,
          amplitudes := da ((split key 3).getD 0 default) self.cutoff self.amplitude_range.1 self.amplitude_range.2,
          wavenumbers := jnp_arange 1 (self.cutoff + 1),
          phases := dp ((split key 3).getD 1 default) self.cutoff self.phase_range.1 self.phase_range.2,
          offset := doff ((split key 3).getD 2 default) self.offset_range.1 self.offset_range.2,
          std_one := self.std_one, max_one := self.max_one } := rfl

theorem jnp_arange_eq (a b : ℕ) : (jnp_arange a b : List K) = (List.range (b - a)).map (fun i => ((a + i : ℕ) : K)) := rfl

/-- the value formula of the function form (before `std_one` / `max_one`) and the flags reaching `normalize_ic` -/
theorem SineWaves1d_contract (hlaw : AbsLaw K) (self : SineWaves1d K) (x : Array K) :
    SineWaves1d_call self x
        = IC.normalizeIc false self.std_one self.max_one
            (IC2.sineSum self.domain_extent self.amplitudes self.wavenumbers self.phases self.offset x) ∧
    (∀ j, j < x.size →
      (IC2.sineSum self.domain_extent self.amplitudes self.wavenumbers self.phases self.offset x).getD j 0
        = ((List.zip self.amplitudes (List.zip self.wavenumbers self.phases)).map
            (fun t => t.1 * HasSin.sin (t.2.1 * (2 * HasPi.pi / self.domain_extent) * x.getD j 0 + t.2.2))).sum
          + self.offset) := by
  refine ⟨SineWaves1d_call_eq hlaw self x, ?_⟩
  intro j hj
  unfold IC2.sineSum
  rw [tab_getD _ _ _ _ hj, sumList_eq]
  simp

/-- the flags given to the generator's constructor reach `normalize_ic` unchanged -/
theorem RandomSineWaves1d_flags [Inhabited Key] (hlaw : AbsLaw K) (split : Key → ℕ → List Key)
    (da dp : Key → ℕ → K → K → List K) (doff : Key → K → K → K) (L : K) (c : ℕ) (ar pr orng : K × K) (so mo : Bool)
    (N : ℕ) (key : Key) :
    RandomSineWaves1d_call split da dp doff (RandomSineWaves1d_init 1 L c ar pr orng so mo) N key
      = IC.normalizeIc false so mo
          (IC2.sineSum L (da ((split key 3).getD 0 default) c ar.1 ar.2) (jnp_arange 1 (c + 1))
            (dp ((split key 3).getD 1 default) c pr.1 pr.2) (doff ((split key 3).getD 2 default) orng.1 orng.2)
            ((ext_make_grid 1 L N "ij").getD 0 #[])) := by
  rw [RandomSineWaves1d_sampled_eq_function_form, SineWaves1d_call_eq hlaw]
  rfl

end sine2

/-! ### Gaussian blobs -/
section blob2
variable {Key K : Type} [Field K] [HasExp K]

/-- **sampled form = function form on the regenerated `make_grid`** -/
theorem RandomGaussianBlobs_sampled_eq_function_form [Inhabited Key] (split : Key → ℕ → List Key)
    (dp dv : Key → ℕ → K → K → List K) (inv : List (List K) → List (List K)) (self : RandomGaussianBlobs K) (N : ℕ)
    (key : Key) :
    RandomGaussianBlobs_call split dp dv inv self N key
      = GaussianBlobs_call (RandomGaussianBlobs_gen_ic_fun split dp dv inv self key)
          (ext_make_grid self.num_spatial_dims self.domain_extent N self.indexing) := rfl

/-- the draws of one blob: position and variances from the two halves of ONE `split(key)`, both ranges scaled by the
    domain extent, a diagonal covariance, `one_complement` forwarded -/
theorem RandomGaussianBlobs_gen_blob_fields [Inhabited Key] (split : Key → ℕ → List Key)
    (dp dv : Key → ℕ → K → K → List K) (inv : List (List K) → List (List K)) (self : RandomGaussianBlobs K) (key : Key) :
    RandomGaussianBlobs_gen_blob split dp dv inv self key
      = { position := dp ((split key 2).getD 0 default) self.num_spatial_dims
            (self.position_range.1 * self.domain_extent) (self.position_range.2 * self.domain_extent),
          covariance := jnp_diag (dv ((split key 2).getD 1 default) self.num_spatial_dims
            (self.variance_range.1 * self.domain_extent) (self.variance_range.2 * self.domain_extent)),
          priv_inv_covariance := inv (jnp_diag (dv ((split key 2).getD 1 default) self.num_spatial_dims
            (self.variance_range.1 * self.domain_extent) (self.variance_range.2 * self.domain_extent))),
          one_complement := self.one_complement } := rfl

/-- the constructor of the generator stores `one_complement` unchanged -/
theorem RandomGaussianBlobs_init_one_complement (D : ℕ) (L : K) (n : ℕ) (pr vr : K × K) (oc : Bool) :
    (RandomGaussianBlobs_init D L n pr vr oc).one_complement = oc := rfl

end blob2

/-! ### the concrete generators as sub-generators of the multi-channel wrapper -/
section wrap
variable {Key K : Type} [Inhabited Key] [Field K] [HasLtB K] [HasSqrt K] [HasAbs K] [HasExp K] [HasSin K] [HasPi K]

/-- every packaged generator satisfies the hypothesis of `multi_channel_function_form_eq_sampled` on ITS grid -/
theorem as_generator_sampled_eq_function_form
    (split : Key → ℕ → List Key) (d1 d2 dv : Key → K → K → K) (da dp dpos dvar : Key → ℕ → K → K → List K)
    (doff : Key → K → K → K) (inv : List (List K) → List (List K))
    (rd : RandomDiscontinuities K) (rs : RandomSineWaves1d K) (rb : RandomGaussianBlobs K) (N : ℕ) (k : Key) :
    (RandomDiscontinuities_as_generator split d1 d2 dv rd).call N k
        = (RandomDiscontinuities_as_generator split d1 d2 dv rd).gen_ic_fun k
            (ext_make_grid rd.num_spatial_dims rd.domain_extent N rd.indexing) ∧
    (RandomSineWaves1d_as_generator split da dp doff rs).call N k
        = (RandomSineWaves1d_as_generator split da dp doff rs).gen_ic_fun k
            (ext_make_grid rs.num_spatial_dims rs.domain_extent N rs.indexing) ∧
    (RandomGaussianBlobs_as_generator split dpos dvar inv rb).call N k
        = (RandomGaussianBlobs_as_generator split dpos dvar inv rb).gen_ic_fun k
            (ext_make_grid rb.num_spatial_dims rb.domain_extent N rb.indexing) := ⟨rfl, rfl, rfl⟩

end wrap

/-! ### the generic laws at `ℝ` -/

theorem Discontinuities_call_real (self : Discontinuities ℝ) (x : List (Array ℝ)) (hne : self.discontinuity_list ≠ []) :
    Discontinuities_call self x
      = IC2.discontinuities self.zero_mean self.std_one self.max_one (IC2.gridPoints x)
          (self.discontinuity_list.map (fun d => IC2.discontinuity d.lower_limits d.upper_limits d.value x)) :=
  Discontinuities_call_eq_partial absLaw_real self x hne

end Exponax.Gen.IC2
