import ExponaxModel.Proofs.SmallGapsSymbols
import ExponaxModel.Proofs.RepeatedPhysicalWavenumber
import ExponaxModel.Proofs.ExactLinearBand
/-
SmallGaps 4 (C11): isometry of advection / dispersion on NYQUIST-FREE states, every grid size (even included).

`SmallGapsSymbols` discharges the Hermitian condition of `C2R.linear_step_isometry_iff_herm` on ODD grids only.  Here
the other half of the sentence "… exactly on odd grids and on Nyquist-free states":

  * `selfconj_negated_or_nyquist` : a stored mode on a self-conjugate column either has its conjugate partner
    `conjIdx` at the OPPOSITE wave vector, or it has a Nyquist component (even `N`, `|k_d| = N/2`), i.e. it is not
    `BelowNyquist`  (from `C2R.wnFlat_conjIdx_getD`);
  * `linear_step_isometry_of_hermSym_bandLimited` : any `D ≥ 1`, ANY `N ≥ 1`: a Hermitian-symmetric symbol with
    `Re λ = 0` on the stored modes gives an isometry of the grid 2-norm for EVERY real state whose stored spectrum
    vanishes at the modes with a Nyquist component (`ExactLinear.BandLimited`), every real `dt`;
  * `linear_rollout_isometry_of_hermSym_bandLimited` : the same after any number of steps;
  * `advection_isometry_bandLimited`, `dispersion_isometry_bandLimited`, `dispersion_mixed_isometry_bandLimited`.
-/
set_option linter.unusedVariables false
namespace Exponax.SmallGaps
open Exponax Exponax.Layout Exponax.Transform Exponax.DFT Exponax.Nonlin Exponax.Gen.Etdrk Exponax.C2R
open Exponax.Conserve Exponax.ExactLinear Exponax.Interp Finset
open scoped ComplexConjugate

/-- a wave vector with a Nyquist component is not strictly below Nyquist -/
theorem not_belowNyquist_of_nyquist_component (D N : ℕ) (κ : List ℤ) (d : ℕ) (hd : d < D) (hev : N % 2 = 0)
    (hk : (κ.getD d 0).natAbs = N / 2) : ¬ BelowNyquist D N κ := by
  intro hB
  have h1 := hB.2 d hd
  have h2 : |κ.getD d 0| = ((N / 2 : ℕ) : ℤ) := by rw [← hk, Int.natCast_natAbs]
  rw [h2] at h1
  omega

/-- **every `N`:** a stored mode on a self-conjugate column either has its conjugate partner at the OPPOSITE wave
    vector, or it carries a Nyquist component (and then it is not strictly below Nyquist) -/
theorem selfconj_negated_or_nyquist (D N h : ℕ) (hD : 0 < D) (hN : 0 < N) (hh : h < numModes D N)
    (hw : herm_weight D N h = 1) :
    (∀ d < D, (wnFlat D N (conjIdx D N h)).getD d 0 = -(wnFlat D N h).getD d 0)
      ∨ ¬ BelowNyquist D N (wnFlat D N h) := by
  by_cases hall : ∀ d < D, (wnFlat D N (conjIdx D N h)).getD d 0 = -(wnFlat D N h).getD d 0
  · exact Or.inl hall
  · right
    simp only [not_forall] at hall
    obtain ⟨d, hd, hne⟩ := hall
    rcases wnFlat_conjIdx_getD D N h d hD hN hh hw hd with h1 | ⟨hev, hny, _⟩
    · exact absurd h1 hne
    · exact not_belowNyquist_of_nyquist_component D N _ d hd hev hny

/-- the regenerated propagator of a conjugate pair of symbol values (real `dt`) -/
theorem exp_term_conj_pair (dt : ℝ) (a b : ℂ) (hab : b = conj a) :
    exp_term (dt : ℂ) a = (starRingEnd ℂ) (exp_term (dt : ℂ) b) := by
  rw [hab]
  unfold exp_term
  simp only [hasExp_complex]
  rw [← Complex.exp_conj, map_mul, Complex.conj_conj, Complex.conj_ofReal]

/-- **every `N`:** for a Hermitian-symmetric symbol and a Nyquist-free state, on every self-conjugate stored mode
    the propagator is Hermitian-consistent or the state has no content there — the condition of
    `C11_isometry_iff` -/
theorem isometry_condition_of_hermSym_bandLimited (D N : ℕ) (hD : 0 < D) (hN : 0 < N) (Λ : ℕ → ℂ)
    (hΛ : HermSym D N Λ) (u : Array ℂ) (hb : BandLimited D N u) (dt : ℝ) (h : ℕ) (hh : h < numModes D N)
    (hw : herm_weight D N h = 1) :
    exp_term (dt : ℂ) (Λ h) = (starRingEnd ℂ) (exp_term (dt : ℂ) (Λ (conjIdx D N h)))
      ∨ (rfftnM D N u).getD h 0 = 0 := by
  rcases selfconj_negated_or_nyquist D N h hD hN hh hw with hneg | hny
  · exact Or.inl (exp_term_conj_pair dt _ _ (hΛ h hh (conjIdx D N h) (conjIdx_lt D N h hD hN) hneg))
  · exact Or.inr (hb h hh hny)

/-- **general form, ANY grid size.** any `D ≥ 1`, any `N ≥ 1` (even included): a Hermitian-symmetric symbol with
    `Re λ = 0` on the stored modes (advection, dispersion, any odd-order operator with real coefficients) gives an
    ISOMETRY of the grid `L²` norm for EVERY real Nyquist-free state and every real `dt`, with the regenerated
    `E0step` / `exp_term` -/
theorem linear_step_isometry_of_hermSym_bandLimited (D N : ℕ) (hD : 0 < D) (hN : 0 < N) (u : Array ℂ)
    (hu : ∀ j < N ^ D, (u.getD j 0).im = 0) (hb : BandLimited D N u) (dt : ℝ) (Λ : ℕ → ℂ) (hΛ : HermSym D N Λ)
    (hre : ∀ h < numModes D N, (Λ h).re = 0) :
    ∑ j ∈ range (N ^ D), ((irfftnM D N (tab (numModes D N) fun h =>
        E0step (exp_term (dt : ℂ) (Λ h)) ((rfftnM D N u).getD h 0))).getD j 0).re ^ 2
      = ∑ j ∈ range (N ^ D), (u.getD j 0).re ^ 2 :=
  (linear_step_isometry_iff_herm D N hD hN u hu (fun h => exp_term (dt : ℂ) (Λ h))
    (fun h hh => by rw [norm_exp_term_real, hre h hh, mul_zero, Real.exp_zero])).mpr
    (fun h hh hw => isometry_condition_of_hermSym_bandLimited D N hD hN Λ hΛ u hb dt h hh hw)

/-- the same in terms of `ExactLinear.linStep` -/
theorem linStep_isometry_of_hermSym_bandLimited (D N : ℕ) (hD : 0 < D) (hN : 0 < N) (u : Array ℂ)
    (hu : ∀ j < N ^ D, (u.getD j 0).im = 0) (hb : BandLimited D N u) (dt : ℝ) (Λ : ℕ → ℂ) (hΛ : HermSym D N Λ)
    (hre : ∀ h < numModes D N, (Λ h).re = 0) :
    ∑ j ∈ range (N ^ D), ((linStep D N Λ (dt : ℂ) u).getD j 0).re ^ 2
      = ∑ j ∈ range (N ^ D), (u.getD j 0).re ^ 2 :=
  linear_step_isometry_of_hermSym_bandLimited D N hD hN u hu hb dt Λ hΛ hre

/-- … and after ANY number of steps (the iterate on a Nyquist-free state is one step of length `n·dt`) -/
theorem linear_rollout_isometry_of_hermSym_bandLimited (D N : ℕ) (hD : 0 < D) (hN : 0 < N) (u : Array ℂ)
    (hsz : u.size = N ^ D) (hu : ∀ j < N ^ D, (u.getD j 0).im = 0) (hb : BandLimited D N u) (dt : ℝ)
    (Λ : ℕ → ℂ) (hΛ : HermSym D N Λ) (hre : ∀ h < numModes D N, (Λ h).re = 0) (n : ℕ) :
    ∑ j ∈ range (N ^ D), (((linStep D N Λ (dt : ℂ))^[n] u).getD j 0).re ^ 2
      = ∑ j ∈ range (N ^ D), (u.getD j 0).re ^ 2 := by
  rw [linStep_iterate_bandLimited D N hD hN Λ hΛ u hsz hu hb dt n]
  exact linStep_isometry_of_hermSym_bandLimited D N hD hN u hu hb ((n : ℝ) * dt) Λ hΛ hre

/-! ### the documented advection / dispersion symbols -/

/-- **advection `−v·∇`:** isometry for every real Nyquist-free state, every `D ≥ 1`, EVERY `N ≥ 1`, every real `dt` -/
theorem advection_isometry_bandLimited (c : Cfg ℂ) (hD : 0 < c.D) (hN : 0 < c.N) (s : ℝ) (hs : c.s = (s : ℂ))
    (v : ℕ → ℝ) (u : Array ℂ) (hu : ∀ j < c.N ^ c.D, (u.getD j 0).im = 0) (hb : BandLimited c.D c.N u) (dt : ℝ) :
    ∑ j ∈ range (c.N ^ c.D), ((irfftnM c.D c.N (tab (numModes c.D c.N) fun h =>
        E0step (exp_term (dt : ℂ) (polySymbol c (pscale (-1) (gradInner c.D (fun d => ((v d : ℝ) : ℂ)) 1)) h))
          ((rfftnM c.D c.N u).getD h 0))).getD j 0).re ^ 2
      = ∑ j ∈ range (c.N ^ c.D), (u.getD j 0).re ^ 2 :=
  linear_step_isometry_of_hermSym_bandLimited c.D c.N hD hN u hu hb dt _ (hermSym_advection c s hs v)
    (fun h _ => advection_symbol_re c s hs h v)

/-- **dispersion `ξ·∇³`** -/
theorem dispersion_isometry_bandLimited (c : Cfg ℂ) (hD : 0 < c.D) (hN : 0 < c.N) (s : ℝ) (hs : c.s = (s : ℂ))
    (ξ : ℕ → ℝ) (u : Array ℂ) (hu : ∀ j < c.N ^ c.D, (u.getD j 0).im = 0) (hb : BandLimited c.D c.N u) (dt : ℝ) :
    ∑ j ∈ range (c.N ^ c.D), ((irfftnM c.D c.N (tab (numModes c.D c.N) fun h =>
        E0step (exp_term (dt : ℂ) (polySymbol c (gradInner c.D (fun d => ((ξ d : ℝ) : ℂ)) 3) h))
          ((rfftnM c.D c.N u).getD h 0))).getD j 0).re ^ 2
      = ∑ j ∈ range (c.N ^ c.D), (u.getD j 0).re ^ 2 :=
  linear_step_isometry_of_hermSym_bandLimited c.D c.N hD hN u hu hb dt _ (hermSym_dispersion c s hs ξ)
    (fun h _ => dispersion_symbol_re c s hs h ξ)

/-- **dispersion, mixed form `(ξ·∇)(∇·∇)`** -/
theorem dispersion_mixed_isometry_bandLimited (c : Cfg ℂ) (hD : 0 < c.D) (hN : 0 < c.N) (s : ℝ)
    (hs : c.s = (s : ℂ)) (ξ : ℕ → ℝ) (u : Array ℂ) (hu : ∀ j < c.N ^ c.D, (u.getD j 0).im = 0)
    (hb : BandLimited c.D c.N u) (dt : ℝ) :
    ∑ j ∈ range (c.N ^ c.D), ((irfftnM c.D c.N (tab (numModes c.D c.N) fun h =>
        E0step (exp_term (dt : ℂ)
          (polySymbol c (pmul (gradInner c.D (fun d => ((ξ d : ℝ) : ℂ)) 1) (lapT c.D 1 2)) h))
          ((rfftnM c.D c.N u).getD h 0))).getD j 0).re ^ 2
      = ∑ j ∈ range (c.N ^ c.D), (u.getD j 0).re ^ 2 :=
  linear_step_isometry_of_hermSym_bandLimited c.D c.N hD hN u hu hb dt _ (hermSym_dispersion_mixed c s hs ξ)
    (fun h _ => dispersion_mixed_symbol_re c s hs h ξ)

/-! ### non-vacuity: an EVEN grid -/

/-- a real Nyquist-free state on the even `4 × 4` grid (the mode `(1, 1)`), which is not the zero state of the
    hypotheses: the mode `(1, 2)` (stored index 5) is on a self-conjugate column and is a Nyquist mode, so this is a
    grid on which the odd-grid theorem does not apply and the band-limitedness is used -/
example : ∃ u : Array ℂ, u.size = 4 ^ 2 ∧ (∀ j < 4 ^ 2, (u.getD j 0).im = 0) ∧ BandLimited 2 4 u ∧
    (4 : ℕ) % 2 = 0 ∧ (5 : ℕ) < numModes 2 4 ∧ herm_weight 2 4 5 = 1 := by
  have hms : ∀ m ∈ ([([1, 1], 2, 0.5)] : Modes), BelowNyquist 2 4 m.1 := by
    intro m hm
    simp only [List.mem_cons, List.mem_nil_iff, or_false] at hm
    subst hm
    exact ⟨rfl, by intro d hd; interval_cases d <;> simp⟩
  exact ⟨stateOf 2 4 [([1, 1], 2, 0.5)], by simp, stateOf_real 2 4 _,
    bandLimited_stateOf 2 4 (by norm_num) (by norm_num) _ hms, by decide, by decide, by decide⟩

end Exponax.SmallGaps
