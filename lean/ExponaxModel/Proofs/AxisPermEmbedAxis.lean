import ExponaxModel.Proofs.AxisPermSteps
import ExponaxModel.Proofs.AxisPermEmbedSteps
/-
C08, T4 (any axis) — EMBEDDING a 1-D state along an ARBITRARY axis `a` of the `D`-dimensional grid:
the embedding along `a` is the axis permutation (swap of `a` and the last axis) of the embedding along the
last axis (`embedAxis_eq_permField`), so T3 (axis permutations) and T4 (last axis) combine to

  `physCh D N (step_D^n (rfftn_D (embed_a w))) = embed_a (physCh 1 N (step_1^n (rfftn_1 w)))`

for real NYQUIST-FREE 1-D states `w` (for `a` = last axis no such restriction is needed:
`AxisPermEmbedSteps.lean`), isotropic coefficient arrays and a term that is both axis-permutation
equivariant (`TermPerm`) and compatible with the embedding (`TermEmbed`).
-/
set_option linter.unusedVariables false
namespace Exponax.AxisPerm
open Exponax Exponax.Layout Exponax.Transform Exponax.DFT Exponax.AliasND Exponax.Nonlin Exponax.Alias Finset
open Exponax.Gen.Etdrk
open Exponax.EquivND (liftTermND specMC physCh)

/-- the embedding along axis `a` is the axis-permuted embedding along the last axis, for every
    permutation that maps the last axis to `a` -/
theorem embedAxis_eq_permField (D N : ℕ) (hD : 0 < D) (hN : 0 < N) (a : Fin D) (σ : Equiv.Perm (Fin D))
    (hσ : σ ⟨D - 1, by omega⟩ = a) (w : Array ℂ) :
    embedAxis D N a w = permField D N σ (embedAxis D N (D - 1) w) := by
  apply Symmetry.array_ext_getD _ _ (N ^ D) (by simp) (by simp)
  intro j hj
  rw [embedAxis_getD D N a w j hj, permField_getD D N σ _ j hj,
    embedAxis_getD D N (D - 1) w _ (permIdx_lt D N hN σ j)]
  have := digit_permIdx D N hN σ j ⟨D - 1, by omega⟩
  simp only at this
  rw [this, hσ]

/-- the swap of the last axis and `a` -/
def swapLast {D : ℕ} (hD : 0 < D) (a : Fin D) : Equiv.Perm (Fin D) := Equiv.swap ⟨D - 1, by omega⟩ a

theorem swapLast_last {D : ℕ} (hD : 0 < D) (a : Fin D) : swapLast hD a ⟨D - 1, by omega⟩ = a :=
  Equiv.swap_apply_left _ _

/-- a Nyquist-free 1-D state embedded along the last axis is Nyquist-free -/
theorem nyqFreeS_rfftn_embedLast (E N : ℕ) (hN : 0 < N) (w : Array ℂ) (h1 : NyqFreeS 1 N (rfftnM 1 N w)) :
    NyqFreeS (E + 1) N (rfftnM (E + 1) N (embedAxis (E + 1) N E w)) := by
  intro h hh hny
  rw [rfftn_embedLast E N hN w h hh]
  split_ifs with hlt
  · rw [h1 h (by rw [numModes_one]; exact hlt), mul_zero]
    obtain ⟨d, h2, hn⟩ := hny
    rw [kvec_lastAxis E N h hN hlt] at h2 hn
    by_cases hd : (d : ℕ) = E
    · rw [if_pos hd] at h2 hn
      exact ⟨0, by rw [kvec_one]; exact h2, by rw [kvec_one]; exact hn⟩
    · rw [if_neg hd] at hn
      exact absurd (dvd_zero _) hn
  · rfl

theorem map_getD_getD (f : Array ℂ → Array ℂ) (hf : ∀ j, (f #[]).getD j 0 = 0) (u : MC ℂ) (ch j : ℕ) :
    ((u.map f).getD ch #[]).getD j 0 = (f (u.getD ch #[])).getD j 0 := by
  rw [EquivND.getD_map]
  by_cases hc : ch < u.size
  · rw [if_pos hc]
  · have e : u.getD ch #[] = #[] := by simp [Array.getD, hc]
    rw [if_neg hc, e, hf]
    simp

theorem embedAxis_empty_getD (D N a j : ℕ) : (embedAxis D N a #[]).getD j 0 = 0 := by
  unfold embedAxis
  rcases Nat.lt_or_ge j (N ^ D) with hj | hj
  · rw [DFT.tab_getD _ _ _ _ hj]; simp
  · rw [DFT.tab_getD_of_le _ _ _ _ hj]

/-- **T4, any axis, ETDRK4**: `n` steps of the `D`-dimensional isotropic stepper applied to a real
    Nyquist-free 1-D multi-channel state embedded along the axis `a` are the embedding along `a` of `n` steps
    of the 1-D stepper. -/
theorem E4_embedAxis_physical (c : Cfg ℂ) (hc : PermCfg c) (a : Fin c.D) (C : ℕ) (T T1 : MC ℂ → MC ℂ)
    (hTp : TermPerm c (swapLast hc.hD a) id T) (hTe : TermEmbed c T T1)
    {E Eh c1 c2 c3 c4 c5 c6 E' Eh' c1' c2' c3' c4' c5' c6' : ℕ → ℕ → ℂ}
    (hE : IsoCoef c (swapLast hc.hD a) id E E) (hEh : IsoCoef c (swapLast hc.hD a) id Eh Eh)
    (h1 : IsoCoef c (swapLast hc.hD a) id c1 c1) (h2 : IsoCoef c (swapLast hc.hD a) id c2 c2)
    (h3 : IsoCoef c (swapLast hc.hD a) id c3 c3) (h4 : IsoCoef c (swapLast hc.hD a) id c4 c4)
    (h5 : IsoCoef c (swapLast hc.hD a) id c5 c5) (h6 : IsoCoef c (swapLast hc.hD a) id c6 c6)
    (eE : EmbCoef c E E') (eEh : EmbCoef c Eh Eh') (e1 : EmbCoef c c1 c1') (e2 : EmbCoef c c2 c2')
    (e3 : EmbCoef c c3 c3') (e4 : EmbCoef c c4 c4') (e5 : EmbCoef c c5 c5') (e6 : EmbCoef c c6 c6')
    (n : ℕ) (u1 : MC ℂ) (hreal : ∀ ch, ∀ i < c.N, ((u1.getD ch #[]).getD i 0).im = 0)
    (hfree : ∀ ch, NyqFreeS 1 c.N (rfftnM 1 c.N (u1.getD ch #[]))) (ch : ℕ) :
    physCh c.D c.N ((E4step E Eh c1 c2 c3 c4 c5 c6 (liftTermND c C T))^[n]
        (specMC c.D c.N (u1.map (embedAxis c.D c.N a)))) ch
      = embedAxis c.D c.N a
          (physCh 1 c.N ((E4step E' Eh' c1' c2' c3' c4' c5' c6' (liftTermND (cfg1 c) C T1))^[n]
            (specMC 1 c.N u1)) ch) := by
  have hD := hc.hD
  have hN := hc.hN
  obtain ⟨E0, hE0⟩ : ∃ E0, c.D = E0 + 1 := ⟨c.D - 1, by omega⟩
  -- the state embedded along the last axis: real, Nyquist-free
  have hgl : ∀ ch j, ((embedMC c u1).getD ch #[]).getD j 0
      = (embedAxis c.D c.N (c.D - 1) (u1.getD ch #[])).getD j 0 := fun ch j =>
    map_getD_getD _ (embedAxis_empty_getD _ _ _) u1 ch j
  have hga : ∀ ch j, ((u1.map (embedAxis c.D c.N a)).getD ch #[]).getD j 0
      = (embedAxis c.D c.N a (u1.getD ch #[])).getD j 0 := fun ch j =>
    map_getD_getD _ (embedAxis_empty_getD _ _ _) u1 ch j
  have hrealL : ∀ ch, IsRealND c.D c.N ((embedMC c u1).getD ch #[]) := by
    intro ch j hj
    rw [hgl]
    exact embedAxis_real c.D c.N _ hN _ (hreal ch) j hj
  have hfreeL : ∀ ch, NyqFreeS c.D c.N (rfftnM c.D c.N ((embedMC c u1).getD ch #[])) := by
    intro ch
    rw [EquivND.rfftnM_congr c.D c.N _ _ (fun j _ => hgl ch j)]
    have := nyqFreeS_rfftn_embedLast E0 c.N hN _ (hfree ch)
    rw [hE0, Nat.add_sub_cancel]
    exact this
  have hperm : ∀ ch, FieldPerm c.D c.N (swapLast hD a) ((embedMC c u1).getD ch #[])
      ((u1.map (embedAxis c.D c.N a)).getD (id ch) #[]) := by
    intro ch j hj
    rw [id, hga, hgl, embedAxis_eq_permField c.D c.N hD hN a (swapLast hD a) (swapLast_last hD a),
      permField_getD c.D c.N _ _ j hj]
  have hstep := E4_axisPerm_physical c hc (swapLast hD a) id C (id_lt_iff C) T hTp (embedMC c u1)
    (u1.map (embedAxis c.D c.N a)) hrealL hfreeL hperm hE hEh h1 h2 h3 h4 h5 h6 n ch
  rw [id] at hstep
  rw [hstep, E4_embed_physical c hD hN C T T1 hTe eE eEh e1 e2 e3 e4 e5 e6 n u1 ch,
    ← embedAxis_eq_permField c.D c.N hD hN a (swapLast hD a) (swapLast_last hD a)]

/-- written out for the isotropic `general_linear` symbol (real coefficients) and the `general`
    nonlinearity (real scales), one channel -/
theorem E4_general_embedAxis (c : Cfg ℂ) (hc : PermCfg c) (a : Fin c.D) (al : List ℂ)
    (hal : ∀ x ∈ al, x.im = 0) (F Fh F1 F2 F3 F4 F5 F6 : ℂ → ℂ)
    (hF : ∀ G ∈ [F, Fh, F1, F2, F3, F4, F5, F6], ∀ z, G ((starRingEnd ℂ) z) = (starRingEnd ℂ) (G z))
    (s0 s1 s2 : ℂ) (h0 : s0.im = 0) (h1 : s1.im = 0) (h2 : s2.im = 0) (zeroFix : Bool) (n : ℕ)
    (w : Array ℂ) (hw : ∀ i < c.N, (w.getD i 0).im = 0) (hfree : NyqFreeS 1 c.N (rfftnM 1 c.N w)) :
    physCh c.D c.N ((E4step (fun _ h => F (polySymbol c (generalLinear c.D al) h))
            (fun _ h => Fh (polySymbol c (generalLinear c.D al) h))
            (fun _ h => F1 (polySymbol c (generalLinear c.D al) h))
            (fun _ h => F2 (polySymbol c (generalLinear c.D al) h))
            (fun _ h => F3 (polySymbol c (generalLinear c.D al) h))
            (fun _ h => F4 (polySymbol c (generalLinear c.D al) h))
            (fun _ h => F5 (polySymbol c (generalLinear c.D al) h))
            (fun _ h => F6 (polySymbol c (generalLinear c.D al) h))
            (liftTermND c 1 (general c 1 s0 s1 s2 zeroFix)))^[n]
        (specMC c.D c.N #[embedAxis c.D c.N a w])) 0
      = embedAxis c.D c.N a (physCh 1 c.N ((E4step
            (fun _ h => F (polySymbol (cfg1 c) (generalLinear (cfg1 c).D (Symmetry.embedCoefs c.D al)) h))
            (fun _ h => Fh (polySymbol (cfg1 c) (generalLinear (cfg1 c).D (Symmetry.embedCoefs c.D al)) h))
            (fun _ h => F1 (polySymbol (cfg1 c) (generalLinear (cfg1 c).D (Symmetry.embedCoefs c.D al)) h))
            (fun _ h => F2 (polySymbol (cfg1 c) (generalLinear (cfg1 c).D (Symmetry.embedCoefs c.D al)) h))
            (fun _ h => F3 (polySymbol (cfg1 c) (generalLinear (cfg1 c).D (Symmetry.embedCoefs c.D al)) h))
            (fun _ h => F4 (polySymbol (cfg1 c) (generalLinear (cfg1 c).D (Symmetry.embedCoefs c.D al)) h))
            (fun _ h => F5 (polySymbol (cfg1 c) (generalLinear (cfg1 c).D (Symmetry.embedCoefs c.D al)) h))
            (fun _ h => F6 (polySymbol (cfg1 c) (generalLinear (cfg1 c).D (Symmetry.embedCoefs c.D al)) h))
            (liftTermND (cfg1 c) 1 (general (cfg1 c) 1 s0 s1 s2 zeroFix)))^[n]
          (specMC 1 c.N #[w])) 0) := by
  have hco : ∀ G ∈ [F, Fh, F1, F2, F3, F4, F5, F6],
      IsoCoef c (swapLast hc.hD a) id (fun _ h => G (polySymbol c (generalLinear c.D al) h))
        (fun _ h => G (polySymbol c (generalLinear c.D al) h)) :=
    fun G hG => isoCoef_generalLinear c hc.hs _ id al hal G (hF G hG)
  have hreal : ∀ ch, ∀ i < c.N, (((#[w] : MC ℂ).getD ch #[]).getD i 0).im = 0 := by
    intro ch i hi
    rcases Nat.eq_zero_or_pos ch with rfl | hpos
    · exact hw i hi
    · have : (#[w] : MC ℂ).getD ch #[] = #[] := by
        simp [Array.getD, show ¬ ch < 1 by omega]
      rw [this]; simp
  have hfr : ∀ ch, NyqFreeS 1 c.N (rfftnM 1 c.N ((#[w] : MC ℂ).getD ch #[])) := by
    intro ch
    rcases Nat.eq_zero_or_pos ch with rfl | hpos
    · exact hfree
    · have : (#[w] : MC ℂ).getD ch #[] = #[] := by
        simp [Array.getD, show ¬ ch < 1 by omega]
      rw [this]
      intro h hh _
      rw [rfftn_eq_dftV 1 c.N hc.hN _ h hh]
      unfold dftV
      apply Finset.sum_eq_zero
      intro j _
      simp
  have h := E4_embedAxis_physical c hc a 1 _ _ (general_termPerm c hc _ 1 s0 s1 s2 h0 h1 h2 zeroFix)
    (general_termEmbed c hc.hD hc.hN 1 s0 s1 s2 zeroFix)
    (hco F (by simp)) (hco Fh (by simp)) (hco F1 (by simp)) (hco F2 (by simp)) (hco F3 (by simp))
    (hco F4 (by simp)) (hco F5 (by simp)) (hco F6 (by simp))
    (embCoef_generalLinear c hc.hD hc.hN al F) (embCoef_generalLinear c hc.hD hc.hN al Fh)
    (embCoef_generalLinear c hc.hD hc.hN al F1) (embCoef_generalLinear c hc.hD hc.hN al F2)
    (embCoef_generalLinear c hc.hD hc.hN al F3) (embCoef_generalLinear c hc.hD hc.hN al F4)
    (embCoef_generalLinear c hc.hD hc.hN al F5) (embCoef_generalLinear c hc.hD hc.hN al F6)
    n #[w] hreal hfr 0
  have e : (#[w] : MC ℂ).map (embedAxis c.D c.N a) = #[embedAxis c.D c.N a w] := by simp
  rw [e] at h
  exact h

/-! ## non-vacuity -/

/-- real Nyquist-free 1-D states exist: the constant state -/
example (N : ℕ) (hN : 0 < N) :
    ∃ w : Array ℂ, (∀ i < N, (w.getD i 0).im = 0) ∧ NyqFreeS 1 N (rfftnM 1 N w) := by
  refine ⟨tab (N ^ 1) (fun _ => 1), fun i hi => by rw [DFT.tab_getD _ _ _ _ (by simpa using hi)]; simp, ?_⟩
  intro h hh hny
  rw [rfftn_eq_dftV 1 N hN _ h hh, dftV_const 1 N hN, if_neg]
  intro hall
  obtain ⟨d, _, hn⟩ := hny
  exact hn (hall d)

example : ∃ (D : ℕ) (hD : 0 < D) (a : Fin D), swapLast hD a ⟨D - 1, by omega⟩ = a :=
  ⟨3, by norm_num, 0, swapLast_last _ _⟩

end Exponax.AxisPerm
