import ExponaxModel.Proofs.InterpOneD
/-
C15 support — the `FourierInterpolator`: general formula, evaluation at grid points (I3).
-/
set_option linter.unusedVariables false
set_option linter.unusedSimpArgs false
namespace Exponax.Interp
open Exponax Exponax.Layout Exponax.Transform Exponax.DFT Finset

/-- the reconstruction scaling is `N^D / w_h` -/
theorem scaling_one_herm (D N : ℕ) (hD : 0 < D) (hN : 0 < N) (h : ℕ) (hh : h < numModes D N) :
    (scaling D N 1 (unflatten (wavenumberShape D N) h) : ℂ) = (N : ℂ) ^ D / (herm_weight D N h : ℂ) := by
  rw [scaling_mode_one D N hD]
  have hlt := unflatten_getD_lt (wavenumberShape D N) (wavenumberShape_pos D N hN) h hh (D - 1)
    (by rw [wavenumberShape_length D N hD]; omega)
  rw [wavenumberShape_getD D N (D - 1) (by omega), if_pos (by omega)] at hlt
  have hsp := isSpecial_wn D N (unflatten (wavenumberShape D N) h) (D - 1)
    (by rw [if_pos (by omega)]; exact hlt)
  have hb : (D - 1 + 1 == D) = true := by simp; omega
  rw [hb] at hsp
  unfold herm_weight
  simp only []
  by_cases hc : (unflatten (wavenumberShape D N) h).getD (D - 1) 0 = 0 ∨
      (N % 2 = 0 ∧ (unflatten (wavenumberShape D N) h).getD (D - 1) 0 = N / 2)
  · rw [if_pos (hsp.mpr hc), if_pos hc]; simp
  · rw [if_neg (fun hx => hc (hsp.mp hx)), if_neg hc]; simp

/-- **general formula for the interpolator**: `(1/N^D) Σ_h w_h Re(û_h e^{i s k_h·x})` -/
theorem interpolate_eq (D N : ℕ) (hD : 0 < D) (hN : 0 < N) (s : ℂ) (u : Array ℂ) (x : List ℂ) :
    interpolate D N s u x =
      (∑ h ∈ range (numModes D N), (herm_weight D N h : ℂ) *
        ((((rfftnM D N u).getD h 0 * Complex.exp (∑ d ∈ range D,
            Complex.I * (s * (((wnFlat D N h).getD d 0 : ℤ) : ℂ)) * x.getD d 0)).re : ℝ) : ℂ))
        / (N : ℂ) ^ D := by
  unfold interpolate
  simp only [hasRe_complex, hasExp_complex, hasI_complex, sumRange_eq, sumList_eq, list_range_map_sum]
  rw [Complex.re_sum, Complex.ofReal_sum, Finset.sum_div]
  apply Finset.sum_congr rfl
  intro h hh
  rw [scaling_one_herm D N hD hN h (Finset.mem_range.mp hh)]
  have hN' : ((N : ℂ) ^ D) ≠ 0 := pow_ne_zero _ (by exact_mod_cast hN.ne')
  set z := (rfftnM D N u).getD h 0 with hz
  set e := Complex.exp (∑ d ∈ range D, Complex.I * (s * (((wnFlat D N h).getD d 0 : ℤ) : ℂ)) * x.getD d 0) with he
  have : z / ((N : ℂ) ^ D / (herm_weight D N h : ℂ)) * e
      = ((((herm_weight D N h : ℝ) / (N : ℝ) ^ D : ℝ)) : ℂ) * (z * e) := by
    push_cast
    field_simp
  rw [this, Complex.re_ofReal_mul]
  push_cast
  field_simp

/-- physical coordinates of the grid point with flat index `j` on the `N^D` grid of the domain of
    extent `L = 2π/s`: `x_d = L · digit_d(j) / N` -/
noncomputable def gridPoint (D N : ℕ) (s : ℂ) (j : ℕ) : List ℂ :=
  (List.range D).map (fun d => (2 * (Real.pi : ℂ) / s) * ((digit D N j d : ℕ) : ℂ) / (N : ℂ))

theorem gridPoint_getD (D N : ℕ) (s : ℂ) (j d : ℕ) (hd : d < D) :
    (gridPoint D N s j).getD d 0 = (2 * (Real.pi : ℂ) / s) * ((digit D N j d : ℕ) : ℂ) / (N : ℂ) := by
  simp [gridPoint, List.getD_eq_getElem?_getD, hd]

/-- the interpolator's phase factor at a grid point of the `N`-grid is a power of `ζ_N` -/
theorem exp_gridPoint (D N : ℕ) (s : ℂ) (hs : s ≠ 0) (k : List ℤ) (j : ℕ) :
    Complex.exp (∑ d ∈ range D, Complex.I * (s * ((k.getD d 0 : ℤ) : ℂ)) * (gridPoint D N s j).getD d 0)
      = zeta N ^ (-(phaseK D N k j)) := by
  rw [zeta_zpow_eq_exp, phaseK_eq_sum]
  congr 1
  push_cast
  rw [mul_neg, neg_div, neg_neg, Finset.mul_sum, Finset.sum_div]
  apply Finset.sum_congr rfl
  intro d hd
  rw [gridPoint_getD D N s j d (Finset.mem_range.mp hd)]
  field_simp

/-- **I3.** Evaluating the `FourierInterpolator` of a real field at the grid points returns the
    field: `interpolate D N s u x_j = u_j` (all `D ≥ 1`, `N ≥ 1`, `s ≠ 0`). -/
theorem interpolate_gridPoint (D N : ℕ) (hD : 0 < D) (hN : 0 < N) (s : ℂ) (hs : s ≠ 0) (u : Array ℂ)
    (hu : ∀ j < N ^ D, (u.getD j 0).im = 0) (j : ℕ) (hj : j < N ^ D) :
    interpolate D N s u (gridPoint D N s j) = u.getD j 0 := by
  rw [interpolate_eq D N hD hN, ← irfftn_rfftn D N hD hN u hu j hj, irfftnM_getD D N hN _ j hj]
  simp only [exp_gridPoint D N s hs, twiddle_eq_zpow]
  push_cast
  rfl

/-- in 1-D the model's interpolator is the trigonometric interpolant `trigInterp1` -/
theorem interpolate_one (N : ℕ) (hN : 0 < N) (s : ℂ) (hs : s ≠ 0) (u : Array ℂ) (t : ℝ) :
    interpolate 1 N s u [(2 * (Real.pi : ℂ) / s) * (t : ℂ)] = trigInterp1 N u t := by
  rw [interpolate_eq 1 N Nat.one_pos hN, trigInterp1, numModes_one, pow_one]
  congr 1
  apply Finset.sum_congr rfl
  intro h _
  rw [Finset.sum_range_one, wnFlat_one]
  simp only [List.getD_cons_zero]
  congr 5
  push_cast
  field_simp

/-- **I2 in terms of the model's interpolator**: on band-limited states `map_between_resolutions`
    equals the `FourierInterpolator` of the old state evaluated on the new grid -/
theorem mapBetween_one_eq_interpolate (Nold Nnew : ℕ) (hne : Nold ≠ Nnew) (hNo : 0 < Nold) (hNn : 0 < Nnew)
    (ob : Bool) (s : ℂ) (hs : s ≠ 0)
    (u : Array ℂ) (hbl : BandLimited1 Nold (min Nold Nnew) u) (j : ℕ) (hj : j < Nnew) :
    (mapBetween 1 Nold Nnew ob u).getD j 0 = interpolate 1 Nold s u (gridPoint 1 Nnew s j) := by
  rw [mapBetween_one_exact Nold Nnew hne hNn ob u hbl j hj, ← interpolate_one Nold hNo s hs]
  congr 1
  simp only [gridPoint, List.range_one, List.map_cons, List.map_nil, digit_one_of_lt Nnew j hj]
  push_cast
  congr 1
  ring

end Exponax.Interp
