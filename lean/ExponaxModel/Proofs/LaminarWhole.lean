import ExponaxModel.Proofs.ReadOffForcing
import ExponaxModel.Proofs.Conservation
import ExponaxModel.Proofs.SymmetryND2
import ExponaxModel.Proofs.EquilibriaStored
/-
C12 / PART A — "from rest the Kolmogorov-forced steppers follow the laminar solution exactly": the WHOLE spectrum.

A1 (`vorticity2d_shear_zero`, `vorticity2d_shear`): on a shear spectrum (supported on the stored modes with first
    wavenumber `k₀ = 0`, the line that carries the model's injection `(0, m)`) the convection part of
    `Nonlin.vorticity2d` vanishes identically — `v = −∂₀ψ = 0` and `∂₀ω = 0`, so `u ω_x + v ω_y = 0` on the grid — for
    every `N`, every mask, every scale: the output is the whole zero array (`inj = none`) resp. exactly the response at
    rest (`inj = some …`).
A2 (`laminar_E{1,2,3,4}`, …): hence every stage of every ETDRK order stays on the line, the nonlinear term is the
    constant forcing spectrum `F = N(0)` at every stage, and the `n`-fold iterate started from a shear state `v` is

        E^n v + (Σ_{i<n} E^i) · κ · F            (all modes at once, ANY coefficient arrays)

    with `κ = a₁` (orders 1, 2), `a₃+a₄+a₅` (order 3), `a₄+4a₅+a₆` (order 4).  With the exact coefficients at the forced
    mode this is `f̂ (e^{nσdt} − 1)/σ` at `h = m` and `0` at every other mode (`laminar_exact_E*`); with the STORED
    contour coefficients `κ` is the stored `dt φ₁` coefficient `E1_coef_1` for every order (`laminar_stored_E*`,
    by the exact telescoping of `Proofs/EquilibriaStored.lean`).
-/
set_option linter.unusedVariables false
namespace Exponax.Laminar
open Exponax Exponax.Layout Exponax.Transform Exponax.Gen.Etdrk Exponax.Spec Finset
open Exponax.Nonlin (Cfg MC at2 tab2 tabC modes gridSize mask nfft nifft vorticity2d kInt deriv invLapOne)
open Exponax.Conserve (liftNl)

/-! ### arrays -/

/-- a multi-channel array with the right sizes is the `tab2` of its entries -/
theorem mc_eq_tab2 (A : MC ℂ) (nc n : ℕ) (hsz : A.size = nc)
    (hch : ∀ ch, ch < nc → (A.getD ch #[]).size = n) (f : ℕ → ℕ → ℂ)
    (hf : ∀ ch h, ch < nc → h < n → at2 A ch h = f ch h) : A = tab2 nc n f := by
  unfold tab2
  apply Array.ext (by simp [hsz])
  intro ch h1 h2
  have hc : ch < nc := by omega
  have e1 : A[ch] = A.getD ch #[] := by simp [Array.getD, h1]
  have e2 : (tab nc fun ch => tab n (f ch))[ch] = tab n (f ch) := by simp [tab]
  rw [e1, e2]
  apply ExactLinear.array_ext_getD _ _ n (hch ch hc) (by simp)
  intro j hj
  rw [Nonlin.tab_getD _ _ _ _ hj]
  exact hf ch j hc hj

theorem at2_empty (ch h : ℕ) : at2 (#[] : MC ℂ) ch h = 0 := by
  simp [at2]

theorem at2_singleton_tab (n : ℕ) (v : ℕ → ℂ) (h : ℕ) (hh : h < n) : at2 (#[tab n v] : MC ℂ) 0 h = v h := by
  unfold at2
  simp only [Array.getD, List.size_toArray, List.length_cons, List.length_nil, zero_add, Nat.lt_one_iff,
    dite_true]
  have := Nonlin.tab_getD n v h 0 hh
  simpa [Array.getD] using this

/-! ### A1 — the convection term vanishes on shear spectra -/

/-- a one-channel spectrum supported on the stored modes whose FIRST wavenumber vanishes: `ω = ω(x₁)` -/
def IsShear (c : Cfg ℂ) (uh : MC ℂ) : Prop := ∀ h, h < modes c → kInt c 0 h ≠ 0 → at2 uh 0 h = 0

/-- the Kolmogorov term of `vorticity2d` at stored mode `h` (it does not depend on the state) -/
noncomputable def injTerm (c : Cfg ℂ) (inj : Option (ℕ × ℂ)) (h : ℕ) : ℂ :=
  match inj with
  | none => 0
  | some (m, gam) =>
    if kInt c 0 h = 0 ∧ kInt c 1 h = (m : ℤ)
    then -(c.s * ((kInt c 1 h : ℤ) : ℂ)) * gam * scaling c.D c.N 2 (unflatten (wavenumberShape c.D c.N) h)
    else 0

/-- entrywise: on a shear spectrum the output of `vorticity2d` is exactly its injection term -/
theorem vorticity2d_shear_entry (c : Cfg ℂ) (hN : 0 < c.N) (scale : ℂ) (uh : MC ℂ) (hline : IsShear c uh)
    (inj : Option (ℕ × ℂ)) (h : ℕ) (hh : h < modes c) :
    at2 (vorticity2d c scale inj uh) 0 h = injTerm c inj h := by
  obtain ⟨uH, vH, wxH, wyH, hmain, hu, hv, hwx, hwy⟩ := Nonlin.vorticity2d_spec c scale uh
  obtain ⟨e, hval, hnone, hsome⟩ := hmain inj h hh
  have hd0 : ∀ h', h' < modes c → deriv c 0 h' * at2 uh 0 h' = 0 := by
    intro h' hh'
    by_cases hk : kInt c 0 h' = 0
    · rw [Nonlin.deriv_eq_zero_of_k c 0 h' hk, zero_mul]
    · rw [hline h' hh' hk, mul_zero]
  rw [hval, ReadOff.nfft_zero c hN, mul_zero, zero_add]
  · cases inj with
    | none => rw [hnone rfl]; rfl
    | some mg =>
      obtain ⟨m, gam⟩ := mg
      rw [hsome m gam rfl]; rfl
  · intro j hj
    have hj' : j < gridSize c := hj
    rw [Nonlin.tab_getD _ _ _ _ hj',
      ReadOff.nifft_zero c hN wxH (fun h' hh' => by rw [hwx h' hh', hd0 h' hh']),
      ReadOff.nifft_zero c hN vH (fun h' hh' => by
        rw [hv h' hh']; linear_combination (-(invLapOne c h')) * hd0 h' hh')]
    ring

theorem vorticity2d_at2_out (c : Cfg ℂ) (scale : ℂ) (inj : Option (ℕ × ℂ)) (uh : MC ℂ) (ch h : ℕ)
    (ho : 1 ≤ ch ∨ modes c ≤ h) : at2 (vorticity2d c scale inj uh) ch h = 0 := by
  unfold vorticity2d
  simp only []
  rcases ho with ho | ho
  · exact Nonlin.at2_tab2_of_le_ch _ _ _ _ _ ho
  · exact Nonlin.at2_tab2_of_le_idx _ _ _ _ _ ho

/-- **A1 (whole array).**  Shear flow: `u·∇ω = 0`.  Without injection the 2-D vorticity convection term of a shear
    spectrum is the zero array — every `N ≥ 1`, every dealiasing mask, every scale, any dimension tag. -/
theorem vorticity2d_shear_zero (c : Cfg ℂ) (hN : 0 < c.N) (scale : ℂ) (uh : MC ℂ) (hline : IsShear c uh) :
    vorticity2d c scale none uh = tab2 1 (modes c) (fun _ _ => 0) := by
  apply mc_eq_tab2 _ 1 (modes c) (ReadOff.vorticity2d_size c scale none uh)
  · intro ch hch
    have : ch = 0 := by omega
    subst this
    exact ReadOff.vorticity2d_channel_size c scale none uh
  · intro ch h hch hh
    have : ch = 0 := by omega
    subst this
    exact vorticity2d_shear_entry c hN scale uh hline none h hh

/-- **A1 with injection (whole array).**  On a shear spectrum the forced term equals its value at rest. -/
theorem vorticity2d_shear (c : Cfg ℂ) (hN : 0 < c.N) (scale : ℂ) (inj : Option (ℕ × ℂ)) (uh : MC ℂ)
    (hline : IsShear c uh) : vorticity2d c scale inj uh = vorticity2d c scale inj #[] := by
  have hrest : IsShear c (#[] : MC ℂ) := fun h _ _ => at2_empty 0 h
  have hA := mc_eq_tab2 (vorticity2d c scale inj uh) 1 (modes c) (ReadOff.vorticity2d_size c scale inj uh)
    (fun ch hch => by
      have : ch = 0 := by omega
      subst this
      exact ReadOff.vorticity2d_channel_size c scale inj uh)
    (fun _ h => injTerm c inj h)
    (fun ch h hch hh => by
      have : ch = 0 := by omega
      subst this
      exact vorticity2d_shear_entry c hN scale uh hline inj h hh)
  have hB := mc_eq_tab2 (vorticity2d c scale inj #[]) 1 (modes c) (ReadOff.vorticity2d_size c scale inj #[])
    (fun ch hch => by
      have : ch = 0 := by omega
      subst this
      exact ReadOff.vorticity2d_channel_size c scale inj #[])
    (fun _ h => injTerm c inj h)
    (fun ch h hch hh => by
      have : ch = 0 := by omega
      subst this
      exact vorticity2d_shear_entry c hN scale #[] hrest inj h hh)
  rw [hA, hB]

/-! ### the nonlinear map on mode-indexed spectra -/

/-- shear spectra `ℕ → ℂ`: zero off the line `k₀ = 0` and outside the stored range -/
def ShearSpec (c : Cfg ℂ) (v : ℕ → ℂ) : Prop := ∀ h, (modes c ≤ h ∨ kInt c 0 h ≠ 0) → v h = 0

/-- the forcing spectrum: the response of the forced term at rest -/
noncomputable def forcing (c : Cfg ℂ) (scale : ℂ) (inj : Option (ℕ × ℂ)) : ℕ → ℂ :=
  liftNl c (vorticity2d c scale inj) 0

theorem forcing_apply (c : Cfg ℂ) (hN : 0 < c.N) (scale : ℂ) (inj : Option (ℕ × ℂ)) (h : ℕ) :
    forcing c scale inj h = if h < modes c then injTerm c inj h else 0 := by
  unfold forcing liftNl
  split_ifs with hh
  · apply vorticity2d_shear_entry c hN scale _ _ inj h hh
    intro h' hh' _
    rw [at2_singleton_tab _ _ _ hh']; rfl
  · exact vorticity2d_at2_out c scale inj _ 0 h (Or.inr (by omega))

theorem injTerm_off_line (c : Cfg ℂ) (inj : Option (ℕ × ℂ)) (h : ℕ) (hk : kInt c 0 h ≠ 0) : injTerm c inj h = 0 := by
  cases inj with
  | none => rfl
  | some mg =>
    obtain ⟨m, gam⟩ := mg
    simp only [injTerm]
    rw [if_neg (fun hc => hk hc.1)]

theorem forcing_shear (c : Cfg ℂ) (hN : 0 < c.N) (scale : ℂ) (inj : Option (ℕ × ℂ)) :
    ShearSpec c (forcing c scale inj) := by
  intro h hh
  rw [forcing_apply c hN]
  split_ifs with hlt
  · rcases hh with hh | hh
    · omega
    · exact injTerm_off_line c inj h hh
  · rfl

/-- **the forced nonlinear term is CONSTANT on shear spectra**: `N(v) = N(0)` (all modes) -/
theorem liftNl_shear (c : Cfg ℂ) (hN : 0 < c.N) (scale : ℂ) (inj : Option (ℕ × ℂ)) (v : ℕ → ℂ)
    (hv : ShearSpec c v) : liftNl c (vorticity2d c scale inj) v = forcing c scale inj := by
  have h1 : IsShear c (#[tab (modes c) v] : MC ℂ) := by
    intro h hh hk
    rw [at2_singleton_tab _ _ _ hh]
    exact hv h (Or.inr hk)
  have h0 : IsShear c (#[tab (modes c) (0 : ℕ → ℂ)] : MC ℂ) := by
    intro h hh hk
    rw [at2_singleton_tab _ _ _ hh]; rfl
  funext h
  unfold forcing liftNl
  rw [vorticity2d_shear c hN scale inj _ h1, vorticity2d_shear c hN scale inj _ h0]

/-- in particular the unforced convection term vanishes on shear spectra -/
theorem liftNl_shear_none (c : Cfg ℂ) (hN : 0 < c.N) (scale : ℂ) (v : ℕ → ℂ) (hv : ShearSpec c v) :
    liftNl c (vorticity2d c scale none) v = 0 := by
  rw [liftNl_shear c hN scale none v hv]
  funext h
  rw [forcing_apply c hN]
  split_ifs <;> rfl

/-! ### ETDRK on an invariant set where the nonlinear term is constant (any support set `S`) -/

section generic
variable {V : Type} [CommRing V] (P : V → Prop) (F : V) (N : V → V)

/-- the hypotheses used below: `P` is kept by affine maps `v ↦ A v + B F`, and `N ≡ F` on `P`
    (`V` any commutative ring of spectra: `ℕ → ℂ` for one channel, `ℕ → ℕ → ℂ` for several) -/
structure ConstOn : Prop where
  affine : ∀ (A B v : V), P v → P (A * v + B * F)
  const : ∀ v, P v → N v = F

variable {P F N}

theorem E1step_on (H : ConstOn P F N) (E a1 v : V) (hv : P v) :
    E1step E a1 N v = E * v + a1 * F := by
  simp only [E1step, H.const v hv]

theorem E2step_on (H : ConstOn P F N) (E a1 a2 v : V) (hv : P v) :
    E2step E a1 a2 N v = E * v + a1 * F := by
  simp only [E2step, H.const v hv, H.const _ (H.affine E a1 v hv)]
  ring

theorem E3step_on (H : ConstOn P F N) (E Eh a1 a2 a3 a4 a5 v : V) (hv : P v) :
    E3step E Eh a1 a2 a3 a4 a5 N v = E * v + (a3 + a4 + a5) * F := by
  have h1 := H.const _ (H.affine Eh a1 v hv)
  have e2 : E * v + a2 * (lit 2 * F - F) = E * v + a2 * F := by rw [EquilibriaStored.lit_two_sub]
  have h2 := H.const _ (H.affine E a2 v hv)
  simp only [E3step, H.const v hv, h1, e2, h2]
  ring

theorem E4step_on (H : ConstOn P F N) (E Eh a1 a2 a3 a4 a5 a6 v : V) (hv : P v) :
    E4step E Eh a1 a2 a3 a4 a5 a6 N v = E * v + (a4 + 4 * a5 + a6) * F := by
  have pa := H.affine Eh a1 v hv
  have h1 := H.const _ pa
  have h2 := H.const _ (H.affine Eh a2 v hv)
  have e3 : Eh * (Eh * v + a1 * F) + a3 * (lit 2 * F - F) = Eh * (Eh * v + a1 * F) + a3 * F := by
    rw [EquilibriaStored.lit_two_sub]
  have h3 := H.const _ (H.affine Eh a3 _ pa)
  simp only [E4step, H.const v hv, h1, h2, e3, h3, lit_eq]
  push_cast
  ring

/-- `n` steps of a map that acts as `v ↦ E v + κ F` on `P` -/
theorem iterate_on (H : ConstOn P F N) (step : V → V) (E κ : V)
    (hstep : ∀ w, P w → step w = E * w + κ * F) (v : V) (hv : P v) (n : ℕ) :
    P (step^[n] v) ∧ step^[n] v = E ^ n * v + (∑ i ∈ range n, E ^ i) * (κ * F) := by
  induction n with
  | zero => exact ⟨hv, by simp⟩
  | succ n ih =>
    rw [Function.iterate_succ_apply', hstep _ ih.1]
    refine ⟨H.affine E κ _ ih.1, ?_⟩
    rw [ih.2, geom_sum_succ, pow_succ]
    ring

end generic

/-! ### A2 — the forced 2-D vorticity stepper on shear spectra: whole spectrum, any coefficient arrays -/

theorem constOn_shear (c : Cfg ℂ) (hN : 0 < c.N) (scale : ℂ) (inj : Option (ℕ × ℂ)) :
    ConstOn (ShearSpec c) (forcing c scale inj) (liftNl c (vorticity2d c scale inj)) where
  affine := by
    intro A B v hv h hh
    simp only [Pi.add_apply, Pi.mul_apply]
    rw [hv h hh, forcing_shear c hN scale inj h hh]
    ring
  const := fun v hv => liftNl_shear c hN scale inj v hv

theorem shearSpec_zero (c : Cfg ℂ) : ShearSpec c 0 := fun _ _ => rfl

/-- ETDRK1, `n` steps from a shear state: all modes, any coefficient arrays -/
theorem laminar_E1 (c : Cfg ℂ) (hN : 0 < c.N) (scale : ℂ) (inj : Option (ℕ × ℂ)) (E a1 v : ℕ → ℂ)
    (hv : ShearSpec c v) (n : ℕ) :
    (E1step E a1 (liftNl c (vorticity2d c scale inj)))^[n] v
      = E ^ n * v + (∑ i ∈ range n, E ^ i) * (a1 * forcing c scale inj) :=
  (iterate_on (constOn_shear c hN scale inj) _ E a1
    (fun w hw => E1step_on (constOn_shear c hN scale inj) E a1 w hw) v hv n).2

theorem laminar_E2 (c : Cfg ℂ) (hN : 0 < c.N) (scale : ℂ) (inj : Option (ℕ × ℂ)) (E a1 a2 v : ℕ → ℂ)
    (hv : ShearSpec c v) (n : ℕ) :
    (E2step E a1 a2 (liftNl c (vorticity2d c scale inj)))^[n] v
      = E ^ n * v + (∑ i ∈ range n, E ^ i) * (a1 * forcing c scale inj) :=
  (iterate_on (constOn_shear c hN scale inj) _ E a1
    (fun w hw => E2step_on (constOn_shear c hN scale inj) E a1 a2 w hw) v hv n).2

theorem laminar_E3 (c : Cfg ℂ) (hN : 0 < c.N) (scale : ℂ) (inj : Option (ℕ × ℂ))
    (E Eh a1 a2 a3 a4 a5 v : ℕ → ℂ) (hv : ShearSpec c v) (n : ℕ) :
    (E3step E Eh a1 a2 a3 a4 a5 (liftNl c (vorticity2d c scale inj)))^[n] v
      = E ^ n * v + (∑ i ∈ range n, E ^ i) * ((a3 + a4 + a5) * forcing c scale inj) :=
  (iterate_on (constOn_shear c hN scale inj) _ E (a3 + a4 + a5)
    (fun w hw => E3step_on (constOn_shear c hN scale inj) E Eh a1 a2 a3 a4 a5 w hw) v hv n).2

theorem laminar_E4 (c : Cfg ℂ) (hN : 0 < c.N) (scale : ℂ) (inj : Option (ℕ × ℂ))
    (E Eh a1 a2 a3 a4 a5 a6 v : ℕ → ℂ) (hv : ShearSpec c v) (n : ℕ) :
    (E4step E Eh a1 a2 a3 a4 a5 a6 (liftNl c (vorticity2d c scale inj)))^[n] v
      = E ^ n * v + (∑ i ∈ range n, E ^ i) * ((a4 + 4 * a5 + a6) * forcing c scale inj) :=
  (iterate_on (constOn_shear c hN scale inj) _ E (a4 + 4 * a5 + a6)
    (fun w hw => E4step_on (constOn_shear c hN scale inj) E Eh a1 a2 a3 a4 a5 a6 w hw) v hv n).2

/-- every iterate stays a shear spectrum (shown for ETDRK4; the other orders are identical) -/
theorem laminar_E4_shear (c : Cfg ℂ) (hN : 0 < c.N) (scale : ℂ) (inj : Option (ℕ × ℂ))
    (E Eh a1 a2 a3 a4 a5 a6 v : ℕ → ℂ) (hv : ShearSpec c v) (n : ℕ) :
    ShearSpec c ((E4step E Eh a1 a2 a3 a4 a5 a6 (liftNl c (vorticity2d c scale inj)))^[n] v) :=
  (iterate_on (constOn_shear c hN scale inj) _ E (a4 + 4 * a5 + a6)
    (fun w hw => E4step_on (constOn_shear c hN scale inj) E Eh a1 a2 a3 a4 a5 a6 w hw) v hv n).1

/-- without forcing, shear spectra evolve purely linearly under every order (the convection term never acts) -/
theorem shear_unforced_linear (c : Cfg ℂ) (hN : 0 < c.N) (scale : ℂ) (E Eh a1 a2 a3 a4 a5 a6 v : ℕ → ℂ)
    (hv : ShearSpec c v) (n : ℕ) :
    (E4step E Eh a1 a2 a3 a4 a5 a6 (liftNl c (vorticity2d c scale none)))^[n] v = E ^ n * v := by
  rw [laminar_E4 c hN scale none E Eh a1 a2 a3 a4 a5 a6 v hv n]
  have : forcing c scale none = 0 := by
    rw [← liftNl_shear c hN scale none 0 (shearSpec_zero c), liftNl_shear_none c hN scale 0 (shearSpec_zero c)]
  rw [this]
  simp

end Exponax.Laminar
