import Mathlib.MeasureTheory.Integral.Pi
import Mathlib.MeasureTheory.Constructions.Pi
import Mathlib.Analysis.SpecialFunctions.Integrals.Basic
import Mathlib.MeasureTheory.Measure.Lebesgue.Basic
import ExponaxModel.Proofs.SmallGaps2L2
/-
H3 (C16), part 2 — the Mathlib integral.  For `u(x) = Σ_i a_i cos((2π/L) κ_i·x + φ_i)` (`trigPoly D L ms`, any integer
wave vectors of length `D`) the Lebesgue integral over the period cell is

    ∫_{[0,L]^D} u(x)² dx = L^D · msClosed ms                       (`integral_sq_trigPoly`)

and the model state `stateOf D N ms` is the sample of `u` at the grid points `x_d = j_d L/N` (`stateOf_eq_trigPoly`).
With `SmallGaps2L2.spatialAggregator_stateOf_one`:  for Nyquist-free modes

    Metrics.spatialAggregator D N L 2 1 (sample of u) = ∫_{[0,L]^D} u(x)² dx        (`spatialAggregator_eq_integral`)

— the metric is the continuous squared L² norm it documents, exactly (not only up to quadrature error).
-/
set_option linter.unusedVariables false
namespace Exponax.SmallGaps2
open Exponax Exponax.Layout Exponax.Transform Exponax.DFT Exponax.ExactLinear Exponax.Metrics Exponax.SmallGaps
open MeasureTheory Finset

/-- the period cell `[0, L]^D` -/
def box (D : ℕ) (L : ℝ) : Set (Fin D → ℝ) := Set.univ.pi (fun _ => Set.Icc 0 L)

theorem isCompact_box (D : ℕ) (L : ℝ) : IsCompact (box D L) := isCompact_univ_pi (fun _ => isCompact_Icc)

theorem integrable_box {E : Type} [NormedAddCommGroup E] (D : ℕ) (L : ℝ) (f : (Fin D → ℝ) → E)
    (hf : Continuous f) : Integrable f (volume.restrict (box D L)) :=
  hf.continuousOn.integrableOn_compact (isCompact_box D L)

theorem volume_restrict_box (D : ℕ) (L : ℝ) :
    (volume : Measure (Fin D → ℝ)).restrict (box D L)
      = Measure.pi (fun _ : Fin D => (volume : Measure ℝ).restrict (Set.Icc 0 L)) := by
  rw [volume_pi, box, Measure.restrict_pi_pi]

/-! ### one period of a complex exponential -/

theorem integral_exp_period (L : ℝ) (hL : 0 < L) (m : ℤ) :
    ∫ x in Set.Icc 0 L, Complex.exp (((2 * Real.pi / L * (m : ℝ) * x : ℝ) : ℂ) * Complex.I)
      = if m = 0 then (L : ℂ) else 0 := by
  rw [integral_Icc_eq_integral_Ioc, ← intervalIntegral.integral_of_le hL.le]
  by_cases hm : m = 0
  · subst hm
    simp
  · rw [if_neg hm]
    have hL' : (L : ℂ) ≠ 0 := by exact_mod_cast hL.ne'
    have hm' : (m : ℂ) ≠ 0 := by exact_mod_cast hm
    have hpi : (Real.pi : ℂ) ≠ 0 := by exact_mod_cast Real.pi_ne_zero
    set c : ℂ := 2 * Real.pi / L * m * Complex.I with hc
    have hc0 : c ≠ 0 := by
      rw [hc]
      exact mul_ne_zero (mul_ne_zero (div_ne_zero (mul_ne_zero two_ne_zero hpi) hL') hm') Complex.I_ne_zero
    have e : ∀ x : ℝ, Complex.exp (((2 * Real.pi / L * (m : ℝ) * x : ℝ) : ℂ) * Complex.I)
        = Complex.exp (c * (x : ℂ)) := by
      intro x; congr 1; rw [hc]; push_cast; ring
    simp only [e]
    rw [integral_exp_mul_complex hc0]
    have e1 : c * (L : ℂ) = (m : ℂ) * (2 * Real.pi * Complex.I) := by
      rw [hc]; field_simp
    rw [e1, Complex.exp_int_mul_two_pi_mul_I]
    simp

/-! ### the period cell -/

theorem integral_exp_box (D : ℕ) (L : ℝ) (hL : 0 < L) (m : Fin D → ℤ) :
    ∫ x in box D L, Complex.exp (((2 * Real.pi / L * (∑ d, (m d : ℝ) * x d) : ℝ) : ℂ) * Complex.I)
      = if ∀ d, m d = 0 then (L : ℂ) ^ D else 0 := by
  have e : ∀ x : Fin D → ℝ,
      Complex.exp (((2 * Real.pi / L * (∑ d, (m d : ℝ) * x d) : ℝ) : ℂ) * Complex.I)
        = ∏ d, Complex.exp (((2 * Real.pi / L * (m d : ℝ) * x d : ℝ) : ℂ) * Complex.I) := by
    intro x
    rw [← Complex.exp_sum]
    congr 1
    rw [Finset.mul_sum, Complex.ofReal_sum, Finset.sum_mul]
    apply Finset.sum_congr rfl
    intro d _
    push_cast
    ring
  simp only [e]
  rw [volume_restrict_box,
    integral_fintype_prod_eq_prod (𝕜 := ℂ) (E := fun _ : Fin D => ℝ)
      (fun d (t : ℝ) => Complex.exp (((2 * Real.pi / L * (m d : ℝ) * t : ℝ) : ℂ) * Complex.I))]
  simp only [integral_exp_period L hL]
  rw [Finset.prod_ite_zero]
  simp

/-- **one cosine over the period cell** -/
theorem integral_cos_box (D : ℕ) (L : ℝ) (hL : 0 < L) (m : Fin D → ℤ) (φ : ℝ) :
    ∫ x in box D L, Real.cos (2 * Real.pi / L * (∑ d, (m d : ℝ) * x d) + φ)
      = if ∀ d, m d = 0 then L ^ D * Real.cos φ else 0 := by
  have e : ∀ x : Fin D → ℝ, Real.cos (2 * Real.pi / L * (∑ d, (m d : ℝ) * x d) + φ)
      = RCLike.re (Complex.exp ((φ : ℂ) * Complex.I)
          * Complex.exp (((2 * Real.pi / L * (∑ d, (m d : ℝ) * x d) : ℝ) : ℂ) * Complex.I)) := by
    intro x
    rw [← Complex.exp_add, ← add_mul, ← Complex.ofReal_add, add_comm (φ : ℝ)]
    exact (Complex.exp_ofReal_mul_I_re _).symm
  simp only [e]
  rw [integral_re, integral_const_mul, integral_exp_box D L hL m]
  · by_cases h0 : ∀ d, m d = 0
    · rw [if_pos h0, if_pos h0]
      have : ((L : ℂ) ^ D) = ((L ^ D : ℝ) : ℂ) := by push_cast; rfl
      rw [this, mul_comm, RCLike.re_eq_complex_re, Complex.re_ofReal_mul, Complex.exp_ofReal_mul_I_re]
    · rw [if_neg h0, if_neg h0, mul_zero]
      simp
  · apply integrable_box
    fun_prop

/-! ### the trigonometric polynomial and its square -/

/-- `u(x) = Σ_i a_i cos((2π/L) κ_i·x + φ_i)` on `ℝ^D` -/
noncomputable def trigPoly (D : ℕ) (L : ℝ) (ms : Modes) (x : Fin D → ℝ) : ℝ :=
  (ms.map (fun q => q.2.1 * Real.cos (2 * Real.pi / L * (∑ d : Fin D, (q.1.getD d 0 : ℝ) * x d) + q.2.2))).sum

theorem integrable_list_sum {α : Type} (D : ℕ) (L : ℝ) (l : List α) (g : α → (Fin D → ℝ) → ℝ)
    (hg : ∀ q ∈ l, Continuous (g q)) : Continuous (fun x => (l.map (fun q => g q x)).sum) := by
  induction l with
  | nil => simpa using continuous_const
  | cons a l ih =>
    simp only [List.map_cons, List.sum_cons]
    exact (hg a List.mem_cons_self).add (ih (fun q hq => hg q (List.mem_cons_of_mem _ hq)))

theorem integral_list_sum {α : Type} (D : ℕ) (L : ℝ) (l : List α) (g : α → (Fin D → ℝ) → ℝ)
    (hg : ∀ q ∈ l, Continuous (g q)) :
    ∫ x in box D L, (l.map (fun q => g q x)).sum = (l.map (fun q => ∫ x in box D L, g q x)).sum := by
  induction l with
  | nil => simp
  | cons a l ih =>
    simp only [List.map_cons, List.sum_cons]
    rw [integral_add (integrable_box D L _ (hg a List.mem_cons_self))
      (integrable_box D L _ (integrable_list_sum D L l g (fun q hq => hg q (List.mem_cons_of_mem _ hq)))),
      ih (fun q hq => hg q (List.mem_cons_of_mem _ hq))]

/-- the product of two modes over the period cell -/
theorem integral_mode_mul_mode (D : ℕ) (L : ℝ) (hL : 0 < L) (q q' : List ℤ × ℝ × ℝ)
    (hq : q.1.length = D) (hq' : q'.1.length = D) :
    ∫ x in box D L,
        (q.2.1 * Real.cos (2 * Real.pi / L * (∑ d : Fin D, (q.1.getD d 0 : ℝ) * x d) + q.2.2))
          * (q'.2.1 * Real.cos (2 * Real.pi / L * (∑ d : Fin D, (q'.1.getD d 0 : ℝ) * x d) + q'.2.2))
      = L ^ D * msB q q' := by
  have key : ∀ A B : ℝ, Real.cos A * Real.cos B = 1 / 2 * (Real.cos (A + B) + Real.cos (A - B)) := by
    intro A B; rw [Real.cos_add, Real.cos_sub]; ring
  have e : ∀ x : Fin D → ℝ,
      (q.2.1 * Real.cos (2 * Real.pi / L * (∑ d : Fin D, (q.1.getD d 0 : ℝ) * x d) + q.2.2))
          * (q'.2.1 * Real.cos (2 * Real.pi / L * (∑ d : Fin D, (q'.1.getD d 0 : ℝ) * x d) + q'.2.2))
        = q.2.1 * q'.2.1 / 2 *
            Real.cos (2 * Real.pi / L * (∑ d : Fin D, ((q.1.getD d 0 + q'.1.getD d 0 : ℤ) : ℝ) * x d)
              + (q.2.2 + q'.2.2))
          + q.2.1 * q'.2.1 / 2 *
            Real.cos (2 * Real.pi / L * (∑ d : Fin D, ((q.1.getD d 0 - q'.1.getD d 0 : ℤ) : ℝ) * x d)
              + (q.2.2 - q'.2.2)) := by
    intro x
    have s1 : (∑ d : Fin D, ((q.1.getD d 0 + q'.1.getD d 0 : ℤ) : ℝ) * x d)
        = (∑ d : Fin D, (q.1.getD d 0 : ℝ) * x d) + ∑ d : Fin D, (q'.1.getD d 0 : ℝ) * x d := by
      rw [← Finset.sum_add_distrib]
      exact Finset.sum_congr rfl (fun d _ => by push_cast; ring)
    have s2 : (∑ d : Fin D, ((q.1.getD d 0 - q'.1.getD d 0 : ℤ) : ℝ) * x d)
        = (∑ d : Fin D, (q.1.getD d 0 : ℝ) * x d) - ∑ d : Fin D, (q'.1.getD d 0 : ℝ) * x d := by
      rw [← Finset.sum_sub_distrib]
      exact Finset.sum_congr rfl (fun d _ => by push_cast; ring)
    rw [s1, s2]
    set A := 2 * Real.pi / L * (∑ d : Fin D, (q.1.getD d 0 : ℝ) * x d) + q.2.2 with hA
    set B := 2 * Real.pi / L * (∑ d : Fin D, (q'.1.getD d 0 : ℝ) * x d) + q'.2.2 with hB
    have a1 : 2 * Real.pi / L * ((∑ d : Fin D, (q.1.getD d 0 : ℝ) * x d) + ∑ d : Fin D, (q'.1.getD d 0 : ℝ) * x d)
        + (q.2.2 + q'.2.2) = A + B := by rw [hA, hB]; ring
    have a2 : 2 * Real.pi / L * ((∑ d : Fin D, (q.1.getD d 0 : ℝ) * x d) - ∑ d : Fin D, (q'.1.getD d 0 : ℝ) * x d)
        + (q.2.2 - q'.2.2) = A - B := by rw [hA, hB]; ring
    rw [a1, a2]
    have := key A B
    calc q.2.1 * Real.cos A * (q'.2.1 * Real.cos B) = q.2.1 * q'.2.1 * (Real.cos A * Real.cos B) := by ring
      _ = _ := by rw [this]; ring
  simp only [e]
  rw [integral_add, integral_const_mul, integral_const_mul,
    integral_cos_box D L hL (fun d => q.1.getD d 0 + q'.1.getD d 0),
    integral_cos_box D L hL (fun d => q.1.getD d 0 - q'.1.getD d 0)]
  · have p1 : (∀ d : Fin D, q.1.getD d 0 + q'.1.getD d 0 = 0) ↔ q.1 = negK q'.1 := by
      constructor
      · intro h
        apply list_ext_getD _ _ D hq (by rw [negK_length]; exact hq')
        intro d hd
        have := h ⟨d, hd⟩
        rw [negK_getD]
        simp only at this
        omega
      · intro h d
        rw [h, negK_getD]; ring
    have p2 : (∀ d : Fin D, q.1.getD d 0 - q'.1.getD d 0 = 0) ↔ q.1 = q'.1 := by
      constructor
      · intro h
        apply list_ext_getD _ _ D hq hq'
        intro d hd
        have := h ⟨d, hd⟩
        simp only at this
        omega
      · intro h d
        rw [h]; ring
    unfold msB
    by_cases c1 : q.1 = negK q'.1 <;> by_cases c2 : q.1 = q'.1
    · rw [if_pos (p1.mpr c1), if_pos (p2.mpr c2), if_pos c1, if_pos c2]; ring
    · rw [if_pos (p1.mpr c1), if_neg (fun h => c2 (p2.mp h)), if_pos c1, if_neg c2]; ring
    · rw [if_neg (fun h => c1 (p1.mp h)), if_pos (p2.mpr c2), if_neg c1, if_pos c2]; ring
    · rw [if_neg (fun h => c1 (p1.mp h)), if_neg (fun h => c2 (p2.mp h)), if_neg c1, if_neg c2]; ring
  · apply integrable_box; fun_prop
  · apply integrable_box; fun_prop

/-- **`∫_{[0,L]^D} u(x)² dx = L^D · msClosed ms`** for every trigonometric polynomial with integer wave vectors -/
theorem integral_sq_trigPoly (D : ℕ) (L : ℝ) (hL : 0 < L) (ms : Modes) (hlen : ∀ q ∈ ms, q.1.length = D) :
    ∫ x in box D L, trigPoly D L ms x ^ 2 = L ^ D * msClosed ms := by
  unfold trigPoly
  simp only [list_sum_sq]
  rw [integral_list_sum D L ms _ (fun q _ => integrable_list_sum D L ms _ (fun q' _ => by fun_prop))]
  unfold msClosed dsum
  rw [← List.sum_map_mul_left]
  congr 1
  apply List.map_congr_left
  intro q hq
  rw [integral_list_sum D L ms _ (fun q' _ => by fun_prop), ← List.sum_map_mul_left]
  congr 1
  apply List.map_congr_left
  intro q' hq'
  exact integral_mode_mul_mode D L hL q q' (hlen q hq) (hlen q' hq')

/-! ### the model state is the grid sample of `u` -/

/-- the grid point of the flat index `j`: `x_d = j_d · L / N` -/
noncomputable def gridPoint (D N : ℕ) (L : ℝ) (j : ℕ) : Fin D → ℝ := fun d => (digit D N j d : ℝ) * L / N

theorem stateOf_eq_trigPoly (D N : ℕ) (hN : 0 < N) (L : ℝ) (hL : L ≠ 0) (ms : Modes) (j : ℕ) (hj : j < N ^ D) :
    (stateOf D N ms).getD j 0 = ((trigPoly D L ms (gridPoint D N L j) : ℝ) : ℂ) := by
  rw [stateOf_getD D N ms j hj, trigPoly]
  congr 2
  apply List.map_congr_left
  intro q _
  congr 3
  rw [phaseK_eq_sum, Finset.sum_fin_eq_sum_range]
  push_cast
  rw [Finset.mul_sum, Finset.mul_sum, Finset.sum_div]
  apply Finset.sum_congr rfl
  intro d hd
  rw [dif_pos (Finset.mem_range.mp hd)]
  unfold gridPoint
  have hN' : (N : ℝ) ≠ 0 := by exact_mod_cast hN.ne'
  simp only
  field_simp

/-- **H3, integral form**: the p = 2 metric (outer exponent 1) of the grid sample of a Nyquist-free trigonometric
    polynomial equals the exact integral of its square over `[0, L]^D` -/
theorem spatialAggregator_eq_integral (D N : ℕ) (hN : 0 < N) (L : ℝ) (hL : 0 < L) (ms : Modes)
    (hms : ∀ x ∈ ms, BelowNyquist D N x.1) :
    spatialAggregator D N L 2 1 (reArr (stateOf D N ms)) = ∫ x in box D L, trigPoly D L ms x ^ 2 := by
  rw [spatialAggregator_stateOf_one D N hN L ms hms, integral_sq_trigPoly D L hL ms (fun q hq => (hms q hq).1)]

/-- the RMS-type value (`q = 1/2`): the L² norm -/
theorem spatialAggregator_eq_integral_sqrt (D N : ℕ) (hN : 0 < N) (L : ℝ) (hL : 0 < L) (ms : Modes)
    (hms : ∀ x ∈ ms, BelowNyquist D N x.1) :
    spatialAggregator D N L 2 (1 / 2) (reArr (stateOf D N ms))
      = Real.sqrt (∫ x in box D L, trigPoly D L ms x ^ 2) := by
  rw [spatialAggregator_stateOf D N hN L (1 / 2) ms hms, integral_sq_trigPoly D L hL ms (fun q hq => (hms q hq).1),
    Real.sqrt_eq_rpow]

/-! non-vacuity -/
example : ∃ ms : Modes, (∀ x ∈ ms, BelowNyquist 2 8 x.1) ∧ (0 : ℝ) < 3 := by
  refine ⟨[([0, 0], 1, 0), ([1, 0], 2, 0.5), ([2, -3], 1, 1)], ?_, by norm_num⟩
  intro x hx
  simp only [List.mem_cons, List.mem_nil_iff, or_false] at hx
  rcases hx with rfl | rfl | rfl <;> exact ⟨rfl, by intro d hd; interval_cases d <;> simp⟩

end Exponax.SmallGaps2
