import ExponaxModel.Proofs.AliasND2
/-
C03 in general dimension `D ≥ 1`, part 10 (G5): the Gray–Scott reaction term (cubic), two channels,
any `D ≥ 1`, cut-off `4·Kc < N` (e.g. the 1/2 rule).

  `reaction c 2 (grayScottReact f κ) û = fft( react( ifft(mask·mask·û) ) )` with
  `react(a, b) = ( f·(1 − a) − a·b², −(f + κ)·b + a·b² )`.
-/
namespace Exponax.AliasND
open Exponax Exponax.Layout Exponax.Transform Exponax.DFT Exponax.Nonlin Exponax.Alias Finset

/-- pipeline read-off of the two-channel `reaction` with the Gray–Scott reaction term, any `D`, any
    stored input: `out_ch(h) = mask_h · F[react(a, b)_ch](k(h))`, `a = ifft(mask·û_0)`,
    `b = ifft(mask·û_1)` (the double masking of the model collapses) -/
theorem grayScott_nd_readoff (c : Cfg ℂ) (hN : 0 < c.N) (feed kill : ℂ) (uh : MC ℂ)
    (ch : ℕ) (hch : ch < 2) (h : ℕ) (hh : h < numModes c.D c.N) :
    at2 (reaction c 2 (grayScottReact feed kill) uh) ch h
      = mask c h * dftV c.D c.N (tab (c.N ^ c.D) fun x =>
          (grayScottReact feed kill [(nifft c (uh.getD 0 #[])).getD x 0,
            (nifft c (uh.getD 1 #[])).getD x 0]).getD ch 0) (kvec c.D c.N h) := by
  have hu : ∀ k, k < 2 → ∀ x, at2 (tabC 2 fun ch => nifft c (tab (modes c) fun h =>
        mask c h * at2 uh ch h)) k x = (nifft c (uh.getD k #[])).getD x 0 := by
    intro k hk x
    rw [at2_tabC _ _ _ _ hk]
    have : (tab (modes c) fun h => mask c h * at2 uh k h)
        = tab (modes c) fun h => mask c h * (uh.getD k #[]).getD h 0 := rfl
    rw [this, nifft_mask_idem]
  unfold reaction
  simp only []
  rw [at2_tabC _ _ _ _ hch, nfft_nd c hN _ h hh]
  congr 2
  unfold tab2
  rw [Nonlin.tab_getD _ _ _ _ hch]
  apply Nonlin.tab_congr
  intro x _
  have hl : (List.range 2).map (fun k => at2 (tabC 2 fun ch => nifft c (tab (modes c) fun h =>
        mask c h * at2 uh ch h)) k x)
      = [(nifft c (uh.getD 0 #[])).getD x 0, (nifft c (uh.getD 1 #[])).getD x 0] := by
    rw [show List.range 2 = [0, 1] by decide, List.map_cons, List.map_cons, List.map_nil,
      hu 0 (by norm_num), hu 1 (by norm_num)]
  beta_reduce
  rw [hl]

theorem grayScott_ch0 (feed kill a b : ℂ) :
    (grayScottReact feed kill [a, b]).getD 0 0 = feed * (1 - a) - a * (b * b) := by
  simp [grayScottReact]

theorem grayScott_ch1 (feed kill a b : ℂ) :
    (grayScottReact feed kill [a, b]).getD 1 0 = -(feed + kill) * b + a * (b * b) := by
  simp [grayScottReact]

/-- **G5: Gray–Scott reaction, any `D ≥ 1`, cut-off `4·Kc < N`** (e.g. the 1/2 rule).  Real states
    `xa`, `xb`, `û = (rfftnM xa, rfftnM xb)`.  At a retained stored mode `h`

      `out_0(h) = f·(N^D·[h = 0] − â_h) − (A ⋆ B ⋆ B)(k(h))`,
      `out_1(h) = −(f + κ)·b̂_h + (A ⋆ B ⋆ B)(k(h))`,

    with `A`, `B` the box-truncated full spectra of `xa`, `xb` and `⋆⋆` the double LINEAR convolution
    (normalised by `N^{-2D}`): the coefficients of the reaction term applied to the band-truncated
    state, alias-free.  At a dropped mode both channels are `0`. -/
theorem grayScott_alias_free_nd (c : Cfg ℂ) (hD : 0 < c.D) (hq : c.fq ≠ 0)
    (hK : 4 * Kc c < (c.N : ℤ)) (hN : 0 < c.N) (feed kill : ℂ) (xa xb : Array ℂ)
    (hxa : IsRealND c.D c.N xa) (hxb : IsRealND c.D c.N xb) (h : ℕ) (hh : h < numModes c.D c.N) :
    (mask c h = 1 →
      at2 (reaction c 2 (grayScottReact feed kill) #[rfftnM c.D c.N xa, rfftnM c.D c.N xb]) 0 h
        = feed * ((if h = 0 then ((c.N ^ c.D : ℕ) : ℂ) else 0) - (rfftnM c.D c.N xa).getD h 0)
          - linConv3 c.D c.N (Kc c) (dftV c.D c.N xa) (dftV c.D c.N xb) (dftV c.D c.N xb)
              (kvec c.D c.N h)
      ∧ at2 (reaction c 2 (grayScottReact feed kill) #[rfftnM c.D c.N xa, rfftnM c.D c.N xb]) 1 h
        = -(feed + kill) * (rfftnM c.D c.N xb).getD h 0
          + linConv3 c.D c.N (Kc c) (dftV c.D c.N xa) (dftV c.D c.N xb) (dftV c.D c.N xb)
              (kvec c.D c.N h))
    ∧ (mask c h = 0 →
      at2 (reaction c 2 (grayScottReact feed kill) #[rfftnM c.D c.N xa, rfftnM c.D c.N xb]) 0 h = 0
      ∧ at2 (reaction c 2 (grayScottReact feed kill) #[rfftnM c.D c.N xa, rfftnM c.D c.N xb]) 1 h = 0) := by
  have h2 := two_lt_of_four c.N (Kc c) hK
  refine ⟨fun hm => ?_, fun hm =>
    ⟨reaction_zero_off_band c 2 _ _ 0 h hm, reaction_zero_off_band c 2 _ _ 1 h hm⟩⟩
  have hk : ∀ d, |kvec c.D c.N h d| ≤ Kc c := (mask_nd_eq_one_iff c hq h).mp hm
  have e0 : (#[rfftnM c.D c.N xa, rfftnM c.D c.N xb] : MC ℂ).getD 0 #[] = rfftnM c.D c.N xa := rfl
  have e1 : (#[rfftnM c.D c.N xa, rfftnM c.D c.N xb] : MC ℂ).getD 1 #[] = rfftnM c.D c.N xb := rfl
  rw [grayScott_nd_readoff c hN feed kill _ 0 (by norm_num) h hh,
    grayScott_nd_readoff c hN feed kill _ 1 (by norm_num) h hh, hm, one_mul, one_mul, e0, e1]
  set a := nifft c (rfftnM c.D c.N xa) with ha
  set b := nifft c (rfftnM c.D c.N xb) with hb
  have hcube : dftV c.D c.N (tab (c.N ^ c.D) fun j => a.getD j 0 * b.getD j 0 * b.getD j 0)
        (kvec c.D c.N h)
      = linConv3 c.D c.N (Kc c) (dftV c.D c.N xa) (dftV c.D c.N xb) (dftV c.D c.N xb)
          (kvec c.D c.N h) := by
    rw [ha, hb]
    exact dftV_mul3_nifft_rfftn c hD hq hK hN xa xb xb hxa hxb hxb _ hk
  constructor
  · have e : (tab (c.N ^ c.D) fun j => (grayScottReact feed kill [a.getD j 0, b.getD j 0]).getD 0 0)
        = tab (c.N ^ c.D) fun j => ((fun _ => feed) j + (fun j => (-feed) * a.getD j 0) j)
            + (fun j => (-1 : ℂ) * (a.getD j 0 * b.getD j 0 * b.getD j 0)) j := by
      apply Nonlin.tab_congr
      intro j _
      rw [grayScott_ch0]
      ring
    rw [e, dftV_add, dftV_add, dftV_smul, dftV_smul, dftV_const c.D c.N hN, dftV_self_tab, hcube,
      ha, dftV_nifft_rfftn c hD hq hN h2 xa hxa _ hk, rfftn_eq_dftV c.D c.N hN xa h hh]
    simp only [stored_dvd_iff c.D c.N h hD hN hh]
    split_ifs <;> ring
  · have e : (tab (c.N ^ c.D) fun j => (grayScottReact feed kill [a.getD j 0, b.getD j 0]).getD 1 0)
        = tab (c.N ^ c.D) fun j => (fun j => (-(feed + kill)) * b.getD j 0) j
            + (fun j => (1 : ℂ) * (a.getD j 0 * b.getD j 0 * b.getD j 0)) j := by
      apply Nonlin.tab_congr
      intro j _
      rw [grayScott_ch1]
      ring
    rw [e, dftV_add, dftV_smul, dftV_smul, dftV_self_tab, hcube,
      hb, dftV_nifft_rfftn c hD hq hN h2 xb hxb _ hk, rfftn_eq_dftV c.D c.N hN xb h hh]
    ring

/-- G5 for the documented fraction 1/2 -/
theorem grayScott_alias_free_nd_half (c : Cfg ℂ) (hD : 0 < c.D) (hp : c.fp = 1) (hq : c.fq = 2)
    (hN : 0 < c.N) (feed kill : ℂ) (xa xb : Array ℂ)
    (hxa : IsRealND c.D c.N xa) (hxb : IsRealND c.D c.N xb) (h : ℕ) (hh : h < numModes c.D c.N) :
    (mask c h = 1 →
      at2 (reaction c 2 (grayScottReact feed kill) #[rfftnM c.D c.N xa, rfftnM c.D c.N xb]) 0 h
        = feed * ((if h = 0 then ((c.N ^ c.D : ℕ) : ℂ) else 0) - (rfftnM c.D c.N xa).getD h 0)
          - linConv3 c.D c.N (Kc c) (dftV c.D c.N xa) (dftV c.D c.N xb) (dftV c.D c.N xb)
              (kvec c.D c.N h)
      ∧ at2 (reaction c 2 (grayScottReact feed kill) #[rfftnM c.D c.N xa, rfftnM c.D c.N xb]) 1 h
        = -(feed + kill) * (rfftnM c.D c.N xb).getD h 0
          + linConv3 c.D c.N (Kc c) (dftV c.D c.N xa) (dftV c.D c.N xb) (dftV c.D c.N xb)
              (kvec c.D c.N h))
    ∧ (mask c h = 0 →
      at2 (reaction c 2 (grayScottReact feed kill) #[rfftnM c.D c.N xa, rfftnM c.D c.N xb]) 0 h = 0
      ∧ at2 (reaction c 2 (grayScottReact feed kill) #[rfftnM c.D c.N xa, rfftnM c.D c.N xb]) 1 h = 0) :=
  grayScott_alias_free_nd c hD (by omega) (Kc_half c hp hq) hN feed kill xa xb hxa hxb h hh

end Exponax.AliasND
