import ExponaxModel.Proofs.LerayBasic
import ExponaxModel.Proofs.CrossProduct
/-
P1 / P3 / P5 — mode-by-mode algebra of the Leray projection, of `projected3d` and of the
stream-function velocity in `vorticity2d`, at `K := ℂ`, about the EXISTING model definitions.

A configuration `c : Cfg ℂ` has a real scale `c.s = ((s : ℝ) : ℂ)`, `s ≠ 0`.  The hypothesis is used in
exactly one place: `Δ̂(h) = 0 → d_d(h) = 0` (a sum of squares of REALS vanishes only termwise); it is
recorded as `c.s ≠ 0` together with realness where needed.
-/
set_option linter.unusedVariables false
namespace Exponax.Nonlin
open Exponax Exponax.Layout Exponax.Transform

/-! ### spectral divergence at one stored mode -/

/-- `Σ_d d_d(h) · û_d(h)` — literally the expression `div` inside `leray` -/
noncomputable def specDiv (c : Cfg ℂ) (uh : MC ℂ) (h : ℕ) : ℂ :=
  sumList ((List.range c.D).map (fun d => deriv c d h * at2 uh d h))

/-- the same for a channel vector `v : ℕ → ℂ` at mode `h` -/
noncomputable def vecDiv (c : Cfg ℂ) (h : ℕ) (v : ℕ → ℂ) : ℂ := ∑ d ∈ Finset.range c.D, deriv c d h * v d

theorem specDiv_eq_sum (c : Cfg ℂ) (uh : MC ℂ) (h : ℕ) :
    specDiv c uh h = ∑ d ∈ Finset.range c.D, deriv c d h * at2 uh d h :=
  sumList_range_eq _ _

theorem specDiv_eq_vecDiv (c : Cfg ℂ) (uh : MC ℂ) (h : ℕ) :
    specDiv c uh h = vecDiv c h (fun d => at2 uh d h) := specDiv_eq_sum c uh h

/-- the divergence of a tabulated spectrum only sees the tabulated entries -/
theorem specDiv_tab2 (c : Cfg ℂ) (f : ℕ → ℕ → ℂ) (h : ℕ) (hh : h < modes c) :
    specDiv c (tab2 c.D (modes c) f) h = vecDiv c h (fun d => f d h) := by
  rw [specDiv_eq_sum]
  exact Finset.sum_congr rfl (fun d hd => by rw [at2_tab2 _ _ _ _ _ (Finset.mem_range.1 hd) hh])

/-- at `k = 0` the divergence of anything vanishes -/
theorem vecDiv_eq_zero_of_laplace (c : Cfg ℂ) (hs0 : c.s ≠ 0) (h : ℕ) (hl : laplace c 2 h = 0) (v : ℕ → ℂ) :
    vecDiv c h v = 0 :=
  Finset.sum_eq_zero (fun d hd => by
    rw [deriv_eq_zero_of_laplace c hs0 h hl d (Finset.mem_range.1 hd), zero_mul])

/-! ### P1 Leray projection -/

/-- entry read-off: `P û = û + d · (−Δ̂⁻¹ (d·û))` -/
theorem at2_leray (c : Cfg ℂ) (uh : MC ℂ) (d h : ℕ) (hd : d < c.D) (hh : h < modes c) :
    at2 (leray c uh) d h = at2 uh d h + deriv c d h * (-(invLapZero c h) * specDiv c uh h) := by
  unfold leray
  simp only []
  rw [at2_tab2 _ _ _ _ _ hd hh, tab_getD _ _ _ _ hh, tab_getD _ _ _ _ hh]
  rfl

theorem leray_eq_tab2 (c : Cfg ℂ) (uh : MC ℂ) :
    leray c uh = tab2 c.D (modes c)
      (fun d h => at2 uh d h + deriv c d h * (-(invLapZero c h) * specDiv c uh h)) := by
  unfold leray
  simp only []
  apply tab2_congr
  intro d h hd hh
  rw [tab_getD _ _ _ _ hh, tab_getD _ _ _ _ hh]
  rfl

/-- outside the stored range the output reads as `0` -/
theorem at2_leray_out (c : Cfg ℂ) (uh : MC ℂ) (d h : ℕ) (ho : c.D ≤ d ∨ modes c ≤ h) :
    at2 (leray c uh) d h = 0 := by
  rw [leray_eq_tab2]
  rcases ho with ho | ho
  · exact at2_tab2_of_le_ch _ _ _ _ _ ho
  · exact at2_tab2_of_le_idx _ _ _ _ _ ho

/-- the projection as a per-mode matrix: `(P û)_d = Σ_e (δ_de − d_d Δ̂⁻¹ d_e) û_e` -/
theorem at2_leray_matrix (c : Cfg ℂ) (uh : MC ℂ) (d h : ℕ) (hd : d < c.D) (hh : h < modes c) :
    at2 (leray c uh) d h
      = ∑ e ∈ Finset.range c.D,
          ((if d = e then 1 else 0) - deriv c d h * invLapZero c h * deriv c e h) * at2 uh e h := by
  rw [at2_leray c uh d h hd hh, specDiv_eq_sum]
  simp only [sub_mul, Finset.sum_sub_distrib, ite_mul, one_mul, zero_mul]
  rw [Finset.sum_ite_eq, if_pos (Finset.mem_range.2 hd), Finset.mul_sum, Finset.mul_sum, sub_eq_add_neg,
    ← Finset.sum_neg_distrib]
  congr 1
  exact Finset.sum_congr rfl (fun e _ => by ring)

/-- the divergence of the projected vector: `d·(Pû) = (1 − Δ̂ Δ̂⁻¹)(d·û)` (any `s`) -/
theorem specDiv_leray_eq (c : Cfg ℂ) (uh : MC ℂ) (h : ℕ) (hh : h < modes c) :
    specDiv c (leray c uh) h = (1 - laplace c 2 h * invLapZero c h) * specDiv c uh h := by
  rw [leray_eq_tab2, specDiv_tab2 _ _ _ hh, vecDiv, laplace_two_eq_sum]
  have hS := specDiv_eq_sum c uh h
  generalize specDiv c uh h = S at hS ⊢
  have h2 : ∑ d ∈ Finset.range c.D, deriv c d h * (deriv c d h * (-(invLapZero c h) * S))
      = (∑ d ∈ Finset.range c.D, deriv c d h ^ 2) * (-(invLapZero c h) * S) := by
    rw [Finset.sum_mul]
    exact Finset.sum_congr rfl (fun d _ => by ring)
  simp only [mul_add, Finset.sum_add_distrib]
  rw [← hS, h2]
  ring

/-- **P1(a) the Leray projection is divergence-free at every stored mode** (including `k = 0`) -/
theorem leray_div_free (c : Cfg ℂ) (s : ℝ) (hs : c.s = (s : ℂ)) (hs0 : s ≠ 0) (uh : MC ℂ) (h : ℕ)
    (hh : h < modes c) :
    sumList ((List.range c.D).map (fun d => deriv c d h * at2 (leray c uh) d h)) = 0 := by
  change specDiv c (leray c uh) h = 0
  have hcs : c.s ≠ 0 := by rw [hs]; exact_mod_cast hs0
  rw [specDiv_leray_eq c uh h hh, laplace_mul_invLapZero]
  split_ifs with hl
  · rw [specDiv_eq_vecDiv, vecDiv_eq_zero_of_laplace c hcs h hl, mul_zero]
  · simp

theorem specDiv_leray (c : Cfg ℂ) (s : ℝ) (hs : c.s = (s : ℂ)) (hs0 : s ≠ 0) (uh : MC ℂ) (h : ℕ)
    (hh : h < modes c) : specDiv c (leray c uh) h = 0 :=
  leray_div_free c s hs hs0 uh h hh

/-- **P1(c) identity on divergence-free input** (per mode; no hypothesis on `s`) -/
theorem leray_id_of_div_free (c : Cfg ℂ) (uh : MC ℂ) (h : ℕ) (hh : h < modes c)
    (hdiv : sumList ((List.range c.D).map (fun d => deriv c d h * at2 uh d h)) = 0)
    (d : ℕ) (hd : d < c.D) :
    at2 (leray c uh) d h = at2 uh d h := by
  rw [at2_leray c uh d h hd hh]
  change specDiv c uh h = 0 at hdiv
  rw [hdiv]; ring

/-- **P1(b) idempotence**, as an equality of arrays -/
theorem leray_idempotent (c : Cfg ℂ) (s : ℝ) (hs : c.s = (s : ℂ)) (hs0 : s ≠ 0) (uh : MC ℂ) :
    leray c (leray c uh) = leray c uh := by
  rw [leray_eq_tab2 c (leray c uh)]
  conv_rhs => rw [leray_eq_tab2 c uh]
  apply tab2_congr
  intro d h hd hh
  rw [specDiv_leray c s hs hs0 uh h hh, at2_leray c uh d h hd hh]
  ring

/-- P1(b) entrywise -/
theorem leray_idempotent_entry (c : Cfg ℂ) (s : ℝ) (hs : c.s = (s : ℂ)) (hs0 : s ≠ 0) (uh : MC ℂ)
    (d h : ℕ) (hd : d < c.D) (hh : h < modes c) :
    at2 (leray c (leray c uh)) d h = at2 (leray c uh) d h := by
  rw [leray_idempotent c s hs hs0 uh]

/-- the projection only reads the `D × modes` block of its input -/
theorem leray_congr (c : Cfg ℂ) (uh vh : MC ℂ)
    (hv : ∀ d h, d < c.D → h < modes c → at2 vh d h = at2 uh d h) : leray c vh = leray c uh := by
  rw [leray_eq_tab2, leray_eq_tab2]
  apply tab2_congr
  intro d h hd hh
  have : specDiv c vh h = specDiv c uh h := by
    rw [specDiv_eq_sum, specDiv_eq_sum]
    exact Finset.sum_congr rfl (fun e he => by rw [hv e h (Finset.mem_range.1 he) hh])
  rw [this, hv d h hd hh]

/-! #### P1(d) linearity and per-mode scalars -/

theorem vecDiv_add (c : Cfg ℂ) (h : ℕ) (v w : ℕ → ℂ) :
    vecDiv c h (fun d => v d + w d) = vecDiv c h v + vecDiv c h w := by
  simp only [vecDiv, mul_add, Finset.sum_add_distrib]

theorem vecDiv_smul (c : Cfg ℂ) (h : ℕ) (a : ℂ) (v : ℕ → ℂ) :
    vecDiv c h (fun d => a * v d) = a * vecDiv c h v := by
  simp only [vecDiv, Finset.mul_sum]
  exact Finset.sum_congr rfl (fun d _ => by ring)

/-- `leray` is linear: `P (a û + b v̂) = a P û + b P v̂` (as arrays) -/
theorem leray_linear (c : Cfg ℂ) (a b : ℂ) (uh vh : MC ℂ) :
    leray c (tab2 c.D (modes c) (fun d h => a * at2 uh d h + b * at2 vh d h))
      = tab2 c.D (modes c) (fun d h => a * at2 (leray c uh) d h + b * at2 (leray c vh) d h) := by
  rw [leray_eq_tab2]
  apply tab2_congr
  intro d h hd hh
  rw [at2_tab2 _ _ _ _ _ hd hh, specDiv_tab2 _ _ _ hh, vecDiv_add, vecDiv_smul, vecDiv_smul,
    ← specDiv_eq_vecDiv, ← specDiv_eq_vecDiv, at2_leray c uh d h hd hh, at2_leray c vh d h hd hh]
  ring

/-- `leray` commutes with a per-mode scalar applied to all channels (e.g. `e^{Δt·λ(h)}` of a linear symbol that
    is the same for all channels) -/
theorem leray_mode_scalar (c : Cfg ℂ) (a : ℕ → ℂ) (uh : MC ℂ) :
    leray c (tab2 c.D (modes c) (fun d h => a h * at2 uh d h))
      = tab2 c.D (modes c) (fun d h => a h * at2 (leray c uh) d h) := by
  rw [leray_eq_tab2]
  apply tab2_congr
  intro d h hd hh
  rw [at2_tab2 _ _ _ _ _ hd hh, specDiv_tab2 _ _ _ hh, vecDiv_smul, ← specDiv_eq_vecDiv,
    at2_leray c uh d h hd hh]
  ring

/-- per-mode scalars and sums together: `P (a ⊙ û + b ⊙ v̂) = a ⊙ P û + b ⊙ P v̂` -/
theorem leray_mode_linear (c : Cfg ℂ) (a b : ℕ → ℂ) (uh vh : MC ℂ) :
    leray c (tab2 c.D (modes c) (fun d h => a h * at2 uh d h + b h * at2 vh d h))
      = tab2 c.D (modes c) (fun d h => a h * at2 (leray c uh) d h + b h * at2 (leray c vh) d h) := by
  rw [leray_eq_tab2]
  apply tab2_congr
  intro d h hd hh
  rw [at2_tab2 _ _ _ _ _ hd hh, specDiv_tab2 _ _ _ hh, vecDiv_add, vecDiv_smul, vecDiv_smul,
    ← specDiv_eq_vecDiv, ← specDiv_eq_vecDiv, at2_leray c uh d h hd hh, at2_leray c vh d h hd hh]
  ring

/-- the divergence-free vectors at a mode are closed under scalar multiples … -/
theorem vecDiv_free_smul (c : Cfg ℂ) (h : ℕ) (a : ℂ) (v : ℕ → ℂ) (hv : vecDiv c h v = 0) :
    vecDiv c h (fun d => a * v d) = 0 := by
  rw [vecDiv_smul, hv, mul_zero]

/-- … and sums -/
theorem vecDiv_free_add (c : Cfg ℂ) (h : ℕ) (v w : ℕ → ℂ) (hv : vecDiv c h v = 0) (hw : vecDiv c h w = 0) :
    vecDiv c h (fun d => v d + w d) = 0 := by
  rw [vecDiv_add, hv, hw, add_zero]

/-- ETDRK stage with one nonlinear evaluation: `E·u + c₁·n₁` stays divergence-free -/
theorem vecDiv_free_stage1 (c : Cfg ℂ) (h : ℕ) (E c1 : ℂ) (u n1 : ℕ → ℂ)
    (hu : vecDiv c h u = 0) (h1 : vecDiv c h n1 = 0) :
    vecDiv c h (fun d => E * u d + c1 * n1 d) = 0 := by
  rw [vecDiv_add, vecDiv_smul, vecDiv_smul, hu, h1]; ring

/-- two nonlinear evaluations -/
theorem vecDiv_free_stage2 (c : Cfg ℂ) (h : ℕ) (E c1 c2 : ℂ) (u n1 n2 : ℕ → ℂ)
    (hu : vecDiv c h u = 0) (h1 : vecDiv c h n1 = 0) (h2 : vecDiv c h n2 = 0) :
    vecDiv c h (fun d => E * u d + c1 * n1 d + c2 * n2 d) = 0 := by
  rw [vecDiv_add, vecDiv_add, vecDiv_smul, vecDiv_smul, vecDiv_smul, hu, h1, h2]; ring

/-- three nonlinear evaluations -/
theorem vecDiv_free_stage3 (c : Cfg ℂ) (h : ℕ) (E c1 c2 c3 : ℂ) (u n1 n2 n3 : ℕ → ℂ)
    (hu : vecDiv c h u = 0) (h1 : vecDiv c h n1 = 0) (h2 : vecDiv c h n2 = 0) (h3 : vecDiv c h n3 = 0) :
    vecDiv c h (fun d => E * u d + c1 * n1 d + c2 * n2 d + c3 * n3 d) = 0 := by
  rw [vecDiv_add, vecDiv_add, vecDiv_add, vecDiv_smul, vecDiv_smul, vecDiv_smul, vecDiv_smul, hu, h1, h2, h3]
  ring

/-- four nonlinear evaluations (ETDRK4 final stage) -/
theorem vecDiv_free_stage4 (c : Cfg ℂ) (h : ℕ) (E c1 c2 c3 c4 : ℂ) (u n1 n2 n3 n4 : ℕ → ℂ)
    (hu : vecDiv c h u = 0) (h1 : vecDiv c h n1 = 0) (h2 : vecDiv c h n2 = 0) (h3 : vecDiv c h n3 = 0)
    (h4 : vecDiv c h n4 = 0) :
    vecDiv c h (fun d => E * u d + c1 * n1 d + c2 * n2 d + c3 * n3 d + c4 * n4 d) = 0 := by
  rw [vecDiv_add, vecDiv_add, vecDiv_add, vecDiv_add, vecDiv_smul, vecDiv_smul, vecDiv_smul, vecDiv_smul,
    vecDiv_smul, hu, h1, h2, h3, h4]
  ring

/-- the same on stored spectra: the stage `E(h)·û + c₁(h)·n̂₁ + c₂(h)·n̂₂` (per-mode coefficients shared by all
    channels) is divergence-free at `h` when `û, n̂₁, n̂₂` are -/
theorem specDiv_free_stage2 (c : Cfg ℂ) (E c1 c2 : ℕ → ℂ) (uh n1 n2 : MC ℂ) (h : ℕ) (hh : h < modes c)
    (hu : specDiv c uh h = 0) (h1 : specDiv c n1 h = 0) (h2 : specDiv c n2 h = 0) :
    specDiv c (tab2 c.D (modes c) (fun d h => E h * at2 uh d h + c1 h * at2 n1 d h + c2 h * at2 n2 d h)) h = 0 := by
  rw [specDiv_tab2 _ _ _ hh]
  rw [specDiv_eq_vecDiv] at hu h1 h2
  exact vecDiv_free_stage2 c h (E h) (c1 h) (c2 h) _ _ _ hu h1 h2

theorem specDiv_free_stage1 (c : Cfg ℂ) (E c1 : ℕ → ℂ) (uh n1 : MC ℂ) (h : ℕ) (hh : h < modes c)
    (hu : specDiv c uh h = 0) (h1 : specDiv c n1 h = 0) :
    specDiv c (tab2 c.D (modes c) (fun d h => E h * at2 uh d h + c1 h * at2 n1 d h)) h = 0 := by
  rw [specDiv_tab2 _ _ _ hh]
  rw [specDiv_eq_vecDiv] at hu h1
  exact vecDiv_free_stage1 c h (E h) (c1 h) _ _ hu h1

theorem specDiv_free_stage3 (c : Cfg ℂ) (E c1 c2 c3 : ℕ → ℂ) (uh n1 n2 n3 : MC ℂ) (h : ℕ) (hh : h < modes c)
    (hu : specDiv c uh h = 0) (h1 : specDiv c n1 h = 0) (h2 : specDiv c n2 h = 0) (h3 : specDiv c n3 h = 0) :
    specDiv c (tab2 c.D (modes c)
      (fun d h => E h * at2 uh d h + c1 h * at2 n1 d h + c2 h * at2 n2 d h + c3 h * at2 n3 d h)) h = 0 := by
  rw [specDiv_tab2 _ _ _ hh]
  rw [specDiv_eq_vecDiv] at hu h1 h2 h3
  exact vecDiv_free_stage3 c h (E h) (c1 h) (c2 h) (c3 h) _ _ _ _ hu h1 h2 h3

/-! ### P3 `projected3d` -/

/-- read-off of `projected3d`: the output is `leray` of some spectrum `wh` (the masked transform of `u × ω`; it does
    not depend on the injection) plus a Kolmogorov term `e` that lives on channel `0` at the two conjugate modes
    `k = (0, ±m, 0)`: `−i·γ·scaling` at `(0, m, 0)`, `+i·γ·scaling` at `(0, −m, 0)` -/
theorem projected3d_spec (c : Cfg ℂ) (uh : MC ℂ) :
    ∃ wh : MC ℂ, ∀ (inj : Option (ℕ × ℂ)) (i h : ℕ), i < 3 → h < modes c →
      ∃ e : ℂ, at2 (projected3d c inj uh) i h = at2 (leray c wh) i h + e ∧
        (inj = none → e = 0) ∧
        (∀ m gam, inj = some (m, gam) →
          e = if i = 0 ∧ kInt c 0 h = 0 ∧ kInt c 2 h = 0 ∧ kInt c 1 h = (m : ℤ)
            then -Complex.I * (gam * scaling c.D c.N 2 (unflatten (wavenumberShape c.D c.N) h))
            else if i = 0 ∧ kInt c 0 h = 0 ∧ kInt c 2 h = 0 ∧ kInt c 1 h = -(m : ℤ)
            then Complex.I * (gam * scaling c.D c.N 2 (unflatten (wavenumberShape c.D c.N) h))
            else 0) :=
  ⟨_, fun inj i h hi hh => by
    cases inj with
    | none =>
      refine ⟨0, ?_, fun _ => rfl, fun m gam h0 => (by cases h0)⟩
      unfold projected3d
      simp only []
      rw [at2_tab2 _ _ _ _ _ hi hh]
      exact (add_zero _).symm
    | some mg =>
      obtain ⟨m, gam⟩ := mg
      refine ⟨if i = 0 ∧ kInt c 0 h = 0 ∧ kInt c 2 h = 0 ∧ kInt c 1 h = (m : ℤ)
            then -Complex.I * (gam * scaling c.D c.N 2 (unflatten (wavenumberShape c.D c.N) h))
            else if i = 0 ∧ kInt c 0 h = 0 ∧ kInt c 2 h = 0 ∧ kInt c 1 h = -(m : ℤ)
            then Complex.I * (gam * scaling c.D c.N 2 (unflatten (wavenumberShape c.D c.N) h))
            else 0, ?_,
            fun h0 => (by cases h0), fun m' gam' h0 => (by cases h0; rfl)⟩
      unfold projected3d
      simp only []
      rw [at2_tab2 _ _ _ _ _ hi hh]
      simp only [Bool.and_eq_true, decide_eq_true_eq, beq_iff_eq, and_assoc]
      by_cases hc : i = 0 ∧ kInt c 0 h = 0 ∧ kInt c 2 h = 0 ∧ kInt c 1 h = (m : ℤ)
      · have hc' : i = 0 ∧ (wnFlat c.D c.N h).getD 0 0 = 0 ∧ (wnFlat c.D c.N h).getD 2 0 = 0 ∧
          (wnFlat c.D c.N h).getD 1 0 = (m : ℤ) := hc
        rw [if_pos hc, if_pos hc']
        rfl
      · have hc' : ¬ (i = 0 ∧ (wnFlat c.D c.N h).getD 0 0 = 0 ∧ (wnFlat c.D c.N h).getD 2 0 = 0 ∧
          (wnFlat c.D c.N h).getD 1 0 = (m : ℤ)) := hc
        rw [if_neg hc, if_neg hc']
        by_cases hn : i = 0 ∧ kInt c 0 h = 0 ∧ kInt c 2 h = 0 ∧ kInt c 1 h = -(m : ℤ)
        · have hn' : i = 0 ∧ (wnFlat c.D c.N h).getD 0 0 = 0 ∧ (wnFlat c.D c.N h).getD 2 0 = 0 ∧
            (wnFlat c.D c.N h).getD 1 0 = -(m : ℤ) := hn
          rw [if_pos hn, if_pos hn']
          rfl
        · have hn' : ¬ (i = 0 ∧ (wnFlat c.D c.N h).getD 0 0 = 0 ∧ (wnFlat c.D c.N h).getD 2 0 = 0 ∧
            (wnFlat c.D c.N h).getD 1 0 = -(m : ℤ)) := hn
          rw [if_neg hn, if_neg hn']⟩

/-- **P3 the output of `projected3d` is divergence-free at every stored mode**, with or without the
    Kolmogorov injection (`c.D ≤ 3`; the function is meant for `c.D = 3`) -/
theorem projected3d_div_free (c : Cfg ℂ) (s : ℝ) (hs : c.s = (s : ℂ)) (hs0 : s ≠ 0) (hD : c.D ≤ 3)
    (inj : Option (ℕ × ℂ)) (uh : MC ℂ) (h : ℕ) (hh : h < modes c) :
    sumList ((List.range c.D).map (fun d => deriv c d h * at2 (projected3d c inj uh) d h)) = 0 := by
  change specDiv c (projected3d c inj uh) h = 0
  obtain ⟨wh, hspec⟩ := projected3d_spec c uh
  rw [specDiv_eq_sum, ← specDiv_leray c s hs hs0 wh h hh, specDiv_eq_sum]
  apply Finset.sum_congr rfl
  intro d hd
  have hd' : d < c.D := Finset.mem_range.1 hd
  obtain ⟨e, hval, hnone, hsome⟩ := hspec inj d h (by omega) hh
  rw [hval, mul_add]
  have : deriv c d h * e = 0 := by
    cases inj with
    | none => rw [hnone rfl, mul_zero]
    | some mg =>
      obtain ⟨m, gam⟩ := mg
      rw [hsome m gam rfl]
      split_ifs with hc hn
      · obtain ⟨rfl, hk0, _, _⟩ := hc
        rw [deriv_eq_zero_of_k c 0 h hk0, zero_mul]
      · obtain ⟨rfl, hk0, _, _⟩ := hn
        rw [deriv_eq_zero_of_k c 0 h hk0, zero_mul]
      · rw [mul_zero]
  rw [this, add_zero]

/-- P3 without injection, the exact wording of the task -/
theorem projected3d_none_div_free (c : Cfg ℂ) (s : ℝ) (hs : c.s = (s : ℂ)) (hs0 : s ≠ 0) (hD : c.D ≤ 3)
    (uh : MC ℂ) (h : ℕ) (hh : h < modes c) :
    sumList ((List.range c.D).map (fun d => deriv c d h * at2 (projected3d c none uh) d h)) = 0 :=
  projected3d_div_free c s hs hs0 hD none uh h hh

/-! ### P5 `vorticity2d`: stream function and velocity at the spectral level -/

/-- read-off of `vorticity2d`: the four spectra handed to the inverse transform are
    `û = d₁ψ̂`, `v̂ = −d₀ψ̂`, `d₀ω̂`, `d₁ω̂` with `ψ̂ = invLapOne · ω̂`, and the output is
    `−scale · fft(u ω_x + v ω_y)` plus the Kolmogorov term `e = −(s·k₁)·γ·scaling` on the modes `k = (0, m)` -/
theorem vorticity2d_spec (c : Cfg ℂ) (scale : ℂ) (uh : MC ℂ) :
    ∃ (uH vH wxH wyH : Array ℂ),
      (∀ (inj : Option (ℕ × ℂ)) (h : ℕ), h < modes c →
        ∃ e : ℂ,
          at2 (vorticity2d c scale inj uh) 0 h
            = -scale * (nfft c (tab (gridSize c) (fun x =>
                (nifft c uH).getD x 0 * (nifft c wxH).getD x 0
                  + (nifft c vH).getD x 0 * (nifft c wyH).getD x 0))).getD h 0 + e ∧
          (inj = none → e = 0) ∧
          (∀ m gam, inj = some (m, gam) →
            e = if kInt c 0 h = 0 ∧ kInt c 1 h = (m : ℤ)
              then -(c.s * ((kInt c 1 h : ℤ) : ℂ)) * gam * scaling c.D c.N 2 (unflatten (wavenumberShape c.D c.N) h) else 0)) ∧
      (∀ h, h < modes c → uH.getD h 0 = deriv c 1 h * (invLapOne c h * at2 uh 0 h)) ∧
      (∀ h, h < modes c → vH.getD h 0 = -(deriv c 0 h) * (invLapOne c h * at2 uh 0 h)) ∧
      (∀ h, h < modes c → wxH.getD h 0 = deriv c 0 h * at2 uh 0 h) ∧
      (∀ h, h < modes c → wyH.getD h 0 = deriv c 1 h * at2 uh 0 h) :=
  ⟨_, _, _, _,
    fun inj h hh => by
      cases inj with
      | none =>
        refine ⟨0, ?_, fun _ => rfl, fun m gam h0 => (by cases h0)⟩
        unfold vorticity2d
        simp only []
        rw [at2_tab2 _ _ _ _ _ (by norm_num) hh]
        exact (add_zero _).symm
      | some mg =>
        obtain ⟨m, gam⟩ := mg
        refine ⟨if kInt c 0 h = 0 ∧ kInt c 1 h = (m : ℤ)
              then -(c.s * ((kInt c 1 h : ℤ) : ℂ)) * gam * scaling c.D c.N 2 (unflatten (wavenumberShape c.D c.N) h) else 0, ?_,
              fun h0 => (by cases h0), fun m' gam' h0 => (by cases h0; rfl)⟩
        unfold vorticity2d
        simp only []
        rw [at2_tab2 _ _ _ _ _ (by norm_num) hh]
        simp only [Bool.and_eq_true, beq_iff_eq]
        by_cases hc : kInt c 0 h = 0 ∧ kInt c 1 h = (m : ℤ)
        · have hc' : (wnFlat c.D c.N h).getD 0 0 = 0 ∧ (wnFlat c.D c.N h).getD 1 0 = (m : ℤ) := hc
          rw [if_pos hc, if_pos hc']
          rfl
        · have hc' : ¬ ((wnFlat c.D c.N h).getD 0 0 = 0 ∧ (wnFlat c.D c.N h).getD 1 0 = (m : ℤ)) := hc
          rw [if_neg hc, if_neg hc'],
    fun h hh => by rw [tab_getD _ _ _ _ hh, tab_getD _ _ _ _ hh],
    fun h hh => by rw [tab_getD _ _ _ _ hh, tab_getD _ _ _ _ hh],
    fun h hh => by rw [tab_getD _ _ _ _ hh],
    fun h hh => by rw [tab_getD _ _ _ _ hh]⟩


/-- stream function, velocity components at one mode for a vorticity coefficient `w = ω̂(h)` — exactly the
    expressions tabulated inside `vorticity2d` (see `vorticity2d_spec`) -/
noncomputable def psiHat (c : Cfg ℂ) (h : ℕ) (w : ℂ) : ℂ := invLapOne c h * w
noncomputable def uHat (c : Cfg ℂ) (h : ℕ) (w : ℂ) : ℂ := deriv c 1 h * psiHat c h w
noncomputable def vHat (c : Cfg ℂ) (h : ℕ) (w : ℂ) : ℂ := -(deriv c 0 h) * psiHat c h w

/-- **P5(a)** the velocity is divergence-free at every mode: `d₀û + d₁v̂ = 0` (any `s`, including `k = 0`) -/
theorem vorticity_velocity_div_free (c : Cfg ℂ) (h : ℕ) (w : ℂ) :
    deriv c 0 h * uHat c h w + deriv c 1 h * vHat c h w = 0 := by
  simp only [uHat, vHat]; ring

/-- P5(a) in the `specDiv` wording for a 2-D configuration: the two-channel spectrum `(û, v̂)` built from any
    vorticity spectrum is divergence-free at every stored mode -/
theorem vorticity_velocity_specDiv (c : Cfg ℂ) (hD : c.D = 2) (wh : MC ℂ) (h : ℕ) (hh : h < modes c) :
    specDiv c (tab2 c.D (modes c)
      (fun d h => if d = 0 then uHat c h (at2 wh 0 h) else vHat c h (at2 wh 0 h))) h = 0 := by
  rw [specDiv_tab2 _ _ _ hh, vecDiv, hD, Finset.sum_range_succ, Finset.sum_range_one]
  simp only [if_true, one_ne_zero, if_false]
  exact vorticity_velocity_div_free c h _

/-- **P5(b)** `Δ̂ψ̂ = ω̂` off the mean mode, `Δ̂ψ̂ = 0` at it (any `s`) -/
theorem laplace_mul_psiHat (c : Cfg ℂ) (h : ℕ) (w : ℂ) :
    laplace c 2 h * psiHat c h w = if laplace c 2 h = 0 then 0 else w := by
  rw [psiHat, ← mul_assoc, laplace_mul_invLapOne]
  split_ifs <;> simp

/-- P5(b) for a real non-zero scale: at `k ≠ 0`, `Δ̂ψ̂ = ω̂` -/
theorem laplace_mul_psiHat_of_k_ne_zero (c : Cfg ℂ) (s : ℝ) (hs : c.s = (s : ℂ)) (hs0 : s ≠ 0) (h : ℕ) (w : ℂ)
    (hk : ¬ ∀ d, d < c.D → kInt c d h = 0) :
    laplace c 2 h * psiHat c h w = w := by
  rw [laplace_mul_psiHat, if_neg]
  rwa [laplace_two_eq_zero_iff_real c s hs hs0 h]

/-- at the mean mode the guard value `1` makes `ψ̂ = ω̂`, but the velocity vanishes there (real `s ≠ 0`) -/
theorem velocity_at_mean_mode (c : Cfg ℂ) (hs0 : c.s ≠ 0) (hD : c.D = 2) (h : ℕ) (w : ℂ)
    (hl : laplace c 2 h = 0) : psiHat c h w = w ∧ uHat c h w = 0 ∧ vHat c h w = 0 := by
  have h0 := deriv_eq_zero_of_laplace c hs0 h hl 0 (by omega)
  have h1 := deriv_eq_zero_of_laplace c hs0 h hl 1 (by omega)
  simp [psiHat, uHat, vHat, invLapOne_at_zero c h hl, h0, h1]

/-- **P5(c)** the curl of the model velocity is MINUS `Δ̂ψ̂`: `d₀v̂ − d₁û = −Δ̂ψ̂` (2-D, any `s`) -/
theorem vorticity_curl_eq_neg_laplace_psi (c : Cfg ℂ) (hD : c.D = 2) (h : ℕ) (w : ℂ) :
    deriv c 0 h * vHat c h w - deriv c 1 h * uHat c h w = -(laplace c 2 h * psiHat c h w) := by
  rw [laplace_two_eq_sum, hD, Finset.sum_range_succ, Finset.sum_range_one]
  simp only [uHat, vHat]; ring

/-- **P5(c)** hence `curl(û, v̂) = −ω̂` at `k ≠ 0` and `0` at the mean mode: with the model's (= the library's)
    conventions `ψ = Δ⁻¹ω`, `u = ∂_yψ`, `v = −∂_xψ` the state `ω` is `∂_y u − ∂_x v`, the NEGATIVE of the usual
    `∂_x v − ∂_y u` -/
theorem vorticity_curl (c : Cfg ℂ) (hD : c.D = 2) (h : ℕ) (w : ℂ) :
    deriv c 0 h * vHat c h w - deriv c 1 h * uHat c h w = if laplace c 2 h = 0 then 0 else -w := by
  rw [vorticity_curl_eq_neg_laplace_psi c hD, laplace_mul_psiHat]
  split_ifs <;> simp

theorem vorticity_curl_of_k_ne_zero (c : Cfg ℂ) (s : ℝ) (hs : c.s = (s : ℂ)) (hs0 : s ≠ 0) (hD : c.D = 2)
    (h : ℕ) (w : ℂ) (hk : ¬ ∀ d, d < c.D → kInt c d h = 0) :
    deriv c 0 h * vHat c h w - deriv c 1 h * uHat c h w = -w := by
  rw [vorticity_curl c hD, if_neg]
  rwa [laplace_two_eq_zero_iff_real c s hs hs0 h]

/-- equivalently `∂_y u − ∂_x v = ω`: `d₁û − d₀v̂ = ω̂` at `k ≠ 0` -/
theorem vorticity_from_velocity (c : Cfg ℂ) (s : ℝ) (hs : c.s = (s : ℂ)) (hs0 : s ≠ 0) (hD : c.D = 2)
    (h : ℕ) (w : ℂ) (hk : ¬ ∀ d, d < c.D → kInt c d h = 0) :
    deriv c 1 h * uHat c h w - deriv c 0 h * vHat c h w = w := by
  have := vorticity_curl_of_k_ne_zero c s hs hs0 hD h w hk
  linear_combination -this

/-- the advecting velocity in closed form (real scale, `k ≠ 0`): `û = −i k₁ ω̂/(s|k|²)`, `v̂ = +i k₀ ω̂/(s|k|²)` -/
theorem velocity_closed_form (c : Cfg ℂ) (s : ℝ) (hs : c.s = (s : ℂ)) (hs0 : s ≠ 0) (h : ℕ) (w : ℂ)
    (hk : ¬ ∀ d, d < c.D → kInt c d h = 0) :
    uHat c h w = -(Complex.I * ((kInt c 1 h : ℤ) : ℂ) * w) / ((s : ℂ) * ((kSq c h : ℤ) : ℂ)) ∧
    vHat c h w = (Complex.I * ((kInt c 0 h : ℤ) : ℂ) * w) / ((s : ℂ) * ((kSq c h : ℤ) : ℂ)) := by
  have hl : laplace c 2 h ≠ 0 := by rwa [Ne, laplace_two_eq_zero_iff_real c s hs hs0 h]
  have hks : ((kSq c h : ℤ) : ℂ) ≠ 0 := by
    rw [← kSq_eq_zero_iff] at hk; exact_mod_cast hk
  have hsc : (s : ℂ) ≠ 0 := by exact_mod_cast hs0
  have hinv : invLapOne c h = 1 / laplace c 2 h := by rw [invLapOne_eq, if_neg hl]
  simp only [uHat, vHat, psiHat, hinv, laplace_two_eq, deriv_eq, hs]
  constructor <;> field_simp


/-! ### the Kolmogorov forcing as documented -/

/-- (a) 2-D: the injected coefficient (output with injection minus output without) is
    `−(m·s)·γ·scaling` at the stored mode `k = (0, m)` and `0` elsewhere, `s = 2π/L`: in coefficient-extraction units
    the vorticity forcing `−m·(2π/L)·γ·cos(m·(2π/L)·x₁)` -/
theorem vorticity2d_injection_documented (c : Cfg ℂ) (s : ℝ) (hs : c.s = (s : ℂ)) (scale : ℂ) (m : ℕ) (gam : ℂ)
    (uh : MC ℂ) (h : ℕ) (hh : h < modes c) :
    at2 (vorticity2d c scale (some (m, gam)) uh) 0 h - at2 (vorticity2d c scale none uh) 0 h
      = if kInt c 0 h = 0 ∧ kInt c 1 h = (m : ℤ)
        then -(((m : ℝ) * s : ℝ) : ℂ) * gam * scaling c.D c.N 2 (unflatten (wavenumberShape c.D c.N) h)
        else 0 := by
  obtain ⟨uH, vH, wxH, wyH, hmain, _⟩ := vorticity2d_spec c scale uh
  obtain ⟨e1, h1, _, he1⟩ := hmain (some (m, gam)) h hh
  obtain ⟨e0, h0, he0, _⟩ := hmain none h hh
  rw [h1, h0, he0 rfl, he1 m gam rfl, add_zero, add_sub_cancel_left]
  split_ifs with hc
  · rw [hc.2, hs]; push_cast; ring
  · rfl

/-- (b) 3-D: the injected coefficients (output with injection minus output without) are `−i·γ·scaling` at
    `k = (0, m, 0)` and `+i·γ·scaling` at `k = (0, −m, 0)`, on channel `0` only, `0` elsewhere -/
theorem projected3d_injection_documented (c : Cfg ℂ) (m : ℕ) (gam : ℂ) (uh : MC ℂ) (i h : ℕ) (hi : i < 3)
    (hh : h < modes c) :
    at2 (projected3d c (some (m, gam)) uh) i h - at2 (projected3d c none uh) i h
      = if i = 0 ∧ kInt c 0 h = 0 ∧ kInt c 2 h = 0 ∧ kInt c 1 h = (m : ℤ)
        then -Complex.I * gam * scaling c.D c.N 2 (unflatten (wavenumberShape c.D c.N) h)
        else if i = 0 ∧ kInt c 0 h = 0 ∧ kInt c 2 h = 0 ∧ kInt c 1 h = -(m : ℤ)
        then Complex.I * gam * scaling c.D c.N 2 (unflatten (wavenumberShape c.D c.N) h)
        else 0 := by
  obtain ⟨wh, hspec⟩ := projected3d_spec c uh
  obtain ⟨e1, h1, _, he1⟩ := hspec (some (m, gam)) i h hi hh
  obtain ⟨e0, h0, he0, _⟩ := hspec none i h hi hh
  rw [h1, h0, he0 rfl, he1 m gam rfl, add_zero, add_sub_cancel_left]
  split_ifs <;> ring

/-- the conjugate pair `(−i·a, +i·a)` at wavenumbers `(+m, −m)` is the sine: for real `a`, `θ`
    (`θ = m·s·x₁`), `(−i a) e^{iθ} + (i a) e^{−iθ} = 2 a sin θ`; with `a = γ·N³/2` (the coefficient-extraction
    scaling of a non-special mode pair) this is `N³ · γ sin(m s x₁)`, the unnormalised inverse transform of the
    injected pair -/
theorem kolmogorov_pair_is_sine (a θ : ℝ) :
    (-Complex.I * (a : ℂ)) * Complex.exp (Complex.I * θ) + (Complex.I * (a : ℂ)) * Complex.exp (-(Complex.I * θ))
      = ((2 * a * Real.sin θ : ℝ) : ℂ) := by
  have hsin : Complex.sin (θ : ℂ)
      = (Complex.exp (-(Complex.I * θ)) - Complex.exp (Complex.I * θ)) * Complex.I / 2 := by
    rw [Complex.sin]; congr 4 <;> ring
  push_cast
  rw [hsin]; ring

/-- the same for complex amplitude `a` (the model's `γ` is a `K`-value) -/
theorem kolmogorov_pair_is_sine' (a : ℂ) (θ : ℝ) :
    (-Complex.I * a) * Complex.exp (Complex.I * θ) + (Complex.I * a) * Complex.exp (-(Complex.I * θ))
      = 2 * a * Complex.sin θ := by
  have hsin : Complex.sin (θ : ℂ)
      = (Complex.exp (-(Complex.I * θ)) - Complex.exp (Complex.I * θ)) * Complex.I / 2 := by
    rw [Complex.sin]; congr 4 <;> ring
  rw [hsin]; ring

/-- likewise the single stored half-spectrum mode `(0, m)` with real coefficient `A` and Hermitian weight 2 is the
    cosine: `A e^{iθ} + A e^{−iθ} = 2 A cos θ` (2-D forcing `−m s γ cos(m s x₁)`) -/
theorem kolmogorov_mode_is_cosine (A θ : ℝ) :
    (A : ℂ) * Complex.exp (Complex.I * θ) + (A : ℂ) * Complex.exp (-(Complex.I * θ))
      = ((2 * A * Real.cos θ : ℝ) : ℂ) := by
  have hcos : Complex.cos (θ : ℂ)
      = (Complex.exp (Complex.I * θ) + Complex.exp (-(Complex.I * θ))) / 2 := by
    rw [Complex.cos]; congr 3 <;> ring
  push_cast
  rw [hcos]; ring

/-- the coefficient-extraction scaling at a 3-D mode, in terms of the integer wavenumbers -/
theorem scaling_coef_extraction_3d (c : Cfg ℂ) (hD : c.D = 3) (h : ℕ) :
    (scaling c.D c.N 2 (unflatten (wavenumberShape c.D c.N) h) : ℂ)
      = axisScale c.N 2 false (kInt c 0 h) * axisScale c.N 2 false (kInt c 1 h)
          * axisScale c.N 2 true (kInt c 2 h) := by
  obtain ⟨D, N, s, fp, fq⟩ := c
  simp only at hD
  subst hD
  simp [scaling, kInt, wnFlat, wnVec, prodList, List.range_succ]

theorem scaling_coef_extraction_2d (c : Cfg ℂ) (hD : c.D = 2) (h : ℕ) :
    (scaling c.D c.N 2 (unflatten (wavenumberShape c.D c.N) h) : ℂ)
      = axisScale c.N 2 false (kInt c 0 h) * axisScale c.N 2 true (kInt c 1 h) := by
  obtain ⟨D, N, s, fp, fq⟩ := c
  simp only at hD
  subst hD
  simp [scaling, kInt, wnFlat, wnVec, prodList, List.range_succ]

/-- at `(0, ±m, 0)` with `0 < m < N/2` the coefficient-extraction scaling is `N · (N/2) · N = N³/2` -/
theorem scaling_at_kolmogorov_3d (c : Cfg ℂ) (hD : c.D = 3) (h : ℕ) (m : ℕ) (hm : 0 < m) (hmN : 2 * m < c.N)
    (hk0 : kInt c 0 h = 0) (hk2 : kInt c 2 h = 0) (hk1 : kInt c 1 h = (m : ℤ) ∨ kInt c 1 h = -(m : ℤ)) :
    (scaling c.D c.N 2 (unflatten (wavenumberShape c.D c.N) h) : ℂ) = (c.N : ℂ) * ((c.N : ℂ) / 2) * (c.N : ℂ) := by
  rw [scaling_coef_extraction_3d c hD h, hk0, hk2]
  have hf : Int.fdiv (-(c.N : ℤ)) 2 = (-(c.N : ℤ)) / 2 := Int.fdiv_eq_ediv_of_nonneg _ (by norm_num)
  have hns : isSpecial c.N false (kInt c 1 h) = false := by
    simp only [isSpecial, Bool.or_eq_false_iff, Bool.and_eq_false_iff, beq_eq_false_iff_ne, Bool.false_eq_true, if_false]
    rcases hk1 with hk1 | hk1 <;> rw [hk1, hf] <;> refine ⟨by omega, Or.inr (by omega)⟩
  have h0 : ∀ b, isSpecial c.N b 0 = true := fun b => by simp [isSpecial]
  simp only [axisScale, hns, h0, if_true, lit_eq]
  simp

/-- at the stored 2-D mode `(0, m)` with `0 < m < N/2` the coefficient-extraction scaling is `N · (N/2) = N²/2` -/
theorem scaling_at_kolmogorov_2d (c : Cfg ℂ) (hD : c.D = 2) (h : ℕ) (m : ℕ) (hm : 0 < m) (hmN : 2 * m < c.N)
    (hk0 : kInt c 0 h = 0) (hk1 : kInt c 1 h = (m : ℤ)) :
    (scaling c.D c.N 2 (unflatten (wavenumberShape c.D c.N) h) : ℂ) = (c.N : ℂ) * ((c.N : ℂ) / 2) := by
  rw [scaling_coef_extraction_2d c hD h, hk0, hk1]
  have hns : isSpecial c.N true (m : ℤ) = false := by
    simp only [isSpecial, Bool.or_eq_false_iff, Bool.and_eq_false_iff, beq_eq_false_iff_ne, if_true]
    by_cases he : c.N % 2 = 0
    · exact ⟨by omega, Or.inr (by omega)⟩
    · exact ⟨by omega, Or.inl he⟩
  have h0 : ∀ b, isSpecial c.N b 0 = true := fun b => by simp [isSpecial]
  simp only [axisScale, hns, h0, if_true, lit_eq]
  simp

/-- 2-D Kolmogorov forcing, fully evaluated: at `k = (0, m)`, `0 < m < N/2`, the injected coefficient is
    `−(m s)·γ·N²/2`, the rfft coefficient of `−m s γ cos(m s x₁)` on the `N²` grid -/
theorem vorticity2d_injection_value (c : Cfg ℂ) (s : ℝ) (hs : c.s = (s : ℂ)) (hD : c.D = 2) (scale : ℂ) (m : ℕ)
    (gam : ℂ) (uh : MC ℂ) (h : ℕ) (hh : h < modes c) (hm : 0 < m) (hmN : 2 * m < c.N)
    (hk0 : kInt c 0 h = 0) (hk1 : kInt c 1 h = (m : ℤ)) :
    at2 (vorticity2d c scale (some (m, gam)) uh) 0 h - at2 (vorticity2d c scale none uh) 0 h
      = -(((m : ℝ) * s : ℝ) : ℂ) * gam * ((c.N : ℂ) * ((c.N : ℂ) / 2)) := by
  rw [vorticity2d_injection_documented c s hs scale m gam uh h hh, if_pos ⟨hk0, hk1⟩,
    scaling_at_kolmogorov_2d c hD h m hm hmN hk0 hk1]

/-- 3-D Kolmogorov forcing, fully evaluated: on channel `0`, `0 < m < N/2`, the injected coefficients are
    `−i·γ·N³/2` at `(0, m, 0)` and `+i·γ·N³/2` at `(0, −m, 0)`: the fft coefficients of `γ sin(m s x₁)` on the
    `N³` grid (`kolmogorov_pair_is_sine` with `a = γ N³/2`) -/
theorem projected3d_injection_value (c : Cfg ℂ) (hD : c.D = 3) (m : ℕ) (gam : ℂ) (uh : MC ℂ) (h : ℕ)
    (hh : h < modes c) (hm : 0 < m) (hmN : 2 * m < c.N) (hk0 : kInt c 0 h = 0) (hk2 : kInt c 2 h = 0) :
    (kInt c 1 h = (m : ℤ) →
      at2 (projected3d c (some (m, gam)) uh) 0 h - at2 (projected3d c none uh) 0 h
        = -Complex.I * gam * ((c.N : ℂ) * ((c.N : ℂ) / 2) * (c.N : ℂ))) ∧
    (kInt c 1 h = -(m : ℤ) →
      at2 (projected3d c (some (m, gam)) uh) 0 h - at2 (projected3d c none uh) 0 h
        = Complex.I * gam * ((c.N : ℂ) * ((c.N : ℂ) / 2) * (c.N : ℂ))) := by
  constructor
  · intro hk1
    rw [projected3d_injection_documented c m gam uh 0 h (by norm_num) hh, if_pos ⟨rfl, hk0, hk2, hk1⟩,
      scaling_at_kolmogorov_3d c hD h m hm hmN hk0 hk2 (Or.inl hk1)]
  · intro hk1
    have hne : ¬ (0 = 0 ∧ kInt c 0 h = 0 ∧ kInt c 2 h = 0 ∧ kInt c 1 h = (m : ℤ)) := by
      rintro ⟨_, _, _, h1⟩; omega
    rw [projected3d_injection_documented c m gam uh 0 h (by norm_num) hh, if_neg hne, if_pos ⟨rfl, hk0, hk2, hk1⟩,
      scaling_at_kolmogorov_3d c hD h m hm hmN hk0 hk2 (Or.inr hk1)]

/-! ### the spectral curl used by `projected3d` is divergence-free (P2(b) at the derivative vector) -/

theorem curl_div_free (c : Cfg ℂ) (hD : c.D = 3) (h : ℕ) (u : ℂ × ℂ × ℂ) :
    vecDiv c h (proj3 (Gen.Misc.cross_product_3d (deriv c 0 h, deriv c 1 h, deriv c 2 h) u)) = 0 := by
  rw [vecDiv, hD, Finset.sum_range_succ, Finset.sum_range_succ, Finset.sum_range_one]
  have := Cross.dot_cross_self_left (deriv c 0 h, deriv c 1 h, deriv c 2 h) u
  simp only [Cross.dot3] at this
  simpa [proj3] using this

/-! ### non-vacuity: the hypotheses used above are satisfiable -/

example : ∃ (c : Cfg ℂ) (s : ℝ), c.s = (s : ℂ) ∧ s ≠ 0 ∧ c.D = 3 ∧ c.D ≤ 3 ∧ 0 < modes c :=
  ⟨⟨3, 4, ((1 : ℝ) : ℂ), 2, 3⟩, 1, rfl, one_ne_zero, rfl, le_refl _, by decide⟩

example : ∃ (c : Cfg ℂ) (s : ℝ), c.s = (s : ℂ) ∧ s ≠ 0 ∧ c.D = 2 ∧ 1 < modes c ∧
    ¬ ∀ d, d < c.D → kInt c d 1 = 0 :=
  ⟨⟨2, 4, ((1 : ℝ) : ℂ), 2, 3⟩, 1, rfl, one_ne_zero, rfl, by decide, fun hk => by
    have := hk 1 (by decide)
    revert this
    decide⟩

end Exponax.Nonlin
