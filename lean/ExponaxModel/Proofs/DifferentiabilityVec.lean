import ExponaxModel.Proofs.Differentiability
import Mathlib.Analysis.Calculus.FDeriv.Add
import Mathlib.Analysis.Calculus.FDeriv.Comp
import Mathlib.Analysis.Calculus.FDeriv.Pi
import Mathlib.Analysis.Calculus.FDeriv.Mul
import Mathlib.Analysis.Normed.Operator.Mul
import Mathlib.Analysis.Normed.Ring.Lemmas
/-
C07 support — F1, vector form.

`V` is any normed ring that is a normed algebra over `𝕜` (not necessarily commutative, not necessarily
finite-dimensional); the model case is `V = ι → ℂ` (`ι` finite: all stored modes / all grid values) with
pointwise operations, which is how `E?step` acts on whole arrays.  The nonlinear term `N : V → V` is
Fréchet differentiable at the points visited, `N' x : V →L[𝕜] V`.  `mulL c` is the continuous linear map
`x ↦ c * x`.

  * `E1stepV_hasFDerivAt … E4stepV_hasFDerivAt` : one step, derivative by the chain rule
  * `iterate_hasFDerivAt`                        : rollouts, derivative = ordered composition
  * `pointwisePoly_hasFDerivAt`                  : the pointwise polynomial on `ι → 𝕜` is Fréchet
                                                   differentiable with the diagonal derivative
  * `E4_pointwisePoly_rollout_hasFDerivAt`       : ETDRK4 rollouts on arrays with that nonlinearity
-/
set_option linter.unusedVariables false
namespace Exponax.Diff
open Exponax Exponax.Gen.Etdrk Exponax.Nonlin Finset

section Vec
variable {𝕜 : Type} [NontriviallyNormedField 𝕜] {V : Type} [NormedRing V] [NormedAlgebra 𝕜 V]

/-- left multiplication by a fixed element as a continuous linear map -/
noncomputable def mulL (c : V) : V →L[𝕜] V := ContinuousLinearMap.mul 𝕜 V c

@[simp] theorem mulL_apply (c x : V) : (mulL (𝕜 := 𝕜) c) x = c * x := rfl

theorem hasFDerivAt_mulL (c u : V) : HasFDerivAt (fun x : V => c * x) (mulL (𝕜 := 𝕜) c) u :=
  (mulL (𝕜 := 𝕜) c).hasFDerivAt

theorem _root_.HasFDerivAt.const_mulL {f : V → V} {f' : V →L[𝕜] V} {u : V} (c : V) (hf : HasFDerivAt f f' u) :
    HasFDerivAt (fun x => c * f x) ((mulL (𝕜 := 𝕜) c).comp f') u :=
  HasFDerivAt.comp u (hasFDerivAt_mulL (𝕜 := 𝕜) c (f u)) hf

/-- **F1 (vector, ETDRK0).** -/
theorem E0stepV_hasFDerivAt (E u : V) : HasFDerivAt (E0step E) (mulL (𝕜 := 𝕜) E) u :=
  hasFDerivAt_mulL E u

/-- **F1 (vector, ETDRK1).** `D(E1step)(u) = E· + c₁·N'(u)` -/
theorem E1stepV_hasFDerivAt (E c1 : V) (N : V → V) (u : V) (N'u : V →L[𝕜] V) (hN : HasFDerivAt N N'u u) :
    HasFDerivAt (E1step E c1 N) (mulL E + (mulL c1).comp N'u) u :=
  (hasFDerivAt_mulL (𝕜 := 𝕜) E u).add (hN.const_mulL c1)

/-- **F1 (vector, ETDRK2).** with `A' = E· + c₁·N'(u)`: `D(E2step)(u) = A' + c₂·(N'(a) ∘ A' − N'(u))` -/
theorem E2stepV_hasFDerivAt (E c1 c2 : V) (N : V → V) (u : V) (N'u N'a : V →L[𝕜] V)
    (hu : HasFDerivAt N N'u u) (ha : HasFDerivAt N N'a (E * u + c1 * N u)) :
    HasFDerivAt (E2step E c1 c2 N)
      ((mulL E + (mulL c1).comp N'u)
        + (mulL c2).comp (N'a.comp (mulL E + (mulL c1).comp N'u) - N'u)) u := by
  have h1 : HasFDerivAt (fun x : V => E * x + c1 * N x) (mulL E + (mulL c1).comp N'u) u :=
    E1stepV_hasFDerivAt E c1 N u N'u hu
  have h2 : HasFDerivAt (fun x : V => N (E * x + c1 * N x))
      (N'a.comp (mulL E + (mulL c1).comp N'u)) u := HasFDerivAt.comp u ha h1
  exact h1.add ((h2.sub hu).const_mulL c2)

/-! ### ETDRK3 / ETDRK4: stage values and stage derivatives -/

/-- `a = E_h u + c₁ N(u)` -/
def stageAV (Eh c1 : V) (N : V → V) (u : V) : V := Eh * u + c1 * N u
/-- `A' = E_h· + c₁·N'(u)` -/
noncomputable def stageAV' (Eh c1 : V) (N' : V → V →L[𝕜] V) (u : V) : V →L[𝕜] V :=
  mulL Eh + (mulL c1).comp (N' u)

/-- ETDRK3 `b = E u + c₂ (2 N(a) − N(u))` -/
def E3stageBV (E Eh c1 c2 : V) (N : V → V) (u : V) : V :=
  E * u + c2 * (2 * N (stageAV Eh c1 N u) - N u)
noncomputable def E3stageBV' (E Eh c1 c2 : V) (N : V → V) (N' : V → V →L[𝕜] V) (u : V) : V →L[𝕜] V :=
  mulL E + (mulL c2).comp
    ((mulL 2).comp ((N' (stageAV Eh c1 N u)).comp (stageAV' Eh c1 N' u)) - N' u)

/-- the Fréchet derivative of one ETDRK3 step -/
noncomputable def E3stepV' (E Eh c1 c2 c3 c4 c5 : V) (N : V → V) (N' : V → V →L[𝕜] V) (u : V) :
    V →L[𝕜] V :=
  mulL E + (mulL c3).comp (N' u)
    + (mulL c4).comp ((N' (stageAV Eh c1 N u)).comp (stageAV' Eh c1 N' u))
    + (mulL c5).comp ((N' (E3stageBV E Eh c1 c2 N u)).comp (E3stageBV' E Eh c1 c2 N N' u))

theorem E3stepV_eq_stages (E Eh c1 c2 c3 c4 c5 : V) (N : V → V) (u : V) :
    E3step E Eh c1 c2 c3 c4 c5 N u
      = E * u + c3 * N u + c4 * N (stageAV Eh c1 N u) + c5 * N (E3stageBV E Eh c1 c2 N u) := by
  simp only [E3step, E3stageBV, stageAV, lit_eq, Nat.cast_ofNat]

/-- ETDRK4 `b = E_h u + c₂ N(a)` -/
def E4stageBV (Eh c1 c2 : V) (N : V → V) (u : V) : V := Eh * u + c2 * N (stageAV Eh c1 N u)
noncomputable def E4stageBV' (Eh c1 c2 : V) (N : V → V) (N' : V → V →L[𝕜] V) (u : V) : V →L[𝕜] V :=
  mulL Eh + (mulL c2).comp ((N' (stageAV Eh c1 N u)).comp (stageAV' Eh c1 N' u))

/-- ETDRK4 `c = E_h a + c₃ (2 N(b) − N(u))` -/
def E4stageCV (Eh c1 c2 c3 : V) (N : V → V) (u : V) : V :=
  Eh * stageAV Eh c1 N u + c3 * (2 * N (E4stageBV Eh c1 c2 N u) - N u)
noncomputable def E4stageCV' (Eh c1 c2 c3 : V) (N : V → V) (N' : V → V →L[𝕜] V) (u : V) : V →L[𝕜] V :=
  (mulL Eh).comp (stageAV' Eh c1 N' u)
    + (mulL c3).comp
      ((mulL 2).comp ((N' (E4stageBV Eh c1 c2 N u)).comp (E4stageBV' Eh c1 c2 N N' u)) - N' u)

/-- the Fréchet derivative of one ETDRK4 step -/
noncomputable def E4stepV' (E Eh c1 c2 c3 c4 c5 c6 : V) (N : V → V) (N' : V → V →L[𝕜] V) (u : V) :
    V →L[𝕜] V :=
  mulL E + (mulL c4).comp (N' u)
    + (mulL (c5 * 2)).comp
      ((N' (stageAV Eh c1 N u)).comp (stageAV' Eh c1 N' u)
        + (N' (E4stageBV Eh c1 c2 N u)).comp (E4stageBV' Eh c1 c2 N N' u))
    + (mulL c6).comp ((N' (E4stageCV Eh c1 c2 c3 N u)).comp (E4stageCV' Eh c1 c2 c3 N N' u))

theorem E4stepV_eq_stages (E Eh c1 c2 c3 c4 c5 c6 : V) (N : V → V) (u : V) :
    E4step E Eh c1 c2 c3 c4 c5 c6 N u
      = E * u + c4 * N u + c5 * 2 * (N (stageAV Eh c1 N u) + N (E4stageBV Eh c1 c2 N u))
        + c6 * N (E4stageCV Eh c1 c2 c3 N u) := by
  simp only [E4step, E4stageCV, E4stageBV, stageAV, lit_eq, Nat.cast_ofNat]

section Stages
variable (E Eh c1 c2 c3 c4 c5 c6 : V) (N : V → V) (N' : V → V →L[𝕜] V) (u : V)

theorem stageAV_hasFDerivAt (hu : HasFDerivAt N (N' u) u) :
    HasFDerivAt (stageAV Eh c1 N) (stageAV' Eh c1 N' u) u :=
  E1stepV_hasFDerivAt Eh c1 N u (N' u) hu

theorem E3stageBV_hasFDerivAt (hu : HasFDerivAt N (N' u) u)
    (ha : HasFDerivAt N (N' (stageAV Eh c1 N u)) (stageAV Eh c1 N u)) :
    HasFDerivAt (E3stageBV E Eh c1 c2 N) (E3stageBV' E Eh c1 c2 N N' u) u := by
  have hA := stageAV_hasFDerivAt Eh c1 N N' u hu
  have hNa : HasFDerivAt (fun x => N (stageAV Eh c1 N x))
      ((N' (stageAV Eh c1 N u)).comp (stageAV' Eh c1 N' u)) u := HasFDerivAt.comp u ha hA
  exact (hasFDerivAt_mulL (𝕜 := 𝕜) E u).add (((hNa.const_mulL (2 : V)).sub hu).const_mulL c2)

/-- **F1 (vector, ETDRK3).** -/
theorem E3stepV_hasFDerivAt (hu : HasFDerivAt N (N' u) u)
    (ha : HasFDerivAt N (N' (stageAV Eh c1 N u)) (stageAV Eh c1 N u))
    (hb : HasFDerivAt N (N' (E3stageBV E Eh c1 c2 N u)) (E3stageBV E Eh c1 c2 N u)) :
    HasFDerivAt (E3step E Eh c1 c2 c3 c4 c5 N) (E3stepV' E Eh c1 c2 c3 c4 c5 N N' u) u := by
  have hA := stageAV_hasFDerivAt Eh c1 N N' u hu
  have hB := E3stageBV_hasFDerivAt E Eh c1 c2 N N' u hu ha
  have hNa : HasFDerivAt (fun x => N (stageAV Eh c1 N x))
      ((N' (stageAV Eh c1 N u)).comp (stageAV' Eh c1 N' u)) u := HasFDerivAt.comp u ha hA
  have hNb : HasFDerivAt (fun x => N (E3stageBV E Eh c1 c2 N x))
      ((N' (E3stageBV E Eh c1 c2 N u)).comp (E3stageBV' E Eh c1 c2 N N' u)) u :=
    HasFDerivAt.comp u hb hB
  have h := (((hasFDerivAt_mulL (𝕜 := 𝕜) E u).add (hu.const_mulL c3)).add (hNa.const_mulL c4)).add
    (hNb.const_mulL c5)
  have e : E3step E Eh c1 c2 c3 c4 c5 N
      = fun x => E * x + c3 * N x + c4 * N (stageAV Eh c1 N x) + c5 * N (E3stageBV E Eh c1 c2 N x) :=
    funext (E3stepV_eq_stages E Eh c1 c2 c3 c4 c5 N)
  rw [e]
  exact h

theorem E4stageBV_hasFDerivAt (hu : HasFDerivAt N (N' u) u)
    (ha : HasFDerivAt N (N' (stageAV Eh c1 N u)) (stageAV Eh c1 N u)) :
    HasFDerivAt (E4stageBV Eh c1 c2 N) (E4stageBV' Eh c1 c2 N N' u) u := by
  have hA := stageAV_hasFDerivAt Eh c1 N N' u hu
  have hNa : HasFDerivAt (fun x => N (stageAV Eh c1 N x))
      ((N' (stageAV Eh c1 N u)).comp (stageAV' Eh c1 N' u)) u := HasFDerivAt.comp u ha hA
  exact (hasFDerivAt_mulL (𝕜 := 𝕜) Eh u).add (hNa.const_mulL c2)

theorem E4stageCV_hasFDerivAt (hu : HasFDerivAt N (N' u) u)
    (ha : HasFDerivAt N (N' (stageAV Eh c1 N u)) (stageAV Eh c1 N u))
    (hb : HasFDerivAt N (N' (E4stageBV Eh c1 c2 N u)) (E4stageBV Eh c1 c2 N u)) :
    HasFDerivAt (E4stageCV Eh c1 c2 c3 N) (E4stageCV' Eh c1 c2 c3 N N' u) u := by
  have hA := stageAV_hasFDerivAt Eh c1 N N' u hu
  have hB := E4stageBV_hasFDerivAt Eh c1 c2 N N' u hu ha
  have hNb : HasFDerivAt (fun x => N (E4stageBV Eh c1 c2 N x))
      ((N' (E4stageBV Eh c1 c2 N u)).comp (E4stageBV' Eh c1 c2 N N' u)) u := HasFDerivAt.comp u hb hB
  exact (hA.const_mulL Eh).add (((hNb.const_mulL (2 : V)).sub hu).const_mulL c3)

/-- **F1 (vector, ETDRK4).** existence of the Fréchet derivative, expressed by `ContinuousLinearMap`s -/
theorem E4stepV_hasFDerivAt (hu : HasFDerivAt N (N' u) u)
    (ha : HasFDerivAt N (N' (stageAV Eh c1 N u)) (stageAV Eh c1 N u))
    (hb : HasFDerivAt N (N' (E4stageBV Eh c1 c2 N u)) (E4stageBV Eh c1 c2 N u))
    (hc : HasFDerivAt N (N' (E4stageCV Eh c1 c2 c3 N u)) (E4stageCV Eh c1 c2 c3 N u)) :
    HasFDerivAt (E4step E Eh c1 c2 c3 c4 c5 c6 N) (E4stepV' E Eh c1 c2 c3 c4 c5 c6 N N' u) u := by
  have hA := stageAV_hasFDerivAt Eh c1 N N' u hu
  have hB := E4stageBV_hasFDerivAt Eh c1 c2 N N' u hu ha
  have hC := E4stageCV_hasFDerivAt Eh c1 c2 c3 N N' u hu ha hb
  have hNa : HasFDerivAt (fun x => N (stageAV Eh c1 N x))
      ((N' (stageAV Eh c1 N u)).comp (stageAV' Eh c1 N' u)) u := HasFDerivAt.comp u ha hA
  have hNb : HasFDerivAt (fun x => N (E4stageBV Eh c1 c2 N x))
      ((N' (E4stageBV Eh c1 c2 N u)).comp (E4stageBV' Eh c1 c2 N N' u)) u := HasFDerivAt.comp u hb hB
  have hNc : HasFDerivAt (fun x => N (E4stageCV Eh c1 c2 c3 N x))
      ((N' (E4stageCV Eh c1 c2 c3 N u)).comp (E4stageCV' Eh c1 c2 c3 N N' u)) u :=
    HasFDerivAt.comp u hc hC
  have h := (((hasFDerivAt_mulL (𝕜 := 𝕜) E u).add (hu.const_mulL c4)).add
    ((hNa.add hNb).const_mulL (c5 * 2))).add (hNc.const_mulL c6)
  have e : E4step E Eh c1 c2 c3 c4 c5 c6 N
      = fun x => E * x + c4 * N x + c5 * 2 * (N (stageAV Eh c1 N x) + N (E4stageBV Eh c1 c2 N x))
          + c6 * N (E4stageCV Eh c1 c2 c3 N x) :=
    funext (E4stepV_eq_stages E Eh c1 c2 c3 c4 c5 c6 N)
  rw [e]
  exact h

/-- existence only -/
theorem E4stepV_differentiableAt (hu : HasFDerivAt N (N' u) u)
    (ha : HasFDerivAt N (N' (stageAV Eh c1 N u)) (stageAV Eh c1 N u))
    (hb : HasFDerivAt N (N' (E4stageBV Eh c1 c2 N u)) (E4stageBV Eh c1 c2 N u))
    (hc : HasFDerivAt N (N' (E4stageCV Eh c1 c2 c3 N u)) (E4stageCV Eh c1 c2 c3 N u)) :
    DifferentiableAt 𝕜 (E4step E Eh c1 c2 c3 c4 c5 c6 N) u :=
  (E4stepV_hasFDerivAt E Eh c1 c2 c3 c4 c5 c6 N N' u hu ha hb hc).differentiableAt

end Stages
end Vec

/-! ### rollouts -/

section Iterate
variable {𝕜 : Type} [NontriviallyNormedField 𝕜] {X : Type} [NormedAddCommGroup X] [NormedSpace 𝕜 X]

/-- ordered composition of the per-step derivatives along the orbit:
    `S'(S^[n-1] u) ∘ … ∘ S'(S u) ∘ S'(u)` -/
noncomputable def iterFDeriv (S : X → X) (S' : X → X →L[𝕜] X) (u : X) : ℕ → X →L[𝕜] X
  | 0 => ContinuousLinearMap.id 𝕜 X
  | n + 1 => (S' (S^[n] u)).comp (iterFDeriv S S' u n)

/-- **F1 (vector rollout).** chain rule over `Function.iterate` -/
theorem iterate_hasFDerivAt (S : X → X) (S' : X → X →L[𝕜] X) (u : X) (n : ℕ)
    (h : ∀ k < n, HasFDerivAt S (S' (S^[k] u)) (S^[k] u)) :
    HasFDerivAt (S^[n]) (iterFDeriv S S' u n) u := by
  induction n with
  | zero => exact hasFDerivAt_id u
  | succ n ih =>
    have ih' := ih (fun k hk => h k (Nat.lt_succ_of_lt hk))
    have hn := h n (Nat.lt_succ_self n)
    rw [Function.iterate_succ']
    exact HasFDerivAt.comp u hn ih'

end Iterate

section VecRollout
variable {𝕜 : Type} [NontriviallyNormedField 𝕜] {V : Type} [NormedRing V] [NormedAlgebra 𝕜 V]

/-- **F1 (vector, ETDRK4 rollout)** for an everywhere Fréchet-differentiable nonlinear term -/
theorem E4V_rollout_hasFDerivAt (E Eh c1 c2 c3 c4 c5 c6 : V) (N : V → V) (N' : V → V →L[𝕜] V)
    (hN : ∀ x, HasFDerivAt N (N' x) x) (u : V) (n : ℕ) :
    HasFDerivAt ((E4step E Eh c1 c2 c3 c4 c5 c6 N)^[n])
      (iterFDeriv (E4step E Eh c1 c2 c3 c4 c5 c6 N) (E4stepV' E Eh c1 c2 c3 c4 c5 c6 N N') u n) u :=
  iterate_hasFDerivAt _ _ u n
    (fun k _ => E4stepV_hasFDerivAt E Eh c1 c2 c3 c4 c5 c6 N N' _ (hN _) (hN _) (hN _) (hN _))

theorem E3V_rollout_hasFDerivAt (E Eh c1 c2 c3 c4 c5 : V) (N : V → V) (N' : V → V →L[𝕜] V)
    (hN : ∀ x, HasFDerivAt N (N' x) x) (u : V) (n : ℕ) :
    HasFDerivAt ((E3step E Eh c1 c2 c3 c4 c5 N)^[n])
      (iterFDeriv (E3step E Eh c1 c2 c3 c4 c5 N) (E3stepV' E Eh c1 c2 c3 c4 c5 N N') u n) u :=
  iterate_hasFDerivAt _ _ u n
    (fun k _ => E3stepV_hasFDerivAt E Eh c1 c2 c3 c4 c5 N N' _ (hN _) (hN _) (hN _))

theorem E1V_rollout_hasFDerivAt (E c1 : V) (N : V → V) (N' : V → V →L[𝕜] V)
    (hN : ∀ x, HasFDerivAt N (N' x) x) (u : V) (n : ℕ) :
    HasFDerivAt ((E1step E c1 N)^[n])
      (iterFDeriv (E1step E c1 N) (fun x => mulL E + (mulL c1).comp (N' x)) u n) u :=
  iterate_hasFDerivAt _ _ u n (fun k _ => E1stepV_hasFDerivAt E c1 N _ _ (hN _))

end VecRollout

/-! ### the model case `V = ι → 𝕜` and the pointwise polynomial -/

section Pointwise
variable {𝕜 : Type} [NontriviallyNormedField 𝕜] {ι : Type} [Fintype ι]

/-- `PolynomialNonlinearFun` on physical values: the regenerated Horner loop applied entrywise -/
def pointwisePoly (cs : List 𝕜) (v : ι → 𝕜) : ι → 𝕜 := fun i => polyEval cs (v i)

/-- **F2 (vector).** the pointwise polynomial is Fréchet differentiable at every array (also the zero
    array) with the diagonal derivative `w ↦ (Σ k c_k v_i^{k-1}) · w_i` -/
theorem pointwisePoly_hasFDerivAt (cs : List 𝕜) (v : ι → 𝕜) :
    HasFDerivAt (pointwisePoly (ι := ι) cs) (mulL (𝕜 := 𝕜) (fun i => polyDeriv cs (v i))) v := by
  rw [hasFDerivAt_pi']
  intro i
  have h1 : HasFDerivAt (fun w : ι → 𝕜 => w i) (ContinuousLinearMap.proj (R := 𝕜) (φ := fun _ => 𝕜) i) v :=
    (ContinuousLinearMap.proj (R := 𝕜) (φ := fun _ => 𝕜) i).hasFDerivAt
  have h2 := (polyEval_hasDerivAt cs (v i)).hasFDerivAt
  have h3 := HasFDerivAt.comp v h2 h1
  have e : (ContinuousLinearMap.proj (R := 𝕜) (φ := fun _ => 𝕜) i).comp
        (mulL (𝕜 := 𝕜) (fun i => polyDeriv cs (v i)))
      = (ContinuousLinearMap.toSpanSingleton 𝕜 (polyDeriv cs (v i))).comp
          (ContinuousLinearMap.proj (R := 𝕜) (φ := fun _ => 𝕜) i) := by
    ext w
    simp [mul_comm]
  rw [e]
  exact h3

/-- at the zero array the derivative is multiplication by the linear coefficient `c₁` -/
theorem pointwisePoly_hasFDerivAt_zero (cs : List 𝕜) :
    HasFDerivAt (pointwisePoly (ι := ι) cs) (mulL (𝕜 := 𝕜) (fun _ : ι => cs.getD 1 0)) 0 := by
  have h := pointwisePoly_hasFDerivAt (ι := ι) cs 0
  simpa only [Pi.zero_apply, polyDeriv_zero] using h

/-- **F1 + F2 (arrays).** ETDRK4 rollouts acting on whole arrays (`V = ι → 𝕜`, pointwise coefficients) with
    the pointwise polynomial nonlinearity are Fréchet differentiable at every state -/
theorem E4_pointwisePoly_rollout_hasFDerivAt (E Eh c1 c2 c3 c4 c5 c6 : ι → 𝕜) (cs : List 𝕜) (u : ι → 𝕜)
    (n : ℕ) :
    HasFDerivAt ((E4step E Eh c1 c2 c3 c4 c5 c6 (pointwisePoly cs))^[n])
      (iterFDeriv (E4step E Eh c1 c2 c3 c4 c5 c6 (pointwisePoly cs))
        (E4stepV' (𝕜 := 𝕜) E Eh c1 c2 c3 c4 c5 c6 (pointwisePoly cs)
          (fun v => mulL (fun i => polyDeriv cs (v i)))) u n) u :=
  E4V_rollout_hasFDerivAt E Eh c1 c2 c3 c4 c5 c6 _ _ (pointwisePoly_hasFDerivAt cs) u n

/-- a pseudo-spectral nonlinear term `B ∘ P ∘ A` (`A`, `B` continuous linear: inverse / forward transform
    with masks, `P` pointwise) is Fréchet differentiable with derivative `B ∘ P'(A u) ∘ A` -/
theorem sandwich_hasFDerivAt {X Y : Type} [NormedAddCommGroup X] [NormedSpace 𝕜 X]
    [NormedAddCommGroup Y] [NormedSpace 𝕜 Y] (A : X →L[𝕜] Y) (B : Y →L[𝕜] X) (P : Y → Y)
    (P' : Y →L[𝕜] Y) (u : X) (hP : HasFDerivAt P P' (A u)) :
    HasFDerivAt (fun x => B (P (A x))) (B.comp (P'.comp A)) u :=
  HasFDerivAt.comp u B.hasFDerivAt (HasFDerivAt.comp u hP A.hasFDerivAt)

/-- non-vacuity of `sandwich_hasFDerivAt`: identity transforms around the pointwise polynomial -/
example (cs : List 𝕜) (u : ι → 𝕜) :
    DifferentiableAt 𝕜 (fun x : ι → 𝕜 => (ContinuousLinearMap.id 𝕜 (ι → 𝕜)) (pointwisePoly cs
      ((ContinuousLinearMap.id 𝕜 (ι → 𝕜)) x))) u :=
  (sandwich_hasFDerivAt (ContinuousLinearMap.id 𝕜 (ι → 𝕜)) (ContinuousLinearMap.id 𝕜 (ι → 𝕜))
    (pointwisePoly cs) _ u (pointwisePoly_hasFDerivAt cs _)).differentiableAt

end Pointwise

/-- the instance the model uses: arrays of `n` complex numbers -/
example (n : ℕ) (E Eh c1 c2 c3 c4 c5 c6 u : Fin n → ℂ) (cs : List ℂ) :
    DifferentiableAt ℂ (E4step E Eh c1 c2 c3 c4 c5 c6 (pointwisePoly cs)) u :=
  (E4_pointwisePoly_rollout_hasFDerivAt E Eh c1 c2 c3 c4 c5 c6 cs u 1).differentiableAt

end Exponax.Diff
