import ExponaxModel.Proofs.AliasConv
import ExponaxModel.Proofs.LerayBasic
/-
C03, part 2:

  A4  the model mask `Nonlin.mask` in 1-D as a cut at the largest retained wavenumber `Kc`;
      `3 Kc < N` for the fraction 2/3, `4 Kc < N` for the fraction 1/2,
  A5  the full DFT of `irfftnM 1 N c` for ANY stored half spectrum `c` (Hermitian completion),
      `nifft c ûh` is band-limited to `|m| ≤ Kc`, and for a reachable `ûh = rfftnM 1 N x`
      (`x` real) it is the band truncation `P_K x` of the state.
-/
namespace Exponax.Alias
open Exponax Exponax.Layout Exponax.Transform Exponax.DFT Exponax.Nonlin Finset

/-! ### A4 — the mask -/

/-- the largest retained wavenumber `⌊(fp·(N/2) − fq)/fq⌋` (an integer; negative when NO mode is
    retained, which happens for very small `N`) -/
def Kc (c : Cfg ℂ) : ℤ := ((c.fp : ℤ) * ((c.N / 2 : ℕ) : ℤ) - (c.fq : ℤ)) / (c.fq : ℤ)

theorem le_Kc_iff (c : Cfg ℂ) (hq : c.fq ≠ 0) (k : ℤ) :
    k ≤ Kc c ↔ k * (c.fq : ℤ) ≤ (c.fp : ℤ) * ((c.N / 2 : ℕ) : ℤ) - (c.fq : ℤ) := by
  unfold Kc
  exact Int.le_ediv_iff_mul_le (by exact_mod_cast Nat.pos_of_ne_zero hq)

/-- **A4 (mask, literal form).** in 1-D the mask at stored mode `h` is the indicator of
    `|h|·fq ≤ fp·(N/2) − fq` -/
theorem mask_one_eq (c : Cfg ℂ) (hD : c.D = 1) (hq : c.fq ≠ 0) (h : ℕ) :
    mask c h = if |(h : ℤ)| * (c.fq : ℤ) ≤ (c.fp : ℤ) * ((c.N / 2 : ℕ) : ℤ) - (c.fq : ℤ) then 1 else 0 := by
  unfold mask
  rw [if_neg hq, hD, wnFlat_one]
  have : dealiasMask c.N c.fp c.fq [(h : ℤ)] = true ↔
      |(h : ℤ)| * (c.fq : ℤ) ≤ (c.fp : ℤ) * ((c.N / 2 : ℕ) : ℤ) - (c.fq : ℤ) := by
    rw [dealiasMask_iff]; simp
  by_cases hm : dealiasMask c.N c.fp c.fq [(h : ℤ)] = true
  · rw [if_pos hm, if_pos (this.mp hm)]
  · rw [if_neg hm, if_neg (fun h' => hm (this.mpr h'))]

/-- **A4 (mask as a cut at `Kc`).** -/
theorem mask_one (c : Cfg ℂ) (hD : c.D = 1) (hq : c.fq ≠ 0) (h : ℕ) :
    mask c h = if (h : ℤ) ≤ Kc c then 1 else 0 := by
  rw [mask_one_eq c hD hq, abs_of_nonneg (by positivity : (0 : ℤ) ≤ (h : ℤ))]
  by_cases hk : (h : ℤ) ≤ Kc c
  · rw [if_pos hk, if_pos ((le_Kc_iff c hq _).mp hk)]
  · rw [if_neg hk, if_neg (fun h' => hk ((le_Kc_iff c hq _).mpr h'))]

theorem mask_retained (c : Cfg ℂ) (hD : c.D = 1) (hq : c.fq ≠ 0) (h : ℕ) (hk : (h : ℤ) ≤ Kc c) :
    mask c h = 1 := by rw [mask_one c hD hq, if_pos hk]

theorem mask_dropped (c : Cfg ℂ) (hD : c.D = 1) (hq : c.fq ≠ 0) (h : ℕ) (hk : ¬ (h : ℤ) ≤ Kc c) :
    mask c h = 0 := by rw [mask_one c hD hq, if_neg hk]

theorem mask_eq_one_iff (c : Cfg ℂ) (hD : c.D = 1) (hq : c.fq ≠ 0) (h : ℕ) :
    mask c h = 1 ↔ (h : ℤ) ≤ Kc c := by
  rw [mask_one c hD hq]
  split_ifs with hk <;> simp [hk]

theorem mask_eq_zero_iff (c : Cfg ℂ) (hD : c.D = 1) (hq : c.fq ≠ 0) (h : ℕ) :
    mask c h = 0 ↔ ¬ (h : ℤ) ≤ Kc c := by
  rw [mask_one c hD hq]
  split_ifs with hk <;> simp [hk]

/-- `Kc` satisfies the retention inequality itself -/
theorem Kc_mul_le (c : Cfg ℂ) (hq : c.fq ≠ 0) :
    Kc c * (c.fq : ℤ) ≤ (c.fp : ℤ) * ((c.N / 2 : ℕ) : ℤ) - (c.fq : ℤ) :=
  (le_Kc_iff c hq _).mp le_rfl

/-- **A4 (2/3 rule).** `3·Kc < N` (and `2·Kc < N`) -/
theorem Kc_two_thirds (c : Cfg ℂ) (hp : c.fp = 2) (hq : c.fq = 3) :
    3 * Kc c < (c.N : ℤ) ∧ 2 * Kc c < (c.N : ℤ) := by
  apply dealias_two_thirds_bound
  have := Kc_mul_le c (by omega)
  simpa [dealiasCutoff, hp, hq] using this

/-- **A4 (1/2 rule).** `4·Kc < N` -/
theorem Kc_half (c : Cfg ℂ) (hp : c.fp = 1) (hq : c.fq = 2) : 4 * Kc c < (c.N : ℤ) := by
  apply dealias_half_bound
  have := Kc_mul_le c (by omega)
  simpa [dealiasCutoff, hp, hq] using this

/-- any fraction `fp/fq ≤ 1`: the Nyquist mode is never retained, `2·Kc < N` -/
theorem Kc_two_lt (c : Cfg ℂ) (hq : c.fq ≠ 0) (hpq : c.fp ≤ c.fq) : 2 * Kc c < (c.N : ℤ) := by
  have h1 := Kc_mul_le c hq
  have hqpos : (0 : ℤ) < (c.fq : ℤ) := by exact_mod_cast Nat.pos_of_ne_zero hq
  have hpq' : (c.fp : ℤ) ≤ (c.fq : ℤ) := by exact_mod_cast hpq
  have hn : (0 : ℤ) ≤ ((c.N / 2 : ℕ) : ℤ) := by positivity
  have h2 : (c.fp : ℤ) * ((c.N / 2 : ℕ) : ℤ) ≤ (c.fq : ℤ) * ((c.N / 2 : ℕ) : ℤ) :=
    mul_le_mul_of_nonneg_right hpq' hn
  have h3 : (Kc c + 1) * (c.fq : ℤ) ≤ ((c.N / 2 : ℕ) : ℤ) * (c.fq : ℤ) := by linarith
  have h4 : Kc c + 1 ≤ ((c.N / 2 : ℕ) : ℤ) := le_of_mul_le_mul_right h3 hqpos
  omega

/-! ### cut-off form of the hypotheses (effective fractions)

The library evaluates `frac·(N//2) − 1` in binary64, so the retained band can be one smaller than the
rational one (e.g. `N = 49`, `frac = 2/3`: `14.999999999999998`, `K = 14` instead of `15`).  The
harness drives the model with the effective fraction `(K+1)/(N/2)`; the main theorems are therefore
stated with the cut-off hypotheses `3·Kc < N` / `4·Kc < N` (`…_of_cutoff`), and the lemmas below make
the float case a corollary of the documented fractions. -/

theorem two_Kc_lt_of_three (c : Cfg ℂ) (h3 : 3 * Kc c < (c.N : ℤ)) : 2 * Kc c < (c.N : ℤ) := by
  rcases lt_or_ge (Kc c) 0 with hneg | hpos <;> omega

theorem two_Kc_lt_of_four (c : Cfg ℂ) (h4 : 4 * Kc c < (c.N : ℤ)) : 2 * Kc c < (c.N : ℤ) := by
  rcases lt_or_ge (Kc c) 0 with hneg | hpos <;> omega

/-- monotonicity: a configuration on the same grid retaining no more modes inherits `3·Kc < N` -/
theorem Kc_mono (c c' : Cfg ℂ) (hN : c'.N = c.N) (hle : Kc c' ≤ Kc c)
    (h3 : 3 * Kc c < (c.N : ℤ)) : 3 * Kc c' < (c'.N : ℤ) := by
  rw [hN]; omega

/-- monotonicity: … and `4·Kc < N` -/
theorem Kc_mono_four (c c' : Cfg ℂ) (hN : c'.N = c.N) (hle : Kc c' ≤ Kc c)
    (h4 : 4 * Kc c < (c.N : ℤ)) : 4 * Kc c' < (c'.N : ℤ) := by
  rw [hN]; omega

/-- the effective fraction `(K+1)/(N/2)` retains exactly the wavenumbers `≤ K` -/
theorem Kc_of_effective (c : Cfg ℂ) (K : ℕ) (hp : c.fp = K + 1) (hq : c.fq = c.N / 2)
    (hN : 0 < c.N / 2) : Kc c = (K : ℤ) := by
  unfold Kc
  rw [hp, hq]
  have hpos : ((c.N / 2 : ℕ) : ℤ) ≠ 0 := by exact_mod_cast hN.ne'
  have : (((K + 1 : ℕ) : ℤ)) * ((c.N / 2 : ℕ) : ℤ) - ((c.N / 2 : ℕ) : ℤ)
      = (K : ℤ) * ((c.N / 2 : ℕ) : ℤ) := by push_cast; ring
  rw [this, Int.mul_ediv_cancel _ hpos]

/-- the float-derived band of the 2/3 rule: an effective configuration whose `K` does not exceed the
    rational `Kc` of the documented fraction 2/3 on the same grid satisfies `3·Kc < N` -/
theorem Kc_effective_two_thirds (c' : Cfg ℂ) (K : ℕ) (hp : c'.fp = K + 1) (hq : c'.fq = c'.N / 2)
    (hN : 0 < c'.N / 2) (hK : (K : ℤ) * 3 ≤ 2 * ((c'.N / 2 : ℕ) : ℤ) - 3) :
    3 * Kc c' < (c'.N : ℤ) := by
  rw [Kc_of_effective c' K hp hq hN]; omega

/-- the float-derived band of the 1/2 rule -/
theorem Kc_effective_half (c' : Cfg ℂ) (K : ℕ) (hp : c'.fp = K + 1) (hq : c'.fq = c'.N / 2)
    (hN : 0 < c'.N / 2) (hK : (K : ℤ) * 2 ≤ ((c'.N / 2 : ℕ) : ℤ) - 2) :
    4 * Kc c' < (c'.N : ℤ) := by
  rw [Kc_of_effective c' K hp hq hN]; omega

/-! ### A5 — the full DFT of `irfftnM 1 N c` for any stored half spectrum `c` -/

/-- **A5 (what the c2r transform does).** For ANY array `c` of stored coefficients the full DFT of
    the real field `irfftnM 1 N c` is the Hermitian completion of `c`: stored mode `h` contributes
    `w_h/2 · c_h` to the wavenumbers `≡ h` and `w_h/2 · conj c_h` to the wavenumbers `≡ −h`. -/
theorem dft_irfft (N : ℕ) (hN : 0 < N) (c : Array ℂ) (m : ℤ) :
    dft N (irfftnM 1 N c) m
      = ∑ h ∈ range (N / 2 + 1), ((herm_weight 1 N h : ℂ) / 2) *
          (c.getD h 0 * (if (N : ℤ) ∣ m - (h : ℤ) then 1 else 0)
            + (starRingEnd ℂ) (c.getD h 0) * (if (N : ℤ) ∣ m + (h : ℤ) then 1 else 0)) := by
  have hNne : (N : ℂ) ≠ 0 := by exact_mod_cast hN.ne'
  unfold dft
  have hj : ∀ j ∈ range N, (irfftnM 1 N c).getD j 0 * zeta N ^ (m * (j : ℤ))
      = ∑ h ∈ range (N / 2 + 1), ((herm_weight 1 N h : ℂ) / 2) / (N : ℂ) *
          (c.getD h 0 * zeta N ^ ((m - (h : ℤ)) * (j : ℤ))
            + (starRingEnd ℂ) (c.getD h 0) * zeta N ^ ((m + (h : ℤ)) * (j : ℤ))) := by
    intro j hj
    rw [irfft1_getD N hN c j (Finset.mem_range.mp hj), div_mul_eq_mul_div, Finset.sum_mul,
      Finset.sum_div]
    apply Finset.sum_congr rfl
    intro h _
    rw [Complex.re_eq_add_conj, map_mul, conj_zeta_zpow, neg_neg,
      show (m - (h : ℤ)) * (j : ℤ) = -((h : ℤ) * (j : ℤ)) + m * (j : ℤ) by ring,
      show (m + (h : ℤ)) * (j : ℤ) = (h : ℤ) * (j : ℤ) + m * (j : ℤ) by ring,
      zpow_add₀ (zeta_ne_zero N), zpow_add₀ (zeta_ne_zero N)]
    field_simp
  rw [Finset.sum_congr rfl hj, Finset.sum_comm]
  apply Finset.sum_congr rfl
  intro h _
  rw [← Finset.mul_sum, Finset.sum_add_distrib, ← Finset.mul_sum, ← Finset.mul_sum,
    zeta_sum_zpow N hN, zeta_sum_zpow N hN]
  split_ifs <;> field_simp <;> ring

/-! ### A5 — `nifft` in 1-D -/

theorem modes_one (c : Cfg ℂ) (hD : c.D = 1) : modes c = c.N / 2 + 1 := by
  unfold modes; rw [hD, numModes_one]

theorem gridSize_one (c : Cfg ℂ) (hD : c.D = 1) : gridSize c = c.N := by
  unfold gridSize; rw [hD, pow_one]

/-- the masked half spectrum fed to the inverse transform -/
theorem nifft_one (c : Cfg ℂ) (hD : c.D = 1) (uh : Array ℂ) :
    nifft c uh = irfftnM 1 c.N (tab (c.N / 2 + 1) (fun h => mask c h * uh.getD h 0)) := by
  unfold nifft; rw [modes_one c hD, hD]

/-- the full DFT of `nifft c ûh`, any `ûh` -/
theorem dft_nifft (c : Cfg ℂ) (hD : c.D = 1) (hq : c.fq ≠ 0) (hN : 0 < c.N) (uh : Array ℂ) (m : ℤ) :
    dft c.N (nifft c uh) m
      = ∑ h ∈ range (c.N / 2 + 1), ((herm_weight 1 c.N h : ℂ) / 2) *
          ((if (h : ℤ) ≤ Kc c then uh.getD h 0 else 0) * (if (c.N : ℤ) ∣ m - (h : ℤ) then 1 else 0)
            + (starRingEnd ℂ) (if (h : ℤ) ≤ Kc c then uh.getD h 0 else 0)
                * (if (c.N : ℤ) ∣ m + (h : ℤ) then 1 else 0)) := by
  rw [nifft_one c hD, dft_irfft c.N hN]
  apply Finset.sum_congr rfl
  intro h hh
  rw [DFT.tab_getD _ _ _ _ (Finset.mem_range.mp hh), mask_one c hD hq]
  split_ifs <;> simp

/-- **A5 (band-limited).** For ANY stored array `ûh`, the field `nifft c ûh` (mask, then inverse
    transform) has its full spectrum supported on `|m| ≤ Kc` modulo `N`. -/
theorem nifft_bandLimited (c : Cfg ℂ) (hD : c.D = 1) (hq : c.fq ≠ 0) (hN : 0 < c.N) (uh : Array ℂ) :
    BandLimited c.N (Kc c) (nifft c uh) := by
  intro a ha
  rw [dft_nifft c hD hq hN]
  apply Finset.sum_eq_zero
  intro h _
  by_cases hk : (h : ℤ) ≤ Kc c
  · have hh0 : (0 : ℤ) ≤ (h : ℤ) := by positivity
    have h1 : ¬ (c.N : ℤ) ∣ a - (h : ℤ) := fun hd =>
      ha ⟨(h : ℤ), by rw [abs_of_nonneg hh0]; exact hk, hd⟩
    have h2 : ¬ (c.N : ℤ) ∣ a + (h : ℤ) := fun hd =>
      ha ⟨-(h : ℤ), by rw [abs_neg, abs_of_nonneg hh0]; exact hk, by rwa [sub_neg_eq_add]⟩
    rw [if_neg h1, if_neg h2]; simp
  · rw [if_neg hk]; simp

/-- **A5 (values, any `ûh`).** With `2·Kc < N` (true for every fraction `≤ 1`), at a band
    wavenumber `|m| ≤ Kc` the full spectrum of `nifft c ûh` is the Hermitian completion of the
    stored coefficients: `ûh_m` for `m > 0`, `conj ûh_{−m}` for `m < 0`, `Re ûh_0` at `m = 0`. -/
theorem dft_nifft_band (c : Cfg ℂ) (hD : c.D = 1) (hq : c.fq ≠ 0) (hN : 0 < c.N)
    (h2 : 2 * Kc c < (c.N : ℤ)) (uh : Array ℂ) (m : ℤ) (hm : |m| ≤ Kc c) :
    dft c.N (nifft c uh) m
      = if 0 < m then uh.getD m.toNat 0
        else if m < 0 then (starRingEnd ℂ) (uh.getD (-m).toNat 0)
        else (((uh.getD 0 0).re : ℝ) : ℂ) := by
  rw [dft_nifft c hD hq hN]
  have hm' := abs_le.mp hm
  have hmem : m.natAbs ∈ range (c.N / 2 + 1) := by
    rw [Finset.mem_range]; omega
  rw [Finset.sum_eq_single_of_mem m.natAbs hmem]
  · -- the surviving term
    have hk : ((m.natAbs : ℕ) : ℤ) ≤ Kc c := by omega
    rw [if_pos hk, herm_weight_one]
    rcases lt_trichotomy m 0 with hneg | hzero | hpos
    · have e : ((m.natAbs : ℕ) : ℤ) = -m := by omega
      have hne : ¬ (m.natAbs = 0 ∨ c.N % 2 = 0 ∧ m.natAbs = c.N / 2) := by omega
      have d1 : ¬ (c.N : ℤ) ∣ m - ((m.natAbs : ℕ) : ℤ) := by
        intro hd
        have := Int.eq_zero_of_abs_lt_dvd hd (by rw [abs_lt]; constructor <;> omega)
        omega
      have d2 : (c.N : ℤ) ∣ m + ((m.natAbs : ℕ) : ℤ) := by rw [e]; simp
      rw [if_neg hne, if_neg d1, if_pos d2, if_neg (by omega), if_pos hneg]
      have : (-m).toNat = m.natAbs := by omega
      rw [this]; push_cast; ring
    · subst hzero
      simp only [Int.natAbs_zero, Nat.cast_zero, sub_zero, add_zero, dvd_zero, if_true, true_or,
        lt_self_iff_false, if_false, Nat.cast_one, mul_one]
      rw [Complex.re_eq_add_conj]; ring
    · have e : ((m.natAbs : ℕ) : ℤ) = m := by omega
      have hne : ¬ (m.natAbs = 0 ∨ c.N % 2 = 0 ∧ m.natAbs = c.N / 2) := by omega
      have d1 : (c.N : ℤ) ∣ m - ((m.natAbs : ℕ) : ℤ) := by rw [e]; simp
      have d2 : ¬ (c.N : ℤ) ∣ m + ((m.natAbs : ℕ) : ℤ) := by
        intro hd
        have hd' : (c.N : ℤ) ∣ m + ((m.natAbs : ℕ) : ℤ) - c.N := Dvd.dvd.sub hd (dvd_refl _)
        have := Int.eq_zero_of_abs_lt_dvd hd' (by rw [abs_lt]; constructor <;> omega)
        omega
      rw [if_neg hne, if_pos d1, if_neg d2, if_pos hpos]
      have : m.toNat = m.natAbs := by omega
      rw [this]; push_cast; ring
  · -- every other stored mode contributes nothing
    intro h hh hne
    rw [Finset.mem_range] at hh
    by_cases hk : (h : ℤ) ≤ Kc c
    · have d1 : ¬ (c.N : ℤ) ∣ m - (h : ℤ) := by
        intro hd
        have := Int.eq_zero_of_abs_lt_dvd hd (by rw [abs_lt]; constructor <;> omega)
        omega
      have d2 : ¬ (c.N : ℤ) ∣ m + (h : ℤ) := by
        intro hd
        have := Int.eq_zero_of_abs_lt_dvd hd (by rw [abs_lt]; constructor <;> omega)
        omega
      rw [if_neg d1, if_neg d2]; simp
    · rw [if_neg hk]; simp

/-- realness hypothesis used for states: all `N` samples have zero imaginary part -/
def IsRealField (N : ℕ) (x : Array ℂ) : Prop := ∀ j < N, (x.getD j 0).im = 0

/-- **A5 (reachable case).** For a real state `x` and `û = rfftnM 1 N x`, the field
    `nifft c û = ifft(mask·û)` is the band truncation `P_K x` of the state: its full spectrum is that
    of `x` on `|m| ≤ Kc` … -/
theorem dft_nifft_rfft (c : Cfg ℂ) (hD : c.D = 1) (hq : c.fq ≠ 0) (hN : 0 < c.N)
    (h2 : 2 * Kc c < (c.N : ℤ)) (x : Array ℂ) (hx : IsRealField c.N x) (m : ℤ) (hm : |m| ≤ Kc c) :
    dft c.N (nifft c (rfftnM 1 c.N x)) m = dft c.N x m := by
  rw [dft_nifft_band c hD hq hN h2 _ m hm]
  have hm' := abs_le.mp hm
  rcases lt_trichotomy m 0 with hneg | hzero | hpos
  · rw [if_neg (by omega), if_pos hneg, rfft1_getD c.N hN x _ (by omega), conj_dft c.N x hx]
    congr 1
    rw [Int.toNat_of_nonneg (by omega)]; ring
  · subst hzero
    rw [if_neg (by omega), if_neg (by omega), rfft1_getD c.N hN x 0 (Nat.zero_le _)]
    have : (starRingEnd ℂ) (dft c.N x 0) = dft c.N x 0 := by
      rw [conj_dft c.N x hx]; simp
    simp only [Nat.cast_zero]
    exact (Complex.conj_eq_iff_re.mp this)
  · rw [if_pos hpos, rfft1_getD c.N hN x _ (by omega)]
    congr 1
    exact Int.toNat_of_nonneg hpos.le

/-- … and zero on every other residue class. -/
theorem dft_nifft_rfft_off (c : Cfg ℂ) (hD : c.D = 1) (hq : c.fq ≠ 0) (hN : 0 < c.N)
    (x : Array ℂ) (a : ℤ) (ha : ¬ ∃ m : ℤ, |m| ≤ Kc c ∧ (c.N : ℤ) ∣ (a - m)) :
    dft c.N (nifft c (rfftnM 1 c.N x)) a = 0 :=
  nifft_bandLimited c hD hq hN _ a ha

/-- the truncated spectrum of `nifft c (rfft x)` is the truncated spectrum of `x` -/
theorem trunc_dft_nifft_rfft (c : Cfg ℂ) (hD : c.D = 1) (hq : c.fq ≠ 0) (hN : 0 < c.N)
    (h2 : 2 * Kc c < (c.N : ℤ)) (x : Array ℂ) (hx : IsRealField c.N x) (m : ℤ) :
    trunc (Kc c) (dft c.N (nifft c (rfftnM 1 c.N x))) m = trunc (Kc c) (dft c.N x) m := by
  unfold trunc
  split_ifs with hm
  · exact dft_nifft_rfft c hD hq hN h2 x hx m hm
  · rfl

/-- the field `nifft c ûh` is real (it is a sum of real parts divided by `N`) -/
theorem nifft_real (c : Cfg ℂ) (hD : c.D = 1) (hN : 0 < c.N) (uh : Array ℂ) :
    IsRealField c.N (nifft c uh) := by
  intro j hj
  rw [nifft_one c hD, irfft1_getD c.N hN _ j hj]
  have : ∀ s : Finset ℕ, ∀ f : ℕ → ℝ, ∀ w : ℕ → ℕ,
      ((∑ h ∈ s, ((w h : ℕ) : ℂ) * ((f h : ℝ) : ℂ)) / (c.N : ℂ)).im = 0 := by
    intro s f w
    have : (∑ h ∈ s, ((w h : ℕ) : ℂ) * ((f h : ℝ) : ℂ)) / (c.N : ℂ)
        = (((∑ h ∈ s, (w h : ℝ) * f h) / (c.N : ℝ) : ℝ) : ℂ) := by push_cast; rfl
    rw [this, Complex.ofReal_im]
  exact this _ _ _

end Exponax.Alias
