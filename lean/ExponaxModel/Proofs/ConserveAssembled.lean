import ExponaxModel.Proofs.InterfaceAssembly
import ExponaxModel.Proofs.SmallGaps2Specific
import ExponaxModel.Proofs.Conservation
import ExponaxModel.Proofs.InterpMean
/-
C09 support — the spatial mean on the ASSEMBLED regenerated step (`Interface.baseStep` / `Interface.etdrkStep`: regenerated
`exp_term`, `E?_half_exp_term`, contour coefficients `E?_coef_i` with the STORED contour sums, regenerated stage formulas
`E?step`, regenerated `_build_linear_operator` and `__init__ → _build_nonlinear_fun` wiring), every order.

  * `etdrkStep_mean_mode`      one assembled ETDRK-`p` step, ANY `p`, any contour (`M`, `r`), any `dt`: if the symbol array
                               vanishes at `(ch, 0)` and the nonlinear map has zero `(ch, 0)` entry for every input, the
                               entry `(ch, 0)` is returned unchanged (`exp_term dt 0 = 1`; every stage enters the update
                               only through `N`, so neither the half propagator nor any contour coefficient matters)
  * `baseStep_mean_iterate`    the same for `baseStep` of any class (linear operator zero on the derivative entries of
                               the stored mode 0; nonlinear function with zero mean mode), any number of steps
  * `general_convection_mean_conserved`  `GeneralConvectionStepper(conservative=True, a₀ = 0)`; every channel index, every
                               `D`, `N`, `L` (no well-formedness needed: `deriv c d 0 = 0` for every configuration, and
                               `liftTermND` is `0` outside the stored band)
  * `Burgers_…`, `KortewegDeVries_…` (ANY mixing flags, any `D`), `KuramotoSivashinskyConservative_…`
  * physical-space forms: the grid sum of `irfftn` of the stored result equals the grid sum of `irfftn` of the stored
    input (`D, N ≥ 1`), and equals the grid sum of the real input field `x` when the input spectrum is `rfftn x`.
-/
set_option linter.unusedVariables false
namespace Exponax.ConserveAssembled
open Exponax Exponax.Layout Exponax.Transform Exponax.Nonlin Exponax.Gen.Etdrk Exponax.Interface
open Exponax.Gen.StepperWiring Exponax.Gen.Steppers Exponax.StepperWiringEq
open Exponax.EquivND (liftTermND)

/-! ## one assembled step, any order -/

/-- the propagator of a vanishing symbol is `1` -/
theorem exp_term_zero' (dt : ℂ) : exp_term dt 0 = 1 := by simp [exp_term]

/-- **one assembled ETDRK step keeps the entry `(ch, 0)`** when the symbol vanishes there and the nonlinear map has no
    `(ch, 0)` output — every order (for `p > 4` the assembly returns the state), every contour, every `dt` -/
theorem etdrkStep_mean_mode (p : ℕ) (dt : ℂ) (lam : Spec) (M : ℕ) (r : ℂ) (N : Spec → Spec) (u : Spec) (ch : ℕ)
    (hlam : lam ch 0 = 0) (hN : ∀ v, N v ch 0 = 0) :
    etdrkStep p dt lam M r N u ch 0 = u ch 0 := by
  have hE : exp_term dt (lam ch 0) = 1 := by rw [hlam]; exact exp_term_zero' dt
  match p with
  | 0 => simp [etdrkStep, E0step, Pi.mul_apply, hE]
  | 1 => simp [etdrkStep, E1step, Pi.mul_apply, Pi.add_apply, hE, hN]
  | 2 => simp [etdrkStep, E2step, Pi.mul_apply, Pi.add_apply, Pi.sub_apply, hE, hN]
  | 3 => simp [etdrkStep, E3step, Pi.mul_apply, Pi.add_apply, hE, hN]
  | 4 => simp [etdrkStep, E4step, Pi.mul_apply, Pi.add_apply, hE, hN]
  | (k + 5) => rfl

/-- … over any number of steps -/
theorem etdrkStep_mean_iterate (p : ℕ) (dt : ℂ) (lam : Spec) (M : ℕ) (r : ℂ) (N : Spec → Spec) (ch : ℕ)
    (hlam : lam ch 0 = 0) (hN : ∀ v, N v ch 0 = 0) (n : ℕ) (u : Spec) :
    ((etdrkStep p dt lam M r N)^[n] u) ch 0 = u ch 0 := by
  induction n generalizing u with
  | zero => rfl
  | succ n ih => rw [Function.iterate_succ_apply, ih, etdrkStep_mean_mode p dt lam M r N u ch hlam hN]

/-! ## `baseStep` of any class -/

/-- `liftTermND` of a term without mean-mode output has no `(ch, 0)` entry (inside or outside the stored band) -/
theorem liftTermND_mean (c : Cfg ℂ) (C : ℕ) (T : MC ℂ → MC ℂ) (hT : ∀ uh ch, at2 (T uh) ch 0 = 0) (v : Spec)
    (ch : ℕ) : liftTermND c C T v ch 0 = 0 := by
  unfold liftTermND
  split_ifs
  · exact hT _ ch
  · rfl

/-- **`BaseStepper.__init__` + `step_fourier` keep the mean mode of every channel** for any class whose regenerated
    linear operator vanishes on the derivative entries of the stored mode `0` and whose regenerated nonlinear function
    has zero mean-mode output — every order, every `dt`, every contour, any number of steps -/
theorem baseStep_mean_iterate (b : BaseStepperArgs ℂ) (linop : List ℂ → ℂ) (nonlin : Cfg ℂ → MC ℂ → MC ℂ)
    (hl : linop (kappa (baseCfg b.num_spatial_dims b.num_points b.domain_extent) 0) = 0)
    (hn : ∀ uh ch, at2 (nonlin (baseCfg b.num_spatial_dims b.num_points b.domain_extent) uh) ch 0 = 0)
    (n : ℕ) (u : Spec) (ch : ℕ) :
    ((baseStep b linop nonlin)^[n] u) ch 0 = u ch 0 := by
  unfold baseStep
  exact etdrkStep_mean_iterate _ _ _ _ _ _ ch hl (fun v => liftTermND_mean _ _ _ hn v ch) n u

/-! ## the derivative entries of the mean mode -/

theorem kappa_zero_mode_getD (c : Cfg ℂ) (d : ℕ) (hd : d < (kappa c 0).length) : (kappa c 0).getD d 0 = 0 := by
  rw [kappa_length] at hd
  rw [kappa_getD c 0 d hd, Conserve.deriv_zero_mode]

/-- `Σ_d (i k_d)^{j+1} = 0` at the mean mode -/
theorem psum_kappa_zero_mode (c : Cfg ℂ) (j : ℕ) : psum (kappa c 0) (j + 1) = 0 := by
  unfold psum
  apply Finset.sum_eq_zero
  intro d hd
  rw [kappa_zero_mode_getD c d (Finset.mem_range.mp hd), zero_pow (Nat.succ_ne_zero j)]

/-- the regenerated general linear operator at the mean mode is `0` when `a₀ = 0` (it is `D · a₀` in general) -/
theorem GeneralConvectionStepper_linear_operator_mean (c : Cfg ℂ) (a : List ℂ) (h0 : a.getD 0 0 = 0) :
    GeneralConvectionStepper_linear_operator (kappa c 0) a = 0 := by
  rw [GeneralConvectionStepper_linear_operator_eq]
  apply Finset.sum_eq_zero
  intro j _
  cases j with
  | zero => rw [h0, zero_mul]
  | succ j => rw [psum_kappa_zero_mode, mul_zero]

/-- the regenerated KdV linear operator at the mean mode is `0`, for every mixing flag -/
theorem KortewegDeVries_linear_operator_mean (c : Cfg ℂ) (a3 ν μ : ℂ) (aod dod : Bool) :
    KortewegDeVries_linear_operator (kappa c 0) a3 ν μ aod dod c.D = 0 := by
  rw [KortewegDeVries_linear_operator_eq _ _ _ _ _ _ _ (kappa_length c 0)]
  have h1 := psum_kappa_zero_mode c 0
  have h2 := psum_kappa_zero_mode c 1
  have h3 := psum_kappa_zero_mode c 2
  have h4 := psum_kappa_zero_mode c 3
  simp only [Nat.zero_add, Nat.reduceAdd] at h1 h2 h3 h4
  rw [h1, h2, h3, h4]
  cases aod <;> cases dod <;> simp

/-! ## the convection family -/

/-- **`GeneralConvectionStepper(conservative=True)` with `a₀ = 0` keeps the mean mode of every channel**: the assembled
    regenerated step, every order, every `dt`, every stored contour, every `D`, `N`, `L`, any number of steps, every
    state (no reality / band hypothesis), every channel index -/
theorem general_convection_mean_conserved (g : GeneralConvectionStepperArgs ℂ) (hc : g.conservative = true)
    (h0 : g.linear_coefficients.getD 0 0 = 0) (n : ℕ) (u : Spec) (ch : ℕ) :
    ((GeneralConvectionStepper_step g)^[n] u) ch 0 = u ch 0 := by
  unfold GeneralConvectionStepper_step
  apply baseStep_mean_iterate
  · rw [GeneralConvectionStepper_attrs_eq]
    exact GeneralConvectionStepper_linear_operator_mean _ _ h0
  · intro uh ch
    rw [GeneralConvectionStepper_base_args_eq]
    show at2 (GeneralConvectionStepper_stepper_nonlinear_fun
      (baseCfg g.num_spatial_dims g.num_points g.domain_extent) g uh) ch 0 = 0
    rw [GeneralConvectionStepper_stepper_nonlinear_fun_eq _ g uh rfl, hc]
    exact Conserve.convection_conservative_mean _ _ _ _ uh ch

/-- **Burgers (`conservative=True`)** -/
theorem Burgers_mean_conserved (a : BurgersArgs ℂ) (hc : a.conservative = true) (n : ℕ) (u : Spec) (ch : ℕ) :
    ((Burgers_step a)^[n] u) ch 0 = u ch 0 := by
  rw [Burgers_step_eq_general]
  exact general_convection_mean_conserved (Burgers_to_general a) hc rfl n u ch

/-- **Kuramoto–Sivashinsky, conservative form (`conservative=True`, the default)** -/
theorem KuramotoSivashinskyConservative_mean_conserved (a : KuramotoSivashinskyConservativeArgs ℂ)
    (hc : a.conservative = true) (n : ℕ) (u : Spec) (ch : ℕ) :
    ((KuramotoSivashinskyConservative_step a)^[n] u) ch 0 = u ch 0 := by
  rw [KuramotoSivashinskyConservative_step_eq_general]
  exact general_convection_mean_conserved (KuramotoSivashinskyConservative_to_general a) hc rfl n u ch

/-- **Korteweg–de Vries (`conservative=True`)**, ANY mixing flags (`advect_over_diffuse`, `diffuse_over_diffuse`), any `D`:
    directly on the class's regenerated linear operator -/
theorem KortewegDeVries_mean_conserved (a : KortewegDeVriesArgs ℂ) (hc : a.conservative = true) (n : ℕ) (u : Spec)
    (ch : ℕ) : ((KortewegDeVries_step a)^[n] u) ch 0 = u ch 0 := by
  unfold KortewegDeVries_step
  apply baseStep_mean_iterate
  · rw [KortewegDeVries_attrs_eq, KortewegDeVries_base_args_eq]
    exact KortewegDeVries_linear_operator_mean (baseCfg a.num_spatial_dims a.num_points a.domain_extent) _ _ _ _ _
  · intro uh ch
    rw [KortewegDeVries_base_args_eq]
    show at2 (KortewegDeVries_stepper_nonlinear_fun
      (baseCfg a.num_spatial_dims a.num_points a.domain_extent) a uh) ch 0 = 0
    rw [KortewegDeVries_stepper_nonlinear_fun_eq _ a uh rfl, hc]
    exact Conserve.convection_conservative_mean _ _ _ _ uh ch

/-! ## physical space -/

/-- the grid field of channel `ch` of a stored spectrum: `irfftn` of its `numModes D N` stored entries -/
noncomputable def gridOf (D N : ℕ) (v : Spec) (ch : ℕ) : Array ℂ := irfftnM D N (tab (numModes D N) (v ch))

/-- the grid sum of a channel is the real part of its stored mean mode -/
theorem sum_gridOf (D N : ℕ) (hD : 0 < D) (hN : 0 < N) (v : Spec) (ch : ℕ) :
    ∑ j ∈ Finset.range (N ^ D), (gridOf D N v ch).getD j 0 = (((v ch 0).re : ℝ) : ℂ) := by
  unfold gridOf
  have hm : 0 < numModes D N := shapeSize_pos _ (wavenumberShape_pos D N hN)
  rw [Interp.sum_irfftnM D N hD hN, DFT.tab_getD (numModes D N) (v ch) 0 0 hm]

/-- a map on stored spectra that keeps the mean mode of channel `ch` keeps the grid sum of channel `ch` -/
theorem sum_gridOf_of_mean (D N : ℕ) (hD : 0 < D) (hN : 0 < N) (v w : Spec) (ch : ℕ) (h : v ch 0 = w ch 0) :
    ∑ j ∈ Finset.range (N ^ D), (gridOf D N v ch).getD j 0 = ∑ j ∈ Finset.range (N ^ D), (gridOf D N w ch).getD j 0 := by
  rw [sum_gridOf D N hD hN, sum_gridOf D N hD hN, h]

/-- the stored spectrum of real grid fields `x ch` -/
noncomputable def specOf (D N : ℕ) (x : ℕ → Array ℂ) : Spec := fun ch h => (rfftnM D N (x ch)).getD h 0

/-- if the mean mode of channel `ch` equals the one of `rfftn x`, the grid sum equals the grid sum of the real `x` -/
theorem sum_gridOf_specOf (D N : ℕ) (hD : 0 < D) (hN : 0 < N) (x : ℕ → Array ℂ) (ch : ℕ)
    (hx : ∀ j < N ^ D, ((x ch).getD j 0).im = 0) (v : Spec) (h : v ch 0 = specOf D N x ch 0) :
    ∑ j ∈ Finset.range (N ^ D), (gridOf D N v ch).getD j 0 = ∑ j ∈ Finset.range (N ^ D), (x ch).getD j 0 := by
  rw [sum_gridOf D N hD hN, h]
  unfold specOf
  rw [Conserve.rfftnM_zero_mode D N hN]
  apply Complex.ext
  · simp
  · rw [Complex.ofReal_im, Complex.im_sum]
    exact (Finset.sum_eq_zero (fun j hj => hx j (Finset.mem_range.mp hj))).symm

/-- **physical form, `GeneralConvectionStepper`**: after `n` steps from the spectrum of a real state `x`, the grid sum
    (hence the grid mean) of every channel of `irfftn(result)` equals the grid sum of `x` -/
theorem general_convection_grid_mean_conserved (g : GeneralConvectionStepperArgs ℂ) (hc : g.conservative = true)
    (h0 : g.linear_coefficients.getD 0 0 = 0) (hD : 0 < g.num_spatial_dims) (hN : 0 < g.num_points)
    (x : ℕ → Array ℂ) (ch : ℕ) (hx : ∀ j < g.num_points ^ g.num_spatial_dims, ((x ch).getD j 0).im = 0) (n : ℕ) :
    ∑ j ∈ Finset.range (g.num_points ^ g.num_spatial_dims),
        (gridOf g.num_spatial_dims g.num_points
          ((GeneralConvectionStepper_step g)^[n] (specOf g.num_spatial_dims g.num_points x)) ch).getD j 0
      = ∑ j ∈ Finset.range (g.num_points ^ g.num_spatial_dims), (x ch).getD j 0 :=
  sum_gridOf_specOf _ _ hD hN x ch hx _ (general_convection_mean_conserved g hc h0 n _ ch)

/-! non-vacuity -/

/-- a third-order conservative configuration with `a₀ = 0` (the defaults with `conservative=True`, `order=3`) -/
example : ∃ g : GeneralConvectionStepperArgs ℂ, g.conservative = true ∧ g.linear_coefficients.getD 0 0 = 0 ∧
    g.order = 3 ∧ 0 < g.num_spatial_dims ∧ 0 < g.num_points :=
  ⟨{ GeneralConvectionStepper_with_defaults 1 ((3 : ℝ) : ℂ) 32 (1 / 10) with conservative := true, order := 3 },
    rfl, by simp [GeneralConvectionStepper_with_defaults], rfl, Nat.one_pos, by decide⟩

example : ∃ a : BurgersArgs ℂ, a.conservative = true ∧ a.order = 3 :=
  ⟨{ Burgers_with_defaults 1 1 32 (1 / 10) with conservative := true, order := 3 }, rfl, rfl⟩

example : ∃ a : KortewegDeVriesArgs ℂ, a.conservative = true ∧ a.advect_over_diffuse = true :=
  ⟨{ KortewegDeVries_with_defaults 2 1 16 1 with conservative := true, advect_over_diffuse := true }, rfl, rfl⟩

example : ∃ a : KuramotoSivashinskyConservativeArgs ℂ, a.conservative = true :=
  ⟨KuramotoSivashinskyConservative_with_defaults 1 1 32 (1 / 10), rfl⟩

/-- a real grid field -/
example : ∃ x : ℕ → Array ℂ, ∀ j < 32 ^ 1, ((x 0).getD j 0).im = 0 :=
  ⟨fun _ => tab 32 (fun j => ((j : ℝ) : ℂ)), fun j hj => by rw [DFT.tab_getD _ _ _ _ (by simpa using hj)]; simp⟩

end Exponax.ConserveAssembled
