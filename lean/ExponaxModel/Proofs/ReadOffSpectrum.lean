import ExponaxModel.Proofs.ReadOffBasic
import ExponaxModel.Proofs.MetricsAlgebra
import ExponaxModel.Model.Spectrum
/-
R3 (C17), part 1: the radial spectrum of the MODEL (`Spectrum.quantity`, `Spectrum.spectrum`) as sums over the
stored modes, and the amplitude read-off of one resolved mode.

* `quantity`: per-mode amplitude `|û_h| · w_h / N^D` (`w = herm_weight`, because the `reconstruction` scaling is
  `N^D / w_h`) and per-mode power `½ (|û_h| w_h / N^D)(|û_h| / N^D)`;
* `spectrum … (average := false)`: bin `b ≤ N/2` holds `Σ_h [k(h) ∈ bin b] · quantity_h`, for every `D ≥ 1`
  (in 1-D the model does not bin: entry `b` IS mode `b`, and mode `b` is the only one in bin `b`);
* amplitude read-off, `u = a cos(2π κ·j/N + φ)`, `κ` strictly below Nyquist, `κ ≠ 0`, every `D ≥ 1`:
  bin `b` holds `|a|` if `κ ∈ bin b` (`b = round|κ|`) and `0` otherwise.  When `κ_last ≠ 0` one stored mode (`κ` or `−κ`)
  carries `|a|/2 · N^D` with reconstruction scaling `N^D/2`; when `κ_last = 0` BOTH `κ` and `−κ` are stored, each carries
  `|a|/2 · N^D` with scaling `N^D`, and both fall into the same bin (`|−κ| = |κ|`): `|a|/2 + |a|/2`.  In the proof the two
  cases are one: the stored copies of `±κ` have total Hermitian weight `2` (`ExactLinear.Wsum_eq_two`).
  `κ = 0`: bin `0` holds `|a cos φ|`, every other bin `0`.
-/
set_option linter.unusedVariables false
namespace Exponax.ReadOff
open Exponax Exponax.Layout Exponax.Transform Exponax.DFT Exponax.ExactLinear Finset
open Exponax.Spectrum (quantity)
open scoped ComplexConjugate

/-! ### the per-mode quantity -/

/-- `1 / reconstruction-scaling = herm_weight / N^D` over `ℂ` -/
theorem inv_scaling_one (D N h : ℕ) (hD : 1 ≤ D) (hN : 0 < N) (hh : h < numModes D N) :
    (1 : ℂ) / (scaling D N 1 (unflatten (wavenumberShape D N) h) : ℂ)
      = (herm_weight D N h : ℂ) / (N : ℂ) ^ D := by
  have h1 := Metrics.one_div_reconScale D N h hD hN hh
  have h2 : ((Metrics.reconScale D N h : ℝ) : ℂ) = (scaling D N 1 (unflatten (wavenumberShape D N) h) : ℂ) := by
    unfold Metrics.reconScale
    rw [scaling_mode_one D N hD, scaling_mode_one D N hD]
    split_ifs <;> push_cast <;> rfl
  rw [← h2]
  have := congrArg (fun x : ℝ => (x : ℂ)) h1
  push_cast at this
  exact this

theorem quantity_amp (D N : ℕ) (hD : 1 ≤ D) (hN : 0 < N) (uh : Array ℂ) (h : ℕ) (hh : h < numModes D N) :
    quantity D N false uh h
      = ((‖uh.getD h 0‖ : ℝ) : ℂ) * ((herm_weight D N h : ℂ) / (N : ℂ) ^ D) := by
  unfold quantity
  simp only [Bool.false_eq_true, if_false]
  rw [div_eq_mul_one_div, inv_scaling_one D N h hD hN hh]
  rfl

theorem quantity_pow (D N : ℕ) (hD : 1 ≤ D) (hN : 0 < N) (uh : Array ℂ) (h : ℕ) (hh : h < numModes D N) :
    quantity D N true uh h
      = 1 / 2 * (((‖uh.getD h 0‖ : ℝ) : ℂ) * ((herm_weight D N h : ℂ) / (N : ℂ) ^ D))
          * (((‖uh.getD h 0‖ : ℝ) : ℂ) / (N : ℂ) ^ D) := by
  unfold quantity
  simp only [if_true]
  rw [div_eq_mul_one_div _ (scaling D N 1 _ : ℂ), inv_scaling_one D N h hD hN hh, scaling_mode_zero]
  simp only [qlit_eq, Nat.cast_one, Nat.cast_ofNat]
  rfl

/-! ### the spectrum as a sum over stored modes -/

theorem sumList_filter_range (M : ℕ) (p : ℕ → Bool) (f : ℕ → ℂ) :
    sumList (((List.range M).filter p).map f) = ∑ h ∈ range M, if p h = true then f h else 0 := by
  rw [sumList_eq]
  induction M with
  | zero => simp
  | succ M ih =>
    rw [List.range_succ, List.filter_append, List.map_append, List.sum_append, ih, Finset.sum_range_succ]
    congr 1
    cases hp : p M <;> simp [hp]

/-- `D ≥ 2`, sum binning: bin `b` holds the sum of the quantities of the stored modes whose wave vector lies in
    the bin -/
theorem spectrum_getD_sum_nd (D N : ℕ) (hD1 : D ≠ 1) (power : Bool) (u : Array ℂ) (b : ℕ)
    (hb : b < N / 2 + 1) :
    (Spectrum.spectrum D N power false u).getD b 0
      = ∑ h ∈ range (numModes D N),
          if inBin (wnFlat D N h) b = true then quantity D N power (rfftnM D N u) h else 0 := by
  unfold Spectrum.spectrum
  simp only [if_neg hD1, Bool.false_eq_true, if_false]
  rw [tab_getD _ _ _ _ hb, sumList_filter_range]
  apply Finset.sum_congr rfl
  intro h hh
  have hh' := Finset.mem_range.mp hh
  rw [tab_getD _ _ _ _ hh', tab_getD _ _ _ _ hh']

/-- 1-D: the wave vector of stored mode `h` is `(h)` -/
theorem wnFlat_one (N h : ℕ) (hh : h < numModes 1 N) : wnFlat 1 N h = [(h : ℤ)] := by
  apply list_ext_getD _ _ 1 (wnFlat_length 1 N h) rfl
  intro d hd
  interval_cases d
  rw [wnFlat_getD' 1 N h 0 (by norm_num), wn_last 1 N _ 0 rfl]
  simp [wavenumberShape, unflatten, shapeSize]

theorem inBin_singleton (h b : ℕ) : inBin [(h : ℤ)] b = true ↔ b = h := by
  have hself : inBin [(h : ℤ)] h = true := by
    rw [inBin_iff, normSq_cons, normSq_nil]
    have hpos : (0 : ℤ) ≤ h := by positivity
    refine ⟨?_, by nlinarith⟩
    rcases Nat.eq_zero_or_pos h with h0 | h0
    · left; subst h0; simp
    · right
      have : (1 : ℤ) ≤ h := by exact_mod_cast h0
      nlinarith
  constructor
  · intro hb; exact inBin_unique _ b h hb hself
  · rintro rfl; exact hself

/-- 1-D (no binning in the model, any `average`): entry `b` is mode `b`, which is the same sum -/
theorem spectrum_getD_sum_1d (N : ℕ) (power average : Bool) (u : Array ℂ) (b : ℕ) (hb : b < N / 2 + 1) :
    (Spectrum.spectrum 1 N power average u).getD b 0
      = ∑ h ∈ range (numModes 1 N),
          if inBin (wnFlat 1 N h) b = true then quantity 1 N power (rfftnM 1 N u) h else 0 := by
  have hM : numModes 1 N = N / 2 + 1 := by rw [numModes_eq]; simp
  unfold Spectrum.spectrum
  simp only [if_true]
  rw [tab_getD _ _ _ _ (by rw [hM]; exact hb)]
  rw [Finset.sum_eq_single b]
  · rw [wnFlat_one N b (by rw [hM]; exact hb), if_pos ((inBin_singleton b b).mpr rfl)]
  · intro h hh hne
    rw [wnFlat_one N h (Finset.mem_range.mp hh), if_neg]
    rw [inBin_singleton]
    exact fun e => hne e.symm
  · intro hnot
    exact absurd (Finset.mem_range.mpr (by rw [hM]; exact hb)) hnot

/-- every `D ≥ 1`, sum binning -/
theorem spectrum_getD_sum (D N : ℕ) (hD : 1 ≤ D) (power : Bool) (u : Array ℂ) (b : ℕ) (hb : b < N / 2 + 1) :
    (Spectrum.spectrum D N power false u).getD b 0
      = ∑ h ∈ range (numModes D N),
          if inBin (wnFlat D N h) b = true then quantity D N power (rfftnM D N u) h else 0 := by
  by_cases hD1 : D = 1
  · subst hD1; exact spectrum_getD_sum_1d N power false u b hb
  · exact spectrum_getD_sum_nd D N hD1 power u b hb

@[simp] theorem spectrum_size_nd (D N : ℕ) (hD1 : D ≠ 1) (power average : Bool) (u : Array ℂ) :
    (Spectrum.spectrum D N power average u).size = N / 2 + 1 := by
  unfold Spectrum.spectrum
  simp only [if_neg hD1]
  simp

theorem spectrum_size_1d (N : ℕ) (power average : Bool) (u : Array ℂ) :
    (Spectrum.spectrum 1 N power average u).size = N / 2 + 1 := by
  unfold Spectrum.spectrum
  simp only [if_true]
  rw [tab_size, numModes_eq]
  simp

/-! ### one mode: norms of the stored coefficients -/

theorem norm_coef (a φ : ℝ) (n : ℕ) :
    ‖(a / 2 : ℂ) * (n : ℂ) * Complex.exp (φ * Complex.I)‖ = |a| / 2 * n := by
  have e : ((a : ℂ) / 2) = ((a / 2 : ℝ) : ℂ) := by push_cast; ring
  rw [norm_mul, norm_mul, Complex.norm_exp_ofReal_mul_I, mul_one, Complex.norm_natCast, e, Complex.norm_real,
    Real.norm_eq_abs, abs_div, abs_two]

theorem norm_coef' (a φ : ℝ) (n : ℕ) :
    ‖(a / 2 : ℂ) * (n : ℂ) * Complex.exp (-(φ * Complex.I))‖ = |a| / 2 * n := by
  rw [← conj_coef, Complex.norm_conj, norm_coef]

theorem normSq_negK (κ : List ℤ) : normSq (negK κ) = normSq κ := by
  rw [normSq_eq_sum, normSq_eq_sum, negK, List.map_map]
  congr 1
  apply List.map_congr_left
  intro x _
  simp

theorem inBin_negK (κ : List ℤ) (b : ℕ) : inBin (negK κ) b = inBin κ b := by
  unfold inBin
  rw [normSq_negK]

theorem ne_negK_of_ne_zero (D : ℕ) (κ : List ℤ) (hκ : κ.length = D) (hne : ∃ d < D, κ.getD d 0 ≠ 0) :
    κ ≠ negK κ := by
  intro he
  obtain ⟨d, hd, hne⟩ := hne
  exact hne ((eq_negK_iff D κ hκ).mp he d hd)

/-- `|û_h| = (|a|/2) N^D · ([k(h) = κ] + [k(h) = −κ])` for `κ ≠ 0` -/
theorem norm_rfftnM_modeField (D N : ℕ) (hD : 0 < D) (hN : 0 < N) (κ : List ℤ) (hκ : BelowNyquist D N κ)
    (hne : ∃ d < D, κ.getD d 0 ≠ 0) (a φ : ℝ) (h : ℕ) (hh : h < numModes D N) :
    ‖(rfftnM D N (modeField D N κ a φ)).getD h 0‖
      = |a| / 2 * (N ^ D : ℕ) * ((if wnFlat D N h = κ then 1 else 0) + (if wnFlat D N h = negK κ then 1 else 0)) := by
  rw [rfftnM_modeField D N hD hN κ hκ a φ h hh]
  by_cases hA : wnFlat D N h = κ
  · have hB : ¬ wnFlat D N h = negK κ := by
      rw [hA]; exact ne_negK_of_ne_zero D κ hκ.1 hne
    rw [if_pos hA, if_neg hB, if_pos hA, if_neg hB, add_zero, add_zero, mul_one, norm_coef]
  · by_cases hB : wnFlat D N h = negK κ
    · rw [if_neg hA, if_pos hB, if_neg hA, if_pos hB, zero_add, zero_add, mul_one, norm_coef']
    · rw [if_neg hA, if_neg hB, if_neg hA, if_neg hB, add_zero, add_zero, mul_zero, norm_zero]

/-- a sum over stored modes of something supported on the stored copies of `±κ`, with Hermitian weights -/
theorem sum_weight_indicator (D N : ℕ) (hD : 0 < D) (hN : 0 < N) (κ : List ℤ) (hκ : BelowNyquist D N κ) (x : ℂ) :
    ∑ h ∈ range (numModes D N), x * ((herm_weight D N h : ℂ) *
        ((if wnFlat D N h = κ then 1 else 0) + (if wnFlat D N h = negK κ then 1 else 0))) = x * 2 := by
  rw [← Finset.mul_sum]
  have := Wsum_eq_two D N hD hN κ hκ
  unfold Wsum at this
  rw [this]

/-! ### R3: amplitude read-off -/

/-- **R3, amplitude, `κ ≠ 0`.**  Bin `b ≤ N/2` of the amplitude spectrum of `a cos(2π κ·j/N + φ)` holds `|a|` if
    `κ` lies in the bin, else `0`.  Every `D ≥ 1`, odd or even `N`, any sign pattern of `κ` (including `κ_last = 0`,
    where two stored modes contribute `|a|/2` each, and `κ_last < 0`, where the stored mode is `−κ`). -/
theorem spectrum_amplitude_modeField (D N : ℕ) (hD : 1 ≤ D) (hN : 0 < N) (κ : List ℤ)
    (hκ : BelowNyquist D N κ) (hne : ∃ d < D, κ.getD d 0 ≠ 0) (a φ : ℝ) (b : ℕ) (hb : b < N / 2 + 1) :
    (Spectrum.spectrum D N false false (modeField D N κ a φ)).getD b 0
      = if inBin κ b = true then ((|a| : ℝ) : ℂ) else 0 := by
  rw [spectrum_getD_sum D N hD false _ b hb]
  have hNne : ((N : ℂ)) ^ D ≠ 0 := pow_ne_zero _ (Nat.cast_ne_zero.mpr hN.ne')
  have hterm : ∀ h ∈ range (numModes D N),
      (if inBin (wnFlat D N h) b = true then quantity D N false (rfftnM D N (modeField D N κ a φ)) h else 0)
        = (if inBin κ b = true then ((|a| : ℝ) : ℂ) / 2 else 0) * ((herm_weight D N h : ℂ) *
            ((if wnFlat D N h = κ then 1 else 0) + (if wnFlat D N h = negK κ then 1 else 0))) := by
    intro h hh
    have hh' := Finset.mem_range.mp hh
    rw [quantity_amp D N hD hN _ h hh', norm_rfftnM_modeField D N hD hN κ hκ hne a φ h hh']
    by_cases hA : wnFlat D N h = κ
    · have hB : ¬ wnFlat D N h = negK κ := by
        rw [hA]; exact ne_negK_of_ne_zero D κ hκ.1 hne
      have e : inBin (wnFlat D N h) b = inBin κ b := by rw [hA]
      rw [e, if_pos hA, if_neg hB]
      split_ifs
      · push_cast; field_simp
      · ring
    · by_cases hB : wnFlat D N h = negK κ
      · have e : inBin (wnFlat D N h) b = inBin κ b := by rw [hB, inBin_negK]
        rw [e, if_neg hA, if_pos hB]
        split_ifs
        · push_cast; field_simp
        · ring
      · rw [if_neg hA, if_neg hB]
        split_ifs <;> simp
  rw [Finset.sum_congr rfl hterm, sum_weight_indicator D N hD hN κ hκ]
  split_ifs
  · ring
  · ring

/-- the same with the bin named: `round|κ|` -/
theorem spectrum_amplitude_modeField_round (D N : ℕ) (hD : 1 ≤ D) (hN : 0 < N) (κ : List ℤ)
    (hκ : BelowNyquist D N κ) (hne : ∃ d < D, κ.getD d 0 ≠ 0) (a φ : ℝ) (b : ℕ) (hb : b < N / 2 + 1) :
    (Spectrum.spectrum D N false false (modeField D N κ a φ)).getD b 0
      = if b = roundNorm κ then ((|a| : ℝ) : ℂ) else 0 := by
  rw [spectrum_amplitude_modeField D N hD hN κ hκ hne a φ b hb]
  simp only [inBin_iff_eq_roundNorm]

/-! ### `κ = 0` -/

theorem herm_weight_zero (D N : ℕ) : herm_weight D N 0 = 1 := by
  unfold herm_weight
  rw [unflatten_zero_getD]
  simp

theorem inBin_wnFlat_zero (D N b : ℕ) : inBin (wnFlat D N 0) b = true ↔ b = 0 := by
  have h0 : normSq (wnFlat D N 0) = 0 := by
    rw [normSq_eq_zero_iff]
    intro kd hk
    obtain ⟨i, hi, rfl⟩ := List.getElem_of_mem hk
    have := wnFlat_zero D N i
    rw [List.getD_eq_getElem?_getD, List.getElem?_eq_getElem hi] at this
    simpa using this
  rw [inBin_iff, h0]
  constructor
  · rintro ⟨h1, _⟩
    by_contra hb
    have h2 : (1 : ℤ) ≤ b := by
      have : 0 < b := Nat.pos_of_ne_zero hb
      exact_mod_cast this
    rcases h1 with h1 | h1
    · omega
    · nlinarith
  · rintro rfl; simp

/-- **R3, amplitude, `κ = 0`** (constant field `a cos φ`): bin `0` holds `|a cos φ|`, every other bin `0`. -/
theorem spectrum_amplitude_const (D N : ℕ) (hD : 1 ≤ D) (hN : 0 < N) (κ : List ℤ) (hκ : κ.length = D)
    (h0 : ∀ d < D, κ.getD d 0 = 0) (a φ : ℝ) (b : ℕ) (hb : b < N / 2 + 1) :
    (Spectrum.spectrum D N false false (modeField D N κ a φ)).getD b 0
      = if b = 0 then ((|a * Real.cos φ| : ℝ) : ℂ) else 0 := by
  have hκ' : BelowNyquist D N κ := ⟨hκ, fun d hd => by rw [h0 d hd]; simpa using hN⟩
  have hM : 0 < numModes D N := by rw [numModes_eq]; positivity
  have hNne : ((N : ℂ)) ^ D ≠ 0 := pow_ne_zero _ (Nat.cast_ne_zero.mpr hN.ne')
  rw [spectrum_getD_sum D N hD false _ b hb, Finset.sum_eq_single 0]
  · rw [quantity_amp D N hD hN _ 0 hM, rfftnM_modeField_dc D N hD hN κ hκ h0 a φ, herm_weight_zero,
      Complex.norm_real, Real.norm_eq_abs]
    by_cases hb0 : b = 0
    · rw [if_pos ((inBin_wnFlat_zero D N b).mpr hb0), if_pos hb0, abs_mul (a * Real.cos φ)]
      have : |((N ^ D : ℕ) : ℝ)| = ((N ^ D : ℕ) : ℝ) := abs_of_nonneg (by positivity)
      rw [this]
      push_cast
      field_simp
    · rw [if_neg (fun hc => hb0 ((inBin_wnFlat_zero D N b).mp hc)), if_neg hb0]
  · intro h hh hne
    have hh' := Finset.mem_range.mp hh
    have hA : wnFlat D N h ≠ κ := by
      intro he
      apply hne
      rw [← wnFlat_eq_zero_iff D N h hD hN hh']
      intro d hd
      rw [he, h0 d hd]
    have hB : wnFlat D N h ≠ negK κ := by
      rw [← (eq_negK_iff D κ hκ).mpr h0]; exact hA
    rw [quantity_amp D N hD hN _ h hh', rfftnM_modeField_other D N hD hN κ hκ' a φ h hh' hA hB]
    simp
  · intro hnot
    exact absurd (Finset.mem_range.mpr hM) hnot

/-! non-vacuity -/
example : BelowNyquist 2 8 [3, 0] ∧ (∃ d < 2, ([3, 0] : List ℤ).getD d 0 ≠ 0) ∧ inBin [3, 0] 3 = true ∧ 3 < 8 / 2 + 1 :=
  ⟨⟨rfl, by intro d hd; interval_cases d <;> simp⟩, ⟨0, by norm_num, by decide⟩, by decide, by norm_num⟩
example : BelowNyquist 3 8 [2, -2, -1] ∧ roundNorm [2, -2, -1] = 3 := by
  refine ⟨⟨rfl, by intro d hd; interval_cases d <;> simp⟩, ?_⟩
  exact ((inBin_iff_eq_roundNorm _ 3).mp (by decide)).symm
example : ([0, 0] : List ℤ).length = 2 ∧ ∀ d < 2, ([0, 0] : List ℤ).getD d 0 = 0 :=
  ⟨rfl, by intro d hd; interval_cases d <;> simp⟩

end Exponax.ReadOff
