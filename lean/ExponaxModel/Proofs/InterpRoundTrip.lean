import ExponaxModel.Proofs.InterpGrid
/-
C15 support — 1-D corollaries of exactness: spectrum of the mapped field, round trips
(up-then-down, down-then-up), sub-sampling of an up-sampled field (with the exact Nyquist defect).
-/
set_option linter.unusedVariables false
set_option linter.unusedSimpArgs false
namespace Exponax.Interp
open Exponax Exponax.Layout Exponax.Transform Exponax.DFT Finset

/-- **`rfft ∘ irfft` in 1-D, any stored half spectrum `C`**: the coefficient comes back, except
    that on the self-conjugate entries (DC, Nyquist) only the real part was kept. -/
theorem rfft_irfft_1d (N : ℕ) (hN : 0 < N) (C : Array ℂ) (h : ℕ) (hh : h ≤ N / 2) :
    (rfftnM 1 N (irfftnM 1 N C)).getD h 0 =
      if h = 0 ∨ (N % 2 = 0 ∧ h = N / 2) then (((C.getD h 0).re : ℝ) : ℂ) else C.getD h 0 := by
  have hNc : (N : ℂ) ≠ 0 := by exact_mod_cast hN.ne'
  rw [rfft1_getD N hN _ h hh]
  unfold dft
  have hv : ∀ j ∈ range N, (irfftnM 1 N C).getD j 0 * zeta N ^ ((h : ℤ) * (j : ℤ))
      = ∑ h' ∈ range (N / 2 + 1), ((herm_weight 1 N h' : ℂ) / (2 * (N : ℂ))) *
          (C.getD h' 0 * zeta N ^ (((h : ℤ) - (h' : ℤ)) * (j : ℤ))
            + (starRingEnd ℂ) (C.getD h' 0) * zeta N ^ (((h : ℤ) + (h' : ℤ)) * (j : ℤ))) := by
    intro j hj
    rw [irfft1_getD N hN C j (Finset.mem_range.mp hj), Finset.sum_div, Finset.sum_mul]
    apply Finset.sum_congr rfl
    intro h' _
    rw [Complex.re_eq_add_conj, map_mul, conj_zeta_zpow, neg_neg,
      show ((h : ℤ) - (h' : ℤ)) * (j : ℤ) = -((h' : ℤ) * (j : ℤ)) + (h : ℤ) * (j : ℤ) by ring,
      show ((h : ℤ) + (h' : ℤ)) * (j : ℤ) = (h' : ℤ) * (j : ℤ) + (h : ℤ) * (j : ℤ) by ring,
      zpow_add₀ (zeta_ne_zero N), zpow_add₀ (zeta_ne_zero N)]
    field_simp
  rw [Finset.sum_congr rfl hv, Finset.sum_comm]
  have hinner : ∀ h' ∈ range (N / 2 + 1),
      ∑ j ∈ range N, ((herm_weight 1 N h' : ℂ) / (2 * (N : ℂ))) *
          (C.getD h' 0 * zeta N ^ (((h : ℤ) - (h' : ℤ)) * (j : ℤ))
            + (starRingEnd ℂ) (C.getD h' 0) * zeta N ^ (((h : ℤ) + (h' : ℤ)) * (j : ℤ)))
      = ((herm_weight 1 N h' : ℂ) / (2 * (N : ℂ))) *
          (C.getD h' 0 * (if (N : ℤ) ∣ (h : ℤ) - (h' : ℤ) then (N : ℂ) else 0)
            + (starRingEnd ℂ) (C.getD h' 0) * (if (N : ℤ) ∣ (h : ℤ) + (h' : ℤ) then (N : ℂ) else 0)) := by
    intro h' _
    rw [← Finset.mul_sum, Finset.sum_add_distrib, ← Finset.mul_sum, ← Finset.mul_sum,
      zeta_sum_zpow N hN, zeta_sum_zpow N hN]
  rw [Finset.sum_congr rfl hinner, Finset.sum_eq_single_of_mem h (Finset.mem_range.mpr (by omega))]
  · rw [sub_self, if_pos (dvd_zero _), herm_weight_one]
    have hd : ((N : ℤ) ∣ (h : ℤ) + (h : ℤ)) ↔ (h = 0 ∨ (N % 2 = 0 ∧ h = N / 2)) := by
      constructor
      · rintro ⟨c, hc⟩
        have hc0 : 0 ≤ c := by
          by_contra hneg
          simp only [not_le, not_lt] at hneg
          have : (N : ℤ) * c ≤ (N : ℤ) * (-1) := by
            apply mul_le_mul_of_nonneg_left (by omega) (by omega)
          omega
        have hc1 : c ≤ 1 := by
          by_contra hbig
          simp only [not_le, not_lt] at hbig
          have : (N : ℤ) * 2 ≤ (N : ℤ) * c := by
            apply mul_le_mul_of_nonneg_left (by omega) (by omega)
          omega
        rcases (by omega : c = 0 ∨ c = 1) with rfl | rfl
        · left; omega
        · right; omega
      · rintro (h0 | ⟨he, hn⟩)
        · subst h0; simp
        · refine ⟨1, ?_⟩; omega
    simp only [hd]
    by_cases hs : h = 0 ∨ (N % 2 = 0 ∧ h = N / 2)
    · rw [if_pos hs, if_pos hs, if_pos hs, Complex.re_eq_add_conj]
      push_cast
      field_simp
    · rw [if_neg hs, if_neg hs, if_neg hs]
      push_cast
      field_simp
      ring
  · intro h' hh' hne
    have hh'' := Finset.mem_range.mp hh'
    have h1 : ¬ ((N : ℤ) ∣ (h : ℤ) - (h' : ℤ)) := by
      intro hd
      have := Int.eq_zero_of_abs_lt_dvd hd (by rw [abs_lt]; constructor <;> omega)
      omega
    have h2 : ¬ ((N : ℤ) ∣ (h : ℤ) + (h' : ℤ)) := by
      rintro ⟨c, hc⟩
      have hc0 : 0 < c := by
        by_contra hneg
        simp only [not_le, not_lt] at hneg
        have : (N : ℤ) * c ≤ (N : ℤ) * 0 := by
          apply mul_le_mul_of_nonneg_left hneg (by omega)
        omega
      have hc1 : c < 1 := by
        by_contra hbig
        simp only [not_le, not_lt] at hbig
        have : (N : ℤ) * 1 ≤ (N : ℤ) * c := by
          apply mul_le_mul_of_nonneg_left hbig (by omega)
        omega
      omega
    rw [if_neg h1, if_neg h2]
    simp

/-- spectrum of the mapped field for a real band-limited input: the in-band coefficients are
    copied (times `N_new/N_old`), everything else vanishes -/
theorem rfft_mapBetween_one (Nold Nnew : ℕ) (hne : Nold ≠ Nnew) (hNo : 0 < Nold) (hNn : 0 < Nnew)
    (ob : Bool) (u : Array ℂ) (hu : ∀ j < Nold, (u.getD j 0).im = 0)
    (hbl : BandLimited1 Nold (min Nold Nnew) u) (h : ℕ) (hh : h ≤ Nnew / 2) :
    (rfftnM 1 Nnew (mapBetween 1 Nold Nnew ob u)).getD h 0 =
      if 2 * h < min Nold Nnew then (rfftnM 1 Nold u).getD h 0 / (Nold : ℂ) * (Nnew : ℂ) else 0 := by
  unfold mapBetween
  rw [if_neg hne, rfft_irfft_1d Nnew hNn _ h hh, mapSpectrum_one_getD Nold Nnew hne ob _ h hh]
  by_cases hb : 2 * h < min Nold Nnew
  · have hC : (if h ≤ min Nold Nnew / 2 ∧ ¬ (ob = true ∧ min Nold Nnew % 2 = 0 ∧ h = min Nold Nnew / 2)
        then (rfftnM 1 Nold u).getD h 0 / (Nold : ℂ) * (Nnew : ℂ) else 0)
        = (rfftnM 1 Nold u).getD h 0 / (Nold : ℂ) * (Nnew : ℂ) := by
      rw [if_pos ⟨by omega, by omega⟩]
    rw [hC, if_pos hb]
    by_cases hs : h = 0 ∨ (Nnew % 2 = 0 ∧ h = Nnew / 2)
    · rw [if_pos hs]
      have h0 : h = 0 := by omega
      subst h0
      have him := rfft_dc_real Nold hNo u hu
      apply Complex.ext
      · simp
      · rw [Complex.ofReal_im]
        have : (rfftnM 1 Nold u).getD 0 0 / (Nold : ℂ) * (Nnew : ℂ)
            = (((Nnew : ℝ) / (Nold : ℝ) : ℝ) : ℂ) * (rfftnM 1 Nold u).getD 0 0 := by push_cast; ring
        rw [this, Complex.im_ofReal_mul, him, mul_zero]
    · rw [if_neg hs]
  · have hz : (if h ≤ min Nold Nnew / 2 ∧ ¬ (ob = true ∧ min Nold Nnew % 2 = 0 ∧ h = min Nold Nnew / 2)
        then (rfftnM 1 Nold u).getD h 0 / (Nold : ℂ) * (Nnew : ℂ) else 0) = 0 := by
      split_ifs with hc
      · rw [hbl h (by omega) (by omega)]; simp
      · rfl
    rw [hz, if_neg hb]
    simp

/-- the mapped field of a band-limited real field is band-limited (on the new grid) -/
theorem bandLimited_mapBetween_one (Nold Nnew : ℕ) (hne : Nold ≠ Nnew) (hNo : 0 < Nold) (hNn : 0 < Nnew)
    (ob : Bool) (u : Array ℂ) (hu : ∀ j < Nold, (u.getD j 0).im = 0)
    (hbl : BandLimited1 Nold (min Nold Nnew) u) :
    BandLimited1 Nnew (min Nnew Nold) (mapBetween 1 Nold Nnew ob u) := by
  intro h hh hm
  rw [rfft_mapBetween_one Nold Nnew hne hNo hNn ob u hu hbl h hh, if_neg (by omega)]

/-- **I2 (a): round trip.**  For a real field on the `N_old` grid that is band-limited strictly below
    `min(N_old, N_new)/2`, mapping to the `N_new` grid and back returns the field — this covers
    up-then-down (`N_old < N_new`) and down-then-up (`N_old > N_new`); the two calls may use
    different `oddballZero` flags. -/
theorem mapBetween_one_roundtrip (Nold Nnew : ℕ) (hne : Nold ≠ Nnew) (hNo : 0 < Nold) (hNn : 0 < Nnew)
    (ob ob' : Bool) (u : Array ℂ) (hu : ∀ j < Nold, (u.getD j 0).im = 0)
    (hbl : BandLimited1 Nold (min Nold Nnew) u) (j : ℕ) (hj : j < Nold) :
    (mapBetween 1 Nnew Nold ob' (mapBetween 1 Nold Nnew ob u)).getD j 0 = u.getD j 0 := by
  have hbl' := bandLimited_mapBetween_one Nold Nnew hne hNo hNn ob u hu hbl
  rw [mapBetween_one_bandlimited Nnew Nold (Ne.symm hne) hNo ob' _ hbl' j hj,
    ← irfft_rfft_1d Nold hNo u hu j hj, irfft1_getD Nold hNo _ j hj]
  have hNo' : (Nold : ℂ) ≠ 0 := by exact_mod_cast hNo.ne'
  have hNn' : (Nnew : ℂ) ≠ 0 := by exact_mod_cast hNn.ne'
  have hsubN : range (min Nold Nnew / 2 + 1) ⊆ range (Nnew / 2 + 1) := by
    intro x hx; rw [Finset.mem_range] at hx ⊢; omega
  have hsubO : range (min Nold Nnew / 2 + 1) ⊆ range (Nold / 2 + 1) := by
    intro x hx; rw [Finset.mem_range] at hx ⊢; omega
  rw [← Finset.sum_subset hsubN, ← Finset.sum_subset hsubO, div_eq_div_iff hNn' hNo', Finset.sum_mul,
    Finset.sum_mul]
  · apply Finset.sum_congr rfl
    intro h hh
    have hh' := Finset.mem_range.mp hh
    rw [rfft_mapBetween_one Nold Nnew hne hNo hNn ob u hu hbl h (by omega)]
    by_cases hb : 2 * h < min Nold Nnew
    · rw [if_pos hb, herm_weight_one, herm_weight_one]
      have hw : (h = 0 ∨ Nnew % 2 = 0 ∧ h = Nnew / 2) ↔ (h = 0 ∨ Nold % 2 = 0 ∧ h = Nold / 2) := by
        constructor <;> rintro (h0 | ⟨_, h1⟩) <;> first | exact Or.inl h0 | (exfalso; omega)
      simp only [hw]
      rw [show (rfftnM 1 Nold u).getD h 0 / (Nold : ℂ) * (Nnew : ℂ) * zeta Nold ^ (-((h : ℤ) * (j : ℤ)))
          = (((Nnew : ℝ) / (Nold : ℝ) : ℝ) : ℂ) * ((rfftnM 1 Nold u).getD h 0 * zeta Nold ^ (-((h : ℤ) * (j : ℤ))))
          by push_cast; ring, Complex.re_ofReal_mul]
      push_cast
      field_simp
    · rw [if_neg hb, hbl h (by omega) (by omega)]
      simp
  · intro h h1 h2
    have h1' := Finset.mem_range.mp h1
    have h2' : ¬ h < min Nold Nnew / 2 + 1 := fun hc => h2 (Finset.mem_range.mpr hc)
    rw [hbl h (by omega) (by omega)]
    simp
  · intro h h1 h2
    have h1' := Finset.mem_range.mp h1
    have h2' : ¬ h < min Nold Nnew / 2 + 1 := fun hc => h2 (Finset.mem_range.mpr hc)
    rw [hbl' h (by omega) (by omega)]
    simp

theorem zeta_mul_zpow (p N : ℕ) (hp : 0 < p) (hN : 0 < N) (k : ℤ) :
    zeta (p * N) ^ ((p : ℤ) * k) = zeta N ^ k := by
  rw [zeta_zpow_eq_exp, zeta_zpow_eq_exp]
  congr 1
  have hp' : (p : ℂ) ≠ 0 := by exact_mod_cast hp.ne'
  have hN' : (N : ℂ) ≠ 0 := by exact_mod_cast hN.ne'
  push_cast
  field_simp

/-- `ζ_N^{-(N/2) j} = (-1)^j` for even `N` -/
theorem zeta_nyquist_neg (N : ℕ) (hN : 0 < N) (hev : N % 2 = 0) (j : ℕ) :
    zeta N ^ (-(((N / 2 : ℕ) : ℤ) * (j : ℤ))) = (-1 : ℂ) ^ j := by
  have hprim := zeta_isPrimitiveRoot N hN
  have h2 : (2 : ℕ) * (N / 2) = N := by omega
  have hsq : (zeta N ^ (N / 2)) ^ 2 = 1 := by
    rw [← pow_mul, mul_comm, h2, zeta_pow_self]
  have hne : zeta N ^ (N / 2) ≠ 1 := by
    intro h1
    have hd := (hprim.pow_eq_one_iff_dvd (N / 2)).mp h1
    have := Nat.le_of_dvd (by omega) hd
    omega
  have hm1 : zeta N ^ (N / 2) = -1 := by
    rw [pow_two] at hsq
    rcases mul_self_eq_one_iff.mp hsq with h | h
    · exact absurd h hne
    · exact h
  rw [zpow_neg, zpow_mul, zpow_natCast, zpow_natCast, hm1, ← inv_pow, inv_neg_one]

/-- **I2 (b), exact form.**  `N_new = p·N_old`, `p ≥ 2`: every `p`-th sample of the up-sampled field
    is the original sample plus the Nyquist defect.  For odd `N_old` there is no defect (any real
    `u`); for even `N_old` the Nyquist mode `û_{N/2}` (real) is REMOVED when `oddballZero = true`
    (defect `−(−1)^j û_{N/2}/N`) and DOUBLED when `oddballZero = false` (defect `+(−1)^j û_{N/2}/N`),
    because the copied entry gets the c2r weight 2 of an interior mode of the finer grid. -/
theorem mapBetween_one_subsample (Nold p : ℕ) (hNo : 0 < Nold) (hp : 2 ≤ p) (ob : Bool)
    (u : Array ℂ) (hu : ∀ j < Nold, (u.getD j 0).im = 0) (j : ℕ) (hj : j < Nold) :
    (mapBetween 1 Nold (p * Nold) ob u).getD (p * j) 0 =
      u.getD j 0 +
        (if Nold % 2 = 0 then
          (if ob = true then (-1 : ℂ) else 1) * (-1 : ℂ) ^ j *
            ((((rfftnM 1 Nold u).getD (Nold / 2) 0).re : ℝ) : ℂ) / (Nold : ℂ)
         else 0) := by
  have hne : Nold ≠ p * Nold := by nlinarith
  have hNn : 0 < p * Nold := by positivity
  have hjn : p * j < p * Nold := by nlinarith
  have hmin : min Nold (p * Nold) = Nold := by
    apply min_eq_left; nlinarith
  have hNo' : (Nold : ℂ) ≠ 0 := by exact_mod_cast hNo.ne'
  rw [mapBetween_one_getD Nold (p * Nold) hne hNn ob u (p * j) hjn, hmin,
    ← irfft_rfft_1d Nold hNo u hu j hj, irfft1_getD Nold hNo _ j hj]
  have hz : ∀ h : ℕ, zeta (p * Nold) ^ (-((h : ℤ) * ((p * j : ℕ) : ℤ))) = zeta Nold ^ (-((h : ℤ) * (j : ℤ))) := by
    intro h
    rw [← zeta_mul_zpow p Nold (by omega) hNo]
    congr 1
    push_cast
    ring
  simp only [hz]
  -- weights agree off the (even) Nyquist entry
  have hw : ∀ h, h ≤ Nold / 2 → ¬ (Nold % 2 = 0 ∧ h = Nold / 2) →
      mapWeight Nold (p * Nold) ob h = herm_weight 1 Nold h := by
    intro h hh hny
    unfold mapWeight
    rw [hmin, if_neg (by tauto), herm_weight_one, herm_weight_one]
    congr 1
    apply propext
    constructor
    · rintro (h0 | ⟨_, h1⟩)
      · exact Or.inl h0
      · exfalso
        have : Nold ≤ (p * Nold) / 2 := by
          apply (Nat.le_div_iff_mul_le (by norm_num)).mpr; nlinarith
        omega
    · rintro (h0 | h1)
      · exact Or.inl h0
      · exact absurd h1 hny
  by_cases hev : Nold % 2 = 0
  · rw [if_pos hev, Finset.sum_range_succ, Finset.sum_range_succ, zeta_nyquist_neg Nold hNo hev]
    have hlow : ∀ h ∈ range (Nold / 2),
        (mapWeight Nold (p * Nold) ob h : ℂ) *
          ((((rfftnM 1 Nold u).getD h 0 * zeta Nold ^ (-((h : ℤ) * (j : ℤ)))).re : ℝ) : ℂ)
        = (herm_weight 1 Nold h : ℂ) *
          ((((rfftnM 1 Nold u).getD h 0 * zeta Nold ^ (-((h : ℤ) * (j : ℤ)))).re : ℝ) : ℂ) := by
      intro h hh
      have := Finset.mem_range.mp hh
      rw [hw h (by omega) (by omega)]
    rw [Finset.sum_congr rfl hlow]
    have hre : ((((rfftnM 1 Nold u).getD (Nold / 2) 0 * (-1 : ℂ) ^ j).re : ℝ) : ℂ)
        = (-1 : ℂ) ^ j * ((((rfftnM 1 Nold u).getD (Nold / 2) 0).re : ℝ) : ℂ) := by
      rw [show ((-1 : ℂ) ^ j) = (((-1 : ℝ) ^ j : ℝ) : ℂ) by push_cast; rfl, mul_comm,
        Complex.re_ofReal_mul]
      push_cast; rfl
    rw [hre]
    have hwn : herm_weight 1 Nold (Nold / 2) = 1 := by
      rw [herm_weight_one, if_pos (Or.inr ⟨hev, rfl⟩)]
    have hmw : (mapWeight Nold (p * Nold) ob (Nold / 2) : ℂ) = if ob = true then 0 else 2 := by
      unfold mapWeight
      rw [hmin]
      cases ob
      · simp only [Bool.false_eq_true, false_and, if_false]
        rw [herm_weight_one, if_neg]
        · norm_num
        · have : Nold ≤ (p * Nold) / 2 := by
            apply (Nat.le_div_iff_mul_le (by norm_num)).mpr; nlinarith
          omega
      · simp [hev]
    rw [hwn, hmw]
    cases ob
    · simp only [Bool.false_eq_true, if_false]
      push_cast
      field_simp
      ring
    · simp only [if_true]
      push_cast
      field_simp
      ring
  · rw [if_neg hev, add_zero]
    congr 1
    apply Finset.sum_congr rfl
    intro h hh
    have := Finset.mem_range.mp hh
    rw [hw h (by omega) (by tauto)]

/-- **I2 (b), odd `N_old`**: every `p`-th sample of the up-sampled field is the original sample,
    for ANY real field (no band-limit hypothesis) and both values of `oddballZero`. -/
theorem mapBetween_one_subsample_odd (Nold p : ℕ) (hNo : 0 < Nold) (hp : 2 ≤ p) (hodd : Nold % 2 = 1)
    (ob : Bool) (u : Array ℂ) (hu : ∀ j < Nold, (u.getD j 0).im = 0) (j : ℕ) (hj : j < Nold) :
    (mapBetween 1 Nold (p * Nold) ob u).getD (p * j) 0 = u.getD j 0 := by
  rw [mapBetween_one_subsample Nold p hNo hp ob u hu j hj, if_neg (by omega), add_zero]

/-- **I2 (b), even `N_old`**: the samples are reproduced iff the Nyquist coefficient vanishes
    (for both values of `oddballZero`). -/
theorem mapBetween_one_subsample_even_iff (Nold p : ℕ) (hNo : 0 < Nold) (hp : 2 ≤ p) (hev : Nold % 2 = 0)
    (ob : Bool) (u : Array ℂ) (hu : ∀ j < Nold, (u.getD j 0).im = 0) :
    (∀ j < Nold, (mapBetween 1 Nold (p * Nold) ob u).getD (p * j) 0 = u.getD j 0)
      ↔ (rfftnM 1 Nold u).getD (Nold / 2) 0 = 0 := by
  have hNo' : (Nold : ℂ) ≠ 0 := by exact_mod_cast hNo.ne'
  constructor
  · intro hall
    have h0 := hall 0 hNo
    rw [mapBetween_one_subsample Nold p hNo hp ob u hu 0 hNo, if_pos hev] at h0
    have hre : ((((rfftnM 1 Nold u).getD (Nold / 2) 0).re : ℝ) : ℂ) = 0 := by
      have h1 : (if ob = true then (-1 : ℂ) else 1) * (-1 : ℂ) ^ 0 *
            ((((rfftnM 1 Nold u).getD (Nold / 2) 0).re : ℝ) : ℂ) / (Nold : ℂ) = 0 := by
        have := congrArg (fun z => z - u.getD 0 0) h0
        simpa using this
      rw [div_eq_zero_iff] at h1
      rcases h1 with h1 | h1
      · rw [pow_zero, mul_one] at h1
        rcases mul_eq_zero.mp h1 with h2 | h2
        · exfalso; cases ob <;> simp at h2
        · exact h2
      · exact absurd h1 hNo'
    apply Complex.ext
    · simpa using hre
    · simpa using rfft_nyquist_real Nold hNo hev u hu
  · intro hz j hj
    rw [mapBetween_one_subsample Nold p hNo hp ob u hu j hj, hz]
    simp

end Exponax.Interp
