import Mathlib.Tactic
import ExponaxModel.Proofs.RepeatedPhysicalWavenumber
import ExponaxModel.Proofs.InterpMean
import ExponaxModel.Proofs.ICAlgebra
import ExponaxModel.Proofs.ICGen2Eq
import ExponaxModel.Proofs.LerayBasic
/-
C18 support — the spectrum OF THE RETURNED ARRAY of the spectral initial-condition generators.

The existing read-offs (`truncatedSpectrum_getD`, `DiffusedNoise_contract`, `GaussianRandomField_contract`)
describe the half spectrum HANDED TO `irfftn`.  `irfftn` keeps only the Hermitian part of what it is given
(`C2RProjection`), so a statement about the output needs the handed-over spectrum to be `Realisable`.  Here:

  * `wnFlat_conjIdx_map_natAbs`        : on the self-conjugate columns `conjIdx` keeps every `|k_d|`;
  * `conjIdx_eq_zero_iff`              : `conjIdx D N h = 0 ↔ h = 0` there;
  * `truncatedSpectrum_realisable`     : real noise, real offset ⇒ the truncated spectrum is realisable;
  * `rfftn_truncatedSeries`            : `rfftn (truncatedSeries …) = truncatedSpectrum …` (arrays);
  * `sum_truncatedSeries`, `mean_truncatedSeries` : grid sum `= offset · N^D`, `IC.mean = offset`;
  * `diffusedSpectrum_realisable`, `rfftn_irfftn_diffusedSpectrum` : the same for `DiffusedNoise`
                                         (real intensity, real extent — no sign condition is needed);
  * `grfSpectrum_realisable`, `rfftn_irfftn_grfSpectrum` : and for `GaussianRandomField` (ANY complex
                                         `L`, `e`: the `HasRpow ℂ` instance acts on real parts, the amplitude
                                         is real-valued and depends on the `k_d²` only).
Everything for general `D ≥ 1`, `N ≥ 1`.
-/
set_option linter.unusedVariables false
set_option linter.unusedSimpArgs false
namespace Exponax.ICOut
open Exponax Exponax.Layout Exponax.Transform Exponax.DFT Exponax.C2R Exponax.IC Finset

/-! ### `conjIdx` keeps the absolute values of the wavenumber components -/

/-- on the self-conjugate columns the wavenumber vectors of `h` and `conjIdx D N h` have the same `|k_d|` -/
theorem wnFlat_conjIdx_map_natAbs (D N h : ℕ) (hD : 0 < D) (hN : 0 < N) (hh : h < numModes D N)
    (hw : herm_weight D N h = 1) :
    (wnFlat D N (conjIdx D N h)).map Int.natAbs = (wnFlat D N h).map Int.natAbs := by
  apply List.ext_getElem
  · simp [wnFlat_length]
  · intro d h1 h2
    have hd : d < D := by simpa [wnFlat_length] using h1
    have key := wnFlat_conjIdx_natAbs D N h d hD hN hh hw hd
    have e : ∀ l : List ℤ, ∀ (hl : d < l.length), l.getD d 0 = l[d] := by
      intro l hl
      simp [List.getD_eq_getElem?_getD, hl]
    rw [e _ (by rw [wnFlat_length]; exact hd), e _ (by rw [wnFlat_length]; exact hd)] at key
    simpa using key

/-- an even function of the components sees the same list -/
theorem map_even_of_natAbs {α : Type} (f : ℤ → α) (hf : ∀ k, f (-k) = f k) (k k' : List ℤ)
    (h : k'.map Int.natAbs = k.map Int.natAbs) : k'.map f = k.map f := by
  have key : ∀ l : List ℤ, l.map f = (l.map Int.natAbs).map (fun n : ℕ => f (n : ℤ)) := by
    intro l
    rw [List.map_map]
    apply List.map_congr_left
    intro a _
    show f a = f ((a.natAbs : ℕ) : ℤ)
    rcases Int.natAbs_eq a with h1 | h1
    · rw [← h1]
    · conv_lhs => rw [h1]
      rw [hf]
  rw [key k', key k, h]

/-- `conjIdx D N h = 0 ↔ h = 0` on the self-conjugate columns -/
theorem conjIdx_eq_zero_iff (D N h : ℕ) (hD : 0 < D) (hN : 0 < N) (hh : h < numModes D N)
    (hw : herm_weight D N h = 1) : conjIdx D N h = 0 ↔ h = 0 := by
  rw [← wnFlat_eq_zero_iff D N h hD hN hh, ← wnFlat_eq_zero_iff D N _ hD hN (conjIdx_lt D N h hD hN)]
  have key : ∀ d < D, ((wnFlat D N (conjIdx D N h)).getD d 0 = 0 ↔ (wnFlat D N h).getD d 0 = 0) := by
    intro d hd
    rw [← Int.natAbs_eq_zero, wnFlat_conjIdx_natAbs D N h d hD hN hh hw hd, Int.natAbs_eq_zero]
  exact ⟨fun H d hd => (key d hd).mp (H d hd), fun H d hd => (key d hd).mpr (H d hd)⟩

/-- the cut-off box test gives the same answer at `h` and `conjIdx D N h` -/
theorem box_conjIdx_iff (D N h : ℕ) (c : ℤ) (hD : 0 < D) (hN : 0 < N) (hh : h < numModes D N)
    (hw : herm_weight D N h = 1) :
    (∀ kd ∈ wnFlat D N (conjIdx D N h), |kd| ≤ c) ↔ (∀ kd ∈ wnFlat D N h, |kd| ≤ c) := by
  have hm := map_even_of_natAbs (fun kd : ℤ => decide (|kd| ≤ c)) (fun k => by simp) _ _
    (wnFlat_conjIdx_map_natAbs D N h hD hN hh hw)
  have key : ∀ l : List ℤ, (∀ kd ∈ l, |kd| ≤ c) ↔ ∀ b ∈ l.map (fun kd : ℤ => decide (|kd| ≤ c)), b = true := by
    intro l
    simp [List.forall_mem_map]
  rw [key, key, hm]

/-- `|k|²` is the same at `h` and `conjIdx D N h` -/
theorem normSq_conjIdx (D N h : ℕ) (hD : 0 < D) (hN : 0 < N) (hh : h < numModes D N)
    (hw : herm_weight D N h = 1) : normSq (wnFlat D N (conjIdx D N h)) = normSq (wnFlat D N h) := by
  unfold normSq
  rw [map_even_of_natAbs (fun kd : ℤ => kd * kd) (fun k => by ring) _ _
    (wnFlat_conjIdx_map_natAbs D N h hD hN hh hw)]

/-- a REAL-valued symbol that takes the same value at `h` and `conjIdx D N h` is Hermitian -/
theorem hermSymbol_of_real_inv (D N : ℕ) (A : ℕ → ℂ) (hreal : ∀ h, (A h).im = 0)
    (hinv : ∀ h < numModes D N, herm_weight D N h = 1 → A (conjIdx D N h) = A h) : HermSymbol D N A := by
  intro h hh hw
  rw [hinv h hh hw, Complex.conj_eq_iff_im.mpr (hreal h)]

/-! ### truncated Fourier series -/

/-- **real white noise and a real offset: the truncated spectrum is realisable** -/
theorem truncatedSpectrum_realisable (D N cutoff : ℕ) (hD : 0 < D) (hN : 0 < N) (offset : ℂ)
    (ho : offset.im = 0) (noise : Array ℂ) (hn : ∀ j < N ^ D, (noise.getD j 0).im = 0) :
    Realisable D N (truncatedSpectrum D N cutoff offset noise) := by
  have hR := rfftn_realisable' D N hD hN noise hn
  refine ⟨truncatedSpectrum_size D N cutoff offset noise, ?_⟩
  intro h hh hw
  have hh' := conjIdx_lt D N h hD hN
  have h0 := conjIdx_eq_zero_iff D N h hD hN hh hw
  have hm := box_conjIdx_iff D N h (cutoff : ℤ) hD hN hh hw
  rw [truncatedSpectrum_getD D N cutoff offset noise h hh,
    truncatedSpectrum_getD D N cutoff offset noise _ hh']
  by_cases hz : h = 0
  · rw [if_pos hz, if_pos (h0.mpr hz), map_mul, map_pow, Complex.conj_natCast,
      Complex.conj_eq_iff_im.mpr ho]
  · rw [if_neg hz, if_neg (fun q => hz (h0.mp q))]
    by_cases hc : ∀ kd ∈ wnFlat D N h, |kd| ≤ (cutoff : ℤ)
    · rw [if_pos hc, if_pos (hm.mpr hc)]
      exact hR.2 h hh hw
    · rw [if_neg hc, if_neg (fun q => hc (hm.mp q)), map_zero]

/-- **the half spectrum of the returned array IS the truncated spectrum** (whole arrays) -/
theorem rfftn_truncatedSeries (D N cutoff : ℕ) (hD : 0 < D) (hN : 0 < N) (offset : ℂ)
    (ho : offset.im = 0) (noise : Array ℂ) (hn : ∀ j < N ^ D, (noise.getD j 0).im = 0) :
    rfftnM D N (truncatedSeries D N cutoff offset noise) = truncatedSpectrum D N cutoff offset noise := by
  rw [truncatedSeries_eq]
  exact rfftn_irfftn_of_realisable D N hD hN _
    (truncatedSpectrum_realisable D N cutoff hD hN offset ho noise hn)

/-- the returned array is a real grid state -/
theorem truncatedSeries_realState (D N cutoff : ℕ) (hN : 0 < N) (offset : ℂ) (noise : Array ℂ) :
    RealState D N (truncatedSeries D N cutoff offset noise) := by
  rw [truncatedSeries_eq]
  exact irfftn_realState D N hN _

/-- the grid sum of the returned array is `offset · N^D` (real offset; ANY noise) -/
theorem sum_truncatedSeries (D N cutoff : ℕ) (hD : 0 < D) (hN : 0 < N) (offset : ℂ)
    (ho : offset.im = 0) (noise : Array ℂ) :
    ∑ j ∈ range (N ^ D), (truncatedSeries D N cutoff offset noise).getD j 0 = offset * (N : ℂ) ^ D := by
  have hM : 0 < numModes D N := shapeSize_pos _ (wavenumberShape_pos D N hN)
  rw [truncatedSeries_eq, Interp.sum_irfftnM D N hD hN, truncatedSpectrum_zero D N cutoff offset noise hM]
  apply Complex.ext
  · simp
  · rw [Complex.ofReal_im, Complex.mul_im, ho]
    have : (((N : ℂ) ^ D)).im = 0 := by
      rw [← Nat.cast_pow]; exact Complex.natCast_im _
    rw [this]; ring

/-- the sum over the entries of an array as a `Finset` sum -/
theorem sumList_toList (u : Array ℂ) : sumList u.toList = ∑ j ∈ range u.size, u.getD j 0 := by
  have h := Exponax.Gen.sumRange_size_getD u (0 : ℂ) (fun x : ℂ => x)
  rw [List.map_id'] at h
  rw [← h]
  exact Exponax.Nonlin.sumList_range_eq _ _

/-- **the grid mean of the returned array is the requested offset** (real offset; ANY noise) -/
theorem mean_truncatedSeries (D N cutoff : ℕ) (hD : 0 < D) (hN : 0 < N) (offset : ℂ)
    (ho : offset.im = 0) (noise : Array ℂ) :
    IC.mean (truncatedSeries D N cutoff offset noise) = offset := by
  have hs : (truncatedSeries D N cutoff offset noise).size = N ^ D := by
    rw [truncatedSeries_eq]; exact irfftnM_size D N _
  unfold IC.mean
  rw [sumList_toList, hs, sum_truncatedSeries D N cutoff hD hN offset ho noise]
  have : ((N : ℂ) ^ D) ≠ 0 := pow_ne_zero _ (by exact_mod_cast hN.ne')
  show offset * (N : ℂ) ^ D / ((N ^ D : ℕ) : ℂ) = offset
  rw [Nat.cast_pow]
  field_simp

/-! ### diffused noise -/

/-- the diffusion factor at a real intensity and a real extent is a real number -/
theorem diffusionKernel_im (D N : ℕ) (L ν : ℝ) (h : ℕ) :
    (IC2.diffusionKernel D N (L : ℂ) (ν : ℂ) h).im = 0 := by
  have : IC2.diffusionKernel D N (L : ℂ) (ν : ℂ) h
      = Complex.exp (((-(ν * ((2 * Real.pi / L) * (2 * Real.pi / L)) * ((normSq (wnFlat D N h) : ℤ) : ℝ)) : ℝ) : ℂ)) := by
    unfold IC2.diffusionKernel
    simp
  rw [this]
  exact Complex.exp_ofReal_im _

/-- the diffusion factor is Hermitian on the self-conjugate columns -/
theorem diffusionKernel_hermSymbol (D N : ℕ) (hD : 0 < D) (hN : 0 < N) (L ν : ℝ) :
    HermSymbol D N (IC2.diffusionKernel D N (L : ℂ) (ν : ℂ)) := by
  apply hermSymbol_of_real_inv D N _ (diffusionKernel_im D N L ν)
  intro h hh hw
  unfold IC2.diffusionKernel
  rw [normSq_conjIdx D N h hD hN hh hw]

theorem diffusedSpectrum_eq_diagStep (D N : ℕ) (L ν : ℂ) (noise : Array ℂ) :
    IC2.diffusedSpectrum D N L ν noise = diagStep D N (IC2.diffusionKernel D N L ν) (rfftnM D N noise) := rfl

/-- **real white noise, real intensity, real extent: the diffused spectrum is realisable** -/
theorem diffusedSpectrum_realisable (D N : ℕ) (hD : 0 < D) (hN : 0 < N) (L ν : ℝ) (noise : Array ℂ)
    (hn : ∀ j < N ^ D, (noise.getD j 0).im = 0) :
    Realisable D N (IC2.diffusedSpectrum D N (L : ℂ) (ν : ℂ) noise) := by
  rw [diffusedSpectrum_eq_diagStep]
  exact diag_preserves_realisable D N hD hN _ (diffusionKernel_hermSymbol D N hD hN L ν) _
    (rfftn_realisable' D N hD hN noise hn)

/-- **the half spectrum of the (un-normalised) diffused noise IS `kernel ⊙ rfftn noise`** (whole arrays) -/
theorem rfftn_irfftn_diffusedSpectrum (D N : ℕ) (hD : 0 < D) (hN : 0 < N) (L ν : ℝ) (noise : Array ℂ)
    (hn : ∀ j < N ^ D, (noise.getD j 0).im = 0) :
    rfftnM D N (irfftnM D N (IC2.diffusedSpectrum D N (L : ℂ) (ν : ℂ) noise))
      = IC2.diffusedSpectrum D N (L : ℂ) (ν : ℂ) noise :=
  rfftn_irfftn_of_realisable D N hD hN _ (diffusedSpectrum_realisable D N hD hN L ν noise hn)

/-! ### Gaussian random field -/

/-- the power-law amplitude is a real number (the `HasRpow ℂ` instance acts on real parts) -/
theorem powerLawAmplitude_im (D N : ℕ) (L e : ℂ) (h : ℕ) : (IC2.powerLawAmplitude D N L e h).im = 0 := by
  unfold IC2.powerLawAmplitude
  by_cases h0 : h = 0
  · rw [if_pos h0]; simp
  · rw [if_neg h0, hasRpow_complex]; exact Complex.ofReal_im _

theorem wnNorm_conjIdx (D N : ℕ) (L : ℂ) (h : ℕ) (hD : 0 < D) (hN : 0 < N) (hh : h < numModes D N)
    (hw : herm_weight D N h = 1) : IC2.wnNorm D N L (conjIdx D N h) = IC2.wnNorm D N L h := by
  unfold IC2.wnNorm
  rw [map_even_of_natAbs (fun k : ℤ => IC2.scaledWn L k * IC2.scaledWn L k)
    (fun k => by unfold IC2.scaledWn; show _ * ((-k : ℤ) : ℂ) * (_ * ((-k : ℤ) : ℂ)) = _ * ((k : ℤ) : ℂ) * (_ * ((k : ℤ) : ℂ)); push_cast; ring) _ _
    (wnFlat_conjIdx_map_natAbs D N h hD hN hh hw)]

/-- the power-law amplitude is Hermitian on the self-conjugate columns -/
theorem powerLawAmplitude_hermSymbol (D N : ℕ) (hD : 0 < D) (hN : 0 < N) (L e : ℂ) :
    HermSymbol D N (IC2.powerLawAmplitude D N L e) := by
  apply hermSymbol_of_real_inv D N _ (powerLawAmplitude_im D N L e)
  intro h hh hw
  unfold IC2.powerLawAmplitude
  have h0 := conjIdx_eq_zero_iff D N h hD hN hh hw
  by_cases hz : h = 0
  · rw [if_pos hz, if_pos (h0.mpr hz)]
  · rw [if_neg hz, if_neg (fun q => hz (h0.mp q)), wnNorm_conjIdx D N L h hD hN hh hw]

theorem grfSpectrum_eq_diagStep (D N : ℕ) (L e : ℂ) (noise : Array ℂ) :
    IC2.grfSpectrum D N L e noise = diagStep D N (IC2.powerLawAmplitude D N L e) (rfftnM D N noise) := by
  unfold IC2.grfSpectrum diagStep
  congr 1
  funext h
  ring

/-- **real white noise: the power-law shaped spectrum is realisable** (any `L`, `e`) -/
theorem grfSpectrum_realisable (D N : ℕ) (hD : 0 < D) (hN : 0 < N) (L e : ℂ) (noise : Array ℂ)
    (hn : ∀ j < N ^ D, (noise.getD j 0).im = 0) : Realisable D N (IC2.grfSpectrum D N L e noise) := by
  rw [grfSpectrum_eq_diagStep]
  exact diag_preserves_realisable D N hD hN _ (powerLawAmplitude_hermSymbol D N hD hN L e) _
    (rfftn_realisable' D N hD hN noise hn)

/-- **the half spectrum of the (un-normalised) Gaussian random field IS the shaped spectrum** -/
theorem rfftn_irfftn_grfSpectrum (D N : ℕ) (hD : 0 < D) (hN : 0 < N) (L e : ℂ) (noise : Array ℂ)
    (hn : ∀ j < N ^ D, (noise.getD j 0).im = 0) :
    rfftnM D N (irfftnM D N (IC2.grfSpectrum D N L e noise)) = IC2.grfSpectrum D N L e noise :=
  rfftn_irfftn_of_realisable D N hD hN _ (grfSpectrum_realisable D N hD hN L e noise hn)

/-- `normalize_ic` with all three flags off is the identity -/
theorem normalizeIc_off (u : Array ℂ) : IC.normalizeIc false false false u = u := rfl

end Exponax.ICOut
