import ExponaxModel.Proofs.NonlinFunsEq
import ExponaxModel.Proofs.StepperWiringArgs
/-
The WIRING of the stepper classes, tied to the source by translation — part 2: the nonlinear function.

`Gen.StepperWiring.X_nonlinear_fun` is regenerated from `X._build_nonlinear_fun`: the regenerated `__call__` of the
nonlinear-function class the source instantiates (`Gen.NonlinFuns.*_call`), applied to exactly the arguments the
    source
passes (keywords resolved against the nonlinear class's `__init__`, defaults for the keywords that are not passed).
`Gen.StepperWiring.X_stepper_nonlinear_fun` composes it with `X.__init__` (constructor arguments → stored attributes,
`num_channels`), through `super().__init__` for the `Normalized*` / `Difficulty*` classes.

For every class `X`:
 * `X_nonlinear_fun_eq`          (classes with their own `_build_nonlinear_fun`): it is the documented model term of
                                 `Model/Nonlin.lean` on the attributes — `convection c C scale single conservative`,
                                 `gradientNorm`, `polynomial`, `general`, `vorticity2d`, `projected3d`, `reaction`,
                                 `cahnHilliard`, zero — with the stepper's dealiasing fraction (`withDF c df`);
 * `X_stepper_nonlinear_fun_eq`  the same in terms of the CONSTRUCTOR arguments on `num_channels` channels: every
                                 Boolean option (`single_channel`, `conservative`), every scale and the dealiasing
                                 fraction reach the nonlinear function unchanged; `Difficulty*`: through the
                                     documented
                                 conversion `δ / (M·N·D)`, `δ / (M·N²·D)`.
Hypotheses are the guards the source raises on (`num_spatial_dims = 2 / 3`), `a.num_spatial_dims = c.D` (the
derivative operator handed to `_build_nonlinear_fun` is that of the stepper: checked by the translator on
`BaseStepper.__init__`), realness of `c.s = 2π/L` for the Kolmogorov vorticity forcing and `0 < injection_mode` for
the 3-D Kolmogorov forcing (both inherited from `Proofs/NonlinFunsEq.lean`).  The guards of the nonlinear functions
on the channel count are DISCHARGED here by the number of channels the stepper declares.
All theorems of `Proofs/` and `Properties/` about the model terms transfer to the regenerated wiring by rewriting.
-/
set_option linter.unusedVariables false
set_option linter.unusedSimpArgs false
namespace Exponax.StepperWiringEq
open Exponax Exponax.Layout Exponax.Transform Exponax.Nonlin Exponax.Gen.StepperWiring Exponax.Gen.Convert
open Exponax.NonlinFunsEq

/-- the stepper's configuration with the dealiasing fraction `df = (fp, fq)` handed to the nonlinear function -/
def withDF (c : Cfg ℂ) (df : ℕ × ℕ) : Cfg ℂ := { c with fp := df.1, fq := df.2 }

@[simp] theorem withDF_D (c : Cfg ℂ) (df : ℕ × ℕ) : (withDF c df).D = c.D := rfl
@[simp] theorem withDF_N (c : Cfg ℂ) (df : ℕ × ℕ) : (withDF c df).N = c.N := rfl
@[simp] theorem withDF_s (c : Cfg ℂ) (df : ℕ × ℕ) : (withDF c df).s = c.s := rfl
@[simp] theorem withDF_fp (c : Cfg ℂ) (df : ℕ × ℕ) : (withDF c df).fp = df.1 := rfl
@[simp] theorem withDF_fq (c : Cfg ℂ) (df : ℕ × ℕ) : (withDF c df).fq = df.2 := rfl
@[simp] theorem modes_withDF (c : Cfg ℂ) (df : ℕ × ℕ) : modes (withDF c df) = modes c := rfl

/-- the zero nonlinear function on `C` channels -/
def zeroNonlin (c : Cfg ℂ) (C : ℕ) : MC ℂ := tab2 C (modes c) (fun _ _ => 0)

/-! ### classes with their own `_build_nonlinear_fun` -/

theorem Advection_nonlinear_fun_eq (c : Cfg ℂ) (C : ℕ) (uh : MC ℂ) :
    Advection_nonlinear_fun c C uh =
      zeroNonlin c C :=
  ZeroNonlinearFun_call_eq c C uh

theorem Advection_stepper_nonlinear_fun_eq (c : Cfg ℂ) (a : AdvectionArgs ℂ) (uh : MC ℂ) :
    Advection_stepper_nonlinear_fun c a uh =
      zeroNonlin c 1 := by
  unfold Advection_stepper_nonlinear_fun
  rw [Advection_num_channels_eq]
  exact Advection_nonlinear_fun_eq c _ uh

theorem AdvectionDiffusion_nonlinear_fun_eq (c : Cfg ℂ) (C : ℕ) (uh : MC ℂ) :
    AdvectionDiffusion_nonlinear_fun c C uh =
      zeroNonlin c C :=
  ZeroNonlinearFun_call_eq c C uh

theorem AdvectionDiffusion_stepper_nonlinear_fun_eq (c : Cfg ℂ) (a : AdvectionDiffusionArgs ℂ) (uh : MC ℂ) :
    AdvectionDiffusion_stepper_nonlinear_fun c a uh =
      zeroNonlin c 1 := by
  unfold AdvectionDiffusion_stepper_nonlinear_fun
  rw [AdvectionDiffusion_num_channels_eq]
  exact AdvectionDiffusion_nonlinear_fun_eq c _ uh

theorem AllenCahn_nonlinear_fun_eq (c : Cfg ℂ) (C : ℕ) (third_order_coefficient : ℂ) (dealiasing_fraction : ℕ × ℕ)
    (uh : MC ℂ) :
    AllenCahn_nonlinear_fun c C third_order_coefficient dealiasing_fraction uh =
      polynomial (withDF c dealiasing_fraction) C [0, 0, 0, third_order_coefficient] uh := by
  simp only [AllenCahn_nonlinear_fun, PolynomialNonlinearFun_call_eq, lit_zero]
  rfl

theorem AllenCahn_stepper_nonlinear_fun_eq (c : Cfg ℂ) (a : AllenCahnArgs ℂ) (uh : MC ℂ) :
    AllenCahn_stepper_nonlinear_fun c a uh =
      polynomial (withDF c a.dealiasing_fraction) 1 [0, 0, 0, a.third_order_coefficient] uh := by
  unfold AllenCahn_stepper_nonlinear_fun
  rw [AllenCahn_num_channels_eq, AllenCahn_attrs_eq]
  exact AllenCahn_nonlinear_fun_eq c _ _ _ uh

theorem BelousovZhabotinsky_nonlinear_fun_eq (c : Cfg ℂ) (C : ℕ) (dealiasing_fraction : ℕ × ℕ) (uh : MC ℂ)
    (hC : C = 3) :
    BelousovZhabotinsky_nonlinear_fun c C dealiasing_fraction uh =
      reaction (withDF c dealiasing_fraction) C bzReact uh :=
  BelousovZhabotinskyNonlinearFun_call_eq (withDF c dealiasing_fraction) C hC uh

theorem BelousovZhabotinsky_stepper_nonlinear_fun_eq (c : Cfg ℂ) (a : BelousovZhabotinskyArgs ℂ) (uh : MC ℂ) :
    BelousovZhabotinsky_stepper_nonlinear_fun c a uh =
      reaction (withDF c a.dealiasing_fraction) 3 bzReact uh := by
  unfold BelousovZhabotinsky_stepper_nonlinear_fun
  rw [BelousovZhabotinsky_num_channels_eq, BelousovZhabotinsky_attrs_eq]
  exact BelousovZhabotinsky_nonlinear_fun_eq c _ _ uh rfl

theorem Burgers_nonlinear_fun_eq (c : Cfg ℂ) (C : ℕ) (convection_scale : ℂ) (dealiasing_fraction : ℕ × ℕ)
    (single_channel : Bool) (conservative : Bool) (uh : MC ℂ)
    (hC : if single_channel then (conservative = false → C = 1) else C = c.D) :
    Burgers_nonlinear_fun c C convection_scale dealiasing_fraction single_channel conservative uh =
      convection (withDF c dealiasing_fraction) C convection_scale single_channel conservative uh :=
  ConvectionNonlinearFun_call_eq (withDF c dealiasing_fraction) C convection_scale single_channel conservative uh hC

theorem Burgers_stepper_nonlinear_fun_eq (c : Cfg ℂ) (a : BurgersArgs ℂ) (uh : MC ℂ)
    (hD : a.num_spatial_dims = c.D) :
    Burgers_stepper_nonlinear_fun c a uh =
      convection (withDF c a.dealiasing_fraction) (if a.single_channel then 1 else c.D) a.convection_scale
        a.single_channel a.conservative uh := by
  unfold Burgers_stepper_nonlinear_fun
  rw [Burgers_num_channels_eq, Burgers_attrs_eq]
  rw [hD]
  apply Burgers_nonlinear_fun_eq
  cases a.single_channel <;> simp

theorem CahnHilliard_nonlinear_fun_eq (c : Cfg ℂ) (C : ℕ) (diffusivity : ℂ) (third_order_coefficient : ℂ)
    (dealiasing_fraction : ℕ × ℕ) (uh : MC ℂ)
    (hC : 0 < C) :
    CahnHilliard_nonlinear_fun c C diffusivity third_order_coefficient dealiasing_fraction uh =
      cahnHilliard (withDF c dealiasing_fraction) (diffusivity * third_order_coefficient) uh :=
  CahnHilliardNonlinearFun_call_eq (withDF c dealiasing_fraction) C hC (diffusivity * third_order_coefficient) uh

theorem CahnHilliard_stepper_nonlinear_fun_eq (c : Cfg ℂ) (a : CahnHilliardArgs ℂ) (uh : MC ℂ) :
    CahnHilliard_stepper_nonlinear_fun c a uh =
      cahnHilliard (withDF c a.dealiasing_fraction) (a.diffusivity * a.third_order_coefficient) uh := by
  unfold CahnHilliard_stepper_nonlinear_fun
  rw [CahnHilliard_num_channels_eq, CahnHilliard_attrs_eq]
  exact CahnHilliard_nonlinear_fun_eq c _ _ _ _ uh Nat.one_pos

theorem GeneralConvectionStepper_nonlinear_fun_eq (c : Cfg ℂ) (C : ℕ) (convection_scale : ℂ) (dealiasing_fraction : ℕ
    × ℕ) (single_channel : Bool) (conservative : Bool) (uh : MC ℂ)
    (hC : if single_channel then (conservative = false → C = 1) else C = c.D) :
    GeneralConvectionStepper_nonlinear_fun c C convection_scale dealiasing_fraction single_channel conservative uh =
      convection (withDF c dealiasing_fraction) C convection_scale single_channel conservative uh :=
  ConvectionNonlinearFun_call_eq (withDF c dealiasing_fraction) C convection_scale single_channel conservative uh hC

theorem GeneralConvectionStepper_stepper_nonlinear_fun_eq (c : Cfg ℂ) (a : GeneralConvectionStepperArgs ℂ) (uh : MC ℂ)
    (hD : a.num_spatial_dims = c.D) :
    GeneralConvectionStepper_stepper_nonlinear_fun c a uh =
      convection (withDF c a.dealiasing_fraction) (if a.single_channel then 1 else c.D) a.convection_scale
        a.single_channel a.conservative uh := by
  unfold GeneralConvectionStepper_stepper_nonlinear_fun
  rw [GeneralConvectionStepper_num_channels_eq, GeneralConvectionStepper_attrs_eq]
  rw [hD]
  apply GeneralConvectionStepper_nonlinear_fun_eq
  cases a.single_channel <;> simp

theorem GeneralGradientNormStepper_nonlinear_fun_eq (c : Cfg ℂ) (C : ℕ) (gradient_norm_scale : ℂ)
    (dealiasing_fraction : ℕ × ℕ) (uh : MC ℂ) :
    GeneralGradientNormStepper_nonlinear_fun c C gradient_norm_scale dealiasing_fraction uh =
      gradientNorm (withDF c dealiasing_fraction) C gradient_norm_scale true uh :=
  GradientNormNonlinearFun_call_eq (withDF c dealiasing_fraction) C gradient_norm_scale true uh

theorem GeneralGradientNormStepper_stepper_nonlinear_fun_eq (c : Cfg ℂ) (a : GeneralGradientNormStepperArgs ℂ) (uh :
    MC ℂ) :
    GeneralGradientNormStepper_stepper_nonlinear_fun c a uh =
      gradientNorm (withDF c a.dealiasing_fraction) 1 a.gradient_norm_scale true uh := by
  unfold GeneralGradientNormStepper_stepper_nonlinear_fun
  rw [GeneralGradientNormStepper_num_channels_eq, GeneralGradientNormStepper_attrs_eq]
  exact GeneralGradientNormStepper_nonlinear_fun_eq c _ _ _ uh

theorem GeneralLinearStepper_nonlinear_fun_eq (c : Cfg ℂ) (C : ℕ) (uh : MC ℂ) :
    GeneralLinearStepper_nonlinear_fun c C uh =
      zeroNonlin c C :=
  ZeroNonlinearFun_call_eq c C uh

theorem GeneralLinearStepper_stepper_nonlinear_fun_eq (c : Cfg ℂ) (a : GeneralLinearStepperArgs ℂ) (uh : MC ℂ) :
    GeneralLinearStepper_stepper_nonlinear_fun c a uh =
      zeroNonlin c 1 := by
  unfold GeneralLinearStepper_stepper_nonlinear_fun
  rw [GeneralLinearStepper_num_channels_eq]
  exact GeneralLinearStepper_nonlinear_fun_eq c _ uh

theorem GeneralNonlinearStepper_nonlinear_fun_eq (c : Cfg ℂ) (C : ℕ) (nonlinear_coefficients : ℂ × ℂ × ℂ)
    (dealiasing_fraction : ℕ × ℕ) (uh : MC ℂ) :
    GeneralNonlinearStepper_nonlinear_fun c C nonlinear_coefficients dealiasing_fraction uh =
      general (withDF c dealiasing_fraction) C nonlinear_coefficients.1 nonlinear_coefficients.2.1
          nonlinear_coefficients.2.2 true uh := by
  obtain ⟨s0, s1, s2⟩ := nonlinear_coefficients
  exact GeneralNonlinearFun_call_eq (withDF c dealiasing_fraction) C s0 s1 s2 true uh

theorem GeneralNonlinearStepper_stepper_nonlinear_fun_eq (c : Cfg ℂ) (a : GeneralNonlinearStepperArgs ℂ) (uh : MC ℂ) :
    GeneralNonlinearStepper_stepper_nonlinear_fun c a uh =
      general (withDF c a.dealiasing_fraction) 1 a.nonlinear_coefficients.1 a.nonlinear_coefficients.2.1
        a.nonlinear_coefficients.2.2 true uh := by
  unfold GeneralNonlinearStepper_stepper_nonlinear_fun
  rw [GeneralNonlinearStepper_num_channels_eq, GeneralNonlinearStepper_attrs_eq]
  exact GeneralNonlinearStepper_nonlinear_fun_eq c _ _ _ uh

theorem GeneralPolynomialStepper_nonlinear_fun_eq (c : Cfg ℂ) (C : ℕ) (polynomial_coefficients : List ℂ)
    (dealiasing_fraction : ℕ × ℕ) (uh : MC ℂ) :
    GeneralPolynomialStepper_nonlinear_fun c C polynomial_coefficients dealiasing_fraction uh =
      polynomial (withDF c dealiasing_fraction) C polynomial_coefficients uh :=
  PolynomialNonlinearFun_call_eq (withDF c dealiasing_fraction) C polynomial_coefficients uh

theorem GeneralPolynomialStepper_stepper_nonlinear_fun_eq (c : Cfg ℂ) (a : GeneralPolynomialStepperArgs ℂ) (uh : MC
    ℂ) :
    GeneralPolynomialStepper_stepper_nonlinear_fun c a uh =
      polynomial (withDF c a.dealiasing_fraction) 1 a.polynomial_coefficients uh := by
  unfold GeneralPolynomialStepper_stepper_nonlinear_fun
  rw [GeneralPolynomialStepper_num_channels_eq, GeneralPolynomialStepper_attrs_eq]
  exact GeneralPolynomialStepper_nonlinear_fun_eq c _ _ _ uh

theorem Diffusion_nonlinear_fun_eq (c : Cfg ℂ) (C : ℕ) (uh : MC ℂ) :
    Diffusion_nonlinear_fun c C uh =
      zeroNonlin c C :=
  ZeroNonlinearFun_call_eq c C uh

theorem Diffusion_stepper_nonlinear_fun_eq (c : Cfg ℂ) (a : DiffusionArgs ℂ) (uh : MC ℂ) :
    Diffusion_stepper_nonlinear_fun c a uh =
      zeroNonlin c 1 := by
  unfold Diffusion_stepper_nonlinear_fun
  rw [Diffusion_num_channels_eq]
  exact Diffusion_nonlinear_fun_eq c _ uh

theorem Dispersion_nonlinear_fun_eq (c : Cfg ℂ) (C : ℕ) (uh : MC ℂ) :
    Dispersion_nonlinear_fun c C uh =
      zeroNonlin c C :=
  ZeroNonlinearFun_call_eq c C uh

theorem Dispersion_stepper_nonlinear_fun_eq (c : Cfg ℂ) (a : DispersionArgs ℂ) (uh : MC ℂ) :
    Dispersion_stepper_nonlinear_fun c a uh =
      zeroNonlin c 1 := by
  unfold Dispersion_stepper_nonlinear_fun
  rw [Dispersion_num_channels_eq]
  exact Dispersion_nonlinear_fun_eq c _ uh

theorem FisherKPP_nonlinear_fun_eq (c : Cfg ℂ) (C : ℕ) (reactivity : ℂ) (dealiasing_fraction : ℕ × ℕ) (uh : MC ℂ) :
    FisherKPP_nonlinear_fun c C reactivity dealiasing_fraction uh =
      polynomial (withDF c dealiasing_fraction) C [0, 0, -reactivity] uh := by
  simp only [FisherKPP_nonlinear_fun, PolynomialNonlinearFun_call_eq, lit_zero]
  rfl

theorem FisherKPP_stepper_nonlinear_fun_eq (c : Cfg ℂ) (a : FisherKPPArgs ℂ) (uh : MC ℂ) :
    FisherKPP_stepper_nonlinear_fun c a uh =
      polynomial (withDF c a.dealiasing_fraction) 1 [0, 0, -a.reactivity] uh := by
  unfold FisherKPP_stepper_nonlinear_fun
  rw [FisherKPP_num_channels_eq, FisherKPP_attrs_eq]
  exact FisherKPP_nonlinear_fun_eq c _ _ _ uh

theorem GeneralVorticityConvectionStepper_nonlinear_fun_eq (c : Cfg ℂ) (vorticity_convection_scale : ℂ)
    (injection_mode : ℕ) (injection_scale : ℂ) (dealiasing_fraction : ℕ × ℕ) (injection_scale_is_number : Bool) (uh :
        MC ℂ)
    (s : ℝ) (hs : c.s = (s : ℂ)) :
    GeneralVorticityConvectionStepper_nonlinear_fun c vorticity_convection_scale injection_mode injection_scale
        dealiasing_fraction injection_scale_is_number uh =
      vorticity2d (withDF c dealiasing_fraction) vorticity_convection_scale
        (if injection_scale_is_number = true ∧ injection_scale = 0 then none else some (injection_mode,
            injection_scale)) uh := by
  unfold GeneralVorticityConvectionStepper_nonlinear_fun
  by_cases h : injection_scale_is_number = true ∧ injection_scale = 0
  · have h' : (injection_scale_is_number && HasIsZero.isZero injection_scale) = true := by
      simp [HasIsZero.isZero, h.1, h.2]
    rw [if_pos h', if_pos h]
    exact VorticityConvection2d_call_eq (withDF c dealiasing_fraction) vorticity_convection_scale uh
  · have h' : ¬ (injection_scale_is_number && HasIsZero.isZero injection_scale) = true := by
      simpa [HasIsZero.isZero] using h
    rw [if_neg h', if_neg h]
    exact VorticityConvection2dKolmogorov_call_eq (withDF c dealiasing_fraction) s hs vorticity_convection_scale
        injection_mode
      injection_scale uh

theorem GeneralVorticityConvectionStepper_stepper_nonlinear_fun_eq (c : Cfg ℂ) (a :
    GeneralVorticityConvectionStepperArgs ℂ) (injection_scale_is_number : Bool) (uh : MC ℂ)
    (s : ℝ) (hs : c.s = (s : ℂ)) :
    GeneralVorticityConvectionStepper_stepper_nonlinear_fun c a injection_scale_is_number uh =
      vorticity2d (withDF c a.dealiasing_fraction) a.vorticity_convection_scale
        (if injection_scale_is_number = true ∧ a.injection_scale = 0 then none else some (a.injection_mode,
            a.injection_scale)) uh := by
  unfold GeneralVorticityConvectionStepper_stepper_nonlinear_fun
  rw [GeneralVorticityConvectionStepper_attrs_eq]
  exact GeneralVorticityConvectionStepper_nonlinear_fun_eq c _ _ _ _ _ uh s hs

theorem GrayScott_nonlinear_fun_eq (c : Cfg ℂ) (C : ℕ) (feed_rate : ℂ) (kill_rate : ℂ) (dealiasing_fraction : ℕ × ℕ)
    (uh : MC ℂ)
    (hC : C = 2) :
    GrayScott_nonlinear_fun c C feed_rate kill_rate dealiasing_fraction uh =
      reaction (withDF c dealiasing_fraction) C (grayScottReact feed_rate kill_rate) uh :=
  GrayScottNonlinearFun_call_eq (withDF c dealiasing_fraction) C hC feed_rate kill_rate uh

theorem GrayScott_stepper_nonlinear_fun_eq (c : Cfg ℂ) (a : GrayScottArgs ℂ) (uh : MC ℂ) :
    GrayScott_stepper_nonlinear_fun c a uh =
      reaction (withDF c a.dealiasing_fraction) 2 (grayScottReact a.feed_rate a.kill_rate) uh := by
  unfold GrayScott_stepper_nonlinear_fun
  rw [GrayScott_num_channels_eq, GrayScott_attrs_eq]
  exact GrayScott_nonlinear_fun_eq c _ _ _ _ uh rfl

theorem HyperDiffusion_nonlinear_fun_eq (c : Cfg ℂ) (C : ℕ) (uh : MC ℂ) :
    HyperDiffusion_nonlinear_fun c C uh =
      zeroNonlin c C :=
  ZeroNonlinearFun_call_eq c C uh

theorem HyperDiffusion_stepper_nonlinear_fun_eq (c : Cfg ℂ) (a : HyperDiffusionArgs ℂ) (uh : MC ℂ) :
    HyperDiffusion_stepper_nonlinear_fun c a uh =
      zeroNonlin c 1 := by
  unfold HyperDiffusion_stepper_nonlinear_fun
  rw [HyperDiffusion_num_channels_eq]
  exact HyperDiffusion_nonlinear_fun_eq c _ uh

theorem KolmogorovFlowVelocity_nonlinear_fun_eq (c : Cfg ℂ) (injection_mode : ℕ) (injection_scale : ℂ)
    (dealiasing_fraction : ℕ × ℕ) (uh : MC ℂ)
    (hD : c.D = 3) (hm : 0 < injection_mode) :
    KolmogorovFlowVelocity_nonlinear_fun c injection_mode injection_scale dealiasing_fraction uh =
      projected3d (withDF c dealiasing_fraction) (some (injection_mode, injection_scale)) uh :=
  ProjectedConvection3dKolmogorov_call_eq (withDF c dealiasing_fraction) hD injection_mode hm injection_scale uh

theorem KolmogorovFlowVelocity_stepper_nonlinear_fun_eq (c : Cfg ℂ) (a : KolmogorovFlowVelocityArgs ℂ) (uh : MC ℂ)
    (hD : c.D = 3) (hm : 0 < a.injection_mode) :
    KolmogorovFlowVelocity_stepper_nonlinear_fun c a uh =
      projected3d (withDF c a.dealiasing_fraction) (some (a.injection_mode, a.injection_scale)) uh := by
  unfold KolmogorovFlowVelocity_stepper_nonlinear_fun
  rw [KolmogorovFlowVelocity_attrs_eq]
  exact KolmogorovFlowVelocity_nonlinear_fun_eq c _ _ _ uh hD hm

theorem KolmogorovFlowVorticity_nonlinear_fun_eq (c : Cfg ℂ) (convection_scale : ℂ) (injection_mode : ℕ)
    (injection_scale : ℂ) (dealiasing_fraction : ℕ × ℕ) (uh : MC ℂ)
    (s : ℝ) (hs : c.s = (s : ℂ)) :
    KolmogorovFlowVorticity_nonlinear_fun c convection_scale injection_mode injection_scale dealiasing_fraction uh =
      vorticity2d (withDF c dealiasing_fraction) convection_scale (some (injection_mode, injection_scale)) uh :=
  VorticityConvection2dKolmogorov_call_eq (withDF c dealiasing_fraction) s hs convection_scale injection_mode
      injection_scale uh

theorem KolmogorovFlowVorticity_stepper_nonlinear_fun_eq (c : Cfg ℂ) (a : KolmogorovFlowVorticityArgs ℂ) (uh : MC ℂ)
    (s : ℝ) (hs : c.s = (s : ℂ)) :
    KolmogorovFlowVorticity_stepper_nonlinear_fun c a uh =
      vorticity2d (withDF c a.dealiasing_fraction) a.convection_scale (some (a.injection_mode, a.injection_scale)) uh
          := by
  unfold KolmogorovFlowVorticity_stepper_nonlinear_fun
  rw [KolmogorovFlowVorticity_attrs_eq]
  exact KolmogorovFlowVorticity_nonlinear_fun_eq c _ _ _ _ uh s hs

theorem KortewegDeVries_nonlinear_fun_eq (c : Cfg ℂ) (C : ℕ) (convection_scale : ℂ) (dealiasing_fraction : ℕ × ℕ)
    (single_channel : Bool) (conservative : Bool) (uh : MC ℂ)
    (hC : if single_channel then (conservative = false → C = 1) else C = c.D) :
    KortewegDeVries_nonlinear_fun c C convection_scale dealiasing_fraction single_channel conservative uh =
      convection (withDF c dealiasing_fraction) C convection_scale single_channel conservative uh :=
  ConvectionNonlinearFun_call_eq (withDF c dealiasing_fraction) C convection_scale single_channel conservative uh hC

theorem KortewegDeVries_stepper_nonlinear_fun_eq (c : Cfg ℂ) (a : KortewegDeVriesArgs ℂ) (uh : MC ℂ)
    (hD : a.num_spatial_dims = c.D) :
    KortewegDeVries_stepper_nonlinear_fun c a uh =
      convection (withDF c a.dealiasing_fraction) (if a.single_channel then 1 else c.D) a.convection_scale
        a.single_channel a.conservative uh := by
  unfold KortewegDeVries_stepper_nonlinear_fun
  rw [KortewegDeVries_num_channels_eq, KortewegDeVries_attrs_eq]
  rw [hD]
  apply KortewegDeVries_nonlinear_fun_eq
  cases a.single_channel <;> simp

theorem KuramotoSivashinsky_nonlinear_fun_eq (c : Cfg ℂ) (C : ℕ) (gradient_norm_scale : ℂ) (dealiasing_fraction : ℕ ×
    ℕ) (uh : MC ℂ) :
    KuramotoSivashinsky_nonlinear_fun c C gradient_norm_scale dealiasing_fraction uh =
      gradientNorm (withDF c dealiasing_fraction) C gradient_norm_scale true uh :=
  GradientNormNonlinearFun_call_eq (withDF c dealiasing_fraction) C gradient_norm_scale true uh

theorem KuramotoSivashinsky_stepper_nonlinear_fun_eq (c : Cfg ℂ) (a : KuramotoSivashinskyArgs ℂ) (uh : MC ℂ) :
    KuramotoSivashinsky_stepper_nonlinear_fun c a uh =
      gradientNorm (withDF c a.dealiasing_fraction) 1 a.gradient_norm_scale true uh := by
  unfold KuramotoSivashinsky_stepper_nonlinear_fun
  rw [KuramotoSivashinsky_num_channels_eq, KuramotoSivashinsky_attrs_eq]
  exact KuramotoSivashinsky_nonlinear_fun_eq c _ _ _ uh

theorem KuramotoSivashinskyConservative_nonlinear_fun_eq (c : Cfg ℂ) (C : ℕ) (convection_scale : ℂ) (single_channel :
    Bool) (conservative : Bool) (dealiasing_fraction : ℕ × ℕ) (uh : MC ℂ)
    (hC : if single_channel then (conservative = false → C = 1) else C = c.D) :
    KuramotoSivashinskyConservative_nonlinear_fun c C convection_scale single_channel conservative
        dealiasing_fraction uh =
      convection (withDF c dealiasing_fraction) C convection_scale single_channel conservative uh :=
  ConvectionNonlinearFun_call_eq (withDF c dealiasing_fraction) C convection_scale single_channel conservative uh hC

theorem KuramotoSivashinskyConservative_stepper_nonlinear_fun_eq (c : Cfg ℂ) (a : KuramotoSivashinskyConservativeArgs
    ℂ) (uh : MC ℂ)
    (hD : a.num_spatial_dims = c.D) :
    KuramotoSivashinskyConservative_stepper_nonlinear_fun c a uh =
      convection (withDF c a.dealiasing_fraction) (if a.single_channel then 1 else c.D) a.convection_scale
        a.single_channel a.conservative uh := by
  unfold KuramotoSivashinskyConservative_stepper_nonlinear_fun
  rw [KuramotoSivashinskyConservative_num_channels_eq, KuramotoSivashinskyConservative_attrs_eq]
  rw [hD]
  apply KuramotoSivashinskyConservative_nonlinear_fun_eq
  cases a.single_channel <;> simp

theorem NavierStokesVelocity_nonlinear_fun_eq (c : Cfg ℂ) (dealiasing_fraction : ℕ × ℕ) (uh : MC ℂ)
    (hD : c.D = 3) :
    NavierStokesVelocity_nonlinear_fun c dealiasing_fraction uh =
      projected3d (withDF c dealiasing_fraction) none uh :=
  ProjectedConvection3d_call_eq (withDF c dealiasing_fraction) hD uh

theorem NavierStokesVelocity_stepper_nonlinear_fun_eq (c : Cfg ℂ) (a : NavierStokesVelocityArgs ℂ) (uh : MC ℂ)
    (hD : c.D = 3) :
    NavierStokesVelocity_stepper_nonlinear_fun c a uh =
      projected3d (withDF c a.dealiasing_fraction) none uh := by
  unfold NavierStokesVelocity_stepper_nonlinear_fun
  rw [NavierStokesVelocity_attrs_eq]
  exact NavierStokesVelocity_nonlinear_fun_eq c _ uh hD

theorem NavierStokesVorticity_nonlinear_fun_eq (c : Cfg ℂ) (vorticity_convection_scale : ℂ) (dealiasing_fraction : ℕ
    × ℕ) (uh : MC ℂ) :
    NavierStokesVorticity_nonlinear_fun c vorticity_convection_scale dealiasing_fraction uh =
      vorticity2d (withDF c dealiasing_fraction) vorticity_convection_scale none uh :=
  VorticityConvection2d_call_eq (withDF c dealiasing_fraction) vorticity_convection_scale uh

theorem NavierStokesVorticity_stepper_nonlinear_fun_eq (c : Cfg ℂ) (a : NavierStokesVorticityArgs ℂ) (uh : MC ℂ) :
    NavierStokesVorticity_stepper_nonlinear_fun c a uh =
      vorticity2d (withDF c a.dealiasing_fraction) a.vorticity_convection_scale none uh := by
  unfold NavierStokesVorticity_stepper_nonlinear_fun
  rw [NavierStokesVorticity_attrs_eq]
  exact NavierStokesVorticity_nonlinear_fun_eq c _ _ uh

theorem SwiftHohenberg_nonlinear_fun_eq (c : Cfg ℂ) (C : ℕ) (polynomial_coefficients : List ℂ) (dealiasing_fraction :
    ℕ × ℕ) (uh : MC ℂ) :
    SwiftHohenberg_nonlinear_fun c C polynomial_coefficients dealiasing_fraction uh =
      polynomial (withDF c dealiasing_fraction) C polynomial_coefficients uh :=
  PolynomialNonlinearFun_call_eq (withDF c dealiasing_fraction) C polynomial_coefficients uh

theorem SwiftHohenberg_stepper_nonlinear_fun_eq (c : Cfg ℂ) (a : SwiftHohenbergArgs ℂ) (uh : MC ℂ) :
    SwiftHohenberg_stepper_nonlinear_fun c a uh =
      polynomial (withDF c a.dealiasing_fraction) 1 a.polynomial_coefficients uh := by
  unfold SwiftHohenberg_stepper_nonlinear_fun
  rw [SwiftHohenberg_num_channels_eq, SwiftHohenberg_attrs_eq]
  exact SwiftHohenberg_nonlinear_fun_eq c _ _ _ uh

theorem Wave_nonlinear_fun_eq (c : Cfg ℂ) (C : ℕ) (uh : MC ℂ) :
    Wave_nonlinear_fun c C uh =
      zeroNonlin c C :=
  ZeroNonlinearFun_call_eq c C uh

theorem Wave_stepper_nonlinear_fun_eq (c : Cfg ℂ) (a : WaveArgs ℂ) (uh : MC ℂ) :
    Wave_stepper_nonlinear_fun c a uh =
      zeroNonlin c 2 := by
  unfold Wave_stepper_nonlinear_fun
  rw [Wave_num_channels_eq]
  exact Wave_nonlinear_fun_eq c _ uh

/-! ### classes that inherit `_build_nonlinear_fun`: `Normalized*` (user's values at `L = 1`, `dt = 1`), `Difficulty*`
     (documented conversion), every flag unchanged -/

theorem NormalizedConvectionStepper_stepper_nonlinear_fun_eq (c : Cfg ℂ) (a : NormalizedConvectionStepperArgs ℂ) (uh
    : MC ℂ)
    (hD : a.num_spatial_dims = c.D) :
    NormalizedConvectionStepper_stepper_nonlinear_fun c a uh =
      convection (withDF c a.dealiasing_fraction) (if a.single_channel then 1 else c.D) a.normalized_convection_scale
        a.single_channel a.conservative uh := by
  unfold NormalizedConvectionStepper_stepper_nonlinear_fun
  rw [NormalizedConvectionStepper_super_args_eq]
  refine (GeneralConvectionStepper_stepper_nonlinear_fun_eq c _ uh hD).trans ?_
  simp only [extract_convection_eq, extract_gradient_norm_eq, extract_nonlinear_eq]

theorem DifficultyConvectionStepper_stepper_nonlinear_fun_eq (c : Cfg ℂ) (a : DifficultyConvectionStepperArgs ℂ) (uh
    : MC ℂ)
    (hD : a.num_spatial_dims = c.D) :
    DifficultyConvectionStepper_stepper_nonlinear_fun c a uh =
      convection (withDF c a.dealiasing_fraction) (if a.single_channel then 1 else c.D)
        (a.convection_difficulty / (a.maximum_absolute * a.num_points * a.num_spatial_dims)) a.single_channel
            a.conservative uh := by
  unfold DifficultyConvectionStepper_stepper_nonlinear_fun
  rw [DifficultyConvectionStepper_super_args_eq]
  refine (NormalizedConvectionStepper_stepper_nonlinear_fun_eq c _ uh hD).trans ?_
  simp only [extract_convection_eq, extract_gradient_norm_eq, extract_nonlinear_eq]

theorem NormalizedGradientNormStepper_stepper_nonlinear_fun_eq (c : Cfg ℂ) (a : NormalizedGradientNormStepperArgs ℂ)
    (uh : MC ℂ) :
    NormalizedGradientNormStepper_stepper_nonlinear_fun c a uh =
      gradientNorm (withDF c a.dealiasing_fraction) 1 a.normalized_gradient_norm_scale true uh := by
  unfold NormalizedGradientNormStepper_stepper_nonlinear_fun
  rw [NormalizedGradientNormStepper_super_args_eq]
  refine (GeneralGradientNormStepper_stepper_nonlinear_fun_eq c _ uh).trans ?_
  simp only [extract_convection_eq, extract_gradient_norm_eq, extract_nonlinear_eq]

theorem DifficultyGradientNormStepper_stepper_nonlinear_fun_eq (c : Cfg ℂ) (a : DifficultyGradientNormStepperArgs ℂ)
    (uh : MC ℂ) :
    DifficultyGradientNormStepper_stepper_nonlinear_fun c a uh =
      gradientNorm (withDF c a.dealiasing_fraction) 1 (a.gradient_norm_difficulty / (a.maximum_absolute *
          (a.num_points : ℂ) ^ 2 * a.num_spatial_dims)) true uh := by
  unfold DifficultyGradientNormStepper_stepper_nonlinear_fun
  rw [DifficultyGradientNormStepper_super_args_eq]
  refine (NormalizedGradientNormStepper_stepper_nonlinear_fun_eq c _ uh).trans ?_
  simp only [extract_convection_eq, extract_gradient_norm_eq, extract_nonlinear_eq]

theorem NormalizedLinearStepper_stepper_nonlinear_fun_eq (c : Cfg ℂ) (a : NormalizedLinearStepperArgs ℂ) (uh : MC ℂ) :
    NormalizedLinearStepper_stepper_nonlinear_fun c a uh =
      zeroNonlin c 1 := by
  unfold NormalizedLinearStepper_stepper_nonlinear_fun
  rw [NormalizedLinearStepper_super_args_eq]
  refine (GeneralLinearStepper_stepper_nonlinear_fun_eq c _ uh).trans ?_
  simp only [extract_convection_eq, extract_gradient_norm_eq, extract_nonlinear_eq]

theorem DifficultyLinearStepper_stepper_nonlinear_fun_eq (c : Cfg ℂ) (a : DifficultyLinearStepperArgs ℂ) (uh : MC ℂ) :
    DifficultyLinearStepper_stepper_nonlinear_fun c a uh =
      zeroNonlin c 1 := by
  unfold DifficultyLinearStepper_stepper_nonlinear_fun
  rw [DifficultyLinearStepper_super_args_eq]
  refine (NormalizedLinearStepper_stepper_nonlinear_fun_eq c _ uh).trans ?_
  simp only [extract_convection_eq, extract_gradient_norm_eq, extract_nonlinear_eq]

theorem DifficultyLinearStepperSimple_stepper_nonlinear_fun_eq (c : Cfg ℂ) (a : DifficultyLinearStepperSimpleArgs ℂ)
    (uh : MC ℂ) :
    DifficultyLinearStepperSimple_stepper_nonlinear_fun c a uh =
      zeroNonlin c 1 := by
  unfold DifficultyLinearStepperSimple_stepper_nonlinear_fun
  rw [DifficultyLinearStepperSimple_super_args_eq]
  refine (DifficultyLinearStepper_stepper_nonlinear_fun_eq c _ uh).trans ?_
  simp only [extract_convection_eq, extract_gradient_norm_eq, extract_nonlinear_eq]

theorem NormalizedNonlinearStepper_stepper_nonlinear_fun_eq (c : Cfg ℂ) (a : NormalizedNonlinearStepperArgs ℂ) (uh :
    MC ℂ) :
    NormalizedNonlinearStepper_stepper_nonlinear_fun c a uh =
      general (withDF c a.dealiasing_fraction) 1 a.normalized_nonlinear_coefficients.1
          a.normalized_nonlinear_coefficients.2.1
        a.normalized_nonlinear_coefficients.2.2 true uh := by
  unfold NormalizedNonlinearStepper_stepper_nonlinear_fun
  rw [NormalizedNonlinearStepper_super_args_eq]
  refine (GeneralNonlinearStepper_stepper_nonlinear_fun_eq c _ uh).trans ?_
  simp only [extract_convection_eq, extract_gradient_norm_eq, extract_nonlinear_eq]

theorem DifficultyNonlinearStepper_stepper_nonlinear_fun_eq (c : Cfg ℂ) (a : DifficultyNonlinearStepperArgs ℂ) (uh :
    MC ℂ) :
    DifficultyNonlinearStepper_stepper_nonlinear_fun c a uh =
      general (withDF c a.dealiasing_fraction) 1 a.nonlinear_difficulties.1 (a.nonlinear_difficulties.2.1 /
          (a.maximum_absolute * a.num_points * a.num_spatial_dims))
        (a.nonlinear_difficulties.2.2 / (a.maximum_absolute * (a.num_points : ℂ) ^ 2 * a.num_spatial_dims)) true uh
            := by
  unfold DifficultyNonlinearStepper_stepper_nonlinear_fun
  rw [DifficultyNonlinearStepper_super_args_eq]
  refine (NormalizedNonlinearStepper_stepper_nonlinear_fun_eq c _ uh).trans ?_
  simp only [extract_convection_eq, extract_gradient_norm_eq, extract_nonlinear_eq]

theorem NormalizedPolynomialStepper_stepper_nonlinear_fun_eq (c : Cfg ℂ) (a : NormalizedPolynomialStepperArgs ℂ) (uh
    : MC ℂ) :
    NormalizedPolynomialStepper_stepper_nonlinear_fun c a uh =
      polynomial (withDF c a.dealiasing_fraction) 1 a.normalized_polynomial_coefficients uh := by
  unfold NormalizedPolynomialStepper_stepper_nonlinear_fun
  rw [NormalizedPolynomialStepper_super_args_eq]
  refine (GeneralPolynomialStepper_stepper_nonlinear_fun_eq c _ uh).trans ?_
  simp only [extract_convection_eq, extract_gradient_norm_eq, extract_nonlinear_eq]

theorem DifficultyPolynomialStepper_stepper_nonlinear_fun_eq (c : Cfg ℂ) (a : DifficultyPolynomialStepperArgs ℂ) (uh
    : MC ℂ) :
    DifficultyPolynomialStepper_stepper_nonlinear_fun c a uh =
      polynomial (withDF c a.dealiasing_fraction) 1 a.polynomial_difficulties uh := by
  unfold DifficultyPolynomialStepper_stepper_nonlinear_fun
  rw [DifficultyPolynomialStepper_super_args_eq]
  refine (NormalizedPolynomialStepper_stepper_nonlinear_fun_eq c _ uh).trans ?_
  simp only [extract_convection_eq, extract_gradient_norm_eq, extract_nonlinear_eq]

/-! ### every generated definition is pinned (a new attribute / class without a theorem breaks the build) -/

theorem generated_defs_pinned : generated_defs =
    ["BaseStepperArgs", "AdvectionArgs", "Advection_with_defaults", "Advection_init_velocity_vector",
     "Advection_init_velocity_scalar", "AdvectionAttrs", "Advection_attrs", "Advection_super_args",
     "Advection_base_args", "Advection_num_channels", "Advection_nonlinear_fun", "Advection_stepper_nonlinear_fun",
     "AdvectionDiffusionArgs", "AdvectionDiffusion_with_defaults", "AdvectionDiffusion_init_velocity_vector",
     "AdvectionDiffusion_init_velocity_scalar", "AdvectionDiffusion_init_diffusivity_matrix",
     "AdvectionDiffusion_init_diffusivity_vector", "AdvectionDiffusion_init_diffusivity_scalar",
     "AdvectionDiffusionAttrs", "AdvectionDiffusion_attrs", "AdvectionDiffusion_super_args",
     "AdvectionDiffusion_base_args", "AdvectionDiffusion_num_channels", "AdvectionDiffusion_nonlinear_fun",
     "AdvectionDiffusion_stepper_nonlinear_fun", "AllenCahnArgs", "AllenCahn_with_defaults",
     "AllenCahn_init_diffusivity", "AllenCahn_init_first_order_coefficient",
     "AllenCahn_init_third_order_coefficient", "AllenCahn_init_dealiasing_fraction", "AllenCahnAttrs",
     "AllenCahn_attrs", "AllenCahn_super_args", "AllenCahn_base_args", "AllenCahn_num_channels",
     "AllenCahn_nonlinear_fun", "AllenCahn_stepper_nonlinear_fun", "BelousovZhabotinskyArgs",
     "BelousovZhabotinsky_with_defaults", "BelousovZhabotinsky_init_diffusivities",
     "BelousovZhabotinsky_init_dealiasing_fraction", "BelousovZhabotinskyAttrs", "BelousovZhabotinsky_attrs",
     "BelousovZhabotinsky_super_args", "BelousovZhabotinsky_base_args", "BelousovZhabotinsky_num_channels",
     "BelousovZhabotinsky_nonlinear_fun", "BelousovZhabotinsky_stepper_nonlinear_fun", "BurgersArgs",
     "Burgers_with_defaults", "Burgers_init_diffusivity", "Burgers_init_convection_scale",
     "Burgers_init_single_channel", "Burgers_init_conservative", "Burgers_init_dealiasing_fraction", "BurgersAttrs",
     "Burgers_attrs", "Burgers_super_args", "Burgers_base_args", "Burgers_num_channels", "Burgers_nonlinear_fun",
     "Burgers_stepper_nonlinear_fun", "CahnHilliardArgs", "CahnHilliard_with_defaults",
     "CahnHilliard_init_diffusivity", "CahnHilliard_init_gamma", "CahnHilliard_init_first_order_coefficient",
     "CahnHilliard_init_third_order_coefficient", "CahnHilliard_init_dealiasing_fraction", "CahnHilliardAttrs",
     "CahnHilliard_attrs", "CahnHilliard_super_args", "CahnHilliard_base_args", "CahnHilliard_num_channels",
     "CahnHilliard_nonlinear_fun", "CahnHilliard_stepper_nonlinear_fun", "GeneralConvectionStepperArgs",
     "GeneralConvectionStepper_with_defaults", "GeneralConvectionStepper_init_linear_coefficients",
     "GeneralConvectionStepper_init_convection_scale", "GeneralConvectionStepper_init_single_channel",
     "GeneralConvectionStepper_init_dealiasing_fraction", "GeneralConvectionStepper_init_conservative",
     "GeneralConvectionStepperAttrs", "GeneralConvectionStepper_attrs", "GeneralConvectionStepper_super_args",
     "GeneralConvectionStepper_base_args", "GeneralConvectionStepper_num_channels",
     "GeneralConvectionStepper_nonlinear_fun", "GeneralConvectionStepper_stepper_nonlinear_fun",
     "NormalizedConvectionStepperArgs", "NormalizedConvectionStepper_with_defaults",
     "NormalizedConvectionStepper_init_normalized_linear_coefficients",
     "NormalizedConvectionStepper_init_normalized_convection_scale", "NormalizedConvectionStepperAttrs",
     "NormalizedConvectionStepper_attrs", "NormalizedConvectionStepper_super_args",
     "NormalizedConvectionStepper_base_args", "NormalizedConvectionStepper_num_channels",
     "NormalizedConvectionStepper_stepper_nonlinear_fun", "DifficultyConvectionStepperArgs",
     "DifficultyConvectionStepper_with_defaults", "DifficultyConvectionStepper_init_linear_difficulties",
     "DifficultyConvectionStepper_init_convection_difficulty", "DifficultyConvectionStepperAttrs",
     "DifficultyConvectionStepper_attrs", "DifficultyConvectionStepper_super_args",
     "DifficultyConvectionStepper_base_args", "DifficultyConvectionStepper_num_channels",
     "DifficultyConvectionStepper_stepper_nonlinear_fun", "GeneralGradientNormStepperArgs",
     "GeneralGradientNormStepper_with_defaults", "GeneralGradientNormStepper_init_linear_coefficients",
     "GeneralGradientNormStepper_init_gradient_norm_scale", "GeneralGradientNormStepper_init_dealiasing_fraction",
     "GeneralGradientNormStepperAttrs", "GeneralGradientNormStepper_attrs", "GeneralGradientNormStepper_super_args",
     "GeneralGradientNormStepper_base_args", "GeneralGradientNormStepper_num_channels",
     "GeneralGradientNormStepper_nonlinear_fun", "GeneralGradientNormStepper_stepper_nonlinear_fun",
     "NormalizedGradientNormStepperArgs", "NormalizedGradientNormStepper_with_defaults",
     "NormalizedGradientNormStepper_init_normalized_linear_coefficients",
     "NormalizedGradientNormStepper_init_normalized_gradient_norm_scale", "NormalizedGradientNormStepperAttrs",
     "NormalizedGradientNormStepper_attrs", "NormalizedGradientNormStepper_super_args",
     "NormalizedGradientNormStepper_base_args", "NormalizedGradientNormStepper_num_channels",
     "NormalizedGradientNormStepper_stepper_nonlinear_fun", "DifficultyGradientNormStepperArgs",
     "DifficultyGradientNormStepper_with_defaults", "DifficultyGradientNormStepper_init_linear_difficulties",
     "DifficultyGradientNormStepper_init_gradient_norm_difficulty", "DifficultyGradientNormStepperAttrs",
     "DifficultyGradientNormStepper_attrs", "DifficultyGradientNormStepper_super_args",
     "DifficultyGradientNormStepper_base_args", "DifficultyGradientNormStepper_num_channels",
     "DifficultyGradientNormStepper_stepper_nonlinear_fun", "GeneralLinearStepperArgs",
     "GeneralLinearStepper_with_defaults", "GeneralLinearStepper_init_linear_coefficients",
     "GeneralLinearStepperAttrs", "GeneralLinearStepper_attrs", "GeneralLinearStepper_super_args",
     "GeneralLinearStepper_base_args", "GeneralLinearStepper_num_channels", "GeneralLinearStepper_nonlinear_fun",
     "GeneralLinearStepper_stepper_nonlinear_fun", "NormalizedLinearStepperArgs",
     "NormalizedLinearStepper_with_defaults", "NormalizedLinearStepper_init_normalized_linear_coefficients",
     "NormalizedLinearStepperAttrs", "NormalizedLinearStepper_attrs", "NormalizedLinearStepper_super_args",
     "NormalizedLinearStepper_base_args", "NormalizedLinearStepper_num_channels",
     "NormalizedLinearStepper_stepper_nonlinear_fun", "DifficultyLinearStepperArgs",
     "DifficultyLinearStepper_with_defaults", "DifficultyLinearStepper_init_linear_difficulties",
     "DifficultyLinearStepperAttrs", "DifficultyLinearStepper_attrs", "DifficultyLinearStepper_super_args",
     "DifficultyLinearStepper_base_args", "DifficultyLinearStepper_num_channels",
     "DifficultyLinearStepper_stepper_nonlinear_fun", "DifficultyLinearStepperSimpleArgs",
     "DifficultyLinearStepperSimple_with_defaults", "DifficultyLinearStepperSimpleAttrs",
     "DifficultyLinearStepperSimple_attrs", "DifficultyLinearStepperSimple_super_args",
     "DifficultyLinearStepperSimple_base_args", "DifficultyLinearStepperSimple_num_channels",
     "DifficultyLinearStepperSimple_stepper_nonlinear_fun", "GeneralNonlinearStepperArgs",
     "GeneralNonlinearStepper_with_defaults", "GeneralNonlinearStepper_init_linear_coefficients",
     "GeneralNonlinearStepper_init_nonlinear_coefficients", "GeneralNonlinearStepper_init_dealiasing_fraction",
     "GeneralNonlinearStepperAttrs", "GeneralNonlinearStepper_attrs", "GeneralNonlinearStepper_super_args",
     "GeneralNonlinearStepper_base_args", "GeneralNonlinearStepper_num_channels",
     "GeneralNonlinearStepper_nonlinear_fun", "GeneralNonlinearStepper_stepper_nonlinear_fun",
     "NormalizedNonlinearStepperArgs", "NormalizedNonlinearStepper_with_defaults",
     "NormalizedNonlinearStepper_init_normalized_linear_coefficients",
     "NormalizedNonlinearStepper_init_normalized_nonlinear_coefficients", "NormalizedNonlinearStepperAttrs",
     "NormalizedNonlinearStepper_attrs", "NormalizedNonlinearStepper_super_args",
     "NormalizedNonlinearStepper_base_args", "NormalizedNonlinearStepper_num_channels",
     "NormalizedNonlinearStepper_stepper_nonlinear_fun", "DifficultyNonlinearStepperArgs",
     "DifficultyNonlinearStepper_with_defaults", "DifficultyNonlinearStepper_init_linear_difficulties",
     "DifficultyNonlinearStepper_init_nonlinear_difficulties", "DifficultyNonlinearStepperAttrs",
     "DifficultyNonlinearStepper_attrs", "DifficultyNonlinearStepper_super_args",
     "DifficultyNonlinearStepper_base_args", "DifficultyNonlinearStepper_num_channels",
     "DifficultyNonlinearStepper_stepper_nonlinear_fun", "GeneralPolynomialStepperArgs",
     "GeneralPolynomialStepper_with_defaults", "GeneralPolynomialStepper_init_linear_coefficients",
     "GeneralPolynomialStepper_init_polynomial_coefficients", "GeneralPolynomialStepper_init_dealiasing_fraction",
     "GeneralPolynomialStepperAttrs", "GeneralPolynomialStepper_attrs", "GeneralPolynomialStepper_super_args",
     "GeneralPolynomialStepper_base_args", "GeneralPolynomialStepper_num_channels",
     "GeneralPolynomialStepper_nonlinear_fun", "GeneralPolynomialStepper_stepper_nonlinear_fun",
     "NormalizedPolynomialStepperArgs", "NormalizedPolynomialStepper_with_defaults",
     "NormalizedPolynomialStepper_init_normalized_linear_coefficients",
     "NormalizedPolynomialStepper_init_normalized_polynomial_coefficients", "NormalizedPolynomialStepperAttrs",
     "NormalizedPolynomialStepper_attrs", "NormalizedPolynomialStepper_super_args",
     "NormalizedPolynomialStepper_base_args", "NormalizedPolynomialStepper_num_channels",
     "NormalizedPolynomialStepper_stepper_nonlinear_fun", "DifficultyPolynomialStepperArgs",
     "DifficultyPolynomialStepper_with_defaults", "DifficultyPolynomialStepper_init_linear_difficulties",
     "DifficultyPolynomialStepper_init_polynomial_difficulties", "DifficultyPolynomialStepperAttrs",
     "DifficultyPolynomialStepper_attrs", "DifficultyPolynomialStepper_super_args",
     "DifficultyPolynomialStepper_base_args", "DifficultyPolynomialStepper_num_channels",
     "DifficultyPolynomialStepper_stepper_nonlinear_fun", "DiffusionArgs", "Diffusion_with_defaults",
     "Diffusion_init_diffusivity_matrix", "Diffusion_init_diffusivity_vector", "Diffusion_init_diffusivity_scalar",
     "DiffusionAttrs", "Diffusion_attrs", "Diffusion_super_args", "Diffusion_base_args", "Diffusion_num_channels",
     "Diffusion_nonlinear_fun", "Diffusion_stepper_nonlinear_fun", "DispersionArgs", "Dispersion_with_defaults",
     "Dispersion_init_dispersivity_vector", "Dispersion_init_dispersivity_scalar",
     "Dispersion_init_advect_on_diffusion", "DispersionAttrs", "Dispersion_attrs", "Dispersion_super_args",
     "Dispersion_base_args", "Dispersion_num_channels", "Dispersion_nonlinear_fun",
     "Dispersion_stepper_nonlinear_fun", "FisherKPPArgs", "FisherKPP_with_defaults",
     "FisherKPP_init_dealiasing_fraction", "FisherKPP_init_diffusivity", "FisherKPP_init_reactivity",
     "FisherKPPAttrs", "FisherKPP_attrs", "FisherKPP_super_args", "FisherKPP_base_args", "FisherKPP_num_channels",
     "FisherKPP_nonlinear_fun", "FisherKPP_stepper_nonlinear_fun", "GeneralVorticityConvectionStepperArgs",
     "GeneralVorticityConvectionStepper_with_defaults",
     "GeneralVorticityConvectionStepper_init_vorticity_convection_scale",
     "GeneralVorticityConvectionStepper_init_linear_coefficients",
     "GeneralVorticityConvectionStepper_init_injection_mode",
     "GeneralVorticityConvectionStepper_init_injection_scale",
     "GeneralVorticityConvectionStepper_init_dealiasing_fraction", "GeneralVorticityConvectionStepperAttrs",
     "GeneralVorticityConvectionStepper_attrs", "GeneralVorticityConvectionStepper_super_args",
     "GeneralVorticityConvectionStepper_base_args", "GeneralVorticityConvectionStepper_num_channels",
     "GeneralVorticityConvectionStepper_nonlinear_fun", "GeneralVorticityConvectionStepper_stepper_nonlinear_fun",
     "GrayScottArgs", "GrayScott_with_defaults", "GrayScott_init_diffusivity_1", "GrayScott_init_diffusivity_2",
     "GrayScott_init_feed_rate", "GrayScott_init_kill_rate", "GrayScott_init_dealiasing_fraction", "GrayScottAttrs",
     "GrayScott_attrs", "GrayScott_super_args", "GrayScott_base_args", "GrayScott_num_channels",
     "GrayScott_nonlinear_fun", "GrayScott_stepper_nonlinear_fun", "HyperDiffusionArgs",
     "HyperDiffusion_with_defaults", "HyperDiffusion_init_hyper_diffusivity",
     "HyperDiffusion_init_diffuse_on_diffuse", "HyperDiffusionAttrs", "HyperDiffusion_attrs",
     "HyperDiffusion_super_args", "HyperDiffusion_base_args", "HyperDiffusion_num_channels",
     "HyperDiffusion_nonlinear_fun", "HyperDiffusion_stepper_nonlinear_fun", "KolmogorovFlowVelocityArgs",
     "KolmogorovFlowVelocity_with_defaults", "KolmogorovFlowVelocity_init_diffusivity",
     "KolmogorovFlowVelocity_init_drag", "KolmogorovFlowVelocity_init_injection_mode",
     "KolmogorovFlowVelocity_init_injection_scale", "KolmogorovFlowVelocity_init_dealiasing_fraction",
     "KolmogorovFlowVelocityAttrs", "KolmogorovFlowVelocity_attrs", "KolmogorovFlowVelocity_super_args",
     "KolmogorovFlowVelocity_base_args", "KolmogorovFlowVelocity_num_channels",
     "KolmogorovFlowVelocity_nonlinear_fun", "KolmogorovFlowVelocity_stepper_nonlinear_fun",
     "KolmogorovFlowVorticityArgs", "KolmogorovFlowVorticity_with_defaults",
     "KolmogorovFlowVorticity_init_diffusivity", "KolmogorovFlowVorticity_init_convection_scale",
     "KolmogorovFlowVorticity_init_drag", "KolmogorovFlowVorticity_init_injection_mode",
     "KolmogorovFlowVorticity_init_injection_scale", "KolmogorovFlowVorticity_init_dealiasing_fraction",
     "KolmogorovFlowVorticityAttrs", "KolmogorovFlowVorticity_attrs", "KolmogorovFlowVorticity_super_args",
     "KolmogorovFlowVorticity_base_args", "KolmogorovFlowVorticity_num_channels",
     "KolmogorovFlowVorticity_nonlinear_fun", "KolmogorovFlowVorticity_stepper_nonlinear_fun", "KortewegDeVriesArgs",
     "KortewegDeVries_with_defaults", "KortewegDeVries_init_convection_scale", "KortewegDeVries_init_diffusivity",
     "KortewegDeVries_init_dispersivity", "KortewegDeVries_init_hyper_diffusivity",
     "KortewegDeVries_init_advect_over_diffuse", "KortewegDeVries_init_diffuse_over_diffuse",
     "KortewegDeVries_init_single_channel", "KortewegDeVries_init_conservative",
     "KortewegDeVries_init_dealiasing_fraction", "KortewegDeVriesAttrs", "KortewegDeVries_attrs",
     "KortewegDeVries_super_args", "KortewegDeVries_base_args", "KortewegDeVries_num_channels",
     "KortewegDeVries_nonlinear_fun", "KortewegDeVries_stepper_nonlinear_fun", "KuramotoSivashinskyArgs",
     "KuramotoSivashinsky_with_defaults", "KuramotoSivashinsky_init_gradient_norm_scale",
     "KuramotoSivashinsky_init_second_order_scale", "KuramotoSivashinsky_init_fourth_order_scale",
     "KuramotoSivashinsky_init_dealiasing_fraction", "KuramotoSivashinskyAttrs", "KuramotoSivashinsky_attrs",
     "KuramotoSivashinsky_super_args", "KuramotoSivashinsky_base_args", "KuramotoSivashinsky_num_channels",
     "KuramotoSivashinsky_nonlinear_fun", "KuramotoSivashinsky_stepper_nonlinear_fun",
     "KuramotoSivashinskyConservativeArgs", "KuramotoSivashinskyConservative_with_defaults",
     "KuramotoSivashinskyConservative_init_convection_scale",
     "KuramotoSivashinskyConservative_init_second_order_scale",
     "KuramotoSivashinskyConservative_init_fourth_order_scale",
     "KuramotoSivashinskyConservative_init_single_channel", "KuramotoSivashinskyConservative_init_conservative",
     "KuramotoSivashinskyConservative_init_dealiasing_fraction", "KuramotoSivashinskyConservativeAttrs",
     "KuramotoSivashinskyConservative_attrs", "KuramotoSivashinskyConservative_super_args",
     "KuramotoSivashinskyConservative_base_args", "KuramotoSivashinskyConservative_num_channels",
     "KuramotoSivashinskyConservative_nonlinear_fun", "KuramotoSivashinskyConservative_stepper_nonlinear_fun",
     "NavierStokesVelocityArgs", "NavierStokesVelocity_with_defaults", "NavierStokesVelocity_init_diffusivity",
     "NavierStokesVelocity_init_drag", "NavierStokesVelocity_init_dealiasing_fraction", "NavierStokesVelocityAttrs",
     "NavierStokesVelocity_attrs", "NavierStokesVelocity_super_args", "NavierStokesVelocity_base_args",
     "NavierStokesVelocity_num_channels", "NavierStokesVelocity_nonlinear_fun",
     "NavierStokesVelocity_stepper_nonlinear_fun", "NavierStokesVorticityArgs",
     "NavierStokesVorticity_with_defaults", "NavierStokesVorticity_init_diffusivity",
     "NavierStokesVorticity_init_vorticity_convection_scale", "NavierStokesVorticity_init_drag",
     "NavierStokesVorticity_init_dealiasing_fraction", "NavierStokesVorticityAttrs", "NavierStokesVorticity_attrs",
     "NavierStokesVorticity_super_args", "NavierStokesVorticity_base_args", "NavierStokesVorticity_num_channels",
     "NavierStokesVorticity_nonlinear_fun", "NavierStokesVorticity_stepper_nonlinear_fun", "SwiftHohenbergArgs",
     "SwiftHohenberg_with_defaults", "SwiftHohenberg_init_reactivity", "SwiftHohenberg_init_critical_number",
     "SwiftHohenberg_init_polynomial_coefficients", "SwiftHohenberg_init_dealiasing_fraction", "SwiftHohenbergAttrs",
     "SwiftHohenberg_attrs", "SwiftHohenberg_super_args", "SwiftHohenberg_base_args", "SwiftHohenberg_num_channels",
     "SwiftHohenberg_nonlinear_fun", "SwiftHohenberg_stepper_nonlinear_fun", "WaveArgs", "Wave_with_defaults",
     "Wave_init_speed_of_sound", "WaveAttrs", "Wave_attrs", "Wave_super_args", "Wave_base_args", "Wave_num_channels",
     "Wave_nonlinear_fun", "Wave_stepper_nonlinear_fun"] := rfl

end Exponax.StepperWiringEq
