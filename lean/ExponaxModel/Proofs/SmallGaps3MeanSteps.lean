import ExponaxModel.Proofs.SmallGaps3Mean
import ExponaxModel.Proofs.SmallGapsDivFree
/-
SmallGaps3, part K1 (C09), step level: the 3-D velocity Navier–Stokes stepper conserves the mean of each channel.

  * `projected3d_inj_mean`       the Kolmogorov injection `some (m, γ)` with `m > 0` does not touch the mean mode
                                 (with `m = 0` it DOES: `projected3d_inj_zero_mean`);
  * `velocity_term_mean_zero`    on divergence-free mode-first spectra the lifted term `liftModeFirst c 3 (projected3d c inj)`
                                 has zero mean mode in every channel;
  * `velocity_step_mean`, `velocity_rollout_mean`   every ETDRK order `0..4` (any coefficient arrays shared by the channels,
                                 `e 0 = 1`) and every rollout from a divergence-free spectrum keeps `U 0 d` for every channel `d`.

The invariant carried through the stages is `C10.DivFree` (preserved by `SmallGaps.velocity_step_preserves`); reality of the
state is NOT needed.  Hypotheses: `D = 3`, Nyquist-free retained band (`MaskIn c K` with `2·K < N`: a dealiasing mask with
`2·Kc < N` — `maskIn_Kc` — or no mask on an odd grid — `maskIn_half`), real non-zero `s`.
-/
set_option linter.unusedVariables false
namespace Exponax.SmallGaps3
open Exponax Exponax.Layout Exponax.Transform Exponax.Nonlin Exponax.Alias Exponax.Gen.Etdrk Exponax.SmallGaps

/-- the injection `γ sin(m s x₁)` with `m > 0` leaves the mean mode of every channel alone -/
theorem projected3d_inj_mean (c : Cfg ℂ) (hN : 0 < c.N) (m : ℕ) (hm : 0 < m) (gam : ℂ) (uh : MC ℂ) (i : ℕ) :
    at2 (projected3d c (some (m, gam)) uh) i 0 = at2 (projected3d c none uh) i 0 := by
  rcases Nat.lt_or_ge i 3 with hi | hi
  · have h := projected3d_injection_documented c m gam uh i 0 hi (Conserve.modes_pos c hN)
    have k1 : kInt c 1 0 = 0 := Conserve.kInt_zero_mode c 1
    rw [if_neg (by rw [k1]; intro hc; have := hc.2.2.2; omega),
      if_neg (by rw [k1]; intro hc; have := hc.2.2.2; omega)] at h
    exact sub_eq_zero.mp h
  · have e : ∀ inj, at2 (projected3d c inj uh) i 0 = 0 := fun inj => by
      unfold projected3d
      exact at2_tab2_of_le_ch _ _ _ _ _ hi
    rw [e, e]

/-- … whereas `m = 0` (a constant "sine") is injected INTO the mean mode of channel 0: documented value -/
theorem projected3d_inj_zero_mean (c : Cfg ℂ) (hN : 0 < c.N) (gam : ℂ) (uh : MC ℂ) :
    at2 (projected3d c (some (0, gam)) uh) 0 0
      = at2 (projected3d c none uh) 0 0
        + -Complex.I * gam * scaling c.D c.N 2 (unflatten (wavenumberShape c.D c.N) 0) := by
  have h := projected3d_injection_documented c 0 gam uh 0 0 (by norm_num) (Conserve.modes_pos c hN)
  rw [if_pos ⟨rfl, Conserve.kInt_zero_mode c 0, Conserve.kInt_zero_mode c 2, by
    rw [Conserve.kInt_zero_mode c 1]; rfl⟩] at h
  rw [← h]; ring

/-- **K1 (term level, with or without injection).**  Divergence-free on the retained stored modes ⇒ zero mean mode -/
theorem projected3d_mean_zero_inj (c : Cfg ℂ) (hD : c.D = 3) (hN : 0 < c.N) (K : ℤ) (hM : MaskIn c K)
    (h2 : 2 * K < (c.N : ℤ)) (s : ℝ) (hs : c.s = (s : ℂ)) (inj : Option (ℕ × ℂ))
    (hinj : ∀ m gam, inj = some (m, gam) → 0 < m) (uh : MC ℂ)
    (hdiv : ∀ h, h < modes c → mask c h = 1 →
      deriv c 0 h * at2 uh 0 h + deriv c 1 h * at2 uh 1 h + deriv c 2 h * at2 uh 2 h = 0)
    (i : ℕ) : at2 (projected3d c inj uh) i 0 = 0 := by
  cases inj with
  | none => exact projected3d_mean_zero c hD hN K hM h2 s hs uh hdiv i
  | some mg =>
    obtain ⟨m, gam⟩ := mg
    rw [projected3d_inj_mean c hN m (hinj m gam rfl) gam uh i]
    exact projected3d_mean_zero c hD hN K hM h2 s hs uh hdiv i

/-- on divergence-free mode-first spectra the lifted velocity term has zero mean mode in every channel -/
theorem velocity_term_mean_zero (c : Cfg ℂ) (hD : c.D = 3) (hN : 0 < c.N) (K : ℤ) (hM : MaskIn c K)
    (h2 : 2 * K < (c.N : ℤ)) (s : ℝ) (hs : c.s = (s : ℂ)) (inj : Option (ℕ × ℂ))
    (hinj : ∀ m gam, inj = some (m, gam) → 0 < m) (V : ℕ → ℕ → ℂ) (hV : DivFree c V) (d : ℕ) :
    liftModeFirst c 3 (projected3d c inj) V 0 d = 0 := by
  rw [liftModeFirst_apply, if_pos (Conserve.modes_pos c hN)]
  apply projected3d_mean_zero_inj c hD hN K hM h2 s hs inj hinj
  intro h hh _
  have e : ∀ k, k < 3 → at2 (tab2 3 (modes c) fun ch m => V m ch) k h = V h k :=
    fun k hk => Nonlin.at2_tab2 _ _ _ _ _ hk hh
  rw [e 0 (by norm_num), e 1 (by norm_num), e 2 (by norm_num)]
  have := hV h
  unfold vecDiv at this
  rw [hD, Finset.sum_range_succ, Finset.sum_range_succ, Finset.sum_range_one] at this
  exact this

/-- abstract one-step statement: `N` has divergence-free output and zero mean on divergence-free input -/
theorem step_mean_of_divFree (c : Cfg ℂ) (N : (ℕ → ℕ → ℂ) → (ℕ → ℕ → ℂ)) (hNdf : ∀ V, DivFree c (N V)) (d : ℕ)
    (hN0 : ∀ V, DivFree c V → N V 0 d = 0) (e eh a1 a2 a3 a4 a5 a6 : ℕ → ℂ) (he : e 0 = 1)
    (U : ℕ → ℕ → ℂ) (hU : DivFree c U) :
    let b := fun (x : ℕ → ℂ) => (fun h (_ : ℕ) => x h)
    (E0step (b e) U) 0 d = U 0 d ∧
    (E1step (b e) (b a1) N U) 0 d = U 0 d ∧
    (E2step (b e) (b a1) (b a2) N U) 0 d = U 0 d ∧
    (E3step (b e) (b eh) (b a1) (b a2) (b a3) (b a4) (b a5) N U) 0 d = U 0 d ∧
    (E4step (b e) (b eh) (b a1) (b a2) (b a3) (b a4) (b a5) (b a6) N U) 0 d = U 0 d := by
  intro b
  have S := fun (x : ℕ → ℂ) (V : ℕ → ℕ → ℂ) (hV : DivFree c V) => DivFree.smul (c := c) x hV
  have two : ∀ V, DivFree c V → DivFree c ((lit 2 : ℕ → ℕ → ℂ) * V) := fun V hV => DivFree.natCast_mul 2 hV
  have n0 := hN0 U hU
  refine ⟨?_, ?_, ?_, ?_, ?_⟩
  · simp only [E0step, Pi.mul_apply, b, he, one_mul]
  · simp only [E1step, Pi.add_apply, Pi.mul_apply, n0, b, he, one_mul, mul_zero, add_zero]
  · have s1 : DivFree c (b e * U + b a1 * N U) := (S e U hU).add (S a1 _ (hNdf _))
    simp only [E2step, Pi.add_apply, Pi.mul_apply, Pi.sub_apply, n0, hN0 _ s1, b, he, one_mul, mul_zero, add_zero,
      sub_zero]
  · have s1 : DivFree c (b eh * U + b a1 * N U) := (S eh U hU).add (S a1 _ (hNdf _))
    have s2 : DivFree c (b e * U + b a2 * (lit 2 * N (b eh * U + b a1 * N U) - N U)) :=
      (S e U hU).add (S a2 _ ((two _ (hNdf _)).sub (hNdf _)))
    simp only [E3step, Pi.add_apply, Pi.mul_apply, n0, hN0 _ s1, hN0 _ s2, b, he, one_mul, mul_zero,
      add_zero]
  · have s1 : DivFree c (b eh * U + b a1 * N U) := (S eh U hU).add (S a1 _ (hNdf _))
    have s2 : DivFree c (b eh * U + b a2 * N (b eh * U + b a1 * N U)) := (S eh U hU).add (S a2 _ (hNdf _))
    have s3 : DivFree c (b eh * (b eh * U + b a1 * N U)
        + b a3 * (lit 2 * N (b eh * U + b a2 * N (b eh * U + b a1 * N U)) - N U)) :=
      (S eh _ s1).add (S a3 _ ((two _ (hNdf _)).sub (hNdf _)))
    simp only [E4step, Pi.add_apply, Pi.mul_apply, n0, hN0 _ s1, hN0 _ s2, hN0 _ s3, b, he, one_mul,
      mul_zero, add_zero]

/-- **K1 (one step).**  Every ETDRK order of the 3-D velocity stepper keeps the mean mode of every channel `d` of a
    divergence-free spectrum (`e 0 = 1`: the linear symbol vanishes at the mean mode) -/
theorem velocity_step_mean (c : Cfg ℂ) (hD : c.D = 3) (hN : 0 < c.N) (K : ℤ) (hM : MaskIn c K)
    (h2 : 2 * K < (c.N : ℤ)) (s : ℝ) (hs : c.s = (s : ℂ)) (hs0 : s ≠ 0) (inj : Option (ℕ × ℂ))
    (hinj : ∀ m gam, inj = some (m, gam) → 0 < m) (e eh a1 a2 a3 a4 a5 a6 : ℕ → ℂ) (he : e 0 = 1)
    (U : ℕ → ℕ → ℂ) (hU : DivFree c U) (d : ℕ) :
    let b := fun (x : ℕ → ℂ) => (fun h (_ : ℕ) => x h)
    let N := liftModeFirst c 3 (projected3d c inj)
    (E0step (b e) U) 0 d = U 0 d ∧
    (E1step (b e) (b a1) N U) 0 d = U 0 d ∧
    (E2step (b e) (b a1) (b a2) N U) 0 d = U 0 d ∧
    (E3step (b e) (b eh) (b a1) (b a2) (b a3) (b a4) (b a5) N U) 0 d = U 0 d ∧
    (E4step (b e) (b eh) (b a1) (b a2) (b a3) (b a4) (b a5) (b a6) N U) 0 d = U 0 d :=
  step_mean_of_divFree c _ (projected3d_lift_divFree c s hs hs0 (by omega) inj) d
    (fun V hV => velocity_term_mean_zero c hD hN K hM h2 s hs inj hinj V hV d) e eh a1 a2 a3 a4 a5 a6 he U hU

theorem iterate_mean (c : Cfg ℂ) (step : (ℕ → ℕ → ℂ) → (ℕ → ℕ → ℂ)) (d : ℕ)
    (hdf : ∀ U, DivFree c U → DivFree c (step U)) (hm : ∀ U, DivFree c U → step U 0 d = U 0 d)
    (n : ℕ) (U : ℕ → ℕ → ℂ) (hU : DivFree c U) : (step^[n] U) 0 d = U 0 d := by
  induction n generalizing U with
  | zero => rfl
  | succ n ih => rw [Function.iterate_succ_apply, ih _ (hdf U hU), hm U hU]

/-- **K1 (rollout).**  … and so does every rollout of any length, for every order -/
theorem velocity_rollout_mean (c : Cfg ℂ) (hD : c.D = 3) (hN : 0 < c.N) (K : ℤ) (hM : MaskIn c K)
    (h2 : 2 * K < (c.N : ℤ)) (s : ℝ) (hs : c.s = (s : ℂ)) (hs0 : s ≠ 0) (inj : Option (ℕ × ℂ))
    (hinj : ∀ m gam, inj = some (m, gam) → 0 < m) (e eh a1 a2 a3 a4 a5 a6 : ℕ → ℂ) (he : e 0 = 1)
    (n : ℕ) (U : ℕ → ℕ → ℂ) (hU : DivFree c U) (d : ℕ) :
    let b := fun (x : ℕ → ℂ) => (fun h (_ : ℕ) => x h)
    let N := liftModeFirst c 3 (projected3d c inj)
    ((E0step (b e))^[n] U) 0 d = U 0 d ∧
    ((E1step (b e) (b a1) N)^[n] U) 0 d = U 0 d ∧
    ((E2step (b e) (b a1) (b a2) N)^[n] U) 0 d = U 0 d ∧
    ((E3step (b e) (b eh) (b a1) (b a2) (b a3) (b a4) (b a5) N)^[n] U) 0 d = U 0 d ∧
    ((E4step (b e) (b eh) (b a1) (b a2) (b a3) (b a4) (b a5) (b a6) N)^[n] U) 0 d = U 0 d := by
  intro b N
  have P := fun W hW => velocity_step_preserves c s hs hs0 (by omega) inj e eh a1 a2 a3 a4 a5 a6 W hW
  have M := fun W hW => velocity_step_mean c hD hN K hM h2 s hs hs0 inj hinj e eh a1 a2 a3 a4 a5 a6 he W hW d
  exact ⟨iterate_mean c _ d (fun W hW => (P W hW).1) (fun W hW => (M W hW).1) n U hU,
    iterate_mean c _ d (fun W hW => (P W hW).2.1) (fun W hW => (M W hW).2.1) n U hU,
    iterate_mean c _ d (fun W hW => (P W hW).2.2.1) (fun W hW => (M W hW).2.2.1) n U hU,
    iterate_mean c _ d (fun W hW => (P W hW).2.2.2.1) (fun W hW => (M W hW).2.2.2.1) n U hU,
    iterate_mean c _ d (fun W hW => (P W hW).2.2.2.2) (fun W hW => (M W hW).2.2.2.2) n U hU⟩

/-! non-vacuity: a configuration with the 2/3 rule on `N = 8` (`Kc = 1`, `2·Kc < 8`), `s = 1`, injection mode `1`, and a
divergence-free spectrum (`0`; non-trivial ones: every Leray output, `SmallGaps.divFree_of_leray`) -/
example : ∃ c : Cfg ℂ, ∃ s : ℝ, c.D = 3 ∧ 0 < c.N ∧ MaskIn c (Kc c) ∧ 2 * Kc c < (c.N : ℤ) ∧ c.s = (s : ℂ) ∧ s ≠ 0 ∧
    (∀ m gam, (some (1, (1 : ℂ)) : Option (ℕ × ℂ)) = some (m, gam) → 0 < m) ∧ DivFree c 0 ∧
    (∀ h, h < modes c → mask c h = 1 →
      deriv c 0 h * at2 (#[] : MC ℂ) 0 h + deriv c 1 h * at2 (#[] : MC ℂ) 1 h + deriv c 2 h * at2 (#[] : MC ℂ) 2 h = 0) := by
  refine ⟨{ D := 3, N := 8, s := ((1 : ℝ) : ℂ), fp := 2, fq := 3 }, 1, rfl, by decide, maskIn_Kc _ (by decide), by decide, rfl,
    one_ne_zero, ?_, fun h => by unfold vecDiv; simp, ?_⟩
  · intro m gam h
    injection h with h
    injection h with h1 _
    omega
  · intro h _ _
    have e : ∀ k, at2 (#[] : MC ℂ) k h = 0 := fun k => by simp [at2]
    rw [e, e, e]; ring

/-- the unmasked odd grid: `fq = 0` (no dealiasing), `N = 7`, `K = 3` -/
example : ∃ c : Cfg ℂ, c.D = 3 ∧ 0 < c.N ∧ c.fq = 0 ∧ MaskIn c ((c.N / 2 : ℕ) : ℤ) ∧ 2 * ((c.N / 2 : ℕ) : ℤ) < (c.N : ℤ) :=
  ⟨{ D := 3, N := 7, s := ((1 : ℝ) : ℂ), fp := 0, fq := 0 }, rfl, by decide, rfl, maskIn_half _ (by decide) (by decide),
    by decide⟩

end Exponax.SmallGaps3
