import ExponaxModel.Proofs.DFT1DMain
/-
General dimension `D ≥ 1`: layout of the half spectrum, the phase as a digit-wise dot product,
multi-dimensional orthogonality, and the round trip `irfftnM D N (rfftnM D N u) = u` for real `u`.
-/
namespace Exponax.DFT
open Exponax Exponax.Layout Exponax.Transform Finset

/-! ### layout -/

theorem shapeSize_eq_prod (l : List ℕ) : shapeSize l = l.prod := by
  unfold shapeSize
  rw [List.prod_eq_foldl]

theorem shapeSize_rep (N n E : ℕ) : shapeSize (List.replicate E N ++ [n]) = N ^ E * n := by
  rw [shapeSize_eq_prod]; simp

theorem wavenumberShape_succ (E N : ℕ) :
    wavenumberShape (E + 1) N = List.replicate E N ++ [N / 2 + 1] := by
  simp [wavenumberShape]

theorem numModes_succ (E N : ℕ) : numModes (E + 1) N = N ^ E * (N / 2 + 1) := by
  rw [numModes, wavenumberShape_succ, shapeSize_rep]

/-- entries `d < E` of the stored multi-index: base-`N` digits of `h / n` -/
theorem unflatten_rep_getD_lt (N n : ℕ) : ∀ (E h d : ℕ), d < E → h < N ^ E * n →
    (unflatten (List.replicate E N ++ [n]) h).getD d 0 = (h / (N ^ (E - 1 - d) * n)) % N
  | 0, _, _, hd, _ => absurd hd (Nat.not_lt_zero _)
  | E + 1, h, 0, _, hh => by
    simp only [List.replicate_succ, List.cons_append, unflatten, shapeSize_rep]
    have : h / (N ^ E * n) < N := by
      apply Nat.div_lt_of_lt_mul
      rw [pow_succ] at hh
      calc h < N ^ E * N * n := hh
        _ = N ^ E * n * N := by ring
    simp [Nat.mod_eq_of_lt this]
  | E + 1, h, d + 1, hd, hh => by
    have hd' : d < E := by omega
    have hpos : 0 < N ^ E * n := by
      rcases Nat.eq_zero_or_pos (N ^ E * n) with h0 | h0
      · rw [pow_succ, mul_assoc, mul_comm N n, ← mul_assoc, h0] at hh; omega
      · exact h0
    simp only [List.replicate_succ, List.cons_append, unflatten, shapeSize_rep]
    rw [List.getD_cons_succ,
      unflatten_rep_getD_lt N n E (h % (N ^ E * n)) d hd' (Nat.mod_lt _ hpos)]
    have e1 : N ^ E * n = N ^ (d + 1) * (N ^ (E - 1 - d) * n) := by
      rw [← mul_assoc, ← pow_add]; congr 2; omega
    rw [show E + 1 - 1 - (d + 1) = E - 1 - d by omega, e1, Nat.mod_mul_left_div_self,
      Nat.mod_mod_of_dvd _ (dvd_pow_self N (by omega))]

/-- last entry of the stored multi-index: `h % n` -/
theorem unflatten_rep_getD_last (N n : ℕ) : ∀ (E h : ℕ), h < N ^ E * n →
    (unflatten (List.replicate E N ++ [n]) h).getD E 0 = h % n
  | 0, h, hh => by
    simp only [pow_zero, one_mul] at hh
    simp [unflatten, shapeSize, Nat.mod_eq_of_lt hh]
  | E + 1, h, hh => by
    have hpos : 0 < N ^ E * n := by
      rcases Nat.eq_zero_or_pos (N ^ E * n) with h0 | h0
      · rw [pow_succ, mul_assoc, mul_comm N n, ← mul_assoc, h0] at hh; omega
      · exact h0
    simp only [List.replicate_succ, List.cons_append, unflatten, shapeSize_rep]
    rw [List.getD_cons_succ, unflatten_rep_getD_last N n E (h % (N ^ E * n)) (Nat.mod_lt _ hpos),
      Nat.mod_mod_of_dvd _ (Dvd.intro_left _ rfl)]

theorem digit_succ_of_lt (E N a d : ℕ) (hd : d < E) :
    digit (E + 1) N a d = digit E N (a / N) d := by
  unfold digit
  rw [show E + 1 - 1 - d = (E - 1 - d) + 1 by omega, pow_succ', Nat.div_div_eq_div_mul]

theorem digit_succ_last (E N a : ℕ) : digit (E + 1) N a E = a % N := by
  simp [digit]

theorem herm_weight_succ (E N h : ℕ) (hh : h < numModes (E + 1) N) :
    herm_weight (E + 1) N h = herm_weight 1 N (h % (N / 2 + 1)) := by
  rw [numModes_succ] at hh
  rw [herm_weight_one]
  simp only [herm_weight, wavenumberShape_succ, Nat.add_sub_cancel]
  rw [unflatten_rep_getD_last N _ E h hh]


/-! ### the phase as a digit-wise dot product -/

/-- `Σ_{d<E} a_d b_d` over the base-`N` digits of `a`, `b` -/
def dotPhase (E N a b : ℕ) : ℤ :=
  ∑ d ∈ range E, (digit E N a d : ℤ) * (digit E N b d : ℤ)

@[simp] theorem dotPhase_zero (N a b : ℕ) : dotPhase 0 N a b = 0 := by simp [dotPhase]

theorem dotPhase_succ (E N a b : ℕ) :
    dotPhase (E + 1) N a b = dotPhase E N (a / N) (b / N) + ((a % N : ℕ) : ℤ) * ((b % N : ℕ) : ℤ) := by
  unfold dotPhase
  rw [Finset.sum_range_succ, digit_succ_last, digit_succ_last]
  congr 1
  apply Finset.sum_congr rfl
  intro d hd
  rw [digit_succ_of_lt _ _ _ _ (Finset.mem_range.mp hd), digit_succ_of_lt _ _ _ _ (Finset.mem_range.mp hd)]

theorem phaseK_eq_sum (D N : ℕ) (k : List ℤ) (j : ℕ) :
    phaseK D N k j = ∑ d ∈ range D, k.getD d 0 * (digit D N j d : ℤ) := by
  have : phaseK D N k j = sumList ((List.range D).map (fun d => k.getD d 0 * (digit D N j d : ℤ))) := rfl
  rw [this, sumList_eq, list_range_map_sum]

theorem wnFlat_getD (D N h d : ℕ) (hd : d < D) :
    (wnFlat D N h).getD d 0 = wn D N (unflatten (wavenumberShape D N) h) d := by
  simp [wnFlat, wnVec, hd]

theorem fftfreq_emod (N i : ℕ) : fftfreq N i % (N : ℤ) = (i : ℤ) % (N : ℤ) := by
  unfold fftfreq
  split_ifs
  · rfl
  · rw [Int.sub_emod, Int.emod_self, sub_zero, Int.emod_emod_of_dvd _ (dvd_refl _)]

/-- the model's phase of stored mode `h` at grid point `j`, modulo `N` -/
theorem phaseK_wnFlat_modEq (E N h j : ℕ) (hh : h < numModes (E + 1) N) :
    phaseK (E + 1) N (wnFlat (E + 1) N h) j
      ≡ dotPhase E N (h / (N / 2 + 1)) (j / N)
          + ((h % (N / 2 + 1) : ℕ) : ℤ) * ((j % N : ℕ) : ℤ) [ZMOD (N : ℤ)] := by
  have hh' := hh
  rw [numModes_succ] at hh'
  rw [phaseK_eq_sum, Finset.sum_range_succ, digit_succ_last, wnFlat_getD _ _ _ _ (Nat.lt_succ_self E)]
  apply Int.ModEq.add
  · unfold dotPhase Int.ModEq
    rw [Finset.sum_int_mod]
    conv_rhs => rw [Finset.sum_int_mod]
    congr 1
    apply Finset.sum_congr rfl
    intro d hd
    have hd' := Finset.mem_range.mp hd
    rw [wnFlat_getD _ _ _ _ (by omega), digit_succ_of_lt _ _ _ _ hd']
    simp only [wn, if_neg (show ¬ d + 1 = E + 1 by omega), wavenumberShape_succ]
    rw [unflatten_rep_getD_lt N _ E h d hd' hh', Int.mul_emod, fftfreq_emod, ← Int.mul_emod]
    congr 3
    unfold digit
    rw [Nat.div_div_eq_div_mul, mul_comm]
  · simp only [wn, if_true, rfftfreq, wavenumberShape_succ]
    rw [unflatten_rep_getD_last N _ E h hh']

theorem twiddle_phaseK_wnFlat (E N h j : ℕ) (hh : h < numModes (E + 1) N) :
    (twiddle N (phaseK (E + 1) N (wnFlat (E + 1) N h) j) : ℂ)
      = zeta N ^ (dotPhase E N (h / (N / 2 + 1)) (j / N)
          + ((h % (N / 2 + 1) : ℕ) : ℤ) * ((j % N : ℕ) : ℤ)) := by
  rw [twiddle_eq_zpow]
  exact zeta_zpow_eq_of_modEq N (phaseK_wnFlat_modEq E N h j hh)

/-! ### sums over `range (a * b)` as double sums -/

theorem sum_range_mul {M : Type} [AddCommMonoid M] (a b : ℕ) (F : ℕ → M) :
    ∑ h ∈ range (a * b), F h = ∑ x ∈ range a, ∑ y ∈ range b, F (x * b + y) := by
  induction a with
  | zero => simp
  | succ a ih => rw [Nat.succ_mul, Finset.sum_range_add, ih, Finset.sum_range_succ]

theorem sum_range_mul_div_mod {M : Type} [AddCommMonoid M] (a b : ℕ) (G : ℕ → ℕ → M) :
    ∑ h ∈ range (a * b), G (h / b) (h % b) = ∑ x ∈ range a, ∑ y ∈ range b, G x y := by
  rw [sum_range_mul]
  apply Finset.sum_congr rfl
  intro x _
  apply Finset.sum_congr rfl
  intro y hy
  have hy' := Finset.mem_range.mp hy
  have hb : 0 < b := by omega
  rw [show x * b + y = y + b * x by ring, Nat.add_mul_div_left _ _ hb, Nat.add_mul_mod_self_left,
    Nat.div_eq_of_lt hy', Nat.mod_eq_of_lt hy', zero_add]

/-! ### multi-dimensional orthogonality -/

theorem dotPhase_orth (N : ℕ) (hN : 0 < N) : ∀ (E b1 b2 : ℕ), b1 < N ^ E → b2 < N ^ E →
    ∑ a ∈ range (N ^ E), zeta N ^ (dotPhase E N a b1 - dotPhase E N a b2)
      = if b1 = b2 then ((N ^ E : ℕ) : ℂ) else 0
  | 0, b1, b2, h1, h2 => by
    have e1 : b1 = 0 := by simpa using h1
    have e2 : b2 = 0 := by simpa using h2
    simp [e1, e2]
  | E + 1, b1, b2, h1, h2 => by
    have h1' : b1 / N < N ^ E := Nat.div_lt_of_lt_mul (by rw [pow_succ'] at h1; exact h1)
    have h2' : b2 / N < N ^ E := Nat.div_lt_of_lt_mul (by rw [pow_succ'] at h2; exact h2)
    have hterm : ∀ a : ℕ, zeta N ^ (dotPhase (E + 1) N a b1 - dotPhase (E + 1) N a b2)
        = zeta N ^ (dotPhase E N (a / N) (b1 / N) - dotPhase E N (a / N) (b2 / N))
            * zeta N ^ ((((b1 % N : ℕ) : ℤ) - ((b2 % N : ℕ) : ℤ)) * ((a % N : ℕ) : ℤ)) := by
      intro a
      rw [dotPhase_succ, dotPhase_succ, ← zpow_add₀ (zeta_ne_zero N)]
      congr 1
      ring
    have key : ∑ a ∈ range (N ^ E * N),
          zeta N ^ (dotPhase E N (a / N) (b1 / N) - dotPhase E N (a / N) (b2 / N))
            * zeta N ^ ((((b1 % N : ℕ) : ℤ) - ((b2 % N : ℕ) : ℤ)) * ((a % N : ℕ) : ℤ))
        = ∑ x ∈ range (N ^ E), ∑ y ∈ range N,
          zeta N ^ (dotPhase E N x (b1 / N) - dotPhase E N x (b2 / N))
            * zeta N ^ ((((b1 % N : ℕ) : ℤ) - ((b2 % N : ℕ) : ℤ)) * (y : ℤ)) :=
      sum_range_mul_div_mod (N ^ E) N (fun x y : ℕ =>
        zeta N ^ (dotPhase E N x (b1 / N) - dotPhase E N x (b2 / N))
            * zeta N ^ ((((b1 % N : ℕ) : ℤ) - ((b2 % N : ℕ) : ℤ)) * (y : ℤ)))
    simp only [hterm]
    rw [pow_succ, key, ← Finset.sum_mul_sum, dotPhase_orth N hN E _ _ h1' h2',
      zeta_sum_sub N hN _ _ (Nat.mod_lt _ hN) (Nat.mod_lt _ hN)]
    have hiff : b1 = b2 ↔ (b1 / N = b2 / N ∧ b1 % N = b2 % N) := by
      constructor
      · rintro rfl; exact ⟨rfl, rfl⟩
      · rintro ⟨e1, e2⟩
        rw [← Nat.div_add_mod b1 N, ← Nat.div_add_mod b2 N, e1, e2]
    by_cases hb : b1 = b2
    · subst hb; simp
    · rw [if_neg hb]
      have := (not_congr hiff).mp hb
      by_cases hq : b1 / N = b2 / N
      · have hr : ¬ b1 % N = b2 % N := fun hr => this ⟨hq, hr⟩
        simp [hr]
      · simp [hq]


/-! ### the `(E+1)`-dimensional transforms as sums of powers of `ζ` -/

/-- `F(h', l) = Σ_j u_j ζ^{h'·j' + l·i}` where `j = j'·N + i` (`h'` : first `E` axes, `l` : last axis) -/
noncomputable def dftn (E N : ℕ) (u : Array ℂ) (h' l : ℕ) : ℂ :=
  ∑ j ∈ range (N ^ (E + 1)),
    u.getD j 0 * zeta N ^ (dotPhase E N h' (j / N) + (l : ℤ) * ((j % N : ℕ) : ℤ))

theorem rfftn_getD (E N : ℕ) (hN : 0 < N) (u : Array ℂ) (h : ℕ) (hh : h < numModes (E + 1) N) :
    (rfftnM (E + 1) N u).getD h 0 = dftn E N u (h / (N / 2 + 1)) (h % (N / 2 + 1)) := by
  rw [rfftnM_getD (E + 1) N hN u h hh, dftn]
  apply Finset.sum_congr rfl
  intro j _
  rw [twiddle_phaseK_wnFlat E N h j hh]

theorem irfftn_getD (E N : ℕ) (hN : 0 < N) (c : Array ℂ) (J : ℕ) (hJ : J < N ^ (E + 1)) :
    (irfftnM (E + 1) N c).getD J 0
      = (∑ h ∈ range (N ^ E * (N / 2 + 1)), (herm_weight 1 N (h % (N / 2 + 1)) : ℂ) *
          (((c.getD h 0 * zeta N ^ (-(dotPhase E N (h / (N / 2 + 1)) (J / N)
              + ((h % (N / 2 + 1) : ℕ) : ℤ) * ((J % N : ℕ) : ℤ)))).re : ℝ) : ℂ))
        / ((N ^ (E + 1) : ℕ) : ℂ) := by
  rw [irfftnM_getD (E + 1) N hN c J hJ, numModes_succ]
  congr 1
  apply Finset.sum_congr rfl
  intro h hh
  have hh' : h < numModes (E + 1) N := by rw [numModes_succ]; exact Finset.mem_range.mp hh
  rw [herm_weight_succ E N h hh', twiddle_neg, twiddle_phaseK_wnFlat E N h J hh', ← zpow_neg]

theorem dftn_eq (E N : ℕ) (hN : 0 < N) (u : Array ℂ) (h' l : ℕ) :
    dftn E N u h' l = ∑ j' ∈ range (N ^ E), ∑ i ∈ range N,
      u.getD (j' * N + i) 0 * zeta N ^ (dotPhase E N h' j' + (l : ℤ) * (i : ℤ)) := by
  rw [dftn, pow_succ, sum_range_mul]
  apply Finset.sum_congr rfl
  intro x _
  apply Finset.sum_congr rfl
  intro y hy
  have hy' := Finset.mem_range.mp hy
  rw [show x * N + y = y + N * x by ring, Nat.add_mul_div_left _ _ hN, Nat.add_mul_mod_self_left,
    Nat.div_eq_of_lt hy', Nat.mod_eq_of_lt hy', zero_add]

/-- summing out the first `E` axes leaves a 1-D DFT of the row through `J'` -/
theorem nd_inner (E N : ℕ) (hN : 0 < N) (u : Array ℂ) (l J' I : ℕ) (hJ' : J' < N ^ E) :
    ∑ h' ∈ range (N ^ E),
        dftn E N u h' l * zeta N ^ (-(dotPhase E N h' J' + (l : ℤ) * (I : ℤ)))
      = ((N ^ E : ℕ) : ℂ) *
          (dft N (tab N (fun i => u.getD (J' * N + i) 0)) l * zeta N ^ (-((l : ℤ) * (I : ℤ)))) := by
  simp only [dftn_eq E N hN, Finset.sum_mul]
  rw [Finset.sum_comm]
  have hinner : ∀ j' ∈ range (N ^ E),
      ∑ h' ∈ range (N ^ E), ∑ i ∈ range N,
          u.getD (j' * N + i) 0 * zeta N ^ (dotPhase E N h' j' + (l : ℤ) * (i : ℤ))
            * zeta N ^ (-(dotPhase E N h' J' + (l : ℤ) * (I : ℤ)))
        = ∑ i ∈ range N, u.getD (j' * N + i) 0 * zeta N ^ ((l : ℤ) * (i : ℤ) - (l : ℤ) * (I : ℤ))
            * (if j' = J' then ((N ^ E : ℕ) : ℂ) else 0) := by
    intro j' hj'
    rw [Finset.sum_comm]
    apply Finset.sum_congr rfl
    intro i _
    rw [← dotPhase_orth N hN E j' J' (Finset.mem_range.mp hj') hJ', Finset.mul_sum]
    apply Finset.sum_congr rfl
    intro h' _
    rw [mul_assoc, mul_assoc, ← zpow_add₀ (zeta_ne_zero N), ← zpow_add₀ (zeta_ne_zero N)]
    congr 2
    ring
  rw [Finset.sum_congr rfl hinner, Finset.sum_eq_single_of_mem J' (Finset.mem_range.mpr hJ')]
  · simp only [if_true]
    unfold dft
    rw [Finset.sum_mul, Finset.mul_sum]
    apply Finset.sum_congr rfl
    intro i hi
    rw [tab_getD _ _ _ _ (Finset.mem_range.mp hi), sub_eq_add_neg, zpow_add₀ (zeta_ne_zero N)]
    ring
  · intro j' _ hne
    simp [hne]

/-- **Round trip in `D = E+1 ≥ 1` dimensions (entrywise).** For a real field `u` on the `N^D` grid,
    `irfftn (rfftn u) = u`. -/
theorem irfftn_rfftn_succ (E N : ℕ) (hN : 0 < N) (u : Array ℂ)
    (hu : ∀ j < N ^ (E + 1), (u.getD j 0).im = 0) (J : ℕ) (hJ : J < N ^ (E + 1)) :
    (irfftnM (E + 1) N (rfftnM (E + 1) N u)).getD J 0 = u.getD J 0 := by
  have hJ' : J / N < N ^ E := Nat.div_lt_of_lt_mul (by rw [pow_succ'] at hJ; exact hJ)
  have hI : J % N < N := Nat.mod_lt _ hN
  set v : Array ℂ := tab N (fun i => u.getD (J / N * N + i) 0) with hv
  have hvreal : ∀ i < N, (v.getD i 0).im = 0 := by
    intro i hi
    rw [hv, tab_getD _ _ _ _ hi]
    apply hu
    calc J / N * N + i < J / N * N + N := by omega
      _ = (J / N + 1) * N := by ring
      _ ≤ N ^ E * N := Nat.mul_le_mul_right _ hJ'
      _ = N ^ (E + 1) := (pow_succ _ _).symm
  rw [irfftn_getD E N hN _ J hJ]
  -- replace the stored spectrum by `dftn`
  have h1 : ∀ h ∈ range (N ^ E * (N / 2 + 1)),
      (herm_weight 1 N (h % (N / 2 + 1)) : ℂ) *
          ((((rfftnM (E + 1) N u).getD h 0 * zeta N ^ (-(dotPhase E N (h / (N / 2 + 1)) (J / N)
              + ((h % (N / 2 + 1) : ℕ) : ℤ) * ((J % N : ℕ) : ℤ)))).re : ℝ) : ℂ)
        = (herm_weight 1 N (h % (N / 2 + 1)) : ℂ) *
          (((dftn E N u (h / (N / 2 + 1)) (h % (N / 2 + 1))
              * zeta N ^ (-(dotPhase E N (h / (N / 2 + 1)) (J / N)
              + ((h % (N / 2 + 1) : ℕ) : ℤ) * ((J % N : ℕ) : ℤ)))).re : ℝ) : ℂ) := by
    intro h hh
    rw [rfftn_getD E N hN u h (by rw [numModes_succ]; exact Finset.mem_range.mp hh)]
  rw [Finset.sum_congr rfl h1]
  have h2 := sum_range_mul_div_mod (N ^ E) (N / 2 + 1) (fun h' l : ℕ =>
      (herm_weight 1 N l : ℂ) *
          (((dftn E N u h' l * zeta N ^ (-(dotPhase E N h' (J / N)
              + ((l : ℕ) : ℤ) * ((J % N : ℕ) : ℤ)))).re : ℝ) : ℂ))
  rw [h2, Finset.sum_comm]
  have h3 : ∀ l ∈ range (N / 2 + 1),
      ∑ h' ∈ range (N ^ E), (herm_weight 1 N l : ℂ) *
          (((dftn E N u h' l * zeta N ^ (-(dotPhase E N h' (J / N)
              + ((l : ℕ) : ℤ) * ((J % N : ℕ) : ℤ)))).re : ℝ) : ℂ)
        = ((N ^ E : ℕ) : ℂ) * ((herm_weight 1 N l : ℂ) *
            (((dft N v l * zeta N ^ (-((l : ℤ) * ((J % N : ℕ) : ℤ)))).re : ℝ) : ℂ)) := by
    intro l _
    rw [← Finset.mul_sum, ← Complex.ofReal_sum, ← Complex.re_sum, nd_inner E N hN u l (J / N) (J % N) hJ',
      ← hv, show ((N ^ E : ℕ) : ℂ) = (((N ^ E : ℕ) : ℝ) : ℂ) by push_cast; rfl, Complex.re_ofReal_mul]
    push_cast
    ring
  rw [Finset.sum_congr rfl h3, ← Finset.mul_sum, half_inversion N hN v hvreal (J % N) hI,
    hv, tab_getD _ _ _ _ hI, Nat.div_add_mod']
  have hNne : (N : ℂ) ≠ 0 := by exact_mod_cast hN.ne'
  push_cast
  field_simp
  ring

/-- **Round trip, general dimension `D ≥ 1`, every `N ≥ 1` (entrywise).** -/
theorem irfftn_rfftn (D N : ℕ) (hD : 0 < D) (hN : 0 < N) (u : Array ℂ)
    (hu : ∀ j < N ^ D, (u.getD j 0).im = 0) (j : ℕ) (hj : j < N ^ D) :
    (irfftnM D N (rfftnM D N u)).getD j 0 = u.getD j 0 := by
  obtain ⟨E, rfl⟩ : ∃ E, D = E + 1 := ⟨D - 1, by omega⟩
  exact irfftn_rfftn_succ E N hN u hu j hj

/-- **Round trip, general dimension (array form).** -/
theorem irfftn_rfftn_array (D N : ℕ) (hD : 0 < D) (hN : 0 < N) (u : Array ℂ) (hsz : u.size = N ^ D)
    (hu : ∀ (j : ℕ) (hj : j < u.size), (u[j]).im = 0) :
    irfftnM D N (rfftnM D N u) = u := by
  have hu' : ∀ j < N ^ D, (u.getD j 0).im = 0 := by
    intro j hj
    have hj' : j < u.size := by omega
    simpa [Array.getD, hj'] using hu j hj'
  apply Array.ext
  · simp [hsz]
  · intro j h1 h2
    have hj : j < N ^ D := by omega
    have := irfftn_rfftn D N hD hN u hu' j hj
    simpa [Array.getD, h1, h2, hj] using this

/-- **Round trip** for arrays given as casts of real samples, any `D ≥ 1`. -/
theorem irfftn_rfftn_ofReal (D N : ℕ) (hD : 0 < D) (hN : 0 < N) (x : ℕ → ℝ) :
    irfftnM D N (rfftnM D N (tab (N ^ D) (fun j => ((x j : ℝ) : ℂ))))
      = tab (N ^ D) (fun j => ((x j : ℝ) : ℂ)) := by
  apply irfftn_rfftn_array D N hD hN _ (tab_size _ _)
  intro j hj
  rw [tab_getElem]
  simp

theorem irfft_rfft_2d (N : ℕ) (hN : 0 < N) (u : Array ℂ)
    (hu : ∀ j < N ^ 2, (u.getD j 0).im = 0) (j : ℕ) (hj : j < N ^ 2) :
    (irfftnM 2 N (rfftnM 2 N u)).getD j 0 = u.getD j 0 :=
  irfftn_rfftn 2 N (by norm_num) hN u hu j hj

theorem irfft_rfft_3d (N : ℕ) (hN : 0 < N) (u : Array ℂ)
    (hu : ∀ j < N ^ 3, (u.getD j 0).im = 0) (j : ℕ) (hj : j < N ^ 3) :
    (irfftnM 3 N (rfftnM 3 N u)).getD j 0 = u.getD j 0 :=
  irfftn_rfftn 3 N (by norm_num) hN u hu j hj


/-! ### Parseval in general dimension -/

theorem dotPhase_cross (E N : ℕ) (hN : 0 < N) (a b : ℕ → ℂ) :
    ∑ h ∈ range (N ^ E), (∑ j ∈ range (N ^ E), a j * zeta N ^ (dotPhase E N h j)) *
        (∑ j ∈ range (N ^ E), b j * zeta N ^ (-(dotPhase E N h j)))
      = ((N ^ E : ℕ) : ℂ) * ∑ j ∈ range (N ^ E), a j * b j := by
  simp only [Finset.sum_mul_sum]
  rw [Finset.sum_comm]
  rw [Finset.mul_sum]
  apply Finset.sum_congr rfl
  intro j hj
  rw [Finset.sum_comm]
  have key : ∀ j' ∈ range (N ^ E),
      ∑ h ∈ range (N ^ E), a j * zeta N ^ (dotPhase E N h j) * (b j' * zeta N ^ (-(dotPhase E N h j')))
        = a j * b j' * (if j = j' then ((N ^ E : ℕ) : ℂ) else 0) := by
    intro j' hj'
    rw [← dotPhase_orth N hN E j j' (Finset.mem_range.mp hj) (Finset.mem_range.mp hj'), Finset.mul_sum]
    apply Finset.sum_congr rfl
    intro h _
    rw [show a j * zeta N ^ (dotPhase E N h j) * (b j' * zeta N ^ (-(dotPhase E N h j')))
        = a j * b j' * (zeta N ^ (dotPhase E N h j) * zeta N ^ (-(dotPhase E N h j'))) by ring,
      ← zpow_add₀ (zeta_ne_zero N), sub_eq_add_neg]
  rw [Finset.sum_congr rfl key]
  simp only [mul_ite, mul_zero, Finset.sum_ite_eq, hj, if_true]
  ring

/-- Parseval over the first `E` (full) axes -/
theorem dotPhase_parseval (E N : ℕ) (hN : 0 < N) (a : ℕ → ℂ) :
    ∑ h ∈ range (N ^ E), ‖∑ j ∈ range (N ^ E), a j * zeta N ^ (dotPhase E N h j)‖ ^ 2
      = ((N ^ E : ℕ) : ℝ) * ∑ j ∈ range (N ^ E), ‖a j‖ ^ 2 := by
  apply Complex.ofReal_injective
  rw [Complex.ofReal_sum, Complex.ofReal_mul, Complex.ofReal_sum]
  simp only [normsq_eq]
  have := dotPhase_cross E N hN a (fun j => (starRingEnd ℂ) (a j))
  rw [Complex.ofReal_natCast, ← this]
  apply Finset.sum_congr rfl
  intro h _
  congr 1
  rw [map_sum]
  apply Finset.sum_congr rfl
  intro j _
  rw [map_mul, conj_zeta_zpow]

/-- `F(h', l)` as an `E`-dimensional DFT of the row-wise 1-D DFTs -/
theorem dftn_eq_rows (E N : ℕ) (hN : 0 < N) (u : Array ℂ) (h' l : ℕ) :
    dftn E N u h' l = ∑ j' ∈ range (N ^ E),
      dft N (tab N (fun i => u.getD (j' * N + i) 0)) l * zeta N ^ (dotPhase E N h' j') := by
  rw [dftn_eq E N hN]
  apply Finset.sum_congr rfl
  intro j' _
  unfold dft
  rw [Finset.sum_mul]
  apply Finset.sum_congr rfl
  intro i hi
  rw [tab_getD _ _ _ _ (Finset.mem_range.mp hi), zpow_add₀ (zeta_ne_zero N)]
  ring

/-- **Parseval in the half layout, `D = E+1` dimensions**, real `u`. -/
theorem parseval_succ (E N : ℕ) (hN : 0 < N) (u : Array ℂ)
    (hu : ∀ j < N ^ (E + 1), (u.getD j 0).im = 0) :
    ∑ h ∈ range (numModes (E + 1) N),
        (herm_weight (E + 1) N h : ℝ) * ‖(rfftnM (E + 1) N u).getD h 0‖ ^ 2
      = ((N ^ (E + 1) : ℕ) : ℝ) * ∑ j ∈ range (N ^ (E + 1)), ‖u.getD j 0‖ ^ 2 := by
  have h1 : ∀ h ∈ range (numModes (E + 1) N),
      (herm_weight (E + 1) N h : ℝ) * ‖(rfftnM (E + 1) N u).getD h 0‖ ^ 2
        = (herm_weight 1 N (h % (N / 2 + 1)) : ℝ)
            * ‖dftn E N u (h / (N / 2 + 1)) (h % (N / 2 + 1))‖ ^ 2 := by
    intro h hh
    have hh' := Finset.mem_range.mp hh
    rw [rfftn_getD E N hN u h hh', herm_weight_succ E N h hh']
  rw [Finset.sum_congr rfl h1, numModes_succ]
  have h2 := sum_range_mul_div_mod (N ^ E) (N / 2 + 1) (fun h' l : ℕ =>
      (herm_weight 1 N l : ℝ) * ‖dftn E N u h' l‖ ^ 2)
  rw [h2, Finset.sum_comm]
  have h3 : ∀ l ∈ range (N / 2 + 1),
      ∑ h' ∈ range (N ^ E), (herm_weight 1 N l : ℝ) * ‖dftn E N u h' l‖ ^ 2
        = ((N ^ E : ℕ) : ℝ) * ∑ j' ∈ range (N ^ E),
            (herm_weight 1 N l : ℝ) * ‖dft N (tab N (fun i => u.getD (j' * N + i) 0)) l‖ ^ 2 := by
    intro l _
    simp only [dftn_eq_rows E N hN]
    rw [← Finset.mul_sum, dotPhase_parseval E N hN, ← Finset.mul_sum]
    ring
  rw [Finset.sum_congr rfl h3, ← Finset.mul_sum, Finset.sum_comm]
  have h4 : ∀ j' ∈ range (N ^ E),
      ∑ l ∈ range (N / 2 + 1),
          (herm_weight 1 N l : ℝ) * ‖dft N (tab N (fun i => u.getD (j' * N + i) 0)) l‖ ^ 2
        = (N : ℝ) * ∑ i ∈ range N, ‖u.getD (j' * N + i) 0‖ ^ 2 := by
    intro j' hj'
    have hj'' := Finset.mem_range.mp hj'
    rw [half_parseval N hN]
    · congr 1
      apply Finset.sum_congr rfl
      intro i hi
      rw [tab_getD _ _ _ _ (Finset.mem_range.mp hi)]
    · intro i hi
      rw [tab_getD _ _ _ _ hi]
      apply hu
      calc j' * N + i < j' * N + N := by omega
        _ = (j' + 1) * N := by ring
        _ ≤ N ^ E * N := Nat.mul_le_mul_right _ hj''
        _ = N ^ (E + 1) := (pow_succ _ _).symm
  rw [Finset.sum_congr rfl h4, ← Finset.mul_sum, pow_succ, sum_range_mul]
  push_cast
  ring

/-- **Parseval in the half layout, general `D ≥ 1`**:
    `Σ_j |u_j|² = N^{-D} Σ_h w_h |û_h|²`, `w = herm_weight D N`. -/
theorem parseval_nd (D N : ℕ) (hD : 0 < D) (hN : 0 < N) (u : Array ℂ)
    (hu : ∀ j < N ^ D, (u.getD j 0).im = 0) :
    ∑ j ∈ range (N ^ D), ‖u.getD j 0‖ ^ 2
      = (1 / ((N ^ D : ℕ) : ℝ)) * ∑ h ∈ range (numModes D N),
          (herm_weight D N h : ℝ) * ‖(rfftnM D N u).getD h 0‖ ^ 2 := by
  obtain ⟨E, rfl⟩ : ∃ E, D = E + 1 := ⟨D - 1, by omega⟩
  rw [parseval_succ E N hN u hu]
  have hNne : ((N ^ (E + 1) : ℕ) : ℝ) ≠ 0 := by
    exact_mod_cast (pow_pos hN _).ne'
  field_simp

end Exponax.DFT
