import ExponaxModel.Proofs.AliasND2
/-
C03 in general dimension `D ≥ 1`, part 7 (G2): `GradientNormNonlinearFun` `½|∇u|²`, one channel,
both values of `zero_mode_fix`, any `D ≥ 1`, cut-off `3·Kc < N`.

  * `dfield c ûh d`                 the model's differentiated field `ifft(mask·(i s k_d)·ûh)`,
  * `gradientNorm_nd_readoff`       pipeline read-off (any stored input),
  * `dftV_dfield_sq`                `(∂_d P_K u)²` alias-free,
  * **G2** `gradientNorm_alias_free_nd` (+ `_explicit` with all sums written out, + fraction 2/3).
-/
namespace Exponax.AliasND
open Exponax Exponax.Layout Exponax.Transform Exponax.DFT Exponax.Nonlin Exponax.Alias Finset

/-- the model's differentiated grid field `ifft(mask·(i s k_d)·ûh)` -/
noncomputable def dfield (c : Cfg ℂ) (uh : Array ℂ) (d : ℕ) : Array ℂ :=
  nifft c (tab (modes c) fun k => deriv c d k * uh.getD k 0)

theorem dfield_bandLimitedV (c : Cfg ℂ) (hq : c.fq ≠ 0) (hN : 0 < c.N) (uh : Array ℂ) (d : ℕ) :
    BandLimitedV c.D c.N (Kc c) (dfield c uh d) := nifft_bandLimitedV c hq hN _

theorem dfield_isRealND (c : Cfg ℂ) (hN : 0 < c.N) (uh : Array ℂ) (d : ℕ) :
    IsRealND c.D c.N (dfield c uh d) := nifft_isRealND c hN _

/-- G1 for `dfield`: on the box the spectrum of `dfield c (rfftn x) d` is `(i s m_d)·X(m)` -/
theorem dftV_dfield (c : Cfg ℂ) (hD : 0 < c.D) (hq : c.fq ≠ 0) (hN : 0 < c.N)
    (h2 : 2 * Kc c < (c.N : ℤ)) (s : ℝ) (hs : c.s = (s : ℂ)) (x : Array ℂ) (hx : IsRealND c.D c.N x)
    (d : ℕ) (hd : d < c.D) (m : Fin c.D → ℤ) (hm : ∀ d, |m d| ≤ Kc c) :
    dftV c.D c.N (dfield c (rfftnM c.D c.N x) d) m = dsym c d m * dftV c.D c.N x m :=
  dftV_nifft_deriv c hD hq hN h2 s hs x hx d hd m hm

/-- the box-truncated spectrum of `∂_d x`: `p ↦ (i s p_d)·X(p)` -/
noncomputable def dspec (c : Cfg ℂ) (d : ℕ) (x : Array ℂ) : (Fin c.D → ℤ) → ℂ :=
  fun p => dsym c d p * dftV c.D c.N x p

/-! ### pipeline read-off -/

/-- pipeline read-off of `GradientNormNonlinearFun` (one channel, any `D`, any stored input): with
    `w_d = ifft(mask·(i s k_d)·û)` and `Q = Σ_d w_d²` the output is
    `−scale·½·mask·F[Q (− mean(Q) if zero_mode_fix)]`. -/
theorem gradientNorm_nd_readoff (c : Cfg ℂ) (hN : 0 < c.N) (scale : ℂ) (zeroFix : Bool)
    (uh : Array ℂ) (h : ℕ) (hh : h < numModes c.D c.N) :
    at2 (gradientNorm c 1 scale zeroFix #[uh]) 0 h
      = -scale * ((1 : ℂ) / 2 * (mask c h * dftV c.D c.N (tab (c.N ^ c.D) fun j =>
          if zeroFix = true then
            (∑ d ∈ range c.D, (dfield c uh d).getD j 0 * (dfield c uh d).getD j 0)
              - (∑ x ∈ range (c.N ^ c.D),
                  ∑ d ∈ range c.D, (dfield c uh d).getD x 0 * (dfield c uh d).getD x 0)
                / ((c.N ^ c.D : ℕ) : ℂ)
          else
            ∑ d ∈ range c.D, (dfield c uh d).getD j 0 * (dfield c uh d).getD j 0)
          (kvec c.D c.N h))) := by
  have hM : h < modes c := hh
  have hg : ∀ d, d < c.D → ∀ x, at2 (tabC (1 * c.D) fun cd => nifft c (tab (modes c) fun k =>
        deriv c (cd % c.D) k * at2 (#[uh] : MC ℂ) (cd / c.D) k)) (0 * c.D + d) x
      = (dfield c uh d).getD x 0 := by
    intro d hd x
    rw [at2_tabC _ _ _ _ (by omega)]
    have e1 : (0 * c.D + d) % c.D = d := by rw [zero_mul, zero_add, Nat.mod_eq_of_lt hd]
    have e2 : (0 * c.D + d) / c.D = 0 := by rw [zero_mul, zero_add, Nat.div_eq_of_lt hd]
    rw [e1, e2]
    rfl
  have hQ : ∀ x, sumList ((List.range c.D).map fun d =>
        at2 (tabC (1 * c.D) fun cd => nifft c (tab (modes c) fun k =>
          deriv c (cd % c.D) k * at2 (#[uh] : MC ℂ) (cd / c.D) k)) (0 * c.D + d) x *
        at2 (tabC (1 * c.D) fun cd => nifft c (tab (modes c) fun k =>
          deriv c (cd % c.D) k * at2 (#[uh] : MC ℂ) (cd / c.D) k)) (0 * c.D + d) x)
      = ∑ d ∈ range c.D, (dfield c uh d).getD x 0 * (dfield c uh d).getD x 0 := by
    intro x
    rw [sumList_range_eq]
    apply Finset.sum_congr rfl
    intro d hd
    rw [hg d (Finset.mem_range.mp hd)]
  unfold gradientNorm
  simp only []
  rw [at2_tab2 _ _ _ _ _ Nat.zero_lt_one hM, at2_tabC _ _ _ _ Nat.zero_lt_one,
    nfft_nd c hN _ h hh, gradientNorm_core]
  simp only [hQ]
  have hG : gridSize c = c.N ^ c.D := rfl
  rw [hG]
  simp

/-! ### the squares `(∂_d P_K u)²`, alias-free -/

theorem dftV_dfield_sq (c : Cfg ℂ) (hD : 0 < c.D) (hq : c.fq ≠ 0) (hK : 3 * Kc c < (c.N : ℤ))
    (hN : 0 < c.N) (s : ℝ) (hs : c.s = (s : ℂ)) (x : Array ℂ) (hx : IsRealND c.D c.N x)
    (d : ℕ) (hd : d < c.D) (k : Fin c.D → ℤ) (hk : ∀ d, |k d| ≤ Kc c) :
    dftV c.D c.N (tab (c.N ^ c.D) fun j =>
        (dfield c (rfftnM c.D c.N x) d).getD j 0 * (dfield c (rfftnM c.D c.N x) d).getD j 0) k
      = linConv c.D c.N (Kc c) (dspec c d x) (dspec c d x) k := by
  have h2 := two_lt_of_three c.N (Kc c) hK
  exact dftV_mul_of_box c.D c.N hN (Kc c) hK _ _ (dfield_bandLimitedV c hq hN _ d)
    (dfield_bandLimitedV c hq hN _ d) _ _
    (fun p hp => dftV_dfield c hD hq hN h2 s hs x hx d hd p hp)
    (fun p hp => dftV_dfield c hD hq hN h2 s hs x hx d hd p hp) k hk

theorem dftV_grad_sq (c : Cfg ℂ) (hD : 0 < c.D) (hq : c.fq ≠ 0) (hK : 3 * Kc c < (c.N : ℤ))
    (hN : 0 < c.N) (s : ℝ) (hs : c.s = (s : ℂ)) (x : Array ℂ) (hx : IsRealND c.D c.N x)
    (k : Fin c.D → ℤ) (hk : ∀ d, |k d| ≤ Kc c) :
    dftV c.D c.N (tab (c.N ^ c.D) fun j => ∑ d ∈ range c.D,
        (dfield c (rfftnM c.D c.N x) d).getD j 0 * (dfield c (rfftnM c.D c.N x) d).getD j 0) k
      = ∑ d ∈ range c.D, linConv c.D c.N (Kc c) (dspec c d x) (dspec c d x) k := by
  rw [dftV_sum]
  apply Finset.sum_congr rfl
  intro d hd
  exact dftV_dfield_sq c hD hq hK hN s hs x hx d (Finset.mem_range.mp hd) k hk

/-! ### G2 -/

/-- **G2: `GradientNormNonlinearFun`, any `D ≥ 1`, one channel, cut-off `3·Kc < N`** (e.g. the 2/3
    rule), real scale `s`, real state `x`, `û = rfftnM D N x`.  At a retained stored mode `h`

      `out_h = −scale·½·Σ_{d<D} (D_d X ⋆ D_d X)(k(h))`,   `D_d X (p) = (i s p_d)·X(p)`,

    with `X` the box-truncated full spectrum of `x` and `⋆` the LINEAR convolution (normalised by
    `N^{-D}`): the coefficient of `−scale·½·|∇ P_K u|²`, alias-free — except that with
    `zero_mode_fix = True` the mean mode `h = 0` is set to `0`.  At a dropped mode the output is `0`. -/
theorem gradientNorm_alias_free_nd (c : Cfg ℂ) (hD : 0 < c.D) (hq : c.fq ≠ 0)
    (hK : 3 * Kc c < (c.N : ℤ)) (hN : 0 < c.N) (s : ℝ) (hs : c.s = (s : ℂ)) (scale : ℂ)
    (zeroFix : Bool) (x : Array ℂ) (hx : IsRealND c.D c.N x) (h : ℕ) (hh : h < numModes c.D c.N) :
    (mask c h = 1 →
      at2 (gradientNorm c 1 scale zeroFix #[rfftnM c.D c.N x]) 0 h
        = if zeroFix = true ∧ h = 0 then 0 else
          -scale * (1 / 2) * ∑ d ∈ range c.D,
            linConv c.D c.N (Kc c) (dspec c d x) (dspec c d x) (kvec c.D c.N h))
    ∧ (mask c h = 0 → at2 (gradientNorm c 1 scale zeroFix #[rfftnM c.D c.N x]) 0 h = 0) := by
  have hGne : ((c.N ^ c.D : ℕ) : ℂ) ≠ 0 := by exact_mod_cast (pow_pos hN c.D).ne'
  refine ⟨fun hm => ?_, fun hm => gradientNorm_zero_off_band c 1 scale zeroFix _ 0 h hm⟩
  have hk : ∀ d, |kvec c.D c.N h d| ≤ Kc c := (mask_nd_eq_one_iff c hq h).mp hm
  rw [gradientNorm_nd_readoff c hN scale zeroFix _ h hh, hm, one_mul]
  cases zeroFix
  · simp only [Bool.false_eq_true, if_false, false_and]
    rw [dftV_grad_sq c hD hq hK hN s hs x hx _ hk]
    ring
  · simp only [if_true, true_and]
    rw [dftV_sub_const c.D c.N hN]
    simp only [stored_dvd_iff c.D c.N h hD hN hh]
    split_ifs with h0
    · subst h0
      rw [kvec_zero, dftV_zero_eq_sum]
      field_simp
      ring
    · rw [dftV_grad_sq c hD hq hK hN s hs x hx _ hk]
      ring

/-- `linConv` of two differentiated spectra with every sum and symbol written out -/
theorem linConv_dspec_explicit (c : Cfg ℂ) (d : Fin c.D) (x y : Array ℂ) (k : Fin c.D → ℤ) :
    linConv c.D c.N (Kc c) (dspec c d x) (dspec c d y) k
      = (1 / ((c.N ^ c.D : ℕ) : ℂ)) * ∑ p ∈ box c.D (Kc c),
          (Complex.I * (c.s * ((p d : ℤ) : ℂ)) * truncV (Kc c) (dftV c.D c.N x) p) *
            (Complex.I * (c.s * (((k d - p d : ℤ)) : ℂ)) * truncV (Kc c) (dftV c.D c.N y) (k - p)) := by
  unfold linConv dspec
  congr 1
  apply Finset.sum_congr rfl
  intro p _
  rw [truncV_mul, truncV_mul, dsym_fin, dsym_fin, Pi.sub_apply]

/-- **G2 with explicit sums** (the `D`-dimensional analogue of the 1-D
    `gradientNorm_one_alias_free_of_cutoff`): at a retained stored mode

    `out_h = −scale·½·Σ_{d} N^{-D} Σ_{p ∈ box} (i s p_d X_p)·(i s (k_d(h) − p_d) X_{k(h)−p})`

    (`0` at `h = 0` with the zero-mode fix), `0` at a dropped mode. -/
theorem gradientNorm_alias_free_nd_explicit (c : Cfg ℂ) (hD : 0 < c.D) (hq : c.fq ≠ 0)
    (hK : 3 * Kc c < (c.N : ℤ)) (hN : 0 < c.N) (s : ℝ) (hs : c.s = (s : ℂ)) (scale : ℂ)
    (zeroFix : Bool) (x : Array ℂ) (hx : IsRealND c.D c.N x) (h : ℕ) (hh : h < numModes c.D c.N) :
    (mask c h = 1 →
      at2 (gradientNorm c 1 scale zeroFix #[rfftnM c.D c.N x]) 0 h
        = if zeroFix = true ∧ h = 0 then 0 else
          -scale * (1 / 2) * ∑ d : Fin c.D,
            ((1 / ((c.N ^ c.D : ℕ) : ℂ)) * ∑ p ∈ box c.D (Kc c),
              (Complex.I * (c.s * ((p d : ℤ) : ℂ)) * truncV (Kc c) (dftV c.D c.N x) p) *
                (Complex.I * (c.s * (((kvec c.D c.N h d - p d : ℤ)) : ℂ))
                  * truncV (Kc c) (dftV c.D c.N x) (kvec c.D c.N h - p))))
    ∧ (mask c h = 0 → at2 (gradientNorm c 1 scale zeroFix #[rfftnM c.D c.N x]) 0 h = 0) := by
  have := gradientNorm_alias_free_nd c hD hq hK hN s hs scale zeroFix x hx h hh
  refine ⟨fun hm => ?_, this.2⟩
  rw [this.1 hm]
  congr 2
  rw [← Fin.sum_univ_eq_sum_range (fun d => linConv c.D c.N (Kc c) (dspec c d x) (dspec c d x)
    (kvec c.D c.N h)) c.D]
  apply Finset.sum_congr rfl
  intro d _
  exact linConv_dspec_explicit c d x x _

/-- G2 for the documented fraction 2/3 -/
theorem gradientNorm_alias_free_nd_two_thirds (c : Cfg ℂ) (hD : 0 < c.D) (hp : c.fp = 2)
    (hq : c.fq = 3) (hN : 0 < c.N) (s : ℝ) (hs : c.s = (s : ℂ)) (scale : ℂ)
    (zeroFix : Bool) (x : Array ℂ) (hx : IsRealND c.D c.N x) (h : ℕ) (hh : h < numModes c.D c.N) :
    (mask c h = 1 →
      at2 (gradientNorm c 1 scale zeroFix #[rfftnM c.D c.N x]) 0 h
        = if zeroFix = true ∧ h = 0 then 0 else
          -scale * (1 / 2) * ∑ d ∈ range c.D,
            linConv c.D c.N (Kc c) (dspec c d x) (dspec c d x) (kvec c.D c.N h))
    ∧ (mask c h = 0 → at2 (gradientNorm c 1 scale zeroFix #[rfftnM c.D c.N x]) 0 h = 0) :=
  gradientNorm_alias_free_nd c hD (by omega) (Kc_two_thirds c hp hq).1 hN s hs scale zeroFix x hx h hh

end Exponax.AliasND
