import ExponaxModel.Proofs.WaveWholeEnergy
/-
C11 for the wave stepper on whole states: the Nyquist caveat of T3 is sharp.

* `bandLimited_of_odd` — for odd `N` no stored mode has a Nyquist component, so EVERY array is `BandLimited` and
  `waveStep_energy_odd` holds for every real two-channel state.
* `wave_energy_nyquist_fails` — for even `N` with Nyquist content the energy is NOT conserved: `D = 1`, `N = 2`,
  `h = (1, −1) = cos(π j)`, `v = 0`.  The model's spectral derivative of the Nyquist mode is `0` (its symbol `i(2π/L)(N/2)`
  is imaginary and the c2r transform takes the real part on the self-conjugate column), so `E(h, v) = 0`, while the
  stepper rotates the mode with `ω = c (2π/L)(N/2) ≠ 0` into `v = ∓ω sin(ωt)`: `E > 0` after one step whenever
  `sin(ωt) ≠ 0`.  (Same mechanism as `C11_nyquist_loss` for the linear steppers, here a gain.)
-/
set_option linter.unusedVariables false
namespace Exponax.WaveWhole
open Exponax Exponax.Layout Exponax.Transform Exponax.DFT Exponax.ExactLinear Exponax.SpectralOpsEq
  Exponax.ReadOff Exponax.Nonlin Finset

/-! ### odd `N`: every state is Nyquist-free -/

theorem belowNyquist_of_odd (D N : ℕ) (hD : 0 < D) (hodd : N % 2 = 1) (h : ℕ) (hh : h < numModes D N) :
    BelowNyquist D N (wnFlat D N h) := by
  have hN : 0 < N := by omega
  refine ⟨wnFlat_length D N h, ?_⟩
  intro d hd
  have := wnFlat_getD_abs_le D N h hD hN hh d hd
  omega

theorem bandLimited_of_odd (D N : ℕ) (hD : 0 < D) (hodd : N % 2 = 1) (u : Array ℂ) : BandLimited D N u :=
  fun h hh hB => absurd (belowNyquist_of_odd D N hD hodd h hh) hB

/-- **T3 for odd `N`: every real two-channel state** -/
theorem waveStep_energy_odd (D N : ℕ) (hD : 0 < D) (hodd : N % 2 = 1) (c L t : ℝ) (hc : c ≠ 0) (hL : 0 < L)
    (u₀ u₁ : Array ℂ) (hs₀ : u₀.size = N ^ D) (hs₁ : u₁.size = N ^ D)
    (hr₀ : ∀ j < N ^ D, (u₀.getD j 0).im = 0) (hr₁ : ∀ j < N ^ D, (u₁.getD j 0).im = 0) :
    waveEnergy D N L c (waveStep D N (L : ℂ) (t : ℂ) (c : ℂ) #[u₀, u₁]) = waveEnergy D N L c #[u₀, u₁] :=
  waveStep_energy_bandLimited D N hD (by omega) c L t hc hL u₀ u₁
    ⟨hs₀, hr₀, bandLimited_of_odd D N hD hodd u₀⟩ ⟨hs₁, hr₁, bandLimited_of_odd D N hD hodd u₁⟩

/-! ### even `N` with Nyquist content: the counterexample -/

/-- a Fourier multiplier on the Nyquist mode of the 2-point grid -/
theorem specApply_nyqState (G : ℕ → ℂ) (j : ℕ) (hj : j < 2) :
    (specApply 1 2 G nyqState).getD j 0 = (((G 1 * 2 * (-1) ^ (-(j : ℤ))).re : ℝ) : ℂ) / 2 := by
  rw [specApply_getD 1 2 (by norm_num) G _ j (by simpa using hj)]
  have hM : numModes 1 2 = 2 := by rw [numModes_one]
  rw [hM, Finset.sum_range_succ, Finset.sum_range_one, rfftn_nyqState_zero, rfftn_nyqState_one,
    herm_weight_one 2 1, DFT.wnFlat_one 2 1, phaseK_one_of_lt 2 _ j hj, zeta_two]
  simp

/-- the model derivative of the Nyquist mode vanishes identically -/
theorem derivativeM_nyqState (L : ℝ) (j : ℕ) (hj : j < 2) :
    (derivativeM (cfg 1 2 (L : ℂ)) 1 0 nyqState).getD j 0 = 0 := by
  have hs : (cfg 1 2 (L : ℂ)).s = ((2 * Real.pi / L : ℝ) : ℂ) := by rw [cfg_s]; push_cast; rfl
  rw [derivativeM_eq_specApply]
  show (specApply 1 2 _ nyqState).getD j 0 = 0
  rw [specApply_nyqState _ j hj, npow_eq, pow_one, Nonlin.deriv_eq_real _ _ hs]
  interval_cases j <;> simp

theorem re_nyq_zero (r : ℝ) : ((r : ℂ) * 2 * (-1) ^ (-((0 : ℕ) : ℤ))).re = 2 * r := by
  simp [mul_comm]

/-- the velocity after one step from `(h, v) = (cos(πj), 0)` -/
theorem waveStep_nyq_velocity (c L t : ℝ) (hc : c ≠ 0) (hL : 0 < L) :
    at2 (waveStep 1 2 (L : ℂ) (t : ℂ) (c : ℂ) #[nyqState, vzero (2 ^ 1)]) 1 0
      = ((-(waveOmega 1 c L [1] * Real.sin (waveOmega 1 c L [1] * t)) : ℝ) : ℂ) := by
  rw [waveStep_channels 1 2 (by norm_num) (by norm_num) c L t hc hL]
  unfold at2
  rw [pair_getD_one, mulStep_vzero 1 2 (by norm_num), vadd_getD _ _ _ _ (by norm_num), vzero_getD, add_zero]
  show (specApply 1 2 _ nyqState).getD 0 0 = _
  rw [specApply_nyqState _ 0 (by norm_num)]
  unfold mOmSin
  rw [DFT.wnFlat_one 2 1, re_nyq_zero]
  push_cast
  ring

/-- **with Nyquist content (even `N`) the whole step does NOT conserve the energy**: it starts at `0` and is positive
    after one step -/
theorem wave_energy_nyquist_fails (c L t : ℝ) (hc : c ≠ 0) (hL : 0 < L)
    (hs : Real.sin (waveOmega 1 c L [1] * t) ≠ 0) :
    waveEnergy 1 2 L c #[nyqState, vzero (2 ^ 1)] = 0 ∧
      0 < waveEnergy 1 2 L c (waveStep 1 2 (L : ℂ) (t : ℂ) (c : ℂ) #[nyqState, vzero (2 ^ 1)]) := by
  constructor
  · unfold waveEnergy
    have e1 : ∀ j, at2 (#[nyqState, vzero (2 ^ 1)] : MC ℂ) 1 j = (vzero (2 ^ 1)).getD j 0 := fun j => rfl
    have e0 : (#[nyqState, vzero (2 ^ 1)] : MC ℂ).getD 0 #[] = nyqState := rfl
    simp only [e1, e0, vzero_getD, norm_zero]
    rw [Finset.sum_eq_zero (fun j _ => by ring), zero_add, Finset.sum_eq_zero, mul_zero]
    intro j hj
    have hj' : j < 2 := by simpa using Finset.mem_range.mp hj
    rw [Finset.sum_range_one, derivativeM_nyqState L j hj', norm_zero]
    ring
  · have hω : waveOmega 1 c L [1] ≠ 0 := by
      intro e
      have := (waveOmega_eq_zero_iff 1 c L hc hL [1]).1 e 0 (by norm_num)
      revert this; decide
    have hv := waveStep_nyq_velocity c L t hc hL
    generalize waveStep 1 2 (L : ℂ) (t : ℂ) (c : ℂ) #[nyqState, vzero (2 ^ 1)] = U at hv ⊢
    unfold waveEnergy
    have hne : -(waveOmega 1 c L [1] * Real.sin (waveOmega 1 c L [1] * t)) ≠ 0 :=
      neg_ne_zero.mpr (mul_ne_zero hω hs)
    have hpos : 0 < ‖at2 U 1 0‖ ^ 2 := by
      rw [hv, Complex.norm_real]
      exact pow_pos (norm_pos_iff.mpr hne) 2
    have h1 : ‖at2 U 1 0‖ ^ 2 ≤ ∑ j ∈ range (2 ^ 1), ‖at2 U 1 j‖ ^ 2 :=
      Finset.single_le_sum (f := fun j => ‖at2 U 1 j‖ ^ 2) (fun j _ => sq_nonneg _)
        (Finset.mem_range.mpr (by norm_num))
    have h2 : 0 ≤ c ^ 2 * ∑ j ∈ range (2 ^ 1), ∑ d ∈ range 1,
        ‖(derivativeM (cfg 1 2 (L : ℂ)) 1 d (U.getD 0 #[])).getD j 0‖ ^ 2 :=
      mul_nonneg (sq_nonneg c) (Finset.sum_nonneg fun j _ => Finset.sum_nonneg fun d _ => sq_nonneg _)
    linarith

/-- the counterexample state is a real grid state that is not band-limited -/
theorem nyqState_not_bandLimited :
    nyqState.size = 2 ^ 1 ∧ (∀ j < 2 ^ 1, (nyqState.getD j 0).im = 0) ∧ ¬ BandLimited 1 2 nyqState := by
  refine ⟨by simp [nyqState], fun j hj => modeField_real 1 2 _ _ _ j hj, ?_⟩
  intro hB
  have h1 : (1 : ℕ) < numModes 1 2 := by rw [numModes_one]; norm_num
  have hnb : ¬ BelowNyquist 1 2 (wnFlat 1 2 1) := by
    rw [DFT.wnFlat_one 2 1]
    intro hb
    have := hb.2 0 (by norm_num)
    revert this; decide
  have := hB 1 h1 hnb
  rw [rfftn_nyqState_one] at this
  norm_num at this

/-! non-vacuity: `c = 1`, `L = 2π`, `t = π/2` give `ω = 1`, `sin(ωt) = 1` -/
example : ∃ c L t : ℝ, c ≠ 0 ∧ 0 < L ∧ Real.sin (waveOmega 1 c L [1] * t) ≠ 0 := by
  refine ⟨1, 2 * Real.pi, Real.pi / 2, one_ne_zero, by positivity, ?_⟩
  have hk : kappaSq 1 [1] = 1 := by decide
  have hω : waveOmega 1 1 (2 * Real.pi) [1] = 1 := by
    unfold waveOmega
    rw [hk]
    have : (2 * Real.pi) ≠ 0 := by positivity
    simp [this]
  rw [hω, one_mul, Real.sin_pi_div_two]
  exact one_ne_zero
example : (3 : ℕ) % 2 = 1 := rfl

end Exponax.WaveWhole
