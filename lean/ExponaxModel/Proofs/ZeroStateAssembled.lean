import ExponaxModel.Proofs.SmallGaps4Linear
import ExponaxModel.Proofs.SmallGapsZero
import ExponaxModel.Proofs.ContourComplexNodes
/-
The zero state and the zero symbol on the REGENERATED assembled steps (C19).

Part 1.  `etdrkStep p dt lam M r N 0 = 0` for EVERY order `p : ℕ`, every symbol array `lam`, every contour `(M, r)` and
every nonlinear map with `N 0 = 0`; hence over any rollout.  `baseStep` (the mirror of `BaseStepper.__init__` +
`step_fourier`) inherits this as soon as the class's nonlinear function is zero-preserving on the derivative operator the
base class hands over; the regenerated nonlinear functions of the convection / gradient-norm / general-nonlinear /
linear generic steppers and of Burgers, KdV, both Kuramoto–Sivashinsky forms and the five linear steppers are
zero-preserving (through `*_stepper_nonlinear_fun_eq` and the model-term lemmas of `Proofs/SmallGapsZero.lean`).
The polynomial family: zero-preserving when the constant coefficient vanishes.

Part 2.  At a mode whose linear symbol is exactly `0` the contour nodes are `r ζ_j` (norm `|r| ≠ 0`): no closed form is
evaluated at its removable singularity and each stored coefficient is within the proved contour error of
`dt · φ(0)`.
-/
set_option linter.unusedVariables false
namespace Exponax.Interface
open Exponax Exponax.Layout Exponax.Transform Exponax.Nonlin Exponax.Gen.Convert Exponax.Gen.Etdrk
open Exponax.Gen.StepperWiring Exponax.Gen.Steppers Exponax.StepperWiringEq Exponax.SmallGaps
open Exponax.EquivND (liftTermND)

/-! ### Part 1 — every order of the assembled step fixes the zero state -/

/-- the assembled ETDRK step of ANY order `p : ℕ` (0–4 the five methods, `≥ 5` the identity of the mirror) maps the
    zero spectrum to the zero spectrum, whatever the symbol array and the contour, as soon as `N 0 = 0` -/
theorem etdrkStep_zero (p : ℕ) (dt : ℂ) (lam : Spec) (M : ℕ) (r : ℂ) (N : Spec → Spec) (hN : N 0 = 0) :
    etdrkStep p dt lam M r N 0 = 0 := by
  match p with
  | 0 => exact (etdrk_step_zero (K := Spec) _ 0 0 0 0 0 0 0 N hN).1
  | 1 => exact (etdrk_step_zero (K := Spec) _ 0 _ 0 0 0 0 0 N hN).2.1
  | 2 => exact (etdrk_step_zero (K := Spec) _ 0 _ _ 0 0 0 0 N hN).2.2.1
  | 3 => exact (etdrk_step_zero (K := Spec) _ _ _ _ _ _ _ 0 N hN).2.2.2.1
  | 4 => exact (etdrk_step_zero (K := Spec) _ _ _ _ _ _ _ _ N hN).2.2.2.2
  | (n + 5) => rfl

/-- … and over any number of steps -/
theorem etdrkStep_rollout_zero (p : ℕ) (dt : ℂ) (lam : Spec) (M : ℕ) (r : ℂ) (N : Spec → Spec) (hN : N 0 = 0)
    (n : ℕ) : (etdrkStep p dt lam M r N)^[n] 0 = 0 :=
  Function.iterate_fixed (etdrkStep_zero p dt lam M r N hN) n

/-- the exact propagator (order 0) fixes the zero state for ANY nonlinear map -/
theorem etdrkStep_order0_zero (dt : ℂ) (lam : Spec) (M : ℕ) (r : ℂ) (N : Spec → Spec) :
    etdrkStep 0 dt lam M r N 0 = 0 := by
  show E0step _ (0 : Spec) = 0
  simp only [E0step, mul_zero]

/-- `BaseStepper`: a zero-preserving nonlinear function (on the derivative operator of the stepper) gives a step that
    fixes the zero state — every order, every linear operator, every contour -/
theorem baseStep_zero (b : BaseStepperArgs ℂ) (linop : List ℂ → ℂ) (nonlin : Cfg ℂ → MC ℂ → MC ℂ)
    (h : ZeroPreserving (nonlin (baseCfg b.num_spatial_dims b.num_points b.domain_extent))) :
    baseStep b linop nonlin 0 = 0 :=
  etdrkStep_zero _ _ _ _ _ _ (liftTermND_zero _ _ _ h)

theorem baseStep_rollout_zero (b : BaseStepperArgs ℂ) (linop : List ℂ → ℂ) (nonlin : Cfg ℂ → MC ℂ → MC ℂ)
    (h : ZeroPreserving (nonlin (baseCfg b.num_spatial_dims b.num_points b.domain_extent))) (n : ℕ) :
    (baseStep b linop nonlin)^[n] 0 = 0 :=
  Function.iterate_fixed (baseStep_zero b linop nonlin h) n

/-! #### the model terms and the regenerated nonlinear functions -/

theorem zeroPreserving_convection (c : Cfg ℂ) (C : ℕ) (scale : ℂ) (single conservative : Bool) :
    ZeroPreserving (convection c C scale single conservative) := fun uh hz => by
  rw [convection_zero c C scale single conservative uh hz]; exact isZeroMC_zeroMC _ _

theorem zeroPreserving_gradientNorm (c : Cfg ℂ) (C : ℕ) (scale : ℂ) (zeroFix : Bool) :
    ZeroPreserving (gradientNorm c C scale zeroFix) := fun uh hz => by
  rw [gradientNorm_zero c C scale zeroFix uh hz]; exact isZeroMC_zeroMC _ _

theorem zeroPreserving_general (c : Cfg ℂ) (C : ℕ) (s0 s1 s2 : ℂ) (zeroFix : Bool) :
    ZeroPreserving (general c C s0 s1 s2 zeroFix) := fun uh hz => by
  rw [general_zero c C s0 s1 s2 zeroFix uh hz]; exact isZeroMC_zeroMC _ _

theorem zeroPreserving_polynomial (c : Cfg ℂ) (C : ℕ) (coeffs : List ℂ) (h0 : coeffs.getD 0 0 = 0) :
    ZeroPreserving (polynomial c C coeffs) := fun uh hz => by
  rw [polynomial_zero c C coeffs h0 uh hz]; exact isZeroMC_zeroMC _ _

theorem zeroPreserving_zeroNonlin (c : Cfg ℂ) (C : ℕ) : ZeroPreserving (fun _ => zeroNonlin c C) :=
  fun _ _ => isZeroMC_zeroMC _ _

/-- `GeneralConvectionStepper._build_nonlinear_fun` (regenerated), on the stepper's own derivative operator -/
theorem GeneralConvectionStepper_nonlin_zeroPreserving (g : GeneralConvectionStepperArgs ℂ) :
    ZeroPreserving (GeneralConvectionStepper_stepper_nonlinear_fun
      (baseCfg g.num_spatial_dims g.num_points g.domain_extent) g) := fun uh hz => by
  rw [GeneralConvectionStepper_stepper_nonlinear_fun_eq _ g uh rfl]
  exact zeroPreserving_convection _ _ _ _ _ uh hz

theorem GeneralGradientNormStepper_nonlin_zeroPreserving (c : Cfg ℂ) (g : GeneralGradientNormStepperArgs ℂ) :
    ZeroPreserving (GeneralGradientNormStepper_stepper_nonlinear_fun c g) := fun uh hz => by
  rw [GeneralGradientNormStepper_stepper_nonlinear_fun_eq c g uh]
  exact zeroPreserving_gradientNorm _ _ _ _ uh hz

theorem GeneralNonlinearStepper_nonlin_zeroPreserving (c : Cfg ℂ) (g : GeneralNonlinearStepperArgs ℂ) :
    ZeroPreserving (GeneralNonlinearStepper_stepper_nonlinear_fun c g) := fun uh hz => by
  rw [GeneralNonlinearStepper_stepper_nonlinear_fun_eq c g uh]
  exact zeroPreserving_general _ _ _ _ _ _ uh hz

theorem GeneralLinearStepper_nonlin_zeroPreserving (c : Cfg ℂ) (g : GeneralLinearStepperArgs ℂ) :
    ZeroPreserving (GeneralLinearStepper_stepper_nonlinear_fun c g) := fun uh hz => by
  rw [GeneralLinearStepper_stepper_nonlinear_fun_eq c g uh]
  exact isZeroMC_zeroMC _ _

theorem GeneralPolynomialStepper_nonlin_zeroPreserving (c : Cfg ℂ) (g : GeneralPolynomialStepperArgs ℂ)
    (h0 : g.polynomial_coefficients.getD 0 0 = 0) :
    ZeroPreserving (GeneralPolynomialStepper_stepper_nonlinear_fun c g) := fun uh hz => by
  rw [GeneralPolynomialStepper_stepper_nonlinear_fun_eq c g uh]
  exact zeroPreserving_polynomial _ _ _ h0 uh hz

theorem Burgers_nonlin_zeroPreserving (a : BurgersArgs ℂ) :
    ZeroPreserving (Burgers_stepper_nonlinear_fun (baseCfg a.num_spatial_dims a.num_points a.domain_extent) a) :=
  fun uh hz => by
    rw [Burgers_stepper_nonlinear_fun_eq _ a uh rfl]
    exact zeroPreserving_convection _ _ _ _ _ uh hz

theorem KortewegDeVries_nonlin_zeroPreserving (a : KortewegDeVriesArgs ℂ) :
    ZeroPreserving (KortewegDeVries_stepper_nonlinear_fun
      (baseCfg a.num_spatial_dims a.num_points a.domain_extent) a) := fun uh hz => by
  rw [KortewegDeVries_stepper_nonlinear_fun_eq _ a uh rfl]
  exact zeroPreserving_convection _ _ _ _ _ uh hz

theorem KuramotoSivashinskyConservative_nonlin_zeroPreserving (a : KuramotoSivashinskyConservativeArgs ℂ) :
    ZeroPreserving (KuramotoSivashinskyConservative_stepper_nonlinear_fun
      (baseCfg a.num_spatial_dims a.num_points a.domain_extent) a) := fun uh hz => by
  rw [KuramotoSivashinskyConservative_stepper_nonlinear_fun_eq _ a uh rfl]
  exact zeroPreserving_convection _ _ _ _ _ uh hz

theorem KuramotoSivashinsky_nonlin_zeroPreserving (c : Cfg ℂ) (a : KuramotoSivashinskyArgs ℂ) :
    ZeroPreserving (KuramotoSivashinsky_stepper_nonlinear_fun c a) := fun uh hz => by
  rw [KuramotoSivashinsky_stepper_nonlinear_fun_eq c a uh]
  exact zeroPreserving_gradientNorm _ _ _ _ uh hz

/-! #### the assembled steps -/

theorem GeneralConvectionStepper_step_zero (g : GeneralConvectionStepperArgs ℂ) :
    GeneralConvectionStepper_step g 0 = 0 := by
  unfold GeneralConvectionStepper_step
  apply baseStep_zero
  rw [GeneralConvectionStepper_base_args_eq]
  exact GeneralConvectionStepper_nonlin_zeroPreserving g

theorem GeneralGradientNormStepper_step_zero (g : GeneralGradientNormStepperArgs ℂ) :
    GeneralGradientNormStepper_step g 0 = 0 :=
  baseStep_zero _ _ _ (GeneralGradientNormStepper_nonlin_zeroPreserving _ g)

theorem GeneralNonlinearStepper_step_zero (g : GeneralNonlinearStepperArgs ℂ) :
    GeneralNonlinearStepper_step g 0 = 0 :=
  baseStep_zero _ _ _ (GeneralNonlinearStepper_nonlin_zeroPreserving _ g)

theorem GeneralLinearStepper_step_zero (g : GeneralLinearStepperArgs ℂ) :
    GeneralLinearStepper_step g 0 = 0 :=
  baseStep_zero _ _ _ (GeneralLinearStepper_nonlin_zeroPreserving _ g)

theorem GeneralPolynomialStepper_step_zero (g : GeneralPolynomialStepperArgs ℂ)
    (h0 : g.polynomial_coefficients.getD 0 0 = 0) :
    GeneralPolynomialStepper_step g 0 = 0 :=
  baseStep_zero _ _ _ (GeneralPolynomialStepper_nonlin_zeroPreserving _ g h0)

/-- with `order = 0` the polynomial stepper is the exact linear propagator: the zero state is fixed whatever the
    constant coefficient — the converse of `GeneralPolynomialStepper_step_zero` needs `1 ≤ order ≤ 4` (and more) -/
theorem GeneralPolynomialStepper_step_zero_of_order0 (g : GeneralPolynomialStepperArgs ℂ) (ho : g.order = 0) :
    GeneralPolynomialStepper_step g 0 = 0 := by
  rw [GeneralPolynomialStepper_step_model, ho]
  exact etdrkStep_order0_zero _ _ _ _ _

theorem Burgers_step_zero (a : BurgersArgs ℂ) : Burgers_step a 0 = 0 := by
  unfold Burgers_step
  apply baseStep_zero
  rw [Burgers_base_args_eq]
  exact Burgers_nonlin_zeroPreserving a

theorem KortewegDeVries_step_zero (a : KortewegDeVriesArgs ℂ) : KortewegDeVries_step a 0 = 0 := by
  unfold KortewegDeVries_step
  apply baseStep_zero
  rw [KortewegDeVries_base_args_eq]
  exact KortewegDeVries_nonlin_zeroPreserving a

theorem KuramotoSivashinskyConservative_step_zero (a : KuramotoSivashinskyConservativeArgs ℂ) :
    KuramotoSivashinskyConservative_step a 0 = 0 := by
  unfold KuramotoSivashinskyConservative_step
  apply baseStep_zero
  rw [KuramotoSivashinskyConservative_base_args_eq]
  exact KuramotoSivashinskyConservative_nonlin_zeroPreserving a

theorem KuramotoSivashinsky_step_zero (a : KuramotoSivashinskyArgs ℂ) : KuramotoSivashinsky_step a 0 = 0 :=
  baseStep_zero _ _ _ (KuramotoSivashinsky_nonlin_zeroPreserving _ a)

theorem Advection_step_zero (a : AdvectionArgs ℂ) : Advection_step a 0 = 0 :=
  baseStep_zero _ _ _ (fun uh hz => by
    rw [Advection_stepper_nonlinear_fun_eq _ a uh]; exact isZeroMC_zeroMC _ _)

theorem Diffusion_step_zero (a : DiffusionArgs ℂ) : Diffusion_step a 0 = 0 :=
  baseStep_zero _ _ _ (fun uh hz => by
    rw [Diffusion_stepper_nonlinear_fun_eq _ a uh]; exact isZeroMC_zeroMC _ _)

theorem AdvectionDiffusion_step_zero (a : AdvectionDiffusionArgs ℂ) : AdvectionDiffusion_step a 0 = 0 :=
  baseStep_zero _ _ _ (fun uh hz => by
    rw [AdvectionDiffusion_stepper_nonlinear_fun_eq _ a uh]; exact isZeroMC_zeroMC _ _)

theorem Dispersion_step_zero (a : DispersionArgs ℂ) : Dispersion_step a 0 = 0 :=
  baseStep_zero _ _ _ (fun uh hz => by
    rw [Dispersion_stepper_nonlinear_fun_eq _ a uh]; exact isZeroMC_zeroMC _ _)

theorem HyperDiffusion_step_zero (a : HyperDiffusionArgs ℂ) : HyperDiffusion_step a 0 = 0 :=
  baseStep_zero _ _ _ (fun uh hz => by
    rw [HyperDiffusion_stepper_nonlinear_fun_eq _ a uh]; exact isZeroMC_zeroMC _ _)

/-! ### Part 2 — the stored coefficients at a mode with linear symbol exactly `0` -/

open Exponax.ContourComplex Exponax.ContourTail in
/-- at `λ = 0` the contour nodes are `r ζ_j + 0·dt`, of norm `|r|`: none is `0` when `r ≠ 0` -/
theorem nodes_ne_zero_at_zero_symbol (M : ℕ) (r dt : ℂ) (hr : r ≠ 0) :
    ∀ ζ ∈ (roots_of_unity M : List ℂ), r * ζ + 0 * dt ≠ 0 := by
  intro ζ hζ h
  rw [zero_mul, add_zero] at h
  have hn : ‖r * ζ‖ = ‖r‖ := by rw [norm_mul, norm_of_mem_roots M ζ hζ, mul_one]
  rw [h, norm_zero] at hn
  exact hr (norm_eq_zero.mp hn.symm)

open Exponax.ContourComplex Exponax.ContourTail in
/-- every stored coefficient at `λ = 0`, for every contour `M ≥ 1`, `r ≠ 0` and every Cauchy radius `R > |r|`:
    within `|dt| k_i e^R q^M/(1 − q^M)`, `q = |r|/R`, of `dt · φ_i(0)` -/
theorem storedCoef_at_zero_symbol (dt r : ℂ) (M : ℕ) (hM : 0 < M) (hr : r ≠ 0) (R : ℝ) (hrR : ‖r‖ < R) (i : Fin 14) :
    ‖storedCoef dt 0 M r i - dt * phiAtZero i‖
      ≤ ‖dt‖ * (coefWeight i * Real.exp R * (‖r‖ / R) ^ M / (1 - (‖r‖ / R) ^ M)) := by
  have h := storedCoef_error dt 0 r M hM R hrR (nodes_ne_zero_at_zero_symbol M r dt hr) i
  have hR : 0 ≤ R := (norm_nonneg r).trans hrR.le
  rw [zero_mul, exactPhi_zero, Complex.zero_re, zero_add, max_eq_right hR] at h
  exact h

open Exponax.ContourComplex Exponax.ContourTail in
/-- the code's defaults `M = 16`, `r = 1`: within `1.7·10⁻¹² |dt|` of `dt · φ_i(0)` -/
theorem storedCoef_at_zero_symbol_default (dt : ℂ) (i : Fin 14) :
    ‖storedCoef dt 0 16 1 i - dt * phiAtZero i‖ ≤ ‖dt‖ * 1.7e-12 := by
  have h := storedCoef_error_imaginary dt 0 (by simp) i
  rwa [zero_mul, exactPhi_zero] at h

/-- the propagators at `λ = 0` are exactly `1` -/
theorem exp_terms_at_zero_symbol (dt r : ℂ) (M : ℕ) :
    exp_term dt 0 = 1 ∧ E3_half_exp_term dt 0 M r = 1 ∧ E4_half_exp_term dt 0 M r = 1 := by
  refine ⟨?_, ?_, ?_⟩
  · rw [C02_exp_term, mul_zero, Complex.exp_zero]
  · rw [C02_half_exp_term_E3, mul_zero, zero_div, Complex.exp_zero]
  · rw [C02_half_exp_term_E4, mul_zero, zero_div, Complex.exp_zero]

/-! non-vacuity -/
example : ∃ N : Spec → Spec, N 0 = 0 ∧ N 1 ≠ 0 :=
  ⟨fun u => u * u, by simp, by simp⟩
example : ∃ (r : ℂ) (R : ℝ), r ≠ 0 ∧ ‖r‖ < R := ⟨1, 2, one_ne_zero, by norm_num⟩

end Exponax.Interface
