import ExponaxModel.Proofs.LinearTestOrderPerturbed
import ExponaxModel.Proofs.ContourTailETDRK
/-
C02 support — T7 instantiated with the STORED contour coefficients (defaults `num_circle_points = 16`,
`circle_radius = 1`): for a real, non-positive linear symbol `λ` (`λ·dt ≤ 0`) every stored ETDRK1–4 coefficient is
within `5·10⁻⁸·dt` of its exact value (`ContourTail.coef_errors_default`,
= `Properties/C02_accuracy.lean::C02_coefficients_default_accuracy`), hence the regenerated steppers, with the
regenerated coefficient functions `E?_coef_?`, `exp_term`, `E?_half_exp_term` plugged in, satisfy on the linear
test family `u' = λu + μu` (`μ ∈ ℂ`)

   ‖(stored ETDRKp step)ⁿ u − e^{(λ+μ) n dt} u‖ ≤ Cfloor · (Cloc_p · dt^p + pertD_p(5·10⁻⁸)) · ‖u‖     (n·dt ≤ T).
-/
set_option linter.unusedVariables false
noncomputable section
namespace Exponax.LinearOrder
open Exponax Exponax.Spec Exponax.ContourTail Exponax.Gen.Etdrk

/-- the default quadrature accuracy of the stored coefficients -/
def δstored : ℝ := 5e-8

theorem δstored_nonneg : 0 ≤ δstored := by unfold δstored; norm_num

theorem exp_term_eq (dt lam : ℝ) : exp_term (dt : ℂ) (lam : ℂ) = Complex.exp ((lam : ℂ) * dt) := by
  rw [C02_exp_term, mul_comm]

theorem half_exp_term_E3_eq (dt lam : ℝ) :
    E3_half_exp_term (dt : ℂ) (lam : ℂ) 16 1 = Complex.exp ((lam : ℂ) * dt / 2) := by
  rw [C02_half_exp_term_E3, mul_comm]

theorem half_exp_term_E4_eq (dt lam : ℝ) :
    E4_half_exp_term (dt : ℂ) (lam : ℂ) 16 1 = Complex.exp ((lam : ℂ) * dt / 2) := by
  rw [C02_half_exp_term_E4, mul_comm]

theorem abs_fix {x y dt : ℝ} (hdt : 0 ≤ dt) (h : x ≤ |dt| * y) : x ≤ y * dt := by
  rwa [abs_of_nonneg hdt, mul_comm] at h

/-- **T7 for the stored ETDRK1 stepper** (defaults `M = 16`, `r = 1`; real `λ ≤ 0`) -/
theorem stored_E1_global (lam : ℝ) (m : ℂ) (T : ℝ) (hlam : lam ≤ 0) (n : ℕ) (dt : ℝ) (hdt : 0 ≤ dt)
    (hn : n * dt ≤ T) (u : ℂ) :
    ‖(E1step (exp_term (dt : ℂ) (lam : ℂ)) (E1_coef_1 (dt : ℂ) (lam : ℂ) 16 1) (fun v => m * v))^[n] u
        - Complex.exp (((lam : ℂ) + m) * (n * dt)) * u‖
      ≤ Cfloor (Cloc1 lam m T) (pertD1 m δstored) ((lam : ℂ) + m) 1 T
          * (Cloc1 lam m T * dt ^ 1 + pertD1 m δstored) * ‖u‖ := by
  have hz : lam * dt ≤ 0 := mul_nonpos_of_nonpos_of_nonneg hlam hdt
  have h := coef_errors_default dt lam hz
  rw [exp_term_eq]
  exact E1step_perturbed_global lam m T δstored δstored_nonneg n dt hdt hn _ (abs_fix hdt h.1) u

/-- **T7 for the stored ETDRK2 stepper** -/
theorem stored_E2_global (lam : ℝ) (m : ℂ) (T : ℝ) (hlam : lam ≤ 0) (n : ℕ) (dt : ℝ) (hdt : 0 ≤ dt)
    (hn : n * dt ≤ T) (u : ℂ) :
    ‖(E2step (exp_term (dt : ℂ) (lam : ℂ)) (E2_coef_1 (dt : ℂ) (lam : ℂ) 16 1)
          (E2_coef_2 (dt : ℂ) (lam : ℂ) 16 1) (fun v => m * v))^[n] u
        - Complex.exp (((lam : ℂ) + m) * (n * dt)) * u‖
      ≤ Cfloor (Cloc2 lam m T) (pertD2 lam m T δstored) ((lam : ℂ) + m) 2 T
          * (Cloc2 lam m T * dt ^ 2 + pertD2 lam m T δstored) * ‖u‖ := by
  have hz : lam * dt ≤ 0 := mul_nonpos_of_nonpos_of_nonneg hlam hdt
  have h := coef_errors_default dt lam hz
  rw [exp_term_eq]
  exact E2step_perturbed_global lam m T δstored δstored_nonneg n dt hdt hn _ _ (abs_fix hdt h.2.1)
    (abs_fix hdt h.2.2.1) u

/-- **T7 for the stored ETDRK3 stepper** -/
theorem stored_E3_global (lam : ℝ) (m : ℂ) (T : ℝ) (hlam : lam ≤ 0) (n : ℕ) (dt : ℝ) (hdt : 0 ≤ dt)
    (hn : n * dt ≤ T) (u : ℂ) :
    ‖(E3step (exp_term (dt : ℂ) (lam : ℂ)) (E3_half_exp_term (dt : ℂ) (lam : ℂ) 16 1)
          (E3_coef_1 (dt : ℂ) (lam : ℂ) 16 1) (E3_coef_2 (dt : ℂ) (lam : ℂ) 16 1)
          (E3_coef_3 (dt : ℂ) (lam : ℂ) 16 1) (E3_coef_4 (dt : ℂ) (lam : ℂ) 16 1)
          (E3_coef_5 (dt : ℂ) (lam : ℂ) 16 1) (fun v => m * v))^[n] u
        - Complex.exp (((lam : ℂ) + m) * (n * dt)) * u‖
      ≤ Cfloor (Cloc3 lam m T) (pertD3 lam m T δstored) ((lam : ℂ) + m) 3 T
          * (Cloc3 lam m T * dt ^ 3 + pertD3 lam m T δstored) * ‖u‖ := by
  have hz : lam * dt ≤ 0 := mul_nonpos_of_nonpos_of_nonneg hlam hdt
  have h := coef_errors_default dt lam hz
  rw [exp_term_eq, half_exp_term_E3_eq]
  exact E3step_perturbed_global lam m T δstored δstored_nonneg n dt hdt hn _ _ _ _ _
    (abs_fix hdt h.2.2.2.1) (abs_fix hdt h.2.2.2.2.1) (abs_fix hdt h.2.2.2.2.2.1)
    (abs_fix hdt h.2.2.2.2.2.2.1) (abs_fix hdt h.2.2.2.2.2.2.2.1) u

/-- **T7 for the stored ETDRK4 stepper** -/
theorem stored_E4_global (lam : ℝ) (m : ℂ) (T : ℝ) (hlam : lam ≤ 0) (n : ℕ) (dt : ℝ) (hdt : 0 ≤ dt)
    (hn : n * dt ≤ T) (u : ℂ) :
    ‖(E4step (exp_term (dt : ℂ) (lam : ℂ)) (E4_half_exp_term (dt : ℂ) (lam : ℂ) 16 1)
          (E4_coef_1 (dt : ℂ) (lam : ℂ) 16 1) (E4_coef_2 (dt : ℂ) (lam : ℂ) 16 1)
          (E4_coef_3 (dt : ℂ) (lam : ℂ) 16 1) (E4_coef_4 (dt : ℂ) (lam : ℂ) 16 1)
          (E4_coef_5 (dt : ℂ) (lam : ℂ) 16 1) (E4_coef_6 (dt : ℂ) (lam : ℂ) 16 1)
          (fun v => m * v))^[n] u
        - Complex.exp (((lam : ℂ) + m) * (n * dt)) * u‖
      ≤ Cfloor (Cloc4 lam m T) (pertD4 lam m T δstored) ((lam : ℂ) + m) 4 T
          * (Cloc4 lam m T * dt ^ 4 + pertD4 lam m T δstored) * ‖u‖ := by
  have hz : lam * dt ≤ 0 := mul_nonpos_of_nonpos_of_nonneg hlam hdt
  have h := coef_errors_default dt lam hz
  rw [exp_term_eq, half_exp_term_E4_eq]
  exact E4step_perturbed_global lam m T δstored δstored_nonneg n dt hdt hn _ _ _ _ _ _
    (abs_fix hdt h.2.2.2.2.2.2.2.2.1) (abs_fix hdt h.2.2.2.2.2.2.2.2.2.1)
    (abs_fix hdt h.2.2.2.2.2.2.2.2.2.2.1) (abs_fix hdt h.2.2.2.2.2.2.2.2.2.2.2.1)
    (abs_fix hdt h.2.2.2.2.2.2.2.2.2.2.2.2.1) (abs_fix hdt h.2.2.2.2.2.2.2.2.2.2.2.2.2) u

/-- for `λ ≤ 0` the growth factor in the constants is `W = 1`: the ETDRK1 floor constant is just `‖μ‖·5·10⁻⁸` and
    the floor term of `stored_E1_global` is `T e^{(‖λ+μ‖ + Cloc1·T + ‖μ‖δ)T} · ‖μ‖ · 5·10⁻⁸ · ‖u‖` -/
theorem pertD1_stored (m : ℂ) : pertD1 m δstored = 5e-8 * ‖m‖ := by
  unfold pertD1 pertK1 δstored; ring

theorem pertD2_stored (lam : ℝ) (m : ℂ) (T : ℝ) (hlam : lam ≤ 0) (hT : 0 ≤ T) :
    pertD2 lam m T δstored
      = 5e-8 * (‖m‖ * (1 + (1 + T * (1 + 5e-8) * ‖m‖ + 1) + T * (1 / 2) * ‖m‖)) := by
  have h : ((lam : ℂ)).re = lam := Complex.ofReal_re lam
  unfold pertD2 pertK2 δstored
  rw [h, expMax_of_nonpos lam T hlam hT]

/-! ### non-vacuity -/
example : ∃ (lam : ℝ) (n : ℕ) (dt T : ℝ), lam ≤ 0 ∧ 0 ≤ dt ∧ n * dt ≤ T ∧ 1 ≤ n :=
  ⟨-100, 10, 1 / 10, 1, by norm_num, by norm_num, by norm_num, by norm_num⟩

end Exponax.LinearOrder
end
