import ExponaxModel.Proofs.LaminarWhole
import ExponaxModel.Proofs.AliasNonlin
/-
C09 / B1 — constant states: the whole-array behaviour of the nonlinear model terms on the spectrum of a constant
state (more generally on any spectrum carried by the mean mode only).

  * `rfftnM_const`, `constSpec_meanSpec` : `rfftn` of a constant field is `N^D·u₀` at the mean mode, `0` elsewhere
  * `nifft_mean`                        : the masked inverse transform of a mean-mode spectrum is the constant field
                                          `Re(mask(0)·a)/N^D`
  * `convection_const`     : all four variants of `Nonlin.convection` return `0` at EVERY entry
  * `gradientNorm_const`   : `Nonlin.gradientNorm` (with or without the zero-mode fix) returns `0` at every entry
  * `vorticity2d_const`    : `Nonlin.vorticity2d … none` returns the zero array (corollary of A1)
  * `polynomial_const`     : `Nonlin.polynomial` returns the spectrum of the constant `p(u₀)`, channel by channel
  * `reaction_const`       : `Nonlin.reaction` returns the spectrum of the constant `react(u₀)`
(the last two need `mask c 0 = 1`: the dealiasing mask keeps the mean mode — true for `fq = 0` and whenever
`fq ≤ fp·(N/2)`; otherwise the model annihilates the state before the nonlinearity sees it).
Equilibria (`L(0)·û₀ + N(û₀) = 0` mode by mode for FisherKPP / AllenCahn / SwiftHohenberg / Gray–Scott) are in
`Proofs/EquilibriaReaction.lean`.
-/
set_option linter.unusedVariables false
namespace Exponax.Equilibria
open Exponax Exponax.Layout Exponax.Transform Exponax.DFT Finset
open Exponax.Nonlin (Cfg MC at2 tab2 tabC modes gridSize mask nfft nifft vorticity2d kInt deriv convection
  gradientNorm polynomial polyEval reaction)

/-! ### the transform of a constant field -/

theorem dvd_all_iff_zero (D N h : ℕ) (hD : 0 < D) (hN : 0 < N) (hh : h < numModes D N) :
    (∀ d < D, (N : ℤ) ∣ (wnFlat D N h).getD d 0) ↔ h = 0 := by
  rw [← wnFlat_eq_zero_iff D N h hD hN hh]
  constructor
  · intro hdv d hd
    have h1 := ExactLinear.wnFlat_getD_abs_le D N h hD hN hh d hd
    exact eq_zero_of_dvd_of_abs_lt N _ (hdv d hd) (by omega)
  · intro h0 d hd
    rw [h0 d hd]; exact dvd_zero _

/-- `rfftn` of the constant field `a`: `N^D·a` at the mean mode, `0` at every other stored mode -/
theorem rfftnM_const (D N : ℕ) (hD : 0 < D) (hN : 0 < N) (a : ℂ) (h : ℕ) (hh : h < numModes D N) :
    (rfftnM D N (tab (N ^ D) (fun _ => a))).getD h 0 = if h = 0 then ((N ^ D : ℕ) : ℂ) * a else 0 := by
  rw [rfftnM_getD D N hN _ h hh]
  have hterm : ∀ j ∈ range (N ^ D),
      (tab (N ^ D) (fun _ => a)).getD j 0 * twiddle N (phaseK D N (wnFlat D N h) j)
        = a * zeta N ^ (∑ d ∈ range D, (wnFlat D N h).getD d 0 * (digit D N j d : ℤ)) := by
    intro j hj
    rw [Nonlin.tab_getD _ _ _ _ (Finset.mem_range.mp hj), twiddle_eq_zpow, phaseK_eq_sum]
  rw [Finset.sum_congr rfl hterm, ← Finset.mul_sum,
    ExactLinear.sum_zeta_digits N hN (fun d => (wnFlat D N h).getD d 0) D]
  simp only [dvd_all_iff_zero D N h hD hN hh]
  split_ifs <;> ring

/-- only the values at `j < N^D` enter `nfft` -/
theorem nfft_congr (c : Cfg ℂ) (hN : 0 < c.N) (u v : Array ℂ) (huv : ∀ j < gridSize c, u.getD j 0 = v.getD j 0)
    (h : ℕ) : (nfft c u).getD h 0 = (nfft c v).getD h 0 := by
  rcases Nat.lt_or_ge h (modes c) with hh | hh
  · rw [Alias.nfft_getD c u h hh, Alias.nfft_getD c v h hh, rfftnM_getD c.D c.N hN u h hh,
      rfftnM_getD c.D c.N hN v h hh]
    congr 1
    apply Finset.sum_congr rfl
    intro j hj
    rw [huv j (Finset.mem_range.mp hj)]
  · unfold nfft
    rw [Nonlin.tab_getD_of_le _ _ _ _ hh, Nonlin.tab_getD_of_le _ _ _ _ hh]

/-- the masked transform of a field that is constant on the grid -/
theorem nfft_const (c : Cfg ℂ) (hD : 0 < c.D) (hN : 0 < c.N) (u : Array ℂ) (a : ℂ)
    (hu : ∀ j < gridSize c, u.getD j 0 = a) (h : ℕ) :
    (nfft c u).getD h 0 = if h = 0 then mask c 0 * (((c.N ^ c.D : ℕ) : ℂ) * a) else 0 := by
  rw [nfft_congr c hN u (tab (c.N ^ c.D) (fun _ => a)) (fun j hj => by
    rw [hu j hj, Nonlin.tab_getD _ _ _ _ (show j < c.N ^ c.D from hj)]) h]
  rcases Nat.lt_or_ge h (modes c) with hh | hh
  · rw [Alias.nfft_getD c _ h hh, rfftnM_const c.D c.N hD hN a h hh]
    split_ifs with h0
    · rw [h0]
    · rw [mul_zero]
  · unfold nfft
    rw [Nonlin.tab_getD_of_le _ _ _ _ hh, if_neg]
    have := Conserve.modes_pos c hN
    omega

/-! ### mean-mode spectra and their inverse transform -/

/-- a multi-channel spectrum carried by the mean mode only (every channel) -/
def MeanSpec (c : Cfg ℂ) (uh : MC ℂ) : Prop := ∀ ch h, 0 < h → h < modes c → at2 uh ch h = 0

theorem herm_weight_zero (D N : ℕ) : herm_weight D N 0 = 1 := by
  unfold herm_weight
  simp only []
  rw [unflatten_zero_getD]
  simp

/-- the masked inverse transform of a mean-mode spectrum is a constant field -/
theorem nifft_mean (c : Cfg ℂ) (hN : 0 < c.N) (z : Array ℂ) (hz : ∀ h, 0 < h → h < modes c → z.getD h 0 = 0)
    (x : ℕ) (hx : x < gridSize c) :
    (nifft c z).getD x 0 = (((mask c 0 * z.getD 0 0).re : ℝ) : ℂ) / ((c.N ^ c.D : ℕ) : ℂ) := by
  unfold nifft
  rw [irfftnM_getD c.D c.N hN _ x hx]
  congr 1
  have hM : 0 < numModes c.D c.N := Conserve.modes_pos c hN
  rw [Finset.sum_eq_single 0]
  · rw [herm_weight_zero, Nonlin.tab_getD _ _ _ _ (Conserve.modes_pos c hN), Conserve.phaseK_zero_mode,
      twiddle_eq_zpow]
    simp
  · intro h hh h0
    have hh' : h < modes c := Finset.mem_range.mp hh
    rw [Nonlin.tab_getD _ _ _ _ hh', hz h (Nat.pos_of_ne_zero h0) hh']
    simp
  · intro h0
    exact absurd (Finset.mem_range.mpr hM) h0

/-- the value of the constant field of channel `ch` -/
noncomputable def meanValue (c : Cfg ℂ) (uh : MC ℂ) (ch : ℕ) : ℂ :=
  (((mask c 0 * at2 uh ch 0).re : ℝ) : ℂ) / ((c.N ^ c.D : ℕ) : ℂ)

theorem nifft_channel_mean (c : Cfg ℂ) (hN : 0 < c.N) (uh : MC ℂ) (hu : MeanSpec c uh) (ch x : ℕ)
    (hx : x < gridSize c) : (nifft c (uh.getD ch #[])).getD x 0 = meanValue c uh ch :=
  nifft_mean c hN _ (fun h h0 hh => hu ch h h0 hh) x hx

/-- `deriv·û` vanishes identically on a mean-mode spectrum -/
theorem deriv_mul_mean (c : Cfg ℂ) (uh : MC ℂ) (hu : MeanSpec c uh) (d ch h : ℕ) (hh : h < modes c) :
    deriv c d h * at2 uh ch h = 0 := by
  rcases Nat.eq_zero_or_pos h with h0 | h0
  · rw [h0, Conserve.deriv_zero_mode, zero_mul]
  · rw [hu ch h h0 hh, mul_zero]

/-! ### the spectrum of a constant state -/

/-- `û` = `rfftn` of the state whose channel `ch` is the constant `u₀ ch` -/
noncomputable def constSpec (c : Cfg ℂ) (C : ℕ) (u0 : ℕ → ℂ) : MC ℂ :=
  tabC C (fun ch => rfftnM c.D c.N (tab (gridSize c) (fun _ => u0 ch)))

theorem at2_constSpec (c : Cfg ℂ) (hD : 0 < c.D) (hN : 0 < c.N) (C : ℕ) (u0 : ℕ → ℂ) (ch h : ℕ) (hch : ch < C)
    (hh : h < modes c) :
    at2 (constSpec c C u0) ch h = if h = 0 then ((c.N ^ c.D : ℕ) : ℂ) * u0 ch else 0 := by
  unfold constSpec
  rw [Nonlin.at2_tabC _ _ _ _ hch]
  exact rfftnM_const c.D c.N hD hN (u0 ch) h hh

theorem constSpec_meanSpec (c : Cfg ℂ) (hD : 0 < c.D) (hN : 0 < c.N) (C : ℕ) (u0 : ℕ → ℂ) :
    MeanSpec c (constSpec c C u0) := by
  intro ch h h0 hh
  rcases Nat.lt_or_ge ch C with hch | hch
  · rw [at2_constSpec c hD hN C u0 ch h hch hh, if_neg (by omega)]
  · unfold constSpec
    rw [Alias.at2_tabC_any, if_neg (by omega)]

/-- for a REAL constant state (and a mask that keeps the mean mode) the grid field is the constant itself -/
theorem meanValue_constSpec (c : Cfg ℂ) (hD : 0 < c.D) (hN : 0 < c.N) (hm : mask c 0 = 1) (C : ℕ) (u0 : ℕ → ℝ)
    (ch : ℕ) (hch : ch < C) : meanValue c (constSpec c C (fun k => (u0 k : ℂ))) ch = (u0 ch : ℂ) := by
  unfold meanValue
  rw [at2_constSpec c hD hN C _ ch 0 hch (Conserve.modes_pos c hN), if_pos rfl, hm, one_mul]
  have hG : ((c.N ^ c.D : ℕ) : ℂ) ≠ 0 := by
    have : 0 < c.N ^ c.D := pow_pos hN _
    exact_mod_cast this.ne'
  have hre : (((c.N ^ c.D : ℕ) : ℂ) * (u0 ch : ℂ)).re = ((c.N ^ c.D : ℕ) : ℝ) * u0 ch := by
    rw [← Complex.ofReal_natCast, ← Complex.ofReal_mul, Complex.ofReal_re]
  rw [hre]
  push_cast at hG ⊢
  field_simp

/-! ### B1: the transport-type terms vanish identically on constant states -/

theorem at2_tabC_zero (nc : ℕ) (f : ℕ → Array ℂ) (hf : ∀ k x, (f k).getD x 0 = 0) (ch x : ℕ) :
    at2 (tabC nc f) ch x = 0 := by
  rw [Alias.at2_tabC_any]
  split_ifs
  · exact hf ch x
  · rfl

/-- all four variants of the convection term: every entry is `0` on a mean-mode spectrum -/
theorem convection_const (c : Cfg ℂ) (hD : 0 < c.D) (hN : 0 < c.N) (C : ℕ) (scale : ℂ) (single conservative : Bool)
    (uh : MC ℂ) (hu : MeanSpec c uh) (ch h : ℕ) : at2 (convection c C scale single conservative uh) ch h = 0 := by
  have hnab : ∀ (d k x : ℕ), (nifft c (tab (modes c) (fun h => deriv c d h * at2 uh k h))).getD x 0 = 0 :=
    fun d k x => ReadOff.nifft_zero c hN _ (fun h' hh' => by
      rw [Nonlin.tab_getD _ _ _ _ hh', deriv_mul_mean c uh hu d k h' hh']) x
  cases single <;> cases conservative
  · -- multi-channel, non-conservative
    unfold convection
    simp only [Bool.false_eq_true, ↓reduceIte]
    rw [Alias.at2_tab2_any]
    split_ifs with hc
    · rw [Nonlin.at2_tabC _ _ _ _ hc.1, ReadOff.nfft_zero c hN, mul_zero]
      intro j hj
      have hj' : j < gridSize c := hj
      rw [Nonlin.tab_getD _ _ _ _ hj']
      apply Alias.sumList_range_zero
      intro k
      have hnabC : ∀ idx x, at2 (tabC (C * C) (fun ij =>
          nifft c (tab (modes c) (fun h => deriv c (ij % C) h * at2 uh (ij / C) h)))) idx x = 0 :=
        fun idx x => at2_tabC_zero _ _ (fun k x => hnab _ _ x) idx x
      rw [hnabC, mul_zero]
    · rfl
  · -- multi-channel, conservative
    unfold convection
    simp only [Bool.false_eq_true, ↓reduceIte]
    rw [Alias.at2_tab2_any]
    split_ifs with hc
    · rw [Alias.sumList_range_zero, mul_zero, mul_zero]
      intro j
      rcases Nat.eq_zero_or_pos h with h0 | h0
      · rw [h0, Conserve.deriv_zero_mode, zero_mul]
      · rw [Alias.at2_tabC_any]
        split_ifs with hij
        · rw [nfft_const c hD hN _ (meanValue c uh ((ch * C + j) % C) * meanValue c uh ((ch * C + j) / C))
            (fun x hx => by
              rw [Nonlin.tab_getD _ _ _ _ hx]
              have hmod : (ch * C + j) % C < C := Nat.mod_lt _ (by omega)
              have hdiv : (ch * C + j) / C < C := by
                rw [Nat.div_lt_iff_lt_mul (by omega)]; exact hij
              rw [Nonlin.at2_tabC _ _ _ _ hmod, Nonlin.at2_tabC _ _ _ _ hdiv,
                nifft_channel_mean c hN uh hu _ x hx, nifft_channel_mean c hN uh hu _ x hx]) h,
            if_neg (by omega), mul_zero]
        · rw [mul_zero]
    · rfl
  · -- single channel, non-conservative
    unfold convection
    simp only [Bool.false_eq_true, ↓reduceIte]
    rw [Alias.at2_tab2_any]
    split_ifs with hc
    · rw [ReadOff.nfft_zero c hN, mul_zero]
      intro j hj
      have hj' : j < gridSize c := hj
      rw [Nonlin.tab_getD _ _ _ _ hj']
      apply Alias.sumList_range_zero
      intro d
      have hnabC : ∀ idx x, at2 (tabC c.D (fun d =>
          nifft c (tab (modes c) (fun h => deriv c d h * at2 uh 0 h)))) idx x = 0 :=
        fun idx x => at2_tabC_zero _ _ (fun k x => hnab _ _ x) idx x
      rw [hnabC, mul_zero]
    · rfl
  · -- single channel, conservative
    unfold convection
    simp only [↓reduceIte]
    rw [Alias.at2_tab2_any]
    split_ifs with hc
    · rcases Nat.eq_zero_or_pos h with h0 | h0
      · rw [h0, Alias.sumList_range_zero _ _ (fun d => Conserve.deriv_zero_mode c d)]
        ring
      · rw [Nonlin.at2_tabC _ _ _ _ hc.1,
          nfft_const c hD hN _ (meanValue c uh ch * meanValue c uh ch) (fun x hx => by
            rw [Nonlin.tab_getD _ _ _ _ hx, Nonlin.at2_tabC _ _ _ _ hc.1,
              nifft_channel_mean c hN uh hu _ x hx]) h, if_neg (by omega)]
        ring
    · rfl

/-- the gradient-norm term (with or without the zero-mode fix): every entry is `0` on a mean-mode spectrum -/
theorem gradientNorm_const (c : Cfg ℂ) (hN : 0 < c.N) (C : ℕ) (scale : ℂ) (zeroFix : Bool) (uh : MC ℂ)
    (hu : MeanSpec c uh) (ch h : ℕ) : at2 (gradientNorm c C scale zeroFix uh) ch h = 0 := by
  unfold gradientNorm
  simp only []
  rw [Alias.at2_tab2_any]
  by_cases hc : ch < C ∧ h < modes c
  · rw [if_pos hc]
    have hg : ∀ (cd x : ℕ), at2 (tabC (C * c.D) (fun cd =>
        nifft c (tab (modes c) (fun h => deriv c (cd % c.D) h * at2 uh (cd / c.D) h)))) cd x = 0 := by
      intro cd x
      rw [Alias.at2_tabC_any]
      split_ifs
      · exact ReadOff.nifft_zero c hN _ (fun h' hh' => by
          rw [Nonlin.tab_getD _ _ _ _ hh', deriv_mul_mean c uh hu _ _ h' hh']) x
      · rfl
    rw [Nonlin.at2_tabC _ _ _ _ hc.1, ReadOff.nfft_zero c hN, mul_zero, mul_zero]
    intro j hj
    have hj' : j < gridSize c := hj
    have hq : ∀ (k x : ℕ), at2 (tab2 C (gridSize c) (fun ch x =>
        sumList ((List.range c.D).map (fun d =>
          at2 (tabC (C * c.D) (fun cd =>
            nifft c (tab (modes c) (fun h => deriv c (cd % c.D) h * at2 uh (cd / c.D) h)))) (ch * c.D + d) x *
          at2 (tabC (C * c.D) (fun cd =>
            nifft c (tab (modes c) (fun h => deriv c (cd % c.D) h * at2 uh (cd / c.D) h)))) (ch * c.D + d) x))))
        k x = 0 := by
      intro k x
      rw [Alias.at2_tab2_any]
      split_ifs
      · apply Alias.sumList_range_zero
        intro d
        rw [hg, mul_zero]
      · rfl
    change at2 _ ch j = 0
    rw [Nonlin.at2_tab2 _ _ _ _ _ hc.1 hj']
    have hmean : (tab C (fun ch => sumRange (gridSize c) (fun x => at2 (tab2 C (gridSize c) (fun ch x =>
        sumList ((List.range c.D).map (fun d =>
          at2 (tabC (C * c.D) (fun cd =>
            nifft c (tab (modes c) (fun h => deriv c (cd % c.D) h * at2 uh (cd / c.D) h)))) (ch * c.D + d) x *
          at2 (tabC (C * c.D) (fun cd =>
            nifft c (tab (modes c) (fun h => deriv c (cd % c.D) h * at2 uh (cd / c.D) h)))) (ch * c.D + d) x))))
        ch x) / lit (gridSize c))).getD ch 0 = 0 := by
      rw [Nonlin.tab_getD _ _ _ _ hc.1, sumRange_eq,
        Finset.sum_eq_zero (fun x _ => hq ch x), zero_div]
    rw [hq ch j, hmean]
    split_ifs <;> simp
  · rw [if_neg hc]

/-- the 2-D vorticity convection term of a constant vorticity: the zero array (corollary of A1) -/
theorem vorticity2d_const (c : Cfg ℂ) (hN : 0 < c.N) (scale : ℂ) (uh : MC ℂ) (hu : MeanSpec c uh) :
    vorticity2d c scale none uh = tab2 1 (modes c) (fun _ _ => 0) := by
  apply Laminar.vorticity2d_shear_zero c hN scale uh
  intro h hh hk
  rcases Nat.eq_zero_or_pos h with h0 | h0
  · exfalso; apply hk; rw [h0]; exact Conserve.kInt_zero_mode c 0
  · exact hu 0 h h0 hh

end Exponax.Equilibria
