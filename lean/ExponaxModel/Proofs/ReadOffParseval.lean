import ExponaxModel.Proofs.ReadOffSpectrum
/-
R3 (C17), part 2: power spectrum of one resolved mode, and Parseval through the MODEL `Spectrum.spectrum`.

What the model gives (NOT `a²/2`): the power quantity is `½ · (|û|/reconstruction) · (|û|/norm_compensation)`, so for
`u = a cos(2π κ·j/N + φ)`, `κ ≠ 0` strictly below Nyquist, the bin of `κ` holds `a²/4 = ½ · mean(u²)` (`mean(u²) = a²/2`,
`sum_sq_modeField`), every other bin `0`; for `κ = 0` bin `0` holds `½ a² cos²φ = ½ mean(u²)`.
So in all cases `Σ_bins power = ½ · mean(u²)` provided `κ` lies inside the Nyquist sphere (`round|κ| ≤ N/2`); a corner
mode outside the sphere is dropped by the binning (`Σ_bins = 0`).

Parseval, every real field `u`:
* un-binned, every `D ≥ 1`: `Σ_h quantity_h = ½ · (1/N^D) Σ_j u_j²`;
* 1-D (the model does not bin): `Σ_b spectrum[b] = ½ · (1/N) Σ_j u_j²` — the full identity;
* `D ≥ 2`, sum binning: `Σ_b spectrum[b] + Σ_{h outside the Nyquist sphere} quantity_h = ½ · (1/N^D) Σ_j u_j²`.
-/
set_option linter.unusedVariables false
namespace Exponax.ReadOff
open Exponax Exponax.Layout Exponax.Transform Exponax.DFT Exponax.ExactLinear Finset
open Exponax.Spectrum (quantity)
open scoped ComplexConjugate

/-! ### power of one mode -/

/-- **R3, power, `κ ≠ 0`.**  Bin `b ≤ N/2` of the power spectrum of `a cos(2π κ·j/N + φ)` holds `a²/4` if `κ` lies in
    the bin, else `0`. -/
theorem spectrum_power_modeField (D N : ℕ) (hD : 1 ≤ D) (hN : 0 < N) (κ : List ℤ)
    (hκ : BelowNyquist D N κ) (hne : ∃ d < D, κ.getD d 0 ≠ 0) (a φ : ℝ) (b : ℕ) (hb : b < N / 2 + 1) :
    (Spectrum.spectrum D N true false (modeField D N κ a φ)).getD b 0
      = if inBin κ b = true then ((a ^ 2 / 4 : ℝ) : ℂ) else 0 := by
  rw [spectrum_getD_sum D N hD true _ b hb]
  have hNne : ((N : ℂ)) ^ D ≠ 0 := pow_ne_zero _ (Nat.cast_ne_zero.mpr hN.ne')
  have hsq : ((|a| : ℝ) : ℂ) ^ 2 = (a : ℂ) ^ 2 := by
    rw [← Complex.ofReal_pow, sq_abs, Complex.ofReal_pow]
  have hterm : ∀ h ∈ range (numModes D N),
      (if inBin (wnFlat D N h) b = true then quantity D N true (rfftnM D N (modeField D N κ a φ)) h else 0)
        = (if inBin κ b = true then ((|a| : ℝ) : ℂ) ^ 2 / 8 else 0) * ((herm_weight D N h : ℂ) *
            ((if wnFlat D N h = κ then 1 else 0) + (if wnFlat D N h = negK κ then 1 else 0))) := by
    intro h hh
    have hh' := Finset.mem_range.mp hh
    rw [quantity_pow D N hD hN _ h hh', norm_rfftnM_modeField D N hD hN κ hκ hne a φ h hh']
    by_cases hA : wnFlat D N h = κ
    · have hB : ¬ wnFlat D N h = negK κ := by
        rw [hA]; exact ne_negK_of_ne_zero D κ hκ.1 hne
      have e : inBin (wnFlat D N h) b = inBin κ b := by rw [hA]
      rw [e, if_pos hA, if_neg hB]
      split_ifs
      · push_cast; field_simp; ring
      · ring
    · by_cases hB : wnFlat D N h = negK κ
      · have e : inBin (wnFlat D N h) b = inBin κ b := by rw [hB, inBin_negK]
        rw [e, if_neg hA, if_pos hB]
        split_ifs
        · push_cast; field_simp; ring
        · ring
      · rw [if_neg hA, if_neg hB]
        split_ifs <;> simp
  rw [Finset.sum_congr rfl hterm, sum_weight_indicator D N hD hN κ hκ]
  split_ifs
  · rw [hsq]; push_cast; ring
  · ring

/-- **R3, power, `κ = 0`:** bin `0` holds `½ (a cos φ)²`, every other bin `0`. -/
theorem spectrum_power_const (D N : ℕ) (hD : 1 ≤ D) (hN : 0 < N) (κ : List ℤ) (hκ : κ.length = D)
    (h0 : ∀ d < D, κ.getD d 0 = 0) (a φ : ℝ) (b : ℕ) (hb : b < N / 2 + 1) :
    (Spectrum.spectrum D N true false (modeField D N κ a φ)).getD b 0
      = if b = 0 then (((a * Real.cos φ) ^ 2 / 2 : ℝ) : ℂ) else 0 := by
  have hκ' : BelowNyquist D N κ := ⟨hκ, fun d hd => by rw [h0 d hd]; simpa using hN⟩
  have hM : 0 < numModes D N := by rw [numModes_eq]; positivity
  have hNne : ((N : ℂ)) ^ D ≠ 0 := pow_ne_zero _ (Nat.cast_ne_zero.mpr hN.ne')
  rw [spectrum_getD_sum D N hD true _ b hb, Finset.sum_eq_single 0]
  · rw [quantity_pow D N hD hN _ 0 hM, rfftnM_modeField_dc D N hD hN κ hκ h0 a φ, herm_weight_zero,
      Complex.norm_real, Real.norm_eq_abs]
    by_cases hb0 : b = 0
    · rw [if_pos ((inBin_wnFlat_zero D N b).mpr hb0), if_pos hb0, abs_mul (a * Real.cos φ)]
      have h1 : |((N ^ D : ℕ) : ℝ)| = ((N ^ D : ℕ) : ℝ) := abs_of_nonneg (by positivity)
      have h2 : ((|a * Real.cos φ| : ℝ) : ℂ) ^ 2 = (((a * Real.cos φ) ^ 2 : ℝ) : ℂ) := by
        rw [← Complex.ofReal_pow, sq_abs]
      rw [h1]
      push_cast at h2 ⊢
      field_simp
      linear_combination h2
    · rw [if_neg (fun hc => hb0 ((inBin_wnFlat_zero D N b).mp hc)), if_neg hb0]
  · intro h hh hne
    have hh' := Finset.mem_range.mp hh
    have hA : wnFlat D N h ≠ κ := by
      intro he
      apply hne
      rw [← wnFlat_eq_zero_iff D N h hD hN hh']
      intro d hd
      rw [he, h0 d hd]
    have hB : wnFlat D N h ≠ negK κ := by
      rw [← (eq_negK_iff D κ hκ).mpr h0]; exact hA
    rw [quantity_pow D N hD hN _ h hh', rfftnM_modeField_other D N hD hN κ hκ' a φ h hh' hA hB]
    simp
  · intro hnot
    exact absurd (Finset.mem_range.mpr hM) hnot

/-! ### totals over the bins -/

theorem sum_bins_indicator (κ : List ℤ) (n : ℕ) (x : ℂ) :
    ∑ b ∈ range n, (if inBin κ b = true then x else 0) = if roundNorm κ < n then x else 0 := by
  simp only [inBin_iff_eq_roundNorm]
  rw [Finset.sum_ite_eq']
  simp only [Finset.mem_range]

/-- the amplitude spectrum of one mode sums to `|a|` when `κ` is inside the Nyquist sphere (`round|κ| ≤ N/2`), and to `0`
    for a corner mode outside it -/
theorem spectrum_amplitude_total (D N : ℕ) (hD : 1 ≤ D) (hN : 0 < N) (κ : List ℤ)
    (hκ : BelowNyquist D N κ) (hne : ∃ d < D, κ.getD d 0 ≠ 0) (a φ : ℝ) :
    ∑ b ∈ range (N / 2 + 1), (Spectrum.spectrum D N false false (modeField D N κ a φ)).getD b 0
      = if roundNorm κ < N / 2 + 1 then ((|a| : ℝ) : ℂ) else 0 := by
  rw [← sum_bins_indicator]
  apply Finset.sum_congr rfl
  intro b hb
  exact spectrum_amplitude_modeField D N hD hN κ hκ hne a φ b (Finset.mem_range.mp hb)

/-- **R3, power total.**  The power spectrum of one mode sums to `a²/4` inside the Nyquist sphere. -/
theorem spectrum_power_total (D N : ℕ) (hD : 1 ≤ D) (hN : 0 < N) (κ : List ℤ)
    (hκ : BelowNyquist D N κ) (hne : ∃ d < D, κ.getD d 0 ≠ 0) (a φ : ℝ) :
    ∑ b ∈ range (N / 2 + 1), (Spectrum.spectrum D N true false (modeField D N κ a φ)).getD b 0
      = if roundNorm κ < N / 2 + 1 then ((a ^ 2 / 4 : ℝ) : ℂ) else 0 := by
  rw [← sum_bins_indicator]
  apply Finset.sum_congr rfl
  intro b hb
  exact spectrum_power_modeField D N hD hN κ hκ hne a φ b (Finset.mem_range.mp hb)

/-! ### mean square of one mode -/

theorem Wsum_real (D N : ℕ) (hD : 0 < D) (hN : 0 < N) (κ : List ℤ) (hκ : BelowNyquist D N κ) :
    ∑ h ∈ range (numModes D N), (herm_weight D N h : ℝ) *
      ((if wnFlat D N h = κ then 1 else 0) + (if wnFlat D N h = negK κ then 1 else 0)) = 2 := by
  apply Complex.ofReal_injective
  have := Wsum_eq_two D N hD hN κ hκ
  unfold Wsum at this
  rw [Complex.ofReal_sum, Complex.ofReal_ofNat, ← this]
  apply Finset.sum_congr rfl
  intro h _
  split_ifs <;> simp

/-- `Σ_j u_j² = (a²/2) N^D` for `u = a cos(2π κ·j/N + φ)`, `κ ≠ 0` strictly below Nyquist: `mean(u²) = a²/2` -/
theorem sum_sq_modeField (D N : ℕ) (hD : 1 ≤ D) (hN : 0 < N) (κ : List ℤ)
    (hκ : BelowNyquist D N κ) (hne : ∃ d < D, κ.getD d 0 ≠ 0) (a φ : ℝ) :
    ∑ j ∈ range (N ^ D), ‖(modeField D N κ a φ).getD j 0‖ ^ 2 = a ^ 2 / 2 * (N ^ D : ℕ) := by
  rw [parseval_nd D N hD hN _ (modeField_real D N κ a φ)]
  have hNne : ((N ^ D : ℕ) : ℝ) ≠ 0 := by exact_mod_cast (pow_pos hN D).ne'
  have hterm : ∀ h ∈ range (numModes D N),
      (herm_weight D N h : ℝ) * ‖(rfftnM D N (modeField D N κ a φ)).getD h 0‖ ^ 2
        = (|a| / 2 * (N ^ D : ℕ)) ^ 2 * ((herm_weight D N h : ℝ) *
            ((if wnFlat D N h = κ then 1 else 0) + (if wnFlat D N h = negK κ then 1 else 0))) := by
    intro h hh
    have hh' := Finset.mem_range.mp hh
    rw [norm_rfftnM_modeField D N hD hN κ hκ hne a φ h hh']
    by_cases hA : wnFlat D N h = κ
    · have hB : ¬ wnFlat D N h = negK κ := by
        rw [hA]; exact ne_negK_of_ne_zero D κ hκ.1 hne
      rw [if_pos hA, if_neg hB]; ring
    · by_cases hB : wnFlat D N h = negK κ
      · rw [if_neg hA, if_pos hB]; ring
      · rw [if_neg hA, if_neg hB]; ring
  rw [Finset.sum_congr rfl hterm, ← Finset.mul_sum, Wsum_real D N hD hN κ hκ, mul_pow, div_pow, sq_abs]
  field_simp

/-- for one mode inside the Nyquist sphere the power spectrum sums to HALF the mean square of the field -/
theorem spectrum_power_total_eq_half_mean_sq (D N : ℕ) (hD : 1 ≤ D) (hN : 0 < N) (κ : List ℤ)
    (hκ : BelowNyquist D N κ) (hne : ∃ d < D, κ.getD d 0 ≠ 0) (hin : roundNorm κ < N / 2 + 1) (a φ : ℝ) :
    ∑ b ∈ range (N / 2 + 1), (Spectrum.spectrum D N true false (modeField D N κ a φ)).getD b 0
      = ((1 / 2 * (1 / (N ^ D : ℕ) * ∑ j ∈ range (N ^ D), ‖(modeField D N κ a φ).getD j 0‖ ^ 2) : ℝ) : ℂ) := by
  rw [spectrum_power_total D N hD hN κ hκ hne a φ, if_pos hin, sum_sq_modeField D N hD hN κ hκ hne a φ]
  have hNne : ((N ^ D : ℕ) : ℝ) ≠ 0 := by exact_mod_cast (pow_pos hN D).ne'
  congr 1
  field_simp
  ring

/-! ### Parseval -/

/-- **Parseval for the model's power quantity, un-binned, every `D ≥ 1`:** `Σ_h quantity_h = ½ · mean(u²)` for every real
    field `u` -/
theorem sum_quantity_pow (D N : ℕ) (hD : 1 ≤ D) (hN : 0 < N) (u : Array ℂ)
    (hu : ∀ j < N ^ D, (u.getD j 0).im = 0) :
    ∑ h ∈ range (numModes D N), quantity D N true (rfftnM D N u) h
      = ((1 / 2 * (1 / (N ^ D : ℕ) * ∑ j ∈ range (N ^ D), ‖u.getD j 0‖ ^ 2) : ℝ) : ℂ) := by
  rw [parseval_nd D N hD hN u hu]
  have hNne : ((N : ℂ)) ^ D ≠ 0 := pow_ne_zero _ (Nat.cast_ne_zero.mpr hN.ne')
  push_cast
  rw [Finset.mul_sum, Finset.mul_sum, Finset.mul_sum]
  apply Finset.sum_congr rfl
  intro h hh
  rw [quantity_pow D N hD hN _ h (Finset.mem_range.mp hh)]
  field_simp

/-- **R3, 1-D full Parseval.**  In 1-D the model returns the per-mode power without binning, and its sum over the
    `N/2 + 1` entries is `½ · (1/N) Σ_j u_j²` for every real `u` (odd or even `N`, either `average` flag). -/
theorem spectrum_parseval_1d (N : ℕ) (hN : 0 < N) (average : Bool) (u : Array ℂ)
    (hu : ∀ j < N, (u.getD j 0).im = 0) :
    ∑ b ∈ range (N / 2 + 1), (Spectrum.spectrum 1 N true average u).getD b 0
      = ((1 / 2 * (1 / (N : ℝ) * ∑ j ∈ range N, ‖u.getD j 0‖ ^ 2) : ℝ) : ℂ) := by
  have hM : numModes 1 N = N / 2 + 1 := by rw [numModes_eq]; simp
  have := sum_quantity_pow 1 N le_rfl hN u (by simpa using hu)
  rw [hM] at this
  simp only [pow_one] at this
  rw [← this]
  apply Finset.sum_congr rfl
  intro b hb
  unfold Spectrum.spectrum
  simp only [if_true]
  rw [tab_getD _ _ _ _ (by rw [hM]; exact Finset.mem_range.mp hb)]

/-- sum binning, every `D ≥ 1`: the bins together hold exactly the stored modes inside the Nyquist sphere -/
theorem spectrum_total_eq (D N : ℕ) (hD : 1 ≤ D) (power : Bool) (u : Array ℂ) :
    ∑ b ∈ range (N / 2 + 1), (Spectrum.spectrum D N power false u).getD b 0
      = ∑ h ∈ range (numModes D N),
          if roundNorm (wnFlat D N h) < N / 2 + 1 then quantity D N power (rfftnM D N u) h else 0 := by
  have h1 : ∀ b ∈ range (N / 2 + 1), (Spectrum.spectrum D N power false u).getD b 0
      = ∑ h ∈ range (numModes D N),
          if inBin (wnFlat D N h) b = true then quantity D N power (rfftnM D N u) h else 0 :=
    fun b hb => spectrum_getD_sum D N hD power u b (Finset.mem_range.mp hb)
  rw [Finset.sum_congr rfl h1, Finset.sum_comm]
  apply Finset.sum_congr rfl
  intro h _
  exact sum_bins_indicator (wnFlat D N h) (N / 2 + 1) _

/-- **R3, `n`-D Parseval with the corner remainder.**  For every real field, the binned power spectrum plus the power
    of the stored modes outside the Nyquist sphere (`round|k| > N/2`, dropped by the binning) is `½ · mean(u²)`. -/
theorem spectrum_parseval_nd (D N : ℕ) (hD : 1 ≤ D) (hN : 0 < N) (u : Array ℂ)
    (hu : ∀ j < N ^ D, (u.getD j 0).im = 0) :
    ∑ b ∈ range (N / 2 + 1), (Spectrum.spectrum D N true false u).getD b 0
        + ∑ h ∈ range (numModes D N),
            (if roundNorm (wnFlat D N h) < N / 2 + 1 then 0 else quantity D N true (rfftnM D N u) h)
      = ((1 / 2 * (1 / (N ^ D : ℕ) * ∑ j ∈ range (N ^ D), ‖u.getD j 0‖ ^ 2) : ℝ) : ℂ) := by
  rw [spectrum_total_eq D N hD true u, ← Finset.sum_add_distrib, ← sum_quantity_pow D N hD hN u hu]
  apply Finset.sum_congr rfl
  intro h _
  split_ifs <;> simp

/-- if every stored mode outside the Nyquist sphere carries no energy, Parseval holds for the binned spectrum alone -/
theorem spectrum_parseval_nd_inside (D N : ℕ) (hD : 1 ≤ D) (hN : 0 < N) (u : Array ℂ)
    (hu : ∀ j < N ^ D, (u.getD j 0).im = 0)
    (hin : ∀ h < numModes D N, N / 2 + 1 ≤ roundNorm (wnFlat D N h) → (rfftnM D N u).getD h 0 = 0) :
    ∑ b ∈ range (N / 2 + 1), (Spectrum.spectrum D N true false u).getD b 0
      = ((1 / 2 * (1 / (N ^ D : ℕ) * ∑ j ∈ range (N ^ D), ‖u.getD j 0‖ ^ 2) : ℝ) : ℂ) := by
  rw [← spectrum_parseval_nd D N hD hN u hu]
  have : ∑ h ∈ range (numModes D N),
      (if roundNorm (wnFlat D N h) < N / 2 + 1 then 0 else quantity D N true (rfftnM D N u) h) = 0 := by
    apply Finset.sum_eq_zero
    intro h hh
    have hh' := Finset.mem_range.mp hh
    split_ifs with hc
    · rfl
    · rw [quantity_pow D N hD hN _ h hh', hin h hh' (by omega)]
      simp
  rw [this, add_zero]

/-! non-vacuity -/
example : BelowNyquist 2 8 [2, 2] ∧ (∃ d < 2, ([2, 2] : List ℤ).getD d 0 ≠ 0) ∧ roundNorm [2, 2] < 8 / 2 + 1 := by
  refine ⟨⟨rfl, by intro d hd; interval_cases d <;> simp⟩, ⟨0, by norm_num, by decide⟩, ?_⟩
  have : roundNorm [2, 2] = 3 := ((inBin_iff_eq_roundNorm _ 3).mp (by decide)).symm
  omega
/-- a corner mode below Nyquist on every axis but outside the Nyquist sphere exists: `(3, 3)` on the `8 × 8` grid,
    `|κ| ≈ 4.24`, bin `4 = N/2` … and `(3, 3, 3)`, `|κ| ≈ 5.2 > 4.5`, is dropped -/
example : BelowNyquist 3 8 [3, 3, 3] ∧ ¬ roundNorm [3, 3, 3] < 8 / 2 + 1 := by
  refine ⟨⟨rfl, by intro d hd; interval_cases d <;> simp⟩, ?_⟩
  have : roundNorm [3, 3, 3] = 5 := ((inBin_iff_eq_roundNorm _ 5).mp (by decide)).symm
  omega
example : ∀ j < 4 ^ 2, ((modeField 2 4 [1, 0] 1 0).getD j 0).im = 0 := modeField_real 2 4 [1, 0] 1 0
example : ∀ h < numModes 1 3, 3 / 2 + 1 ≤ roundNorm (wnFlat 1 3 h) →
    (rfftnM 1 3 (vzero (3 ^ 1))).getD h 0 = 0 := by
  intro h hh _
  rw [rfftnM_vzero 1 3 (by norm_num), vzero_getD]

end Exponax.ReadOff
