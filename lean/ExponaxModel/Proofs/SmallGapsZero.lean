import ExponaxModel.Proofs.LerayAlgebra
import ExponaxModel.Proofs.DFTBasic
import ExponaxModel.Proofs.AliasNonlin
import ExponaxModel.Proofs.Differentiability
import ExponaxModel.Generated.Etdrk
import ExponaxModel.Proofs.EquivarianceNDSteps
/-
SmallGaps, part G6 (C19 "the zero state maps to zero for unforced steppers").

Every model nonlinear term WITHOUT injection maps every spectrum all of whose entries are `0`
(`IsZeroMC`: in particular the zero spectrum of any shape, and the empty array) to THE zero
spectrum `zeroMC C (modes c)`; hence every regenerated ETDRK stage formula `E{0..4}step` maps `0`
to `0`, for any coefficients, as soon as `N 0 = 0`.

No hypothesis on the configuration is needed (any `D`, `N`, `s`, dealiasing fraction).
-/
set_option linter.unusedVariables false
namespace Exponax.SmallGaps
open Exponax Exponax.Layout Exponax.Transform Exponax.Nonlin Exponax.Gen.Etdrk

/-! ### zero arrays -/

/-- every entry (read with default `0`) of a one-channel array vanishes -/
def IsZeroArr (a : Array ℂ) : Prop := ∀ i, a.getD i 0 = 0

/-- every entry of a multi-channel array vanishes (as read by `at2`, the only way the model reads it) -/
def IsZeroMC (A : MC ℂ) : Prop := ∀ ch i, at2 A ch i = 0

/-- THE zero spectrum with `C` channels and `M` stored modes -/
def zeroMC (C M : ℕ) : MC ℂ := tab2 C M (fun _ _ => 0)

theorem isZeroArr_tab (n : ℕ) (f : ℕ → ℂ) (hf : ∀ i, i < n → f i = 0) : IsZeroArr (tab n f) := by
  intro i
  rcases Nat.lt_or_ge i n with h | h
  · rw [Nonlin.tab_getD _ _ _ _ h, hf i h]
  · rw [Nonlin.tab_getD_of_le _ _ _ _ h]

theorem isZeroArr_empty : IsZeroArr (#[] : Array ℂ) := fun i => by simp [Array.getD]

theorem isZeroMC_zeroMC (C M : ℕ) : IsZeroMC (zeroMC C M) := fun ch i =>
  Alias.at2_tab2_zero C M _ ch i (fun _ => rfl)

theorem isZeroMC_empty : IsZeroMC (#[] : MC ℂ) := fun ch i => by simp [at2, Array.getD]

theorem IsZeroMC.channel {A : MC ℂ} (hA : IsZeroMC A) (ch : ℕ) : IsZeroArr (A.getD ch #[]) :=
  fun i => hA ch i

theorem isZeroMC_tabC (nc : ℕ) (f : ℕ → Array ℂ) (hf : ∀ ch, ch < nc → IsZeroArr (f ch)) :
    IsZeroMC (tabC nc f) := by
  intro ch i
  rw [Alias.at2_tabC_any]
  split_ifs with h
  · exact hf ch h i
  · rfl

theorem isZeroMC_tab2 (nc n : ℕ) (f : ℕ → ℕ → ℂ) (hf : ∀ ch i, ch < nc → i < n → f ch i = 0) :
    IsZeroMC (tab2 nc n f) := by
  intro ch i
  rw [Alias.at2_tab2_any]
  split_ifs with h
  · exact hf ch i h.1 h.2
  · rfl

theorem tab2_eq_zeroMC (nc n : ℕ) (f : ℕ → ℕ → ℂ) (hf : ∀ ch i, ch < nc → i < n → f ch i = 0) :
    tab2 nc n f = zeroMC nc n :=
  tab2_congr nc n f _ hf

theorem tabC_eq_zeroMC (nc n : ℕ) (f : ℕ → Array ℂ) (hf : ∀ ch, ch < nc → f ch = tab n (fun _ => 0)) :
    tabC nc f = zeroMC nc n := by
  unfold tabC zeroMC tab2
  exact tab_congr _ _ _ hf

/-! ### the transforms of the zero array -/

theorem irfftnM_zero (D N : ℕ) (c : Array ℂ) (hc : IsZeroArr c) :
    irfftnM D N c = tab (N ^ D) (fun _ => 0) := by
  unfold irfftnM
  apply tab_congr
  intro j _
  rw [DFT.sumRange_eq, Finset.sum_eq_zero, zero_div]
  intro h _
  rw [hc h, zero_mul, hasRe_complex, Complex.zero_re, Complex.ofReal_zero, mul_zero]

theorem rfftnM_zero (D N : ℕ) (u : Array ℂ) (hu : IsZeroArr u) :
    rfftnM D N u = tab (numModes D N) (fun _ => 0) := by
  unfold rfftnM
  apply tab_congr
  intro h _
  rw [DFT.sumRange_eq, Finset.sum_eq_zero]
  intro j _
  rw [hu j, zero_mul]

theorem nifft_zero (c : Cfg ℂ) (uh : Array ℂ) (hu : IsZeroArr uh) :
    nifft c uh = tab (gridSize c) (fun _ => 0) := by
  unfold nifft
  exact irfftnM_zero c.D c.N _ (isZeroArr_tab _ _ (fun h _ => by rw [hu h, mul_zero]))

theorem nfft_zero (c : Cfg ℂ) (u : Array ℂ) (hu : IsZeroArr u) :
    nfft c u = tab (modes c) (fun _ => 0) := by
  unfold nfft
  apply tab_congr
  intro h hh
  rw [rfftnM_zero c.D c.N u hu]
  have : (tab (numModes c.D c.N) (fun _ => (0 : ℂ))).getD h 0 = 0 := isZeroArr_tab _ _ (fun _ _ => rfl) h
  rw [this, mul_zero]

theorem isZeroArr_nifft (c : Cfg ℂ) (uh : Array ℂ) (hu : IsZeroArr uh) : IsZeroArr (nifft c uh) := by
  rw [nifft_zero c uh hu]; exact isZeroArr_tab _ _ (fun _ _ => rfl)

theorem isZeroArr_nfft (c : Cfg ℂ) (u : Array ℂ) (hu : IsZeroArr u) : IsZeroArr (nfft c u) := by
  rw [nfft_zero c u hu]; exact isZeroArr_tab _ _ (fun _ _ => rfl)

theorem sumList_map_zero (l : List ℕ) (f : ℕ → ℂ) (hf : ∀ d, f d = 0) : sumList (l.map f) = 0 := by
  rw [sumList_eq]
  induction l with
  | nil => rfl
  | cons a l ih => rw [List.map_cons, List.sum_cons, hf a, ih, add_zero]

theorem IsZeroMC.at2 {A : MC ℂ} (hA : IsZeroMC A) (ch i : ℕ) : at2 A ch i = 0 := hA ch i
theorem IsZeroArr.getD {a : Array ℂ} (ha : IsZeroArr a) (i : ℕ) : a.getD i 0 = 0 := ha i
theorem mul_z (a : ℂ) {x : ℂ} (hx : x = 0) : a * x = 0 := by rw [hx, mul_zero]
theorem z_mul (a : ℂ) {x : ℂ} (hx : x = 0) : x * a = 0 := by rw [hx, zero_mul]

theorem isZeroMC_nifft_channels (c : Cfg ℂ) (C : ℕ) (uh : MC ℂ) (hz : IsZeroMC uh) :
    IsZeroMC (tabC C (fun ch => nifft c (uh.getD ch #[]))) :=
  isZeroMC_tabC _ _ (fun ch _ => isZeroArr_nifft c _ (hz.channel ch))

/-! ### G6a — every model nonlinear term without injection maps zero to zero -/

/-- `ConvectionNonlinearFun`, all four variants (the single-channel non-conservative variant
    returns one channel) -/
theorem convection_zero (c : Cfg ℂ) (C : ℕ) (scale : ℂ) (single conservative : Bool) (uh : MC ℂ)
    (hz : IsZeroMC uh) :
    convection c C scale single conservative uh
      = zeroMC (if single && !conservative then 1 else C) (modes c) := by
  have hu := isZeroMC_nifft_channels c C uh hz
  cases single <;> cases conservative <;>
    simp only [convection, Bool.false_eq_true, if_false, if_true, Bool.and_false, Bool.and_true,
      Bool.not_false, Bool.not_true] <;>
    apply tab2_eq_zeroMC <;> intro ch h _ _
  · apply mul_z; apply IsZeroMC.at2; apply isZeroMC_tabC; intro i _; apply isZeroArr_nfft
    apply isZeroArr_tab; intro x _; apply sumList_map_zero; intro j; rw [hu.at2, zero_mul]
  · apply mul_z; apply mul_z; apply sumList_map_zero; intro j; apply mul_z; apply IsZeroMC.at2
    apply isZeroMC_tabC; intro ij _; apply isZeroArr_nfft; apply isZeroArr_tab; intro x _
    rw [hu.at2, zero_mul]
  · apply mul_z; apply IsZeroArr.getD; apply isZeroArr_nfft; apply isZeroArr_tab; intro x _
    apply sumList_map_zero; intro d; rw [hu.at2, zero_mul]
  · apply mul_z; apply mul_z; apply IsZeroMC.at2; apply isZeroMC_tabC; intro ch' _
    apply isZeroArr_nfft; apply isZeroArr_tab; intro x _; rw [hu.at2, zero_mul]

/-- `GradientNormNonlinearFun`, with and without the zero-mode fix -/
theorem gradientNorm_zero (c : Cfg ℂ) (C : ℕ) (scale : ℂ) (zeroFix : Bool) (uh : MC ℂ)
    (hz : IsZeroMC uh) :
    gradientNorm c C scale zeroFix uh = zeroMC C (modes c) := by
  unfold gradientNorm
  extract_lets G M g q mean q' qh
  have hg : IsZeroMC g := by
    apply isZeroMC_tabC; intro cd _; apply isZeroArr_nifft; apply isZeroArr_tab; intro h _
    rw [hz.at2, mul_zero]
  have hq : IsZeroMC q := by
    apply isZeroMC_tab2; intro ch x _ _; apply sumList_map_zero; intro d; rw [hg.at2, zero_mul]
  have hmean : IsZeroArr mean := by
    apply isZeroArr_tab; intro ch _
    rw [DFT.sumRange_eq, Finset.sum_eq_zero (fun x _ => hq.at2 ch x), zero_div]
  have hq' : IsZeroMC q' := by
    apply isZeroMC_tab2; intro ch x _ _
    rw [hq.at2, hmean.getD, sub_zero, ite_self]
  apply tab2_eq_zeroMC; intro ch h _ _
  apply mul_z; apply mul_z; apply IsZeroMC.at2; apply isZeroMC_tabC; intro ch' _
  apply isZeroArr_nfft; exact hq'.channel ch'

/-- `PolynomialNonlinearFun` whose constant coefficient vanishes (or is absent) -/
theorem polynomial_zero (c : Cfg ℂ) (C : ℕ) (coeffs : List ℂ) (h0 : coeffs.getD 0 0 = 0) (uh : MC ℂ)
    (hz : IsZeroMC uh) :
    polynomial c C coeffs uh = zeroMC C (modes c) := by
  have hu := isZeroMC_nifft_channels c C uh hz
  unfold polynomial
  apply tabC_eq_zeroMC; intro ch _
  apply nfft_zero; apply isZeroArr_tab; intro x _
  rw [hu.at2, Diff.polyEval_zero, h0]

/-- `GeneralNonlinearFun` -/
theorem general_zero (c : Cfg ℂ) (C : ℕ) (s0 s1 s2 : ℂ) (zeroFix : Bool) (uh : MC ℂ)
    (hz : IsZeroMC uh) :
    general c C s0 s1 s2 zeroFix uh = zeroMC C (modes c) := by
  unfold general
  apply tab2_eq_zeroMC; intro ch h _ _
  rw [polynomial_zero c C _ rfl uh hz, convection_zero c C _ true true uh hz,
    gradientNorm_zero c C _ zeroFix uh hz]
  simp only [Bool.not_true, Bool.and_false, Bool.false_eq_true, if_false]
  rw [(isZeroMC_zeroMC C (modes c)).at2, add_zero, add_zero]

/-- `VorticityConvection2d` without the Kolmogorov injection -/
theorem vorticity2d_zero (c : Cfg ℂ) (scale : ℂ) (uh : MC ℂ) (hz : IsZeroMC uh) :
    vorticity2d c scale none uh = zeroMC 1 (modes c) := by
  unfold vorticity2d
  extract_lets G M psi u v wx wy conv
  have hpsi : IsZeroArr psi := by
    apply isZeroArr_tab; intro h _; rw [hz.at2, mul_zero]
  have hwx : IsZeroArr wx := by
    apply isZeroArr_nifft; apply isZeroArr_tab; intro h _; rw [hz.at2, mul_zero]
  have hu : IsZeroArr u := by
    apply isZeroArr_nifft; apply isZeroArr_tab; intro h _; rw [hpsi.getD, mul_zero]
  have hconv : IsZeroArr conv := by
    apply isZeroArr_nfft; apply isZeroArr_tab; intro x _
    rw [hu.getD, hwx.getD, zero_mul, zero_add]
    apply z_mul
    apply IsZeroArr.getD; apply isZeroArr_nifft; apply isZeroArr_tab; intro h _
    rw [hpsi.getD, mul_zero]
  apply tab2_eq_zeroMC; intro ch h _ _
  show -scale * conv.getD h 0 = 0
  rw [hconv.getD, mul_zero]

/-- `Leray` (linear) -/
theorem leray_zero (c : Cfg ℂ) (uh : MC ℂ) (hz : IsZeroMC uh) : leray c uh = zeroMC c.D (modes c) := by
  unfold leray
  extract_lets M div p
  have hdiv : IsZeroArr div := by
    apply isZeroArr_tab; intro h _; apply sumList_map_zero; intro d; rw [hz.at2, mul_zero]
  have hp : IsZeroArr p := by
    apply isZeroArr_tab; intro h _; rw [hdiv.getD, mul_zero]
  apply tab2_eq_zeroMC; intro d h _ _
  rw [hz.at2, hp.getD, mul_zero, add_zero]

theorem proj3_cross_zero_right (a : ℂ × ℂ × ℂ) (i : ℕ) :
    proj3 (Gen.Misc.cross_product_3d a (0, 0, 0)) i = 0 := by
  unfold proj3 Gen.Misc.cross_product_3d
  split_ifs <;> simp

/-- `ProjectedConvection3d` without the Kolmogorov injection -/
theorem projected3d_zero (c : Cfg ℂ) (uh : MC ℂ) (hz : IsZeroMC uh) :
    projected3d c none uh = zeroMC 3 (modes c) := by
  unfold projected3d
  extract_lets G M curlH curl vel conv convH proj
  have hcurlH : IsZeroMC curlH := by
    apply isZeroMC_tab2; intro i h _ _
    rw [hz.at2, hz.at2, hz.at2]; exact proj3_cross_zero_right _ i
  have hcurl : IsZeroMC curl := by
    apply isZeroMC_tabC; intro i _; apply isZeroArr_nifft; exact hcurlH.channel i
  have hconv : IsZeroMC conv := by
    apply isZeroMC_tab2; intro i x _ _
    rw [hcurl.at2, hcurl.at2, hcurl.at2]; exact proj3_cross_zero_right _ i
  have hconvH : IsZeroMC convH := by
    apply isZeroMC_tabC; intro i _; apply isZeroArr_nfft; exact hconv.channel i
  have hproj : IsZeroMC proj := by
    show IsZeroMC (leray c convH)
    rw [leray_zero c convH hconvH]; exact isZeroMC_zeroMC _ _
  apply tab2_eq_zeroMC; intro i h _ _
  exact hproj.at2 i h

/-- `CahnHilliardNonlinearFun` -/
theorem cahnHilliard_zero (c : Cfg ℂ) (scale : ℂ) (uh : MC ℂ) (hz : IsZeroMC uh) :
    cahnHilliard c scale uh = zeroMC 1 (modes c) := by
  unfold cahnHilliard
  extract_lets G M u cube
  have hu : IsZeroArr u := by
    apply isZeroArr_nifft; apply isZeroArr_tab; intro h _; rw [hz.at2, mul_zero]
  have hcube : IsZeroArr cube := by
    apply isZeroArr_nfft; apply isZeroArr_tab; intro x _; rw [hu.getD, mul_zero]
  apply tab2_eq_zeroMC; intro ch h _ _
  rw [hcube.getD, mul_zero, zero_mul]

/-- reaction nonlinearity whose pointwise reaction has no source: `react(0, …, 0) = (0, …, 0)` -/
theorem reaction_zero (c : Cfg ℂ) (C : ℕ) (react : List ℂ → List ℂ)
    (hreact : ∀ ch, (react (List.replicate C 0)).getD ch 0 = 0) (uh : MC ℂ) (hz : IsZeroMC uh) :
    reaction c C react uh = zeroMC C (modes c) := by
  unfold reaction
  extract_lets G M u r
  have hu : IsZeroMC u := by
    apply isZeroMC_tabC; intro ch _; apply isZeroArr_nifft; apply isZeroArr_tab; intro h _
    rw [hz.at2, mul_zero]
  have hr : IsZeroMC r := by
    apply isZeroMC_tab2; intro ch x _ _
    have : (List.range C).map (fun k => at2 u k x) = List.replicate C 0 := by
      rw [show (fun k => at2 u k x) = (fun _ => (0 : ℂ)) from funext (fun k => hu.at2 k x),
        List.map_const', List.length_range]
    rw [this]; exact hreact ch
  apply tabC_eq_zeroMC; intro ch _
  exact nfft_zero c _ (hr.channel ch)

/-- the Gray–Scott reaction with zero feed rate has no source -/
theorem grayScott_no_source (kill : ℂ) (ch : ℕ) :
    (grayScottReact 0 kill (List.replicate 2 0)).getD ch 0 = 0 := by
  unfold grayScottReact
  rcases ch with _ | _ | ch <;> simp [List.replicate]

/-- the Belousov–Zhabotinsky reaction has no source -/
theorem bz_no_source (ch : ℕ) : (bzReact (List.replicate 3 (0 : ℂ))).getD ch 0 = 0 := by
  unfold bzReact
  rcases ch with _ | _ | _ | ch <;> simp [List.replicate]

/-- a term maps all-zero spectra to all-zero spectra -/
def ZeroPreserving (T : MC ℂ → MC ℂ) : Prop := ∀ uh, IsZeroMC uh → IsZeroMC (T uh)

/-- **G6a (collected).** every model nonlinear term without injection is zero preserving -/
theorem zeroPreserving_terms (c : Cfg ℂ) (C : ℕ) (scale s0 s1 s2 kill : ℂ) (single conservative zeroFix : Bool)
    (coeffs : List ℂ) (h0 : coeffs.getD 0 0 = 0) (react : List ℂ → List ℂ)
    (hreact : ∀ ch, (react (List.replicate C 0)).getD ch 0 = 0) :
    ZeroPreserving (convection c C scale single conservative) ∧
    ZeroPreserving (gradientNorm c C scale zeroFix) ∧
    ZeroPreserving (polynomial c C coeffs) ∧
    ZeroPreserving (general c C s0 s1 s2 zeroFix) ∧
    ZeroPreserving (vorticity2d c scale none) ∧
    ZeroPreserving (projected3d c none) ∧
    ZeroPreserving (leray c) ∧
    ZeroPreserving (cahnHilliard c scale) ∧
    ZeroPreserving (reaction c C react) ∧
    ZeroPreserving (reaction c 2 (grayScottReact 0 kill)) ∧
    ZeroPreserving (reaction c 3 bzReact) := by
  refine ⟨fun uh hz => ?_, fun uh hz => ?_, fun uh hz => ?_, fun uh hz => ?_, fun uh hz => ?_,
    fun uh hz => ?_, fun uh hz => ?_, fun uh hz => ?_, fun uh hz => ?_, fun uh hz => ?_, fun uh hz => ?_⟩
  · rw [convection_zero c C scale single conservative uh hz]; exact isZeroMC_zeroMC _ _
  · rw [gradientNorm_zero c C scale zeroFix uh hz]; exact isZeroMC_zeroMC _ _
  · rw [polynomial_zero c C coeffs h0 uh hz]; exact isZeroMC_zeroMC _ _
  · rw [general_zero c C s0 s1 s2 zeroFix uh hz]; exact isZeroMC_zeroMC _ _
  · rw [vorticity2d_zero c scale uh hz]; exact isZeroMC_zeroMC _ _
  · rw [projected3d_zero c uh hz]; exact isZeroMC_zeroMC _ _
  · rw [leray_zero c uh hz]; exact isZeroMC_zeroMC _ _
  · rw [cahnHilliard_zero c scale uh hz]; exact isZeroMC_zeroMC _ _
  · rw [reaction_zero c C react hreact uh hz]; exact isZeroMC_zeroMC _ _
  · rw [reaction_zero c 2 _ (grayScott_no_source kill) uh hz]; exact isZeroMC_zeroMC _ _
  · rw [reaction_zero c 3 _ bz_no_source uh hz]; exact isZeroMC_zeroMC _ _

/-! ### G6b — the regenerated ETDRK stage formulas fix `0` -/

section
variable {K : Type} [Ring K]

/-- **G6b.** `E{p}step E … N 0 = 0`, `p = 0..4`, for ANY coefficients, in any ring `K`
    (`ℂ` per mode, `ℕ → ℂ`, `ℕ → ℕ → ℂ` for whole spectra) as soon as `N 0 = 0` -/
theorem etdrk_step_zero (e eh a1 a2 a3 a4 a5 a6 : K) (N : K → K) (hN : N 0 = 0) :
    E0step e (0 : K) = 0 ∧ E1step e a1 N 0 = 0 ∧ E2step e a1 a2 N 0 = 0 ∧
    E3step e eh a1 a2 a3 a4 a5 N 0 = 0 ∧ E4step e eh a1 a2 a3 a4 a5 a6 N 0 = 0 := by
  refine ⟨?_, ?_, ?_, ?_, ?_⟩
  · simp only [E0step, mul_zero]
  · simp only [E1step, hN, mul_zero, add_zero]
  · simp only [E2step, hN, mul_zero, add_zero, sub_zero]
  · simp only [E3step, hN, mul_zero, add_zero, sub_zero]
  · simp only [E4step, hN, mul_zero, add_zero, sub_zero]

/-- … hence over any number of steps -/
theorem etdrk_rollout_zero (e eh a1 a2 a3 a4 a5 a6 : K) (N : K → K) (hN : N 0 = 0) (n : ℕ) :
    (E0step e)^[n] (0 : K) = 0 ∧ (E1step e a1 N)^[n] 0 = 0 ∧ (E2step e a1 a2 N)^[n] 0 = 0 ∧
    (E3step e eh a1 a2 a3 a4 a5 N)^[n] 0 = 0 ∧ (E4step e eh a1 a2 a3 a4 a5 a6 N)^[n] 0 = 0 := by
  obtain ⟨h0, h1, h2, h3, h4⟩ := etdrk_step_zero e eh a1 a2 a3 a4 a5 a6 N hN
  exact ⟨Function.iterate_fixed h0 n, Function.iterate_fixed h1 n, Function.iterate_fixed h2 n,
    Function.iterate_fixed h3 n, Function.iterate_fixed h4 n⟩
end

/-- a zero-preserving model term, read as a map on channel/mode-indexed spectra (`EquivND.liftTermND`,
    the lift used by C08), maps `0` to `0` -/
theorem liftTermND_zero (c : Cfg ℂ) (C : ℕ) (T : MC ℂ → MC ℂ) (hT : ZeroPreserving T) :
    EquivND.liftTermND c C T 0 = 0 := by
  funext ch h
  unfold EquivND.liftTermND
  split_ifs
  · exact (hT _ (isZeroMC_tab2 _ _ _ (fun _ _ _ _ => rfl))).at2 ch h
  · rfl

/-- **G6 (headline).** For every zero-preserving model term `T` (every term of
    `zeroPreserving_terms`) and ANY coefficient arrays, every ETDRK-p step (`p = 0..4`) and every
    rollout of the whole multi-channel spectrum maps the zero spectrum to the zero spectrum. -/
theorem etdrk_zero_state_fixed (c : Cfg ℂ) (C : ℕ) (T : MC ℂ → MC ℂ) (hT : ZeroPreserving T)
    (e eh a1 a2 a3 a4 a5 a6 : ℕ → ℕ → ℂ) (n : ℕ) :
    let N := EquivND.liftTermND c C T
    (E0step e)^[n] (0 : ℕ → ℕ → ℂ) = 0 ∧ (E1step e a1 N)^[n] 0 = 0 ∧ (E2step e a1 a2 N)^[n] 0 = 0 ∧
    (E3step e eh a1 a2 a3 a4 a5 N)^[n] 0 = 0 ∧ (E4step e eh a1 a2 a3 a4 a5 a6 N)^[n] 0 = 0 :=
  etdrk_rollout_zero e eh a1 a2 a3 a4 a5 a6 _ (liftTermND_zero c C T hT) n

/-! non-vacuity -/
example : IsZeroMC (zeroMC 3 5) ∧ IsZeroMC (#[] : MC ℂ) := ⟨isZeroMC_zeroMC _ _, isZeroMC_empty⟩
example : ([0, 1, -1] : List ℂ).getD 0 0 = 0 := rfl
example (c : Cfg ℂ) : ZeroPreserving (polynomial c 1 [0, 1, -1]) :=
  (zeroPreserving_terms c 1 0 0 0 0 0 true true true [0, 1, -1] rfl (fun _ => [0]) (fun ch => by
    rcases ch with _ | ch <;> simp)).2.2.1
example : ∃ N : ℂ → ℂ, N 0 = 0 ∧ N 1 ≠ 0 := ⟨fun z => z * z, by simp, by simp⟩

end Exponax.SmallGaps
