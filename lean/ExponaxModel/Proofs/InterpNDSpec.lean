import ExponaxModel.Proofs.InterpGrid
/-
C15 support — I4, part 1: the source multi-index `srcIndex` in any dimension, and the new half
spectrum of a band-limited state.
-/
set_option linter.unusedVariables false
set_option linter.unusedSimpArgs false
namespace Exponax.Interp
open Exponax Exponax.Layout Exponax.Transform Exponax.DFT Finset

/-! ### the source multi-index in any dimension -/

/-- the `foldr` of `srcIndex` succeeds iff every axis does, and then collects the per-axis sources -/
theorem foldr_srcAxis (f : ℕ → Option ℕ) (L : List ℕ) :
    L.foldr (fun d acc =>
      match acc, f d with
      | some l, some i => some (i :: l)
      | _, _ => none) (some []) =
      if ∀ d ∈ L, (f d).isSome = true then some (L.map (fun d => (f d).getD 0)) else none := by
  induction L with
  | nil => simp
  | cons d L ih =>
    rw [List.foldr_cons, ih]
    by_cases hL : ∀ d ∈ L, (f d).isSome = true
    · rw [if_pos hL]
      cases hfd : f d with
      | none =>
        have : ¬ ∀ d' ∈ d :: L, (f d').isSome = true := by
          intro hall
          have := hall d (List.mem_cons_self ..)
          rw [hfd] at this; simp at this
        rw [if_neg this]
      | some i =>
        have : ∀ d' ∈ d :: L, (f d').isSome = true := by
          intro d' hd'
          rcases List.mem_cons.mp hd' with rfl | hm
          · rw [hfd]; rfl
          · exact hL d' hm
        rw [if_pos this]
        simp [hfd]
    · rw [if_neg hL]
      have : ¬ ∀ d' ∈ d :: L, (f d').isSome = true :=
        fun hall => hL (fun d' hd' => hall d' (List.mem_cons_of_mem _ hd'))
      rw [if_neg this]

/-- the per-axis source of `srcIndex` -/
def axisSrc (D Nold Nnew : ℕ) (h' : List ℕ) (d : ℕ) : Option ℕ :=
  srcAxis (min Nold Nnew) ((wavenumberShape D Nnew).getD d 0) ((wavenumberShape D Nold).getD d 0)
    (d + 1 == D) (h'.getD d 0)

theorem srcIndex_eq (D Nold Nnew : ℕ) (h' : List ℕ) :
    srcIndex D Nold Nnew h' =
      if ∀ d ∈ List.range D, (axisSrc D Nold Nnew h' d).isSome = true
      then some ((List.range D).map (fun d => (axisSrc D Nold Nnew h' d).getD 0)) else none := by
  unfold srcIndex
  exact foldr_srcAxis (axisSrc D Nold Nnew h') (List.range D)

/-- per axis: a written target entry comes from a valid source entry with the same wavenumber -/
theorem axisSrc_spec (D Nold Nnew : ℕ) (ho : 2 ≤ Nold) (hn : 2 ≤ Nnew) (h' : List ℕ) (d : ℕ) (hd : d < D)
    (hi : h'.getD d 0 < if d + 1 = D then Nnew / 2 + 1 else Nnew) (j : ℕ)
    (hs : axisSrc D Nold Nnew h' d = some j) :
    (j < if d + 1 = D then Nold / 2 + 1 else Nold) ∧
      (if d + 1 = D then ((j : ℕ) : ℤ) else fftfreq Nold j)
        = (if d + 1 = D then ((h'.getD d 0 : ℕ) : ℤ) else fftfreq Nnew (h'.getD d 0)) := by
  unfold axisSrc at hs
  rw [wavenumberShape_getD D Nnew d hd, wavenumberShape_getD D Nold d hd] at hs
  by_cases hl : d + 1 = D
  · have hb : (d + 1 == D) = true := by simpa using hl
    simp only [hl, if_true] at hi ⊢
    rw [hb, if_pos hl, if_pos hl, srcAxis_last Nold Nnew _ hi] at hs
    split_ifs at hs with hc
    simp only [Option.some.injEq] at hs
    subst hs
    exact ⟨by omega, rfl⟩
  · have hb : (d + 1 == D) = false := by simpa using hl
    simp only [hl, if_false] at hi ⊢
    rw [hb, if_neg hl, if_neg hl, srcAxis_lead_closed _ _ _ _ (by omega) (by omega) (by omega)] at hs
    unfold fftfreq
    split_ifs at hs <;> simp only [Option.some.injEq] at hs <;> subst hs <;>
      (constructor <;> (try split_ifs) <;> omega)

/-- per axis: entries strictly inside the band are written -/
theorem axisSrc_isSome (D Nold Nnew : ℕ) (ho : 2 ≤ Nold) (hn : 2 ≤ Nnew) (h' : List ℕ) (d : ℕ) (hd : d < D)
    (hi : h'.getD d 0 < if d + 1 = D then Nnew / 2 + 1 else Nnew)
    (hband : 2 * |wn D Nnew h' d| < ((min Nold Nnew : ℕ) : ℤ)) :
    (axisSrc D Nold Nnew h' d).isSome = true := by
  unfold axisSrc
  rw [wavenumberShape_getD D Nnew d hd, wavenumberShape_getD D Nold d hd]
  by_cases hl : d + 1 = D
  · have hb : (d + 1 == D) = true := by simpa using hl
    rw [wn_last D Nnew h' d hl, abs_of_nonneg (by positivity)] at hband
    rw [if_pos hl] at hi
    rw [hb, if_pos hl, if_pos hl, srcAxis_last Nold Nnew _ hi, if_pos (by omega)]
    rfl
  · have hb : (d + 1 == D) = false := by simpa using hl
    rw [wn_leading D Nnew h' d hl] at hband
    rw [if_neg hl] at hi
    rw [hb, if_neg hl, if_neg hl, srcAxis_lead_closed _ _ _ _ (by omega) (by omega) (by omega)]
    have h1 := le_abs_self (fftfreq Nnew (h'.getD d 0))
    have h2 := neg_abs_le (fftfreq Nnew (h'.getD d 0))
    generalize |fftfreq Nnew (h'.getD d 0)| = a at hband h1 h2
    unfold fftfreq at h1 h2
    split_ifs at h1 h2 ⊢ <;> first | rfl | (exfalso; omega)

theorem range_map_getD (D : ℕ) (g : ℕ → ℕ) (d : ℕ) (hd : d < D) :
    ((List.range D).map g).getD d 0 = g d := by
  simp [List.getD_eq_getElem?_getD, hd]

/-- whenever a target entry is written, its source is a valid stored index of the old spectrum
    carrying the SAME wavenumber vector -/
theorem srcIndex_some_spec (D Nold Nnew : ℕ) (hD : 0 < D) (ho : 2 ≤ Nold) (hn : 2 ≤ Nnew) (h' : ℕ)
    (hh : h' < numModes D Nnew) (idx : List ℕ)
    (hs : srcIndex D Nold Nnew (unflatten (wavenumberShape D Nnew) h') = some idx) :
    flatten (wavenumberShape D Nold) idx < numModes D Nold ∧
      wnFlat D Nold (flatten (wavenumberShape D Nold) idx) = wnFlat D Nnew h' := by
  set idx' := unflatten (wavenumberShape D Nnew) h' with hidx'
  have hlt' : ∀ d, d < D → idx'.getD d 0 < if d + 1 = D then Nnew / 2 + 1 else Nnew := by
    intro d hd
    have := unflatten_getD_lt (wavenumberShape D Nnew) (wavenumberShape_pos D Nnew (by omega)) h' hh d
      (by rw [wavenumberShape_length D Nnew hD]; exact hd)
    rwa [wavenumberShape_getD D Nnew d hd] at this
  rw [srcIndex_eq] at hs
  split_ifs at hs with hall
  simp only [Option.some.injEq] at hs
  have hax : ∀ d, d < D → axisSrc D Nold Nnew idx' d = some (idx.getD d 0) := by
    intro d hd
    have h1 := hall d (List.mem_range.mpr hd)
    rw [← hs, range_map_getD D _ d hd]
    cases hx : axisSrc D Nold Nnew idx' d with
    | none => rw [hx] at h1; simp at h1
    | some j => rfl
  have hspec := fun d hd => axisSrc_spec D Nold Nnew ho hn idx' d hd (hlt' d hd) _ (hax d hd)
  have hlen : idx.length = D := by rw [← hs]; simp
  have hF : List.Forall₂ (· < ·) idx (wavenumberShape D Nold) := by
    rw [List.forall₂_iff_get]
    refine ⟨by rw [hlen, wavenumberShape_length D Nold hD], ?_⟩
    intro i h1 h2
    have hi : i < D := by omega
    have := (hspec i hi).1
    rw [← wavenumberShape_getD D Nold i hi] at this
    simpa [List.getD_eq_getElem?_getD, List.getElem?_eq_getElem, h1, h2] using this
  refine ⟨flatten_lt _ _ hF, ?_⟩
  unfold wnFlat
  rw [unflatten_flatten _ _ hF, ← hidx']
  unfold wnVec
  apply List.map_congr_left
  intro d hd
  have hd' := List.mem_range.mp hd
  have := (hspec d hd').2
  unfold wn rfftfreq
  by_cases hl : d + 1 = D
  · rw [if_pos hl, if_pos hl] at this; rw [if_pos hl, if_pos hl]; exact this
  · rw [if_neg hl, if_neg hl] at this; rw [if_neg hl, if_neg hl]; exact this

/-- all entries of the wavenumber vector lie strictly inside the band `|k| < m/2` -/
def inBand (m : ℕ) (k : List ℤ) : Prop := ∀ κ ∈ k, 2 * |κ| < (m : ℤ)

instance (m : ℕ) (k : List ℤ) : Decidable (inBand m k) := by unfold inBand; infer_instance

/-- the band-limit hypothesis of I4: every stored old mode with `2|k_d| ≥ m` on some axis vanishes -/
def BandLimitedN (D Nold m : ℕ) (u : Array ℂ) : Prop :=
  ∀ h, h < numModes D Nold → ¬ inBand m (wnFlat D Nold h) → (rfftnM D Nold u).getD h 0 = 0

/-- the DFT sum of `u` (on the `N^D` grid) at an arbitrary integer wavenumber vector `k` -/
noncomputable def specAt (D N : ℕ) (u : Array ℂ) (k : List ℤ) : ℂ :=
  ∑ x ∈ range (N ^ D), u.getD x 0 * twiddle N (phaseK D N k x)

theorem rfftnM_eq_specAt (D N : ℕ) (hN : 0 < N) (u : Array ℂ) (h : ℕ) (hh : h < numModes D N) :
    (rfftnM D N u).getD h 0 = specAt D N u (wnFlat D N h) := rfftnM_getD D N hN u h hh

theorem oddball_of_inBand (N m : ℕ) (hm : m ≤ N) (k : List ℤ) (hk : inBand m k) : oddball N k = true := by
  by_cases he : N % 2 = 0
  · rw [oddball_even_iff N k he]
    intro kd hkd
    have := hk kd hkd
    generalize |kd| = a at this ⊢
    omega
  · exact oddball_odd N k (by omega)

theorem srcIndex_isSome_of_inBand (D Nold Nnew : ℕ) (hD : 0 < D) (ho : 2 ≤ Nold) (hn : 2 ≤ Nnew) (h' : ℕ)
    (hh : h' < numModes D Nnew) (hb : inBand (min Nold Nnew) (wnFlat D Nnew h')) :
    ∃ idx, srcIndex D Nold Nnew (unflatten (wavenumberShape D Nnew) h') = some idx := by
  rw [srcIndex_eq]
  have hall : ∀ d ∈ List.range D,
      (axisSrc D Nold Nnew (unflatten (wavenumberShape D Nnew) h') d).isSome = true := by
    intro d hd
    have hd' := List.mem_range.mp hd
    apply axisSrc_isSome D Nold Nnew ho hn _ d hd'
    · have := unflatten_getD_lt (wavenumberShape D Nnew) (wavenumberShape_pos D Nnew (by omega)) h' hh d
        (by rw [wavenumberShape_length D Nnew hD]; exact hd')
      rwa [wavenumberShape_getD D Nnew d hd'] at this
    · exact hb _ ((mem_wnVec D Nnew _ _).2 ⟨d, hd', rfl⟩)
  rw [if_pos hall]
  exact ⟨_, rfl⟩

/-- **the new half spectrum of a band-limited state** (any `D ≥ 1`, `min(N_old, N_new) ≥ 2`, both
    values of `oddballZero`): in-band coefficients are copied to the entry with the same wavenumber
    vector (times `(N_new/N_old)^D`), all other entries vanish -/
theorem mapSpectrum_bandlimited (D Nold Nnew : ℕ) (hD : 0 < D) (hm : 2 ≤ min Nold Nnew) (ob : Bool)
    (u : Array ℂ) (hbl : BandLimitedN D Nold (min Nold Nnew) u) (h' : ℕ) (hh : h' < numModes D Nnew) :
    (mapSpectrum D Nold Nnew ob (rfftnM D Nold u)).getD h' 0 =
      if inBand (min Nold Nnew) (wnFlat D Nnew h') then
        specAt D Nold u (wnFlat D Nnew h') / (Nold : ℂ) ^ D * (Nnew : ℂ) ^ D
      else 0 := by
  have ho : 2 ≤ Nold := by omega
  have hn : 2 ≤ Nnew := by omega
  rw [mapSpectrum_getD D Nold Nnew ob _ h' hh]
  have key : ∀ idx, srcIndex D Nold Nnew (unflatten (wavenumberShape D Nnew) h') = some idx →
      oldSpec D Nold Nnew ob (rfftnM D Nold u) (flatten (wavenumberShape D Nold) idx) =
        if inBand (min Nold Nnew) (wnFlat D Nnew h') then
          specAt D Nold u (wnFlat D Nnew h') / (Nold : ℂ) ^ D else 0 := by
    intro idx hs
    obtain ⟨hH, hk⟩ := srcIndex_some_spec D Nold Nnew hD ho hn h' hh idx hs
    unfold oldSpec
    rw [if_pos hH, hk]
    by_cases hb : inBand (min Nold Nnew) (wnFlat D Nnew h')
    · rw [if_pos hb, oddball_of_inBand Nold _ (by omega) _ hb, if_neg (by simp),
        rfftnM_eq_specAt D Nold (by omega) u _ hH, hk]
    · rw [if_neg hb]
      have hz := hbl _ hH (by rw [hk]; exact hb)
      rw [hz]
      split_ifs <;> simp
  by_cases hb : inBand (min Nold Nnew) (wnFlat D Nnew h')
  · rw [if_pos hb, oddball_of_inBand Nnew _ (by omega) _ hb, if_neg (by simp)]
    obtain ⟨idx, hs⟩ := srcIndex_isSome_of_inBand D Nold Nnew hD ho hn h' hh hb
    have := key idx hs
    rw [if_pos hb] at this
    rw [hs]
    simp only [this]
  · rw [if_neg hb]
    split_ifs with hc
    · rfl
    · cases hs : srcIndex D Nold Nnew (unflatten (wavenumberShape D Nnew) h') with
      | none => simp
      | some idx =>
        have := key idx hs
        rw [if_neg hb] at this
        simp only [this, zero_mul]

end Exponax.Interp
