import ExponaxModel.Proofs.InterpNDSum
/-
C15 support — I4: exactness of `map_between_resolutions` on band-limited states in any dimension.
-/
set_option linter.unusedVariables false
set_option linter.unusedSimpArgs false
namespace Exponax.Interp
open Exponax Exponax.Layout Exponax.Transform Exponax.DFT Finset

/-- c2r weight as a function of the wavenumber vector (valid strictly inside the band) -/
def bandWeight (D : ℕ) (k : List ℤ) : ℕ := if k.getD (D - 1) 0 = 0 then 1 else 2

theorem herm_weight_of_inBand (D N m : ℕ) (hD : 0 < D) (hN : 0 < N) (hmN : m ≤ N) (h : ℕ)
    (hh : h < numModes D N) (hb : inBand m (wnFlat D N h)) :
    herm_weight D N h = bandWeight D (wnFlat D N h) := by
  unfold herm_weight bandWeight
  simp only []
  have hk : (wnFlat D N h).getD (D - 1) 0
      = (((unflatten (wavenumberShape D N) h).getD (D - 1) 0 : ℕ) : ℤ) := by
    rw [wnFlat_getD D N h (D - 1) (by omega), wn_last D N _ (D - 1) (by omega)]
  have h2 : 2 * |(wnFlat D N h).getD (D - 1) 0| < (m : ℤ) := by
    apply hb
    rw [wnFlat_getD D N h (D - 1) (by omega)]
    exact (mem_wnVec D N _ _).2 ⟨D - 1, by omega, rfl⟩
  rw [hk, Nat.abs_cast] at h2
  rw [hk]
  congr 1
  apply propext
  constructor
  · rintro (h0 | ⟨_, h1⟩)
    · exact_mod_cast h0
    · exfalso; omega
  · intro h0
    left; exact_mod_cast h0

/-- **I4 (general-`D` exactness).**  `D ≥ 1`, `N_old ≠ N_new`, `m = min(N_old, N_new) ≥ 2`.  If the
    stored spectrum of `u` vanishes at every mode with `2|k_d| ≥ m` on some axis `d`, then
    `map_between_resolutions(u)` is the `FourierInterpolator` of `u` sampled on the new grid
    (up- and down-sampling, both values of `oddballZero`). -/
theorem mapBetween_nd_exact (D Nold Nnew : ℕ) (hD : 0 < D) (hne : Nold ≠ Nnew)
    (hm : 2 ≤ min Nold Nnew) (ob : Bool) (s : ℂ) (hs : s ≠ 0) (u : Array ℂ)
    (hbl : BandLimitedN D Nold (min Nold Nnew) u) (j : ℕ) (hj : j < Nnew ^ D) :
    (mapBetween D Nold Nnew ob u).getD j 0 = interpolate D Nold s u (gridPoint D Nnew s j) := by
  have hNo : 0 < Nold := by omega
  have hNn : 0 < Nnew := by omega
  have hNo' : ((Nold : ℂ) ^ D) ≠ 0 := pow_ne_zero _ (by exact_mod_cast hNo.ne')
  have hNn' : ((Nnew : ℂ) ^ D) ≠ 0 := pow_ne_zero _ (by exact_mod_cast hNn.ne')
  set m := min Nold Nnew with hmdef
  -- the common summand, as a function of the wavenumber vector
  let G : List ℤ → ℂ := fun k => (bandWeight D k : ℂ) *
    (((specAt D Nold u k * zeta Nnew ^ (-(phaseK D Nnew k j))).re : ℝ) : ℂ)
  have hL : (mapBetween D Nold Nnew ob u).getD j 0
      = (∑ h' ∈ range (numModes D Nnew),
          (if inBand m (wnFlat D Nnew h') then G (wnFlat D Nnew h') else 0)) / (Nold : ℂ) ^ D := by
    unfold mapBetween
    rw [if_neg hne, irfftnM_getD D Nnew hNn _ j hj, eq_div_iff hNo', div_mul_eq_mul_div,
      div_eq_iff (by exact_mod_cast (pow_pos hNn D).ne'), Finset.sum_mul, Finset.sum_mul]
    apply Finset.sum_congr rfl
    intro h' hh'
    have hh'' := Finset.mem_range.mp hh'
    rw [mapSpectrum_bandlimited D Nold Nnew hD hm ob u hbl h' hh'', twiddle_eq_zpow]
    by_cases hb : inBand m (wnFlat D Nnew h')
    · rw [if_pos hb, if_pos hb, herm_weight_of_inBand D Nnew m hD hNn (by omega) h' hh'' hb]
      show _ = (bandWeight D (wnFlat D Nnew h') : ℂ) *
        (((specAt D Nold u (wnFlat D Nnew h') * zeta Nnew ^ (-(phaseK D Nnew (wnFlat D Nnew h') j))).re : ℝ) : ℂ)
          * ((Nnew ^ D : ℕ) : ℂ)
      rw [show specAt D Nold u (wnFlat D Nnew h') / (Nold : ℂ) ^ D * (Nnew : ℂ) ^ D
            * zeta Nnew ^ (-(phaseK D Nnew (wnFlat D Nnew h') j))
          = ((((Nnew : ℝ) ^ D / (Nold : ℝ) ^ D : ℝ)) : ℂ)
            * (specAt D Nold u (wnFlat D Nnew h') * zeta Nnew ^ (-(phaseK D Nnew (wnFlat D Nnew h') j)))
          by push_cast; ring, Complex.re_ofReal_mul]
      push_cast
      field_simp
    · rw [if_neg hb, if_neg hb]
      simp
  have hR : interpolate D Nold s u (gridPoint D Nnew s j)
      = (∑ h ∈ range (numModes D Nold),
          (if inBand m (wnFlat D Nold h) then G (wnFlat D Nold h) else 0)) / (Nold : ℂ) ^ D := by
    rw [interpolate_eq D Nold hD hNo]
    congr 1
    apply Finset.sum_congr rfl
    intro h hh
    have hh' := Finset.mem_range.mp hh
    rw [exp_gridPoint D Nnew s hs]
    by_cases hb : inBand m (wnFlat D Nold h)
    · rw [if_pos hb, herm_weight_of_inBand D Nold m hD hNo (by omega) h hh' hb,
        rfftnM_eq_specAt D Nold hNo u h hh']
    · rw [if_neg hb, hbl h hh' hb]
      simp
  rw [hL, hR]
  obtain ⟨E, rfl⟩ : ∃ E, D = E + 1 := ⟨D - 1, by omega⟩
  rw [full_sum m Nnew hNn (by omega) (by omega) E G, full_sum m Nold hNo (by omega) (by omega) E G]

/-! ### reformulations of the band-limit hypothesis -/

theorem inBand_wnFlat_iff (D N m h : ℕ) :
    inBand m (wnFlat D N h) ↔ ∀ d, d < D → 2 * |(wnFlat D N h).getD d 0| < (m : ℤ) := by
  constructor
  · intro hb d hd
    apply hb
    rw [wnFlat_getD D N h d hd]
    exact (mem_wnVec D N _ _).2 ⟨d, hd, rfl⟩
  · intro hall κ hκ
    obtain ⟨d, hd, rfl⟩ := (mem_wnVec D N _ κ).1 hκ
    have := hall d hd
    rwa [wnFlat_getD D N h d hd] at this

/-- `BandLimitedN` says: every stored mode with `2|k_d| ≥ m` on SOME axis `d` vanishes -/
theorem bandLimitedN_iff (D Nold m : ℕ) (u : Array ℂ) :
    BandLimitedN D Nold m u ↔
      ∀ h, h < numModes D Nold → (∃ d, d < D ∧ (m : ℤ) ≤ 2 * |(wnFlat D Nold h).getD d 0|) →
        (rfftnM D Nold u).getD h 0 = 0 := by
  unfold BandLimitedN
  constructor
  · intro hbl h hh ⟨d, hd, hk⟩
    apply hbl h hh
    rw [inBand_wnFlat_iff]
    intro hall
    have := hall d hd
    omega
  · intro hbl h hh hnb
    apply hbl h hh
    rw [inBand_wnFlat_iff] at hnb
    by_contra hne
    apply hnb
    intro d hd
    by_contra hlt
    exact hne ⟨d, hd, by omega⟩

/-- in one dimension `BandLimitedN` is the hypothesis `BandLimited1` of I2 -/
theorem bandLimitedN_one_iff (Nold m : ℕ) (u : Array ℂ) :
    BandLimitedN 1 Nold m u ↔ BandLimited1 Nold m u := by
  unfold BandLimitedN BandLimited1
  have hiff : ∀ h : ℕ, inBand m (wnFlat 1 Nold h) ↔ 2 * h < m := by
    intro h
    rw [wnFlat_one]
    unfold inBand
    simp only [List.mem_singleton, forall_eq, Nat.abs_cast]
    omega
  constructor
  · intro hbl h hh hm
    exact hbl h (by rw [numModes_one]; omega) (by rw [hiff]; omega)
  · intro hbl h hh hnb
    rw [numModes_one] at hh
    rw [hiff] at hnb
    exact hbl h (by omega) (by omega)

end Exponax.Interp
