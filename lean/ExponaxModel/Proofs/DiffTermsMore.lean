import ExponaxModel.Proofs.DiffTermsConv
/-
C07 support — T1 for the remaining terms: `polynomial`, `general`, `leray` (linear), `projected3d` (with or without
injection), `cahnHilliard`, `reaction` (Gray–Scott and Belousov–Zhabotinsky kinetics).  Same scheme as `DiffTermsConv`:
the JVP in model vocabulary + one generic theorem per term.
-/
set_option linter.unusedVariables false
namespace Exponax.DiffTerms
open Exponax Exponax.Layout Exponax.Transform Exponax.Nonlin

section Congr
variable {X Y : Type} {R : (X → ℂ) → (Y → ℂ) → Prop}

/-- relations are insensitive to pointwise rewriting of the tangent … -/
theorem rel_congr_right {f : X → ℂ} {f' f'' : Y → ℂ} (h : R f f') (e : ∀ v, f' v = f'' v) : R f f'' := by
  have : f' = f'' := funext e
  rwa [← this]

/-- … and of the primal -/
theorem rel_congr_left {f g : X → ℂ} {f' : Y → ℂ} (h : R f f') (e : ∀ x, f x = g x) : R g f' := by
  have : f = g := funext e
  rwa [← this]

end Congr

theorem at2_tab2' (nc n : ℕ) (g : ℕ → ℕ → ℂ) (ch i : ℕ) (hc : ch < nc) (hi : i < n) : at2 (tab2 nc n g) ch i = g ch i := by
  unfold at2 tab2
  rw [tab_getD _ _ _ _ hc, tab_getD _ _ _ _ hi]

/-- re-tabulating a tabulated array is the identity -/
theorem at2_tab2_retab (nc n : ℕ) (g : ℕ → ℕ → ℂ) (ch i : ℕ) :
    at2 (tab2 nc n (fun a b => at2 (tab2 nc n g) a b)) ch i = at2 (tab2 nc n g) ch i := by
  by_cases hc : ch < nc
  · by_cases hi : i < n
    · rw [at2_tab2' _ _ _ _ _ hc hi]
    · unfold at2 tab2
      rw [tab_getD _ _ _ _ hc, tab_getD _ _ _ _ hc, tab_getD_of_le _ _ _ _ (not_lt.mp hi),
        tab_getD_of_le _ _ _ _ (not_lt.mp hi)]
  · unfold at2 tab2
    rw [tab_getD_of_le _ _ _ _ (not_lt.mp hc), tab_getD_of_le _ _ _ _ (not_lt.mp hc)]

/-! ### the tangents -/

/-- forward-mode AD of the Horner-like loop `polyEval`: state `(d acc, u^k, d(u^k))` -/
def polyEvalJvp (coeffs : List ℂ) (u du : ℂ) : ℂ :=
  (coeffs.foldl (fun (s : ℂ × ℂ × ℂ) co => (s.1 + co * s.2.2, s.2.1 * u, s.2.1 * du + s.2.2 * u)) (0, 1, 0)).1

/-- JVP of `polynomial`: `P(p'(u) · du)` -/
noncomputable def polynomialJvp (c : Cfg ℂ) (C : ℕ) (coeffs : List ℂ) (uh vh : MC ℂ) : MC ℂ :=
  let G := gridSize c
  let u : MC ℂ := tabC C (fun ch => nifft c (uh.getD ch #[]))
  let du : MC ℂ := tabC C (fun ch => nifft c (vh.getD ch #[]))
  tabC C (fun ch => nfft c (tab G (fun x => polyEvalJvp coeffs (at2 u ch x) (at2 du ch x))))

/-- JVP of `general`: the sum of the three JVPs -/
noncomputable def generalJvp (c : Cfg ℂ) (C : ℕ) (s0 s1 s2 : ℂ) (zeroFix : Bool) (uh vh : MC ℂ) : MC ℂ :=
  let M := modes c
  let a := polynomialJvp c C [0, 0, s0] uh vh
  let b := convectionJvp c C (-s1) true true uh vh
  let g := gradientNormJvp c C (-s2) zeroFix uh vh
  tab2 C M (fun ch h => at2 a ch h + at2 b ch h + at2 g ch h)

/-- JVP of `projected3d`: `Leray(P(u × curl dv + du × curl v))`; injections are constants -/
noncomputable def projected3dJvp (c : Cfg ℂ) (uh vh : MC ℂ) : MC ℂ :=
  let G := gridSize c
  let M := modes c
  let curlH : MC ℂ := tab2 3 M (fun i h =>
    proj3 (Gen.Misc.cross_product_3d (deriv c 0 h, deriv c 1 h, deriv c 2 h) (at2 uh 0 h, at2 uh 1 h, at2 uh 2 h)) i)
  let dcurlH : MC ℂ := tab2 3 M (fun i h =>
    proj3 (Gen.Misc.cross_product_3d (deriv c 0 h, deriv c 1 h, deriv c 2 h) (at2 vh 0 h, at2 vh 1 h, at2 vh 2 h)) i)
  let curl : MC ℂ := tabC 3 (fun i => nifft c (curlH.getD i #[]))
  let dcurl : MC ℂ := tabC 3 (fun i => nifft c (dcurlH.getD i #[]))
  let vel : MC ℂ := tabC 3 (fun i => nifft c (uh.getD i #[]))
  let dvel : MC ℂ := tabC 3 (fun i => nifft c (vh.getD i #[]))
  let conv : MC ℂ := tab2 3 G (fun i x =>
    proj3 (Gen.Misc.cross_product_3d (at2 vel 0 x, at2 vel 1 x, at2 vel 2 x) (at2 dcurl 0 x, at2 dcurl 1 x, at2 dcurl 2 x)) i
    + proj3 (Gen.Misc.cross_product_3d (at2 dvel 0 x, at2 dvel 1 x, at2 dvel 2 x) (at2 curl 0 x, at2 curl 1 x, at2 curl 2 x)) i)
  let convH : MC ℂ := tabC 3 (fun i => nfft c (conv.getD i #[]))
  let proj := leray c convH
  tab2 3 M (fun i h => at2 proj i h)

/-- JVP of `cahnHilliard`: `scale · Δ̂ · P(3u² du)` (as `(u u) du + (u du + du u) u`) -/
noncomputable def cahnHilliardJvp (c : Cfg ℂ) (scale : ℂ) (uh vh : MC ℂ) : MC ℂ :=
  let G := gridSize c
  let M := modes c
  let u := nifft c (tab M (fun h => mask c h * at2 uh 0 h))
  let du := nifft c (tab M (fun h => mask c h * at2 vh 0 h))
  let cube := nfft c (tab G (fun x =>
    u.getD x 0 * u.getD x 0 * du.getD x 0 + (u.getD x 0 * du.getD x 0 + du.getD x 0 * u.getD x 0) * u.getD x 0))
  tab2 1 M (fun _ h => laplace c 2 h * cube.getD h 0 * scale)

/-- JVP of `reaction` for kinetics with pointwise JVP `reactJ (values) (tangent values)` -/
noncomputable def reactionJvp (c : Cfg ℂ) (C : ℕ) (reactJ : List ℂ → List ℂ → List ℂ) (uh vh : MC ℂ) : MC ℂ :=
  let G := gridSize c
  let M := modes c
  let u : MC ℂ := tabC C (fun ch => nifft c (tab M (fun h => mask c h * at2 uh ch h)))
  let du : MC ℂ := tabC C (fun ch => nifft c (tab M (fun h => mask c h * at2 vh ch h)))
  let r : MC ℂ := tab2 C G (fun ch x =>
    (reactJ ((List.range C).map (fun k => at2 u k x)) ((List.range C).map (fun k => at2 du k x))).getD ch 0)
  tabC C (fun ch => nfft c (r.getD ch #[]))

/-- pointwise JVP of the Gray–Scott kinetics: `[−f·da − (da·b² + 2ab·db), −(f+k)·db + (da·b² + 2ab·db)]` -/
def grayScottReactJvp (feed kill : ℂ) (u du : List ℂ) : List ℂ :=
  let a := u.getD 0 0; let b := u.getD 1 0
  let da := du.getD 0 0; let db := du.getD 1 0
  [-(feed * da) - (da * (b * b) + 2 * (a * b) * db), -(feed + kill) * db + (da * (b * b) + 2 * (a * b) * db)]

/-- pointwise JVP of the BZ kinetics -/
def bzReactJvp (u du : List ℂ) : List ℂ :=
  let a := u.getD 0 0; let b := u.getD 1 0
  let da := du.getD 0 0; let db := du.getD 1 0; let dd := du.getD 2 0
  [da + db - (a * db + da * b) - 2 * a * da, dd - db - (a * db + da * b), da - dd]

/-! ### the generic theorems -/

section Generic
variable {X Y : Type} {R : (X → ℂ) → (Y → ℂ) → Prop} {u : X}

/-- the Horner loop, pointwise -/
theorem polyEval_rel (hR : FunAlg₂ R u) (cs : List ℂ) {g : X → ℂ} {g' : Y → ℂ} (hg : R g g') :
    R (fun x => polyEval cs (g x)) (fun v => polyEvalJvp cs (g u) (g' v)) := by
  have hM := hR.toFunMod₂
  have key : ∀ (cs : List ℂ) (acc pw : X → ℂ) (dacc dpw : Y → ℂ), R acc dacc → R pw dpw →
      R (fun x => (cs.foldl (fun (a : ℂ × ℂ) co => (a.1 + co * a.2, a.2 * g x)) (acc x, pw x)).1)
        (fun v => (cs.foldl (fun (s : ℂ × ℂ × ℂ) co =>
          (s.1 + co * s.2.2, s.2.1 * g u, s.2.1 * g' v + s.2.2 * g u)) (dacc v, pw u, dpw v)).1) := by
    intro cs
    induction cs with
    | nil => intro acc pw dacc dpw h1 h2; simpa only [List.foldl_nil] using h1
    | cons co rest ih =>
      intro acc pw dacc dpw h1 h2
      simp only [List.foldl_cons]
      exact ih (fun x => acc x + co * pw x) (fun x => pw x * g x) (fun v => dacc v + co * dpw v)
        (fun v => pw u * g' v + dpw v * g u) (hM.add h1 (hM.smul co h2)) (hR.mul h2 hg)
  exact key cs (fun _ => 0) (fun _ => 1) (fun _ => 0) (fun _ => 0) hM.zero (hR.const 1)

/-- **polynomial** -/
theorem polynomial_rel (hR : FunAlg₂ R u) (c : Cfg ℂ) (C : ℕ) (coeffs : List ℂ)
    {f : X → MC ℂ} {f' : Y → MC ℂ} (hf : RelM R f f') :
    RelM R (fun x => polynomial c C coeffs (f x)) (fun v => polynomialJvp c C coeffs (f u) (f' v)) := by
  have hM := hR.toFunMod₂
  intro ch h
  simp only [polynomial, polynomialJvp]
  refine hM.tabC_rel _ _ _ (fun ch _ h => hM.nfft_rel c _ _ (fun x => ?_) h) ch h
  refine hM.tab_rel _ _ _ (fun x _ => ?_) x
  exact polyEval_rel hR coeffs (phys_rel hM c C hf ch x)

/-- **general** -/
theorem general_rel (hR : FunAlg₂ R u) (c : Cfg ℂ) (C : ℕ) (s0 s1 s2 : ℂ) (zeroFix : Bool)
    {f : X → MC ℂ} {f' : Y → MC ℂ} (hf : RelM R f f') :
    RelM R (fun x => general c C s0 s1 s2 zeroFix (f x)) (fun v => generalJvp c C s0 s1 s2 zeroFix (f u) (f' v)) := by
  have hM := hR.toFunMod₂
  intro ch h
  simp only [general, generalJvp]
  refine hM.tab2_rel _ _ _ _ (fun ch _ h _ => ?_) ch h
  exact hM.add (hM.add (polynomial_rel hR c C _ hf ch h) (convection_rel hR c C _ true true hf ch h))
    (gradientNorm_rel hR c C _ zeroFix hf ch h)

/-- **leray** is linear: it carries every `FunMod₂` relation, the tangent being `leray` itself -/
theorem leray_rel (hM : FunMod₂ R) (c : Cfg ℂ) {f : X → MC ℂ} {f' : Y → MC ℂ} (hf : RelM R f f') :
    RelM R (fun x => leray c (f x)) (fun v => leray c (f' v)) := by
  intro ch h
  simp only [leray]
  refine hM.tab2_rel _ _ _ _ (fun d _ h _ => hM.add (hf d h) (hM.smul _ ?_)) ch h
  refine hM.tab_rel _ _ _ (fun h _ => hM.smul _ ?_) h
  exact hM.tab_rel _ _ _ (fun h _ => hM.sumList_range _ _ _ (fun d _ => hM.smul _ (hf d h))) h

/-- the three components of a pointwise cross product `a × b` with the product rule -/
theorem cross_rel (hR : FunAlg₂ R u) {a0 a1 a2 b0 b1 b2 : X → ℂ} {a0' a1' a2' b0' b1' b2' : Y → ℂ}
    (ha0 : R a0 a0') (ha1 : R a1 a1') (ha2 : R a2 a2') (hb0 : R b0 b0') (hb1 : R b1 b1') (hb2 : R b2 b2') (i : ℕ) :
    R (fun x => proj3 (Gen.Misc.cross_product_3d (a0 x, a1 x, a2 x) (b0 x, b1 x, b2 x)) i)
      (fun v => proj3 (Gen.Misc.cross_product_3d (a0 u, a1 u, a2 u) (b0' v, b1' v, b2' v)) i
        + proj3 (Gen.Misc.cross_product_3d (a0' v, a1' v, a2' v) (b0 u, b1 u, b2 u)) i) := by
  have hM := hR.toFunMod₂
  by_cases h0 : i = 0
  · subst h0
    refine rel_congr_right (hM.sub (hR.mul ha1 hb2) (hR.mul ha2 hb1)) (fun v => ?_)
    simp only [proj3, Gen.Misc.cross_product_3d, if_true]; ring
  · by_cases h1 : i = 1
    · subst h1
      refine rel_congr_right (hM.sub (hR.mul ha2 hb0) (hR.mul ha0 hb2)) (fun v => ?_)
      simp only [proj3, Gen.Misc.cross_product_3d, if_true, one_ne_zero, if_false]; ring
    · refine rel_congr_right (rel_congr_left (hM.sub (hR.mul ha0 hb1) (hR.mul ha1 hb0)) (fun x => ?_)) (fun v => ?_)
      · simp only [proj3, Gen.Misc.cross_product_3d, h0, h1, if_false]
      · simp only [proj3, Gen.Misc.cross_product_3d, h0, h1, if_false]; ring

/-- the cross product with a fixed first factor is linear -/
theorem cross_const_rel (hM : FunMod₂ R) (k0 k1 k2 : ℂ) {b0 b1 b2 : X → ℂ} {b0' b1' b2' : Y → ℂ}
    (hb0 : R b0 b0') (hb1 : R b1 b1') (hb2 : R b2 b2') (i : ℕ) :
    R (fun x => proj3 (Gen.Misc.cross_product_3d (k0, k1, k2) (b0 x, b1 x, b2 x)) i)
      (fun v => proj3 (Gen.Misc.cross_product_3d (k0, k1, k2) (b0' v, b1' v, b2' v)) i) := by
  by_cases h0 : i = 0
  · subst h0
    simp only [proj3, Gen.Misc.cross_product_3d, if_true]
    exact hM.sub (hM.smul _ hb2) (hM.smul _ hb1)
  · by_cases h1 : i = 1
    · subst h1
      simp only [proj3, Gen.Misc.cross_product_3d, if_true, one_ne_zero, if_false]
      exact hM.sub (hM.smul _ hb0) (hM.smul _ hb2)
    · simp only [proj3, Gen.Misc.cross_product_3d, h0, h1, if_false]
      exact hM.sub (hM.smul _ hb1) (hM.smul _ hb0)

/-- the constant the Kolmogorov injection adds to entry `(i, h)` -/
noncomputable def injConst3d (c : Cfg ℂ) (inj : Option (ℕ × ℂ)) (i h : ℕ) : ℂ :=
  match inj with
  | none => 0
  | some (m, gam) =>
    let k := wnFlat c.D c.N h
    let amp := gam * scaling c.D c.N 2 (unflatten (wavenumberShape c.D c.N) h)
    if i = 0 && k.getD 0 0 == 0 && k.getD 2 0 == 0 && k.getD 1 0 == (m : Int) then -(HasI.I) * amp
    else if i = 0 && k.getD 0 0 == 0 && k.getD 2 0 == 0 && k.getD 1 0 == -(m : Int) then HasI.I * amp
    else 0

/-- `projected3d` with an injection = `projected3d` without + a constant array -/
theorem projected3d_inj (c : Cfg ℂ) (inj : Option (ℕ × ℂ)) (uh : MC ℂ) :
    projected3d c inj uh
      = tab2 3 (modes c) (fun i h => at2 (projected3d c none uh) i h + injConst3d c inj i h) := by
  unfold projected3d
  refine NonlinFunsEq.tab2_congr' (fun i hi h hh => ?_)
  rw [at2_tab2' _ _ _ _ _ hi hh]
  cases inj with
  | none => simp only [injConst3d, add_zero]
  | some mg =>
    obtain ⟨m, gam⟩ := mg
    simp only [injConst3d]
    split_ifs <;> rfl

/-- **projected3d**, no injection -/
theorem projected3d_none_rel (hR : FunAlg₂ R u) (c : Cfg ℂ)
    {f : X → MC ℂ} {f' : Y → MC ℂ} (hf : RelM R f f') :
    RelM R (fun x => projected3d c none (f x)) (fun v => projected3dJvp c (f u) (f' v)) := by
  have hM := hR.toFunMod₂
  intro ch h
  simp only [projected3d, projected3dJvp]
  refine hM.tab2_rel _ _ _ _ (fun i _ h _ => ?_) ch h
  refine leray_rel hM c (fun i h => ?_) i h
  refine hM.tabC_rel _ _ _ (fun i _ h => hM.nfft_rel c _ _ (fun x => ?_) h) i h
  refine hM.tab2_rel _ _ _ _ (fun i _ x _ => ?_) i x
  have hcurl : ∀ k x, R
      (fun y => at2 (tabC 3 (fun i => nifft c ((tab2 3 (modes c) (fun i h => proj3 (Gen.Misc.cross_product_3d
            (deriv c 0 h, deriv c 1 h, deriv c 2 h) (at2 (f y) 0 h, at2 (f y) 1 h, at2 (f y) 2 h)) i)).getD i #[]))) k x)
      (fun v => at2 (tabC 3 (fun i => nifft c ((tab2 3 (modes c) (fun i h => proj3 (Gen.Misc.cross_product_3d
            (deriv c 0 h, deriv c 1 h, deriv c 2 h) (at2 (f' v) 0 h, at2 (f' v) 1 h, at2 (f' v) 2 h)) i)).getD i #[]))) k x) := by
    intro k x
    refine hM.tabC_rel _ _ _ (fun i _ x => hM.nifft_rel c _ _ (fun m => ?_) x) k x
    exact hM.tab2_rel _ _ _ _ (fun i _ h _ => cross_const_rel hM _ _ _ (hf 0 h) (hf 1 h) (hf 2 h) i) i m
  exact cross_rel hR (phys_rel hM c 3 hf 0 x) (phys_rel hM c 3 hf 1 x) (phys_rel hM c 3 hf 2 x)
    (hcurl 0 x) (hcurl 1 x) (hcurl 2 x) i

/-- **projected3d** (any injection) -/
theorem projected3d_rel (hR : FunAlg₂ R u) (c : Cfg ℂ) (inj : Option (ℕ × ℂ))
    {f : X → MC ℂ} {f' : Y → MC ℂ} (hf : RelM R f f') :
    RelM R (fun x => projected3d c inj (f x)) (fun v => projected3dJvp c (f u) (f' v)) := by
  have hM := hR.toFunMod₂
  intro ch h
  have e : (fun x => at2 (projected3d c inj (f x)) ch h)
      = fun x => at2 (tab2 3 (modes c) (fun i h => at2 (projected3d c none (f x)) i h + injConst3d c inj i h)) ch h :=
    funext fun x => by rw [projected3d_inj]
  rw [e]
  refine rel_congr_right (hM.tab2_rel 3 (modes c) _ (fun v i h => at2 (projected3dJvp c (f u) (f' v)) i h)
    (fun i _ h _ => ?_) ch h) (fun v => ?_)
  · have := hM.add (projected3d_none_rel hR c hf i h) (hR.const (injConst3d c inj i h))
    simpa only [add_zero] using this
  · exact at2_tab2_retab _ _ _ _ _

/-- **cahnHilliard** -/
theorem cahnHilliard_rel (hR : FunAlg₂ R u) (c : Cfg ℂ) (scale : ℂ)
    {f : X → MC ℂ} {f' : Y → MC ℂ} (hf : RelM R f f') :
    RelM R (fun x => cahnHilliard c scale (f x)) (fun v => cahnHilliardJvp c scale (f u) (f' v)) := by
  have hM := hR.toFunMod₂
  intro ch h
  simp only [cahnHilliard, cahnHilliardJvp]
  refine hM.tab2_rel _ _ _ _ (fun _ _ h _ => hM.mul_const _ (hM.smul _ ?_)) ch h
  refine hM.nfft_rel c _ _ (fun x => hM.tab_rel _ _ _ (fun x _ => ?_) x) h
  have hu := dphys_rel hM c (mask c) hf 0 x
  exact hR.mul (hR.mul hu hu) hu

/-- kinetics with a pointwise JVP -/
structure ReactCalc (C : ℕ) (react : List ℂ → List ℂ) (reactJ : List ℂ → List ℂ → List ℂ) : Prop where
  rel : ∀ {X Y : Type} (R : (X → ℂ) → (Y → ℂ) → Prop) (u : X), FunAlg₂ R u →
    ∀ (g : X → ℕ → ℂ) (g' : Y → ℕ → ℂ), (∀ k, R (fun x => g x k) (fun v => g' v k)) → ∀ ch,
      R (fun x => (react ((List.range C).map (g x))).getD ch 0)
        (fun v => (reactJ ((List.range C).map (g u)) ((List.range C).map (g' v))).getD ch 0)

/-- **reaction** -/
theorem reaction_rel (hR : FunAlg₂ R u) (c : Cfg ℂ) (C : ℕ) {react : List ℂ → List ℂ} {reactJ : List ℂ → List ℂ → List ℂ}
    (hreact : ReactCalc C react reactJ) {f : X → MC ℂ} {f' : Y → MC ℂ} (hf : RelM R f f') :
    RelM R (fun x => reaction c C react (f x)) (fun v => reactionJvp c C reactJ (f u) (f' v)) := by
  have hM := hR.toFunMod₂
  intro ch h
  simp only [reaction, reactionJvp]
  refine hM.tabC_rel _ _ _ (fun ch _ h => hM.nfft_rel c _ _ (fun x => ?_) h) ch h
  refine hM.tab2_rel _ _ _ _ (fun ch _ x _ => ?_) ch x
  exact hreact.rel R u hR
    (fun y k => at2 (tabC C (fun ch => nifft c (tab (modes c) (fun h => mask c h * at2 (f y) ch h)))) k x)
    (fun v k => at2 (tabC C (fun ch => nifft c (tab (modes c) (fun h => mask c h * at2 (f' v) ch h)))) k x)
    (fun k => hM.tabC_rel _ _ _ (fun ch _ x => dphys_rel hM c (mask c) hf ch x) k x) ch

/-- entry `i` of `(List.range C).map g` -/
theorem range_getD_rel (hM : FunMod₂ R) (C : ℕ) (g : X → ℕ → ℂ) (g' : Y → ℕ → ℂ)
    (hg : ∀ k, R (fun x => g x k) (fun v => g' v k)) (i : ℕ) :
    R (fun x => ((List.range C).map (g x)).getD i 0) (fun v => ((List.range C).map (g' v)).getD i 0) := by
  by_cases hi : i < C
  · refine rel_congr_right (rel_congr_left (hg i) (fun x => ?_)) (fun v => ?_) <;>
      simp [List.getD_eq_getElem?_getD, hi]
  · refine rel_congr_right (rel_congr_left hM.zero (fun x => ?_)) (fun v => ?_) <;>
      simp [List.getD_eq_getElem?_getD, not_lt.mp hi]

end Generic

/-- the Gray–Scott kinetics -/
theorem grayScott_reactCalc (C : ℕ) (feed kill : ℂ) :
    ReactCalc C (grayScottReact feed kill) (grayScottReactJvp feed kill) := by
  refine ⟨fun {X Y} R u hR g g' hg ch => ?_⟩
  have hM := hR.toFunMod₂
  have ha := range_getD_rel hM C g g' hg 0
  have hb := range_getD_rel hM C g g' hg 1
  have hab := hR.mul ha (hR.mul hb hb)
  have h0 := hM.sub (hM.smul feed (hM.sub (hR.const 1) ha)) hab
  have h1 := hM.add (hM.smul (-(feed + kill)) hb) hab
  match ch with
  | 0 =>
    refine rel_congr_right (rel_congr_left h0 (fun x => ?_)) (fun v => ?_)
    · simp only [grayScottReact, List.getD_cons_zero]
    · simp only [grayScottReactJvp, List.getD_cons_zero]; ring
  | 1 =>
    refine rel_congr_right (rel_congr_left h1 (fun x => ?_)) (fun v => ?_)
    · simp only [grayScottReact, List.getD_cons_succ, List.getD_cons_zero]
    · simp only [grayScottReactJvp, List.getD_cons_succ, List.getD_cons_zero]; ring
  | (k + 2) =>
    refine rel_congr_right (rel_congr_left hM.zero (fun x => ?_)) (fun v => ?_)
    · simp only [grayScottReact, List.getD_cons_succ, List.getD_nil]
    · simp only [grayScottReactJvp, List.getD_cons_succ, List.getD_nil]

/-- the Belousov–Zhabotinsky kinetics -/
theorem bz_reactCalc (C : ℕ) : ReactCalc C bzReact bzReactJvp := by
  refine ⟨fun {X Y} R u hR g g' hg ch => ?_⟩
  have hM := hR.toFunMod₂
  have ha := range_getD_rel hM C g g' hg 0
  have hb := range_getD_rel hM C g g' hg 1
  have hd := range_getD_rel hM C g g' hg 2
  have h0 := hM.sub (hM.sub (hM.add ha hb) (hR.mul ha hb)) (hR.mul ha ha)
  have h1 := hM.sub (hM.sub hd hb) (hR.mul ha hb)
  have h2 := hM.sub ha hd
  match ch with
  | 0 =>
    refine rel_congr_right (rel_congr_left h0 (fun x => ?_)) (fun v => ?_)
    · simp only [bzReact, List.getD_cons_zero]
    · simp only [bzReactJvp, List.getD_cons_zero]; ring
  | 1 =>
    refine rel_congr_right (rel_congr_left h1 (fun x => ?_)) (fun v => ?_)
    · simp only [bzReact, List.getD_cons_succ, List.getD_cons_zero]
    · simp only [bzReactJvp, List.getD_cons_succ, List.getD_cons_zero]
  | 2 =>
    refine rel_congr_right (rel_congr_left h2 (fun x => ?_)) (fun v => ?_)
    · simp only [bzReact, List.getD_cons_succ, List.getD_cons_zero]
    · simp only [bzReactJvp, List.getD_cons_succ, List.getD_cons_zero]
  | (k + 3) =>
    refine rel_congr_right (rel_congr_left hM.zero (fun x => ?_)) (fun v => ?_)
    · simp only [bzReact, List.getD_cons_succ, List.getD_nil]
    · simp only [bzReactJvp, List.getD_cons_succ, List.getD_nil]

end Exponax.DiffTerms
