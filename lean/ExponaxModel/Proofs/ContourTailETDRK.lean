import ExponaxModel.Proofs.ContourTailCoef
/-
C02 support — T4: every stored ETDRK coefficient of `Generated/Etdrk.lean` equals
`dt ×` the exact (entire) Cox–Matthews φ-combination at `z = λ·dt` up to the contour-rule tail

    ‖dt‖ · c · e^{max(0, Re z + R)} · q^M / (1 − q^M),    q = ‖r‖/R,   any R > ‖r‖,

with `c = Σ |a_j|/j!` for the combination `Σ a_j φ_j`.
 * `E?_coef_?_error`       : complex `dt, λ, r`; hypothesis: no contour node is `0`.
 * `E?_coef_?_error_real`  : real `dt, λ`, `r > 0`, EVEN `M` (nodes are then never `0`, any stiffness).
 * `E?_coef_?_error_stiff` : additionally `λ·dt ≤ 0`: growth factor `e^R`   (ETDRK1/2 coefficients).
 * `coef_errors_default`   : all coefficients, defaults `M = 16`, `r = 1` (with `R = 4`), `λ·dt ≤ 0`.
-/
set_option linter.unusedVariables false
namespace Exponax.ContourTail
open Exponax Exponax.Spec Exponax.Gen.Etdrk

/-- generic: coefficient whose integrand is `a₁φ₁ + a₂φ₂ + a₃φ₃` -/
theorem coef_error_lincomb (a1 a2 a3 coef dt z r : ℂ) (M : ℕ) (hM : 0 < M) (R : ℝ)
    (hrR : ‖r‖ < R) (g : ℂ → ℂ)
    (hcoef : coef = dt * contourMean (roots_of_unity M) r g z)
    (hg : ∀ w, g w = a1 * phi1 w + a2 * phi2 w + a3 * phi3 w)
    (hnz : ∀ ζ ∈ (roots_of_unity M : List ℂ), r * ζ + z ≠ 0) :
    ‖coef - dt * (a1 * phi1e z + a2 * phi2e z + a3 * phi3e z)‖
      ≤ ‖dt‖ * ((‖a1‖ + ‖a2‖ / 2 + ‖a3‖ / 6) * Real.exp (max 0 (z.re + R)) * (‖r‖ / R) ^ M
        / (1 - (‖r‖ / R) ^ M)) :=
  coef_error (‖a1‖ + ‖a2‖ / 2 + ‖a3‖ / 6) (by positivity) coef dt z r M hM R hrR g
    (fun w => a1 * phi1e w + a2 * phi2e w + a3 * phi3e w) hcoef
    (fun w hw => by rw [hg w, phi1e_of_ne w hw, phi2e_of_ne w hw, phi3e_of_ne w hw]) hnz
    (differentiable_lincomb a1 a2 a3) (norm_lincomb_le a1 a2 a3)

/-- generic: the half-step coefficient, integrand `φ₁(w/2)/2` -/
theorem coef_error_half (coef dt z r : ℂ) (M : ℕ) (hM : 0 < M) (R : ℝ) (hrR : ‖r‖ < R)
    (hcoef : coef = dt * contourMean (roots_of_unity M) r (fun w => phi1 (w / 2) / 2) z)
    (hnz : ∀ ζ ∈ (roots_of_unity M : List ℂ), r * ζ + z ≠ 0) :
    ‖coef - dt * (phi1e (z / 2) / 2)‖
      ≤ ‖dt‖ * (1 / 2 * Real.exp (max 0 (z.re + R)) * (‖r‖ / R) ^ M / (1 - (‖r‖ / R) ^ M)) :=
  coef_error (1 / 2) (by norm_num) coef dt z r M hM R hrR (fun w => phi1 (w / 2) / 2)
    (fun w => phi1e (w / 2) / 2) hcoef
    (fun w hw => by
      have : w / 2 ≠ 0 := div_ne_zero hw (by norm_num)
      simp only [phi1e_of_ne _ this]) hnz differentiable_half norm_half_le

/-- generic passage to real `dt, λ`, `r > 0`, even `M` -/
theorem real_of_complex (c : ℝ) (F : ℂ → ℂ → ℕ → ℂ → ℂ) (Φ : ℂ → ℂ)
    (hF : ∀ (dt lam r : ℂ) (M : ℕ), 0 < M → ∀ R : ℝ, ‖r‖ < R →
      (∀ ζ ∈ (roots_of_unity M : List ℂ), r * ζ + lam * dt ≠ 0) →
      ‖F dt lam M r - dt * Φ (lam * dt)‖ ≤ ‖dt‖ * (c * Real.exp (max 0 ((lam * dt).re + R))
        * (‖r‖ / R) ^ M / (1 - (‖r‖ / R) ^ M)))
    (dt lam r R : ℝ) (M : ℕ) (hM : 0 < M) (hev : M % 2 = 0) (hr : 0 < r) (hrR : r < R) :
    ‖F dt lam M r - dt * Φ ((lam : ℂ) * (dt : ℂ))‖
      ≤ |dt| * (c * Real.exp (max 0 (lam * dt + R)) * (r / R) ^ M / (1 - (r / R) ^ M)) := by
  rw [← real_bound_rewrite c dt lam r R M hr]
  exact hF dt lam r M hM R (by rwa [Complex.norm_real, Real.norm_eq_abs, abs_of_pos hr])
    (real_nodes_ne_zero M hM hev dt lam r hr)

/-! ## complex `dt, λ, r` -/

theorem E1_coef_1_error (dt lam r : ℂ) (M : ℕ) (hM : 0 < M) (R : ℝ) (hrR : ‖r‖ < R)
    (hnz : ∀ ζ ∈ (roots_of_unity M : List ℂ), r * ζ + lam * dt ≠ 0) :
    ‖E1_coef_1 dt lam M r - dt * (phi1e (lam * dt))‖
      ≤ ‖dt‖ * (Real.exp (max 0 ((lam * dt).re + R)) * (‖r‖ / R) ^ M
        / (1 - (‖r‖ / R) ^ M)) := by
  have h := coef_error_lincomb 1 0 0 _ dt (lam * dt) r M hM R hrR _ (C02_coef_E1_1 dt lam r M)
    (fun w => by ring) hnz
  have hc : ‖(1 : ℂ)‖ + ‖(0 : ℂ)‖ / 2 + ‖(0 : ℂ)‖ / 6 = 1 := by norm_num
  have he : (1 : ℂ) * phi1e (lam * dt) + 0 * phi2e (lam * dt) + 0 * phi3e (lam * dt)
      = phi1e (lam * dt) := by ring
  rw [hc, he, one_mul] at h
  exact h

theorem E2_coef_1_error (dt lam r : ℂ) (M : ℕ) (hM : 0 < M) (R : ℝ) (hrR : ‖r‖ < R)
    (hnz : ∀ ζ ∈ (roots_of_unity M : List ℂ), r * ζ + lam * dt ≠ 0) :
    ‖E2_coef_1 dt lam M r - dt * (phi1e (lam * dt))‖
      ≤ ‖dt‖ * (Real.exp (max 0 ((lam * dt).re + R)) * (‖r‖ / R) ^ M
        / (1 - (‖r‖ / R) ^ M)) := by
  have h := coef_error_lincomb 1 0 0 _ dt (lam * dt) r M hM R hrR _ (C02_coef_E2_1 dt lam r M)
    (fun w => by ring) hnz
  have hc : ‖(1 : ℂ)‖ + ‖(0 : ℂ)‖ / 2 + ‖(0 : ℂ)‖ / 6 = 1 := by norm_num
  have he : (1 : ℂ) * phi1e (lam * dt) + 0 * phi2e (lam * dt) + 0 * phi3e (lam * dt)
      = phi1e (lam * dt) := by ring
  rw [hc, he, one_mul] at h
  exact h

theorem E2_coef_2_error (dt lam r : ℂ) (M : ℕ) (hM : 0 < M) (R : ℝ) (hrR : ‖r‖ < R)
    (hnz : ∀ ζ ∈ (roots_of_unity M : List ℂ), r * ζ + lam * dt ≠ 0) :
    ‖E2_coef_2 dt lam M r - dt * (phi2e (lam * dt))‖
      ≤ ‖dt‖ * (1 / 2 * Real.exp (max 0 ((lam * dt).re + R)) * (‖r‖ / R) ^ M
        / (1 - (‖r‖ / R) ^ M)) := by
  have h := coef_error_lincomb 0 1 0 _ dt (lam * dt) r M hM R hrR _ (C02_coef_E2_2 dt lam r M)
    (fun w => by ring) hnz
  have hc : ‖(0 : ℂ)‖ + ‖(1 : ℂ)‖ / 2 + ‖(0 : ℂ)‖ / 6 = 1 / 2 := by norm_num
  have he : (0 : ℂ) * phi1e (lam * dt) + 1 * phi2e (lam * dt) + 0 * phi3e (lam * dt)
      = phi2e (lam * dt) := by ring
  rw [hc, he] at h
  exact h

theorem E3_coef_1_error (dt lam r : ℂ) (M : ℕ) (hM : 0 < M) (R : ℝ) (hrR : ‖r‖ < R)
    (hnz : ∀ ζ ∈ (roots_of_unity M : List ℂ), r * ζ + lam * dt ≠ 0) :
    ‖E3_coef_1 dt lam M r - dt * (phi1e ((lam * dt) / 2) / 2)‖
      ≤ ‖dt‖ * (1 / 2 * Real.exp (max 0 ((lam * dt).re + R)) * (‖r‖ / R) ^ M
        / (1 - (‖r‖ / R) ^ M)) := by
  exact coef_error_half _ dt (lam * dt) r M hM R hrR (C02_coef_E3_1 dt lam r M) hnz

theorem E3_coef_2_error (dt lam r : ℂ) (M : ℕ) (hM : 0 < M) (R : ℝ) (hrR : ‖r‖ < R)
    (hnz : ∀ ζ ∈ (roots_of_unity M : List ℂ), r * ζ + lam * dt ≠ 0) :
    ‖E3_coef_2 dt lam M r - dt * (phi1e (lam * dt))‖
      ≤ ‖dt‖ * (Real.exp (max 0 ((lam * dt).re + R)) * (‖r‖ / R) ^ M
        / (1 - (‖r‖ / R) ^ M)) := by
  have h := coef_error_lincomb 1 0 0 _ dt (lam * dt) r M hM R hrR _ (C02_coef_E3_2 dt lam r M)
    (fun w => by ring) hnz
  have hc : ‖(1 : ℂ)‖ + ‖(0 : ℂ)‖ / 2 + ‖(0 : ℂ)‖ / 6 = 1 := by norm_num
  have he : (1 : ℂ) * phi1e (lam * dt) + 0 * phi2e (lam * dt) + 0 * phi3e (lam * dt)
      = phi1e (lam * dt) := by ring
  rw [hc, he, one_mul] at h
  exact h

theorem E3_coef_3_error (dt lam r : ℂ) (M : ℕ) (hM : 0 < M) (R : ℝ) (hrR : ‖r‖ < R)
    (hnz : ∀ ζ ∈ (roots_of_unity M : List ℂ), r * ζ + lam * dt ≠ 0) :
    ‖E3_coef_3 dt lam M r - dt * (phi1e (lam * dt) - 3 * phi2e (lam * dt) + 4 * phi3e (lam * dt))‖
      ≤ ‖dt‖ * (19 / 6 * Real.exp (max 0 ((lam * dt).re + R)) * (‖r‖ / R) ^ M
        / (1 - (‖r‖ / R) ^ M)) := by
  have h := coef_error_lincomb 1 (-3) 4 _ dt (lam * dt) r M hM R hrR _ (C02_coef_E3_3 dt lam r M)
    (fun w => by ring) hnz
  have hc : ‖(1 : ℂ)‖ + ‖((-3) : ℂ)‖ / 2 + ‖(4 : ℂ)‖ / 6 = 19 / 6 := by norm_num
  have he : (1 : ℂ) * phi1e (lam * dt) + (-3) * phi2e (lam * dt) + 4 * phi3e (lam * dt)
      = phi1e (lam * dt) - 3 * phi2e (lam * dt) + 4 * phi3e (lam * dt) := by ring
  rw [hc, he] at h
  exact h

theorem E3_coef_4_error (dt lam r : ℂ) (M : ℕ) (hM : 0 < M) (R : ℝ) (hrR : ‖r‖ < R)
    (hnz : ∀ ζ ∈ (roots_of_unity M : List ℂ), r * ζ + lam * dt ≠ 0) :
    ‖E3_coef_4 dt lam M r - dt * (4 * phi2e (lam * dt) - 8 * phi3e (lam * dt))‖
      ≤ ‖dt‖ * (10 / 3 * Real.exp (max 0 ((lam * dt).re + R)) * (‖r‖ / R) ^ M
        / (1 - (‖r‖ / R) ^ M)) := by
  have h := coef_error_lincomb 0 4 (-8) _ dt (lam * dt) r M hM R hrR _ (C02_coef_E3_4 dt lam r M)
    (fun w => by ring) hnz
  have hc : ‖(0 : ℂ)‖ + ‖(4 : ℂ)‖ / 2 + ‖((-8) : ℂ)‖ / 6 = 10 / 3 := by norm_num
  have he : (0 : ℂ) * phi1e (lam * dt) + 4 * phi2e (lam * dt) + (-8) * phi3e (lam * dt)
      = 4 * phi2e (lam * dt) - 8 * phi3e (lam * dt) := by ring
  rw [hc, he] at h
  exact h

theorem E3_coef_5_error (dt lam r : ℂ) (M : ℕ) (hM : 0 < M) (R : ℝ) (hrR : ‖r‖ < R)
    (hnz : ∀ ζ ∈ (roots_of_unity M : List ℂ), r * ζ + lam * dt ≠ 0) :
    ‖E3_coef_5 dt lam M r - dt * (4 * phi3e (lam * dt) - phi2e (lam * dt))‖
      ≤ ‖dt‖ * (7 / 6 * Real.exp (max 0 ((lam * dt).re + R)) * (‖r‖ / R) ^ M
        / (1 - (‖r‖ / R) ^ M)) := by
  have h := coef_error_lincomb 0 (-1) 4 _ dt (lam * dt) r M hM R hrR _ (C02_coef_E3_5 dt lam r M)
    (fun w => by ring) hnz
  have hc : ‖(0 : ℂ)‖ + ‖((-1) : ℂ)‖ / 2 + ‖(4 : ℂ)‖ / 6 = 7 / 6 := by norm_num
  have he : (0 : ℂ) * phi1e (lam * dt) + (-1) * phi2e (lam * dt) + 4 * phi3e (lam * dt)
      = 4 * phi3e (lam * dt) - phi2e (lam * dt) := by ring
  rw [hc, he] at h
  exact h

theorem E4_coef_1_error (dt lam r : ℂ) (M : ℕ) (hM : 0 < M) (R : ℝ) (hrR : ‖r‖ < R)
    (hnz : ∀ ζ ∈ (roots_of_unity M : List ℂ), r * ζ + lam * dt ≠ 0) :
    ‖E4_coef_1 dt lam M r - dt * (phi1e ((lam * dt) / 2) / 2)‖
      ≤ ‖dt‖ * (1 / 2 * Real.exp (max 0 ((lam * dt).re + R)) * (‖r‖ / R) ^ M
        / (1 - (‖r‖ / R) ^ M)) := by
  exact coef_error_half _ dt (lam * dt) r M hM R hrR (C02_coef_E4_1 dt lam r M) hnz

theorem E4_coef_2_error (dt lam r : ℂ) (M : ℕ) (hM : 0 < M) (R : ℝ) (hrR : ‖r‖ < R)
    (hnz : ∀ ζ ∈ (roots_of_unity M : List ℂ), r * ζ + lam * dt ≠ 0) :
    ‖E4_coef_2 dt lam M r - dt * (phi1e ((lam * dt) / 2) / 2)‖
      ≤ ‖dt‖ * (1 / 2 * Real.exp (max 0 ((lam * dt).re + R)) * (‖r‖ / R) ^ M
        / (1 - (‖r‖ / R) ^ M)) := by
  exact coef_error_half _ dt (lam * dt) r M hM R hrR (C02_coef_E4_1 dt lam r M) hnz

theorem E4_coef_3_error (dt lam r : ℂ) (M : ℕ) (hM : 0 < M) (R : ℝ) (hrR : ‖r‖ < R)
    (hnz : ∀ ζ ∈ (roots_of_unity M : List ℂ), r * ζ + lam * dt ≠ 0) :
    ‖E4_coef_3 dt lam M r - dt * (phi1e ((lam * dt) / 2) / 2)‖
      ≤ ‖dt‖ * (1 / 2 * Real.exp (max 0 ((lam * dt).re + R)) * (‖r‖ / R) ^ M
        / (1 - (‖r‖ / R) ^ M)) := by
  exact coef_error_half _ dt (lam * dt) r M hM R hrR (C02_coef_E4_1 dt lam r M) hnz

theorem E4_coef_4_error (dt lam r : ℂ) (M : ℕ) (hM : 0 < M) (R : ℝ) (hrR : ‖r‖ < R)
    (hnz : ∀ ζ ∈ (roots_of_unity M : List ℂ), r * ζ + lam * dt ≠ 0) :
    ‖E4_coef_4 dt lam M r - dt * (phi1e (lam * dt) - 3 * phi2e (lam * dt) + 4 * phi3e (lam * dt))‖
      ≤ ‖dt‖ * (19 / 6 * Real.exp (max 0 ((lam * dt).re + R)) * (‖r‖ / R) ^ M
        / (1 - (‖r‖ / R) ^ M)) := by
  have h := coef_error_lincomb 1 (-3) 4 _ dt (lam * dt) r M hM R hrR _ (C02_coef_E4_4 dt lam r M)
    (fun w => by ring) hnz
  have hc : ‖(1 : ℂ)‖ + ‖((-3) : ℂ)‖ / 2 + ‖(4 : ℂ)‖ / 6 = 19 / 6 := by norm_num
  have he : (1 : ℂ) * phi1e (lam * dt) + (-3) * phi2e (lam * dt) + 4 * phi3e (lam * dt)
      = phi1e (lam * dt) - 3 * phi2e (lam * dt) + 4 * phi3e (lam * dt) := by ring
  rw [hc, he] at h
  exact h

theorem E4_coef_5_error (dt lam r : ℂ) (M : ℕ) (hM : 0 < M) (R : ℝ) (hrR : ‖r‖ < R)
    (hnz : ∀ ζ ∈ (roots_of_unity M : List ℂ), r * ζ + lam * dt ≠ 0) :
    ‖E4_coef_5 dt lam M r - dt * (phi2e (lam * dt) - 2 * phi3e (lam * dt))‖
      ≤ ‖dt‖ * (5 / 6 * Real.exp (max 0 ((lam * dt).re + R)) * (‖r‖ / R) ^ M
        / (1 - (‖r‖ / R) ^ M)) := by
  have h := coef_error_lincomb 0 1 (-2) _ dt (lam * dt) r M hM R hrR _ (C02_coef_E4_5 dt lam r M)
    (fun w => by ring) hnz
  have hc : ‖(0 : ℂ)‖ + ‖(1 : ℂ)‖ / 2 + ‖((-2) : ℂ)‖ / 6 = 5 / 6 := by norm_num
  have he : (0 : ℂ) * phi1e (lam * dt) + 1 * phi2e (lam * dt) + (-2) * phi3e (lam * dt)
      = phi2e (lam * dt) - 2 * phi3e (lam * dt) := by ring
  rw [hc, he] at h
  exact h

theorem E4_coef_6_error (dt lam r : ℂ) (M : ℕ) (hM : 0 < M) (R : ℝ) (hrR : ‖r‖ < R)
    (hnz : ∀ ζ ∈ (roots_of_unity M : List ℂ), r * ζ + lam * dt ≠ 0) :
    ‖E4_coef_6 dt lam M r - dt * (4 * phi3e (lam * dt) - phi2e (lam * dt))‖
      ≤ ‖dt‖ * (7 / 6 * Real.exp (max 0 ((lam * dt).re + R)) * (‖r‖ / R) ^ M
        / (1 - (‖r‖ / R) ^ M)) := by
  have h := coef_error_lincomb 0 (-1) 4 _ dt (lam * dt) r M hM R hrR _ (C02_coef_E4_6 dt lam r M)
    (fun w => by ring) hnz
  have hc : ‖(0 : ℂ)‖ + ‖((-1) : ℂ)‖ / 2 + ‖(4 : ℂ)‖ / 6 = 7 / 6 := by norm_num
  have he : (0 : ℂ) * phi1e (lam * dt) + (-1) * phi2e (lam * dt) + 4 * phi3e (lam * dt)
      = 4 * phi3e (lam * dt) - phi2e (lam * dt) := by ring
  rw [hc, he] at h
  exact h

/-! ## real `dt, λ`, `r > 0`, even `M`: no hypothesis on the nodes, any stiffness -/

theorem E1_coef_1_error_real (dt lam r R : ℝ) (M : ℕ) (hM : 0 < M) (hev : M % 2 = 0) (hr : 0 < r)
    (hrR : r < R) :
    ‖E1_coef_1 (dt : ℂ) (lam : ℂ) M (r : ℂ) - (dt : ℂ) * (phi1e ((lam : ℂ) * (dt : ℂ)))‖
      ≤ |dt| * (Real.exp (max 0 (lam * dt + R)) * (r / R) ^ M / (1 - (r / R) ^ M)) := by
  have h := real_of_complex (1) (fun dt lam M r => E1_coef_1 dt lam M r) (fun z => phi1e z)
    (fun dt lam r M hM R hrR hnz => by rw [one_mul]; exact E1_coef_1_error dt lam r M hM R hrR hnz)
    dt lam r R M hM hev hr hrR
  rw [one_mul] at h
  exact h

theorem E2_coef_1_error_real (dt lam r R : ℝ) (M : ℕ) (hM : 0 < M) (hev : M % 2 = 0) (hr : 0 < r)
    (hrR : r < R) :
    ‖E2_coef_1 (dt : ℂ) (lam : ℂ) M (r : ℂ) - (dt : ℂ) * (phi1e ((lam : ℂ) * (dt : ℂ)))‖
      ≤ |dt| * (Real.exp (max 0 (lam * dt + R)) * (r / R) ^ M / (1 - (r / R) ^ M)) := by
  have h := real_of_complex (1) (fun dt lam M r => E2_coef_1 dt lam M r) (fun z => phi1e z)
    (fun dt lam r M hM R hrR hnz => by rw [one_mul]; exact E2_coef_1_error dt lam r M hM R hrR hnz)
    dt lam r R M hM hev hr hrR
  rw [one_mul] at h
  exact h

theorem E2_coef_2_error_real (dt lam r R : ℝ) (M : ℕ) (hM : 0 < M) (hev : M % 2 = 0) (hr : 0 < r)
    (hrR : r < R) :
    ‖E2_coef_2 (dt : ℂ) (lam : ℂ) M (r : ℂ) - (dt : ℂ) * (phi2e ((lam : ℂ) * (dt : ℂ)))‖
      ≤ |dt| * (1 / 2 * Real.exp (max 0 (lam * dt + R)) * (r / R) ^ M / (1 - (r / R) ^ M)) := by
  have h := real_of_complex (1 / 2) (fun dt lam M r => E2_coef_2 dt lam M r) (fun z => phi2e z)
    (fun dt lam r M hM R hrR hnz => E2_coef_2_error dt lam r M hM R hrR hnz)
    dt lam r R M hM hev hr hrR
  exact h

theorem E3_coef_1_error_real (dt lam r R : ℝ) (M : ℕ) (hM : 0 < M) (hev : M % 2 = 0) (hr : 0 < r)
    (hrR : r < R) :
    ‖E3_coef_1 (dt : ℂ) (lam : ℂ) M (r : ℂ) - (dt : ℂ) * (phi1e (((lam : ℂ) * (dt : ℂ)) / 2) / 2)‖
      ≤ |dt| * (1 / 2 * Real.exp (max 0 (lam * dt + R)) * (r / R) ^ M / (1 - (r / R) ^ M)) := by
  have h := real_of_complex (1 / 2) (fun dt lam M r => E3_coef_1 dt lam M r) (fun z => phi1e (z / 2) / 2)
    (fun dt lam r M hM R hrR hnz => E3_coef_1_error dt lam r M hM R hrR hnz)
    dt lam r R M hM hev hr hrR
  exact h

theorem E3_coef_2_error_real (dt lam r R : ℝ) (M : ℕ) (hM : 0 < M) (hev : M % 2 = 0) (hr : 0 < r)
    (hrR : r < R) :
    ‖E3_coef_2 (dt : ℂ) (lam : ℂ) M (r : ℂ) - (dt : ℂ) * (phi1e ((lam : ℂ) * (dt : ℂ)))‖
      ≤ |dt| * (Real.exp (max 0 (lam * dt + R)) * (r / R) ^ M / (1 - (r / R) ^ M)) := by
  have h := real_of_complex (1) (fun dt lam M r => E3_coef_2 dt lam M r) (fun z => phi1e z)
    (fun dt lam r M hM R hrR hnz => by rw [one_mul]; exact E3_coef_2_error dt lam r M hM R hrR hnz)
    dt lam r R M hM hev hr hrR
  rw [one_mul] at h
  exact h

theorem E3_coef_3_error_real (dt lam r R : ℝ) (M : ℕ) (hM : 0 < M) (hev : M % 2 = 0) (hr : 0 < r)
    (hrR : r < R) :
    ‖E3_coef_3 (dt : ℂ) (lam : ℂ) M (r : ℂ) - (dt : ℂ) * (phi1e ((lam : ℂ) * (dt : ℂ)) - 3 * phi2e ((lam : ℂ) * (dt : ℂ)) + 4 * phi3e ((lam : ℂ) * (dt : ℂ)))‖
      ≤ |dt| * (19 / 6 * Real.exp (max 0 (lam * dt + R)) * (r / R) ^ M / (1 - (r / R) ^ M)) := by
  have h := real_of_complex (19 / 6) (fun dt lam M r => E3_coef_3 dt lam M r) (fun z => phi1e z - 3 * phi2e z + 4 * phi3e z)
    (fun dt lam r M hM R hrR hnz => E3_coef_3_error dt lam r M hM R hrR hnz)
    dt lam r R M hM hev hr hrR
  exact h

theorem E3_coef_4_error_real (dt lam r R : ℝ) (M : ℕ) (hM : 0 < M) (hev : M % 2 = 0) (hr : 0 < r)
    (hrR : r < R) :
    ‖E3_coef_4 (dt : ℂ) (lam : ℂ) M (r : ℂ) - (dt : ℂ) * (4 * phi2e ((lam : ℂ) * (dt : ℂ)) - 8 * phi3e ((lam : ℂ) * (dt : ℂ)))‖
      ≤ |dt| * (10 / 3 * Real.exp (max 0 (lam * dt + R)) * (r / R) ^ M / (1 - (r / R) ^ M)) := by
  have h := real_of_complex (10 / 3) (fun dt lam M r => E3_coef_4 dt lam M r) (fun z => 4 * phi2e z - 8 * phi3e z)
    (fun dt lam r M hM R hrR hnz => E3_coef_4_error dt lam r M hM R hrR hnz)
    dt lam r R M hM hev hr hrR
  exact h

theorem E3_coef_5_error_real (dt lam r R : ℝ) (M : ℕ) (hM : 0 < M) (hev : M % 2 = 0) (hr : 0 < r)
    (hrR : r < R) :
    ‖E3_coef_5 (dt : ℂ) (lam : ℂ) M (r : ℂ) - (dt : ℂ) * (4 * phi3e ((lam : ℂ) * (dt : ℂ)) - phi2e ((lam : ℂ) * (dt : ℂ)))‖
      ≤ |dt| * (7 / 6 * Real.exp (max 0 (lam * dt + R)) * (r / R) ^ M / (1 - (r / R) ^ M)) := by
  have h := real_of_complex (7 / 6) (fun dt lam M r => E3_coef_5 dt lam M r) (fun z => 4 * phi3e z - phi2e z)
    (fun dt lam r M hM R hrR hnz => E3_coef_5_error dt lam r M hM R hrR hnz)
    dt lam r R M hM hev hr hrR
  exact h

theorem E4_coef_1_error_real (dt lam r R : ℝ) (M : ℕ) (hM : 0 < M) (hev : M % 2 = 0) (hr : 0 < r)
    (hrR : r < R) :
    ‖E4_coef_1 (dt : ℂ) (lam : ℂ) M (r : ℂ) - (dt : ℂ) * (phi1e (((lam : ℂ) * (dt : ℂ)) / 2) / 2)‖
      ≤ |dt| * (1 / 2 * Real.exp (max 0 (lam * dt + R)) * (r / R) ^ M / (1 - (r / R) ^ M)) := by
  have h := real_of_complex (1 / 2) (fun dt lam M r => E4_coef_1 dt lam M r) (fun z => phi1e (z / 2) / 2)
    (fun dt lam r M hM R hrR hnz => E4_coef_1_error dt lam r M hM R hrR hnz)
    dt lam r R M hM hev hr hrR
  exact h

theorem E4_coef_2_error_real (dt lam r R : ℝ) (M : ℕ) (hM : 0 < M) (hev : M % 2 = 0) (hr : 0 < r)
    (hrR : r < R) :
    ‖E4_coef_2 (dt : ℂ) (lam : ℂ) M (r : ℂ) - (dt : ℂ) * (phi1e (((lam : ℂ) * (dt : ℂ)) / 2) / 2)‖
      ≤ |dt| * (1 / 2 * Real.exp (max 0 (lam * dt + R)) * (r / R) ^ M / (1 - (r / R) ^ M)) := by
  have h := real_of_complex (1 / 2) (fun dt lam M r => E4_coef_2 dt lam M r) (fun z => phi1e (z / 2) / 2)
    (fun dt lam r M hM R hrR hnz => E4_coef_2_error dt lam r M hM R hrR hnz)
    dt lam r R M hM hev hr hrR
  exact h

theorem E4_coef_3_error_real (dt lam r R : ℝ) (M : ℕ) (hM : 0 < M) (hev : M % 2 = 0) (hr : 0 < r)
    (hrR : r < R) :
    ‖E4_coef_3 (dt : ℂ) (lam : ℂ) M (r : ℂ) - (dt : ℂ) * (phi1e (((lam : ℂ) * (dt : ℂ)) / 2) / 2)‖
      ≤ |dt| * (1 / 2 * Real.exp (max 0 (lam * dt + R)) * (r / R) ^ M / (1 - (r / R) ^ M)) := by
  have h := real_of_complex (1 / 2) (fun dt lam M r => E4_coef_3 dt lam M r) (fun z => phi1e (z / 2) / 2)
    (fun dt lam r M hM R hrR hnz => E4_coef_3_error dt lam r M hM R hrR hnz)
    dt lam r R M hM hev hr hrR
  exact h

theorem E4_coef_4_error_real (dt lam r R : ℝ) (M : ℕ) (hM : 0 < M) (hev : M % 2 = 0) (hr : 0 < r)
    (hrR : r < R) :
    ‖E4_coef_4 (dt : ℂ) (lam : ℂ) M (r : ℂ) - (dt : ℂ) * (phi1e ((lam : ℂ) * (dt : ℂ)) - 3 * phi2e ((lam : ℂ) * (dt : ℂ)) + 4 * phi3e ((lam : ℂ) * (dt : ℂ)))‖
      ≤ |dt| * (19 / 6 * Real.exp (max 0 (lam * dt + R)) * (r / R) ^ M / (1 - (r / R) ^ M)) := by
  have h := real_of_complex (19 / 6) (fun dt lam M r => E4_coef_4 dt lam M r) (fun z => phi1e z - 3 * phi2e z + 4 * phi3e z)
    (fun dt lam r M hM R hrR hnz => E4_coef_4_error dt lam r M hM R hrR hnz)
    dt lam r R M hM hev hr hrR
  exact h

theorem E4_coef_5_error_real (dt lam r R : ℝ) (M : ℕ) (hM : 0 < M) (hev : M % 2 = 0) (hr : 0 < r)
    (hrR : r < R) :
    ‖E4_coef_5 (dt : ℂ) (lam : ℂ) M (r : ℂ) - (dt : ℂ) * (phi2e ((lam : ℂ) * (dt : ℂ)) - 2 * phi3e ((lam : ℂ) * (dt : ℂ)))‖
      ≤ |dt| * (5 / 6 * Real.exp (max 0 (lam * dt + R)) * (r / R) ^ M / (1 - (r / R) ^ M)) := by
  have h := real_of_complex (5 / 6) (fun dt lam M r => E4_coef_5 dt lam M r) (fun z => phi2e z - 2 * phi3e z)
    (fun dt lam r M hM R hrR hnz => E4_coef_5_error dt lam r M hM R hrR hnz)
    dt lam r R M hM hev hr hrR
  exact h

theorem E4_coef_6_error_real (dt lam r R : ℝ) (M : ℕ) (hM : 0 < M) (hev : M % 2 = 0) (hr : 0 < r)
    (hrR : r < R) :
    ‖E4_coef_6 (dt : ℂ) (lam : ℂ) M (r : ℂ) - (dt : ℂ) * (4 * phi3e ((lam : ℂ) * (dt : ℂ)) - phi2e ((lam : ℂ) * (dt : ℂ)))‖
      ≤ |dt| * (7 / 6 * Real.exp (max 0 (lam * dt + R)) * (r / R) ^ M / (1 - (r / R) ^ M)) := by
  have h := real_of_complex (7 / 6) (fun dt lam M r => E4_coef_6 dt lam M r) (fun z => 4 * phi3e z - phi2e z)
    (fun dt lam r M hM R hrR hnz => E4_coef_6_error dt lam r M hM R hrR hnz)
    dt lam r R M hM hev hr hrR
  exact h

/-! ## `λ·dt ≤ 0`: growth factor `e^R` (the form requested for C02; ETDRK1/2 coefficients) -/

theorem E1_coef_1_error_stiff (dt lam r R : ℝ) (M : ℕ) (hM : 0 < M) (hev : M % 2 = 0) (hr : 0 < r)
    (hrR : r < R) (hz : lam * dt ≤ 0) :
    ‖E1_coef_1 (dt : ℂ) (lam : ℂ) M (r : ℂ) - (dt : ℂ) * (phi1e ((lam : ℂ) * (dt : ℂ)))‖
      ≤ |dt| * (Real.exp R * (r / R) ^ M / (1 - (r / R) ^ M)) := by
  have h := E1_coef_1_error_real dt lam r R M hM hev hr hrR
  have h2 := stiff_bound_le (1) dt (lam * dt) r R M (by norm_num) hM hz hr hrR
  rw [one_mul, one_mul] at h2
  exact h.trans h2

theorem E2_coef_1_error_stiff (dt lam r R : ℝ) (M : ℕ) (hM : 0 < M) (hev : M % 2 = 0) (hr : 0 < r)
    (hrR : r < R) (hz : lam * dt ≤ 0) :
    ‖E2_coef_1 (dt : ℂ) (lam : ℂ) M (r : ℂ) - (dt : ℂ) * (phi1e ((lam : ℂ) * (dt : ℂ)))‖
      ≤ |dt| * (Real.exp R * (r / R) ^ M / (1 - (r / R) ^ M)) := by
  have h := E2_coef_1_error_real dt lam r R M hM hev hr hrR
  have h2 := stiff_bound_le (1) dt (lam * dt) r R M (by norm_num) hM hz hr hrR
  rw [one_mul, one_mul] at h2
  exact h.trans h2

theorem E2_coef_2_error_stiff (dt lam r R : ℝ) (M : ℕ) (hM : 0 < M) (hev : M % 2 = 0) (hr : 0 < r)
    (hrR : r < R) (hz : lam * dt ≤ 0) :
    ‖E2_coef_2 (dt : ℂ) (lam : ℂ) M (r : ℂ) - (dt : ℂ) * (phi2e ((lam : ℂ) * (dt : ℂ)))‖
      ≤ |dt| * (1 / 2 * Real.exp R * (r / R) ^ M / (1 - (r / R) ^ M)) := by
  have h := E2_coef_2_error_real dt lam r R M hM hev hr hrR
  have h2 := stiff_bound_le (1 / 2) dt (lam * dt) r R M (by norm_num) hM hz hr hrR
  exact h.trans h2

/-! ## numeric instance: the code's defaults `M = 16`, `r = 1` (take `R = 4`), `λ·dt ≤ 0` -/

/-- any bound of the T4 shape with `c ≤ 10/3`, `M = 16`, `r = 1`, `R = 4`, `z ≤ 0` is `< 5·10⁻⁸ |dt|` -/
theorem default_bound (X : ℂ) (c dt z : ℝ) (hc0 : 0 ≤ c) (hc : c ≤ 10 / 3) (hz : z ≤ 0)
    (h : ‖X‖ ≤ |dt| * (c * Real.exp (max 0 (z + 4)) * ((1 : ℝ) / 4) ^ 16
      / (1 - ((1 : ℝ) / 4) ^ 16))) : ‖X‖ ≤ |dt| * 5e-8 := by
  have h2 := stiff_bound_le c dt z 1 4 16 hc0 (by norm_num) hz (by norm_num) (by norm_num)
  refine (h.trans h2).trans (mul_le_mul_of_nonneg_left ?_ (abs_nonneg dt))
  have hT := tail_numeric
  have hT0 : 0 ≤ Real.exp 4 * ((1 : ℝ) / 4) ^ 16 / (1 - ((1 : ℝ) / 4) ^ 16) :=
    div_nonneg (by positivity) (by norm_num)
  calc c * Real.exp 4 * ((1 : ℝ) / 4) ^ 16 / (1 - ((1 : ℝ) / 4) ^ 16)
      = c * (Real.exp 4 * ((1 : ℝ) / 4) ^ 16 / (1 - ((1 : ℝ) / 4) ^ 16)) := by ring
    _ ≤ 10 / 3 * 1.3e-8 := mul_le_mul hc hT.le hT0 (by norm_num)
    _ ≤ 5e-8 := by norm_num

/-- the `E1` headline with its own constant: `e⁴ (1/4)^16/(1 − (1/4)^16) < 1.3·10⁻⁸ < 2·10⁻⁸` -/
theorem E1_coef_1_error_default (dt lam : ℝ) (hz : lam * dt ≤ 0) :
    ‖E1_coef_1 (dt : ℂ) (lam : ℂ) 16 1 - (dt : ℂ) * phi1e ((lam : ℂ) * (dt : ℂ))‖
      ≤ |dt| * 1.3e-8 := by
  have h := E1_coef_1_error_stiff dt lam 1 4 16 (by norm_num) (by norm_num) (by norm_num)
    (by norm_num) hz
  rw [Complex.ofReal_one] at h
  refine h.trans (mul_le_mul_of_nonneg_left ?_ (abs_nonneg dt))
  exact tail_numeric.le

/-- **all stored coefficients, code defaults.**  For real `λ, dt` with `λ·dt ≤ 0` and the defaults
`num_circle_points = 16`, `circle_radius = 1`, every stored ETDRK1–4 coefficient is within
`5·10⁻⁸ · |dt|` of `dt ×` its exact Cox–Matthews φ-combination (entire extension, so also at
`λ = 0`). -/
theorem coef_errors_default (dt lam : ℝ) (hz : lam * dt ≤ 0) :
    ‖E1_coef_1 (dt : ℂ) (lam : ℂ) 16 1 - (dt : ℂ) * (phi1e ((lam : ℂ) * (dt : ℂ)))‖ ≤ |dt| * 5e-8 ∧
    ‖E2_coef_1 (dt : ℂ) (lam : ℂ) 16 1 - (dt : ℂ) * (phi1e ((lam : ℂ) * (dt : ℂ)))‖ ≤ |dt| * 5e-8 ∧
    ‖E2_coef_2 (dt : ℂ) (lam : ℂ) 16 1 - (dt : ℂ) * (phi2e ((lam : ℂ) * (dt : ℂ)))‖ ≤ |dt| * 5e-8 ∧
    ‖E3_coef_1 (dt : ℂ) (lam : ℂ) 16 1 - (dt : ℂ) * (phi1e (((lam : ℂ) * (dt : ℂ)) / 2) / 2)‖ ≤ |dt| * 5e-8 ∧
    ‖E3_coef_2 (dt : ℂ) (lam : ℂ) 16 1 - (dt : ℂ) * (phi1e ((lam : ℂ) * (dt : ℂ)))‖ ≤ |dt| * 5e-8 ∧
    ‖E3_coef_3 (dt : ℂ) (lam : ℂ) 16 1 - (dt : ℂ) * (phi1e ((lam : ℂ) * (dt : ℂ)) - 3 * phi2e ((lam : ℂ) * (dt : ℂ)) + 4 * phi3e ((lam : ℂ) * (dt : ℂ)))‖ ≤ |dt| * 5e-8 ∧
    ‖E3_coef_4 (dt : ℂ) (lam : ℂ) 16 1 - (dt : ℂ) * (4 * phi2e ((lam : ℂ) * (dt : ℂ)) - 8 * phi3e ((lam : ℂ) * (dt : ℂ)))‖ ≤ |dt| * 5e-8 ∧
    ‖E3_coef_5 (dt : ℂ) (lam : ℂ) 16 1 - (dt : ℂ) * (4 * phi3e ((lam : ℂ) * (dt : ℂ)) - phi2e ((lam : ℂ) * (dt : ℂ)))‖ ≤ |dt| * 5e-8 ∧
    ‖E4_coef_1 (dt : ℂ) (lam : ℂ) 16 1 - (dt : ℂ) * (phi1e (((lam : ℂ) * (dt : ℂ)) / 2) / 2)‖ ≤ |dt| * 5e-8 ∧
    ‖E4_coef_2 (dt : ℂ) (lam : ℂ) 16 1 - (dt : ℂ) * (phi1e (((lam : ℂ) * (dt : ℂ)) / 2) / 2)‖ ≤ |dt| * 5e-8 ∧
    ‖E4_coef_3 (dt : ℂ) (lam : ℂ) 16 1 - (dt : ℂ) * (phi1e (((lam : ℂ) * (dt : ℂ)) / 2) / 2)‖ ≤ |dt| * 5e-8 ∧
    ‖E4_coef_4 (dt : ℂ) (lam : ℂ) 16 1 - (dt : ℂ) * (phi1e ((lam : ℂ) * (dt : ℂ)) - 3 * phi2e ((lam : ℂ) * (dt : ℂ)) + 4 * phi3e ((lam : ℂ) * (dt : ℂ)))‖ ≤ |dt| * 5e-8 ∧
    ‖E4_coef_5 (dt : ℂ) (lam : ℂ) 16 1 - (dt : ℂ) * (phi2e ((lam : ℂ) * (dt : ℂ)) - 2 * phi3e ((lam : ℂ) * (dt : ℂ)))‖ ≤ |dt| * 5e-8 ∧
    ‖E4_coef_6 (dt : ℂ) (lam : ℂ) 16 1 - (dt : ℂ) * (4 * phi3e ((lam : ℂ) * (dt : ℂ)) - phi2e ((lam : ℂ) * (dt : ℂ)))‖ ≤ |dt| * 5e-8 := by
  refine ⟨?_, ?_, ?_, ?_, ?_, ?_, ?_, ?_, ?_, ?_, ?_, ?_, ?_, ?_⟩
  · have h := E1_coef_1_error_real dt lam 1 4 16 (by norm_num) (by norm_num) (by norm_num) (by norm_num)
    rw [Complex.ofReal_one] at h
    exact default_bound _ 1 dt (lam * dt) (by norm_num) (by norm_num) hz (by rw [one_mul]; exact h)
  · have h := E2_coef_1_error_real dt lam 1 4 16 (by norm_num) (by norm_num) (by norm_num) (by norm_num)
    rw [Complex.ofReal_one] at h
    exact default_bound _ 1 dt (lam * dt) (by norm_num) (by norm_num) hz (by rw [one_mul]; exact h)
  · have h := E2_coef_2_error_real dt lam 1 4 16 (by norm_num) (by norm_num) (by norm_num) (by norm_num)
    rw [Complex.ofReal_one] at h
    exact default_bound _ (1 / 2) dt (lam * dt) (by norm_num) (by norm_num) hz h
  · have h := E3_coef_1_error_real dt lam 1 4 16 (by norm_num) (by norm_num) (by norm_num) (by norm_num)
    rw [Complex.ofReal_one] at h
    exact default_bound _ (1 / 2) dt (lam * dt) (by norm_num) (by norm_num) hz h
  · have h := E3_coef_2_error_real dt lam 1 4 16 (by norm_num) (by norm_num) (by norm_num) (by norm_num)
    rw [Complex.ofReal_one] at h
    exact default_bound _ 1 dt (lam * dt) (by norm_num) (by norm_num) hz (by rw [one_mul]; exact h)
  · have h := E3_coef_3_error_real dt lam 1 4 16 (by norm_num) (by norm_num) (by norm_num) (by norm_num)
    rw [Complex.ofReal_one] at h
    exact default_bound _ (19 / 6) dt (lam * dt) (by norm_num) (by norm_num) hz h
  · have h := E3_coef_4_error_real dt lam 1 4 16 (by norm_num) (by norm_num) (by norm_num) (by norm_num)
    rw [Complex.ofReal_one] at h
    exact default_bound _ (10 / 3) dt (lam * dt) (by norm_num) (by norm_num) hz h
  · have h := E3_coef_5_error_real dt lam 1 4 16 (by norm_num) (by norm_num) (by norm_num) (by norm_num)
    rw [Complex.ofReal_one] at h
    exact default_bound _ (7 / 6) dt (lam * dt) (by norm_num) (by norm_num) hz h
  · have h := E4_coef_1_error_real dt lam 1 4 16 (by norm_num) (by norm_num) (by norm_num) (by norm_num)
    rw [Complex.ofReal_one] at h
    exact default_bound _ (1 / 2) dt (lam * dt) (by norm_num) (by norm_num) hz h
  · have h := E4_coef_2_error_real dt lam 1 4 16 (by norm_num) (by norm_num) (by norm_num) (by norm_num)
    rw [Complex.ofReal_one] at h
    exact default_bound _ (1 / 2) dt (lam * dt) (by norm_num) (by norm_num) hz h
  · have h := E4_coef_3_error_real dt lam 1 4 16 (by norm_num) (by norm_num) (by norm_num) (by norm_num)
    rw [Complex.ofReal_one] at h
    exact default_bound _ (1 / 2) dt (lam * dt) (by norm_num) (by norm_num) hz h
  · have h := E4_coef_4_error_real dt lam 1 4 16 (by norm_num) (by norm_num) (by norm_num) (by norm_num)
    rw [Complex.ofReal_one] at h
    exact default_bound _ (19 / 6) dt (lam * dt) (by norm_num) (by norm_num) hz h
  · have h := E4_coef_5_error_real dt lam 1 4 16 (by norm_num) (by norm_num) (by norm_num) (by norm_num)
    rw [Complex.ofReal_one] at h
    exact default_bound _ (5 / 6) dt (lam * dt) (by norm_num) (by norm_num) hz h
  · have h := E4_coef_6_error_real dt lam 1 4 16 (by norm_num) (by norm_num) (by norm_num) (by norm_num)
    rw [Complex.ofReal_one] at h
    exact default_bound _ (7 / 6) dt (lam * dt) (by norm_num) (by norm_num) hz h

/-! ## the node hypothesis of the complex versions is satisfiable -/

/-- `‖z‖ ≠ ‖r‖` (e.g. `z = 0`, `r ≠ 0`) keeps all nodes away from `0` -/
theorem nodes_ne_zero_of_norm_ne (M : ℕ) (r z : ℂ) (h : ‖z‖ ≠ ‖r‖) :
    ∀ ζ ∈ (roots_of_unity M : List ℂ), r * ζ + z ≠ 0 := by
  intro ζ hζ
  obtain ⟨i, _, rfl⟩ := (mem_roots_iff M ζ).mp hζ
  exact C02_contour_avoids_zero M (i + 1) r z h

/-- non-vacuity (complex version): `λ = 0`, complex radius `r = i`, `R = 2` -/
example (dt : ℂ) : ‖E1_coef_1 dt 0 16 Complex.I - dt * phi1e (0 * dt)‖
    ≤ ‖dt‖ * (Real.exp (max 0 (((0 : ℂ) * dt).re + 2)) * (‖Complex.I‖ / 2) ^ 16
        / (1 - (‖Complex.I‖ / 2) ^ 16)) :=
  E1_coef_1_error dt 0 Complex.I 16 (by norm_num) 2 (by simp)
    (nodes_ne_zero_of_norm_ne 16 Complex.I (0 * dt) (by simp))

/-- non-vacuity (real version): a very stiff mode `λ·dt = −10⁶`, defaults, `R = 10⁶` -/
example : ‖E4_coef_4 ((1 : ℝ) : ℂ) ((-1e6 : ℝ) : ℂ) 16 ((1 : ℝ) : ℂ) - ((1 : ℝ) : ℂ) *
      (phi1e (((-1e6 : ℝ) : ℂ) * ((1 : ℝ) : ℂ)) - 3 * phi2e (((-1e6 : ℝ) : ℂ) * ((1 : ℝ) : ℂ))
        + 4 * phi3e (((-1e6 : ℝ) : ℂ) * ((1 : ℝ) : ℂ)))‖
    ≤ |(1 : ℝ)| * (19 / 6 * Real.exp (max 0 (-1e6 * 1 + 1e6)) * (1 / 1e6) ^ 16
        / (1 - (1 / 1e6) ^ 16)) :=
  E4_coef_4_error_real 1 (-1e6) 1 1e6 16 (by norm_num) (by norm_num) (by norm_num) (by norm_num)

end Exponax.ContourTail
