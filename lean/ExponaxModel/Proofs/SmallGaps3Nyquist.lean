import ExponaxModel.Proofs.SmallGaps2Nyquist
import ExponaxModel.Proofs.ReadOffSpectrum
import ExponaxModel.Proofs.ReadOffND
/-
SmallGaps3, part K2 (C17): amplitude / power read-off of `get_spectrum` (`Spectrum.spectrum`) INCLUDING Nyquist
wavenumbers (`C17_amplitude_readoff`, `C17_power_readoff` need `κ` strictly below Nyquist on every axis).

`u_j = a cos(2π κ·j/N + φ)`, `|κ_d| ≤ N/2` on every axis (`SmallGaps2.AtMostNyquist`), every `D ≥ 1`, every `N ≥ 1`,
`κ = 0` included.  What the model returns in bin `b ≤ N/2` (sum binning):

  amplitude:  `A`      if `κ ∈ bin b` (`b = round|κ|`), else `0`
  power:      `P`      if `κ ∈ bin b`,                    else `0`

  * `κ` self-conjugate (every component in `{0, ±N/2}`: the real-symmetric waves, among them `κ = 0`):
        `A = |a cos φ|`, `P = (a cos φ)²/2`      — the field IS `a cos φ · (±1)^{…}`, one stored mode of weight 1;
  * every other `κ` (Nyquist components or not): the documented values `A = |a|`, `P = a²/4`
        — one stored mode of weight 2, or two stored modes of weight 1 (`κ_last ∈ {0, ±N/2}`), at the canonical indices.

The bin test is the model's `inBin κ b` on `κ` itself (`|canonK κ| = |κ|`); a Nyquist `κ` outside the sphere
`|κ| < N/2 + ½` (e.g. `(N/2, N/2)`) is in NO bin `b ≤ N/2`, and then every bin is `0` — the formulas say exactly that.
The uniform reason: the stored copies of `±κ` carry total Hermitian weight `2` also with Nyquist components (`WsumC_eq_two`).
-/
set_option linter.unusedVariables false
namespace Exponax.SmallGaps3
open Exponax Exponax.Layout Exponax.Transform Exponax.DFT Exponax.ExactLinear Exponax.SmallGaps2 Exponax.ReadOff Finset
open Exponax.Spectrum (quantity)

/-! ### the stored representative has the same length -/

theorem canonC_sq (D N d : ℕ) (x : ℤ) : canonC D N d x ^ 2 = x ^ 2 := by
  unfold canonC
  split_ifs <;> ring

theorem normSq_canonK (D N : ℕ) (κ : List ℤ) (hκ : κ.length = D) : normSq (canonK D N κ) = normSq κ := by
  have h1 := kappaSq_eq_normSq (canonK D N κ)
  have h2 := kappaSq_eq_normSq κ
  rw [canonK_length] at h1
  rw [hκ] at h2
  rw [← h1, ← h2]
  unfold kappaSq
  apply Finset.sum_congr rfl
  intro d hd
  rw [canonK_getD D N κ d (Finset.mem_range.mp hd), canonC_sq]

theorem inBin_canonK (D N : ℕ) (κ : List ℤ) (hκ : κ.length = D) (b : ℕ) : inBin (canonK D N κ) b = inBin κ b := by
  unfold inBin
  rw [normSq_canonK D N κ hκ]

theorem inBin_canonK_negK (D N : ℕ) (κ : List ℤ) (hκ : κ.length = D) (b : ℕ) :
    inBin (canonK D N (negK κ)) b = inBin κ b := by
  rw [inBin_canonK D N (negK κ) (by rw [negK_length]; exact hκ), inBin_negK]

/-! ### total Hermitian weight of the stored copies of `±κ`, Nyquist components included -/

/-- the two indicators of the read-off `rfftnM_modeField_nyquist` -/
noncomputable def ind2 (D N : ℕ) (κ : List ℤ) (h : ℕ) : ℂ :=
  (if wnFlat D N h = canonK D N κ then 1 else 0) + (if wnFlat D N h = canonK D N (negK κ) then 1 else 0)

noncomputable def WsumC (D N : ℕ) (κ : List ℤ) : ℂ :=
  ∑ h ∈ range (numModes D N), (herm_weight D N h : ℂ) * ind2 D N κ h

/-- **total weight 2**, every `κ` with `|κ_d| ≤ N/2` (one mode of weight 2; or two modes of weight 1; or — self-conjugate
    `κ` — ONE mode of weight 1 counted by both indicators) -/
theorem WsumC_eq_two (D N : ℕ) (hD : 0 < D) (hN : 0 < N) (κ : List ℤ) (hκ : AtMostNyquist D N κ) :
    WsumC D N κ = 2 := by
  have hpos : 0 < N ^ D := pow_pos hN D
  have hNne : ((N ^ D : ℕ) : ℂ) ≠ 0 := by exact_mod_cast hpos.ne'
  have h := irfftn_rfftn D N hD hN (modeField D N κ 1 0) (modeField_real D N κ 1 0) 0 hpos
  rw [irfftnM_getD D N hN _ 0 hpos, modeField_getD D N κ 1 0 0 hpos, phaseK_zero_point] at h
  have hterm : ∀ h ∈ range (numModes D N),
      (herm_weight D N h : ℂ) * (((((rfftnM D N (modeField D N κ 1 0)).getD h 0
        * twiddle N (-(phaseK D N (wnFlat D N h) 0))).re : ℝ)) : ℂ)
      = (((N ^ D : ℕ) : ℂ) / 2) * ((herm_weight D N h : ℂ) * ind2 D N κ h) := by
    intro h hh
    rw [phaseK_zero_point, neg_zero, twiddle_eq_zpow, zpow_zero, mul_one,
      rfftnM_modeField_nyquist D N hD hN κ hκ 1 0 h (Finset.mem_range.mp hh)]
    have e1 : (((1 : ℝ) : ℂ) / 2) * ((N ^ D : ℕ) : ℂ) * Complex.exp (((0 : ℝ) : ℂ) * Complex.I)
        = ((((N ^ D : ℕ) : ℝ) / 2 : ℝ) : ℂ) := by simp; ring
    have e2 : (((1 : ℝ) : ℂ) / 2) * ((N ^ D : ℕ) : ℂ) * Complex.exp (-(((0 : ℝ) : ℂ) * Complex.I))
        = ((((N ^ D : ℕ) : ℝ) / 2 : ℝ) : ℂ) := by simp; ring
    rw [e1, e2]
    unfold ind2
    split_ifs <;> simp only [Complex.add_re, Complex.ofReal_re, Complex.zero_re, add_zero, zero_add] <;> push_cast <;> ring
  rw [Finset.sum_congr rfl hterm, ← Finset.mul_sum] at h
  have h' : ((N ^ D : ℕ) : ℂ) / 2 * WsumC D N κ = ((N ^ D : ℕ) : ℂ) := by
    rw [div_eq_iff hNne] at h
    unfold WsumC
    rw [h]
    simp
  have h'' : ((N ^ D : ℕ) : ℂ) * WsumC D N κ = ((N ^ D : ℕ) : ℂ) * 2 := by linear_combination 2 * h'
  exact mul_left_cancel₀ hNne h''

/-! ### generic read-off from the norms of the stored coefficients -/

/-- amplitude: if `|û_h| = (A/2)·N^D·([k(h) = canonK κ] + [k(h) = canonK(−κ)])` then bin `b` holds `A` iff `κ ∈ bin b` -/
theorem spectrum_amplitude_of_norm (D N : ℕ) (hD : 1 ≤ D) (hN : 0 < N) (κ : List ℤ) (hκ : AtMostNyquist D N κ)
    (u : Array ℂ) (A : ℝ)
    (hnorm : ∀ h < numModes D N, ((‖(rfftnM D N u).getD h 0‖ : ℝ) : ℂ) = (A : ℂ) / 2 * ((N : ℂ) ^ D) * ind2 D N κ h)
    (b : ℕ) (hb : b < N / 2 + 1) :
    (Spectrum.spectrum D N false false u).getD b 0 = if inBin κ b = true then (A : ℂ) else 0 := by
  rw [spectrum_getD_sum D N hD false _ b hb]
  have hNne : ((N : ℂ)) ^ D ≠ 0 := pow_ne_zero _ (Nat.cast_ne_zero.mpr hN.ne')
  have hterm : ∀ h ∈ range (numModes D N),
      (if inBin (wnFlat D N h) b = true then quantity D N false (rfftnM D N u) h else 0)
        = (if inBin κ b = true then (A : ℂ) / 2 else 0) * ((herm_weight D N h : ℂ) * ind2 D N κ h) := by
    intro h hh
    have hh' := Finset.mem_range.mp hh
    rw [quantity_amp D N hD hN _ h hh', hnorm h hh']
    by_cases hA : wnFlat D N h = canonK D N κ
    · have e : inBin (wnFlat D N h) b = inBin κ b := by rw [hA, inBin_canonK D N κ hκ.1]
      rw [e]
      split_ifs
      · field_simp
      · ring
    · by_cases hB : wnFlat D N h = canonK D N (negK κ)
      · have e : inBin (wnFlat D N h) b = inBin κ b := by rw [hB, inBin_canonK_negK D N κ hκ.1]
        rw [e]
        split_ifs
        · field_simp
        · ring
      · have z : ind2 D N κ h = 0 := by unfold ind2; rw [if_neg hA, if_neg hB, add_zero]
        rw [z]
        split_ifs <;> simp
  rw [Finset.sum_congr rfl hterm, ← Finset.mul_sum]
  have := WsumC_eq_two D N hD hN κ hκ
  unfold WsumC at this
  rw [this]
  split_ifs <;> ring

/-- power: the same with the weighted sum of the SQUARED indicator `q = Σ_h w_h·ind_h²` (`2`, or `4` when self-conjugate) -/
theorem spectrum_power_of_norm (D N : ℕ) (hD : 1 ≤ D) (hN : 0 < N) (κ : List ℤ) (hκ : AtMostNyquist D N κ)
    (u : Array ℂ) (A : ℝ)
    (hnorm : ∀ h < numModes D N, ((‖(rfftnM D N u).getD h 0‖ : ℝ) : ℂ) = (A : ℂ) / 2 * ((N : ℂ) ^ D) * ind2 D N κ h)
    (q : ℂ) (hq : ∑ h ∈ range (numModes D N), (herm_weight D N h : ℂ) * ind2 D N κ h ^ 2 = q)
    (b : ℕ) (hb : b < N / 2 + 1) :
    (Spectrum.spectrum D N true false u).getD b 0 = if inBin κ b = true then (A : ℂ) ^ 2 / 8 * q else 0 := by
  rw [spectrum_getD_sum D N hD true _ b hb]
  have hNne : ((N : ℂ)) ^ D ≠ 0 := pow_ne_zero _ (Nat.cast_ne_zero.mpr hN.ne')
  have hterm : ∀ h ∈ range (numModes D N),
      (if inBin (wnFlat D N h) b = true then quantity D N true (rfftnM D N u) h else 0)
        = (if inBin κ b = true then (A : ℂ) ^ 2 / 8 else 0) * ((herm_weight D N h : ℂ) * ind2 D N κ h ^ 2) := by
    intro h hh
    have hh' := Finset.mem_range.mp hh
    rw [quantity_pow D N hD hN _ h hh', hnorm h hh']
    by_cases hA : wnFlat D N h = canonK D N κ
    · have e : inBin (wnFlat D N h) b = inBin κ b := by rw [hA, inBin_canonK D N κ hκ.1]
      rw [e]
      split_ifs
      · field_simp; ring
      · ring
    · by_cases hB : wnFlat D N h = canonK D N (negK κ)
      · have e : inBin (wnFlat D N h) b = inBin κ b := by rw [hB, inBin_canonK_negK D N κ hκ.1]
        rw [e]
        split_ifs
        · field_simp; ring
        · ring
      · have z : ind2 D N κ h = 0 := by unfold ind2; rw [if_neg hA, if_neg hB, add_zero]
        rw [z]
        split_ifs <;> simp
  rw [Finset.sum_congr rfl hterm, ← Finset.mul_sum, hq]
  split_ifs <;> ring

/-! ### the norms of the stored coefficients -/

theorem norm_modeField_selfconj (D N : ℕ) (hD : 0 < D) (hN : 0 < N) (κ : List ℤ) (hκ : AtMostNyquist D N κ)
    (hs : SelfConj D N κ) (a φ : ℝ) (h : ℕ) (hh : h < numModes D N) :
    ((‖(rfftnM D N (modeField D N κ a φ)).getD h 0‖ : ℝ) : ℂ)
      = ((|a * Real.cos φ| : ℝ) : ℂ) / 2 * ((N : ℂ) ^ D) * ind2 D N κ h := by
  rw [rfftnM_modeField_selfconj D N hD hN κ hκ hs a φ h hh]
  unfold ind2
  rw [canonK_negK_of_selfConj D N κ hs]
  by_cases hk : wnFlat D N h = canonK D N κ
  · rw [if_pos hk, if_pos hk, Complex.norm_real, Real.norm_eq_abs, abs_mul (a * Real.cos φ),
      abs_of_nonneg (by positivity : (0 : ℝ) ≤ ((N ^ D : ℕ) : ℝ))]
    push_cast
    ring
  · rw [if_neg hk, if_neg hk, norm_zero]
    simp

theorem norm_modeField_pair (D N : ℕ) (hD : 0 < D) (hN : 0 < N) (κ : List ℤ) (hκ : AtMostNyquist D N κ)
    (hs : ¬ SelfConj D N κ) (a φ : ℝ) (h : ℕ) (hh : h < numModes D N) :
    ((‖(rfftnM D N (modeField D N κ a φ)).getD h 0‖ : ℝ) : ℂ)
      = ((|a| : ℝ) : ℂ) / 2 * ((N : ℂ) ^ D) * ind2 D N κ h := by
  have hne := canonK_negK_ne_of_not_selfConj D N κ hs
  obtain ⟨c1, c2, c3⟩ := rfftnM_modeField_nyquist_cases D N hD hN κ hκ hs a φ h hh
  unfold ind2
  by_cases hA : wnFlat D N h = canonK D N κ
  · have hB : ¬ wnFlat D N h = canonK D N (negK κ) := fun hB => hne (hB.symm.trans hA)
    rw [c1 hA, if_pos hA, if_neg hB, norm_coef]
    push_cast
    ring
  · by_cases hB : wnFlat D N h = canonK D N (negK κ)
    · rw [c2 hB, if_neg hA, if_pos hB, norm_coef']
      push_cast
      ring
    · rw [c3 hA hB, if_neg hA, if_neg hB, norm_zero]
      simp

/-! ### the squared-indicator sums -/

theorem sum_ind2_sq_selfconj (D N : ℕ) (hD : 0 < D) (hN : 0 < N) (κ : List ℤ) (hκ : AtMostNyquist D N κ)
    (hs : SelfConj D N κ) :
    ∑ h ∈ range (numModes D N), (herm_weight D N h : ℂ) * ind2 D N κ h ^ 2 = 4 := by
  have h2 := WsumC_eq_two D N hD hN κ hκ
  unfold WsumC at h2
  have e : ∀ h ∈ range (numModes D N), (herm_weight D N h : ℂ) * ind2 D N κ h ^ 2
      = 2 * ((herm_weight D N h : ℂ) * ind2 D N κ h) := by
    intro h _
    unfold ind2
    rw [canonK_negK_of_selfConj D N κ hs]
    split_ifs <;> ring
  rw [Finset.sum_congr rfl e, ← Finset.mul_sum, h2]
  norm_num

theorem sum_ind2_sq_pair (D N : ℕ) (hD : 0 < D) (hN : 0 < N) (κ : List ℤ) (hκ : AtMostNyquist D N κ)
    (hs : ¬ SelfConj D N κ) :
    ∑ h ∈ range (numModes D N), (herm_weight D N h : ℂ) * ind2 D N κ h ^ 2 = 2 := by
  have hne := canonK_negK_ne_of_not_selfConj D N κ hs
  have h2 := WsumC_eq_two D N hD hN κ hκ
  unfold WsumC at h2
  have e : ∀ h ∈ range (numModes D N), (herm_weight D N h : ℂ) * ind2 D N κ h ^ 2
      = (herm_weight D N h : ℂ) * ind2 D N κ h := by
    intro h _
    unfold ind2
    by_cases hA : wnFlat D N h = canonK D N κ
    · have hB : ¬ wnFlat D N h = canonK D N (negK κ) := fun hB => hne (hB.symm.trans hA)
      rw [if_pos hA, if_neg hB]; ring
    · split_ifs <;> ring
  rw [Finset.sum_congr rfl e, h2]

/-! ### K2: the read-off -/

/-- **K2, amplitude, self-conjugate `κ`** (all components in `{0, ±N/2}`, `κ = 0` included): `|a cos φ|` in the bin of `κ` -/
theorem spectrum_amplitude_selfconj (D N : ℕ) (hD : 1 ≤ D) (hN : 0 < N) (κ : List ℤ) (hκ : AtMostNyquist D N κ)
    (hs : SelfConj D N κ) (a φ : ℝ) (b : ℕ) (hb : b < N / 2 + 1) :
    (Spectrum.spectrum D N false false (modeField D N κ a φ)).getD b 0
      = if inBin κ b = true then ((|a * Real.cos φ| : ℝ) : ℂ) else 0 :=
  spectrum_amplitude_of_norm D N hD hN κ hκ _ _ (norm_modeField_selfconj D N hD hN κ hκ hs a φ) b hb

/-- **K2, amplitude, every other `κ` with `|κ_d| ≤ N/2`** (Nyquist components allowed): the documented `|a|` -/
theorem spectrum_amplitude_nyquist (D N : ℕ) (hD : 1 ≤ D) (hN : 0 < N) (κ : List ℤ) (hκ : AtMostNyquist D N κ)
    (hs : ¬ SelfConj D N κ) (a φ : ℝ) (b : ℕ) (hb : b < N / 2 + 1) :
    (Spectrum.spectrum D N false false (modeField D N κ a φ)).getD b 0
      = if inBin κ b = true then ((|a| : ℝ) : ℂ) else 0 :=
  spectrum_amplitude_of_norm D N hD hN κ hκ _ _ (norm_modeField_pair D N hD hN κ hκ hs a φ) b hb

/-- **K2, power, self-conjugate `κ`**: `(a cos φ)²/2 = ½·mean(u²)` in the bin of `κ` -/
theorem spectrum_power_selfconj (D N : ℕ) (hD : 1 ≤ D) (hN : 0 < N) (κ : List ℤ) (hκ : AtMostNyquist D N κ)
    (hs : SelfConj D N κ) (a φ : ℝ) (b : ℕ) (hb : b < N / 2 + 1) :
    (Spectrum.spectrum D N true false (modeField D N κ a φ)).getD b 0
      = if inBin κ b = true then (((a * Real.cos φ) ^ 2 / 2 : ℝ) : ℂ) else 0 := by
  rw [spectrum_power_of_norm D N hD hN κ hκ _ _ (norm_modeField_selfconj D N hD hN κ hκ hs a φ) 4
    (sum_ind2_sq_selfconj D N hD hN κ hκ hs) b hb]
  have hsq : ((|a * Real.cos φ| : ℝ) : ℂ) ^ 2 = (((a * Real.cos φ) ^ 2 : ℝ) : ℂ) := by
    rw [← Complex.ofReal_pow, sq_abs]
  rw [hsq]
  split_ifs
  · push_cast; ring
  · rfl

/-- **K2, power, every other `κ`**: the documented `a²/4 = ½·mean(u²)` -/
theorem spectrum_power_nyquist (D N : ℕ) (hD : 1 ≤ D) (hN : 0 < N) (κ : List ℤ) (hκ : AtMostNyquist D N κ)
    (hs : ¬ SelfConj D N κ) (a φ : ℝ) (b : ℕ) (hb : b < N / 2 + 1) :
    (Spectrum.spectrum D N true false (modeField D N κ a φ)).getD b 0
      = if inBin κ b = true then ((a ^ 2 / 4 : ℝ) : ℂ) else 0 := by
  rw [spectrum_power_of_norm D N hD hN κ hκ _ _ (norm_modeField_pair D N hD hN κ hκ hs a φ) 2
    (sum_ind2_sq_pair D N hD hN κ hκ hs) b hb]
  have hsq : ((|a| : ℝ) : ℂ) ^ 2 = ((a ^ 2 : ℝ) : ℂ) := by rw [← Complex.ofReal_pow, sq_abs]
  rw [hsq]
  split_ifs
  · push_cast; ring
  · rfl

open Classical in
/-- **K2, one statement**: what `get_spectrum` returns for `a cos(κ·x + φ)`, every `κ` with `|κ_d| ≤ N/2` -/
theorem spectrum_modeField_atMostNyquist (D N : ℕ) (hD : 1 ≤ D) (hN : 0 < N) (κ : List ℤ) (hκ : AtMostNyquist D N κ)
    (a φ : ℝ) (b : ℕ) (hb : b < N / 2 + 1) :
    (Spectrum.spectrum D N false false (modeField D N κ a φ)).getD b 0
        = (if inBin κ b = true then (((if SelfConj D N κ then |a * Real.cos φ| else |a|) : ℝ) : ℂ) else 0) ∧
    (Spectrum.spectrum D N true false (modeField D N κ a φ)).getD b 0
        = (if inBin κ b = true then (((if SelfConj D N κ then (a * Real.cos φ) ^ 2 / 2 else a ^ 2 / 4) : ℝ) : ℂ)
            else 0) := by
  by_cases hs : SelfConj D N κ
  · rw [if_pos hs, if_pos hs]
    exact ⟨spectrum_amplitude_selfconj D N hD hN κ hκ hs a φ b hb, spectrum_power_selfconj D N hD hN κ hκ hs a φ b hb⟩
  · rw [if_neg hs, if_neg hs]
    exact ⟨spectrum_amplitude_nyquist D N hD hN κ hκ hs a φ b hb, spectrum_power_nyquist D N hD hN κ hκ hs a φ b hb⟩

/-- the bin named: `round|κ|`; a Nyquist wave outside the sphere `|κ| < N/2 + ½` shows up in NO returned bin -/
theorem spectrum_nyquist_dropped (D N : ℕ) (hD : 1 ≤ D) (hN : 0 < N) (κ : List ℤ) (hκ : AtMostNyquist D N κ)
    (hout : N / 2 + 1 ≤ roundNorm κ) (power : Bool) (a φ : ℝ) (b : ℕ) (hb : b < N / 2 + 1) :
    (Spectrum.spectrum D N power false (modeField D N κ a φ)).getD b 0 = 0 := by
  have hnb : ¬ inBin κ b = true := by
    rw [inBin_iff_eq_roundNorm]; omega
  classical
  have h := spectrum_modeField_atMostNyquist D N hD hN κ hκ a φ b hb
  rw [if_neg hnb, if_neg hnb] at h
  cases power
  · exact h.1
  · exact h.2

/-! non-vacuity, `N = 4` (`N/2 = 2`): a self-conjugate Nyquist wave inside the sphere (bin 2), a non-self-conjugate
Nyquist wave inside the sphere (`(2,1)`, `|κ| ≈ 2.24`, bin 2), and the corner `(2,2)` (`|κ| ≈ 2.83 ≥ 2.5`) which is dropped -/
example : AtMostNyquist 2 4 [2, 0] ∧ SelfConj 2 4 [2, 0] ∧ inBin [2, 0] 2 = true ∧ 2 < 4 / 2 + 1 := by
  refine ⟨⟨rfl, by intro d hd; interval_cases d <;> simp⟩, ?_, by decide, by norm_num⟩
  intro d hd
  interval_cases d <;> simp
example : AtMostNyquist 2 4 [2, 1] ∧ ¬ SelfConj 2 4 [2, 1] ∧ inBin [2, 1] 2 = true := by
  refine ⟨⟨rfl, by intro d hd; interval_cases d <;> simp⟩, ?_, by decide⟩
  intro h
  have := h 1 (by norm_num)
  simp at this
example : AtMostNyquist 2 4 [2, 2] ∧ SelfConj 2 4 [2, 2] ∧ 4 / 2 + 1 ≤ roundNorm [2, 2] := by
  refine ⟨⟨rfl, by intro d hd; interval_cases d <;> simp⟩, ?_, ?_⟩
  · intro d hd
    interval_cases d <;> simp
  · have : roundNorm [2, 2] = 3 := ((inBin_iff_eq_roundNorm _ 3).mp (by decide)).symm
    rw [this]

end Exponax.SmallGaps3
