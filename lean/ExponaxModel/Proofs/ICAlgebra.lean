import Mathlib.Analysis.SpecialFunctions.Pow.Real
import Mathlib.Analysis.SpecialFunctions.Sqrt
import Mathlib.Tactic
import ExponaxModel.Proofs.RealInstances
import ExponaxModel.Proofs.LayoutLemmas
import ExponaxModel.Proofs.MeanMode
import ExponaxModel.Proofs.DFTBasic
import ExponaxModel.Model.IC
/-
"Initial-condition generators honour their documented options": theorems about `IC.mean`, `IC.std`,
`IC.maxAbs`, `IC.normalizeIc`, `IC.minOf`, `IC.maxOf`, `IC.clamp`, `IC.scale` at `K := ℝ`, and the
spectrum read-off of `IC.truncatedSeries` at `K := ℂ`.
-/
set_option linter.unusedVariables false
namespace Exponax.IC
open Exponax Exponax.Layout Exponax.Transform Finset

/-! ### closed forms -/

theorem mean_eq (u : Array ℝ) : mean u = u.toList.sum / (u.size : ℝ) := by
  unfold mean; rw [sumList_eq]

theorem mean_eq_sum (u : Array ℝ) : mean u = (∑ j ∈ range u.size, u.getD j 0) / (u.size : ℝ) := by
  rw [mean_eq, ← array_map_sum_eq_sum_range u 0 (fun x => x), List.map_id']

theorem std_eq (u : Array ℝ) :
    std u = Real.sqrt ((u.toList.map (fun x => (x - mean u) * (x - mean u))).sum / (u.size : ℝ)) := by
  unfold std; simp only [sumList_eq]; rfl

theorem std_eq_sum (u : Array ℝ) :
    std u = Real.sqrt ((∑ j ∈ range u.size, (u.getD j 0 - mean u) ^ 2) / (u.size : ℝ)) := by
  rw [std_eq, array_map_sum_eq_sum_range u 0]
  congr 2
  exact Finset.sum_congr rfl (fun j _ => by ring)

theorem std_nonneg (u : Array ℝ) : 0 ≤ std u := by
  rw [std_eq]; exact Real.sqrt_nonneg _

/-! ### list helpers -/

theorem list_sum_map_sub_const (l : List ℝ) (m : ℝ) :
    (l.map (fun x => x - m)).sum = l.sum - (l.length : ℝ) * m := by
  induction l with
  | nil => simp
  | cons a l ih => simp only [List.map_cons, List.sum_cons, ih, List.length_cons]; push_cast; ring

theorem list_sum_map_div_const (l : List ℝ) (a : ℝ) :
    (l.map (fun x => x / a)).sum = l.sum / a := by
  induction l with
  | nil => simp
  | cons b l ih => simp only [List.map_cons, List.sum_cons, ih]; ring

theorem list_sum_map_mul_const (l : List ℝ) (a : ℝ) :
    (l.map (fun x => a * x)).sum = a * l.sum := by
  induction l with
  | nil => simp
  | cons b l ih => simp only [List.map_cons, List.sum_cons, ih]; ring

theorem foldl_max_ge_init (l : List ℝ) (i : ℝ) : i ≤ l.foldl max i := by
  induction l generalizing i with
  | nil => simp
  | cons a l ih => exact le_trans (le_max_left i a) (ih (max i a))

theorem foldl_max_ge_mem (l : List ℝ) (i x : ℝ) (hx : x ∈ l) : x ≤ l.foldl max i := by
  induction l generalizing i with
  | nil => simp at hx
  | cons a l ih =>
    rcases List.mem_cons.1 hx with rfl | h
    · exact le_trans (le_max_right i x) (foldl_max_ge_init l _)
    · exact ih (max i a) h

theorem foldl_max_mem (l : List ℝ) (i : ℝ) : l.foldl max i = i ∨ l.foldl max i ∈ l := by
  induction l generalizing i with
  | nil => simp
  | cons a l ih =>
    rcases ih (max i a) with h | h
    · rcases max_choice i a with h' | h'
      · left; rw [List.foldl_cons, h, h']
      · right; rw [List.foldl_cons, h, h']; exact List.mem_cons_self
    · right; exact List.mem_cons_of_mem _ h

theorem foldl_min_le_init (l : List ℝ) (i : ℝ) : l.foldl min i ≤ i := by
  induction l generalizing i with
  | nil => simp
  | cons a l ih => exact le_trans (ih (min i a)) (min_le_left i a)

theorem foldl_min_le_mem (l : List ℝ) (i x : ℝ) (hx : x ∈ l) : l.foldl min i ≤ x := by
  induction l generalizing i with
  | nil => simp at hx
  | cons a l ih =>
    rcases List.mem_cons.1 hx with rfl | h
    · exact le_trans (foldl_min_le_init l _) (min_le_right i x)
    · exact ih (min i a) h

theorem foldl_min_mem (l : List ℝ) (i : ℝ) : l.foldl min i = i ∨ l.foldl min i ∈ l := by
  induction l generalizing i with
  | nil => simp
  | cons a l ih =>
    rcases ih (min i a) with h | h
    · rcases min_choice i a with h' | h'
      · left; rw [List.foldl_cons, h, h']
      · right; rw [List.foldl_cons, h, h']; exact List.mem_cons_self
    · right; exact List.mem_cons_of_mem _ h

theorem foldr_max_max (l : List ℝ) (i a : ℝ) : l.foldr max (max i a) = max a (l.foldr max i) := by
  induction l with
  | nil => simp [max_comm]
  | cons b l ih => simp only [List.foldr_cons, ih, max_left_comm]

theorem foldl_max_eq_foldr (l : List ℝ) (i : ℝ) : l.foldl max i = l.foldr max i := by
  induction l generalizing i with
  | nil => rfl
  | cons a l ih => rw [List.foldl_cons, ih, foldr_max_max, List.foldr_cons]

theorem ite_lt_eq_max (acc a : ℝ) : (if decide (acc < a) = true then a else acc) = max acc a := by
  simp only [decide_eq_true_eq]
  split_ifs with h
  · exact (max_eq_right h.le).symm
  · exact (max_eq_left (not_lt.mp h)).symm

theorem ite_lt_eq_min (acc x : ℝ) : (if decide (x < acc) = true then x else acc) = min acc x := by
  simp only [decide_eq_true_eq]
  split_ifs with h
  · exact (min_eq_right h.le).symm
  · exact (min_eq_left (not_lt.mp h)).symm

theorem getD_zero_mem (u : Array ℝ) (hu : 0 < u.size) : u.getD 0 0 ∈ u.toList := by
  have : u.getD 0 0 = u[0] := by simp [Array.getD, hu]
  rw [this]
  exact Array.getElem_mem_toList hu

/-! ### I4 — `maxAbs`, `minOf`, `maxOf` are the extreme entries -/

theorem maxAbs_eq_foldl (u : Array ℝ) : maxAbs u = (u.toList.map (fun x => |x|)).foldl max 0 := by
  unfold maxAbs
  rw [List.foldl_map]
  simp only [hasLtB_real, hasAbs_real, ite_lt_eq_max]

/-- I4: `maxAbs u = max_j |u_j|` as a right fold of `max` -/
theorem maxAbs_eq_foldr (u : Array ℝ) : maxAbs u = (u.toList.map (fun x => |x|)).foldr max 0 := by
  rw [maxAbs_eq_foldl, foldl_max_eq_foldr]

theorem maxAbs_nonneg (u : Array ℝ) : 0 ≤ maxAbs u := by
  rw [maxAbs_eq_foldl]; exact foldl_max_ge_init _ _

/-- I4: every entry is bounded by `maxAbs` -/
theorem abs_le_maxAbs (u : Array ℝ) (x : ℝ) (hx : x ∈ u.toList) : |x| ≤ maxAbs u := by
  rw [maxAbs_eq_foldl]
  exact foldl_max_ge_mem _ _ _ (List.mem_map.2 ⟨x, hx, rfl⟩)

/-- I4: `maxAbs` is attained (non-empty `u`) -/
theorem maxAbs_attained (u : Array ℝ) (hu : 0 < u.size) : ∃ x ∈ u.toList, |x| = maxAbs u := by
  rw [maxAbs_eq_foldl]
  rcases foldl_max_mem (u.toList.map (fun x => |x|)) 0 with h | h
  · -- the maximum is 0: every entry is 0
    refine ⟨u.getD 0 0, getD_zero_mem u hu, ?_⟩
    have h1 := foldl_max_ge_mem (u.toList.map (fun x => |x|)) 0 |u.getD 0 0|
      (List.mem_map.2 ⟨_, getD_zero_mem u hu, rfl⟩)
    rw [h] at h1 ⊢
    exact le_antisymm h1 (abs_nonneg _)
  · obtain ⟨x, hx, hxe⟩ := List.mem_map.1 h
    exact ⟨x, hx, hxe⟩

/-- I4: characterisation — a bound that is attained is `maxAbs` -/
theorem maxAbs_eq_of (u : Array ℝ) (M : ℝ) (hle : ∀ x ∈ u.toList, |x| ≤ M)
    (hatt : ∃ x ∈ u.toList, |x| = M) : maxAbs u = M := by
  obtain ⟨x, hx, hxe⟩ := hatt
  have hu : 0 < u.size := by
    rw [← Array.length_toList]; exact List.length_pos_of_mem hx
  obtain ⟨y, hy, hye⟩ := maxAbs_attained u hu
  apply le_antisymm
  · rw [← hye]; exact hle y hy
  · rw [← hxe]; exact abs_le_maxAbs u x hx

/-- I4: `maxAbs u = sup_j |u_j|` over the index range -/
theorem maxAbs_eq_sup' (u : Array ℝ) (hu : 0 < u.size) :
    maxAbs u = (range u.size).sup' (Finset.nonempty_range_iff.mpr hu.ne') (fun j => |u.getD j 0|) := by
  apply le_antisymm
  · obtain ⟨x, hx, hxe⟩ := maxAbs_attained u hu
    obtain ⟨j, hj, rfl⟩ := List.getElem_of_mem hx
    rw [← hxe]
    rw [Array.length_toList] at hj
    have : u.toList[j] = u.getD j 0 := by simp [Array.getD, hj]
    rw [this]
    exact Finset.le_sup' (fun j => |u.getD j 0|) (Finset.mem_range.mpr hj)
  · apply Finset.sup'_le
    intro j hj
    have hj' := Finset.mem_range.mp hj
    apply abs_le_maxAbs
    have : u.getD j 0 = u[j] := by simp [Array.getD, hj']
    rw [this]
    exact Array.getElem_mem_toList hj'

theorem minOf_eq_foldl (u : Array ℝ) : minOf u = u.toList.foldl min (u.getD 0 0) := by
  unfold minOf
  simp only [hasLtB_real, ite_lt_eq_min]

theorem maxOf_eq_foldl (u : Array ℝ) : maxOf u = u.toList.foldl max (u.getD 0 0) := by
  unfold maxOf
  simp only [hasLtB_real, ite_lt_eq_max]

/-- I4: `minOf` is a lower bound of the entries -/
theorem minOf_le (u : Array ℝ) (x : ℝ) (hx : x ∈ u.toList) : minOf u ≤ x := by
  rw [minOf_eq_foldl]; exact foldl_min_le_mem _ _ _ hx

/-- I4: `minOf` is attained -/
theorem minOf_mem (u : Array ℝ) (hu : 0 < u.size) : minOf u ∈ u.toList := by
  rw [minOf_eq_foldl]
  rcases foldl_min_mem u.toList (u.getD 0 0) with h | h
  · rw [h]; exact getD_zero_mem u hu
  · exact h

/-- I4: `maxOf` is an upper bound of the entries -/
theorem le_maxOf (u : Array ℝ) (x : ℝ) (hx : x ∈ u.toList) : x ≤ maxOf u := by
  rw [maxOf_eq_foldl]; exact foldl_max_ge_mem _ _ _ hx

/-- I4: `maxOf` is attained -/
theorem maxOf_mem (u : Array ℝ) (hu : 0 < u.size) : maxOf u ∈ u.toList := by
  rw [maxOf_eq_foldl]
  rcases foldl_max_mem u.toList (u.getD 0 0) with h | h
  · rw [h]; exact getD_zero_mem u hu
  · exact h

/-- I4: characterisation of the minimum -/
theorem minOf_eq_of (u : Array ℝ) (m : ℝ) (hle : ∀ x ∈ u.toList, m ≤ x) (hmem : m ∈ u.toList) :
    minOf u = m := by
  have hu : 0 < u.size := by rw [← Array.length_toList]; exact List.length_pos_of_mem hmem
  exact le_antisymm (minOf_le u m hmem) (hle _ (minOf_mem u hu))

/-- I4: characterisation of the maximum -/
theorem maxOf_eq_of (u : Array ℝ) (m : ℝ) (hle : ∀ x ∈ u.toList, x ≤ m) (hmem : m ∈ u.toList) :
    maxOf u = m := by
  have hu : 0 < u.size := by rw [← Array.length_toList]; exact List.length_pos_of_mem hmem
  exact le_antisymm (hle _ (maxOf_mem u hu)) (le_maxOf u m hmem)

theorem mem_toList_iff_getD (u : Array ℝ) (x : ℝ) :
    x ∈ u.toList ↔ ∃ j < u.size, u.getD j 0 = x := by
  constructor
  · intro hx
    obtain ⟨j, hj, rfl⟩ := List.getElem_of_mem hx
    rw [Array.length_toList] at hj
    exact ⟨j, hj, by simp [Array.getD, hj]⟩
  · rintro ⟨j, hj, rfl⟩
    have : u.getD j 0 = u[j] := by simp [Array.getD, hj]
    rw [this]
    exact Array.getElem_mem_toList hj

/-- I4: `minOf u = inf_j u_j` -/
theorem minOf_eq_inf' (u : Array ℝ) (hu : 0 < u.size) :
    minOf u = (range u.size).inf' (Finset.nonempty_range_iff.mpr hu.ne') (fun j => u.getD j 0) := by
  apply le_antisymm
  · apply Finset.le_inf'
    intro j hj
    exact minOf_le u _ ((mem_toList_iff_getD u _).2 ⟨j, Finset.mem_range.mp hj, rfl⟩)
  · obtain ⟨j, hj, he⟩ := (mem_toList_iff_getD u _).1 (minOf_mem u hu)
    rw [← he]
    exact Finset.inf'_le (fun j => u.getD j 0) (Finset.mem_range.mpr hj)

/-- I4: `maxOf u = sup_j u_j` -/
theorem maxOf_eq_sup' (u : Array ℝ) (hu : 0 < u.size) :
    maxOf u = (range u.size).sup' (Finset.nonempty_range_iff.mpr hu.ne') (fun j => u.getD j 0) := by
  apply le_antisymm
  · obtain ⟨j, hj, he⟩ := (mem_toList_iff_getD u _).1 (maxOf_mem u hu)
    rw [← he]
    exact Finset.le_sup' (fun j => u.getD j 0) (Finset.mem_range.mpr hj)
  · apply Finset.sup'_le
    intro j hj
    exact le_maxOf u _ ((mem_toList_iff_getD u _).2 ⟨j, Finset.mem_range.mp hj, rfl⟩)

/-! ### `mean` / `std` under shifts and rescalings -/

theorem mean_map_sub (u : Array ℝ) (hu : 0 < u.size) (m : ℝ) :
    mean (u.map (fun x => x - m)) = mean u - m := by
  rw [mean_eq, mean_eq, Array.toList_map, list_sum_map_sub_const, Array.size_map, Array.length_toList]
  have : (u.size : ℝ) ≠ 0 := Nat.cast_ne_zero.mpr hu.ne'
  field_simp

theorem mean_map_div (u : Array ℝ) (a : ℝ) : mean (u.map (fun x => x / a)) = mean u / a := by
  rw [mean_eq, mean_eq, Array.toList_map, list_sum_map_div_const, Array.size_map]
  ring

theorem mean_map_mul (u : Array ℝ) (a : ℝ) : mean (u.map (fun x => a * x)) = a * mean u := by
  rw [mean_eq, mean_eq, Array.toList_map, list_sum_map_mul_const, Array.size_map]
  ring

theorem std_map_div (u : Array ℝ) (a : ℝ) : std (u.map (fun x => x / a)) = std u / |a| := by
  rw [std_eq, std_eq, mean_map_div, Array.toList_map, List.map_map, Array.size_map]
  have h1 : (u.toList.map ((fun x => (x - mean u / a) * (x - mean u / a)) ∘ fun x => x / a))
      = (u.toList.map (fun x => (x - mean u) * (x - mean u))).map (fun y => y / (a * a)) := by
    rw [List.map_map]
    apply List.map_congr_left
    intro x _
    simp only [Function.comp]
    by_cases ha : a = 0
    · subst ha; simp
    · field_simp
  rw [h1, list_sum_map_div_const, div_right_comm, Real.sqrt_div' _ (mul_self_nonneg a),
    Real.sqrt_mul_self_eq_abs]

/-! ### I1 — zero mean -/

theorem normalizeIc_center (u : Array ℝ) :
    normalizeIc true false false u = u.map (fun x => x - mean u) := by
  simp [normalizeIc]

/-- I1: `zero_mean=True` gives mean zero -/
theorem mean_normalizeIc_center (u : Array ℝ) (hu : 0 < u.size) :
    mean (normalizeIc true false false u) = 0 := by
  rw [normalizeIc_center, mean_map_sub u hu, sub_self]

/-! ### I2 — unit standard deviation -/

theorem normalizeIc_std (z : Bool) (u : Array ℝ) :
    normalizeIc z true false u
      = (normalizeIc z false false u).map (fun x => x / std (normalizeIc z false false u)) := by
  cases z <;> simp [normalizeIc]

/-- dividing by the (non-zero) standard deviation gives standard deviation one -/
theorem std_div_self (u : Array ℝ) (h : std u ≠ 0) : std (u.map (fun x => x / std u)) = 1 := by
  rw [std_map_div, abs_of_nonneg (std_nonneg u), div_self h]

/-- I2: `std_one=True` gives standard deviation one (with or without centring) -/
theorem std_normalizeIc (z : Bool) (u : Array ℝ) (h : std (normalizeIc z false false u) ≠ 0) :
    std (normalizeIc z true false u) = 1 := by
  rw [normalizeIc_std, std_div_self _ h]

/-- I2: and with `zero_mean=True` the mean stays zero -/
theorem mean_normalizeIc_center_std (u : Array ℝ) (hu : 0 < u.size) :
    mean (normalizeIc true true false u) = 0 := by
  rw [normalizeIc_std, mean_map_div, mean_normalizeIc_center u hu, zero_div]

/-- I2 (combined statement) -/
theorem normalizeIc_center_std (u : Array ℝ) (hu : 0 < u.size)
    (h : std (normalizeIc true false false u) ≠ 0) :
    std (normalizeIc true true false u) = 1 ∧ mean (normalizeIc true true false u) = 0 :=
  ⟨std_normalizeIc true u h, mean_normalizeIc_center_std u hu⟩

/-! ### I3 — unit maximum absolute value -/

theorem normalizeIc_max (z s : Bool) (u : Array ℝ) :
    normalizeIc z s true u
      = (normalizeIc z s false u).map (fun x => x / maxAbs (normalizeIc z s false u)) := by
  cases z <;> cases s <;> simp [normalizeIc]

/-- dividing by the (non-zero) maximum absolute value gives maximum absolute value one -/
theorem maxAbs_div_self (u : Array ℝ) (h : maxAbs u ≠ 0) : maxAbs (u.map (fun x => x / maxAbs u)) = 1 := by
  have hpos : 0 < maxAbs u := lt_of_le_of_ne (maxAbs_nonneg u) (Ne.symm h)
  have hu : 0 < u.size := by
    rcases Nat.eq_zero_or_pos u.size with h0 | h0
    · exfalso; apply h
      have : u = #[] := Array.eq_empty_of_size_eq_zero h0
      rw [this]; simp [maxAbs]
    · exact h0
  apply maxAbs_eq_of
  · intro y hy
    rw [Array.toList_map] at hy
    obtain ⟨x, hx, rfl⟩ := List.mem_map.1 hy
    rw [abs_div, abs_of_pos hpos]
    exact div_le_one_of_le₀ (abs_le_maxAbs u x hx) hpos.le
  · obtain ⟨x, hx, hxe⟩ := maxAbs_attained u hu
    refine ⟨x / maxAbs u, ?_, ?_⟩
    · rw [Array.toList_map]; exact List.mem_map.2 ⟨x, hx, rfl⟩
    · rw [abs_div, abs_of_pos hpos, hxe, div_self h]

/-- I3: `max_one=True` gives maximum absolute value one (for every choice of the other two options) -/
theorem maxAbs_normalizeIc (z s : Bool) (u : Array ℝ) (h : maxAbs (normalizeIc z s false u) ≠ 0) :
    maxAbs (normalizeIc z s true u) = 1 := by
  rw [normalizeIc_max, maxAbs_div_self _ h]

/-! ### I5 — clamping -/

theorem clamp_eq (lo hi : ℝ) (u : Array ℝ) :
    clamp lo hi u = u.map (fun x => (x - minOf u) / (maxOf u - minOf u) * (hi - lo) + lo) := rfl

theorem mem_clamp (lo hi : ℝ) (u : Array ℝ) (y : ℝ) :
    y ∈ (clamp lo hi u).toList ↔
      ∃ x ∈ u.toList, y = (x - minOf u) / (maxOf u - minOf u) * (hi - lo) + lo := by
  rw [clamp_eq, Array.toList_map, List.mem_map]
  constructor
  · rintro ⟨x, hx, rfl⟩; exact ⟨x, hx, rfl⟩
  · rintro ⟨x, hx, rfl⟩; exact ⟨x, hx, rfl⟩

/-- I5: every clamped entry lies in `[lo, hi]` -/
theorem clamp_mem_Icc (lo hi : ℝ) (hlh : lo ≤ hi) (u : Array ℝ) (hlt : minOf u < maxOf u) (y : ℝ)
    (hy : y ∈ (clamp lo hi u).toList) : lo ≤ y ∧ y ≤ hi := by
  obtain ⟨x, hx, rfl⟩ := (mem_clamp lo hi u y).1 hy
  have hd : 0 < maxOf u - minOf u := sub_pos.mpr hlt
  have h0 : 0 ≤ (x - minOf u) / (maxOf u - minOf u) :=
    div_nonneg (sub_nonneg.mpr (minOf_le u x hx)) hd.le
  have h1 : (x - minOf u) / (maxOf u - minOf u) ≤ 1 := by
    rw [div_le_one hd]; linarith [le_maxOf u x hx]
  have hw : 0 ≤ hi - lo := sub_nonneg.mpr hlh
  constructor
  · nlinarith [mul_nonneg h0 hw]
  · nlinarith [mul_le_mul_of_nonneg_right h1 hw]

theorem size_pos_of_lt (u : Array ℝ) (hlt : minOf u < maxOf u) : 0 < u.size := by
  rcases Nat.eq_zero_or_pos u.size with h0 | h0
  · exfalso
    have : u = #[] := Array.eq_empty_of_size_eq_zero h0
    rw [this] at hlt
    simp [minOf, maxOf] at hlt
  · exact h0

/-- I5: the lower limit is reached: `min (clamp lo hi u) = lo` -/
theorem minOf_clamp (lo hi : ℝ) (hlh : lo ≤ hi) (u : Array ℝ) (hlt : minOf u < maxOf u) :
    minOf (clamp lo hi u) = lo := by
  apply minOf_eq_of
  · intro y hy; exact (clamp_mem_Icc lo hi hlh u hlt y hy).1
  · rw [mem_clamp]
    exact ⟨minOf u, minOf_mem u (size_pos_of_lt u hlt), by simp⟩

/-- I5: the upper limit is reached: `max (clamp lo hi u) = hi` -/
theorem maxOf_clamp (lo hi : ℝ) (hlh : lo ≤ hi) (u : Array ℝ) (hlt : minOf u < maxOf u) :
    maxOf (clamp lo hi u) = hi := by
  apply maxOf_eq_of
  · intro y hy; exact (clamp_mem_Icc lo hi hlh u hlt y hy).2
  · rw [mem_clamp]
    refine ⟨maxOf u, maxOf_mem u (size_pos_of_lt u hlt), ?_⟩
    rw [div_self (sub_pos.mpr hlt).ne']; ring

/-! ### I6 — scaling -/

@[simp] theorem scale_size (a : ℝ) (u : Array ℝ) : (scale a u).size = u.size := by
  simp [scale]

/-- I6: entries are multiplied by `a` -/
theorem scale_getD (a : ℝ) (u : Array ℝ) (j : ℕ) : (scale a u).getD j 0 = a * u.getD j 0 := by
  unfold scale
  simp only [Array.getD_eq_getD_getElem?, Array.getElem?_map]
  cases u[j]? <;> simp

/-- I6: the mean is multiplied by `a` -/
theorem mean_scale (a : ℝ) (u : Array ℝ) : mean (scale a u) = a * mean u :=
  mean_map_mul u a

/-! ### I7 — spectrum of the truncated Fourier series (`K := ℂ`) -/

/-- the filtered spectrum handed to `irfftnM` in `truncatedSeries` -/
noncomputable def truncatedSpectrum (D N cutoff : ℕ) (offset : ℂ) (noise : Array ℂ) : Array ℂ :=
  tab (numModes D N) (fun h =>
    if h = 0 then offset * lit (N ^ D)
    else if lowPassSep (wnFlat D N h) (cutoff : ℤ) 1 then (rfftnM D N noise).getD h 0 else 0)

/-- I7: `truncatedSeries` is the inverse transform of `truncatedSpectrum` -/
theorem truncatedSeries_eq (D N cutoff : ℕ) (offset : ℂ) (noise : Array ℂ) :
    truncatedSeries D N cutoff offset noise = irfftnM D N (truncatedSpectrum D N cutoff offset noise) := rfl

/-- I7: the mean mode carries `offset · N^D` -/
theorem truncatedSpectrum_zero (D N cutoff : ℕ) (offset : ℂ) (noise : Array ℂ) (hM : 0 < numModes D N) :
    (truncatedSpectrum D N cutoff offset noise).getD 0 0 = offset * ((N : ℂ) ^ D) := by
  unfold truncatedSpectrum
  rw [DFT.tab_getD _ _ _ _ hM]
  simp

/-- I7: inside the cut-off (all `|k_d| ≤ cutoff`) the noise coefficient is kept -/
theorem truncatedSpectrum_inside (D N cutoff : ℕ) (offset : ℂ) (noise : Array ℂ) (h : ℕ)
    (hh : h < numModes D N) (h0 : h ≠ 0) (hk : ∀ kd ∈ wnFlat D N h, |kd| ≤ (cutoff : ℤ)) :
    (truncatedSpectrum D N cutoff offset noise).getD h 0 = (rfftnM D N noise).getD h 0 := by
  unfold truncatedSpectrum
  rw [DFT.tab_getD _ _ _ _ hh, if_neg h0, if_pos]
  rw [lowPassSep_iff]
  simpa using hk

/-- I7: outside the cut-off the coefficient is zero -/
theorem truncatedSpectrum_outside (D N cutoff : ℕ) (offset : ℂ) (noise : Array ℂ) (h : ℕ)
    (hh : h < numModes D N) (h0 : h ≠ 0) (hk : ∃ kd ∈ wnFlat D N h, (cutoff : ℤ) < |kd|) :
    (truncatedSpectrum D N cutoff offset noise).getD h 0 = 0 := by
  unfold truncatedSpectrum
  rw [DFT.tab_getD _ _ _ _ hh, if_neg h0, if_neg]
  rw [lowPassSep_iff]
  obtain ⟨kd, hkd, hlt⟩ := hk
  intro hall
  have := hall kd hkd
  omega

/-- I7: beyond the stored modes the array has no entries -/
theorem truncatedSpectrum_size (D N cutoff : ℕ) (offset : ℂ) (noise : Array ℂ) :
    (truncatedSpectrum D N cutoff offset noise).size = numModes D N := by
  simp [truncatedSpectrum]

/-- I7: the flat index `0` that receives the offset is the mean mode (all `k_d = 0`), and it is the only
    stored mode with that property -/
theorem truncatedSpectrum_mean_mode (D N h : ℕ) (hD : 1 ≤ D) (hN : 0 < N) (hh : h < numModes D N) :
    (∀ d < D, (wnFlat D N h).getD d 0 = 0) ↔ h = 0 :=
  wnFlat_eq_zero_iff D N h hD hN hh

/-- I7 (combined read-off) -/
theorem truncatedSpectrum_getD (D N cutoff : ℕ) (offset : ℂ) (noise : Array ℂ) (h : ℕ)
    (hh : h < numModes D N) :
    (truncatedSpectrum D N cutoff offset noise).getD h 0
      = if h = 0 then offset * ((N : ℂ) ^ D)
        else if ∀ kd ∈ wnFlat D N h, |kd| ≤ (cutoff : ℤ) then (rfftnM D N noise).getD h 0 else 0 := by
  split_ifs with h0 hk
  · subst h0; exact truncatedSpectrum_zero D N cutoff offset noise hh
  · exact truncatedSpectrum_inside D N cutoff offset noise h hh h0 hk
  · push Not at hk
    exact truncatedSpectrum_outside D N cutoff offset noise h hh h0 hk

end Exponax.IC
