import Mathlib.Tactic
import ExponaxModel.Proofs.GenPreludeLemmas
import ExponaxModel.Proofs.ICGenEq
import ExponaxModel.Model.IC2
import ExponaxModel.Generated.ICGen2
/-
Structural facts about the list / array combinators that `harness/translate_ic2.py` emits (loops as `List.foldl`
over `tab`-updates, Python `sum`, `zip`): shared by the equalities of `Proofs/ICGen2Eq.lean`.
-/
set_option linter.unusedVariables false
set_option linter.unusedSectionVars false
namespace Exponax.Gen.IC2
open Exponax Exponax.Layout Exponax.Transform Exponax.DFT Exponax.Gen Exponax.Gen.Prelude

/-- a loop that `&`s one condition per item into a boolean mask -/
theorem foldl_tab_and {α : Type} (l : List α) (n : ℕ) (g : α → ℕ → Bool) (f0 : ℕ → Bool) :
    l.foldl (fun (mask : Array Bool) it => tab mask.size (fun j => mask.getD j false && g it j)) (tab n f0)
      = tab n (fun j => f0 j && l.all (fun it => g it j)) := by
  induction l generalizing f0 with
  | nil => simp
  | cons a l ih =>
    rw [List.foldl_cons]
    have h1 : tab (tab n f0).size (fun j => (tab n f0).getD j false && g a j) = tab n (fun j => f0 j && g a j) := by
      rw [tab_size]
      exact tab_congr n _ _ (fun i hi => by rw [tab_getD n f0 i false hi])
    rw [h1, ih]
    exact tab_congr n _ _ (fun i hi => by simp [Bool.and_assoc])

section
variable {K : Type} [Add K] [Zero K]

/-- a loop that adds one term per item to an array -/
theorem foldl_tab_add {α : Type} (l : List α) (n : ℕ) (g : α → ℕ → K) (f0 : ℕ → K) :
    l.foldl (fun (r : Array K) it => tab r.size (fun j => r.getD j 0 + g it j)) (tab n f0)
      = tab n (fun j => l.foldl (fun acc it => acc + g it j) (f0 j)) := by
  induction l generalizing f0 with
  | nil => simp
  | cons a l ih =>
    rw [List.foldl_cons]
    have h1 : tab (tab n f0).size (fun j => (tab n f0).getD j 0 + g a j) = tab n (fun j => f0 j + g a j) := by
      rw [tab_size]
      exact tab_congr n _ _ (fun i hi => by rw [tab_getD n f0 i 0 hi])
    rw [h1, ih]
    rfl

theorem foldl_add_eq_sumList {α : Type} (l : List α) (t : α → K) :
    l.foldl (fun acc it => acc + t it) 0 = sumList (l.map t) := by
  unfold sumList
  rw [List.foldl_map]

/-- Python `sum` of arrays of one size: the pointwise sum -/
theorem py_sum_arrays_eq (l : List (Array K)) (n : ℕ) (hne : l ≠ []) (hs : ∀ a ∈ l, a.size = n) :
    py_sum_arrays l = IC2.sumOfFields n l := by
  cases l with
  | nil => exact absurd rfl hne
  | cons a rest =>
    have ha : a.size = n := hs a (by simp)
    unfold py_sum_arrays IC2.sumOfFields
    simp only
    rw [ha]
    have h := foldl_tab_add rest n (fun (b : Array K) j => b.getD j 0) (fun j => 0 + a.getD j 0)
    rw [h]
    apply tab_congr
    intro j hj
    unfold sumList
    rw [List.foldl_map, List.foldl_cons]

theorem sumOfFields_size (n : ℕ) (l : List (Array K)) : (IC2.sumOfFields n l).size = n := by
  unfold IC2.sumOfFields; simp

end

end Exponax.Gen.IC2
