import ExponaxModel.Proofs.ExactLinearSemigroup
/-
C01 support, part 5: "every real state whose Fourier content lies strictly below Nyquist".

A real grid state whose stored spectrum vanishes at every mode with a Nyquist component IS a finite
superposition of cosine modes strictly below Nyquist (`exists_modes_of_bandLimited`: amplitudes
`w_h |û_h| / N^D`, phases `arg û_h`), so A2–A4 apply to it: exact solution, semigroup, inverse.
-/
set_option linter.unusedVariables false
namespace Exponax.ExactLinear
open Exponax Exponax.Layout Exponax.Transform Exponax.DFT Exponax.Gen.Etdrk Finset
open scoped ComplexConjugate

/-- the stored spectrum of `u` vanishes at every mode that is not strictly below Nyquist -/
def BandLimited (D N : ℕ) (u : Array ℂ) : Prop :=
  ∀ h < numModes D N, ¬ BelowNyquist D N (wnFlat D N h) → (rfftnM D N u).getD h 0 = 0

theorem belowNyquist_zero (D N : ℕ) (hN : 0 < N) : BelowNyquist D N (List.replicate D 0) := by
  refine ⟨by simp, ?_⟩
  intro d hd
  have : (List.replicate D (0 : ℤ)).getD d 0 = 0 := by
    simp [List.getD_eq_getElem?_getD, hd]
  rw [this]
  simpa using hN

/-- polar form of one term of the c2r sum -/
theorem re_mul_zeta (N : ℕ) (z : ℂ) (p : ℤ) :
    (z * zeta N ^ (-p)).re = ‖z‖ * Real.cos (2 * Real.pi * (p : ℝ) / N + Complex.arg z) := by
  have h := re_propagated N 0 0 (2 * ‖z‖) (Complex.arg z) 1 p
  have e : Complex.exp (((0 : ℝ) : ℂ) * 0) * ((((2 * ‖z‖ : ℝ) : ℂ)) / 2 * ((1 : ℕ) : ℂ)
      * Complex.exp ((Complex.arg z : ℂ) * Complex.I)) = z := by
    conv_rhs => rw [← Complex.norm_mul_exp_arg_mul_I z]
    push_cast
    simp
  rw [e] at h
  rw [h]
  simp

/-- **every real band-limited state is a finite superposition of modes strictly below Nyquist** -/
theorem exists_modes_of_bandLimited (D N : ℕ) (hD : 0 < D) (hN : 0 < N) (u : Array ℂ)
    (hsz : u.size = N ^ D) (hre : ∀ j < N ^ D, (u.getD j 0).im = 0) (hb : BandLimited D N u) :
    ∃ ms : Modes, (∀ m ∈ ms, BelowNyquist D N m.1) ∧ u = stateOf D N ms := by
  classical
  set U := rfftnM D N u with hU
  set f : ℕ → (List ℤ × ℝ × ℝ) := fun h =>
    if BelowNyquist D N (wnFlat D N h) then
      (wnFlat D N h, (herm_weight D N h : ℝ) * ‖U.getD h 0‖ / ((N ^ D : ℕ) : ℝ), Complex.arg (U.getD h 0))
    else (List.replicate D 0, 0, 0) with hf
  refine ⟨(List.range (numModes D N)).map f, ?_, ?_⟩
  · intro m hm
    rw [List.mem_map] at hm
    obtain ⟨h, _, rfl⟩ := hm
    simp only [hf]
    split_ifs with hB
    · exact hB
    · exact belowNyquist_zero D N hN
  · apply array_ext_getD _ _ (N ^ D) hsz (by simp)
    intro j hj
    rw [stateOf_getD D N _ j hj, List.map_map, list_range_map_sum, Complex.ofReal_sum,
      ← irfftn_rfftn D N hD hN u hre j hj, irfftnM_getD D N hN _ j hj, Finset.sum_div]
    apply Finset.sum_congr rfl
    intro h hh
    have hh' := Finset.mem_range.mp hh
    simp only [Function.comp, hf]
    rw [twiddle_eq_zpow, ← hU]
    split_ifs with hB
    · rw [re_mul_zeta]
      push_cast
      ring
    · have h0 : U.getD h 0 = 0 := hb h hh' hB
      rw [h0]
      simp

/-- **C01, state form.**  For every real grid state whose Fourier content lies strictly below Nyquist there are
    modes `(κ_m, a_m, φ_m)` below Nyquist with `u = Σ a_m cos(2π κ_m·j/N + φ_m)` and, for EVERY real `t`,
    `linStep Λ t u = Σ a_m e^{t Re λ_m} cos(2π κ_m·j/N + φ_m + t Im λ_m)`. -/
theorem linStep_bandLimited (D N : ℕ) (hD : 0 < D) (hN : 0 < N) (Λ : ℕ → ℂ) (hΛ : HermSym D N Λ)
    (u : Array ℂ) (hsz : u.size = N ^ D) (hre : ∀ j < N ^ D, (u.getD j 0).im = 0)
    (hb : BandLimited D N u) :
    ∃ ms : Modes, (∀ m ∈ ms, BelowNyquist D N m.1) ∧ u = stateOf D N ms ∧
      ∀ t : ℝ, linStep D N Λ t u = stateOf D N (evolve D N Λ t ms) := by
  obtain ⟨ms, hms, rfl⟩ := exists_modes_of_bandLimited D N hD hN u hsz hre hb
  exact ⟨ms, hms, rfl, fun t => linStep_stateOf D N hD hN Λ hΛ t ms hms⟩

/-- **A4 (semigroup)** on every real band-limited state -/
theorem linStep_iterate_bandLimited (D N : ℕ) (hD : 0 < D) (hN : 0 < N) (Λ : ℕ → ℂ) (hΛ : HermSym D N Λ)
    (u : Array ℂ) (hsz : u.size = N ^ D) (hre : ∀ j < N ^ D, (u.getD j 0).im = 0)
    (hb : BandLimited D N u) (t : ℝ) (n : ℕ) :
    (linStep D N Λ (t : ℂ))^[n] u = linStep D N Λ (((n : ℝ) * t : ℝ) : ℂ) u := by
  obtain ⟨ms, hms, rfl⟩ := exists_modes_of_bandLimited D N hD hN u hsz hre hb
  exact linStep_iterate D N hD hN Λ hΛ t ms hms n

/-- **A4 (inverse)** on every real band-limited state -/
theorem linStep_neg_bandLimited (D N : ℕ) (hD : 0 < D) (hN : 0 < N) (Λ : ℕ → ℂ) (hΛ : HermSym D N Λ)
    (u : Array ℂ) (hsz : u.size = N ^ D) (hre : ∀ j < N ^ D, (u.getD j 0).im = 0)
    (hb : BandLimited D N u) (t : ℝ) :
    linStep D N Λ ((-t : ℝ) : ℂ) (linStep D N Λ t u) = u := by
  obtain ⟨ms, hms, rfl⟩ := exists_modes_of_bandLimited D N hD hN u hsz hre hb
  exact linStep_neg D N hD hN Λ hΛ t ms hms

/-- conversely, superpositions of modes below Nyquist are band-limited -/
theorem bandLimited_stateOf (D N : ℕ) (hD : 0 < D) (hN : 0 < N) (ms : Modes)
    (hms : ∀ m ∈ ms, BelowNyquist D N m.1) : BandLimited D N (stateOf D N ms) := by
  intro h hh hB
  induction ms with
  | nil =>
    rw [stateOf, List.map_nil, vsum_nil, rfftnM_vzero D N hN, vzero_getD]
  | cons m ms ih =>
    have hm := hms m List.mem_cons_self
    rw [stateOf, List.map_cons, vsum_cons, rfftnM_vadd D N hN, vadd_getD _ _ _ _ hh]
    have ih' := ih (fun m' hm' => hms m' (List.mem_cons_of_mem _ hm'))
    rw [stateOf] at ih'
    rw [ih', add_zero]
    apply rfftnM_modeField_other D N hD hN m.1 hm _ _ h hh
    · intro he; rw [he] at hB; exact hB hm
    · intro he; rw [he] at hB; exact hB hm.negK

/-! non-vacuity -/
example : ∃ u : Array ℂ, u.size = 4 ^ 2 ∧ (∀ j < 4 ^ 2, (u.getD j 0).im = 0) ∧ BandLimited 2 4 u := by
  have hms : ∀ m ∈ ([([1, 1], 2, 0.5)] : Modes), BelowNyquist 2 4 m.1 := by
    intro m hm
    simp only [List.mem_cons, List.mem_nil_iff, or_false] at hm
    subst hm
    exact ⟨rfl, by intro d hd; interval_cases d <;> simp⟩
  exact ⟨stateOf 2 4 [([1, 1], 2, 0.5)], by simp, stateOf_real 2 4 _,
    bandLimited_stateOf 2 4 (by norm_num) (by norm_num) _ hms⟩

end Exponax.ExactLinear
