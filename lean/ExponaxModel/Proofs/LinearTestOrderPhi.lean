import ExponaxModel.Proofs.ContourTailPhi
/-
C02 support (order of accuracy) — the whole family of entire φ-functions.

`phiE k` is the entire function `φ_k(w) = Σ_n wⁿ/(n+k)!`:  `phiE 0 = exp`, and for `k ≥ 1`
`phiE k w = ∫₀¹ (1−t)^{k−1}/(k−1)! · e^{w t} dt`  (the same integral representation that
`ContourTailPhi` proves for `phi1e, phi2e, phi3e`).  We prove

 * `phiE_one/two/three` : `phiE 1 = phi1e`, `phiE 2 = phi2e`, `phiE 3 = phi3e`
   (so `phiE k` IS `Spec.phi k` off zero for `k = 1,2,3`);
 * `phiE_succ`   : the exact recurrence `φ_k(w) = 1/k! + w·φ_{k+1}(w)` (all `w`, also `w = 0`);
 * `phiE_expand` : `φ_k(w) = Σ_{j<n} w^j/(k+j)! + wⁿ·φ_{k+n}(w)` (Taylor polynomial with an exact,
   entire remainder);
 * `norm_phiE_succ_le` : `‖φ_{k+1}(w)‖ ≤ max(1, e^{Re w})/(k+1)!`;  `continuous_phiE`.
-/
set_option linter.unusedVariables false
namespace Exponax.LinearOrder
open Exponax Exponax.Spec Exponax.ContourTail intervalIntegral

/-- `phiI k w = φ_{k+1}(w) = ∫₀¹ (1−t)^k/k! · e^{w t} dt` -/
noncomputable def phiI (k : ℕ) (w : ℂ) : ℂ :=
  ∫ t in (0 : ℝ)..1, ((1 - (t : ℂ)) ^ k / (k.factorial : ℂ)) * Complex.exp (w * t)

/-- the entire φ-functions: `φ₀ = exp`, `φ_{k+1} = phiI k` -/
noncomputable def phiE : ℕ → ℂ → ℂ
  | 0 => Complex.exp
  | (k + 1) => phiI k

@[simp] theorem phiE_zero (w : ℂ) : phiE 0 w = Complex.exp w := rfl
theorem phiE_succ_eq (k : ℕ) (w : ℂ) : phiE (k + 1) w = phiI k w := rfl

/-! ### links with `phi1e, phi2e, phi3e` -/

theorem phiE_one (w : ℂ) : phiE 1 w = phi1e w := by
  rw [phi1e_eq_integral]
  simp [phiE, phiI]

theorem phiE_two (w : ℂ) : phiE 2 w = phi2e w := by
  rw [phi2e_eq_integral]
  simp [phiE, phiI]

theorem phiE_three (w : ℂ) : phiE 3 w = phi3e w := by
  rw [phi3e_eq_integral]
  simp [phiE, phiI, Nat.factorial]

/-! ### continuity -/

theorem continuous_phiI (k : ℕ) : Continuous (phiI k) :=
  continuous_weighted_integral (fun t : ℝ => (1 - (t : ℂ)) ^ k / (k.factorial : ℂ)) (by fun_prop)

theorem continuous_phiE (k : ℕ) : Continuous (phiE k) := by
  cases k with
  | zero => exact Complex.continuous_exp
  | succ k => exact continuous_phiI k

/-! ### the recurrence `φ_k(w) = 1/k! + w φ_{k+1}(w)` -/

theorem exp_eq_one_add_mul_phi1e (w : ℂ) : Complex.exp w = 1 + w * phi1e w := by
  rcases eq_or_ne w 0 with rfl | hw
  · simp
  · rw [phi1e_of_ne w hw, phi1_closed]
    field_simp
    ring

theorem phiI_succ (k : ℕ) (w : ℂ) :
    phiI k w = 1 / ((k + 1).factorial : ℂ) + w * phiI (k + 1) w := by
  have hfac : ((k + 1).factorial : ℂ) ≠ 0 := by exact_mod_cast (Nat.factorial_pos _).ne'
  have hfac' : (k.factorial : ℂ) ≠ 0 := by exact_mod_cast (Nat.factorial_pos _).ne'
  have hk1 : ((k : ℂ) + 1) ≠ 0 := by exact_mod_cast (Nat.succ_ne_zero k)
  have hfs : ((k + 1).factorial : ℂ) = ((k : ℂ) + 1) * (k.factorial : ℂ) := by
    rw [Nat.factorial_succ]; push_cast; ring
  have h : ∀ t ∈ Set.uIcc (0 : ℝ) 1,
      HasDerivAt (fun t : ℝ => -((1 - (t : ℂ)) ^ (k + 1) / ((k + 1).factorial : ℂ)) *
          Complex.exp (w * t))
        (((1 - (t : ℂ)) ^ k / (k.factorial : ℂ)) * Complex.exp (w * t)
          - w * (((1 - (t : ℂ)) ^ (k + 1) / ((k + 1).factorial : ℂ)) * Complex.exp (w * t))) t := by
    intro t _
    have h1 := (hasDerivAt_ofReal t).const_sub 1
    have h3 : HasDerivAt (fun t : ℝ => -((1 - (t : ℂ)) ^ (k + 1) / ((k + 1).factorial : ℂ)))
        (-((((k + 1 : ℕ) : ℂ)) * (1 - (t : ℂ)) ^ (k + 1 - 1) * -1 / ((k + 1).factorial : ℂ))) t :=
      ((h1.pow (k + 1)).div_const ((k + 1).factorial : ℂ)).neg
    have h2 := h3.mul (hasDerivAt_exp_mul w t)
    refine HasDerivAt.congr_deriv h2 ?_
    simp only [Nat.add_sub_cancel, hfs]
    push_cast
    field_simp
    ring
  have hc1 : Continuous fun t : ℝ =>
      ((1 - (t : ℂ)) ^ k / (k.factorial : ℂ)) * Complex.exp (w * t) := by fun_prop
  have hc2 : Continuous fun t : ℝ =>
      ((1 - (t : ℂ)) ^ (k + 1) / ((k + 1).factorial : ℂ)) * Complex.exp (w * t) := by fun_prop
  have hi := integral_eq_sub_of_hasDerivAt h
    ((hc1.sub (hc2.const_mul w) :).intervalIntegrable _ _)
  rw [integral_sub (hc1.intervalIntegrable _ _) ((hc2.const_mul w :).intervalIntegrable _ _),
    integral_const_mul] at hi
  have hb : (-((1 - ((1 : ℝ) : ℂ)) ^ (k + 1) / ((k + 1).factorial : ℂ)) *
      Complex.exp (w * ((1 : ℝ) : ℂ)) -
      -((1 - ((0 : ℝ) : ℂ)) ^ (k + 1) / ((k + 1).factorial : ℂ)) *
      Complex.exp (w * ((0 : ℝ) : ℂ))) = 1 / ((k + 1).factorial : ℂ) := by
    simp
  rw [hb] at hi
  unfold phiI
  linear_combination hi

/-- **recurrence** `φ_k(w) = 1/k! + w·φ_{k+1}(w)`, for every `k ≥ 0` and every `w` -/
theorem phiE_succ (k : ℕ) (w : ℂ) :
    phiE k w = 1 / (k.factorial : ℂ) + w * phiE (k + 1) w := by
  cases k with
  | zero =>
    rw [phiE_one, phiE_zero, exp_eq_one_add_mul_phi1e]
    simp
  | succ k => exact phiI_succ k w

/-- **Taylor polynomial with exact entire remainder**
    `φ_k(w) = Σ_{j<n} w^j/(k+j)! + wⁿ·φ_{k+n}(w)` -/
theorem phiE_expand (k n : ℕ) (w : ℂ) :
    phiE k w = (∑ j ∈ Finset.range n, w ^ j / ((k + j).factorial : ℂ)) + w ^ n * phiE (k + n) w := by
  induction n with
  | zero => simp
  | succ n ih =>
    rw [Finset.sum_range_succ, ih, phiE_succ (k + n) w]
    rw [show k + (n + 1) = k + n + 1 by ring]
    ring

/-- value at `0`: `φ_k(0) = 1/k!` -/
theorem phiE_at_zero (k : ℕ) : phiE k 0 = 1 / (k.factorial : ℂ) := by
  rw [phiE_succ k 0]; simp

/-! ### bounds -/

theorem real_int_one_sub_pow (k : ℕ) :
    ∫ t in (0 : ℝ)..1, (1 - t) ^ k / (k.factorial : ℝ) = 1 / ((k + 1).factorial : ℝ) := by
  rw [intervalIntegral.integral_div]
  have h := intervalIntegral.integral_comp_sub_left (a := (0 : ℝ)) (b := 1) (fun x : ℝ => x ^ k) 1
  rw [h, integral_pow, Nat.factorial_succ]
  have hfac' : (k.factorial : ℝ) ≠ 0 := by exact_mod_cast (Nat.factorial_pos _).ne'
  have hk1 : ((k : ℝ) + 1) ≠ 0 := by exact_mod_cast (Nat.succ_ne_zero k)
  push_cast
  field_simp
  simp

/-- `‖φ_{k+1}(w)‖ ≤ max(1, e^{Re w})/(k+1)!` -/
theorem norm_phiI_le (k : ℕ) (w : ℂ) :
    ‖phiI k w‖ ≤ max 1 (Real.exp w.re) / ((k + 1).factorial : ℝ) := by
  have h := norm_weighted_integral_le (fun t : ℝ => (1 - (t : ℂ)) ^ k / (k.factorial : ℂ))
    (fun t : ℝ => (1 - t) ^ k / (k.factorial : ℝ)) (1 / ((k + 1).factorial : ℝ)) w
    (by fun_prop) (by fun_prop) (fun t ht => by
      have : (1 - (t : ℂ)) ^ k / (k.factorial : ℂ) = (((1 - t) ^ k / (k.factorial : ℝ) : ℝ) : ℂ) := by
        push_cast; ring
      have h0 : 0 ≤ (1 - t) ^ k / (k.factorial : ℝ) :=
        div_nonneg (pow_nonneg (by linarith [ht.2]) _) (by positivity)
      rw [this, Complex.norm_real, Real.norm_eq_abs, abs_of_nonneg h0])
    (real_int_one_sub_pow k)
  unfold phiI
  calc _ ≤ 1 / ((k + 1).factorial : ℝ) * max 1 (Real.exp w.re) := h
    _ = _ := by ring

theorem norm_phiE_succ_le (k : ℕ) (w : ℂ) :
    ‖phiE (k + 1) w‖ ≤ max 1 (Real.exp w.re) / ((k + 1).factorial : ℝ) := norm_phiI_le k w

/-- `‖φ_k(w)‖ ≤ e^{‖w‖}/k!` for every `k` -/
theorem norm_phiE_le (k : ℕ) (w : ℂ) :
    ‖phiE k w‖ ≤ Real.exp ‖w‖ / (k.factorial : ℝ) := by
  have hre : w.re ≤ ‖w‖ := Complex.re_le_norm w
  cases k with
  | zero =>
    simp only [phiE_zero, Nat.factorial_zero, Nat.cast_one, div_one, Complex.norm_exp]
    exact Real.exp_le_exp.mpr hre
  | succ k =>
    refine (norm_phiE_succ_le k w).trans ?_
    refine div_le_div_of_nonneg_right ?_ (by positivity)
    exact max_le (Real.one_le_exp (norm_nonneg w)) (Real.exp_le_exp.mpr hre)

end Exponax.LinearOrder
