import ExponaxModel.Proofs.NonlinFunsBasic
/-
The nonlinear functions, tied to the source by translation.

`Generated/NonlinFuns.lean` is regenerated (harness/translate_nonlin.py) from the `__call__` / `__init__` methods of
EVERY class deriving from `BaseNonlinearFun` under exponax/ (exponax/nonlin_fun/*.py and the reaction steppers'
nonlinear functions).  Here every regenerated `<Class>_call` is proved EQUAL (as arrays, at `K := ℂ`) to the
hand-written model function of `Model/Nonlin.lean` about which the theorems of `Proofs/` and `Properties/` are
stated; hypotheses are exactly the guards the source raises on (`C = c.D`, `C = 3`, `c.D = 3`, …), the one shape
assumption the source relies on without checking it (`C = 1` for the non-conservative single-channel convection),
`0 < C` where the source indexes channel 0, and for the Kolmogorov vorticity forcing the realness of the scale
`c.s = 2π/L` (the source takes `.imag` of the derivative operator, the model writes the real number down).

Method: `unfold` both sides; `norm` reads stored intermediate arrays through the row transforms; `rdd` is `simp`
with the congruence lemmas of `tab`/`tab2`/`tabC`/`sumRange` (inside which the index is in range), so that stored
arrays are read at in-range indices only.
-/
set_option linter.unusedVariables false
namespace Exponax.NonlinFunsEq
open Exponax Exponax.Layout Exponax.Transform Exponax.Nonlin Exponax.Gen.NonlinFuns

attribute [local congr] tab_congr' tab2_congr' tabC_congr' sumRange_congr'

/-- normal form of the generated pipelines: stored intermediate arrays are read through the row transforms -/
macro "norm" : tactic => `(tactic| simp only [at2_flat_self, fft_rows, fft_rows', ifft_rows, ifft_channels, nfft_tab,
  nifft_tab, ↓reduceIte, Bool.false_eq_true])

/-- read stored arrays at the (in-range) indices under the tabulations; small powers, literals, the regenerated
    Laplace operator and the model's guarded inverses -/
macro "rdd" : tactic => `(tactic| simp (disch := omega) only
  [at2_tab2_flat, at2_tabC_flat, at2_tab2, at2_tabC, tab_getD, tabC_getD, tab2_getD, flat_div, flat_mod,
   at2_flat_self, npow_two, npow_three, lit_one, lit_zero, laplace_op_deriv, invLapOne, invLapZero, polyEval,
   getD_two, getD_three, ite_bnot, two_ne_zero', two_ne_one', one_ne_zero', ↓reduceIte, Bool.false_eq_true])

/-- both -/
macro "auto" : tactic => `(tactic| ((try norm); (try rdd)))

/-! ### the base class: `self.fft`, `self.ifft`, `self.dealias` are the model's `nfft`, `nifft`, `mask`

These are the primitives of every other regenerated definition; they are themselves regenerated from
`BaseNonlinearFun` (over `Transform.rfftnM` / `irfftnM` = `jnp.fft.rfftn` / `irfftn`, and the Boolean low-pass mask
`Layout.dealiasMask`; "no mask" is `c.fq = 0`). -/

theorem BaseNonlinearFun_fft_eq (c : Cfg ℂ) (C : ℕ) (u : MC ℂ) :
    BaseNonlinearFun_fft c C u = tabC C (fun i => nfft c (u.getD i #[])) := by
  unfold BaseNonlinearFun_fft
  by_cases hq : c.fq = 0
  · simp only [hq, ne_eq, not_true_eq_false, ↓reduceIte]
    apply tabC_congr; intro i hi
    unfold nfft mask
    simp only [hq, ↓reduceIte, one_mul]
    exact (rfftnM_at2 c u i).trans (rfftnM_retab c.D c.N _).symm
  · simp only [hq, ne_eq, not_false_eq_true, ↓reduceIte]
    rw [tab2_eq_tabC]
    apply tabC_congr; intro i hi
    unfold nfft mask
    simp only [if_neg hq]
    apply tab_congr; intro h hh
    rw [at2_tabC _ _ _ _ hi, rfftnM_at2]

theorem BaseNonlinearFun_ifft_eq (c : Cfg ℂ) (C : ℕ) (uh : MC ℂ) :
    BaseNonlinearFun_ifft c C uh = tabC C (fun i => nifft c (uh.getD i #[])) := by
  unfold BaseNonlinearFun_ifft
  by_cases hq : c.fq = 0
  · simp only [hq, ne_eq, not_true_eq_false, ↓reduceIte]
    apply tabC_congr; intro i hi
    unfold nifft mask
    simp only [hq, ↓reduceIte, one_mul]
    rfl
  · simp only [hq, ne_eq, not_false_eq_true, ↓reduceIte]
    apply tabC_congr; intro i hi
    unfold nifft mask
    simp only [if_neg hq]
    congr 1
    apply tab_congr; intro h hh
    rw [at2_tab2 _ _ _ _ _ hi hh]
    rfl

theorem BaseNonlinearFun_dealias_eq (c : Cfg ℂ) (hq : c.fq ≠ 0) (C : ℕ) (uh : MC ℂ) :
    BaseNonlinearFun_dealias c C uh = tab2 C (modes c) (fun i h => mask c h * at2 uh i h) := by
  unfold BaseNonlinearFun_dealias mask
  simp only [if_neg hq]

/-! ### polynomial, zero -/

theorem PolynomialNonlinearFun_call_eq (c : Cfg ℂ) (C : ℕ) (coeffs : List ℂ) (uh : MC ℂ) :
    PolynomialNonlinearFun_call c C coeffs uh = polynomial c C coeffs uh := by
  unfold PolynomialNonlinearFun_call polynomial
  auto

theorem ZeroNonlinearFun_call_eq (c : Cfg ℂ) (C : ℕ) (uh : MC ℂ) :
    ZeroNonlinearFun_call c C uh = tab2 C (modes c) (fun _ _ => 0) := rfl

/-! ### `ConvectionNonlinearFun`: the four evaluation variants and the dispatch -/

theorem Convection_single_conservative_eq (c : Cfg ℂ) (C : ℕ) (scale : ℂ) (uh : MC ℂ) :
    ConvectionNonlinearFun__single_channel_conservative_eval c C scale uh = convection c C scale true true uh := by
  unfold ConvectionNonlinearFun__single_channel_conservative_eval convection
  auto

/-- the source relies on `C = 1` here without checking it (broadcast of `(D, …)` against `(C, …)`) -/
theorem Convection_single_nonconservative_eq (c : Cfg ℂ) (scale : ℂ) (uh : MC ℂ) :
    ConvectionNonlinearFun__single_channel_nonconservative_eval c 1 scale uh = convection c 1 scale true false uh := by
  unfold ConvectionNonlinearFun__single_channel_nonconservative_eval convection
  auto

theorem Convection_multi_conservative_eq (c : Cfg ℂ) (C : ℕ) (hC : C = c.D) (scale : ℂ) (uh : MC ℂ) :
    ConvectionNonlinearFun__multi_channel_conservative_eval c C scale uh = convection c C scale false true uh := by
  subst hC
  unfold ConvectionNonlinearFun__multi_channel_conservative_eval convection
  auto

theorem Convection_multi_nonconservative_eq (c : Cfg ℂ) (C : ℕ) (hC : C = c.D) (scale : ℂ) (uh : MC ℂ) :
    ConvectionNonlinearFun__multi_channel_nonconservative_eval c C scale uh = convection c C scale false false uh := by
  subst hC
  unfold ConvectionNonlinearFun__multi_channel_nonconservative_eval convection
  auto

/-- the dispatch of `ConvectionNonlinearFun.__call__`; the hypothesis is the guard of the multi-channel variants
    (`C = c.D`), resp. the unchecked single-channel assumption `C = 1` of the non-conservative single-channel form -/
theorem ConvectionNonlinearFun_call_eq (c : Cfg ℂ) (C : ℕ) (scale : ℂ) (single conservative : Bool) (uh : MC ℂ)
    (hC : if single then (conservative = false → C = 1) else C = c.D) :
    ConvectionNonlinearFun_call c C scale single conservative uh = convection c C scale single conservative uh := by
  unfold ConvectionNonlinearFun_call
  cases single <;> cases conservative <;> simp only [↓reduceIte, Bool.false_eq_true] at hC ⊢
  · exact Convection_multi_nonconservative_eq c C hC scale uh
  · exact Convection_multi_conservative_eq c C hC scale uh
  · obtain rfl := hC trivial
    exact Convection_single_nonconservative_eq c scale uh
  · exact Convection_single_conservative_eq c C scale uh

/-! ### gradient norm, general -/

theorem GradientNormNonlinearFun_call_eq (c : Cfg ℂ) (C : ℕ) (scale : ℂ) (zeroFix : Bool) (uh : MC ℂ) :
    GradientNormNonlinearFun_call c C zeroFix scale uh = gradientNorm c C scale zeroFix uh := by
  unfold GradientNormNonlinearFun_call gradientNorm
  cases zeroFix <;> auto

theorem GeneralNonlinearFun_call_eq (c : Cfg ℂ) (C : ℕ) (s0 s1 s2 : ℂ) (zeroFix : Bool) (uh : MC ℂ) :
    GeneralNonlinearFun_call c C (s0, s1, s2) zeroFix uh = general c C s0 s1 s2 zeroFix uh := by
  unfold GeneralNonlinearFun_call general
  simp only [PolynomialNonlinearFun_call_eq, GradientNormNonlinearFun_call_eq, lit_zero,
    ConvectionNonlinearFun_call_eq c C (-s1) true true uh (by simp)]

/-! ### reaction terms -/

theorem GrayScottNonlinearFun_call_eq (c : Cfg ℂ) (C : ℕ) (hC : C = 2) (feed kill : ℂ) (uh : MC ℂ) :
    GrayScottNonlinearFun_call c C feed kill uh = reaction c C (grayScottReact feed kill) uh := by
  subst hC
  unfold GrayScottNonlinearFun_call reaction
  norm
  simp only [grayScottReact, map_range_two]
  rdd

theorem BelousovZhabotinskyNonlinearFun_call_eq (c : Cfg ℂ) (C : ℕ) (hC : C = 3) (uh : MC ℂ) :
    BelousovZhabotinskyNonlinearFun_call c C uh = reaction c C bzReact uh := by
  subst hC
  unfold BelousovZhabotinskyNonlinearFun_call reaction
  norm
  simp only [bzReact, map_range_three]
  rdd

theorem CahnHilliardNonlinearFun_call_eq (c : Cfg ℂ) (C : ℕ) (hC : 0 < C) (scale : ℂ) (uh : MC ℂ) :
    CahnHilliardNonlinearFun_call c C scale uh = cahnHilliard c scale uh := by
  unfold CahnHilliardNonlinearFun_call cahnHilliard CahnHilliardNonlinearFun_init_laplace_operator
  auto

/-! ### Leray projection, vorticity convection -/

theorem Leray_call_eq (c : Cfg ℂ) (uh : MC ℂ) : Leray_call c 2 uh = leray c uh := by
  unfold Leray_call leray Leray_init_inv_laplacian
  auto

theorem VorticityConvection2d_call_eq (c : Cfg ℂ) (scale : ℂ) (uh : MC ℂ) :
    VorticityConvection2d_call c scale uh = vorticity2d c scale none uh := by
  unfold VorticityConvection2d_call vorticity2d VorticityConvection2d_init_inv_laplacian
  auto

/-! ### Kolmogorov forcing, projected 3-D convection -/

/-- `.imag` of the derivative operator for a real scale `c.s = 2π/L` -/
theorem im_deriv (c : Cfg ℂ) (s : ℝ) (hs : c.s = (s : ℂ)) (d h : ℕ) :
    HasIm.im (deriv c d h) = c.s * (((wnFlat c.D c.N h).getD d 0 : ℤ) : ℂ) := by
  rw [deriv_eq_real c s hs, hs]
  show (((Complex.I * ((s * (kInt c d h : ℝ) : ℝ) : ℂ)).im : ℝ) : ℂ) = _
  rw [Complex.mul_im, Complex.I_re, Complex.I_im, Complex.ofReal_im, Complex.ofReal_re]
  unfold kInt
  push_cast
  ring

theorem VorticityConvection2dKolmogorov_call_eq (c : Cfg ℂ) (s : ℝ) (hs : c.s = (s : ℂ)) (scale : ℂ) (m : ℕ) (gam : ℂ)
    (uh : MC ℂ) :
    VorticityConvection2dKolmogorov_call c scale m gam uh = vorticity2d c scale (some (m, gam)) uh := by
  unfold VorticityConvection2dKolmogorov_call VorticityConvection2dKolmogorov_init_injection
  rw [VorticityConvection2d_call_eq]
  unfold vorticity2d
  auto
  simp only [im_deriv c s hs]
  congr 1; funext ch i
  split_ifs <;> rfl

theorem leray_retab (c : Cfg ℂ) (hD : c.D = 3) (X : MC ℂ) :
    tab2 3 (modes c) (fun ch i => at2 (leray c X) ch i) = leray c X := by
  unfold leray
  simp only [hD]
  rdd

theorem ProjectedConvection3d_call_eq (c : Cfg ℂ) (hD : c.D = 3) (uh : MC ℂ) :
    ProjectedConvection3d_call c uh = projected3d c none uh := by
  unfold ProjectedConvection3d_call projected3d
  simp only [Leray_call_eq, cross_product_3d_M, cross_product_3d_G, proj3, Gen.Misc.cross_product_3d]
  auto
  exact (leray_retab c hD _).symm

theorem ProjectedConvection3dKolmogorov_call_eq (c : Cfg ℂ) (hD : c.D = 3) (m : ℕ) (hm : 0 < m) (gam : ℂ) (uh : MC ℂ) :
    ProjectedConvection3dKolmogorov_call c m gam uh = projected3d c (some (m, gam)) uh := by
  unfold ProjectedConvection3dKolmogorov_call ProjectedConvection3dKolmogorov_init_injection
  rw [ProjectedConvection3d_call_eq c hD]
  unfold projected3d
  simp only [hD]
  auto
  congr 1; funext ch i
  generalize at2 (leray c _) ch i = P
  generalize (wnFlat 3 c.N i).getD 0 0 = k0
  generalize (wnFlat 3 c.N i).getD 1 0 = k1
  generalize (wnFlat 3 c.N i).getD 2 0 = k2
  generalize gam * scaling 3 c.N 2 _ = amp
  have hm0 : m ≠ 0 := by omega
  by_cases hch : ch = 0
  · subst hch
    by_cases h1 : k1 = (m : ℤ) <;> by_cases h2 : k1 = -(m : ℤ) <;> cases hA : (k0 == 0 && k2 == 0) <;>
      simp [h1, h2, hA, hm0]
  · simp [hch]
/-- DISCREPANCY (junk input `injection_mode = 0`): the source's forcing array is then identically zero (the two
    conjugate masks coincide and `-i·a + i·a = 0`), whereas `Nonlin.projected3d c (some (0, γ))` adds `-i·γ·scaling`
    at the zero mode; hence the hypothesis `0 < m` above. -/
theorem ProjectedConvection3dKolmogorov_injection_mode_zero (c : Cfg ℂ) (gam : ℂ) (i h : ℕ) (hi : i < 3)
    (hh : h < modes c) : at2 (ProjectedConvection3dKolmogorov_init_injection c 0 gam) i h = 0 := by
  unfold ProjectedConvection3dKolmogorov_init_injection
  rdd
  simp only [Nat.cast_zero, neg_zero]
  split_ifs <;> ring

/-! ### the generated lists are pinned: a new class / definition without a theorem breaks the build -/

theorem generated_classes_pinned : generated_classes =
    ["BelousovZhabotinskyNonlinearFun", "CahnHilliardNonlinearFun", "ConvectionNonlinearFun", "GeneralNonlinearFun",
     "GradientNormNonlinearFun", "GrayScottNonlinearFun", "Leray", "PolynomialNonlinearFun", "ProjectedConvection3d",
     "ProjectedConvection3dKolmogorov", "VorticityConvection2d", "VorticityConvection2dKolmogorov",
     "ZeroNonlinearFun"] := rfl

theorem inherited_classes_pinned : inherited_classes = [] := rfl

theorem generated_defs_pinned : generated_defs =
    ["BaseNonlinearFun_fft",
     "BaseNonlinearFun_ifft",
     "BaseNonlinearFun_dealias",
     "BelousovZhabotinskyNonlinearFun_call",
     "CahnHilliardNonlinearFun_init_laplace_operator",
     "CahnHilliardNonlinearFun_call",
     "ConvectionNonlinearFun__single_channel_conservative_eval",
     "ConvectionNonlinearFun__single_channel_nonconservative_eval",
     "ConvectionNonlinearFun__multi_channel_conservative_eval",
     "ConvectionNonlinearFun__multi_channel_nonconservative_eval",
     "ConvectionNonlinearFun_call",
     "PolynomialNonlinearFun_call",
     "GradientNormNonlinearFun_call",
     "GeneralNonlinearFun_call",
     "GrayScottNonlinearFun_call",
     "Leray_init_inv_laplacian",
     "Leray_call",
     "cross_product_3d_M",
     "cross_product_3d_G",
     "ProjectedConvection3d_call",
     "ProjectedConvection3dKolmogorov_init_injection",
     "ProjectedConvection3dKolmogorov_call",
     "VorticityConvection2d_init_inv_laplacian",
     "VorticityConvection2d_call",
     "VorticityConvection2dKolmogorov_init_injection",
     "VorticityConvection2dKolmogorov_call",
     "ZeroNonlinearFun_call"] := rfl

end Exponax.NonlinFunsEq
