import ExponaxModel.Proofs.ExactLinearModes
/-
C01 support, part 2: which wave vectors are stored in the half layout.

* `wnFlat_inj`          : distinct stored flat indices carry distinct wave vectors;
* `wnFlat_last_nonneg`  : the last component of a stored wave vector is `≥ 0`;
* `modeIdx D N κ`       : the explicit flat index of `κ` (below Nyquist, `κ_last ≥ 0`), with
  `wnFlat D N (modeIdx D N κ) = κ`, `modeIdx D N κ < numModes D N`, and uniqueness.
-/
set_option linter.unusedVariables false
namespace Exponax.ExactLinear
open Exponax Exponax.Layout Exponax.Transform Exponax.DFT Finset

/-- the last component of a stored wave vector is non-negative -/
theorem wnFlat_last_nonneg (D N h : ℕ) (hD : 0 < D) : 0 ≤ (wnFlat D N h).getD (D - 1) 0 := by
  rw [wnFlat_getD' D N h (D - 1) (by omega), wn_last D N _ (D - 1) (by omega)]
  positivity

/-- distinct stored modes carry distinct wave vectors -/
theorem wnFlat_inj (D N : ℕ) (hD : 0 < D) (hN : 0 < N) (h h' : ℕ) (hh : h < numModes D N)
    (hh' : h' < numModes D N) (he : wnFlat D N h = wnFlat D N h') : h = h' := by
  have hpos := wavenumberShape_pos D N hN
  have hidx : ∀ d < D, (unflatten (wavenumberShape D N) h).getD d 0
      = (unflatten (wavenumberShape D N) h').getD d 0 := by
    intro d hd
    have h1 : (wnFlat D N h).getD d 0 = (wnFlat D N h').getD d 0 := by rw [he]
    rw [wnFlat_getD' D N h d hd, wnFlat_getD' D N h' d hd] at h1
    have hlt := unflatten_getD_lt (wavenumberShape D N) hpos h hh d
      (by rw [wavenumberShape_length D N hD]; exact hd)
    have hlt' := unflatten_getD_lt (wavenumberShape D N) hpos h' hh' d
      (by rw [wavenumberShape_length D N hD]; exact hd)
    rw [wavenumberShape_getD D N d hd] at hlt hlt'
    by_cases hl : d + 1 = D
    · rw [wn_last D N _ d hl, wn_last D N _ d hl] at h1
      exact_mod_cast h1
    · rw [wn_leading D N _ d hl, wn_leading D N _ d hl] at h1
      rw [if_neg hl] at hlt hlt'
      exact fftfreq_injOn N _ _ hlt hlt' h1
  have heq : unflatten (wavenumberShape D N) h = unflatten (wavenumberShape D N) h' := by
    apply List.ext_getElem
    · rw [unflatten_length, unflatten_length]
    · intro d h1 h2
      have hd : d < D := by
        rw [unflatten_length, wavenumberShape_length D N hD] at h1; exact h1
      have e := hidx d hd
      rw [List.getD_eq_getElem?_getD, List.getD_eq_getElem?_getD, List.getElem?_eq_getElem h1,
        List.getElem?_eq_getElem h2] at e
      simpa using e
  have f1 := flatten_unflatten (wavenumberShape D N) hpos h hh
  have f2 := flatten_unflatten (wavenumberShape D N) hpos h' hh'
  rw [← f1, heq, f2]

/-- stored multi-index of the wave vector `κ` -/
def modeIdxList (D N : ℕ) (κ : List ℤ) : List ℕ :=
  (List.range D).map (fun d => if d + 1 = D then (κ.getD d 0).toNat else fftfreqInv N (κ.getD d 0))

/-- stored flat index of the wave vector `κ` -/
def modeIdx (D N : ℕ) (κ : List ℤ) : ℕ := flatten (wavenumberShape D N) (modeIdxList D N κ)

theorem modeIdxList_getD (D N : ℕ) (κ : List ℤ) (d : ℕ) (hd : d < D) :
    (modeIdxList D N κ).getD d 0
      = if d + 1 = D then (κ.getD d 0).toNat else fftfreqInv N (κ.getD d 0) := by
  simp [modeIdxList, List.getD_eq_getElem?_getD, hd]

theorem modeIdxList_lt (D N : ℕ) (hD : 0 < D) (hN : 0 < N) (κ : List ℤ) (hκ : BelowNyquist D N κ)
    (hlast : 0 ≤ κ.getD (D - 1) 0) :
    List.Forall₂ (· < ·) (modeIdxList D N κ) (wavenumberShape D N) := by
  rw [List.forall₂_iff_get]
  refine ⟨by simp [modeIdxList, wavenumberShape_length D N hD], ?_⟩
  intro d h1 h2
  have hd : d < D := by simpa [modeIdxList] using h1
  have hw := wavenumberShape_getD D N d hd
  rw [List.getD_eq_getElem?_getD, List.getElem?_eq_getElem h2] at hw
  simp only [Option.getD_some] at hw
  have hm := modeIdxList_getD D N κ d hd
  rw [List.getD_eq_getElem?_getD, List.getElem?_eq_getElem h1] at hm
  simp only [Option.getD_some] at hm
  rw [List.get_eq_getElem, List.get_eq_getElem, hw, hm]
  have hb := hκ.2 d hd
  have b1 : κ.getD d 0 ≤ |κ.getD d 0| := le_abs_self _
  have b2 : -(κ.getD d 0) ≤ |κ.getD d 0| := neg_le_abs _
  split_ifs with hl
  · have hdl : D - 1 = d := by omega
    rw [hdl] at hlast
    omega
  · apply fftfreqInv_lt N _ hN <;> omega

theorem modeIdx_lt (D N : ℕ) (hD : 0 < D) (hN : 0 < N) (κ : List ℤ) (hκ : BelowNyquist D N κ)
    (hlast : 0 ≤ κ.getD (D - 1) 0) : modeIdx D N κ < numModes D N :=
  flatten_lt _ _ (modeIdxList_lt D N hD hN κ hκ hlast)

/-- the constructed index carries `κ` -/
theorem wnFlat_modeIdx (D N : ℕ) (hD : 0 < D) (hN : 0 < N) (κ : List ℤ) (hκ : BelowNyquist D N κ)
    (hlast : 0 ≤ κ.getD (D - 1) 0) : wnFlat D N (modeIdx D N κ) = κ := by
  apply list_ext_getD _ _ D (wnFlat_length D N _) hκ.1
  intro d hd
  rw [wnFlat_getD' D N _ d hd, modeIdx, unflatten_flatten _ _ (modeIdxList_lt D N hD hN κ hκ hlast)]
  have hb := hκ.2 d hd
  have b1 : κ.getD d 0 ≤ |κ.getD d 0| := le_abs_self _
  have b2 : -(κ.getD d 0) ≤ |κ.getD d 0| := neg_le_abs _
  by_cases hl : d + 1 = D
  · rw [wn_last D N _ d hl, modeIdxList_getD D N κ d hd, if_pos hl]
    have hdl : D - 1 = d := by omega
    rw [hdl] at hlast
    omega
  · rw [wn_leading D N _ d hl, modeIdxList_getD D N κ d hd, if_neg hl]
    apply fftfreq_fftfreqInv N _ hN <;> omega

/-- every wave vector strictly below Nyquist with non-negative last component is the wave vector of exactly
    one stored mode -/
theorem stored_existsUnique (D N : ℕ) (hD : 0 < D) (hN : 0 < N) (κ : List ℤ) (hκ : BelowNyquist D N κ)
    (hlast : 0 ≤ κ.getD (D - 1) 0) : ∃! h, h < numModes D N ∧ wnFlat D N h = κ := by
  refine ⟨modeIdx D N κ, ⟨modeIdx_lt D N hD hN κ hκ hlast, wnFlat_modeIdx D N hD hN κ hκ hlast⟩, ?_⟩
  rintro h ⟨hh, hk⟩
  exact wnFlat_inj D N hD hN h _ hh (modeIdx_lt D N hD hN κ hκ hlast)
    (by rw [hk, wnFlat_modeIdx D N hD hN κ hκ hlast])

/-- the stored partner (wave vector `-κ`) exists exactly on the last-axis DC column -/
theorem partner_stored_iff (D N : ℕ) (hD : 0 < D) (hN : 0 < N) (κ : List ℤ) (hκ : BelowNyquist D N κ)
    (hlast : 0 ≤ κ.getD (D - 1) 0) :
    (∃ h, h < numModes D N ∧ wnFlat D N h = negK κ) ↔ κ.getD (D - 1) 0 = 0 := by
  constructor
  · rintro ⟨h, _, hk⟩
    have := wnFlat_last_nonneg D N h hD
    rw [hk, negK_getD] at this
    omega
  · intro h0
    have hl : 0 ≤ (negK κ).getD (D - 1) 0 := by rw [negK_getD, h0]; simp
    exact ⟨modeIdx D N (negK κ), modeIdx_lt D N hD hN _ hκ.negK hl,
      wnFlat_modeIdx D N hD hN _ hκ.negK hl⟩

/-- the weight of a stored mode in the c2r transform, read off its wave vector -/
theorem herm_weight_of_wn (D N h : ℕ) (hD : 0 < D) :
    herm_weight D N h
      = if (wnFlat D N h).getD (D - 1) 0 = 0 ∨
          (N % 2 = 0 ∧ (wnFlat D N h).getD (D - 1) 0 = ((N / 2 : ℕ) : ℤ)) then 1 else 2 := by
  rw [wnFlat_getD' D N h (D - 1) (by omega), wn_last D N _ (D - 1) (by omega)]
  unfold herm_weight
  simp only [Nat.cast_inj, Nat.cast_eq_zero]

/-- A1(a) at the explicit index: `û[modeIdx κ] = (a/2)·N^D·e^{iφ}` for `κ ≠ 0`, `κ_last ≥ 0` -/
theorem rfftnM_modeField_modeIdx (D N : ℕ) (hD : 0 < D) (hN : 0 < N) (κ : List ℤ) (hκ : BelowNyquist D N κ)
    (hlast : 0 ≤ κ.getD (D - 1) 0) (hne : ∃ d < D, κ.getD d 0 ≠ 0) (a φ : ℝ) :
    (rfftnM D N (modeField D N κ a φ)).getD (modeIdx D N κ) 0
      = (a / 2 : ℂ) * ((N ^ D : ℕ) : ℂ) * Complex.exp (φ * Complex.I) :=
  rfftnM_modeField_at D N hD hN κ hκ hne a φ _ (modeIdx_lt D N hD hN κ hκ hlast)
    (wnFlat_modeIdx D N hD hN κ hκ hlast)

/-- A1(b) at the explicit index: for `κ ≠ 0` on the last-axis DC column the stored partner `modeIdx (-κ)`
    carries the conjugate coefficient -/
theorem rfftnM_modeField_modeIdx_partner (D N : ℕ) (hD : 0 < D) (hN : 0 < N) (κ : List ℤ)
    (hκ : BelowNyquist D N κ) (hlast : κ.getD (D - 1) 0 = 0) (hne : ∃ d < D, κ.getD d 0 ≠ 0) (a φ : ℝ) :
    (rfftnM D N (modeField D N κ a φ)).getD (modeIdx D N (negK κ)) 0
      = (starRingEnd ℂ) ((a / 2 : ℂ) * ((N ^ D : ℕ) : ℂ) * Complex.exp (φ * Complex.I)) := by
  have hl : 0 ≤ (negK κ).getD (D - 1) 0 := by rw [negK_getD, hlast]; simp
  exact rfftnM_modeField_partner D N hD hN κ hκ hne a φ _ (modeIdx_lt D N hD hN _ hκ.negK hl)
    (wnFlat_modeIdx D N hD hN _ hκ.negK hl)

/-! non-vacuity -/
example : ∃ h, h < numModes 2 4 ∧ wnFlat 2 4 h = [1, 1] ∧ ∃ d < 2, ([1, 1] : List ℤ).getD d 0 ≠ 0 := by
  have hκ : BelowNyquist 2 4 [1, 1] := ⟨rfl, by intro d hd; interval_cases d <;> simp⟩
  obtain ⟨h, ⟨h1, h2⟩, _⟩ := stored_existsUnique 2 4 (by norm_num) (by norm_num) [1, 1] hκ (by decide)
  exact ⟨h, h1, h2, 0, by norm_num, by decide⟩
example : ∃ h, h < numModes 2 4 ∧ wnFlat 2 4 h = negK [-1, 0] := by
  have hκ : BelowNyquist 2 4 [-1, 0] := ⟨rfl, by intro d hd; interval_cases d <;> simp⟩
  exact (partner_stored_iff 2 4 (by norm_num) (by norm_num) [-1, 0] hκ (by decide)).mpr (by decide)
example : BelowNyquist 3 8 [3, -2, 1] ∧ 0 ≤ ([3, -2, 1] : List ℤ).getD (3 - 1) 0 := by
  refine ⟨⟨rfl, ?_⟩, by decide⟩
  intro d hd
  interval_cases d <;> simp
example : BelowNyquist 2 5 [-2, 0] ∧ ([-2, 0] : List ℤ).getD (2 - 1) 0 = 0 := by
  refine ⟨⟨rfl, ?_⟩, by decide⟩
  intro d hd
  interval_cases d <;> simp

end Exponax.ExactLinear
