import ExponaxModel.Proofs.AxisPermSteps
import ExponaxModel.Proofs.AliasND2Vort
/-
SmallGaps3, part K4 (C08): axis-permutation invariance of the REMAINING nonlinear model terms
(`Proofs/AxisPermTerms.lean` covers polynomial, single- and multi-channel convection, gradient norm, general).

Same setting as there (`PermCfg c`: `D ≥ 1`, `N ≥ 1`, real `s`, `NyqCfg c`; Nyquist-free stored spectra related by
`MCSpecPerm c σ id`; channels not permuted), every dimension `D`, every permutation `σ` of the axes:

  * `cahnHilliard_mcSpecPerm`   `CahnHilliardNonlinearFun` (`scale · Δ̂ · fft(u³)`, real scale; isotropic, single channel),
  * `reaction_mcSpecPerm`       `reaction c C react` for ANY pointwise reaction map that sends real lists to real lists,
  * `grayScott_mcSpecPerm`, `bz_mcSpecPerm`  the two reaction maps of the library (real feed / kill rates),
  * `*_termPerm`                the same as `AxisPerm.TermPerm`, so that the step-level theorems `AxisPerm.E?_axisPerm_physical`
                                 apply verbatim (corollaries `E4_axisPerm_cahnHilliard`, `E4_axisPerm_reaction`).

Both terms mask the input TWICE (`ifft(mask·(mask·û))`): `masked_nifft_fieldPerm`.
The pseudo-scalar 2-D vorticity term is in `SmallGaps3AxisPermVort.lean`.
-/
set_option linter.unusedVariables false
namespace Exponax.SmallGaps3
open Exponax Exponax.Layout Exponax.Transform Exponax.DFT Exponax.AliasND Exponax.Nonlin Exponax.Alias Exponax.AxisPerm
open Finset
open Exponax.Gen.Etdrk
open Exponax.EquivND (liftTermND specMC physCh)

/-! ### building blocks -/

/-- the doubly masked inverse transform used by `cahnHilliard` and `reaction` -/
theorem masked_nifft_fieldPerm (c : Cfg ℂ) (hD : 0 < c.D) (hN : 0 < c.N) (σ : Equiv.Perm (Fin c.D)) (a a' : Array ℂ)
    (h : SpecPerm c.D c.N σ a a') :
    FieldPerm c.D c.N σ (nifft c (tab (modes c) fun m => mask c m * a.getD m 0))
      (nifft c (tab (modes c) fun m => mask c m * a'.getD m 0)) := by
  have key := nifft_mul_fieldPerm c hD hN σ (maskFn c) (maskFn_neg c) a a' h
  have e1 : (tab (modes c) fun m => mask c m * a.getD m 0)
      = tab (modes c) fun m => maskFn c (kvec c.D c.N m) * a.getD m 0 :=
    Nonlin.tab_congr _ _ _ (fun m _ => by rw [mask_eq_maskFn])
  have e2 : (tab (modes c) fun m => mask c m * a'.getD m 0)
      = tab (modes c) fun m => maskFn c (kvec c.D c.N m ∘ σ) * a'.getD m 0 :=
    Nonlin.tab_congr _ _ _ (fun m _ => by rw [mask_eq_maskFn, maskFn_comp])
  rw [e1, e2]
  exact key

theorem s_eq_re (c : Cfg ℂ) (hs : c.s.im = 0) : c.s = ((c.s.re : ℝ) : ℂ) := by
  apply Complex.ext
  · simp
  · simp [hs]

theorem lapsym_comp (c : Cfg ℂ) (σ : Equiv.Perm (Fin c.D)) (k : Fin c.D → ℤ) : lapsym c (k ∘ σ) = lapsym c k := by
  rw [lapsym_eq, lapsym_eq]
  congr 2
  exact Equiv.sum_comp σ (fun d => ((k d : ℤ) : ℂ) ^ 2)

theorem lapsym_conj_neg (c : Cfg ℂ) (hs : c.s.im = 0) (k : Fin c.D → ℤ) :
    lapsym c (-k) = (starRingEnd ℂ) (lapsym c k) := by
  rw [lapsym_neg, conj_lapsym c c.s.re (s_eq_re c hs)]

theorem getD_im_real (l : List ℂ) (hl : ∀ x ∈ l, x.im = 0) (i : ℕ) : (l.getD i 0).im = 0 := by
  rw [List.getD_eq_getElem?_getD]
  by_cases hi : i < l.length
  · rw [List.getElem?_eq_getElem hi, Option.getD_some]
    exact hl _ (List.getElem_mem hi)
  · rw [List.getElem?_eq_none (not_lt.mp hi), Option.getD_none]
    simp

theorem tab2_getD' (nc n : ℕ) (f : ℕ → ℕ → ℂ) (ch : ℕ) (hch : ch < nc) :
    (tab2 nc n f).getD ch #[] = tab n (f ch) := by
  unfold tab2
  rw [Nonlin.tab_getD _ _ _ _ hch]

/-! ### Cahn–Hilliard -/

/-- **K4, Cahn–Hilliard nonlinearity** (`scale · Δ̂ · fft(u³)`), real scale -/
theorem cahnHilliard_mcSpecPerm (c : Cfg ℂ) (hc : PermCfg c) (σ : Equiv.Perm (Fin c.D)) (scale : ℂ)
    (hsc : scale.im = 0) (uh uh' : MC ℂ) (h : MCSpecPerm c σ id uh uh') :
    MCSpecPerm c σ id (cahnHilliard c scale uh) (cahnHilliard c scale uh') := by
  have h0 := mcSpecPerm_chan c hc.hN σ id uh uh' h 0
  have hu : FieldPerm c.D c.N σ (nifft c (tab (modes c) fun m => mask c m * (uh.getD 0 #[]).getD m 0))
      (nifft c (tab (modes c) fun m => mask c m * (uh'.getD 0 #[]).getD m 0)) :=
    masked_nifft_fieldPerm c hc.hD hc.hN σ _ _ h0
  have hr : IsRealND c.D c.N (nifft c (tab (modes c) fun m => mask c m * (uh.getD 0 #[]).getD m 0)) :=
    nifft_isRealND c hc.hN _
  unfold cahnHilliard
  simp only []
  have ea : ∀ (w : MC ℂ), (tab (modes c) fun m => mask c m * at2 w 0 m)
      = tab (modes c) fun m => mask c m * (w.getD 0 #[]).getD m 0 := fun w => rfl
  rw [ea uh, ea uh']
  generalize nifft c (tab (modes c) fun m => mask c m * (uh.getD 0 #[]).getD m 0) = U at hu hr ⊢
  generalize nifft c (tab (modes c) fun m => mask c m * (uh'.getD 0 #[]).getD m 0) = U' at hu ⊢
  have hcube : SpecPerm c.D c.N σ
      (nfft c (tab (gridSize c) fun x => U.getD x 0 * U.getD x 0 * U.getD x 0))
      (nfft c (tab (gridSize c) fun x => U'.getD x 0 * U'.getD x 0 * U'.getD x 0)) :=
    nfft_tab_specPerm c hc σ _ _
      (fun x hx => im_mul_real (im_mul_real (hr x hx) (hr x hx)) (hr x hx))
      (fun x hx => by rw [hu x hx])
  have hg : ∀ k : Fin c.D → ℤ, (fun k => lapsym c k * scale) (-k)
      = (starRingEnd ℂ) ((fun k => lapsym c k * scale) k) := by
    intro k
    show lapsym c (-k) * scale = (starRingEnd ℂ) (lapsym c k * scale)
    rw [lapsym_conj_neg c hc.hs, map_mul, Complex.conj_eq_iff_im.mpr hsc]
  refine mcSpecPerm_tab2_id c hc.hN σ 1 _ _ (fun ch _ => ?_)
  have key := specPerm_mul c.D c.N hc.hD hc.hN σ (fun k => lapsym c k * scale) hg _ _ hcube
  refine specPerm_congr c.D c.N hc.hN σ _ _ _ _ ?_ ?_ key
  · intro m hm
    have hm' : m < modes c := hm
    rw [DFT.tab_getD _ _ _ _ hm, DFT.tab_getD _ _ _ _ hm', laplace_eq_lapsym]
    ring
  · intro m hm
    have hm' : m < modes c := hm
    rw [DFT.tab_getD _ _ _ _ hm, DFT.tab_getD _ _ _ _ hm', laplace_eq_lapsym, lapsym_comp]
    ring

/-! ### reaction terms -/

/-- **K4, reaction nonlinearity**, any channel count `C`, any pointwise map `react` that keeps real lists real -/
theorem reaction_mcSpecPerm (c : Cfg ℂ) (hc : PermCfg c) (σ : Equiv.Perm (Fin c.D)) (C : ℕ) (react : List ℂ → List ℂ)
    (hre : ∀ l : List ℂ, (∀ x ∈ l, x.im = 0) → ∀ ch, ((react l).getD ch 0).im = 0)
    (uh uh' : MC ℂ) (h : MCSpecPerm c σ id uh uh') :
    MCSpecPerm c σ id (reaction c C react uh) (reaction c C react uh') := by
  have ea : ∀ (w : MC ℂ) (ch : ℕ), (tab (modes c) fun m => mask c m * at2 w ch m)
      = tab (modes c) fun m => mask c m * (w.getD ch #[]).getD m 0 := fun w ch => rfl
  have hu : ∀ ch j, j < gridSize c →
      at2 (tabC C fun ch => nifft c (tab (modes c) fun m => mask c m * at2 uh' ch m)) ch j
        = at2 (tabC C fun ch => nifft c (tab (modes c) fun m => mask c m * at2 uh ch m)) ch (permIdx c.D c.N σ j) := by
    intro ch j hj
    rw [at2_tabC_any, at2_tabC_any]
    by_cases hch : ch < C
    · rw [if_pos hch, if_pos hch, ea, ea]
      exact masked_nifft_fieldPerm c hc.hD hc.hN σ _ _ (mcSpecPerm_chan c hc.hN σ id uh uh' h ch) j hj
    · rw [if_neg hch, if_neg hch]
  have hr : ∀ ch j, j < gridSize c →
      (at2 (tabC C fun ch => nifft c (tab (modes c) fun m => mask c m * at2 uh ch m)) ch j).im = 0 := by
    intro ch j hj
    rw [at2_tabC_any]
    split_ifs
    · exact nifft_isRealND c hc.hN _ j hj
    · rfl
  unfold reaction
  simp only []
  generalize (tabC C fun ch => nifft c (tab (modes c) fun m => mask c m * at2 uh ch m)) = U at hu hr ⊢
  generalize (tabC C fun ch => nifft c (tab (modes c) fun m => mask c m * at2 uh' ch m)) = U' at hu ⊢
  refine mcSpecPerm_tabC_id c hc.hN σ C _ _ (fun ch hch => ?_)
  rw [tab2_getD' _ _ _ ch hch, tab2_getD' _ _ _ ch hch]
  apply nfft_tab_specPerm c hc σ
  · intro x hx
    apply hre
    intro y hy
    obtain ⟨k, _, rfl⟩ := List.mem_map.mp hy
    exact hr k x hx
  · intro x hx
    have : (List.range C).map (fun k => at2 U' k x) = (List.range C).map (fun k => at2 U k (permIdx c.D c.N σ x)) :=
      List.map_congr_left (fun k _ => hu k x hx)
    rw [this]

theorem gs_aux (feed kill a b : ℂ) (hf : feed.im = 0) (hk : kill.im = 0) (ha : a.im = 0) (hb : b.im = 0) (ch : ℕ) :
    (([feed * (1 - a) - a * (b * b), -(feed + kill) * b + a * (b * b)] : List ℂ).getD ch 0).im = 0 := by
  match ch with
  | 0 => simp [Complex.mul_im, Complex.sub_im, ha, hb, hf]
  | 1 => simp [Complex.mul_im, Complex.add_im, Complex.neg_im, ha, hb, hf, hk]
  | (n + 2) => simp

theorem grayScott_real (feed kill : ℂ) (hf : feed.im = 0) (hk : kill.im = 0) (l : List ℂ) (hl : ∀ x ∈ l, x.im = 0)
    (ch : ℕ) : ((grayScottReact feed kill l).getD ch 0).im = 0 :=
  gs_aux feed kill _ _ hf hk (getD_im_real l hl 0) (getD_im_real l hl 1) ch

theorem bz_aux (a b d : ℂ) (ha : a.im = 0) (hb : b.im = 0) (hd : d.im = 0) (ch : ℕ) :
    (([a + b - a * b - a * a, d - b - a * b, a - d] : List ℂ).getD ch 0).im = 0 := by
  match ch with
  | 0 => simp [Complex.mul_im, Complex.add_im, Complex.sub_im, ha, hb]
  | 1 => simp [Complex.mul_im, Complex.sub_im, ha, hb, hd]
  | 2 => simp [Complex.sub_im, ha, hd]
  | (n + 3) => simp

theorem bz_real (l : List ℂ) (hl : ∀ x ∈ l, x.im = 0) (ch : ℕ) : ((bzReact l).getD ch 0).im = 0 :=
  bz_aux _ _ _ (getD_im_real l hl 0) (getD_im_real l hl 1) (getD_im_real l hl 2) ch

/-- **K4, Gray–Scott reaction** (real feed and kill rates), any channel count -/
theorem grayScott_mcSpecPerm (c : Cfg ℂ) (hc : PermCfg c) (σ : Equiv.Perm (Fin c.D)) (C : ℕ) (feed kill : ℂ)
    (hf : feed.im = 0) (hk : kill.im = 0) (uh uh' : MC ℂ) (h : MCSpecPerm c σ id uh uh') :
    MCSpecPerm c σ id (reaction c C (grayScottReact feed kill) uh) (reaction c C (grayScottReact feed kill) uh') :=
  reaction_mcSpecPerm c hc σ C _ (grayScott_real feed kill hf hk) uh uh' h

/-- **K4, Belousov–Zhabotinsky reaction**, any channel count -/
theorem bz_mcSpecPerm (c : Cfg ℂ) (hc : PermCfg c) (σ : Equiv.Perm (Fin c.D)) (C : ℕ) (uh uh' : MC ℂ)
    (h : MCSpecPerm c σ id uh uh') :
    MCSpecPerm c σ id (reaction c C bzReact uh) (reaction c C bzReact uh') :=
  reaction_mcSpecPerm c hc σ C _ bz_real uh uh' h

/-! ### `TermPerm` forms and step-level corollaries (`AxisPermSteps`) -/

theorem cahnHilliard_termPerm (c : Cfg ℂ) (hc : PermCfg c) (σ : Equiv.Perm (Fin c.D)) (scale : ℂ) (hsc : scale.im = 0) :
    TermPerm c σ id (cahnHilliard c scale) := fun uh uh' h => cahnHilliard_mcSpecPerm c hc σ scale hsc uh uh' h

theorem reaction_termPerm (c : Cfg ℂ) (hc : PermCfg c) (σ : Equiv.Perm (Fin c.D)) (C : ℕ) (react : List ℂ → List ℂ)
    (hre : ∀ l : List ℂ, (∀ x ∈ l, x.im = 0) → ∀ ch, ((react l).getD ch 0).im = 0) :
    TermPerm c σ id (reaction c C react) := fun uh uh' h => reaction_mcSpecPerm c hc σ C react hre uh uh' h

/-- **K4, step level, Cahn–Hilliard**: `n` ETDRK4 steps with isotropic coefficient arrays commute with every permutation of
    the axes on real Nyquist-free states (orders 0–3: `AxisPerm.E?_axisPerm_physical` with `cahnHilliard_termPerm`) -/
theorem E4_axisPerm_cahnHilliard (c : Cfg ℂ) (hc : PermCfg c) (σ : Equiv.Perm (Fin c.D)) (scale : ℂ) (hsc : scale.im = 0)
    {E Eh c1 c2 c3 c4 c5 c6 : ℕ → ℕ → ℂ} (hE : IsoCoef c σ id E E) (hEh : IsoCoef c σ id Eh Eh)
    (h1 : IsoCoef c σ id c1 c1) (h2 : IsoCoef c σ id c2 c2) (h3 : IsoCoef c σ id c3 c3) (h4 : IsoCoef c σ id c4 c4)
    (h5 : IsoCoef c σ id c5 c5) (h6 : IsoCoef c σ id c6 c6) (n : ℕ) (u : MC ℂ)
    (hreal : ∀ ch, IsRealND c.D c.N (u.getD ch #[]))
    (hfree : ∀ ch, NyqFreeS c.D c.N (rfftnM c.D c.N (u.getD ch #[]))) (ch : ℕ) :
    physCh c.D c.N ((E4step E Eh c1 c2 c3 c4 c5 c6 (liftTermND c 1 (cahnHilliard c scale)))^[n]
        (specMC c.D c.N (permMC c σ u))) ch
      = permField c.D c.N σ (physCh c.D c.N ((E4step E Eh c1 c2 c3 c4 c5 c6
          (liftTermND c 1 (cahnHilliard c scale)))^[n] (specMC c.D c.N u)) ch) :=
  E4_axisPerm_physical c hc σ id 1 (id_lt_iff 1) _ (cahnHilliard_termPerm c hc σ scale hsc) u (permMC c σ u)
    hreal hfree (fieldPerm_permMC c σ u) hE hEh h1 h2 h3 h4 h5 h6 n ch

/-- **K4, step level, reaction–diffusion** (Gray–Scott, BZ, … : any real-preserving `react`, `C` channels) -/
theorem E4_axisPerm_reaction (c : Cfg ℂ) (hc : PermCfg c) (σ : Equiv.Perm (Fin c.D)) (C : ℕ) (react : List ℂ → List ℂ)
    (hre : ∀ l : List ℂ, (∀ x ∈ l, x.im = 0) → ∀ ch, ((react l).getD ch 0).im = 0)
    {E Eh c1 c2 c3 c4 c5 c6 : ℕ → ℕ → ℂ} (hE : IsoCoef c σ id E E) (hEh : IsoCoef c σ id Eh Eh)
    (h1 : IsoCoef c σ id c1 c1) (h2 : IsoCoef c σ id c2 c2) (h3 : IsoCoef c σ id c3 c3) (h4 : IsoCoef c σ id c4 c4)
    (h5 : IsoCoef c σ id c5 c5) (h6 : IsoCoef c σ id c6 c6) (n : ℕ) (u : MC ℂ)
    (hreal : ∀ ch, IsRealND c.D c.N (u.getD ch #[]))
    (hfree : ∀ ch, NyqFreeS c.D c.N (rfftnM c.D c.N (u.getD ch #[]))) (ch : ℕ) :
    physCh c.D c.N ((E4step E Eh c1 c2 c3 c4 c5 c6 (liftTermND c C (reaction c C react)))^[n]
        (specMC c.D c.N (permMC c σ u))) ch
      = permField c.D c.N σ (physCh c.D c.N ((E4step E Eh c1 c2 c3 c4 c5 c6
          (liftTermND c C (reaction c C react)))^[n] (specMC c.D c.N u)) ch) :=
  E4_axisPerm_physical c hc σ id C (id_lt_iff C) _ (reaction_termPerm c hc σ C react hre) u (permMC c σ u)
    hreal hfree (fieldPerm_permMC c σ u) hE hEh h1 h2 h3 h4 h5 h6 n ch

/-! non-vacuity: a `PermCfg` with an even grid and the 2/3 mask, real rates, and a related pair of spectra -/
example : ∃ c : Cfg ℂ, PermCfg c ∧ c.N % 2 = 0 :=
  ⟨⟨2, 8, 1, 2, 3⟩, ⟨by norm_num, by norm_num, by simp, Or.inr ⟨by norm_num, by norm_num⟩⟩, rfl⟩
example (c : Cfg ℂ) (hc : PermCfg c) (σ : Equiv.Perm (Fin c.D)) : ∃ uh uh' : MC ℂ, MCSpecPerm c σ id uh uh' :=
  ⟨#[], #[], fun ch => specPerm_zero c.D c.N hc.hN σ _ _
    (fun m hm => by rw [DFT.tab_getD _ _ _ _ (show m < modes c from hm)]; simp [at2])
    (fun m hm => by rw [DFT.tab_getD _ _ _ _ (show m < modes c from hm)]; simp [at2])⟩
example : ((0.04 : ℂ)).im = 0 ∧ ((0.06 : ℂ)).im = 0 := by constructor <;> norm_num
example : ∀ l : List ℂ, (∀ x ∈ l, x.im = 0) → ∀ ch, ((bzReact l).getD ch 0).im = 0 := bz_real

end Exponax.SmallGaps3
