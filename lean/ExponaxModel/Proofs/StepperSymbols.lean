import ExponaxModel.Proofs.SymbolAlgebra
import ExponaxModel.Proofs.ListLemmas
import ExponaxModel.Model.Wave
import ExponaxModel.Generated.Steppers
/-
The linear symbol of EVERY stepper class, tied to the source by translation.

`Generated/Steppers.lean` is regenerated from `exponax/_spectral.py`
(`build_laplace_operator`, `build_gradient_inner_product_operator`) and from the
`_build_linear_operator` method of every class under `exponax/stepper/**`; here each
`<Class>_linear_operator` (at `K := ℂ`) is proved equal to

 (a) the documented closed form in `κ` (`psum`, `vdot`, `qform` below),
 (b) `polyAt κ <documented monomial list>` for every `κ` of the right length, and
 (c) with `κ = kappa c h`: `Nonlin.polySymbol c <documented monomial list> h`,
     and from there the closed forms in the integer wavenumbers of `SymbolAlgebra`.

The monomial lists are the Lean mirrors (`SymbolAlgebra` S2) of the specification table
`harness/props/steppers.py`.

T0  list sums                      T4  general linear family
T1  `laplace_op`, `grad_inner`     T5  reaction steppers, Navier–Stokes, wave
T2  advection / diffusion family   T6  stored modes: `polySymbol`, integer wavenumbers
T3  Burgers, KdV, KS               T7  signs (C11) on the generated operators; non-vacuity
-/
set_option linter.unusedVariables false
namespace Exponax
open Exponax.Layout Exponax.Nonlin Exponax.Gen.Steppers

/-! ## T0  list sums -/

theorem getD_of_lt' {α : Type} (l : List α) (d : ℕ) (hd : d < l.length) (a : α) : l.getD d a = l[d] := by
  simp [List.getD_eq_getElem?_getD, List.getElem?_eq_getElem hd]

theorem getD_map_of_lt {α β : Type} (f : α → β) (l : List α) (d : ℕ) (hd : d < l.length) (a : α) (b : β) :
    (l.map f).getD d b = f (l.getD d a) := by
  simp [List.getD_eq_getElem?_getD, List.getElem?_eq_getElem hd]

theorem getD_zipWith_of_lt {α β γ : Type} (f : α → β → γ) (a : List α) (b : List β) (d : ℕ)
    (ha : d < a.length) (hb : d < b.length) (a0 : α) (b0 : β) (c0 : γ) :
    (List.zipWith f a b).getD d c0 = f (a.getD d a0) (b.getD d b0) := by
  simp [List.getD_eq_getElem?_getD, List.getElem?_zipWith, List.getElem?_eq_getElem ha,
    List.getElem?_eq_getElem hb]

/-- a list sum as a `Finset.range` sum of its entries -/
theorem list_sum_eq_range (l : List ℂ) : l.sum = ∑ d ∈ Finset.range l.length, l.getD d 0 := by
  have h : l = (List.range l.length).map (fun d => l.getD d 0) := by
    apply List.ext_getElem
    · simp
    · intro d h1 h2
      simp [List.getD_eq_getElem?_getD, List.getElem?_eq_getElem h1]
  conv_lhs => rw [h]
  rw [list_range_sum]

theorem sum_map_eq_range {α : Type} (f : α → ℂ) (l : List α) (a : α) :
    (l.map f).sum = ∑ d ∈ Finset.range l.length, f (l.getD d a) := by
  rw [list_sum_eq_range, List.length_map]
  apply Finset.sum_congr rfl
  intro d hd
  rw [getD_map_of_lt f l d (Finset.mem_range.mp hd) a 0]

theorem sum_zipWith_eq_range {α β : Type} (f : α → β → ℂ) (a : List α) (b : List β) (a0 : α) (b0 : β)
    (n : ℕ) (ha : a.length = n) (hb : b.length = n) :
    (List.zipWith f a b).sum = ∑ d ∈ Finset.range n, f (a.getD d a0) (b.getD d b0) := by
  rw [list_sum_eq_range, List.length_zipWith, ha, hb, min_self]
  apply Finset.sum_congr rfl
  intro d hd
  have hd' := Finset.mem_range.mp hd
  rw [getD_zipWith_of_lt f a b d (ha ▸ hd') (hb ▸ hd') a0 b0 0]

/-! ### the documented closed forms in `κ` -/

/-- `Σ_d κ_d^n` -/
noncomputable def psum (κ : List ℂ) (n : ℕ) : ℂ := ∑ d ∈ Finset.range κ.length, κ.getD d 0 ^ n

/-- `Σ_d v_d κ_d^n` -/
noncomputable def vdot (κ v : List ℂ) (n : ℕ) : ℂ :=
  ∑ d ∈ Finset.range κ.length, v.getD d 0 * κ.getD d 0 ^ n

/-- `Σ_i Σ_j A_ij κ_i κ_j` -/
noncomputable def qform (κ : List ℂ) (A : List (List ℂ)) : ℂ :=
  ∑ i ∈ Finset.range κ.length, ∑ j ∈ Finset.range κ.length,
    (A.getD i []).getD j 0 * (κ.getD i 0 * κ.getD j 0)

/-- a list read as a function of the index (missing entries are `0`) -/
def vfun (v : List ℂ) : ℕ → ℂ := fun d => v.getD d 0

/-- a list of rows read as a function of two indices -/
def mfun (A : List (List ℂ)) : ℕ → ℕ → ℂ := fun i j => (A.getD i []).getD j 0

theorem psum_def (κ : List ℂ) (n : ℕ) : psum κ n = ∑ d ∈ Finset.range κ.length, κ.getD d 0 ^ n := rfl

theorem vdot_replicate (κ : List ℂ) (a : ℂ) (n : ℕ) :
    vdot κ (List.replicate κ.length a) n = a * psum κ n := by
  unfold vdot psum
  rw [Finset.mul_sum]
  apply Finset.sum_congr rfl
  intro d hd
  have : (List.replicate κ.length a).getD d 0 = a := by
    simp [List.getD_eq_getElem?_getD, Finset.mem_range.mp hd]
  rw [this]

/-! ## T1  the translated `_spectral` helpers -/

/-- `build_laplace_operator(κ, order=n)`, `n ≠ 0`: `Σ_d κ_d^n` -/
theorem laplace_op_eq (κ : List ℂ) (n : ℕ) (hn : n ≠ 0) : laplace_op κ n = psum κ n := by
  unfold laplace_op psum
  rw [if_neg hn, sumList_eq, sum_map_eq_range _ κ 0]
  simp only [npow_eq]

/-- `order = 0`: the identity -/
theorem laplace_op_zero (κ : List ℂ) : laplace_op κ 0 = 1 := by
  unfold laplace_op
  rw [if_pos rfl]

theorem laplace_op_two (κ : List ℂ) : laplace_op κ 2 = psum κ 2 := laplace_op_eq κ 2 (by norm_num)
theorem laplace_op_four (κ : List ℂ) : laplace_op κ 4 = psum κ 4 := laplace_op_eq κ 4 (by norm_num)

/-- `build_gradient_inner_product_operator(κ, v, order=n)`: `Σ_d v_d κ_d^n`; the hypothesis is the
    source's shape guard `velocity.shape == (D,)` -/
theorem grad_inner_eq (κ v : List ℂ) (n : ℕ) (hv : v.length = κ.length) :
    grad_inner κ v n = vdot κ v n := by
  unfold grad_inner vdot
  simp only []
  rw [sumList_eq, sum_zipWith_eq_range _ v _ 0 0 κ.length hv (by simp)]
  apply Finset.sum_congr rfl
  intro d hd
  rw [getD_map_of_lt _ κ d (Finset.mem_range.mp hd) 0 0, npow_eq]

/-- the quadratic form `einsum("ij,ij...->...", A, κ[:, None] * κ[None, :])` -/
theorem quad_eq (κ : List ℂ) (A : List (List ℂ)) (hA : A.length = κ.length)
    (hr : ∀ r ∈ A, r.length = κ.length) :
    sumList (List.zipWith (fun r s => sumList (List.zipWith (fun a b => a * b) r s)) A
      (List.map (fun a => List.map (fun b => a * b) κ) κ)) = qform κ A := by
  unfold qform
  rw [sumList_eq, sum_zipWith_eq_range _ A _ [] [] κ.length hA (by simp)]
  apply Finset.sum_congr rfl
  intro i hi
  have hi' := Finset.mem_range.mp hi
  have hrow : (A.getD i []).length = κ.length := by
    apply hr
    rw [getD_of_lt' A i (hA ▸ hi') []]
    exact List.getElem_mem _
  rw [getD_map_of_lt _ κ i hi' 0 [], sumList_eq,
    sum_zipWith_eq_range _ (A.getD i []) _ 0 0 κ.length hrow (by simp)]
  apply Finset.sum_congr rfl
  intro j hj
  rw [getD_map_of_lt _ κ j (Finset.mem_range.mp hj) 0 0]

/-! ### the documented monomial lists evaluate to the closed forms -/

theorem polyAt_gradInner_vfun (κ v : List ℂ) (n : ℕ) :
    polyAt κ (gradInner κ.length (vfun v) n) = vdot κ v n := polyAt_gradInner κ (vfun v) n

theorem polyAt_lapT' (κ : List ℂ) (a : ℂ) (n : ℕ) : polyAt κ (lapT κ.length a n) = a * psum κ n :=
  polyAt_lapT κ a n

theorem polyAt_quadTerms_mfun (κ : List ℂ) (A : List (List ℂ)) :
    polyAt κ (quadTerms κ.length (mfun A)) = qform κ A := polyAt_quadTerms κ (mfun A)

theorem polyAt_lap_lap (κ : List ℂ) :
    polyAt κ (pmul (lapT κ.length 1 2) (lapT κ.length 1 2)) = psum κ 2 * psum κ 2 := by
  rw [polyAt_pmul κ _ _ (lapT_wf _ _ _) (lapT_wf _ _ _), polyAt_lapT', one_mul]

theorem polyAt_grad_lap (κ v : List ℂ) :
    polyAt κ (pmul (gradInner κ.length (vfun v) 1) (lapT κ.length 1 2)) = vdot κ v 1 * psum κ 2 := by
  rw [polyAt_pmul κ _ _ (gradInner_wf _ _ _) (lapT_wf _ _ _), polyAt_lapT', polyAt_gradInner_vfun,
    one_mul]

/-! ### the documented monomial lists (Lean mirror of `harness/props/steppers.py`) -/

/-- `Dispersion`: `(ξ·∇)(∇·∇)` if `advect_on_diffusion` else `Σ ξ_d ∂_d³` -/
noncomputable def dispersionTerms (D : ℕ) (ξ : ℕ → ℂ) (mix : Bool) : List (ℂ × List ℕ) :=
  if mix then pmul (gradInner D ξ 1) (lapT D 1 2) else gradInner D ξ 3

/-- `HyperDiffusion`: `−μ(∇·∇)²` if `diffuse_on_diffuse` else `−μ Σ ∂_d⁴` -/
noncomputable def hyperTerms (D : ℕ) (μ : ℂ) (mix : Bool) : List (ℂ × List ℕ) :=
  if mix then pscale (-μ) (pmul (lapT D 1 2) (lapT D 1 2)) else lapT D (-μ) 4

/-- `KortewegDeVries`: `ν Δ − disp − hyp` -/
noncomputable def kdvTerms (D : ℕ) (a3 ν μ : ℂ) (aod dod : Bool) : List (ℂ × List ℕ) :=
  lapT D ν 2
    ++ pscale (-1) (if aod then pmul (gradInner D (fun _ => a3) 1) (lapT D 1 2)
                    else gradInner D (fun _ => a3) 3)
    ++ pscale (-1) (if dod then pscale μ (pmul (lapT D 1 2) (lapT D 1 2)) else lapT D μ 4)

/-- `KuramotoSivashinsky(Conservative)`: `−a Δ − b Σ ∂_d⁴` -/
noncomputable def ksTerms (D : ℕ) (a b : ℂ) : List (ℂ × List ℕ) := lapT D (-a) 2 ++ lapT D (-b) 4

/-- `ν Δ + c`: Navier–Stokes with drag, Fisher–KPP, Allen–Cahn -/
def diffReactTerms (D : ℕ) (ν r : ℂ) : List (ℂ × List ℕ) := lapT D ν 2 ++ constT D r

/-- `CahnHilliard`: `ν c₁ Δ − ν γ Δ²` -/
noncomputable def cahnHilliardTerms (D : ℕ) (ν γ c1 : ℂ) : List (ℂ × List ℕ) :=
  lapT D (ν * c1) 2 ++ pscale (-ν * γ) (pmul (lapT D 1 2) (lapT D 1 2))

/-- `SwiftHohenberg`: `r − (k_c + Δ)² = (r − k_c²) − 2 k_c Δ − Δ²` -/
noncomputable def swiftHohenbergTerms (D : ℕ) (r kc : ℂ) : List (ℂ × List ℕ) :=
  constT D (r - kc * kc) ++ lapT D (-2 * kc) 2 ++ pscale (-1) (pmul (lapT D 1 2) (lapT D 1 2))

/-! ## T2  advection / diffusion family -/

/-- `Advection`: `−Σ_d v_d κ_d` -/
theorem Advection_linear_operator_eq (κ v : List ℂ) (hv : v.length = κ.length) :
    Advection_linear_operator κ v = -(vdot κ v 1) := by
  unfold Advection_linear_operator
  rw [grad_inner_eq κ v 1 hv]

theorem Advection_linear_operator_polyAt (κ v : List ℂ) (D : ℕ) (hD : κ.length = D) (hv : v.length = D) :
    Advection_linear_operator κ v = polyAt κ (pscale (-1) (gradInner D (vfun v) 1)) := by
  subst hD
  rw [Advection_linear_operator_eq κ v hv, polyAt_pscale, polyAt_gradInner_vfun]
  ring

/-- `Diffusion`: `Σ_ij A_ij κ_i κ_j` -/
theorem Diffusion_linear_operator_eq (κ : List ℂ) (A : List (List ℂ)) (hA : A.length = κ.length)
    (hr : ∀ r ∈ A, r.length = κ.length) :
    Diffusion_linear_operator κ A = qform κ A := by
  unfold Diffusion_linear_operator
  exact quad_eq κ A hA hr

theorem Diffusion_linear_operator_polyAt (κ : List ℂ) (A : List (List ℂ)) (D : ℕ) (hD : κ.length = D)
    (hA : A.length = D) (hr : ∀ r ∈ A, r.length = D) :
    Diffusion_linear_operator κ A = polyAt κ (quadTerms D (mfun A)) := by
  subst hD
  rw [Diffusion_linear_operator_eq κ A hA hr, polyAt_quadTerms_mfun]

/-- `AdvectionDiffusion`: `−Σ_d v_d κ_d + Σ_ij A_ij κ_i κ_j` -/
theorem AdvectionDiffusion_linear_operator_eq (κ v : List ℂ) (A : List (List ℂ))
    (hv : v.length = κ.length) (hA : A.length = κ.length) (hr : ∀ r ∈ A, r.length = κ.length) :
    AdvectionDiffusion_linear_operator κ v A = -(vdot κ v 1) + qform κ A := by
  unfold AdvectionDiffusion_linear_operator
  simp only []
  rw [grad_inner_eq κ v 1 hv, quad_eq κ A hA hr]

theorem AdvectionDiffusion_linear_operator_polyAt (κ v : List ℂ) (A : List (List ℂ)) (D : ℕ)
    (hD : κ.length = D) (hv : v.length = D) (hA : A.length = D) (hr : ∀ r ∈ A, r.length = D) :
    AdvectionDiffusion_linear_operator κ v A
      = polyAt κ (pscale (-1) (gradInner D (vfun v) 1) ++ quadTerms D (mfun A)) := by
  subst hD
  rw [AdvectionDiffusion_linear_operator_eq κ v A hv hA hr, polyAt_append, polyAt_pscale,
    polyAt_gradInner_vfun, polyAt_quadTerms_mfun]
  ring

/-- `Dispersion`, both flags: `(Σ ξ_d κ_d)(Σ κ_d²)` resp. `Σ ξ_d κ_d³` -/
theorem Dispersion_linear_operator_eq (κ ξ : List ℂ) (mix : Bool) (hξ : ξ.length = κ.length) :
    Dispersion_linear_operator κ ξ mix = if mix then vdot κ ξ 1 * psum κ 2 else vdot κ ξ 3 := by
  unfold Dispersion_linear_operator
  cases mix <;> simp [grad_inner_eq κ ξ _ hξ, laplace_op_two]

theorem Dispersion_linear_operator_mixed (κ ξ : List ℂ) (hξ : ξ.length = κ.length) :
    Dispersion_linear_operator κ ξ true = vdot κ ξ 1 * psum κ 2 := by
  rw [Dispersion_linear_operator_eq κ ξ true hξ]; rfl

theorem Dispersion_linear_operator_unmixed (κ ξ : List ℂ) (hξ : ξ.length = κ.length) :
    Dispersion_linear_operator κ ξ false = vdot κ ξ 3 := by
  rw [Dispersion_linear_operator_eq κ ξ false hξ]; rfl

theorem Dispersion_linear_operator_polyAt (κ ξ : List ℂ) (mix : Bool) (D : ℕ) (hD : κ.length = D)
    (hξ : ξ.length = D) :
    Dispersion_linear_operator κ ξ mix = polyAt κ (dispersionTerms D (vfun ξ) mix) := by
  subst hD
  rw [Dispersion_linear_operator_eq κ ξ mix hξ]
  cases mix
  · simp only [dispersionTerms, Bool.false_eq_true, if_false]
    rw [polyAt_gradInner_vfun]
  · simp only [dispersionTerms, if_true]
    rw [polyAt_grad_lap]

/-- `HyperDiffusion`, both flags: `−μ (Σ κ_d²)²` resp. `−μ Σ κ_d⁴` -/
theorem HyperDiffusion_linear_operator_eq (κ : List ℂ) (μ : ℂ) (mix : Bool) :
    HyperDiffusion_linear_operator κ μ mix = if mix then -μ * (psum κ 2) ^ 2 else -μ * psum κ 4 := by
  unfold HyperDiffusion_linear_operator
  cases mix
  · simp [laplace_op_four]
  · simp only [laplace_op_two, if_true]
    ring

theorem HyperDiffusion_linear_operator_mixed (κ : List ℂ) (μ : ℂ) :
    HyperDiffusion_linear_operator κ μ true = -μ * (psum κ 2) ^ 2 := by
  rw [HyperDiffusion_linear_operator_eq]; rfl

theorem HyperDiffusion_linear_operator_unmixed (κ : List ℂ) (μ : ℂ) :
    HyperDiffusion_linear_operator κ μ false = -μ * psum κ 4 := by
  rw [HyperDiffusion_linear_operator_eq]; rfl

theorem HyperDiffusion_linear_operator_polyAt (κ : List ℂ) (μ : ℂ) (mix : Bool) (D : ℕ)
    (hD : κ.length = D) :
    HyperDiffusion_linear_operator κ μ mix = polyAt κ (hyperTerms D μ mix) := by
  subst hD
  rw [HyperDiffusion_linear_operator_eq]
  cases mix
  · simp only [hyperTerms, Bool.false_eq_true, if_false]
    rw [polyAt_lapT']
  · simp only [hyperTerms, if_true]
    rw [polyAt_pscale, polyAt_lap_lap]
    ring

/-! ## T3  Burgers, Korteweg–de Vries, Kuramoto–Sivashinsky -/

/-- `Burgers`: `ν Σ κ_d²` -/
theorem Burgers_linear_operator_eq (κ : List ℂ) (ν : ℂ) : Burgers_linear_operator κ ν = ν * psum κ 2 := by
  unfold Burgers_linear_operator
  rw [laplace_op_two]

theorem Burgers_linear_operator_polyAt (κ : List ℂ) (ν : ℂ) (D : ℕ) (hD : κ.length = D) :
    Burgers_linear_operator κ ν = polyAt κ (lapT D ν 2) := by
  subst hD
  rw [Burgers_linear_operator_eq, polyAt_lapT']

/-- `KortewegDeVries`, all four flag combinations (`D = self.num_spatial_dims` must be the length of
    `κ`: the shape guard of `build_gradient_inner_product_operator`) -/
theorem KortewegDeVries_linear_operator_eq (κ : List ℂ) (a3 ν μ : ℂ) (aod dod : Bool) (D : ℕ)
    (hD : κ.length = D) :
    KortewegDeVries_linear_operator κ a3 ν μ aod dod D
      = ν * psum κ 2
        + (if aod then -(a3 * psum κ 1) * psum κ 2 else -(a3 * psum κ 3))
        + (if dod then -μ * psum κ 2 * psum κ 2 else -μ * psum κ 4) := by
  subst hD
  unfold KortewegDeVries_linear_operator
  have hl : (List.replicate κ.length a3).length = κ.length := by simp
  cases aod <;> cases dod <;>
    simp [grad_inner_eq κ _ _ hl, laplace_op_two, laplace_op_four, vdot_replicate]

theorem KortewegDeVries_linear_operator_polyAt (κ : List ℂ) (a3 ν μ : ℂ) (aod dod : Bool) (D : ℕ)
    (hD : κ.length = D) :
    KortewegDeVries_linear_operator κ a3 ν μ aod dod D = polyAt κ (kdvTerms D a3 ν μ aod dod) := by
  rw [KortewegDeVries_linear_operator_eq κ a3 ν μ aod dod D hD]
  subst hD
  have hg : ∀ n, polyAt κ (gradInner κ.length (fun _ => a3) n) = a3 * psum κ n := by
    intro n
    rw [← lapT_eq_gradInner, polyAt_lapT']
  have hgl : polyAt κ (pmul (gradInner κ.length (fun _ => a3) 1) (lapT κ.length 1 2))
      = a3 * psum κ 1 * psum κ 2 := by
    rw [polyAt_pmul κ _ _ (gradInner_wf _ _ _) (lapT_wf _ _ _), hg, polyAt_lapT', one_mul]
  unfold kdvTerms
  cases aod <;> cases dod <;>
    simp only [Bool.false_eq_true, if_false, if_true, polyAt_append, polyAt_pscale, polyAt_lapT',
      polyAt_lap_lap, hg, hgl] <;> ring

/-- `KuramotoSivashinsky`: `−a Σ κ_d² − b Σ κ_d⁴` -/
theorem KuramotoSivashinsky_linear_operator_eq (κ : List ℂ) (a b : ℂ) :
    KuramotoSivashinsky_linear_operator κ a b = -a * psum κ 2 - b * psum κ 4 := by
  unfold KuramotoSivashinsky_linear_operator
  rw [laplace_op_two, laplace_op_four]

theorem KuramotoSivashinsky_linear_operator_polyAt (κ : List ℂ) (a b : ℂ) (D : ℕ) (hD : κ.length = D) :
    KuramotoSivashinsky_linear_operator κ a b = polyAt κ (ksTerms D a b) := by
  subst hD
  rw [KuramotoSivashinsky_linear_operator_eq, ksTerms, polyAt_append, polyAt_lapT', polyAt_lapT']
  ring

theorem KuramotoSivashinskyConservative_linear_operator_eq (κ : List ℂ) (a b : ℂ) :
    KuramotoSivashinskyConservative_linear_operator κ a b = -a * psum κ 2 - b * psum κ 4 := by
  unfold KuramotoSivashinskyConservative_linear_operator
  rw [laplace_op_two, laplace_op_four]

theorem KuramotoSivashinskyConservative_linear_operator_polyAt (κ : List ℂ) (a b : ℂ) (D : ℕ)
    (hD : κ.length = D) :
    KuramotoSivashinskyConservative_linear_operator κ a b = polyAt κ (ksTerms D a b) := by
  subst hD
  rw [KuramotoSivashinskyConservative_linear_operator_eq, ksTerms, polyAt_append, polyAt_lapT',
    polyAt_lapT']
  ring

/-! ## T4  the general linear family `Σ_j a_j Σ_d κ_d^j` -/

theorem getD_zip_range (a : List ℂ) (d : ℕ) (hd : d < a.length) :
    (List.zip (List.range a.length) a).getD d (0, 0) = (d, a.getD d 0) := by
  simp [List.getD_eq_getElem?_getD, hd]

/-- the translated `sum(jnp.sum(c * κ ** i, axis=0, keepdims=True) for i, c in enumerate(a))` -/
theorem general_sum_eq (κ a : List ℂ) :
    sumList (List.map (fun (p : ℕ × ℂ) => let i := p.1; let c := p.2;
        sumList (List.map (fun x => c * x) (List.map (fun x => npow x i) κ)))
      (List.zip (List.range (List.length a)) a))
      = ∑ j ∈ Finset.range a.length, a.getD j 0 * psum κ j := by
  rw [sumList_eq, sum_map_eq_range _ _ ((0 : ℕ), (0 : ℂ))]
  have hlen : (List.zip (List.range a.length) a).length = a.length := by simp
  rw [hlen]
  apply Finset.sum_congr rfl
  intro j hj
  rw [getD_zip_range a j (Finset.mem_range.mp hj)]
  simp only []
  rw [sumList_eq, List.map_map, sum_map_eq_range _ κ 0, psum, Finset.mul_sum]
  apply Finset.sum_congr rfl
  intro d _
  simp only [Function.comp, npow_eq]

theorem polyAt_generalLinear' (κ a : List ℂ) :
    polyAt κ (generalLinear κ.length a) = ∑ j ∈ Finset.range a.length, a.getD j 0 * psum κ j :=
  polyAt_generalLinear κ a

theorem GeneralLinearStepper_linear_operator_eq (κ a : List ℂ) :
    GeneralLinearStepper_linear_operator κ a = ∑ j ∈ Finset.range a.length, a.getD j 0 * psum κ j := by
  unfold GeneralLinearStepper_linear_operator; exact general_sum_eq κ a

theorem GeneralConvectionStepper_linear_operator_eq (κ a : List ℂ) :
    GeneralConvectionStepper_linear_operator κ a = ∑ j ∈ Finset.range a.length, a.getD j 0 * psum κ j := by
  unfold GeneralConvectionStepper_linear_operator; exact general_sum_eq κ a

theorem GeneralGradientNormStepper_linear_operator_eq (κ a : List ℂ) :
    GeneralGradientNormStepper_linear_operator κ a
      = ∑ j ∈ Finset.range a.length, a.getD j 0 * psum κ j := by
  unfold GeneralGradientNormStepper_linear_operator; exact general_sum_eq κ a

theorem GeneralNonlinearStepper_linear_operator_eq (κ a : List ℂ) :
    GeneralNonlinearStepper_linear_operator κ a = ∑ j ∈ Finset.range a.length, a.getD j 0 * psum κ j := by
  unfold GeneralNonlinearStepper_linear_operator; exact general_sum_eq κ a

theorem GeneralPolynomialStepper_linear_operator_eq (κ a : List ℂ) :
    GeneralPolynomialStepper_linear_operator κ a = ∑ j ∈ Finset.range a.length, a.getD j 0 * psum κ j := by
  unfold GeneralPolynomialStepper_linear_operator; exact general_sum_eq κ a

theorem GeneralVorticityConvectionStepper_linear_operator_eq (κ a : List ℂ) :
    GeneralVorticityConvectionStepper_linear_operator κ a
      = ∑ j ∈ Finset.range a.length, a.getD j 0 * psum κ j := by
  unfold GeneralVorticityConvectionStepper_linear_operator; exact general_sum_eq κ a

theorem GeneralLinearStepper_linear_operator_polyAt (κ a : List ℂ) (D : ℕ) (hD : κ.length = D) :
    GeneralLinearStepper_linear_operator κ a = polyAt κ (generalLinear D a) := by
  subst hD; rw [GeneralLinearStepper_linear_operator_eq, polyAt_generalLinear']

theorem GeneralConvectionStepper_linear_operator_polyAt (κ a : List ℂ) (D : ℕ) (hD : κ.length = D) :
    GeneralConvectionStepper_linear_operator κ a = polyAt κ (generalLinear D a) := by
  subst hD; rw [GeneralConvectionStepper_linear_operator_eq, polyAt_generalLinear']

theorem GeneralGradientNormStepper_linear_operator_polyAt (κ a : List ℂ) (D : ℕ) (hD : κ.length = D) :
    GeneralGradientNormStepper_linear_operator κ a = polyAt κ (generalLinear D a) := by
  subst hD; rw [GeneralGradientNormStepper_linear_operator_eq, polyAt_generalLinear']

theorem GeneralNonlinearStepper_linear_operator_polyAt (κ a : List ℂ) (D : ℕ) (hD : κ.length = D) :
    GeneralNonlinearStepper_linear_operator κ a = polyAt κ (generalLinear D a) := by
  subst hD; rw [GeneralNonlinearStepper_linear_operator_eq, polyAt_generalLinear']

theorem GeneralPolynomialStepper_linear_operator_polyAt (κ a : List ℂ) (D : ℕ) (hD : κ.length = D) :
    GeneralPolynomialStepper_linear_operator κ a = polyAt κ (generalLinear D a) := by
  subst hD; rw [GeneralPolynomialStepper_linear_operator_eq, polyAt_generalLinear']

theorem GeneralVorticityConvectionStepper_linear_operator_polyAt (κ a : List ℂ) (D : ℕ)
    (hD : κ.length = D) :
    GeneralVorticityConvectionStepper_linear_operator κ a = polyAt κ (generalLinear D a) := by
  subst hD; rw [GeneralVorticityConvectionStepper_linear_operator_eq, polyAt_generalLinear']

/-! ## T5  reaction steppers, Navier–Stokes, wave -/

theorem polyAt_diffReact (κ : List ℂ) (ν r : ℂ) :
    polyAt κ (diffReactTerms κ.length ν r) = ν * psum κ 2 + r := by
  rw [diffReactTerms, polyAt_append, polyAt_lapT', polyAt_constT]

/-- Navier–Stokes (vorticity / velocity, with or without Kolmogorov forcing): `ν Σ κ_d² + drag` -/
theorem NavierStokesVorticity_linear_operator_eq (κ : List ℂ) (ν drag : ℂ) :
    NavierStokesVorticity_linear_operator κ ν drag = ν * psum κ 2 + drag := by
  unfold NavierStokesVorticity_linear_operator
  rw [laplace_op_two, laplace_op_zero, mul_one]

theorem KolmogorovFlowVorticity_linear_operator_eq (κ : List ℂ) (ν drag : ℂ) :
    KolmogorovFlowVorticity_linear_operator κ ν drag = ν * psum κ 2 + drag := by
  unfold KolmogorovFlowVorticity_linear_operator
  rw [laplace_op_two, laplace_op_zero, mul_one]

theorem NavierStokesVelocity_linear_operator_eq (κ : List ℂ) (ν drag : ℂ) :
    NavierStokesVelocity_linear_operator κ ν drag = ν * psum κ 2 + drag := by
  unfold NavierStokesVelocity_linear_operator
  rw [laplace_op_two, laplace_op_zero, mul_one]

theorem KolmogorovFlowVelocity_linear_operator_eq (κ : List ℂ) (ν drag : ℂ) :
    KolmogorovFlowVelocity_linear_operator κ ν drag = ν * psum κ 2 + drag := by
  unfold KolmogorovFlowVelocity_linear_operator
  rw [laplace_op_two, laplace_op_zero, mul_one]

theorem NavierStokesVorticity_linear_operator_polyAt (κ : List ℂ) (ν drag : ℂ) (D : ℕ) (hD : κ.length = D) :
    NavierStokesVorticity_linear_operator κ ν drag = polyAt κ (diffReactTerms D ν drag) := by
  subst hD; rw [NavierStokesVorticity_linear_operator_eq, polyAt_diffReact]

theorem KolmogorovFlowVorticity_linear_operator_polyAt (κ : List ℂ) (ν drag : ℂ) (D : ℕ)
    (hD : κ.length = D) :
    KolmogorovFlowVorticity_linear_operator κ ν drag = polyAt κ (diffReactTerms D ν drag) := by
  subst hD; rw [KolmogorovFlowVorticity_linear_operator_eq, polyAt_diffReact]

theorem NavierStokesVelocity_linear_operator_polyAt (κ : List ℂ) (ν drag : ℂ) (D : ℕ) (hD : κ.length = D) :
    NavierStokesVelocity_linear_operator κ ν drag = polyAt κ (diffReactTerms D ν drag) := by
  subst hD; rw [NavierStokesVelocity_linear_operator_eq, polyAt_diffReact]

theorem KolmogorovFlowVelocity_linear_operator_polyAt (κ : List ℂ) (ν drag : ℂ) (D : ℕ)
    (hD : κ.length = D) :
    KolmogorovFlowVelocity_linear_operator κ ν drag = polyAt κ (diffReactTerms D ν drag) := by
  subst hD; rw [KolmogorovFlowVelocity_linear_operator_eq, polyAt_diffReact]

/-- `AllenCahn`: `ν Σ κ_d² + c₁` -/
theorem AllenCahn_linear_operator_eq (κ : List ℂ) (ν c1 : ℂ) :
    AllenCahn_linear_operator κ ν c1 = ν * psum κ 2 + c1 := by
  unfold AllenCahn_linear_operator
  rw [laplace_op_two]

theorem AllenCahn_linear_operator_polyAt (κ : List ℂ) (ν c1 : ℂ) (D : ℕ) (hD : κ.length = D) :
    AllenCahn_linear_operator κ ν c1 = polyAt κ (diffReactTerms D ν c1) := by
  subst hD; rw [AllenCahn_linear_operator_eq, polyAt_diffReact]

/-- `FisherKPP`: `ν Σ κ_d² + r` -/
theorem FisherKPP_linear_operator_eq (κ : List ℂ) (ν r : ℂ) :
    FisherKPP_linear_operator κ ν r = ν * psum κ 2 + r := by
  unfold FisherKPP_linear_operator
  rw [laplace_op_two]

theorem FisherKPP_linear_operator_polyAt (κ : List ℂ) (ν r : ℂ) (D : ℕ) (hD : κ.length = D) :
    FisherKPP_linear_operator κ ν r = polyAt κ (diffReactTerms D ν r) := by
  subst hD; rw [FisherKPP_linear_operator_eq, polyAt_diffReact]

/-- `CahnHilliard`: `ν Σκ² (c₁ − γ Σκ²)` -/
theorem CahnHilliard_linear_operator_eq (κ : List ℂ) (ν γ c1 : ℂ) :
    CahnHilliard_linear_operator κ ν γ c1 = ν * psum κ 2 * (c1 - γ * psum κ 2) := by
  unfold CahnHilliard_linear_operator
  rw [laplace_op_two]

theorem CahnHilliard_linear_operator_polyAt (κ : List ℂ) (ν γ c1 : ℂ) (D : ℕ) (hD : κ.length = D) :
    CahnHilliard_linear_operator κ ν γ c1 = polyAt κ (cahnHilliardTerms D ν γ c1) := by
  subst hD
  rw [CahnHilliard_linear_operator_eq, cahnHilliardTerms, polyAt_append, polyAt_lapT', polyAt_pscale,
    polyAt_lap_lap]
  ring

/-- `SwiftHohenberg`: `r − (k_c + Σκ²)²` -/
theorem SwiftHohenberg_linear_operator_eq (κ : List ℂ) (r kc : ℂ) :
    SwiftHohenberg_linear_operator κ r kc = r - (kc + psum κ 2) ^ 2 := by
  unfold SwiftHohenberg_linear_operator
  simp only [laplace_op_two, npow_eq]

theorem SwiftHohenberg_linear_operator_polyAt (κ : List ℂ) (r kc : ℂ) (D : ℕ) (hD : κ.length = D) :
    SwiftHohenberg_linear_operator κ r kc = polyAt κ (swiftHohenbergTerms D r kc) := by
  subst hD
  rw [SwiftHohenberg_linear_operator_eq, swiftHohenbergTerms, polyAt_append, polyAt_append,
    polyAt_constT, polyAt_lapT', polyAt_pscale, polyAt_lap_lap]
  ring

/-- `GrayScott`: one diffusion symbol per channel -/
theorem GrayScott_linear_operator_eq (κ : List ℂ) (n1 n2 : ℂ) :
    GrayScott_linear_operator κ n1 n2 = [n1 * psum κ 2, n2 * psum κ 2] := by
  unfold GrayScott_linear_operator
  rw [laplace_op_two]

theorem GrayScott_linear_operator_polyAt (κ : List ℂ) (n1 n2 : ℂ) (D : ℕ) (hD : κ.length = D) :
    GrayScott_linear_operator κ n1 n2 = [polyAt κ (lapT D n1 2), polyAt κ (lapT D n2 2)] := by
  subst hD; rw [GrayScott_linear_operator_eq, polyAt_lapT', polyAt_lapT']

/-- `BelousovZhabotinsky`: one diffusion symbol per channel -/
theorem BelousovZhabotinsky_linear_operator_eq (κ : List ℂ) (d : ℂ × ℂ × ℂ) :
    BelousovZhabotinsky_linear_operator κ d = [d.1 * psum κ 2, d.2.1 * psum κ 2, d.2.2 * psum κ 2] := by
  unfold BelousovZhabotinsky_linear_operator
  rw [laplace_op_two]

theorem BelousovZhabotinsky_linear_operator_polyAt (κ : List ℂ) (d : ℂ × ℂ × ℂ) (D : ℕ)
    (hD : κ.length = D) :
    BelousovZhabotinsky_linear_operator κ d
      = [polyAt κ (lapT D d.1 2), polyAt κ (lapT D d.2.1 2), polyAt κ (lapT D d.2.2 2)] := by
  subst hD; rw [BelousovZhabotinsky_linear_operator_eq, polyAt_lapT', polyAt_lapT', polyAt_lapT']

/-- `Wave`: the two diagonalised channels `±i c |κ|`; these are the symbols the hand-written per-mode
    model `Wave.stepMode` exponentiates -/
theorem Wave_linear_operator_eq (κ : List ℂ) (c kn : ℂ) :
    Wave_linear_operator κ c kn = [Complex.I * c * kn, -(Complex.I * c * kn)] := by
  unfold Wave_linear_operator
  rfl

theorem Wave_linear_operator_eq_symbols (κ : List ℂ) (c kn : ℂ) :
    Wave_linear_operator κ c kn = [(Wave.symbols c kn).1, (Wave.symbols c kn).2] := by
  unfold Wave_linear_operator Wave.symbols
  rfl

/-! ## T6  stored modes: with `κ = kappa c h` the generated operator is the model symbol
`Nonlin.polySymbol` of the documented monomial list -/

theorem Advection_linear_operator_polySymbol (c : Cfg ℂ) (h : ℕ) (v : List ℂ) (hv : v.length = c.D) :
    Advection_linear_operator (kappa c h) v = polySymbol c (pscale (-1) (gradInner c.D (vfun v) 1)) h := by
  rw [polySymbol_eq_polyAt]
  exact Advection_linear_operator_polyAt (kappa c h) v c.D (kappa_length c h) hv

theorem Diffusion_linear_operator_polySymbol (c : Cfg ℂ) (h : ℕ) (A : List (List ℂ)) (hA : A.length = c.D) (hr : ∀ r ∈ A, r.length = c.D) :
    Diffusion_linear_operator (kappa c h) A = polySymbol c (quadTerms c.D (mfun A)) h := by
  rw [polySymbol_eq_polyAt]
  exact Diffusion_linear_operator_polyAt (kappa c h) A c.D (kappa_length c h) hA hr

theorem AdvectionDiffusion_linear_operator_polySymbol (c : Cfg ℂ) (h : ℕ) (v : List ℂ) (A : List (List ℂ)) (hv : v.length = c.D) (hA : A.length = c.D) (hr : ∀ r ∈ A, r.length = c.D) :
    AdvectionDiffusion_linear_operator (kappa c h) v A = polySymbol c (pscale (-1) (gradInner c.D (vfun v) 1) ++ quadTerms c.D (mfun A)) h := by
  rw [polySymbol_eq_polyAt]
  exact AdvectionDiffusion_linear_operator_polyAt (kappa c h) v A c.D (kappa_length c h) hv hA hr

theorem Dispersion_linear_operator_polySymbol (c : Cfg ℂ) (h : ℕ) (ξ : List ℂ) (mix : Bool) (hξ : ξ.length = c.D) :
    Dispersion_linear_operator (kappa c h) ξ mix = polySymbol c (dispersionTerms c.D (vfun ξ) mix) h := by
  rw [polySymbol_eq_polyAt]
  exact Dispersion_linear_operator_polyAt (kappa c h) ξ mix c.D (kappa_length c h) hξ

theorem HyperDiffusion_linear_operator_polySymbol (c : Cfg ℂ) (h : ℕ) (μ : ℂ) (mix : Bool) :
    HyperDiffusion_linear_operator (kappa c h) μ mix = polySymbol c (hyperTerms c.D μ mix) h := by
  rw [polySymbol_eq_polyAt]
  exact HyperDiffusion_linear_operator_polyAt (kappa c h) μ mix c.D (kappa_length c h)

theorem Burgers_linear_operator_polySymbol (c : Cfg ℂ) (h : ℕ) (ν : ℂ) :
    Burgers_linear_operator (kappa c h) ν = polySymbol c (lapT c.D ν 2) h := by
  rw [polySymbol_eq_polyAt]
  exact Burgers_linear_operator_polyAt (kappa c h) ν c.D (kappa_length c h)

theorem KuramotoSivashinsky_linear_operator_polySymbol (c : Cfg ℂ) (h : ℕ) (a b : ℂ) :
    KuramotoSivashinsky_linear_operator (kappa c h) a b = polySymbol c (ksTerms c.D a b) h := by
  rw [polySymbol_eq_polyAt]
  exact KuramotoSivashinsky_linear_operator_polyAt (kappa c h) a b c.D (kappa_length c h)

theorem KuramotoSivashinskyConservative_linear_operator_polySymbol (c : Cfg ℂ) (h : ℕ) (a b : ℂ) :
    KuramotoSivashinskyConservative_linear_operator (kappa c h) a b = polySymbol c (ksTerms c.D a b) h := by
  rw [polySymbol_eq_polyAt]
  exact KuramotoSivashinskyConservative_linear_operator_polyAt (kappa c h) a b c.D (kappa_length c h)

theorem NavierStokesVorticity_linear_operator_polySymbol (c : Cfg ℂ) (h : ℕ) (ν drag : ℂ) :
    NavierStokesVorticity_linear_operator (kappa c h) ν drag = polySymbol c (diffReactTerms c.D ν drag) h := by
  rw [polySymbol_eq_polyAt]
  exact NavierStokesVorticity_linear_operator_polyAt (kappa c h) ν drag c.D (kappa_length c h)

theorem KolmogorovFlowVorticity_linear_operator_polySymbol (c : Cfg ℂ) (h : ℕ) (ν drag : ℂ) :
    KolmogorovFlowVorticity_linear_operator (kappa c h) ν drag = polySymbol c (diffReactTerms c.D ν drag) h := by
  rw [polySymbol_eq_polyAt]
  exact KolmogorovFlowVorticity_linear_operator_polyAt (kappa c h) ν drag c.D (kappa_length c h)

theorem NavierStokesVelocity_linear_operator_polySymbol (c : Cfg ℂ) (h : ℕ) (ν drag : ℂ) :
    NavierStokesVelocity_linear_operator (kappa c h) ν drag = polySymbol c (diffReactTerms c.D ν drag) h := by
  rw [polySymbol_eq_polyAt]
  exact NavierStokesVelocity_linear_operator_polyAt (kappa c h) ν drag c.D (kappa_length c h)

theorem KolmogorovFlowVelocity_linear_operator_polySymbol (c : Cfg ℂ) (h : ℕ) (ν drag : ℂ) :
    KolmogorovFlowVelocity_linear_operator (kappa c h) ν drag = polySymbol c (diffReactTerms c.D ν drag) h := by
  rw [polySymbol_eq_polyAt]
  exact KolmogorovFlowVelocity_linear_operator_polyAt (kappa c h) ν drag c.D (kappa_length c h)

theorem GeneralLinearStepper_linear_operator_polySymbol (c : Cfg ℂ) (h : ℕ) (a : List ℂ) :
    GeneralLinearStepper_linear_operator (kappa c h) a = polySymbol c (generalLinear c.D a) h := by
  rw [polySymbol_eq_polyAt]
  exact GeneralLinearStepper_linear_operator_polyAt (kappa c h) a c.D (kappa_length c h)

theorem GeneralConvectionStepper_linear_operator_polySymbol (c : Cfg ℂ) (h : ℕ) (a : List ℂ) :
    GeneralConvectionStepper_linear_operator (kappa c h) a = polySymbol c (generalLinear c.D a) h := by
  rw [polySymbol_eq_polyAt]
  exact GeneralConvectionStepper_linear_operator_polyAt (kappa c h) a c.D (kappa_length c h)

theorem GeneralGradientNormStepper_linear_operator_polySymbol (c : Cfg ℂ) (h : ℕ) (a : List ℂ) :
    GeneralGradientNormStepper_linear_operator (kappa c h) a = polySymbol c (generalLinear c.D a) h := by
  rw [polySymbol_eq_polyAt]
  exact GeneralGradientNormStepper_linear_operator_polyAt (kappa c h) a c.D (kappa_length c h)

theorem GeneralNonlinearStepper_linear_operator_polySymbol (c : Cfg ℂ) (h : ℕ) (a : List ℂ) :
    GeneralNonlinearStepper_linear_operator (kappa c h) a = polySymbol c (generalLinear c.D a) h := by
  rw [polySymbol_eq_polyAt]
  exact GeneralNonlinearStepper_linear_operator_polyAt (kappa c h) a c.D (kappa_length c h)

theorem GeneralPolynomialStepper_linear_operator_polySymbol (c : Cfg ℂ) (h : ℕ) (a : List ℂ) :
    GeneralPolynomialStepper_linear_operator (kappa c h) a = polySymbol c (generalLinear c.D a) h := by
  rw [polySymbol_eq_polyAt]
  exact GeneralPolynomialStepper_linear_operator_polyAt (kappa c h) a c.D (kappa_length c h)

theorem GeneralVorticityConvectionStepper_linear_operator_polySymbol (c : Cfg ℂ) (h : ℕ) (a : List ℂ) :
    GeneralVorticityConvectionStepper_linear_operator (kappa c h) a = polySymbol c (generalLinear c.D a) h := by
  rw [polySymbol_eq_polyAt]
  exact GeneralVorticityConvectionStepper_linear_operator_polyAt (kappa c h) a c.D (kappa_length c h)

theorem AllenCahn_linear_operator_polySymbol (c : Cfg ℂ) (h : ℕ) (ν c1 : ℂ) :
    AllenCahn_linear_operator (kappa c h) ν c1 = polySymbol c (diffReactTerms c.D ν c1) h := by
  rw [polySymbol_eq_polyAt]
  exact AllenCahn_linear_operator_polyAt (kappa c h) ν c1 c.D (kappa_length c h)

theorem FisherKPP_linear_operator_polySymbol (c : Cfg ℂ) (h : ℕ) (ν r : ℂ) :
    FisherKPP_linear_operator (kappa c h) ν r = polySymbol c (diffReactTerms c.D ν r) h := by
  rw [polySymbol_eq_polyAt]
  exact FisherKPP_linear_operator_polyAt (kappa c h) ν r c.D (kappa_length c h)

theorem CahnHilliard_linear_operator_polySymbol (c : Cfg ℂ) (h : ℕ) (ν γ c1 : ℂ) :
    CahnHilliard_linear_operator (kappa c h) ν γ c1 = polySymbol c (cahnHilliardTerms c.D ν γ c1) h := by
  rw [polySymbol_eq_polyAt]
  exact CahnHilliard_linear_operator_polyAt (kappa c h) ν γ c1 c.D (kappa_length c h)

theorem SwiftHohenberg_linear_operator_polySymbol (c : Cfg ℂ) (h : ℕ) (r kc : ℂ) :
    SwiftHohenberg_linear_operator (kappa c h) r kc = polySymbol c (swiftHohenbergTerms c.D r kc) h := by
  rw [polySymbol_eq_polyAt]
  exact SwiftHohenberg_linear_operator_polyAt (kappa c h) r kc c.D (kappa_length c h)

theorem KortewegDeVries_linear_operator_polySymbol (c : Cfg ℂ) (h : ℕ) (a3 ν μ : ℂ) (aod dod : Bool) :
    KortewegDeVries_linear_operator (kappa c h) a3 ν μ aod dod c.D
      = polySymbol c (kdvTerms c.D a3 ν μ aod dod) h := by
  rw [polySymbol_eq_polyAt]
  exact KortewegDeVries_linear_operator_polyAt (kappa c h) a3 ν μ aod dod c.D (kappa_length c h)

theorem GrayScott_linear_operator_polySymbol (c : Cfg ℂ) (h : ℕ) (n1 n2 : ℂ) :
    GrayScott_linear_operator (kappa c h) n1 n2
      = [polySymbol c (lapT c.D n1 2) h, polySymbol c (lapT c.D n2 2) h] := by
  rw [polySymbol_eq_polyAt, polySymbol_eq_polyAt]
  exact GrayScott_linear_operator_polyAt (kappa c h) n1 n2 c.D (kappa_length c h)

theorem BelousovZhabotinsky_linear_operator_polySymbol (c : Cfg ℂ) (h : ℕ) (d : ℂ × ℂ × ℂ) :
    BelousovZhabotinsky_linear_operator (kappa c h) d
      = [polySymbol c (lapT c.D d.1 2) h, polySymbol c (lapT c.D d.2.1 2) h,
          polySymbol c (lapT c.D d.2.2 2) h] := by
  rw [polySymbol_eq_polyAt, polySymbol_eq_polyAt, polySymbol_eq_polyAt]
  exact BelousovZhabotinsky_linear_operator_polyAt (kappa c h) d c.D (kappa_length c h)

/-- the translated `build_laplace_operator` at a stored mode is the hand-written `Nonlin.laplace` -/
theorem laplace_op_kappa (c : Cfg ℂ) (h : ℕ) (n : ℕ) : laplace_op (kappa c h) n = Nonlin.laplace c n h := by
  by_cases hn : n = 0
  · subst hn; rw [laplace_op_zero, laplace_zero]
  · rw [laplace_op_eq _ n hn, laplace_eq_sum c h n hn, psum, kappa_length]
    apply Finset.sum_congr rfl
    intro d hd
    rw [kappa_getD c h d (Finset.mem_range.mp hd)]

/-! ### closed forms in the integer wavenumbers (real parameters, real scale `s = 2π/L`) -/

/-- real lists, embedded -/
def ofRealL (v : List ℝ) : List ℂ := v.map (fun r : ℝ => (r : ℂ))
def ofRealM (A : List (List ℝ)) : List (List ℂ) := A.map ofRealL

@[simp] theorem ofRealL_length (v : List ℝ) : (ofRealL v).length = v.length := by simp [ofRealL]
@[simp] theorem ofRealM_length (A : List (List ℝ)) : (ofRealM A).length = A.length := by simp [ofRealM]

theorem ofRealM_rows (A : List (List ℝ)) (D : ℕ) (hr : ∀ r ∈ A, r.length = D) :
    ∀ r ∈ ofRealM A, r.length = D := by
  intro r hrm
  unfold ofRealM at hrm
  rw [List.mem_map] at hrm
  obtain ⟨r', hr', rfl⟩ := hrm
  rw [ofRealL_length]; exact hr r' hr'

theorem vfun_ofRealL (v : List ℝ) : vfun (ofRealL v) = fun d => ((v.getD d 0 : ℝ) : ℂ) := by
  funext d
  simp only [vfun, ofRealL, List.getD_eq_getElem?_getD, List.getElem?_map]
  cases v[d]? <;> simp

theorem mfun_ofRealM (A : List (List ℝ)) :
    mfun (ofRealM A) = fun i j => (((A.getD i []).getD j 0 : ℝ) : ℂ) := by
  funext i j
  have h1 : (ofRealM A).getD i [] = ofRealL (A.getD i []) := by
    simp only [ofRealM, List.getD_eq_getElem?_getD, List.getElem?_map]
    cases A[i]? <;> simp [ofRealL]
  have h2 := congrFun (vfun_ofRealL (A.getD i [])) j
  simp only [mfun, h1]
  exact h2

section T6
variable (c : Cfg ℂ) (s : ℝ) (hs : c.s = (s : ℂ)) (h : ℕ)
include hs

/-- ADVECTION: `λ = −i s (v·k)` -/
theorem Advection_linear_operator_wn (v : List ℝ) (hv : v.length = c.D) :
    Advection_linear_operator (kappa c h) (ofRealL v)
      = -(Complex.I * ((s * ∑ d ∈ Finset.range c.D, v.getD d 0 * (wnAt c d h : ℝ) : ℝ) : ℂ)) := by
  rw [Advection_linear_operator_polySymbol c h _ (by simpa using hv), vfun_ofRealL]
  exact advection_symbol c s hs h (fun d => v.getD d 0)

/-- DIFFUSION: `λ = −s² kᵀAk` -/
theorem Diffusion_linear_operator_wn (A : List (List ℝ)) (hA : A.length = c.D)
    (hr : ∀ r ∈ A, r.length = c.D) :
    Diffusion_linear_operator (kappa c h) (ofRealM A)
      = ((-(s ^ 2 * ∑ i ∈ Finset.range c.D, ∑ j ∈ Finset.range c.D,
            (A.getD i []).getD j 0 * ((wnAt c i h : ℝ) * (wnAt c j h : ℝ))) : ℝ) : ℂ) := by
  rw [Diffusion_linear_operator_polySymbol c h _ (by simpa using hA) (ofRealM_rows A c.D hr),
    mfun_ofRealM]
  exact diffusion_symbol c s hs h (fun i j => (A.getD i []).getD j 0)

/-- ADVECTION–DIFFUSION -/
theorem AdvectionDiffusion_linear_operator_wn (v : List ℝ) (A : List (List ℝ)) (hv : v.length = c.D)
    (hA : A.length = c.D) (hr : ∀ r ∈ A, r.length = c.D) :
    AdvectionDiffusion_linear_operator (kappa c h) (ofRealL v) (ofRealM A)
      = -(Complex.I * ((s * ∑ d ∈ Finset.range c.D, v.getD d 0 * (wnAt c d h : ℝ) : ℝ) : ℂ))
        + ((-(s ^ 2 * ∑ i ∈ Finset.range c.D, ∑ j ∈ Finset.range c.D,
            (A.getD i []).getD j 0 * ((wnAt c i h : ℝ) * (wnAt c j h : ℝ))) : ℝ) : ℂ) := by
  rw [AdvectionDiffusion_linear_operator_polySymbol c h _ _ (by simpa using hv) (by simpa using hA)
    (ofRealM_rows A c.D hr), vfun_ofRealL, mfun_ofRealM]
  exact advection_diffusion_symbol c s hs h (fun d => v.getD d 0) (fun i j => (A.getD i []).getD j 0)

/-- DISPERSION, `advect_on_diffusion = False`: `λ = −i s³ Σ ξ_d k_d³` -/
theorem Dispersion_linear_operator_wn (ξ : List ℝ) (hξ : ξ.length = c.D) :
    Dispersion_linear_operator (kappa c h) (ofRealL ξ) false
      = -(Complex.I * ((s ^ 3 * ∑ d ∈ Finset.range c.D, ξ.getD d 0 * (wnAt c d h : ℝ) ^ 3 : ℝ) : ℂ)) := by
  rw [Dispersion_linear_operator_polySymbol c h _ false (by simpa using hξ), vfun_ofRealL]
  exact dispersion_symbol c s hs h (fun d => ξ.getD d 0)

/-- DISPERSION, `advect_on_diffusion = True`: `λ = −i s³ (ξ·k) |k|²` -/
theorem Dispersion_linear_operator_mixed_wn (ξ : List ℝ) (hξ : ξ.length = c.D) :
    Dispersion_linear_operator (kappa c h) (ofRealL ξ) true
      = -(Complex.I * ((s ^ 3 * (∑ d ∈ Finset.range c.D, ξ.getD d 0 * (wnAt c d h : ℝ))
            * ∑ d ∈ Finset.range c.D, (wnAt c d h : ℝ) ^ 2 : ℝ) : ℂ)) := by
  rw [Dispersion_linear_operator_polySymbol c h _ true (by simpa using hξ), vfun_ofRealL]
  exact dispersion_mixed_symbol c s hs h (fun d => ξ.getD d 0)

/-- HYPER-DIFFUSION, `diffuse_on_diffuse = False`: `λ = −μ s⁴ Σ k_d⁴` -/
theorem HyperDiffusion_linear_operator_wn (μ : ℝ) :
    HyperDiffusion_linear_operator (kappa c h) (μ : ℂ) false
      = ((-(μ * s ^ 4 * ∑ d ∈ Finset.range c.D, (wnAt c d h : ℝ) ^ 4) : ℝ) : ℂ) := by
  rw [HyperDiffusion_linear_operator_polySymbol c h _ false]
  have := hyper_symbol c s hs h μ
  simpa [hyperTerms] using this

/-- HYPER-DIFFUSION, `diffuse_on_diffuse = True`: `λ = −μ s⁴ |k|⁴` -/
theorem HyperDiffusion_linear_operator_mixed_wn (μ : ℝ) :
    HyperDiffusion_linear_operator (kappa c h) (μ : ℂ) true
      = ((-(μ * s ^ 4 * (∑ d ∈ Finset.range c.D, (wnAt c d h : ℝ) ^ 2) ^ 2) : ℝ) : ℂ) := by
  rw [HyperDiffusion_linear_operator_polySymbol c h _ true]
  have := hyper_mixed_symbol c s hs h μ
  simpa [hyperTerms] using this

/-- BURGERS (and every `ν Δ` part): `λ = −ν s² |k|²` -/
theorem Burgers_linear_operator_wn (ν : ℝ) :
    Burgers_linear_operator (kappa c h) (ν : ℂ)
      = ((-(ν * s ^ 2 * ∑ d ∈ Finset.range c.D, (wnAt c d h : ℝ) ^ 2) : ℝ) : ℂ) := by
  rw [Burgers_linear_operator_polySymbol c h]
  exact diffusion_iso_symbol c s hs h ν

/-- GENERAL LINEAR FAMILY: `λ = Σ_j a_j (i s)^j Σ_d k_d^j` -/
theorem GeneralLinearStepper_linear_operator_wn (a : List ℝ) :
    GeneralLinearStepper_linear_operator (kappa c h) (ofRealL a)
      = ∑ j ∈ Finset.range a.length,
          Complex.I ^ j * ((a.getD j 0 * (s ^ j * ∑ d ∈ Finset.range c.D, (wnAt c d h : ℝ) ^ j) : ℝ) : ℂ) := by
  rw [GeneralLinearStepper_linear_operator_polySymbol c h]
  exact general_linear_symbol c s hs h a

end T6

/-! ## T7  signs of the generated operators (the facts used by C11)

`κ = imagVec D y = (i y_d)_d` is purely imaginary (as `kappa c h` is for a real scale), the
parameters are real. -/

theorem vdot_imag (D : ℕ) (y : ℕ → ℝ) (v : List ℝ) (n : ℕ) :
    vdot (imagVec D y) (ofRealL v) n
      = Complex.I ^ n * ((∑ d ∈ Finset.range D, v.getD d 0 * y d ^ n : ℝ) : ℂ) := by
  have h := polyAt_gradInner_vfun (imagVec D y) (ofRealL v) n
  rw [imagVec_length, vfun_ofRealL] at h
  rw [← h, polyAt_imag_gradInner D y (fun d => v.getD d 0) n]

theorem psum_imag (D : ℕ) (y : ℕ → ℝ) (n : ℕ) :
    psum (imagVec D y) n = Complex.I ^ n * ((∑ d ∈ Finset.range D, y d ^ n : ℝ) : ℂ) := by
  have h := polyAt_lapT' (imagVec D y) ((1 : ℝ) : ℂ) n
  rw [imagVec_length, polyAt_imag_lapT D y 1 n] at h
  rw [Complex.ofReal_one, one_mul] at h
  rw [one_mul] at h
  exact h.symm

theorem qform_imag (D : ℕ) (y : ℕ → ℝ) (A : List (List ℝ)) :
    qform (imagVec D y) (ofRealM A)
      = -((∑ i ∈ Finset.range D, ∑ j ∈ Finset.range D, (A.getD i []).getD j 0 * (y i * y j) : ℝ) : ℂ) := by
  have h := polyAt_quadTerms_mfun (imagVec D y) (ofRealM A)
  rw [imagVec_length, mfun_ofRealM] at h
  rw [← h, polyAt_imag_quadTerms D y (fun i j => (A.getD i []).getD j 0)]

/-- ADVECTION: `Re λ = 0` -/
theorem Advection_linear_operator_re (D : ℕ) (y : ℕ → ℝ) (v : List ℝ) (hv : v.length = D) :
    (Advection_linear_operator (imagVec D y) (ofRealL v)).re = 0 := by
  rw [Advection_linear_operator_eq _ _ (by simpa using hv), vdot_imag, pow_one]
  simp only [Complex.neg_re, Complex.I_mul_re, Complex.ofReal_im, neg_zero]

/-- DISPERSION (both flags): `Re λ = 0` -/
theorem Dispersion_linear_operator_re (D : ℕ) (y : ℕ → ℝ) (ξ : List ℝ) (mix : Bool) (hξ : ξ.length = D) :
    (Dispersion_linear_operator (imagVec D y) (ofRealL ξ) mix).re = 0 := by
  rw [Dispersion_linear_operator_eq _ _ mix (by simpa using hξ)]
  cases mix
  · simp only [Bool.false_eq_true, if_false]
    rw [vdot_imag, I_pow_three']
    simp only [neg_mul, Complex.neg_re, Complex.I_mul_re, Complex.ofReal_im, neg_zero]
  · simp only [if_true]
    rw [vdot_imag, psum_imag, pow_one, Complex.I_sq, mul_assoc]
    rw [show (-1 : ℂ) = ((-1 : ℝ) : ℂ) by simp, ← Complex.ofReal_mul, ← Complex.ofReal_mul]
    simp only [Complex.I_mul_re, Complex.ofReal_im, neg_zero]

/-- DIFFUSION with a positive semidefinite matrix: `λ` is real and `≤ 0` -/
theorem Diffusion_linear_operator_re_nonpos (D : ℕ) (y : ℕ → ℝ) (A : List (List ℝ))
    (hA : A.length = D) (hr : ∀ r ∈ A, r.length = D)
    (hpsd : ∀ x : Fin D → ℝ, 0 ≤ ∑ i : Fin D, ∑ j : Fin D, (A.getD i []).getD j 0 * x i * x j) :
    (Diffusion_linear_operator (imagVec D y) (ofRealM A)).re ≤ 0
      ∧ (Diffusion_linear_operator (imagVec D y) (ofRealM A)).im = 0 := by
  rw [Diffusion_linear_operator_eq _ _ (by simpa using hA)
    (by rw [imagVec_length]; exact ofRealM_rows A D hr), qform_imag, ← Complex.ofReal_neg,
    Complex.ofReal_re, Complex.ofReal_im]
  refine ⟨?_, rfl⟩
  have h1 := hpsd (fun i => y i)
  have h2 : ∑ i ∈ Finset.range D, ∑ j ∈ Finset.range D, (A.getD i []).getD j 0 * (y i * y j)
      = ∑ i : Fin D, ∑ j : Fin D, (A.getD i []).getD j 0 * y i * y j := by
    rw [Finset.sum_range]
    apply Finset.sum_congr rfl
    intro i _
    rw [Finset.sum_range]
    apply Finset.sum_congr rfl
    intro j _
    ring
  rw [h2]
  linarith

/-- HYPER-DIFFUSION (both flags), `μ ≥ 0`: `λ` is real and `≤ 0` -/
theorem HyperDiffusion_linear_operator_re_nonpos (D : ℕ) (y : ℕ → ℝ) (μ : ℝ) (mix : Bool) (hμ : 0 ≤ μ) :
    (HyperDiffusion_linear_operator (imagVec D y) (μ : ℂ) mix).re ≤ 0
      ∧ (HyperDiffusion_linear_operator (imagVec D y) (μ : ℂ) mix).im = 0 := by
  rw [HyperDiffusion_linear_operator_eq]
  cases mix
  · simp only [Bool.false_eq_true, if_false]
    rw [psum_imag, I_pow_four', one_mul, ← Complex.ofReal_neg, ← Complex.ofReal_mul,
      Complex.ofReal_re, Complex.ofReal_im]
    refine ⟨?_, rfl⟩
    have h1 : 0 ≤ ∑ d ∈ Finset.range D, y d ^ 4 :=
      Finset.sum_nonneg (fun d _ => (by decide : Even 4).pow_nonneg _)
    nlinarith [mul_nonneg hμ h1]
  · simp only [if_true]
    rw [psum_imag, Complex.I_sq]
    have e : -(μ : ℂ) * (-1 * ((∑ d ∈ Finset.range D, y d ^ 2 : ℝ) : ℂ)) ^ 2
        = ((-(μ * (∑ d ∈ Finset.range D, y d ^ 2) ^ 2) : ℝ) : ℂ) := by
      push_cast; ring
    rw [e, Complex.ofReal_re, Complex.ofReal_im]
    refine ⟨?_, rfl⟩
    nlinarith [mul_nonneg hμ (sq_nonneg (∑ d ∈ Finset.range D, y d ^ 2))]

/-- `ν Δ` (Burgers and the diffusive part of every nonlinear stepper), `ν ≥ 0`: real and `≤ 0` -/
theorem Burgers_linear_operator_re_nonpos (D : ℕ) (y : ℕ → ℝ) (ν : ℝ) (hν : 0 ≤ ν) :
    (Burgers_linear_operator (imagVec D y) (ν : ℂ)).re ≤ 0
      ∧ (Burgers_linear_operator (imagVec D y) (ν : ℂ)).im = 0 := by
  rw [Burgers_linear_operator_eq, psum_imag, Complex.I_sq]
  have e : (ν : ℂ) * (-1 * ((∑ d ∈ Finset.range D, y d ^ 2 : ℝ) : ℂ))
      = ((-(ν * ∑ d ∈ Finset.range D, y d ^ 2) : ℝ) : ℂ) := by
    push_cast; ring
  rw [e, Complex.ofReal_re, Complex.ofReal_im]
  refine ⟨?_, rfl⟩
  have h1 : 0 ≤ ∑ d ∈ Finset.range D, y d ^ 2 := Finset.sum_nonneg (fun d _ => sq_nonneg _)
  nlinarith [mul_nonneg hν h1]

/-! ### the same at a stored mode (`kappa c h` is purely imaginary for a real scale) -/

theorem Advection_linear_operator_re_kappa (c : Cfg ℂ) (s : ℝ) (hs : c.s = (s : ℂ)) (h : ℕ) (v : List ℝ)
    (hv : v.length = c.D) :
    (Advection_linear_operator (kappa c h) (ofRealL v)).re = 0 := by
  rw [kappa_eq_imagVec c s hs]; exact Advection_linear_operator_re c.D _ v hv

theorem Dispersion_linear_operator_re_kappa (c : Cfg ℂ) (s : ℝ) (hs : c.s = (s : ℂ)) (h : ℕ) (ξ : List ℝ)
    (mix : Bool) (hξ : ξ.length = c.D) :
    (Dispersion_linear_operator (kappa c h) (ofRealL ξ) mix).re = 0 := by
  rw [kappa_eq_imagVec c s hs]; exact Dispersion_linear_operator_re c.D _ ξ mix hξ

theorem Diffusion_linear_operator_re_nonpos_kappa (c : Cfg ℂ) (s : ℝ) (hs : c.s = (s : ℂ)) (h : ℕ)
    (A : List (List ℝ)) (hA : A.length = c.D) (hr : ∀ r ∈ A, r.length = c.D)
    (hpsd : ∀ x : Fin c.D → ℝ, 0 ≤ ∑ i : Fin c.D, ∑ j : Fin c.D, (A.getD i []).getD j 0 * x i * x j) :
    (Diffusion_linear_operator (kappa c h) (ofRealM A)).re ≤ 0 := by
  rw [kappa_eq_imagVec c s hs]; exact (Diffusion_linear_operator_re_nonpos c.D _ A hA hr hpsd).1

theorem HyperDiffusion_linear_operator_re_nonpos_kappa (c : Cfg ℂ) (s : ℝ) (hs : c.s = (s : ℂ)) (h : ℕ)
    (μ : ℝ) (mix : Bool) (hμ : 0 ≤ μ) :
    (HyperDiffusion_linear_operator (kappa c h) (μ : ℂ) mix).re ≤ 0 := by
  rw [kappa_eq_imagVec c s hs]; exact (HyperDiffusion_linear_operator_re_nonpos c.D _ μ mix hμ).1

/-! ### non-vacuity of the hypotheses, and the generated definitions evaluated on concrete data -/

/-- a velocity of the right shape -/
example : ∃ κ v : List ℂ, v.length = κ.length ∧ κ.length = 2 :=
  ⟨[Complex.I, 2 * Complex.I], [1, 1], rfl, rfl⟩

/-- a diffusivity matrix of the right shape -/
example : ∃ (κ : List ℂ) (A : List (List ℂ)),
    A.length = κ.length ∧ (∀ r ∈ A, r.length = κ.length) ∧ κ.length = 2 :=
  ⟨[Complex.I, 2 * Complex.I], [[1, 0], [0, 1]], rfl, by simp, rfl⟩

/-- a stored mode of a 2-D configuration with a real scale; `kappa` has length `D` -/
example : ∃ (c : Cfg ℂ) (s : ℝ), c.s = (s : ℂ) ∧ c.D = 2 ∧ (kappa c 3).length = c.D :=
  ⟨⟨2, 8, ((1 : ℝ) : ℂ), 2, 3⟩, 1, rfl, rfl, kappa_length _ _⟩

/-- the identity matrix is positive semidefinite in the sense of `Diffusion_linear_operator_re_nonpos` -/
example : (([[1, 0], [0, 1]] : List (List ℝ)).length = 2)
    ∧ (∀ r ∈ ([[1, 0], [0, 1]] : List (List ℝ)), r.length = 2)
    ∧ ∀ x : Fin 2 → ℝ, 0 ≤ ∑ i : Fin 2, ∑ j : Fin 2,
        (([[1, 0], [0, 1]] : List (List ℝ)).getD i []).getD j 0 * x i * x j := by
  refine ⟨rfl, by simp, ?_⟩
  intro x
  simp [Fin.sum_univ_two]
  nlinarith [sq_nonneg (x 0), sq_nonneg (x 1)]

/-- `Advection` at `κ = (i, 2i)`, `v = (1, 1)`: `−3i` -/
example : Advection_linear_operator [Complex.I, 2 * Complex.I] [1, 1] = -(3 * Complex.I) := by
  simp [Advection_linear_operator, grad_inner, sumList, npow]
  ring

/-- `Diffusion` at `κ = (i, 2i)`, `A = 1`: `−5` -/
example : Diffusion_linear_operator [Complex.I, 2 * Complex.I] [[1, 0], [0, 1]] = -5 := by
  simp [Diffusion_linear_operator, sumList]
  ring_nf
  simp [Complex.I_sq]
  norm_num

/-- `HyperDiffusion` distinguishes its flag: at `κ = (i, i)`, `μ = 1`: `−4` (mixed) vs `−2` -/
example : HyperDiffusion_linear_operator [Complex.I, Complex.I] 1 true = -4
    ∧ HyperDiffusion_linear_operator [Complex.I, Complex.I] 1 false = -2 := by
  have h4 : Complex.I ^ 4 = 1 := I_pow_four'
  constructor
  · simp [HyperDiffusion_linear_operator, laplace_op, sumList, npow]
    norm_num
  · simp [HyperDiffusion_linear_operator, laplace_op, sumList, npow, mul_assoc]
    norm_num

/-! ### coverage: every class the translator found has a theorem above

The translator enumerates the classes with `ast`; the two lists below are regenerated with the
definitions.  A class that appears (or disappears, or changes its parent) in the source changes
these lists and the `rfl`s stop compiling until a theorem for the new class is added here. -/

theorem coverage_generated : Gen.Steppers.generated_classes =
    ["Advection", "AdvectionDiffusion", "AllenCahn", "BelousovZhabotinsky", "Burgers", "CahnHilliard",
     "Diffusion", "Dispersion", "FisherKPP", "GeneralConvectionStepper", "GeneralGradientNormStepper",
     "GeneralLinearStepper", "GeneralNonlinearStepper", "GeneralPolynomialStepper",
     "GeneralVorticityConvectionStepper", "GrayScott", "HyperDiffusion", "KolmogorovFlowVelocity",
     "KolmogorovFlowVorticity", "KortewegDeVries", "KuramotoSivashinsky",
     "KuramotoSivashinskyConservative", "NavierStokesVelocity", "NavierStokesVorticity",
     "SwiftHohenberg", "Wave"] := rfl

/-- the `Normalized…`/`Difficulty…` steppers only convert their arguments (C13) and inherit the
    linear operator of the `General…` class -/
theorem coverage_inherited : Gen.Steppers.inherited_classes =
    [("DifficultyConvectionStepper", "GeneralConvectionStepper"),
     ("DifficultyGradientNormStepper", "GeneralGradientNormStepper"),
     ("DifficultyLinearStepper", "GeneralLinearStepper"),
     ("DifficultyLinearStepperSimple", "GeneralLinearStepper"),
     ("DifficultyNonlinearStepper", "GeneralNonlinearStepper"),
     ("DifficultyPolynomialStepper", "GeneralPolynomialStepper"),
     ("NormalizedConvectionStepper", "GeneralConvectionStepper"),
     ("NormalizedGradientNormStepper", "GeneralGradientNormStepper"),
     ("NormalizedLinearStepper", "GeneralLinearStepper"),
     ("NormalizedNonlinearStepper", "GeneralNonlinearStepper"),
     ("NormalizedPolynomialStepper", "GeneralPolynomialStepper")] := rfl

end Exponax
