import Mathlib.Tactic
import ExponaxModel.Model.Interp
import ExponaxModel.Proofs.LayoutLemmas
import ExponaxModel.Proofs.MeanMode
import ExponaxModel.Proofs.DFT
/-
C15 support — basic facts about `Interp.srcAxis`, `Interp.srcIndex`, `Interp.mapSpectrum` at `K := ℂ`:
closed forms of the per-axis block copy, the pointwise formula of the new half spectrum, the
one-dimensional specialisation.
-/
set_option linter.unusedVariables false
set_option linter.unusedSimpArgs false
namespace Exponax.Interp
open Exponax Exponax.Layout Exponax.Transform Exponax.DFT Finset

/-! ### the per-axis block copy (copies of the closed forms in `Properties/C15.lean`) -/

/-- closed form of the leading-axis block copy (`m = min(N_old, N_new) ≥ 2`) -/
theorem srcAxis_lead_closed (m Nnew Nold i : ℕ) (hm : 2 ≤ m) (hn : m ≤ Nnew) (ho : m ≤ Nold) :
    srcAxis m Nnew Nold false i =
      if Nnew - m / 2 ≤ i ∧ i < Nnew then some (Nold - m / 2 + (i - (Nnew - m / 2)))
      else if i < (m + 1) / 2 then some i else none := by
  have hnyq : 0 < m / 2 := by omega
  unfold srcAxis
  simp only [Bool.false_eq_true, if_false]
  rw [pySlice_someNeg_none Nnew (m / 2) hnyq, pySlice_someNeg_none Nold (m / 2) hnyq]
  have hleft : (pySlice Nnew none (some (if m % 2 = 0 then ((m / 2 : ℕ) : ℤ) else ((m / 2 : ℕ) : ℤ) + 1))).2 = (m + 1) / 2 := by
    split_ifs with he
    · rw [pySlice_none_some]; simp only; omega
    · have : (((m / 2 : ℕ) : ℤ) + 1) = ((m / 2 + 1 : ℕ) : ℤ) := by push_cast; ring
      rw [this, pySlice_none_some]; simp only; omega
  rw [hleft]
  have e1 : min (m / 2) Nnew = m / 2 := by omega
  have e2 : min (m / 2) Nold = m / 2 := by omega
  simp only [e1, e2]

/-- last (rfft) axis: entries `0 … m/2` are copied to themselves -/
theorem srcAxis_last (Nold Nnew i : ℕ) (hi : i < Nnew / 2 + 1) :
    srcAxis (min Nold Nnew) (Nnew / 2 + 1) (Nold / 2 + 1) true i =
      if i < (min Nold Nnew) / 2 + 1 then some i else none := by
  have e : (((min Nold Nnew / 2 : ℕ) : ℤ) + 1) = ((min Nold Nnew / 2 + 1 : ℕ) : ℤ) := by push_cast; ring
  have hs : (pySlice (Nnew / 2 + 1) none (some (((min Nold Nnew / 2 : ℕ) : ℤ) + 1))).2
      = min (min Nold Nnew / 2 + 1) (Nnew / 2 + 1) := by
    rw [e, pySlice_none_some]
  unfold srcAxis
  simp only [if_true, hs]
  have : min (min Nold Nnew / 2 + 1) (Nnew / 2 + 1) = min Nold Nnew / 2 + 1 := by omega
  rw [this]

/-! ### pointwise formula of `mapSpectrum` -/

/-- the `old` array of `mapSpectrum`: scaled (and, when up-sampling from an even grid with
    `oddballZero`, Nyquist-filtered) old spectrum -/
noncomputable def oldSpec (D Nold Nnew : ℕ) (ob : Bool) (uh : Array ℂ) (h : ℕ) : ℂ :=
  if h < numModes D Nold then
    (if (Nnew > Nold ∧ Nold % 2 = 0 ∧ ob = true) ∧ oddball Nold (wnFlat D Nold h) = false then 0
     else uh.getD h 0 / (Nold : ℂ) ^ D)
  else 0

theorem mapSpectrum_getD (D Nold Nnew : ℕ) (ob : Bool) (uh : Array ℂ) (h' : ℕ)
    (hh : h' < numModes D Nnew) :
    (mapSpectrum D Nold Nnew ob uh).getD h' 0 =
      if (Nold > Nnew ∧ Nnew % 2 = 0 ∧ ob = true) ∧ oddball Nnew (wnFlat D Nnew h') = false then 0
      else
        (match srcIndex D Nold Nnew (unflatten (wavenumberShape D Nnew) h') with
          | some idx => oldSpec D Nold Nnew ob uh (flatten (wavenumberShape D Nold) idx)
          | none => 0) * (Nnew : ℂ) ^ D := by
  unfold mapSpectrum
  simp only []
  rw [tab_getD _ _ _ _ hh]
  simp only [scaling_mode_zero]
  have hold : ∀ i : ℕ, (tab (numModes D Nold) (fun h =>
      if Nnew > Nold ∧ Nold % 2 = 0 ∧ ob = true then
        (if oddball Nold (wnFlat D Nold h) = true then uh.getD h 0 / (Nold : ℂ) ^ D else 0)
      else uh.getD h 0 / (Nold : ℂ) ^ D)).getD i 0 = oldSpec D Nold Nnew ob uh i := by
    intro i
    unfold oldSpec
    by_cases hi : i < numModes D Nold
    · rw [tab_getD _ _ _ _ hi, if_pos hi]
      by_cases hc : Nnew > Nold ∧ Nold % 2 = 0 ∧ ob = true
      · cases ho : oddball Nold (wnFlat D Nold i) <;> simp [hc, ho]
      · simp [hc]
    · rw [tab_getD_of_le _ _ _ _ (by omega), if_neg hi]
  simp only [hold]
  by_cases hc : Nold > Nnew ∧ Nnew % 2 = 0 ∧ ob = true
  · cases ho : oddball Nnew (wnFlat D Nnew h')
    · simp [hc, ho]
    · rw [if_pos hc, if_pos rfl, if_neg (by simp)]
      cases srcIndex D Nold Nnew (unflatten (wavenumberShape D Nnew) h') <;> rfl
  · rw [if_neg hc, if_neg (fun h => hc h.1)]
    cases srcIndex D Nold Nnew (unflatten (wavenumberShape D Nnew) h') <;> rfl

end Exponax.Interp
