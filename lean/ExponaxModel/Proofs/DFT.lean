import ExponaxModel.Proofs.DFTBasic
import ExponaxModel.Proofs.DFT1D
import ExponaxModel.Proofs.DFT1DMain
import ExponaxModel.Proofs.DFTnD
/-
Entry point for the DFT proofs about `Exponax.Transform.rfftnM` / `irfftnM` at `K := ℂ`.
  * `DFTBasic`  : `tab`, `sumRange`, `twiddle = ζ^m`, pointwise formulas (any `D`)
  * `DFT1D`     : `D = 1` layout, orthogonality, half-sum folding
  * `DFT1DMain` : round trip, Parseval, shift theorem, single mode (`D = 1`)
  * `DFTnD`     : general `D ≥ 1`: phase as digit dot product, orthogonality, round trip, Parseval
-/
