import ExponaxModel.Proofs.SpectralOpsBasic
import ExponaxModel.Proofs.InterpNDSpec
/-
`map_between_resolutions`: the loop `for block in get_modes_slices(D, min(N_old, N_new)):
new = new.at[block].set(old[block])` of the source (regenerated as a `List.foldl` of the numpy-indexing primitive
`block_set` over the regenerated `get_modes_slices`) computes the closed form `Interp.srcIndex` of the hand-written
model: the LAST block that contains a target index wins, the blocks are the product of {left, right} per leading
axis with the first axis varying fastest, hence per axis the right slice is preferred.
-/
set_option linter.unusedVariables false
set_option linter.unusedSimpArgs false
namespace Exponax.SpectralOpsEq
open Exponax Exponax.Layout Exponax.Transform Exponax.Nonlin Exponax.Gen.SpectralOps Exponax.NonlinFunsEq

abbrev Sl := Option ℤ × Option ℤ

/-! ### the blocks, first axis fastest -/

/-- `modeSlices` with the reversal carried out: one more leading axis is consed in front -/
def blocksRec (l r last : Sl) : ℕ → List (List Sl)
  | 0 => [[last]]
  | n + 1 => (blocksRec l r last n).flatMap (fun b => [l :: b, r :: b])

theorem prod_map_reverse (l r last : Sl) (n : ℕ) :
    (modeSlices.prod l r n).map (fun p => (last :: p).reverse) = blocksRec l r last n := by
  induction n with
  | zero => rfl
  | succ n ih =>
    rw [modeSlices.prod, blocksRec, ← ih, List.map_flatMap, List.flatMap_map]
    apply List.flatMap_congr
    intro p _
    simp

/-! ### folds -/

theorem foldl_pick {α β : Type} (c : α → Bool) (s : α → β) (val : β → ℂ) (v0 : ℂ) (bs : List α) (acc : Option β) :
    bs.foldl (fun v b => if c b then val (s b) else v) (match acc with | some l => val l | none => v0)
      = match bs.foldl (fun a b => if c b then some (s b) else a) acc with
        | some l => val l
        | none => v0 := by
  induction bs generalizing acc with
  | nil => rfl
  | cons b bs ih =>
    simp only [List.foldl_cons]
    by_cases hc : c b = true
    · simp only [hc, if_true]
      exact ih (some (s b))
    · simp only [hc, Bool.false_eq_true, if_false]
      exact ih acc

/-- the source multi-index the sequential block writes leave at `idx` -/
def pick {β : Type} (c : List Sl → Bool) (s : List Sl → β) (bs : List (List Sl)) (acc : Option β) : Option β :=
  bs.foldl (fun a b => if c b then some (s b) else a) acc

theorem pick_flatMap {β : Type} (c : List Sl → Bool) (s : List Sl → β) (l r : Sl) (bs : List (List Sl)) (acc : Option β) :
    pick c s (bs.flatMap (fun b => [l :: b, r :: b])) acc
      = bs.foldl (fun a b => if c (r :: b) then some (s (r :: b)) else if c (l :: b) then some (s (l :: b)) else a) acc := by
  induction bs generalizing acc with
  | nil => rfl
  | cons b bs ih =>
    simp only [List.flatMap_cons, pick, List.foldl_append, List.foldl_cons, List.foldl_nil] at ih ⊢
    rw [ih]

/-! ### one axis -/

/-- does the Python slice `s`, resolved on an axis of length `len`, select position `i` -/
def inSl (s : Sl) (len i : ℕ) : Bool :=
  decide ((pySlice len s.1 s.2).1 ≤ i) && decide (i < (pySlice len s.1 s.2).2)

/-- the position in the source axis (length `lenO`) of position `i` of the target axis (length `lenN`): same offset
    within the selection -/
def srcSl (s : Sl) (lenN lenO i : ℕ) : ℕ := (pySlice lenO s.1 s.2).1 + (i - (pySlice lenN s.1 s.2).1)

/-- containment in a block and the source multi-index, exactly as `block_set` computes them -/
def inB (b : List Sl) (sN idx : List ℕ) : Bool :=
  inBlock ((List.zip b sN).map (fun (s, len) => pySlice len s.1 s.2)) idx

def srcB (b : List Sl) (sN sO idx : List ℕ) : List ℕ :=
  (List.range idx.length).map (fun a =>
    (((List.zip b sO).map (fun (s, len) => pySlice len s.1 s.2)).getD a (0, 0)).1 +
      (idx.getD a 0 - (((List.zip b sN).map (fun (s, len) => pySlice len s.1 s.2)).getD a (0, 0)).1))

theorem inB_cons (s : Sl) (b : List Sl) (n : ℕ) (sN : List ℕ) (i : ℕ) (idx : List ℕ) :
    inB (s :: b) (n :: sN) (i :: idx) = (inSl s n i && inB b sN idx) := by
  simp [inB, inBlock, inSl]

theorem srcB_cons (s : Sl) (b : List Sl) (n o : ℕ) (sN sO : List ℕ) (i : ℕ) (idx : List ℕ) :
    srcB (s :: b) (n :: sN) (o :: sO) (i :: idx) = srcSl s n o i :: srcB b sN sO idx := by
  simp [srcB, srcSl, List.range_succ_eq_map, List.map_map, Function.comp_def]

theorem inB_nil (idx : List ℕ) : inB [] [] idx = true := by simp [inB, inBlock]
theorem srcB_nil (sN sO : List ℕ) : srcB [] sN sO [] = [] := by simp [srcB]

/-! ### the closed form of the sequential writes -/

def leadAxis (l r : Sl) (lenN lenO i : ℕ) : Option ℕ :=
  if inSl r lenN i then some (srcSl r lenN lenO i) else if inSl l lenN i then some (srcSl l lenN lenO i) else none

def lastAxis (last : Sl) (lenN lenO i : ℕ) : Option ℕ :=
  if inSl last lenN i then some (srcSl last lenN lenO i) else none

/-- per-axis closed form, leading axes first -/
def srcRec (l r last : Sl) (N O nl ol : ℕ) : ℕ → List ℕ → Option (List ℕ)
  | 0, idx => (lastAxis last nl ol (idx.headD 0)).map (fun j => [j])
  | n + 1, idx =>
    match srcRec l r last N O nl ol n idx.tail, leadAxis l r N O (idx.headD 0) with
    | some t, some j => some (j :: t)
    | _, _ => none

theorem fold_lead (c : List Sl → Bool) (s : List Sl → List ℕ) (cr cl : Bool) (jr jl : ℕ)
    (bs : List (List Sl)) (acc : Option (List ℕ)) :
    bs.foldl (fun a b => if (cr && c b) then some (jr :: s b) else if (cl && c b) then some (jl :: s b) else a)
        (match acc, (if cr then some jr else if cl then some jl else none) with
          | some t, some j => some (j :: t)
          | _, _ => none)
      = match bs.foldl (fun a b => if c b then some (s b) else a) acc,
            (if cr then some jr else if cl then some jl else none) with
        | some t, some j => some (j :: t)
        | _, _ => none := by
  induction bs generalizing acc with
  | nil => rfl
  | cons b bs ih =>
    simp only [List.foldl_cons]
    rw [← ih]
    congr 1
    cases cr <;> cases cl <;> cases hc : c b <;> cases acc <;> simp

theorem pick_blocksRec (l r last : Sl) (N O nl ol : ℕ) (n : ℕ) (idx : List ℕ) (hidx : idx.length = n + 1) :
    pick (fun b => inB b (List.replicate n N ++ [nl]) idx)
        (fun b => srcB b (List.replicate n N ++ [nl]) (List.replicate n O ++ [ol]) idx) (blocksRec l r last n) none
      = srcRec l r last N O nl ol n idx := by
  induction n generalizing idx with
  | zero =>
    match idx, hidx with
    | [i], _ =>
      simp [pick, blocksRec, srcRec, lastAxis, inB_cons, srcB_cons, inB_nil, srcB_nil]
  | succ n ih =>
    match idx, hidx with
    | i :: rest, hrest =>
      have hr : rest.length = n + 1 := by simpa using hrest
      rw [blocksRec, pick_flatMap]
      simp only [List.replicate_succ, List.cons_append, inB_cons, srcB_cons, srcRec, List.headD_cons, List.tail_cons]
      rw [← ih rest hr]
      unfold leadAxis pick
      exact fold_lead (fun b => inB b (List.replicate n N ++ [nl]) rest)
        (fun b => srcB b (List.replicate n N ++ [nl]) (List.replicate n O ++ [ol]) rest)
        (inSl r N i) (inSl l N i) (srcSl r N O i) (srcSl l N O i) (blocksRec l r last n) none

theorem pick_blocksRec' (l r last : Sl) (N O nl ol : ℕ) (n : ℕ) (sN sO : List ℕ)
    (hN : sN = List.replicate n N ++ [nl]) (hO : sO = List.replicate n O ++ [ol]) (idx : List ℕ)
    (hidx : idx.length = n + 1) :
    pick (fun b => inB b sN idx) (fun b => srcB b sN sO idx) (blocksRec l r last n) none
      = srcRec l r last N O nl ol n idx := by
  subst hN hO
  exact pick_blocksRec l r last N O nl ol n idx hidx

/-! ### the closed form is the model's `Interp.srcIndex` -/

/-- the slices of `modeSlices D m` -/
def slLeft (m : ℕ) : Sl := if m % 2 = 0 then (none, some ((m / 2 : ℕ) : ℤ)) else (none, some (((m / 2 : ℕ) : ℤ) + 1))
def slRight (m : ℕ) : Sl := (some (-((m / 2 : ℕ) : ℤ)), none)
def slLast (m : ℕ) : Sl := (none, some (((m / 2 : ℕ) : ℤ) + 1))

theorem modeSlices_eq_blocksRec (D m : ℕ) :
    modeSlices D m = blocksRec (slLeft m) (slRight m) (slLast m) (D - 1) := by
  unfold modeSlices
  exact prod_map_reverse _ _ _ _

theorem pySlice_none_fst (len : ℕ) (t : Option ℤ) : (pySlice len none t).1 = 0 := by
  simp [pySlice]

theorem srcAxis_lead (m lenNew lenOld i : ℕ) :
    Interp.srcAxis m lenNew lenOld false i = leadAxis (slLeft m) (slRight m) lenNew lenOld i := by
  unfold Interp.srcAxis leadAxis inSl srcSl slRight slLeft
  by_cases hm : m % 2 = 0
  · simp only [hm, ↓reduceIte, Bool.false_eq_true, pySlice_none_fst, Nat.zero_le, decide_true, Bool.true_and,
      Bool.and_eq_true, decide_eq_true_eq, Nat.sub_zero, Nat.zero_add]
  · simp only [hm, ↓reduceIte, Bool.false_eq_true, pySlice_none_fst, Nat.zero_le, decide_true, Bool.true_and,
      Bool.and_eq_true, decide_eq_true_eq, Nat.sub_zero, Nat.zero_add]

theorem srcAxis_last' (m lenNew lenOld i : ℕ) :
    Interp.srcAxis m lenNew lenOld true i = lastAxis (slLast m) lenNew lenOld i := by
  unfold Interp.srcAxis lastAxis inSl srcSl slLast
  simp only [↓reduceIte, pySlice_none_fst, Nat.zero_le, decide_true, Bool.true_and, decide_eq_true_eq, Nat.sub_zero,
    Nat.zero_add]

/-- the `foldr` of `srcIndex` from axis `s` on -/
def srcFrom (D Nold Nnew : ℕ) (idx : List ℕ) (s len : ℕ) : Option (List ℕ) :=
  (List.range' s len).foldr (fun d acc =>
    match acc, Interp.srcAxis (min Nold Nnew) ((wavenumberShape D Nnew).getD d 0) ((wavenumberShape D Nold).getD d 0)
        (d + 1 == D) (idx.getD d 0) with
    | some l, some i => some (i :: l)
    | _, _ => none) (some [])

theorem srcFrom_eq (D Nold Nnew : ℕ) (idx : List ℕ) (len s : ℕ) (hs : s + (len + 1) = D) :
    srcFrom D Nold Nnew idx s (len + 1)
      = srcRec (slLeft (min Nold Nnew)) (slRight (min Nold Nnew)) (slLast (min Nold Nnew)) Nnew Nold (Nnew / 2 + 1)
          (Nold / 2 + 1) len (idx.drop s) := by
  induction len generalizing s with
  | zero =>
    have hsD : s + 1 = D := by omega
    have hb : (s + 1 == D) = true := by simp [hsD]
    have h1 : ∀ N, (wavenumberShape D N).getD s 0 = N / 2 + 1 := by
      intro N
      rw [wavenumberShape_getD D N s (by omega), if_pos hsD]
    simp only [srcFrom, List.range', List.foldr_cons, List.foldr_nil, hb, h1, srcAxis_last', srcRec]
    have hh : (idx.drop s).headD 0 = idx.getD s 0 := by
      rw [List.headD_eq_head?_getD, List.head?_drop, List.getD_eq_getElem?_getD]
    rw [hh]
    cases lastAxis (slLast (min Nold Nnew)) (Nnew / 2 + 1) (Nold / 2 + 1) (idx.getD s 0) <;> rfl
  | succ len ih =>
    have hsD : s + 1 ≠ D := by omega
    have hb : (s + 1 == D) = false := by simp [hsD]
    have h1 : ∀ N, (wavenumberShape D N).getD s 0 = N := by
      intro N
      rw [wavenumberShape_getD D N s (by omega), if_neg hsD]
    have hrec := ih (s + 1) (by omega)
    unfold srcFrom at hrec ⊢
    rw [List.range'_succ, List.foldr_cons, hrec]
    simp only [hb, h1, srcAxis_lead, srcRec]
    have hh : (idx.drop s).headD 0 = idx.getD s 0 := by
      rw [List.headD_eq_head?_getD, List.head?_drop, List.getD_eq_getElem?_getD]
    have ht : (idx.drop s).tail = idx.drop (s + 1) := by simp [List.tail_drop]
    rw [hh, ht]

/-- **the closed form of the block writes is `Interp.srcIndex`** -/
theorem srcIndex_eq_srcRec (D Nold Nnew : ℕ) (hD : 1 ≤ D) (idx : List ℕ) :
    Interp.srcIndex D Nold Nnew idx
      = srcRec (slLeft (min Nold Nnew)) (slRight (min Nold Nnew)) (slLast (min Nold Nnew)) Nnew Nold (Nnew / 2 + 1)
          (Nold / 2 + 1) (D - 1) idx := by
  have := srcFrom_eq D Nold Nnew idx (D - 1) 0 (by omega)
  rw [List.drop_zero] at this
  rw [← this]
  unfold Interp.srcIndex srcFrom
  have : D - 1 + 1 = D := by omega
  rw [this, List.range_eq_range']
  rfl

/-! ### the fold of `block_set`, entry by entry -/

theorem unflatten_length (shape : List ℕ) (i : ℕ) : (unflatten shape i).length = shape.length := by
  induction shape generalizing i with
  | nil => rfl
  | cons a rest ih => simp [unflatten, ih]

theorem at2_block_set (sN sO : List ℕ) (b : List Sl) (new old : MC ℂ) (ch h' : ℕ) (hch : ch < sN.headD 0)
    (hh : h' < shapeSize sN.tail) :
    at2 (block_set sN sO b new old) ch h' =
      if inB b sN (ch :: unflatten sN.tail h') then
        at2 old ((srcB b sN sO (ch :: unflatten sN.tail h')).headD 0)
          (flatten sO.tail (srcB b sN sO (ch :: unflatten sN.tail h')).tail)
      else at2 new ch h' := by
  unfold block_set
  rw [at2_tab2 _ _ _ _ _ hch hh]
  rfl

theorem at2_foldl_block_set (sN sO : List ℕ) (old : MC ℂ) (bs : List (List Sl)) (init : MC ℂ) (ch h' : ℕ)
    (hch : ch < sN.headD 0) (hh : h' < shapeSize sN.tail) :
    at2 (bs.foldl (fun acc b => block_set sN sO b acc old) init) ch h' =
      bs.foldl (fun v b => if inB b sN (ch :: unflatten sN.tail h') then
          at2 old ((srcB b sN sO (ch :: unflatten sN.tail h')).headD 0)
            (flatten sO.tail (srcB b sN sO (ch :: unflatten sN.tail h')).tail) else v) (at2 init ch h') := by
  induction bs generalizing init with
  | nil => rfl
  | cons b bs ih =>
    simp only [List.foldl_cons]
    rw [ih, at2_block_set sN sO b init old ch h' hch hh]

theorem inSl_all (C ch : ℕ) (hch : ch < C) : inSl ((none, none) : Sl) C ch = true := by
  simp [inSl, pySlice, hch]

theorem srcSl_all (C ch : ℕ) : srcSl ((none, none) : Sl) C C ch = ch := by
  simp [srcSl, pySlice]

/-- **the block copy of `map_between_resolutions`, entry by entry: the model's `srcIndex`** -/
theorem at2_block_copy (D Nold Nnew C : ℕ) (hD : 1 ≤ D) (old init : MC ℂ) (ch h' : ℕ) (hch : ch < C)
    (hh : h' < numModes D Nnew) :
    at2 ((Gen.SpectralLayout.get_modes_slices D (min Nold Nnew)).foldl (fun acc b =>
        block_set (C :: wavenumberShape D Nnew) (C :: wavenumberShape D Nold) b acc old) init) ch h'
      = match Interp.srcIndex D Nold Nnew (unflatten (wavenumberShape D Nnew) h') with
        | some idx => at2 old ch (flatten (wavenumberShape D Nold) idx)
        | none => at2 init ch h' := by
  rw [at2_foldl_block_set _ _ _ _ _ _ _ (by simpa using hch) (by simpa [numModes] using hh)]
  rw [get_modes_slices_eq, List.foldl_map]
  simp only [List.tail_cons, inB_cons, srcB_cons, inSl_all C ch hch, srcSl_all, Bool.true_and, List.headD_cons]
  have hlen : (unflatten (wavenumberShape D Nnew) h').length = D - 1 + 1 := by
    rw [unflatten_length, wavenumberShape_length D Nnew hD]; omega
  have hfp := foldl_pick (fun b => inB b (wavenumberShape D Nnew) (unflatten (wavenumberShape D Nnew) h'))
    (fun b => srcB b (wavenumberShape D Nnew) (wavenumberShape D Nold) (unflatten (wavenumberShape D Nnew) h'))
    (fun l => at2 old ch (flatten (wavenumberShape D Nold) l)) (at2 init ch h') (modeSlices D (min Nold Nnew)) none
  simp only at hfp
  rw [hfp, modeSlices_eq_blocksRec, srcIndex_eq_srcRec D Nold Nnew hD]
  have := pick_blocksRec' (slLeft (min Nold Nnew)) (slRight (min Nold Nnew)) (slLast (min Nold Nnew)) Nnew Nold
    (Nnew / 2 + 1) (Nold / 2 + 1) (D - 1) (wavenumberShape D Nnew) (wavenumberShape D Nold) rfl rfl
    (unflatten (wavenumberShape D Nnew) h') hlen
  unfold pick at this
  rw [this]
  cases srcRec (slLeft (min Nold Nnew)) (slRight (min Nold Nnew)) (slLast (min Nold Nnew)) Nnew Nold (Nnew / 2 + 1)
    (Nold / 2 + 1) (D - 1) (unflatten (wavenumberShape D Nnew) h') <;> rfl

end Exponax.SpectralOpsEq
