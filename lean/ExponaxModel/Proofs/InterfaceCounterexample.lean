import ExponaxModel.Proofs.InterfaceScaling
/-
C13 support: the REAL domain extent in `gradientNorm_scaling`, `convection_scaling` (non-conservative), `general_scaling`
of `Proofs/InterfaceScaling.lean` is necessary.  The requested statement "for every `L ≠ 0`" over `ℂ` is FALSE for the
model as written: `irfftn` takes real parts, so a non-real `1/L` cannot be pulled through it.

Counterexamples (1-D, two grid points, no dealiasing mask, spectrum `û = (0, 1)` resp. `(1, 1)`, `L = i`, `dt = 1`, scale `1`):
 * `gradientNorm_scaling_false_of_complex_extent`   mean mode of the gradient-norm term: `-π²` on the left, `0` on the right
 * `convection_scaling_false_of_complex_extent`     mean mode of the single-channel non-conservative convection: `-π` vs `0`
(closed forms `gradientNorm_two_point`, `convection_two_point` for every complex `L`).
-/
set_option linter.unusedVariables false
namespace Exponax.Interface
open Exponax Exponax.Layout Exponax.Transform Exponax.Nonlin Exponax.Gen.Convert Exponax.Alias Finset

theorem twiddle_two_zero : (twiddle 2 0 : ℂ) = 1 := by rw [DFT.twiddle_eq_zpow]; simp

theorem twiddle_two_neg_one : (twiddle 2 (-1) : ℂ) = -1 := by
  rw [DFT.twiddle_eq_zpow, zpow_neg, zpow_one, DFT.zeta]
  have h : Complex.exp (-(2 * (Real.pi : ℂ) * Complex.I / ((2 : ℕ) : ℂ))) = -1 := by
    rw [show -(2 * (Real.pi : ℂ) * Complex.I / ((2 : ℕ) : ℂ)) = -((Real.pi : ℂ) * Complex.I) by
      push_cast; ring, Complex.exp_neg, Complex.exp_pi_mul_I]
    norm_num
  rw [h]; norm_num

theorem g_two_point (L : ℂ) (x : ℕ) (hx : x < 2) :
    (nifft (cfgOf 1 2 L (0, 0)) (tab 2 fun h =>
        Nonlin.deriv (cfgOf 1 2 L (0, 0)) 0 h * at2 (#[#[0, 1]] : MC ℂ) 0 h)).getD x 0
      = ((Nonlin.deriv (cfgOf 1 2 L (0, 0)) 0 1).re : ℂ) * (if x = 0 then 1 else -1) / 2 := by
  have hmask : ∀ h, mask (cfgOf 1 2 L (0, 0)) h = 1 := fun h => by simp [mask, cfgOf]
  unfold nifft
  show (irfftnM 1 2 (tab (numModes 1 2) _)).getD x 0 = _
  rw [DFT.irfftnM_getD 1 2 (by norm_num) _ x (by simpa using hx)]
  rw [show numModes 1 2 = 2 by decide, Finset.sum_range_succ, Finset.sum_range_one]
  rw [DFT.tab_getD _ _ _ _ (by norm_num : 0 < 2), DFT.tab_getD _ _ _ _ (by norm_num : 1 < 2),
    DFT.tab_getD _ _ _ _ (by norm_num : 0 < 2), DFT.tab_getD _ _ _ _ (by norm_num : 1 < 2), hmask, hmask]
  have h0 : at2 (#[#[0, 1]] : MC ℂ) 0 0 = 0 := by simp [at2]
  have h1 : at2 (#[#[0, 1]] : MC ℂ) 0 1 = 1 := by simp [at2]
  rw [h0, h1, show herm_weight 1 2 1 = 1 by decide, show wnFlat 1 2 1 = [1] by decide]
  interval_cases x
  · rw [show phaseK 1 2 [1] 0 = 0 by decide]
    simp [twiddle_two_zero]
  · rw [show phaseK 1 2 [1] 1 = 1 by decide, twiddle_two_neg_one]
    simp

/-- closed form of the gradient-norm term (no mean fix, no dealiasing) on the 1-D two-point grid for the spectrum `(0, 1)`
    at the mean mode -/
theorem gradientNorm_two_point (L b : ℂ) :
    at2 (gradientNorm (cfgOf 1 2 L (0, 0)) 1 b false #[#[0, 1]]) 0 0
      = -b * (1 / 2 * (((Nonlin.deriv (cfgOf 1 2 L (0, 0)) 0 1).re : ℂ) ^ 2 / 2)) := by
  have hM : modes (cfgOf 1 2 L (0, 0)) = 2 := by show numModes 1 2 = 2; decide
  have hG : gridSize (cfgOf 1 2 L (0, 0)) = 2 := by show 2 ^ 1 = 2; norm_num
  have hmask : ∀ h, mask (cfgOf 1 2 L (0, 0)) h = 1 := fun h => by simp [mask, cfgOf]
  unfold gradientNorm
  simp only [hM, hG, cfgOf_D, Bool.false_eq_true, ↓reduceIte]
  rw [Nonlin.at2_tab2 _ _ _ 0 0 (by norm_num) (by norm_num), Nonlin.at2_tabC _ _ 0 0 (by norm_num),
    nfft_getD _ _ 0 (by rw [hM]; norm_num), hmask]
  show -b * (qlit 1 2 * (1 * (rfftnM 1 2 _).getD 0 0)) = _
  rw [DFT.rfftnM_getD 1 2 (by norm_num) _ 0 (by decide), show wnFlat 1 2 0 = [0] by decide]
  rw [show (2 : ℕ) ^ 1 = 2 by norm_num, Finset.sum_range_succ, Finset.sum_range_one,
    show phaseK 1 2 [0] 0 = 0 by decide, show phaseK 1 2 [0] 1 = 0 by decide, twiddle_two_zero]
  have hq : ∀ x, x < 2 →
      (Array.getD (tab2 1 2 fun ch x =>
        at2 (tab2 1 2 fun ch x => sumList (List.map (fun d =>
          at2 (tabC (1 * 1) fun cd => nifft (cfgOf 1 2 L (0, 0)) (tab 2 fun h =>
            Nonlin.deriv (cfgOf 1 2 L (0, 0)) (cd % 1) h * at2 (#[#[0, 1]] : MC ℂ) (cd / 1) h)) (ch * 1 + d) x *
          at2 (tabC (1 * 1) fun cd => nifft (cfgOf 1 2 L (0, 0)) (tab 2 fun h =>
            Nonlin.deriv (cfgOf 1 2 L (0, 0)) (cd % 1) h * at2 (#[#[0, 1]] : MC ℂ) (cd / 1) h)) (ch * 1 + d) x)
          (List.range 1))) ch x) 0 #[]).getD x 0
      = (((Nonlin.deriv (cfgOf 1 2 L (0, 0)) 0 1).re : ℂ) / 2) ^ 2 := by
    intro x hx
    show at2 _ 0 x = _
    rw [Nonlin.at2_tab2 _ _ _ 0 x (by norm_num) hx, Nonlin.at2_tab2 _ _ _ 0 x (by norm_num) hx]
    simp only [List.range_one, List.map_cons, List.map_nil, sumList, List.foldl_cons, List.foldl_nil, zero_add,
      Nat.zero_mul]
    rw [Nonlin.at2_tabC _ _ 0 x (by norm_num)]
    simp only [Nat.zero_mod, Nat.zero_div]
    rw [g_two_point L x hx]
    interval_cases x <;> simp <;> ring
  rw [hq 0 (by norm_num), hq 1 (by norm_num)]
  simp only [qlit_eq]
  push_cast
  ring
/-- the derivative-operator entry of the Nyquist mode on the two-point grid -/
theorem deriv_two_point (L : ℂ) : Nonlin.deriv (cfgOf 1 2 L (0, 0)) 0 1 = Complex.I * (2 * (Real.pi : ℂ) / L) := by
  unfold Nonlin.deriv
  rw [show wnFlat (cfgOf 1 2 L (0, 0)).D (cfgOf 1 2 L (0, 0)).N 1 = [1] from by
    show wnFlat 1 2 1 = [1]; decide]
  simp [cfgOf]

/-- **the requested statement with a complex extent is false (gradient norm).**  For `L = i`, `dt = 1`, `b = 1`:
    `dt · gradientNorm(L; b) ≠ gradientNorm(1; b dt / L²)` at the mean mode. -/
theorem gradientNorm_scaling_false_of_complex_extent :
    (1 : ℂ) * at2 (gradientNorm (cfgOf 1 2 Complex.I (0, 0)) 1 1 false #[#[0, 1]]) 0 0
      ≠ at2 (gradientNorm (cfgOf 1 2 1 (0, 0)) 1 (normalize_gradient_norm_scale 1 Complex.I 1) false
          #[#[0, 1]]) 0 0 := by
  rw [gradientNorm_two_point, gradientNorm_two_point, deriv_two_point, deriv_two_point]
  have h1 : (Complex.I * (2 * (Real.pi : ℂ) / Complex.I)).re = 2 * Real.pi := by
    rw [mul_div_assoc', mul_div_cancel_left₀ _ Complex.I_ne_zero]
    simp
  have h2 : (Complex.I * (2 * (Real.pi : ℂ) / 1)).re = 0 := by simp
  rw [h1, h2]
  have hpi : (Real.pi : ℂ) ≠ 0 := Complex.ofReal_ne_zero.mpr Real.pi_ne_zero
  push_cast
  intro h
  apply hpi
  have h' : -((Real.pi : ℂ) ^ 2) = 0 := by
    have e : (1 : ℂ) * (-1 * (1 / 2 * ((2 * (Real.pi : ℂ)) ^ 2 / 2))) = -((Real.pi : ℂ) ^ 2) := by ring
    rw [← e, h]; ring
  exact pow_eq_zero_iff (two_ne_zero) |>.mp (neg_eq_zero.mp h')

/-! ### single-channel non-conservative convection -/

/-- `ifft` on the 1-D two-point grid without mask: `u_x = (Re c₀ ± Re c₁)/2` -/
theorem nifft_two_point (L : ℂ) (a : Array ℂ) (x : ℕ) (hx : x < 2) :
    (nifft (cfgOf 1 2 L (0, 0)) a).getD x 0
      = (((a.getD 0 0).re : ℂ) + ((a.getD 1 0).re : ℂ) * (if x = 0 then 1 else -1)) / 2 := by
  have hmask : ∀ h, mask (cfgOf 1 2 L (0, 0)) h = 1 := fun h => by simp [mask, cfgOf]
  unfold nifft
  show (irfftnM 1 2 (tab (numModes 1 2) _)).getD x 0 = _
  rw [DFT.irfftnM_getD 1 2 (by norm_num) _ x (by simpa using hx)]
  rw [show numModes 1 2 = 2 by decide, Finset.sum_range_succ, Finset.sum_range_one]
  rw [DFT.tab_getD _ _ _ _ (by norm_num : 0 < 2), DFT.tab_getD _ _ _ _ (by norm_num : 1 < 2), hmask, hmask]
  rw [show herm_weight 1 2 1 = 1 by decide, show herm_weight 1 2 0 = 1 by decide,
    show wnFlat 1 2 1 = [1] by decide, show wnFlat 1 2 0 = [0] by decide]
  interval_cases x
  · rw [show phaseK 1 2 [1] 0 = 0 by decide, show phaseK 1 2 [0] 0 = 0 by decide]
    simp [twiddle_two_zero]
  · rw [show phaseK 1 2 [1] 1 = 1 by decide, show phaseK 1 2 [0] 1 = 0 by decide, twiddle_two_neg_one]
    simp [twiddle_two_zero]

theorem deriv_two_point_zero (L : ℂ) : Nonlin.deriv (cfgOf 1 2 L (0, 0)) 0 0 = 0 := by
  unfold Nonlin.deriv
  rw [show wnFlat (cfgOf 1 2 L (0, 0)).D (cfgOf 1 2 L (0, 0)).N 0 = [0] from by
    show wnFlat 1 2 0 = [0]; decide]
  simp

/-- closed form of the single-channel non-conservative convection term on the 1-D two-point grid for the spectrum
    `(1, 1)` at the mean mode -/
theorem convection_two_point (L b : ℂ) :
    at2 (convection (cfgOf 1 2 L (0, 0)) 1 b true false #[#[1, 1]]) 0 0
      = -b * (((Nonlin.deriv (cfgOf 1 2 L (0, 0)) 0 1).re : ℂ) / 2) := by
  have hM : modes (cfgOf 1 2 L (0, 0)) = 2 := by show numModes 1 2 = 2; decide
  have hG : gridSize (cfgOf 1 2 L (0, 0)) = 2 := by show 2 ^ 1 = 2; norm_num
  have hmask : ∀ h, mask (cfgOf 1 2 L (0, 0)) h = 1 := fun h => by simp [mask, cfgOf]
  unfold convection
  simp only [hM, hG, cfgOf_D, Bool.false_eq_true, ↓reduceIte]
  rw [Nonlin.at2_tab2 _ _ _ 0 0 (by norm_num) (by norm_num), nfft_getD _ _ 0 (by rw [hM]; norm_num), hmask]
  show -b * (1 * (rfftnM 1 2 _).getD 0 0) = _
  rw [DFT.rfftnM_getD 1 2 (by norm_num) _ 0 (by decide), show wnFlat 1 2 0 = [0] by decide]
  rw [show (2 : ℕ) ^ 1 = 2 by norm_num, Finset.sum_range_succ, Finset.sum_range_one,
    show phaseK 1 2 [0] 0 = 0 by decide, show phaseK 1 2 [0] 1 = 0 by decide, twiddle_two_zero]
  rw [DFT.tab_getD _ _ _ _ (by norm_num : 0 < 2), DFT.tab_getD _ _ _ _ (by norm_num : 1 < 2)]
  simp only [List.range_one, List.map_cons, List.map_nil, sumList, List.foldl_cons, List.foldl_nil, zero_add]
  rw [Nonlin.at2_tabC _ _ 0 0 (by norm_num), Nonlin.at2_tabC _ _ 0 1 (by norm_num),
    Nonlin.at2_tabC _ _ 0 0 (by norm_num), Nonlin.at2_tabC _ _ 0 1 (by norm_num)]
  rw [nifft_two_point L _ 0 (by norm_num), nifft_two_point L _ 1 (by norm_num),
    nifft_two_point L _ 0 (by norm_num), nifft_two_point L _ 1 (by norm_num)]
  rw [DFT.tab_getD _ _ _ _ (by norm_num : 0 < 2), DFT.tab_getD _ _ _ _ (by norm_num : 1 < 2), deriv_two_point_zero]
  have h0 : at2 (#[#[1, 1]] : MC ℂ) 0 0 = 1 := by simp [at2]
  have h1 : at2 (#[#[1, 1]] : MC ℂ) 0 1 = 1 := by simp [at2]
  have e0 : ((#[#[1, 1]] : MC ℂ).getD 0 #[]).getD 0 0 = 1 := by simp
  have e1 : ((#[#[1, 1]] : MC ℂ).getD 0 #[]).getD 1 0 = 1 := by simp
  rw [h0, h1, e0, e1]
  simp

/-- **the requested statement with a complex extent is false (non-conservative convection).**  For `L = i`, `dt = 1`,
    `b = 1`: `dt · convection(L; b) ≠ convection(1; b dt / L)` at the mean mode. -/
theorem convection_scaling_false_of_complex_extent :
    (1 : ℂ) * at2 (convection (cfgOf 1 2 Complex.I (0, 0)) 1 1 true false #[#[1, 1]]) 0 0
      ≠ at2 (convection (cfgOf 1 2 1 (0, 0)) 1 (normalize_convection_scale 1 Complex.I 1) true false
          #[#[1, 1]]) 0 0 := by
  rw [convection_two_point, convection_two_point, deriv_two_point, deriv_two_point]
  have h1 : (Complex.I * (2 * (Real.pi : ℂ) / Complex.I)).re = 2 * Real.pi := by
    rw [mul_div_assoc', mul_div_cancel_left₀ _ Complex.I_ne_zero]
    simp
  have h2 : (Complex.I * (2 * (Real.pi : ℂ) / 1)).re = 0 := by simp
  rw [h1, h2]
  have hpi : (Real.pi : ℂ) ≠ 0 := Complex.ofReal_ne_zero.mpr Real.pi_ne_zero
  push_cast
  intro h
  apply hpi
  have e : (1 : ℂ) * (-1 * (2 * (Real.pi : ℂ) / 2)) = -(Real.pi : ℂ) := by ring
  rw [e] at h
  have h' : -(Real.pi : ℂ) = 0 := by rw [h]; ring
  exact neg_eq_zero.mp h'

end Exponax.Interface
