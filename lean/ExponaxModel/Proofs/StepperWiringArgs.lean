import ExponaxModel.Properties.C13
import ExponaxModel.Generated.StepperWiring
/-
The WIRING of the stepper classes, tied to the source by translation — part 1: constructor arguments.

`Generated/StepperWiring.lean` is regenerated (harness/translate_wiring.py) from `__init__` / `_build_nonlinear_fun`
    of
EVERY class under exponax/stepper/ that derives from `BaseStepper`.  Here, for every class `X`:

 * `X_defaults`            the documented default of every constructor argument;
 * `X_attrs_eq`            every attribute stored by `X.__init__` is the constructor argument of the same name, except
                           the arguments that are normalised (scalar → per-axis vector → matrix), for which
                           `X_init_<attr>_<form>_eq` gives the documented vector / matrix
                           (scalar ν ↦ ν·I, vector ↦ diag, matrix ↦ itself; scalar velocity ↦ constant vector);
 * `X_super_args_eq`       the arguments of `super().__init__`: the documented number of channels, `order`,
                           `num_circle_points`, `circle_radius` forwarded (linear steppers: order 0), and for the
                           `Normalized*` / `Difficulty*` classes the documented conversion (`Gen.Convert.extract_*`,
                               L = 1,
                           dt = 1) with EVERY flag forwarded unchanged;
 * `X_general_args` / `X_base_args_eq`   the composition down to the `General*Stepper` / to `BaseStepper.__init__`.

The right-hand sides are the documented wiring, written by hand (harness/props/steppers.py is the same table in
executable form).  A source edit changes the regenerated left-hand sides and breaks the corresponding theorem.
-/
set_option linter.unusedVariables false
set_option linter.unusedSimpArgs false
namespace Exponax.StepperWiringEq
open Exponax Exponax.Nonlin Exponax.Gen.StepperWiring Exponax.Gen.Convert

/-! ### the generated lists are pinned: a new class / attribute without a theorem breaks the build -/

theorem generated_classes_pinned : generated_classes =
    ["Advection", "AdvectionDiffusion", "AllenCahn", "BelousovZhabotinsky", "Burgers", "CahnHilliard",
     "GeneralConvectionStepper", "NormalizedConvectionStepper", "DifficultyConvectionStepper",
     "GeneralGradientNormStepper", "NormalizedGradientNormStepper", "DifficultyGradientNormStepper",
     "GeneralLinearStepper", "NormalizedLinearStepper", "DifficultyLinearStepper", "DifficultyLinearStepperSimple",
     "GeneralNonlinearStepper", "NormalizedNonlinearStepper", "DifficultyNonlinearStepper",
     "GeneralPolynomialStepper", "NormalizedPolynomialStepper", "DifficultyPolynomialStepper", "Diffusion",
     "Dispersion", "FisherKPP", "GeneralVorticityConvectionStepper", "GrayScott", "HyperDiffusion",
     "KolmogorovFlowVelocity", "KolmogorovFlowVorticity", "KortewegDeVries", "KuramotoSivashinsky",
     "KuramotoSivashinskyConservative", "NavierStokesVelocity", "NavierStokesVorticity", "SwiftHohenberg", "Wave"] :=
         rfl

theorem own_nonlinear_fun_classes_pinned : own_nonlinear_fun_classes =
    ["Advection", "AdvectionDiffusion", "AllenCahn", "BelousovZhabotinsky", "Burgers", "CahnHilliard",
     "GeneralConvectionStepper", "GeneralGradientNormStepper", "GeneralLinearStepper", "GeneralNonlinearStepper",
     "GeneralPolynomialStepper", "Diffusion", "Dispersion", "FisherKPP", "GeneralVorticityConvectionStepper",
     "GrayScott", "HyperDiffusion", "KolmogorovFlowVelocity", "KolmogorovFlowVorticity", "KortewegDeVries",
     "KuramotoSivashinsky", "KuramotoSivashinskyConservative", "NavierStokesVelocity", "NavierStokesVorticity",
     "SwiftHohenberg", "Wave"] := rfl

theorem inherited_nonlinear_fun_pinned : inherited_nonlinear_fun =
    [("NormalizedConvectionStepper", "GeneralConvectionStepper"),
     ("DifficultyConvectionStepper", "GeneralConvectionStepper"),
     ("NormalizedGradientNormStepper", "GeneralGradientNormStepper"),
     ("DifficultyGradientNormStepper", "GeneralGradientNormStepper"),
     ("NormalizedLinearStepper", "GeneralLinearStepper"), ("DifficultyLinearStepper", "GeneralLinearStepper"),
     ("DifficultyLinearStepperSimple", "GeneralLinearStepper"),
     ("NormalizedNonlinearStepper", "GeneralNonlinearStepper"),
     ("DifficultyNonlinearStepper", "GeneralNonlinearStepper"),
     ("NormalizedPolynomialStepper", "GeneralPolynomialStepper"),
     ("DifficultyPolynomialStepper", "GeneralPolynomialStepper")] := rfl

theorem parent_classes_pinned : parent_classes =
    [("Advection", "BaseStepper"), ("AdvectionDiffusion", "BaseStepper"), ("AllenCahn", "BaseStepper"),
     ("BelousovZhabotinsky", "BaseStepper"), ("Burgers", "BaseStepper"), ("CahnHilliard", "BaseStepper"),
     ("GeneralConvectionStepper", "BaseStepper"), ("NormalizedConvectionStepper", "GeneralConvectionStepper"),
     ("DifficultyConvectionStepper", "NormalizedConvectionStepper"), ("GeneralGradientNormStepper", "BaseStepper"),
     ("NormalizedGradientNormStepper", "GeneralGradientNormStepper"),
     ("DifficultyGradientNormStepper", "NormalizedGradientNormStepper"), ("GeneralLinearStepper", "BaseStepper"),
     ("NormalizedLinearStepper", "GeneralLinearStepper"), ("DifficultyLinearStepper", "NormalizedLinearStepper"),
     ("DifficultyLinearStepperSimple", "DifficultyLinearStepper"), ("GeneralNonlinearStepper", "BaseStepper"),
     ("NormalizedNonlinearStepper", "GeneralNonlinearStepper"),
     ("DifficultyNonlinearStepper", "NormalizedNonlinearStepper"), ("GeneralPolynomialStepper", "BaseStepper"),
     ("NormalizedPolynomialStepper", "GeneralPolynomialStepper"),
     ("DifficultyPolynomialStepper", "NormalizedPolynomialStepper"), ("Diffusion", "BaseStepper"),
     ("Dispersion", "BaseStepper"), ("FisherKPP", "BaseStepper"),
     ("GeneralVorticityConvectionStepper", "BaseStepper"), ("GrayScott", "BaseStepper"),
     ("HyperDiffusion", "BaseStepper"), ("KolmogorovFlowVelocity", "BaseStepper"),
     ("KolmogorovFlowVorticity", "BaseStepper"), ("KortewegDeVries", "BaseStepper"),
     ("KuramotoSivashinsky", "BaseStepper"), ("KuramotoSivashinskyConservative", "BaseStepper"),
     ("NavierStokesVelocity", "BaseStepper"), ("NavierStokesVorticity", "BaseStepper"),
     ("SwiftHohenberg", "BaseStepper"), ("Wave", "BaseStepper")] := rfl

/-- the one attribute whose value is outside the translator's vocabulary: `Wave.wavenumber_norm`
    (`jnp.linalg.norm(build_scaled_wavenumbers(…), axis=0, keepdims=True)`); it is a parameter of the regenerated
    `Gen.Steppers.Wave_linear_operator` -/
theorem untranslated_attributes_pinned : untranslated_attributes = ["Wave.wavenumber_norm"] := rfl

/-! ### the numpy primitives of the constructors -/

theorem jnp_ones_eq (n : ℕ) : (jnp_ones n : List ℂ) = List.replicate n 1 := rfl

/-- `jnp.ones(D) * v`: the constant vector -/
theorem ones_mul (n : ℕ) (v : ℂ) : List.map (fun x => x * v) (jnp_ones n) = List.replicate n v := by
  simp [jnp_ones]

/-- the documented diagonal matrix of a vector -/
def diagM (v : List ℂ) : List (List ℂ) :=
  (List.range v.length).map (fun i => (List.range v.length).map (fun j => if i = j then v.getD i 0 else 0))

theorem jnp_diag_eq (v : List ℂ) : jnp_diag v = diagM v := rfl

/-- `ν·I` -/
def scalarM (D : ℕ) (ν : ℂ) : List (List ℂ) :=
  (List.range D).map (fun i => (List.range D).map (fun j => if i = j then ν else 0))

theorem diagM_replicate (D : ℕ) (ν : ℂ) : diagM (List.replicate D ν) = scalarM D ν := by
  simp only [diagM, scalarM, List.length_replicate]
  apply List.map_congr_left; intro i hi
  apply List.map_congr_left; intro j hj
  simp only [List.mem_range] at *
  split_ifs with h
  · simp [List.getD_eq_getElem?_getD, hi]
  · rfl

/-- `jnp.diag(jnp.ones(D)) * ν = ν·I` -/
theorem diag_ones_mul (D : ℕ) (ν : ℂ) :
    List.map (fun r => List.map (fun x => x * ν) r) (jnp_diag (jnp_ones D)) = scalarM D ν := by
  simp only [jnp_diag, jnp_ones, scalarM, List.length_replicate, List.map_map]
  apply List.map_congr_left; intro i hi
  simp only [Function.comp, List.map_map]
  apply List.map_congr_left; intro j hj
  simp only [Function.comp, List.mem_range] at *
  split_ifs with h
  · simp [List.getD_eq_getElem?_getD, hi]
  · simp

theorem scalarM_entry (D : ℕ) (ν : ℂ) (i j : ℕ) (hi : i < D) (hj : j < D) :
    Exponax.mfun (scalarM D ν) i j = if i = j then ν else 0 := by
  simp [Exponax.mfun, scalarM, List.getD_eq_getElem?_getD, hi, hj]

theorem diagM_entry (v : List ℂ) (i j : ℕ) (hi : i < v.length) (hj : j < v.length) :
    Exponax.mfun (diagM v) i j = if i = j then v.getD i 0 else 0 := by
  simp [Exponax.mfun, diagM, List.getD_eq_getElem?_getD, hi, hj]

/-! ### the conversions at `L = 1`, `dt = 1` (what the `Normalized*` classes hand to the `General*` classes) -/

theorem mapIdx_snd (cs : List ℂ) : List.mapIdx (fun _ a => a) cs = cs := by
  apply List.ext_getElem <;> simp

theorem denormalize_coefficients_one (cs : List ℂ) : denormalize_coefficients cs 1 1 = cs := by
  rw [C13_denormalize_coefficients_formula]
  simpa using mapIdx_snd cs

theorem denormalize_convection_scale_one (b : ℂ) : denormalize_convection_scale b 1 1 = b := by
  simp [denormalize_convection_scale]

theorem denormalize_gradient_norm_scale_one (b : ℂ) : denormalize_gradient_norm_scale b 1 1 = b := by
  simp [denormalize_gradient_norm_scale]

theorem denormalize_polynomial_scales_one (cs : List ℂ) (L : ℂ) : denormalize_polynomial_scales cs L 1 = cs := by
  simp [denormalize_polynomial_scales]

/-- the documented difficulty → normalized map of the linear coefficients: `α₀ = γ₀`, `αⱼ = γⱼ / (Nʲ 2ʲ⁻¹ D)` -/
noncomputable def normalizedOfDifficulty (γ : List ℂ) (D N : ℕ) : List ℂ :=
  γ.mapIdx (fun j g => if j = 0 then g else g / ((N : ℂ) ^ j * 2 ^ (j - 1) * (D : ℂ)))

theorem extract_coefficients_eq (γ : List ℂ) (D N : ℕ) :
    extract_normalized_coefficients_from_difficulty γ D N = normalizedOfDifficulty γ D N :=
  C13_extract_coefficients_formula γ D N

theorem extract_convection_eq (δ M : ℂ) (D N : ℕ) :
    extract_normalized_convection_scale_from_difficulty δ D N M = δ / (M * N * D) := by
  simp [extract_normalized_convection_scale_from_difficulty]

theorem extract_gradient_norm_eq (δ M : ℂ) (D N : ℕ) :
    extract_normalized_gradient_norm_scale_from_difficulty δ D N M = δ / (M * (N : ℂ) ^ 2 * D) := by
  simp [extract_normalized_gradient_norm_scale_from_difficulty]

theorem extract_nonlinear_eq (δ : ℂ × ℂ × ℂ) (M : ℂ) (D N : ℕ) :
    extract_normalized_nonlinear_scales_from_difficulty δ D N M
      = (δ.1, δ.2.1 / (M * N * D), δ.2.2 / (M * (N : ℂ) ^ 2 * D)) := by
  simp [extract_normalized_nonlinear_scales_from_difficulty, extract_convection_eq, extract_gradient_norm_eq]

/-! ### `Advection`  (stepper/_advection.py) -/

theorem Advection_defaults (D : ℕ) (L : ℂ) (N : ℕ) (dt : ℂ) :
    Advection_with_defaults D L N dt =
      ({ num_spatial_dims := D, domain_extent := L, num_points := N, dt := dt, velocity := Arg.scalar (1) } :
          AdvectionArgs ℂ) := by
  norm_num [Advection_with_defaults]

theorem Advection_init_velocity_vector_eq (v : List ℂ) : Advection_init_velocity_vector v = v :=
  rfl

theorem Advection_init_velocity_scalar_eq (D : ℕ) (v : ℂ) : Advection_init_velocity_scalar D v = List.replicate D v :=
  ones_mul D v

/-- the stored attributes: scalar ↦ constant vector / ν·I, vector ↦ itself / diag, matrix ↦ itself -/
theorem Advection_attrs_eq (a : AdvectionArgs ℂ) :
    Advection_attrs a =
      ({
         velocity := match a.velocity with | .scalar v => some (List.replicate a.num_spatial_dims v) | .vector v => some v | .matrix _ => none } : AdvectionAttrs ℂ) := by
  cases hvelocity : a.velocity <;>
    simp [Advection_attrs, hvelocity, Advection_init_velocity_vector_eq, Advection_init_velocity_scalar_eq]

theorem Advection_super_args_eq (a : AdvectionArgs ℂ) :
    Advection_super_args a =
      ({ num_spatial_dims := a.num_spatial_dims, domain_extent := a.domain_extent, num_points := a.num_points,
         dt := a.dt, num_channels := 1, order := 0, num_circle_points := 16, circle_radius := 1 } : BaseStepperArgs
             ℂ) := by
  simp [Advection_super_args]

/-! ### `AdvectionDiffusion`  (stepper/_advection_diffusion.py) -/

theorem AdvectionDiffusion_defaults (D : ℕ) (L : ℂ) (N : ℕ) (dt : ℂ) :
    AdvectionDiffusion_with_defaults D L N dt =
      ({ num_spatial_dims := D, domain_extent := L, num_points := N, dt := dt, velocity := Arg.scalar (1),
         diffusivity := Arg.scalar (1 / 100) } : AdvectionDiffusionArgs ℂ) := by
  norm_num [AdvectionDiffusion_with_defaults]

theorem AdvectionDiffusion_init_velocity_vector_eq (v : List ℂ) : AdvectionDiffusion_init_velocity_vector v = v :=
  rfl

theorem AdvectionDiffusion_init_velocity_scalar_eq (D : ℕ) (v : ℂ) : AdvectionDiffusion_init_velocity_scalar D v =
    List.replicate D v :=
  ones_mul D v

theorem AdvectionDiffusion_init_diffusivity_matrix_eq (A : List (List ℂ)) :
    AdvectionDiffusion_init_diffusivity_matrix A = A :=
  rfl

theorem AdvectionDiffusion_init_diffusivity_vector_eq (v : List ℂ) : AdvectionDiffusion_init_diffusivity_vector v =
    diagM v :=
  jnp_diag_eq v

theorem AdvectionDiffusion_init_diffusivity_scalar_eq (D : ℕ) (ν : ℂ) : AdvectionDiffusion_init_diffusivity_scalar D
    ν = scalarM D ν :=
  diag_ones_mul D ν

/-- the stored attributes: scalar ↦ constant vector / ν·I, vector ↦ itself / diag, matrix ↦ itself -/
theorem AdvectionDiffusion_attrs_eq (a : AdvectionDiffusionArgs ℂ) :
    AdvectionDiffusion_attrs a =
      ({
         velocity := match a.velocity with | .scalar v => some (List.replicate a.num_spatial_dims v) | .vector v => some v | .matrix _ => none,
         diffusivity := match a.diffusivity with | .scalar ν => some (scalarM a.num_spatial_dims ν) | .vector v => some (diagM v) | .matrix A => some A } : AdvectionDiffusionAttrs ℂ) := by
  cases hvelocity : a.velocity <;> cases hdiffusivity : a.diffusivity <;>
    simp [AdvectionDiffusion_attrs, hvelocity, hdiffusivity, AdvectionDiffusion_init_velocity_vector_eq,
        AdvectionDiffusion_init_velocity_scalar_eq, AdvectionDiffusion_init_diffusivity_matrix_eq,
            AdvectionDiffusion_init_diffusivity_vector_eq, AdvectionDiffusion_init_diffusivity_scalar_eq]

theorem AdvectionDiffusion_super_args_eq (a : AdvectionDiffusionArgs ℂ) :
    AdvectionDiffusion_super_args a =
      ({ num_spatial_dims := a.num_spatial_dims, domain_extent := a.domain_extent, num_points := a.num_points,
         dt := a.dt, num_channels := 1, order := 0, num_circle_points := 16, circle_radius := 1 } : BaseStepperArgs
             ℂ) := by
  simp [AdvectionDiffusion_super_args]

/-! ### `AllenCahn`  (stepper/reaction/_allen_cahn.py) -/

theorem AllenCahn_defaults (D : ℕ) (L : ℂ) (N : ℕ) (dt : ℂ) :
    AllenCahn_with_defaults D L N dt =
      ({ num_spatial_dims := D, domain_extent := L, num_points := N, dt := dt, diffusivity := 1 / 200,
         first_order_coefficient := 1, third_order_coefficient := -1, order := 2, dealiasing_fraction := (1, 2),
         num_circle_points := 16, circle_radius := 1 } : AllenCahnArgs ℂ) := by
  norm_num [AllenCahn_with_defaults]

/-- every attribute is the constructor argument of the same name -/
theorem AllenCahn_attrs_eq (a : AllenCahnArgs ℂ) :
    AllenCahn_attrs a =
      ({ diffusivity := a.diffusivity, first_order_coefficient := a.first_order_coefficient,
         third_order_coefficient := a.third_order_coefficient, dealiasing_fraction := a.dealiasing_fraction } :
             AllenCahnAttrs ℂ) :=
  rfl

theorem AllenCahn_super_args_eq (a : AllenCahnArgs ℂ) :
    AllenCahn_super_args a =
      ({ num_spatial_dims := a.num_spatial_dims, domain_extent := a.domain_extent, num_points := a.num_points,
         dt := a.dt, num_channels := 1, order := a.order, num_circle_points := a.num_circle_points,
         circle_radius := a.circle_radius } : BaseStepperArgs ℂ) := by
  simp [AllenCahn_super_args]

/-! ### `BelousovZhabotinsky`  (stepper/reaction/_belousov_zhabotinsky.py) -/

theorem BelousovZhabotinsky_defaults (D : ℕ) (L : ℂ) (N : ℕ) (dt : ℂ) :
    BelousovZhabotinsky_with_defaults D L N dt =
      ({ num_spatial_dims := D, domain_extent := L, num_points := N, dt := dt,
         diffusivities := (1 / 100000, 1 / 50000, 1 / 100000), order := 2, dealiasing_fraction := (1, 2),
         num_circle_points := 16, circle_radius := 1 } : BelousovZhabotinskyArgs ℂ) := by
  norm_num [BelousovZhabotinsky_with_defaults]

/-- every attribute is the constructor argument of the same name -/
theorem BelousovZhabotinsky_attrs_eq (a : BelousovZhabotinskyArgs ℂ) :
    BelousovZhabotinsky_attrs a =
      ({ diffusivities := a.diffusivities, dealiasing_fraction := a.dealiasing_fraction } : BelousovZhabotinskyAttrs
          ℂ) :=
  rfl

theorem BelousovZhabotinsky_super_args_eq (a : BelousovZhabotinskyArgs ℂ) :
    BelousovZhabotinsky_super_args a =
      ({ num_spatial_dims := a.num_spatial_dims, domain_extent := a.domain_extent, num_points := a.num_points,
         dt := a.dt, num_channels := 3, order := a.order, num_circle_points := a.num_circle_points,
         circle_radius := a.circle_radius } : BaseStepperArgs ℂ) := by
  simp [BelousovZhabotinsky_super_args]

/-! ### `Burgers`  (stepper/_burgers.py) -/

theorem Burgers_defaults (D : ℕ) (L : ℂ) (N : ℕ) (dt : ℂ) :
    Burgers_with_defaults D L N dt =
      ({ num_spatial_dims := D, domain_extent := L, num_points := N, dt := dt, diffusivity := 1 / 10,
         convection_scale := 1, single_channel := false, conservative := false, order := 2,
         dealiasing_fraction := (2, 3), num_circle_points := 16, circle_radius := 1 } : BurgersArgs ℂ) := by
  norm_num [Burgers_with_defaults]

/-- every attribute is the constructor argument of the same name -/
theorem Burgers_attrs_eq (a : BurgersArgs ℂ) :
    Burgers_attrs a =
      ({ diffusivity := a.diffusivity, convection_scale := a.convection_scale, single_channel := a.single_channel,
         conservative := a.conservative, dealiasing_fraction := a.dealiasing_fraction } : BurgersAttrs ℂ) :=
  rfl

theorem Burgers_super_args_eq (a : BurgersArgs ℂ) :
    Burgers_super_args a =
      ({ num_spatial_dims := a.num_spatial_dims, domain_extent := a.domain_extent, num_points := a.num_points,
         dt := a.dt, num_channels := if a.single_channel then 1 else a.num_spatial_dims, order := a.order,
         num_circle_points := a.num_circle_points, circle_radius := a.circle_radius } : BaseStepperArgs ℂ) := by
  simp [Burgers_super_args]

/-! ### `CahnHilliard`  (stepper/reaction/_cahn_hilliard.py) -/

theorem CahnHilliard_defaults (D : ℕ) (L : ℂ) (N : ℕ) (dt : ℂ) :
    CahnHilliard_with_defaults D L N dt =
      ({ num_spatial_dims := D, domain_extent := L, num_points := N, dt := dt, diffusivity := 1 / 100,
         gamma := 1 / 1000, first_order_coefficient := -1, third_order_coefficient := 1, order := 2,
         dealiasing_fraction := (1, 2), num_circle_points := 16, circle_radius := 1 } : CahnHilliardArgs ℂ) := by
  norm_num [CahnHilliard_with_defaults]

/-- every attribute is the constructor argument of the same name -/
theorem CahnHilliard_attrs_eq (a : CahnHilliardArgs ℂ) :
    CahnHilliard_attrs a =
      ({ diffusivity := a.diffusivity, gamma := a.gamma, first_order_coefficient := a.first_order_coefficient,
         third_order_coefficient := a.third_order_coefficient, dealiasing_fraction := a.dealiasing_fraction } :
             CahnHilliardAttrs ℂ) :=
  rfl

theorem CahnHilliard_super_args_eq (a : CahnHilliardArgs ℂ) :
    CahnHilliard_super_args a =
      ({ num_spatial_dims := a.num_spatial_dims, domain_extent := a.domain_extent, num_points := a.num_points,
         dt := a.dt, num_channels := 1, order := a.order, num_circle_points := a.num_circle_points,
         circle_radius := a.circle_radius } : BaseStepperArgs ℂ) := by
  simp [CahnHilliard_super_args]

/-! ### `GeneralConvectionStepper`  (stepper/generic/_convection.py) -/

theorem GeneralConvectionStepper_defaults (D : ℕ) (L : ℂ) (N : ℕ) (dt : ℂ) :
    GeneralConvectionStepper_with_defaults D L N dt =
      ({ num_spatial_dims := D, domain_extent := L, num_points := N, dt := dt,
         linear_coefficients := [0, 0, 1 / 100], convection_scale := 1, single_channel := false,
         conservative := false, order := 2, dealiasing_fraction := (2, 3), num_circle_points := 16,
         circle_radius := 1 } : GeneralConvectionStepperArgs ℂ) := by
  norm_num [GeneralConvectionStepper_with_defaults]

/-- every attribute is the constructor argument of the same name -/
theorem GeneralConvectionStepper_attrs_eq (a : GeneralConvectionStepperArgs ℂ) :
    GeneralConvectionStepper_attrs a =
      ({ linear_coefficients := a.linear_coefficients, convection_scale := a.convection_scale,
         single_channel := a.single_channel, dealiasing_fraction := a.dealiasing_fraction,
         conservative := a.conservative } : GeneralConvectionStepperAttrs ℂ) :=
  rfl

theorem GeneralConvectionStepper_super_args_eq (a : GeneralConvectionStepperArgs ℂ) :
    GeneralConvectionStepper_super_args a =
      ({ num_spatial_dims := a.num_spatial_dims, domain_extent := a.domain_extent, num_points := a.num_points,
         dt := a.dt, num_channels := if a.single_channel then 1 else a.num_spatial_dims, order := a.order,
         num_circle_points := a.num_circle_points, circle_radius := a.circle_radius } : BaseStepperArgs ℂ) := by
  simp [GeneralConvectionStepper_super_args]

/-! ### `NormalizedConvectionStepper`  (stepper/generic/_convection.py) -/

theorem NormalizedConvectionStepper_defaults (D : ℕ) (N : ℕ) :
    NormalizedConvectionStepper_with_defaults D N =
      ({ num_spatial_dims := D, num_points := N, normalized_linear_coefficients := [0, 0, 1 / 1000],
         normalized_convection_scale := 1 / 10, single_channel := false, conservative := false, order := 2,
         dealiasing_fraction := (2, 3), num_circle_points := 16, circle_radius := 1 } :
             NormalizedConvectionStepperArgs ℂ) := by
  norm_num [NormalizedConvectionStepper_with_defaults]

/-- every attribute is the constructor argument of the same name -/
theorem NormalizedConvectionStepper_attrs_eq (a : NormalizedConvectionStepperArgs ℂ) :
    NormalizedConvectionStepper_attrs a =
      ({ normalized_linear_coefficients := a.normalized_linear_coefficients,
         normalized_convection_scale := a.normalized_convection_scale } : NormalizedConvectionStepperAttrs ℂ) :=
  rfl

theorem NormalizedConvectionStepper_super_args_eq (a : NormalizedConvectionStepperArgs ℂ) :
    NormalizedConvectionStepper_super_args a =
      ({ num_spatial_dims := a.num_spatial_dims, domain_extent := 1, num_points := a.num_points, dt := 1,
         linear_coefficients := a.normalized_linear_coefficients, convection_scale := a.normalized_convection_scale,
         single_channel := a.single_channel, conservative := a.conservative, order := a.order,
         dealiasing_fraction := a.dealiasing_fraction, num_circle_points := a.num_circle_points,
         circle_radius := a.circle_radius } : GeneralConvectionStepperArgs ℂ) := by
  simp [NormalizedConvectionStepper_super_args]

/-! ### `DifficultyConvectionStepper`  (stepper/generic/_convection.py) -/

theorem DifficultyConvectionStepper_defaults :
    DifficultyConvectionStepper_with_defaults =
      ({ num_spatial_dims := 1, num_points := 48, linear_difficulties := [0, 0, 9 / 2], convection_difficulty := 5,
         single_channel := false, conservative := false, maximum_absolute := 1, order := 2,
         dealiasing_fraction := (2, 3), num_circle_points := 16, circle_radius := 1 } :
             DifficultyConvectionStepperArgs ℂ) := by
  norm_num [DifficultyConvectionStepper_with_defaults]

/-- every attribute is the constructor argument of the same name -/
theorem DifficultyConvectionStepper_attrs_eq (a : DifficultyConvectionStepperArgs ℂ) :
    DifficultyConvectionStepper_attrs a =
      ({ linear_difficulties := a.linear_difficulties, convection_difficulty := a.convection_difficulty } :
          DifficultyConvectionStepperAttrs ℂ) :=
  rfl

theorem DifficultyConvectionStepper_super_args_eq (a : DifficultyConvectionStepperArgs ℂ) :
    DifficultyConvectionStepper_super_args a =
      ({ num_spatial_dims := a.num_spatial_dims, num_points := a.num_points,
         normalized_linear_coefficients := extract_normalized_coefficients_from_difficulty a.linear_difficulties
             a.num_spatial_dims a.num_points,
         normalized_convection_scale := extract_normalized_convection_scale_from_difficulty a.convection_difficulty
             a.num_spatial_dims a.num_points a.maximum_absolute,
         single_channel := a.single_channel, conservative := a.conservative, order := a.order,
         dealiasing_fraction := a.dealiasing_fraction, num_circle_points := a.num_circle_points,
         circle_radius := a.circle_radius } : NormalizedConvectionStepperArgs ℂ) := by
  simp [DifficultyConvectionStepper_super_args]

/-! ### `GeneralGradientNormStepper`  (stepper/generic/_gradient_norm.py) -/

theorem GeneralGradientNormStepper_defaults (D : ℕ) (L : ℂ) (N : ℕ) (dt : ℂ) :
    GeneralGradientNormStepper_with_defaults D L N dt =
      ({ num_spatial_dims := D, domain_extent := L, num_points := N, dt := dt,
         linear_coefficients := [0, 0, -1, 0, -1], gradient_norm_scale := 1, order := 2,
         dealiasing_fraction := (2, 3), num_circle_points := 16, circle_radius := 1 } :
             GeneralGradientNormStepperArgs ℂ) := by
  norm_num [GeneralGradientNormStepper_with_defaults]

/-- every attribute is the constructor argument of the same name -/
theorem GeneralGradientNormStepper_attrs_eq (a : GeneralGradientNormStepperArgs ℂ) :
    GeneralGradientNormStepper_attrs a =
      ({ linear_coefficients := a.linear_coefficients, gradient_norm_scale := a.gradient_norm_scale,
         dealiasing_fraction := a.dealiasing_fraction } : GeneralGradientNormStepperAttrs ℂ) :=
  rfl

theorem GeneralGradientNormStepper_super_args_eq (a : GeneralGradientNormStepperArgs ℂ) :
    GeneralGradientNormStepper_super_args a =
      ({ num_spatial_dims := a.num_spatial_dims, domain_extent := a.domain_extent, num_points := a.num_points,
         dt := a.dt, num_channels := 1, order := a.order, num_circle_points := a.num_circle_points,
         circle_radius := a.circle_radius } : BaseStepperArgs ℂ) := by
  simp [GeneralGradientNormStepper_super_args]

/-! ### `NormalizedGradientNormStepper`  (stepper/generic/_gradient_norm.py) -/

theorem NormalizedGradientNormStepper_defaults (D : ℕ) (N : ℕ) :
    NormalizedGradientNormStepper_with_defaults D N =
      ({ num_spatial_dims := D, num_points := N,
         normalized_linear_coefficients := [0, 0, -1 / 36000, 0, -1 / 129600000],
         normalized_gradient_norm_scale := 1 / 36000, order := 2, dealiasing_fraction := (2, 3),
         num_circle_points := 16, circle_radius := 1 } : NormalizedGradientNormStepperArgs ℂ) := by
  norm_num [NormalizedGradientNormStepper_with_defaults]

/-- every attribute is the constructor argument of the same name -/
theorem NormalizedGradientNormStepper_attrs_eq (a : NormalizedGradientNormStepperArgs ℂ) :
    NormalizedGradientNormStepper_attrs a =
      ({ normalized_linear_coefficients := a.normalized_linear_coefficients,
         normalized_gradient_norm_scale := a.normalized_gradient_norm_scale } : NormalizedGradientNormStepperAttrs ℂ)
             :=
  rfl

theorem NormalizedGradientNormStepper_super_args_eq (a : NormalizedGradientNormStepperArgs ℂ) :
    NormalizedGradientNormStepper_super_args a =
      ({ num_spatial_dims := a.num_spatial_dims, domain_extent := 1, num_points := a.num_points, dt := 1,
         linear_coefficients := a.normalized_linear_coefficients,
         gradient_norm_scale := a.normalized_gradient_norm_scale, order := a.order,
         dealiasing_fraction := a.dealiasing_fraction, num_circle_points := a.num_circle_points,
         circle_radius := a.circle_radius } : GeneralGradientNormStepperArgs ℂ) := by
  simp [NormalizedGradientNormStepper_super_args]

/-! ### `DifficultyGradientNormStepper`  (stepper/generic/_gradient_norm.py) -/

theorem DifficultyGradientNormStepper_defaults :
    DifficultyGradientNormStepper_with_defaults =
      ({ num_spatial_dims := 1, num_points := 48, linear_difficulties := [0, 0, -16 / 125, 0, -1024 / 3125],
         gradient_norm_difficulty := 8 / 125, maximum_absolute := 1, order := 2, dealiasing_fraction := (2, 3),
         num_circle_points := 16, circle_radius := 1 } : DifficultyGradientNormStepperArgs ℂ) := by
  norm_num [DifficultyGradientNormStepper_with_defaults]

/-- every attribute is the constructor argument of the same name -/
theorem DifficultyGradientNormStepper_attrs_eq (a : DifficultyGradientNormStepperArgs ℂ) :
    DifficultyGradientNormStepper_attrs a =
      ({ linear_difficulties := a.linear_difficulties, gradient_norm_difficulty := a.gradient_norm_difficulty } :
          DifficultyGradientNormStepperAttrs ℂ) :=
  rfl

theorem DifficultyGradientNormStepper_super_args_eq (a : DifficultyGradientNormStepperArgs ℂ) :
    DifficultyGradientNormStepper_super_args a =
      ({ num_spatial_dims := a.num_spatial_dims, num_points := a.num_points,
         normalized_linear_coefficients := extract_normalized_coefficients_from_difficulty a.linear_difficulties
             a.num_spatial_dims a.num_points,
         normalized_gradient_norm_scale := extract_normalized_gradient_norm_scale_from_difficulty
             a.gradient_norm_difficulty a.num_spatial_dims a.num_points a.maximum_absolute,
         order := a.order, dealiasing_fraction := a.dealiasing_fraction, num_circle_points := a.num_circle_points,
         circle_radius := a.circle_radius } : NormalizedGradientNormStepperArgs ℂ) := by
  simp [DifficultyGradientNormStepper_super_args]

/-! ### `GeneralLinearStepper`  (stepper/generic/_linear.py) -/

theorem GeneralLinearStepper_defaults (D : ℕ) (L : ℂ) (N : ℕ) (dt : ℂ) :
    GeneralLinearStepper_with_defaults D L N dt =
      ({ num_spatial_dims := D, domain_extent := L, num_points := N, dt := dt,
         linear_coefficients := [0, -1 / 10, 1 / 100] } : GeneralLinearStepperArgs ℂ) := by
  norm_num [GeneralLinearStepper_with_defaults]

/-- every attribute is the constructor argument of the same name -/
theorem GeneralLinearStepper_attrs_eq (a : GeneralLinearStepperArgs ℂ) :
    GeneralLinearStepper_attrs a =
      ({ linear_coefficients := a.linear_coefficients } : GeneralLinearStepperAttrs ℂ) :=
  rfl

theorem GeneralLinearStepper_super_args_eq (a : GeneralLinearStepperArgs ℂ) :
    GeneralLinearStepper_super_args a =
      ({ num_spatial_dims := a.num_spatial_dims, domain_extent := a.domain_extent, num_points := a.num_points,
         dt := a.dt, num_channels := 1, order := 0, num_circle_points := 16, circle_radius := 1 } : BaseStepperArgs
             ℂ) := by
  simp [GeneralLinearStepper_super_args]

/-! ### `NormalizedLinearStepper`  (stepper/generic/_linear.py) -/

theorem NormalizedLinearStepper_defaults (D : ℕ) (N : ℕ) :
    NormalizedLinearStepper_with_defaults D N =
      ({ num_spatial_dims := D, num_points := N, normalized_linear_coefficients := [0, -1 / 2, 1 / 100] } :
          NormalizedLinearStepperArgs ℂ) := by
  norm_num [NormalizedLinearStepper_with_defaults]

/-- every attribute is the constructor argument of the same name -/
theorem NormalizedLinearStepper_attrs_eq (a : NormalizedLinearStepperArgs ℂ) :
    NormalizedLinearStepper_attrs a =
      ({ normalized_linear_coefficients := a.normalized_linear_coefficients } : NormalizedLinearStepperAttrs ℂ) :=
  rfl

theorem NormalizedLinearStepper_super_args_eq (a : NormalizedLinearStepperArgs ℂ) :
    NormalizedLinearStepper_super_args a =
      ({ num_spatial_dims := a.num_spatial_dims, domain_extent := 1, num_points := a.num_points, dt := 1,
         linear_coefficients := a.normalized_linear_coefficients } : GeneralLinearStepperArgs ℂ) := by
  simp [NormalizedLinearStepper_super_args]

/-! ### `DifficultyLinearStepper`  (stepper/generic/_linear.py) -/

theorem DifficultyLinearStepper_defaults :
    DifficultyLinearStepper_with_defaults =
      ({ num_spatial_dims := 1, num_points := 48, linear_difficulties := [0, -2] } : DifficultyLinearStepperArgs ℂ)
          := by
  norm_num [DifficultyLinearStepper_with_defaults]

/-- every attribute is the constructor argument of the same name -/
theorem DifficultyLinearStepper_attrs_eq (a : DifficultyLinearStepperArgs ℂ) :
    DifficultyLinearStepper_attrs a =
      ({ linear_difficulties := a.linear_difficulties } : DifficultyLinearStepperAttrs ℂ) :=
  rfl

theorem DifficultyLinearStepper_super_args_eq (a : DifficultyLinearStepperArgs ℂ) :
    DifficultyLinearStepper_super_args a =
      ({ num_spatial_dims := a.num_spatial_dims, num_points := a.num_points,
         normalized_linear_coefficients := extract_normalized_coefficients_from_difficulty a.linear_difficulties
             a.num_spatial_dims a.num_points } : NormalizedLinearStepperArgs ℂ) := by
  simp [DifficultyLinearStepper_super_args]

/-! ### `DifficultyLinearStepperSimple`  (stepper/generic/_linear.py) -/

theorem DifficultyLinearStepperSimple_defaults :
    DifficultyLinearStepperSimple_with_defaults =
      ({ num_spatial_dims := 1, num_points := 48, difficulty := -2, order := 1 } : DifficultyLinearStepperSimpleArgs
          ℂ) := by
  norm_num [DifficultyLinearStepperSimple_with_defaults]

theorem DifficultyLinearStepperSimple_super_args_eq (a : DifficultyLinearStepperSimpleArgs ℂ) :
    DifficultyLinearStepperSimple_super_args a =
      ({ num_spatial_dims := a.num_spatial_dims, num_points := a.num_points,
         linear_difficulties := List.replicate a.order 0 ++ [a.difficulty] } : DifficultyLinearStepperArgs ℂ) := by
  simp [DifficultyLinearStepperSimple_super_args]

/-! ### `GeneralNonlinearStepper`  (stepper/generic/_nonlinear.py) -/

theorem GeneralNonlinearStepper_defaults (D : ℕ) (L : ℂ) (N : ℕ) (dt : ℂ) :
    GeneralNonlinearStepper_with_defaults D L N dt =
      ({ num_spatial_dims := D, domain_extent := L, num_points := N, dt := dt,
         linear_coefficients := [0, 0, 1 / 100], nonlinear_coefficients := (0, -1, 0), order := 2,
         dealiasing_fraction := (2, 3), num_circle_points := 16, circle_radius := 1 } : GeneralNonlinearStepperArgs
             ℂ) := by
  norm_num [GeneralNonlinearStepper_with_defaults]

/-- every attribute is the constructor argument of the same name -/
theorem GeneralNonlinearStepper_attrs_eq (a : GeneralNonlinearStepperArgs ℂ) :
    GeneralNonlinearStepper_attrs a =
      ({ linear_coefficients := a.linear_coefficients, nonlinear_coefficients := a.nonlinear_coefficients,
         dealiasing_fraction := a.dealiasing_fraction } : GeneralNonlinearStepperAttrs ℂ) :=
  rfl

theorem GeneralNonlinearStepper_super_args_eq (a : GeneralNonlinearStepperArgs ℂ) :
    GeneralNonlinearStepper_super_args a =
      ({ num_spatial_dims := a.num_spatial_dims, domain_extent := a.domain_extent, num_points := a.num_points,
         dt := a.dt, num_channels := 1, order := a.order, num_circle_points := a.num_circle_points,
         circle_radius := a.circle_radius } : BaseStepperArgs ℂ) := by
  simp [GeneralNonlinearStepper_super_args]

/-! ### `NormalizedNonlinearStepper`  (stepper/generic/_nonlinear.py) -/

theorem NormalizedNonlinearStepper_defaults (D : ℕ) (N : ℕ) :
    NormalizedNonlinearStepper_with_defaults D N =
      ({ num_spatial_dims := D, num_points := N, normalized_linear_coefficients := [0, 0, 1 / 100],
         normalized_nonlinear_coefficients := (0, -1 / 10, 0), order := 2, dealiasing_fraction := (2, 3),
         num_circle_points := 16, circle_radius := 1 } : NormalizedNonlinearStepperArgs ℂ) := by
  norm_num [NormalizedNonlinearStepper_with_defaults]

/-- every attribute is the constructor argument of the same name -/
theorem NormalizedNonlinearStepper_attrs_eq (a : NormalizedNonlinearStepperArgs ℂ) :
    NormalizedNonlinearStepper_attrs a =
      ({ normalized_linear_coefficients := a.normalized_linear_coefficients,
         normalized_nonlinear_coefficients := a.normalized_nonlinear_coefficients } : NormalizedNonlinearStepperAttrs
             ℂ) :=
  rfl

theorem NormalizedNonlinearStepper_super_args_eq (a : NormalizedNonlinearStepperArgs ℂ) :
    NormalizedNonlinearStepper_super_args a =
      ({ num_spatial_dims := a.num_spatial_dims, domain_extent := 1, num_points := a.num_points, dt := 1,
         linear_coefficients := a.normalized_linear_coefficients,
         nonlinear_coefficients := a.normalized_nonlinear_coefficients, order := a.order,
         dealiasing_fraction := a.dealiasing_fraction, num_circle_points := a.num_circle_points,
         circle_radius := a.circle_radius } : GeneralNonlinearStepperArgs ℂ) := by
  simp [NormalizedNonlinearStepper_super_args]

/-! ### `DifficultyNonlinearStepper`  (stepper/generic/_nonlinear.py) -/

theorem DifficultyNonlinearStepper_defaults :
    DifficultyNonlinearStepper_with_defaults =
      ({ num_spatial_dims := 1, num_points := 48, linear_difficulties := [0, 0, 1152 / 25],
         nonlinear_difficulties := (0, -24 / 5, 0), maximum_absolute := 1, order := 2, dealiasing_fraction := (2, 3),
         num_circle_points := 16, circle_radius := 1 } : DifficultyNonlinearStepperArgs ℂ) := by
  norm_num [DifficultyNonlinearStepper_with_defaults]

/-- every attribute is the constructor argument of the same name -/
theorem DifficultyNonlinearStepper_attrs_eq (a : DifficultyNonlinearStepperArgs ℂ) :
    DifficultyNonlinearStepper_attrs a =
      ({ linear_difficulties := a.linear_difficulties, nonlinear_difficulties := a.nonlinear_difficulties } :
          DifficultyNonlinearStepperAttrs ℂ) :=
  rfl

theorem DifficultyNonlinearStepper_super_args_eq (a : DifficultyNonlinearStepperArgs ℂ) :
    DifficultyNonlinearStepper_super_args a =
      ({ num_spatial_dims := a.num_spatial_dims, num_points := a.num_points,
         normalized_linear_coefficients := extract_normalized_coefficients_from_difficulty a.linear_difficulties
             a.num_spatial_dims a.num_points,
         normalized_nonlinear_coefficients := extract_normalized_nonlinear_scales_from_difficulty
             a.nonlinear_difficulties a.num_spatial_dims a.num_points a.maximum_absolute,
         order := a.order, dealiasing_fraction := a.dealiasing_fraction, num_circle_points := a.num_circle_points,
         circle_radius := a.circle_radius } : NormalizedNonlinearStepperArgs ℂ) := by
  simp [DifficultyNonlinearStepper_super_args]

/-! ### `GeneralPolynomialStepper`  (stepper/generic/_polynomial.py) -/

theorem GeneralPolynomialStepper_defaults (D : ℕ) (L : ℂ) (N : ℕ) (dt : ℂ) :
    GeneralPolynomialStepper_with_defaults D L N dt =
      ({ num_spatial_dims := D, domain_extent := L, num_points := N, dt := dt, linear_coefficients := [10, 0, 1],
         polynomial_coefficients := [0, 0, -10], order := 2, dealiasing_fraction := (2, 3), num_circle_points := 16,
         circle_radius := 1 } : GeneralPolynomialStepperArgs ℂ) := by
  norm_num [GeneralPolynomialStepper_with_defaults]

/-- every attribute is the constructor argument of the same name -/
theorem GeneralPolynomialStepper_attrs_eq (a : GeneralPolynomialStepperArgs ℂ) :
    GeneralPolynomialStepper_attrs a =
      ({ linear_coefficients := a.linear_coefficients, polynomial_coefficients := a.polynomial_coefficients,
         dealiasing_fraction := a.dealiasing_fraction } : GeneralPolynomialStepperAttrs ℂ) :=
  rfl

theorem GeneralPolynomialStepper_super_args_eq (a : GeneralPolynomialStepperArgs ℂ) :
    GeneralPolynomialStepper_super_args a =
      ({ num_spatial_dims := a.num_spatial_dims, domain_extent := a.domain_extent, num_points := a.num_points,
         dt := a.dt, num_channels := 1, order := a.order, num_circle_points := a.num_circle_points,
         circle_radius := a.circle_radius } : BaseStepperArgs ℂ) := by
  simp [GeneralPolynomialStepper_super_args]

/-! ### `NormalizedPolynomialStepper`  (stepper/generic/_polynomial.py) -/

theorem NormalizedPolynomialStepper_defaults (D : ℕ) (N : ℕ) :
    NormalizedPolynomialStepper_with_defaults D N =
      ({ num_spatial_dims := D, num_points := N, normalized_linear_coefficients := [1 / 100, 0, 1 / 100000],
         normalized_polynomial_coefficients := [0, 0, -1 / 100], order := 2, dealiasing_fraction := (2, 3),
         num_circle_points := 16, circle_radius := 1 } : NormalizedPolynomialStepperArgs ℂ) := by
  norm_num [NormalizedPolynomialStepper_with_defaults]

/-- every attribute is the constructor argument of the same name -/
theorem NormalizedPolynomialStepper_attrs_eq (a : NormalizedPolynomialStepperArgs ℂ) :
    NormalizedPolynomialStepper_attrs a =
      ({ normalized_linear_coefficients := a.normalized_linear_coefficients,
         normalized_polynomial_coefficients := a.normalized_polynomial_coefficients } :
             NormalizedPolynomialStepperAttrs ℂ) :=
  rfl

theorem NormalizedPolynomialStepper_super_args_eq (a : NormalizedPolynomialStepperArgs ℂ) :
    NormalizedPolynomialStepper_super_args a =
      ({ num_spatial_dims := a.num_spatial_dims, domain_extent := 1, num_points := a.num_points, dt := 1,
         linear_coefficients := a.normalized_linear_coefficients,
         polynomial_coefficients := a.normalized_polynomial_coefficients, order := a.order,
         dealiasing_fraction := a.dealiasing_fraction, num_circle_points := a.num_circle_points,
         circle_radius := a.circle_radius } : GeneralPolynomialStepperArgs ℂ) := by
  simp [NormalizedPolynomialStepper_super_args]

/-! ### `DifficultyPolynomialStepper`  (stepper/generic/_polynomial.py) -/

theorem DifficultyPolynomialStepper_defaults :
    DifficultyPolynomialStepper_with_defaults =
      ({ num_spatial_dims := 1, num_points := 48, linear_difficulties := [1 / 100, 0, 144 / 3125],
         polynomial_difficulties := [0, 0, -1 / 100], order := 2, dealiasing_fraction := (2, 3),
         num_circle_points := 16, circle_radius := 1 } : DifficultyPolynomialStepperArgs ℂ) := by
  norm_num [DifficultyPolynomialStepper_with_defaults]

/-- every attribute is the constructor argument of the same name -/
theorem DifficultyPolynomialStepper_attrs_eq (a : DifficultyPolynomialStepperArgs ℂ) :
    DifficultyPolynomialStepper_attrs a =
      ({ linear_difficulties := a.linear_difficulties, polynomial_difficulties := a.polynomial_difficulties } :
          DifficultyPolynomialStepperAttrs ℂ) :=
  rfl

theorem DifficultyPolynomialStepper_super_args_eq (a : DifficultyPolynomialStepperArgs ℂ) :
    DifficultyPolynomialStepper_super_args a =
      ({ num_spatial_dims := a.num_spatial_dims, num_points := a.num_points,
         normalized_linear_coefficients := extract_normalized_coefficients_from_difficulty a.linear_difficulties
             a.num_spatial_dims a.num_points,
         normalized_polynomial_coefficients := a.polynomial_difficulties, order := a.order,
         dealiasing_fraction := a.dealiasing_fraction, num_circle_points := a.num_circle_points,
         circle_radius := a.circle_radius } : NormalizedPolynomialStepperArgs ℂ) := by
  simp [DifficultyPolynomialStepper_super_args]

/-! ### `Diffusion`  (stepper/_diffusion.py) -/

theorem Diffusion_defaults (D : ℕ) (L : ℂ) (N : ℕ) (dt : ℂ) :
    Diffusion_with_defaults D L N dt =
      ({ num_spatial_dims := D, domain_extent := L, num_points := N, dt := dt, diffusivity := Arg.scalar (1 / 100) }
          : DiffusionArgs ℂ) := by
  norm_num [Diffusion_with_defaults]

theorem Diffusion_init_diffusivity_matrix_eq (A : List (List ℂ)) : Diffusion_init_diffusivity_matrix A = A :=
  rfl

theorem Diffusion_init_diffusivity_vector_eq (v : List ℂ) : Diffusion_init_diffusivity_vector v = diagM v :=
  jnp_diag_eq v

theorem Diffusion_init_diffusivity_scalar_eq (D : ℕ) (ν : ℂ) : Diffusion_init_diffusivity_scalar D ν = scalarM D ν :=
  diag_ones_mul D ν

/-- the stored attributes: scalar ↦ constant vector / ν·I, vector ↦ itself / diag, matrix ↦ itself -/
theorem Diffusion_attrs_eq (a : DiffusionArgs ℂ) :
    Diffusion_attrs a =
      ({
         diffusivity := match a.diffusivity with | .scalar ν => some (scalarM a.num_spatial_dims ν) | .vector v => some (diagM v) | .matrix A => some A } : DiffusionAttrs ℂ) := by
  cases hdiffusivity : a.diffusivity <;>
    simp [Diffusion_attrs, hdiffusivity, Diffusion_init_diffusivity_matrix_eq, Diffusion_init_diffusivity_vector_eq,
        Diffusion_init_diffusivity_scalar_eq]

theorem Diffusion_super_args_eq (a : DiffusionArgs ℂ) :
    Diffusion_super_args a =
      ({ num_spatial_dims := a.num_spatial_dims, domain_extent := a.domain_extent, num_points := a.num_points,
         dt := a.dt, num_channels := 1, order := 0, num_circle_points := 16, circle_radius := 1 } : BaseStepperArgs
             ℂ) := by
  simp [Diffusion_super_args]

/-! ### `Dispersion`  (stepper/_dispersion.py) -/

theorem Dispersion_defaults (D : ℕ) (L : ℂ) (N : ℕ) (dt : ℂ) :
    Dispersion_with_defaults D L N dt =
      ({ num_spatial_dims := D, domain_extent := L, num_points := N, dt := dt, dispersivity := Arg.scalar (1),
         advect_on_diffusion := false } : DispersionArgs ℂ) := by
  norm_num [Dispersion_with_defaults]

theorem Dispersion_init_dispersivity_vector_eq (v : List ℂ) : Dispersion_init_dispersivity_vector v = v :=
  rfl

theorem Dispersion_init_dispersivity_scalar_eq (D : ℕ) (v : ℂ) : Dispersion_init_dispersivity_scalar D v =
    List.replicate D v :=
  ones_mul D v

/-- the stored attributes: scalar ↦ constant vector / ν·I, vector ↦ itself / diag, matrix ↦ itself -/
theorem Dispersion_attrs_eq (a : DispersionArgs ℂ) :
    Dispersion_attrs a =
      ({
         dispersivity := match a.dispersivity with | .scalar v => some (List.replicate a.num_spatial_dims v) | .vector v => some v | .matrix _ => none,
         advect_on_diffusion := a.advect_on_diffusion } : DispersionAttrs ℂ) := by
  cases hdispersivity : a.dispersivity <;>
    simp [Dispersion_attrs, hdispersivity, Dispersion_init_dispersivity_vector_eq,
        Dispersion_init_dispersivity_scalar_eq, Dispersion_init_advect_on_diffusion]

theorem Dispersion_super_args_eq (a : DispersionArgs ℂ) :
    Dispersion_super_args a =
      ({ num_spatial_dims := a.num_spatial_dims, domain_extent := a.domain_extent, num_points := a.num_points,
         dt := a.dt, num_channels := 1, order := 0, num_circle_points := 16, circle_radius := 1 } : BaseStepperArgs
             ℂ) := by
  simp [Dispersion_super_args]

/-! ### `FisherKPP`  (stepper/reaction/_fisher_kpp.py) -/

theorem FisherKPP_defaults (D : ℕ) (L : ℂ) (N : ℕ) (dt : ℂ) :
    FisherKPP_with_defaults D L N dt =
      ({ num_spatial_dims := D, domain_extent := L, num_points := N, dt := dt, diffusivity := 1 / 100,
         reactivity := 1, order := 2, dealiasing_fraction := (2, 3), num_circle_points := 16, circle_radius := 1 } :
             FisherKPPArgs ℂ) := by
  norm_num [FisherKPP_with_defaults]

/-- every attribute is the constructor argument of the same name -/
theorem FisherKPP_attrs_eq (a : FisherKPPArgs ℂ) :
    FisherKPP_attrs a =
      ({ dealiasing_fraction := a.dealiasing_fraction, diffusivity := a.diffusivity, reactivity := a.reactivity } :
          FisherKPPAttrs ℂ) :=
  rfl

theorem FisherKPP_super_args_eq (a : FisherKPPArgs ℂ) :
    FisherKPP_super_args a =
      ({ num_spatial_dims := a.num_spatial_dims, domain_extent := a.domain_extent, num_points := a.num_points,
         dt := a.dt, num_channels := 1, order := a.order, num_circle_points := a.num_circle_points,
         circle_radius := a.circle_radius } : BaseStepperArgs ℂ) := by
  simp [FisherKPP_super_args]

/-! ### `GeneralVorticityConvectionStepper`  (stepper/generic/_vorticity_convection.py) -/

theorem GeneralVorticityConvectionStepper_defaults (D : ℕ) (L : ℂ) (N : ℕ) (dt : ℂ) :
    GeneralVorticityConvectionStepper_with_defaults D L N dt =
      ({ num_spatial_dims := D, domain_extent := L, num_points := N, dt := dt, vorticity_convection_scale := 1,
         linear_coefficients := [0, 0, 1 / 1000], injection_mode := 4, injection_scale := 0, order := 2,
         dealiasing_fraction := (2, 3), num_circle_points := 16, circle_radius := 1 } :
             GeneralVorticityConvectionStepperArgs ℂ) := by
  norm_num [GeneralVorticityConvectionStepper_with_defaults]

/-- every attribute is the constructor argument of the same name -/
theorem GeneralVorticityConvectionStepper_attrs_eq (a : GeneralVorticityConvectionStepperArgs ℂ) :
    GeneralVorticityConvectionStepper_attrs a =
      ({ vorticity_convection_scale := a.vorticity_convection_scale, linear_coefficients := a.linear_coefficients,
         injection_mode := a.injection_mode, injection_scale := a.injection_scale,
         dealiasing_fraction := a.dealiasing_fraction } : GeneralVorticityConvectionStepperAttrs ℂ) :=
  rfl

theorem GeneralVorticityConvectionStepper_super_args_eq (a : GeneralVorticityConvectionStepperArgs ℂ) :
    GeneralVorticityConvectionStepper_super_args a =
      ({ num_spatial_dims := a.num_spatial_dims, domain_extent := a.domain_extent, num_points := a.num_points,
         dt := a.dt, num_channels := 1, order := a.order, num_circle_points := a.num_circle_points,
         circle_radius := a.circle_radius } : BaseStepperArgs ℂ) := by
  simp [GeneralVorticityConvectionStepper_super_args]

/-! ### `GrayScott`  (stepper/reaction/_gray_scott.py) -/

theorem GrayScott_defaults (D : ℕ) (L : ℂ) (N : ℕ) (dt : ℂ) :
    GrayScott_with_defaults D L N dt =
      ({ num_spatial_dims := D, domain_extent := L, num_points := N, dt := dt, diffusivity_1 := 1 / 50000,
         diffusivity_2 := 1 / 100000, feed_rate := 1 / 25, kill_rate := 3 / 50, order := 2,
         dealiasing_fraction := (1, 2), num_circle_points := 16, circle_radius := 1 } : GrayScottArgs ℂ) := by
  norm_num [GrayScott_with_defaults]

/-- every attribute is the constructor argument of the same name -/
theorem GrayScott_attrs_eq (a : GrayScottArgs ℂ) :
    GrayScott_attrs a =
      ({ diffusivity_1 := a.diffusivity_1, diffusivity_2 := a.diffusivity_2, feed_rate := a.feed_rate,
         kill_rate := a.kill_rate, dealiasing_fraction := a.dealiasing_fraction } : GrayScottAttrs ℂ) :=
  rfl

theorem GrayScott_super_args_eq (a : GrayScottArgs ℂ) :
    GrayScott_super_args a =
      ({ num_spatial_dims := a.num_spatial_dims, domain_extent := a.domain_extent, num_points := a.num_points,
         dt := a.dt, num_channels := 2, order := a.order, num_circle_points := a.num_circle_points,
         circle_radius := a.circle_radius } : BaseStepperArgs ℂ) := by
  simp [GrayScott_super_args]

/-! ### `HyperDiffusion`  (stepper/_hyper_diffusion.py) -/

theorem HyperDiffusion_defaults (D : ℕ) (L : ℂ) (N : ℕ) (dt : ℂ) :
    HyperDiffusion_with_defaults D L N dt =
      ({ num_spatial_dims := D, domain_extent := L, num_points := N, dt := dt, hyper_diffusivity := 1 / 10000,
         diffuse_on_diffuse := false } : HyperDiffusionArgs ℂ) := by
  norm_num [HyperDiffusion_with_defaults]

/-- every attribute is the constructor argument of the same name -/
theorem HyperDiffusion_attrs_eq (a : HyperDiffusionArgs ℂ) :
    HyperDiffusion_attrs a =
      ({ hyper_diffusivity := a.hyper_diffusivity, diffuse_on_diffuse := a.diffuse_on_diffuse } : HyperDiffusionAttrs
          ℂ) :=
  rfl

theorem HyperDiffusion_super_args_eq (a : HyperDiffusionArgs ℂ) :
    HyperDiffusion_super_args a =
      ({ num_spatial_dims := a.num_spatial_dims, domain_extent := a.domain_extent, num_points := a.num_points,
         dt := a.dt, num_channels := 1, order := 0, num_circle_points := 16, circle_radius := 1 } : BaseStepperArgs
             ℂ) := by
  simp [HyperDiffusion_super_args]

/-! ### `KolmogorovFlowVelocity`  (stepper/_navier_stokes.py) -/

theorem KolmogorovFlowVelocity_defaults (D : ℕ) (L : ℂ) (N : ℕ) (dt : ℂ) :
    KolmogorovFlowVelocity_with_defaults D L N dt =
      ({ num_spatial_dims := D, domain_extent := L, num_points := N, dt := dt, diffusivity := 1 / 100, drag := 0,
         injection_mode := 4, injection_scale := 1, order := 2, dealiasing_fraction := (2, 3),
         num_circle_points := 16, circle_radius := 1 } : KolmogorovFlowVelocityArgs ℂ) := by
  norm_num [KolmogorovFlowVelocity_with_defaults]

/-- every attribute is the constructor argument of the same name -/
theorem KolmogorovFlowVelocity_attrs_eq (a : KolmogorovFlowVelocityArgs ℂ) :
    KolmogorovFlowVelocity_attrs a =
      ({ diffusivity := a.diffusivity, drag := a.drag, injection_mode := a.injection_mode,
         injection_scale := a.injection_scale, dealiasing_fraction := a.dealiasing_fraction } :
             KolmogorovFlowVelocityAttrs ℂ) :=
  rfl

theorem KolmogorovFlowVelocity_super_args_eq (a : KolmogorovFlowVelocityArgs ℂ) :
    KolmogorovFlowVelocity_super_args a =
      ({ num_spatial_dims := a.num_spatial_dims, domain_extent := a.domain_extent, num_points := a.num_points,
         dt := a.dt, num_channels := 3, order := a.order, num_circle_points := a.num_circle_points,
         circle_radius := a.circle_radius } : BaseStepperArgs ℂ) := by
  simp [KolmogorovFlowVelocity_super_args]

/-! ### `KolmogorovFlowVorticity`  (stepper/_navier_stokes.py) -/

theorem KolmogorovFlowVorticity_defaults (D : ℕ) (L : ℂ) (N : ℕ) (dt : ℂ) :
    KolmogorovFlowVorticity_with_defaults D L N dt =
      ({ num_spatial_dims := D, domain_extent := L, num_points := N, dt := dt, diffusivity := 1 / 1000,
         convection_scale := 1, drag := -1 / 10, injection_mode := 4, injection_scale := 1, order := 2,
         dealiasing_fraction := (2, 3), num_circle_points := 16, circle_radius := 1 } : KolmogorovFlowVorticityArgs
             ℂ) := by
  norm_num [KolmogorovFlowVorticity_with_defaults]

/-- every attribute is the constructor argument of the same name -/
theorem KolmogorovFlowVorticity_attrs_eq (a : KolmogorovFlowVorticityArgs ℂ) :
    KolmogorovFlowVorticity_attrs a =
      ({ diffusivity := a.diffusivity, convection_scale := a.convection_scale, drag := a.drag,
         injection_mode := a.injection_mode, injection_scale := a.injection_scale,
         dealiasing_fraction := a.dealiasing_fraction } : KolmogorovFlowVorticityAttrs ℂ) :=
  rfl

theorem KolmogorovFlowVorticity_super_args_eq (a : KolmogorovFlowVorticityArgs ℂ) :
    KolmogorovFlowVorticity_super_args a =
      ({ num_spatial_dims := a.num_spatial_dims, domain_extent := a.domain_extent, num_points := a.num_points,
         dt := a.dt, num_channels := 1, order := a.order, num_circle_points := a.num_circle_points,
         circle_radius := a.circle_radius } : BaseStepperArgs ℂ) := by
  simp [KolmogorovFlowVorticity_super_args]

/-! ### `KortewegDeVries`  (stepper/_korteweg_de_vries.py) -/

theorem KortewegDeVries_defaults (D : ℕ) (L : ℂ) (N : ℕ) (dt : ℂ) :
    KortewegDeVries_with_defaults D L N dt =
      ({ num_spatial_dims := D, domain_extent := L, num_points := N, dt := dt, convection_scale := -6,
         diffusivity := 0, dispersivity := 1, hyper_diffusivity := 1 / 100, advect_over_diffuse := false,
         diffuse_over_diffuse := false, single_channel := false, conservative := false, order := 2,
         dealiasing_fraction := (2, 3), num_circle_points := 16, circle_radius := 1 } : KortewegDeVriesArgs ℂ) := by
  norm_num [KortewegDeVries_with_defaults]

/-- every attribute is the constructor argument of the same name -/
theorem KortewegDeVries_attrs_eq (a : KortewegDeVriesArgs ℂ) :
    KortewegDeVries_attrs a =
      ({ convection_scale := a.convection_scale, diffusivity := a.diffusivity, dispersivity := a.dispersivity,
         hyper_diffusivity := a.hyper_diffusivity, advect_over_diffuse := a.advect_over_diffuse,
         diffuse_over_diffuse := a.diffuse_over_diffuse, single_channel := a.single_channel,
         conservative := a.conservative, dealiasing_fraction := a.dealiasing_fraction } : KortewegDeVriesAttrs ℂ) :=
  rfl

theorem KortewegDeVries_super_args_eq (a : KortewegDeVriesArgs ℂ) :
    KortewegDeVries_super_args a =
      ({ num_spatial_dims := a.num_spatial_dims, domain_extent := a.domain_extent, num_points := a.num_points,
         dt := a.dt, num_channels := if a.single_channel then 1 else a.num_spatial_dims, order := a.order,
         num_circle_points := a.num_circle_points, circle_radius := a.circle_radius } : BaseStepperArgs ℂ) := by
  simp [KortewegDeVries_super_args]

/-! ### `KuramotoSivashinsky`  (stepper/_kuramoto_sivashinsky.py) -/

theorem KuramotoSivashinsky_defaults (D : ℕ) (L : ℂ) (N : ℕ) (dt : ℂ) :
    KuramotoSivashinsky_with_defaults D L N dt =
      ({ num_spatial_dims := D, domain_extent := L, num_points := N, dt := dt, gradient_norm_scale := 1,
         second_order_scale := 1, fourth_order_scale := 1, dealiasing_fraction := (2, 3), order := 2,
         num_circle_points := 16, circle_radius := 1 } : KuramotoSivashinskyArgs ℂ) := by
  norm_num [KuramotoSivashinsky_with_defaults]

/-- every attribute is the constructor argument of the same name -/
theorem KuramotoSivashinsky_attrs_eq (a : KuramotoSivashinskyArgs ℂ) :
    KuramotoSivashinsky_attrs a =
      ({ gradient_norm_scale := a.gradient_norm_scale, second_order_scale := a.second_order_scale,
         fourth_order_scale := a.fourth_order_scale, dealiasing_fraction := a.dealiasing_fraction } :
             KuramotoSivashinskyAttrs ℂ) :=
  rfl

theorem KuramotoSivashinsky_super_args_eq (a : KuramotoSivashinskyArgs ℂ) :
    KuramotoSivashinsky_super_args a =
      ({ num_spatial_dims := a.num_spatial_dims, domain_extent := a.domain_extent, num_points := a.num_points,
         dt := a.dt, num_channels := 1, order := a.order, num_circle_points := a.num_circle_points,
         circle_radius := a.circle_radius } : BaseStepperArgs ℂ) := by
  simp [KuramotoSivashinsky_super_args]

/-! ### `KuramotoSivashinskyConservative`  (stepper/_kuramoto_sivashinsky.py) -/

theorem KuramotoSivashinskyConservative_defaults (D : ℕ) (L : ℂ) (N : ℕ) (dt : ℂ) :
    KuramotoSivashinskyConservative_with_defaults D L N dt =
      ({ num_spatial_dims := D, domain_extent := L, num_points := N, dt := dt, convection_scale := 1,
         second_order_scale := 1, fourth_order_scale := 1, single_channel := false, conservative := true,
         dealiasing_fraction := (2, 3), order := 2, num_circle_points := 16, circle_radius := 1 } :
             KuramotoSivashinskyConservativeArgs ℂ) := by
  norm_num [KuramotoSivashinskyConservative_with_defaults]

/-- every attribute is the constructor argument of the same name -/
theorem KuramotoSivashinskyConservative_attrs_eq (a : KuramotoSivashinskyConservativeArgs ℂ) :
    KuramotoSivashinskyConservative_attrs a =
      ({ convection_scale := a.convection_scale, second_order_scale := a.second_order_scale,
         fourth_order_scale := a.fourth_order_scale, single_channel := a.single_channel,
         conservative := a.conservative, dealiasing_fraction := a.dealiasing_fraction } :
             KuramotoSivashinskyConservativeAttrs ℂ) :=
  rfl

theorem KuramotoSivashinskyConservative_super_args_eq (a : KuramotoSivashinskyConservativeArgs ℂ) :
    KuramotoSivashinskyConservative_super_args a =
      ({ num_spatial_dims := a.num_spatial_dims, domain_extent := a.domain_extent, num_points := a.num_points,
         dt := a.dt, num_channels := if a.single_channel then 1 else a.num_spatial_dims, order := a.order,
         num_circle_points := a.num_circle_points, circle_radius := a.circle_radius } : BaseStepperArgs ℂ) := by
  simp [KuramotoSivashinskyConservative_super_args]

/-! ### `NavierStokesVelocity`  (stepper/_navier_stokes.py) -/

theorem NavierStokesVelocity_defaults (D : ℕ) (L : ℂ) (N : ℕ) (dt : ℂ) :
    NavierStokesVelocity_with_defaults D L N dt =
      ({ num_spatial_dims := D, domain_extent := L, num_points := N, dt := dt, diffusivity := 1 / 100, drag := 0,
         order := 2, dealiasing_fraction := (2, 3), num_circle_points := 16, circle_radius := 1 } :
             NavierStokesVelocityArgs ℂ) := by
  norm_num [NavierStokesVelocity_with_defaults]

/-- every attribute is the constructor argument of the same name -/
theorem NavierStokesVelocity_attrs_eq (a : NavierStokesVelocityArgs ℂ) :
    NavierStokesVelocity_attrs a =
      ({ diffusivity := a.diffusivity, drag := a.drag, dealiasing_fraction := a.dealiasing_fraction } :
          NavierStokesVelocityAttrs ℂ) :=
  rfl

theorem NavierStokesVelocity_super_args_eq (a : NavierStokesVelocityArgs ℂ) :
    NavierStokesVelocity_super_args a =
      ({ num_spatial_dims := a.num_spatial_dims, domain_extent := a.domain_extent, num_points := a.num_points,
         dt := a.dt, num_channels := 3, order := a.order, num_circle_points := a.num_circle_points,
         circle_radius := a.circle_radius } : BaseStepperArgs ℂ) := by
  simp [NavierStokesVelocity_super_args]

/-! ### `NavierStokesVorticity`  (stepper/_navier_stokes.py) -/

theorem NavierStokesVorticity_defaults (D : ℕ) (L : ℂ) (N : ℕ) (dt : ℂ) :
    NavierStokesVorticity_with_defaults D L N dt =
      ({ num_spatial_dims := D, domain_extent := L, num_points := N, dt := dt, diffusivity := 1 / 100,
         vorticity_convection_scale := 1, drag := 0, order := 2, dealiasing_fraction := (2, 3),
         num_circle_points := 16, circle_radius := 1 } : NavierStokesVorticityArgs ℂ) := by
  norm_num [NavierStokesVorticity_with_defaults]

/-- every attribute is the constructor argument of the same name -/
theorem NavierStokesVorticity_attrs_eq (a : NavierStokesVorticityArgs ℂ) :
    NavierStokesVorticity_attrs a =
      ({ diffusivity := a.diffusivity, vorticity_convection_scale := a.vorticity_convection_scale, drag := a.drag,
         dealiasing_fraction := a.dealiasing_fraction } : NavierStokesVorticityAttrs ℂ) :=
  rfl

theorem NavierStokesVorticity_super_args_eq (a : NavierStokesVorticityArgs ℂ) :
    NavierStokesVorticity_super_args a =
      ({ num_spatial_dims := a.num_spatial_dims, domain_extent := a.domain_extent, num_points := a.num_points,
         dt := a.dt, num_channels := 1, order := a.order, num_circle_points := a.num_circle_points,
         circle_radius := a.circle_radius } : BaseStepperArgs ℂ) := by
  simp [NavierStokesVorticity_super_args]

/-! ### `SwiftHohenberg`  (stepper/reaction/_swift_hohenberg.py) -/

theorem SwiftHohenberg_defaults (D : ℕ) (L : ℂ) (N : ℕ) (dt : ℂ) :
    SwiftHohenberg_with_defaults D L N dt =
      ({ num_spatial_dims := D, domain_extent := L, num_points := N, dt := dt, reactivity := 7 / 10,
         critical_number := 1, polynomial_coefficients := [0, 0, 1, -1], order := 2, dealiasing_fraction := (1, 2),
         num_circle_points := 16, circle_radius := 1 } : SwiftHohenbergArgs ℂ) := by
  norm_num [SwiftHohenberg_with_defaults]

/-- every attribute is the constructor argument of the same name -/
theorem SwiftHohenberg_attrs_eq (a : SwiftHohenbergArgs ℂ) :
    SwiftHohenberg_attrs a =
      ({ reactivity := a.reactivity, critical_number := a.critical_number,
         polynomial_coefficients := a.polynomial_coefficients, dealiasing_fraction := a.dealiasing_fraction } :
             SwiftHohenbergAttrs ℂ) :=
  rfl

theorem SwiftHohenberg_super_args_eq (a : SwiftHohenbergArgs ℂ) :
    SwiftHohenberg_super_args a =
      ({ num_spatial_dims := a.num_spatial_dims, domain_extent := a.domain_extent, num_points := a.num_points,
         dt := a.dt, num_channels := 1, order := a.order, num_circle_points := a.num_circle_points,
         circle_radius := a.circle_radius } : BaseStepperArgs ℂ) := by
  simp [SwiftHohenberg_super_args]

/-! ### `Wave`  (stepper/_wave.py) -/

theorem Wave_defaults (D : ℕ) (L : ℂ) (N : ℕ) (dt : ℂ) :
    Wave_with_defaults D L N dt =
      ({ num_spatial_dims := D, domain_extent := L, num_points := N, dt := dt, speed_of_sound := 1 } : WaveArgs ℂ) :=
          by
  norm_num [Wave_with_defaults]

/-- every attribute is the constructor argument of the same name -/
theorem Wave_attrs_eq (a : WaveArgs ℂ) :
    Wave_attrs a =
      ({ speed_of_sound := a.speed_of_sound } : WaveAttrs ℂ) :=
  rfl

theorem Wave_super_args_eq (a : WaveArgs ℂ) :
    Wave_super_args a =
      ({ num_spatial_dims := a.num_spatial_dims, domain_extent := a.domain_extent, num_points := a.num_points,
         dt := a.dt, num_channels := 2, order := 0, num_circle_points := 16, circle_radius := 1 } : BaseStepperArgs
             ℂ) := by
  simp [Wave_super_args]

/-! ### what finally reaches `BaseStepper.__init__`: `num_channels`, `order`, `num_circle_points`, `circle_radius`
     (and `L = 1`, `dt = 1` for the `Normalized*` / `Difficulty*` classes) -/

theorem Advection_base_args_eq (a : AdvectionArgs ℂ) :
    Advection_base_args a =
      ({ num_spatial_dims := a.num_spatial_dims, domain_extent := a.domain_extent, num_points := a.num_points,
         dt := a.dt, num_channels := 1, order := 0, num_circle_points := 16, circle_radius := 1 } : BaseStepperArgs
             ℂ) :=
  Advection_super_args_eq a

theorem Advection_num_channels_eq (a : AdvectionArgs ℂ) : Advection_num_channels a = 1 := by
  unfold Advection_num_channels
  rw [Advection_base_args_eq]

theorem AdvectionDiffusion_base_args_eq (a : AdvectionDiffusionArgs ℂ) :
    AdvectionDiffusion_base_args a =
      ({ num_spatial_dims := a.num_spatial_dims, domain_extent := a.domain_extent, num_points := a.num_points,
         dt := a.dt, num_channels := 1, order := 0, num_circle_points := 16, circle_radius := 1 } : BaseStepperArgs
             ℂ) :=
  AdvectionDiffusion_super_args_eq a

theorem AdvectionDiffusion_num_channels_eq (a : AdvectionDiffusionArgs ℂ) : AdvectionDiffusion_num_channels a = 1 :=
    by
  unfold AdvectionDiffusion_num_channels
  rw [AdvectionDiffusion_base_args_eq]

theorem AllenCahn_base_args_eq (a : AllenCahnArgs ℂ) :
    AllenCahn_base_args a =
      ({ num_spatial_dims := a.num_spatial_dims, domain_extent := a.domain_extent, num_points := a.num_points,
         dt := a.dt, num_channels := 1, order := a.order, num_circle_points := a.num_circle_points,
         circle_radius := a.circle_radius } : BaseStepperArgs ℂ) :=
  AllenCahn_super_args_eq a

theorem AllenCahn_num_channels_eq (a : AllenCahnArgs ℂ) : AllenCahn_num_channels a = 1 := by
  unfold AllenCahn_num_channels
  rw [AllenCahn_base_args_eq]

theorem BelousovZhabotinsky_base_args_eq (a : BelousovZhabotinskyArgs ℂ) :
    BelousovZhabotinsky_base_args a =
      ({ num_spatial_dims := a.num_spatial_dims, domain_extent := a.domain_extent, num_points := a.num_points,
         dt := a.dt, num_channels := 3, order := a.order, num_circle_points := a.num_circle_points,
         circle_radius := a.circle_radius } : BaseStepperArgs ℂ) :=
  BelousovZhabotinsky_super_args_eq a

theorem BelousovZhabotinsky_num_channels_eq (a : BelousovZhabotinskyArgs ℂ) : BelousovZhabotinsky_num_channels a = 3
    := by
  unfold BelousovZhabotinsky_num_channels
  rw [BelousovZhabotinsky_base_args_eq]

theorem Burgers_base_args_eq (a : BurgersArgs ℂ) :
    Burgers_base_args a =
      ({ num_spatial_dims := a.num_spatial_dims, domain_extent := a.domain_extent, num_points := a.num_points,
         dt := a.dt, num_channels := if a.single_channel then 1 else a.num_spatial_dims, order := a.order,
         num_circle_points := a.num_circle_points, circle_radius := a.circle_radius } : BaseStepperArgs ℂ) :=
  Burgers_super_args_eq a

theorem Burgers_num_channels_eq (a : BurgersArgs ℂ) : Burgers_num_channels a = if a.single_channel then 1 else
    a.num_spatial_dims := by
  unfold Burgers_num_channels
  rw [Burgers_base_args_eq]

theorem CahnHilliard_base_args_eq (a : CahnHilliardArgs ℂ) :
    CahnHilliard_base_args a =
      ({ num_spatial_dims := a.num_spatial_dims, domain_extent := a.domain_extent, num_points := a.num_points,
         dt := a.dt, num_channels := 1, order := a.order, num_circle_points := a.num_circle_points,
         circle_radius := a.circle_radius } : BaseStepperArgs ℂ) :=
  CahnHilliard_super_args_eq a

theorem CahnHilliard_num_channels_eq (a : CahnHilliardArgs ℂ) : CahnHilliard_num_channels a = 1 := by
  unfold CahnHilliard_num_channels
  rw [CahnHilliard_base_args_eq]

theorem GeneralConvectionStepper_base_args_eq (a : GeneralConvectionStepperArgs ℂ) :
    GeneralConvectionStepper_base_args a =
      ({ num_spatial_dims := a.num_spatial_dims, domain_extent := a.domain_extent, num_points := a.num_points,
         dt := a.dt, num_channels := if a.single_channel then 1 else a.num_spatial_dims, order := a.order,
         num_circle_points := a.num_circle_points, circle_radius := a.circle_radius } : BaseStepperArgs ℂ) :=
  GeneralConvectionStepper_super_args_eq a

theorem GeneralConvectionStepper_num_channels_eq (a : GeneralConvectionStepperArgs ℂ) :
    GeneralConvectionStepper_num_channels a = if a.single_channel then 1 else a.num_spatial_dims := by
  unfold GeneralConvectionStepper_num_channels
  rw [GeneralConvectionStepper_base_args_eq]

theorem NormalizedConvectionStepper_base_args_eq (a : NormalizedConvectionStepperArgs ℂ) :
    NormalizedConvectionStepper_base_args a =
      ({ num_spatial_dims := a.num_spatial_dims, domain_extent := 1, num_points := a.num_points, dt := 1,
         num_channels := if a.single_channel then 1 else a.num_spatial_dims, order := a.order,
         num_circle_points := a.num_circle_points, circle_radius := a.circle_radius } : BaseStepperArgs ℂ) := by
  unfold NormalizedConvectionStepper_base_args
  rw [NormalizedConvectionStepper_super_args_eq, GeneralConvectionStepper_base_args_eq]

theorem NormalizedConvectionStepper_num_channels_eq (a : NormalizedConvectionStepperArgs ℂ) :
    NormalizedConvectionStepper_num_channels a = if a.single_channel then 1 else a.num_spatial_dims := by
  unfold NormalizedConvectionStepper_num_channels
  rw [NormalizedConvectionStepper_base_args_eq]

theorem DifficultyConvectionStepper_base_args_eq (a : DifficultyConvectionStepperArgs ℂ) :
    DifficultyConvectionStepper_base_args a =
      ({ num_spatial_dims := a.num_spatial_dims, domain_extent := 1, num_points := a.num_points, dt := 1,
         num_channels := if a.single_channel then 1 else a.num_spatial_dims, order := a.order,
         num_circle_points := a.num_circle_points, circle_radius := a.circle_radius } : BaseStepperArgs ℂ) := by
  unfold DifficultyConvectionStepper_base_args
  rw [DifficultyConvectionStepper_super_args_eq, NormalizedConvectionStepper_base_args_eq]

theorem DifficultyConvectionStepper_num_channels_eq (a : DifficultyConvectionStepperArgs ℂ) :
    DifficultyConvectionStepper_num_channels a = if a.single_channel then 1 else a.num_spatial_dims := by
  unfold DifficultyConvectionStepper_num_channels
  rw [DifficultyConvectionStepper_base_args_eq]

theorem GeneralGradientNormStepper_base_args_eq (a : GeneralGradientNormStepperArgs ℂ) :
    GeneralGradientNormStepper_base_args a =
      ({ num_spatial_dims := a.num_spatial_dims, domain_extent := a.domain_extent, num_points := a.num_points,
         dt := a.dt, num_channels := 1, order := a.order, num_circle_points := a.num_circle_points,
         circle_radius := a.circle_radius } : BaseStepperArgs ℂ) :=
  GeneralGradientNormStepper_super_args_eq a

theorem GeneralGradientNormStepper_num_channels_eq (a : GeneralGradientNormStepperArgs ℂ) :
    GeneralGradientNormStepper_num_channels a = 1 := by
  unfold GeneralGradientNormStepper_num_channels
  rw [GeneralGradientNormStepper_base_args_eq]

theorem NormalizedGradientNormStepper_base_args_eq (a : NormalizedGradientNormStepperArgs ℂ) :
    NormalizedGradientNormStepper_base_args a =
      ({ num_spatial_dims := a.num_spatial_dims, domain_extent := 1, num_points := a.num_points, dt := 1,
         num_channels := 1, order := a.order, num_circle_points := a.num_circle_points,
         circle_radius := a.circle_radius } : BaseStepperArgs ℂ) := by
  unfold NormalizedGradientNormStepper_base_args
  rw [NormalizedGradientNormStepper_super_args_eq, GeneralGradientNormStepper_base_args_eq]

theorem NormalizedGradientNormStepper_num_channels_eq (a : NormalizedGradientNormStepperArgs ℂ) :
    NormalizedGradientNormStepper_num_channels a = 1 := by
  unfold NormalizedGradientNormStepper_num_channels
  rw [NormalizedGradientNormStepper_base_args_eq]

theorem DifficultyGradientNormStepper_base_args_eq (a : DifficultyGradientNormStepperArgs ℂ) :
    DifficultyGradientNormStepper_base_args a =
      ({ num_spatial_dims := a.num_spatial_dims, domain_extent := 1, num_points := a.num_points, dt := 1,
         num_channels := 1, order := a.order, num_circle_points := a.num_circle_points,
         circle_radius := a.circle_radius } : BaseStepperArgs ℂ) := by
  unfold DifficultyGradientNormStepper_base_args
  rw [DifficultyGradientNormStepper_super_args_eq, NormalizedGradientNormStepper_base_args_eq]

theorem DifficultyGradientNormStepper_num_channels_eq (a : DifficultyGradientNormStepperArgs ℂ) :
    DifficultyGradientNormStepper_num_channels a = 1 := by
  unfold DifficultyGradientNormStepper_num_channels
  rw [DifficultyGradientNormStepper_base_args_eq]

theorem GeneralLinearStepper_base_args_eq (a : GeneralLinearStepperArgs ℂ) :
    GeneralLinearStepper_base_args a =
      ({ num_spatial_dims := a.num_spatial_dims, domain_extent := a.domain_extent, num_points := a.num_points,
         dt := a.dt, num_channels := 1, order := 0, num_circle_points := 16, circle_radius := 1 } : BaseStepperArgs
             ℂ) :=
  GeneralLinearStepper_super_args_eq a

theorem GeneralLinearStepper_num_channels_eq (a : GeneralLinearStepperArgs ℂ) : GeneralLinearStepper_num_channels a =
    1 := by
  unfold GeneralLinearStepper_num_channels
  rw [GeneralLinearStepper_base_args_eq]

theorem NormalizedLinearStepper_base_args_eq (a : NormalizedLinearStepperArgs ℂ) :
    NormalizedLinearStepper_base_args a =
      ({ num_spatial_dims := a.num_spatial_dims, domain_extent := 1, num_points := a.num_points, dt := 1,
         num_channels := 1, order := 0, num_circle_points := 16, circle_radius := 1 } : BaseStepperArgs ℂ) := by
  unfold NormalizedLinearStepper_base_args
  rw [NormalizedLinearStepper_super_args_eq, GeneralLinearStepper_base_args_eq]

theorem NormalizedLinearStepper_num_channels_eq (a : NormalizedLinearStepperArgs ℂ) :
    NormalizedLinearStepper_num_channels a = 1 := by
  unfold NormalizedLinearStepper_num_channels
  rw [NormalizedLinearStepper_base_args_eq]

theorem DifficultyLinearStepper_base_args_eq (a : DifficultyLinearStepperArgs ℂ) :
    DifficultyLinearStepper_base_args a =
      ({ num_spatial_dims := a.num_spatial_dims, domain_extent := 1, num_points := a.num_points, dt := 1,
         num_channels := 1, order := 0, num_circle_points := 16, circle_radius := 1 } : BaseStepperArgs ℂ) := by
  unfold DifficultyLinearStepper_base_args
  rw [DifficultyLinearStepper_super_args_eq, NormalizedLinearStepper_base_args_eq]

theorem DifficultyLinearStepper_num_channels_eq (a : DifficultyLinearStepperArgs ℂ) :
    DifficultyLinearStepper_num_channels a = 1 := by
  unfold DifficultyLinearStepper_num_channels
  rw [DifficultyLinearStepper_base_args_eq]

theorem DifficultyLinearStepperSimple_base_args_eq (a : DifficultyLinearStepperSimpleArgs ℂ) :
    DifficultyLinearStepperSimple_base_args a =
      ({ num_spatial_dims := a.num_spatial_dims, domain_extent := 1, num_points := a.num_points, dt := 1,
         num_channels := 1, order := 0, num_circle_points := 16, circle_radius := 1 } : BaseStepperArgs ℂ) := by
  unfold DifficultyLinearStepperSimple_base_args
  rw [DifficultyLinearStepperSimple_super_args_eq, DifficultyLinearStepper_base_args_eq]

theorem DifficultyLinearStepperSimple_num_channels_eq (a : DifficultyLinearStepperSimpleArgs ℂ) :
    DifficultyLinearStepperSimple_num_channels a = 1 := by
  unfold DifficultyLinearStepperSimple_num_channels
  rw [DifficultyLinearStepperSimple_base_args_eq]

theorem GeneralNonlinearStepper_base_args_eq (a : GeneralNonlinearStepperArgs ℂ) :
    GeneralNonlinearStepper_base_args a =
      ({ num_spatial_dims := a.num_spatial_dims, domain_extent := a.domain_extent, num_points := a.num_points,
         dt := a.dt, num_channels := 1, order := a.order, num_circle_points := a.num_circle_points,
         circle_radius := a.circle_radius } : BaseStepperArgs ℂ) :=
  GeneralNonlinearStepper_super_args_eq a

theorem GeneralNonlinearStepper_num_channels_eq (a : GeneralNonlinearStepperArgs ℂ) :
    GeneralNonlinearStepper_num_channels a = 1 := by
  unfold GeneralNonlinearStepper_num_channels
  rw [GeneralNonlinearStepper_base_args_eq]

theorem NormalizedNonlinearStepper_base_args_eq (a : NormalizedNonlinearStepperArgs ℂ) :
    NormalizedNonlinearStepper_base_args a =
      ({ num_spatial_dims := a.num_spatial_dims, domain_extent := 1, num_points := a.num_points, dt := 1,
         num_channels := 1, order := a.order, num_circle_points := a.num_circle_points,
         circle_radius := a.circle_radius } : BaseStepperArgs ℂ) := by
  unfold NormalizedNonlinearStepper_base_args
  rw [NormalizedNonlinearStepper_super_args_eq, GeneralNonlinearStepper_base_args_eq]

theorem NormalizedNonlinearStepper_num_channels_eq (a : NormalizedNonlinearStepperArgs ℂ) :
    NormalizedNonlinearStepper_num_channels a = 1 := by
  unfold NormalizedNonlinearStepper_num_channels
  rw [NormalizedNonlinearStepper_base_args_eq]

theorem DifficultyNonlinearStepper_base_args_eq (a : DifficultyNonlinearStepperArgs ℂ) :
    DifficultyNonlinearStepper_base_args a =
      ({ num_spatial_dims := a.num_spatial_dims, domain_extent := 1, num_points := a.num_points, dt := 1,
         num_channels := 1, order := a.order, num_circle_points := a.num_circle_points,
         circle_radius := a.circle_radius } : BaseStepperArgs ℂ) := by
  unfold DifficultyNonlinearStepper_base_args
  rw [DifficultyNonlinearStepper_super_args_eq, NormalizedNonlinearStepper_base_args_eq]

theorem DifficultyNonlinearStepper_num_channels_eq (a : DifficultyNonlinearStepperArgs ℂ) :
    DifficultyNonlinearStepper_num_channels a = 1 := by
  unfold DifficultyNonlinearStepper_num_channels
  rw [DifficultyNonlinearStepper_base_args_eq]

theorem GeneralPolynomialStepper_base_args_eq (a : GeneralPolynomialStepperArgs ℂ) :
    GeneralPolynomialStepper_base_args a =
      ({ num_spatial_dims := a.num_spatial_dims, domain_extent := a.domain_extent, num_points := a.num_points,
         dt := a.dt, num_channels := 1, order := a.order, num_circle_points := a.num_circle_points,
         circle_radius := a.circle_radius } : BaseStepperArgs ℂ) :=
  GeneralPolynomialStepper_super_args_eq a

theorem GeneralPolynomialStepper_num_channels_eq (a : GeneralPolynomialStepperArgs ℂ) :
    GeneralPolynomialStepper_num_channels a = 1 := by
  unfold GeneralPolynomialStepper_num_channels
  rw [GeneralPolynomialStepper_base_args_eq]

theorem NormalizedPolynomialStepper_base_args_eq (a : NormalizedPolynomialStepperArgs ℂ) :
    NormalizedPolynomialStepper_base_args a =
      ({ num_spatial_dims := a.num_spatial_dims, domain_extent := 1, num_points := a.num_points, dt := 1,
         num_channels := 1, order := a.order, num_circle_points := a.num_circle_points,
         circle_radius := a.circle_radius } : BaseStepperArgs ℂ) := by
  unfold NormalizedPolynomialStepper_base_args
  rw [NormalizedPolynomialStepper_super_args_eq, GeneralPolynomialStepper_base_args_eq]

theorem NormalizedPolynomialStepper_num_channels_eq (a : NormalizedPolynomialStepperArgs ℂ) :
    NormalizedPolynomialStepper_num_channels a = 1 := by
  unfold NormalizedPolynomialStepper_num_channels
  rw [NormalizedPolynomialStepper_base_args_eq]

theorem DifficultyPolynomialStepper_base_args_eq (a : DifficultyPolynomialStepperArgs ℂ) :
    DifficultyPolynomialStepper_base_args a =
      ({ num_spatial_dims := a.num_spatial_dims, domain_extent := 1, num_points := a.num_points, dt := 1,
         num_channels := 1, order := a.order, num_circle_points := a.num_circle_points,
         circle_radius := a.circle_radius } : BaseStepperArgs ℂ) := by
  unfold DifficultyPolynomialStepper_base_args
  rw [DifficultyPolynomialStepper_super_args_eq, NormalizedPolynomialStepper_base_args_eq]

theorem DifficultyPolynomialStepper_num_channels_eq (a : DifficultyPolynomialStepperArgs ℂ) :
    DifficultyPolynomialStepper_num_channels a = 1 := by
  unfold DifficultyPolynomialStepper_num_channels
  rw [DifficultyPolynomialStepper_base_args_eq]

theorem Diffusion_base_args_eq (a : DiffusionArgs ℂ) :
    Diffusion_base_args a =
      ({ num_spatial_dims := a.num_spatial_dims, domain_extent := a.domain_extent, num_points := a.num_points,
         dt := a.dt, num_channels := 1, order := 0, num_circle_points := 16, circle_radius := 1 } : BaseStepperArgs
             ℂ) :=
  Diffusion_super_args_eq a

theorem Diffusion_num_channels_eq (a : DiffusionArgs ℂ) : Diffusion_num_channels a = 1 := by
  unfold Diffusion_num_channels
  rw [Diffusion_base_args_eq]

theorem Dispersion_base_args_eq (a : DispersionArgs ℂ) :
    Dispersion_base_args a =
      ({ num_spatial_dims := a.num_spatial_dims, domain_extent := a.domain_extent, num_points := a.num_points,
         dt := a.dt, num_channels := 1, order := 0, num_circle_points := 16, circle_radius := 1 } : BaseStepperArgs
             ℂ) :=
  Dispersion_super_args_eq a

theorem Dispersion_num_channels_eq (a : DispersionArgs ℂ) : Dispersion_num_channels a = 1 := by
  unfold Dispersion_num_channels
  rw [Dispersion_base_args_eq]

theorem FisherKPP_base_args_eq (a : FisherKPPArgs ℂ) :
    FisherKPP_base_args a =
      ({ num_spatial_dims := a.num_spatial_dims, domain_extent := a.domain_extent, num_points := a.num_points,
         dt := a.dt, num_channels := 1, order := a.order, num_circle_points := a.num_circle_points,
         circle_radius := a.circle_radius } : BaseStepperArgs ℂ) :=
  FisherKPP_super_args_eq a

theorem FisherKPP_num_channels_eq (a : FisherKPPArgs ℂ) : FisherKPP_num_channels a = 1 := by
  unfold FisherKPP_num_channels
  rw [FisherKPP_base_args_eq]

theorem GeneralVorticityConvectionStepper_base_args_eq (a : GeneralVorticityConvectionStepperArgs ℂ) :
    GeneralVorticityConvectionStepper_base_args a =
      ({ num_spatial_dims := a.num_spatial_dims, domain_extent := a.domain_extent, num_points := a.num_points,
         dt := a.dt, num_channels := 1, order := a.order, num_circle_points := a.num_circle_points,
         circle_radius := a.circle_radius } : BaseStepperArgs ℂ) :=
  GeneralVorticityConvectionStepper_super_args_eq a

theorem GeneralVorticityConvectionStepper_num_channels_eq (a : GeneralVorticityConvectionStepperArgs ℂ) :
    GeneralVorticityConvectionStepper_num_channels a = 1 := by
  unfold GeneralVorticityConvectionStepper_num_channels
  rw [GeneralVorticityConvectionStepper_base_args_eq]

theorem GrayScott_base_args_eq (a : GrayScottArgs ℂ) :
    GrayScott_base_args a =
      ({ num_spatial_dims := a.num_spatial_dims, domain_extent := a.domain_extent, num_points := a.num_points,
         dt := a.dt, num_channels := 2, order := a.order, num_circle_points := a.num_circle_points,
         circle_radius := a.circle_radius } : BaseStepperArgs ℂ) :=
  GrayScott_super_args_eq a

theorem GrayScott_num_channels_eq (a : GrayScottArgs ℂ) : GrayScott_num_channels a = 2 := by
  unfold GrayScott_num_channels
  rw [GrayScott_base_args_eq]

theorem HyperDiffusion_base_args_eq (a : HyperDiffusionArgs ℂ) :
    HyperDiffusion_base_args a =
      ({ num_spatial_dims := a.num_spatial_dims, domain_extent := a.domain_extent, num_points := a.num_points,
         dt := a.dt, num_channels := 1, order := 0, num_circle_points := 16, circle_radius := 1 } : BaseStepperArgs
             ℂ) :=
  HyperDiffusion_super_args_eq a

theorem HyperDiffusion_num_channels_eq (a : HyperDiffusionArgs ℂ) : HyperDiffusion_num_channels a = 1 := by
  unfold HyperDiffusion_num_channels
  rw [HyperDiffusion_base_args_eq]

theorem KolmogorovFlowVelocity_base_args_eq (a : KolmogorovFlowVelocityArgs ℂ) :
    KolmogorovFlowVelocity_base_args a =
      ({ num_spatial_dims := a.num_spatial_dims, domain_extent := a.domain_extent, num_points := a.num_points,
         dt := a.dt, num_channels := 3, order := a.order, num_circle_points := a.num_circle_points,
         circle_radius := a.circle_radius } : BaseStepperArgs ℂ) :=
  KolmogorovFlowVelocity_super_args_eq a

theorem KolmogorovFlowVelocity_num_channels_eq (a : KolmogorovFlowVelocityArgs ℂ) :
    KolmogorovFlowVelocity_num_channels a = 3 := by
  unfold KolmogorovFlowVelocity_num_channels
  rw [KolmogorovFlowVelocity_base_args_eq]

theorem KolmogorovFlowVorticity_base_args_eq (a : KolmogorovFlowVorticityArgs ℂ) :
    KolmogorovFlowVorticity_base_args a =
      ({ num_spatial_dims := a.num_spatial_dims, domain_extent := a.domain_extent, num_points := a.num_points,
         dt := a.dt, num_channels := 1, order := a.order, num_circle_points := a.num_circle_points,
         circle_radius := a.circle_radius } : BaseStepperArgs ℂ) :=
  KolmogorovFlowVorticity_super_args_eq a

theorem KolmogorovFlowVorticity_num_channels_eq (a : KolmogorovFlowVorticityArgs ℂ) :
    KolmogorovFlowVorticity_num_channels a = 1 := by
  unfold KolmogorovFlowVorticity_num_channels
  rw [KolmogorovFlowVorticity_base_args_eq]

theorem KortewegDeVries_base_args_eq (a : KortewegDeVriesArgs ℂ) :
    KortewegDeVries_base_args a =
      ({ num_spatial_dims := a.num_spatial_dims, domain_extent := a.domain_extent, num_points := a.num_points,
         dt := a.dt, num_channels := if a.single_channel then 1 else a.num_spatial_dims, order := a.order,
         num_circle_points := a.num_circle_points, circle_radius := a.circle_radius } : BaseStepperArgs ℂ) :=
  KortewegDeVries_super_args_eq a

theorem KortewegDeVries_num_channels_eq (a : KortewegDeVriesArgs ℂ) : KortewegDeVries_num_channels a = if
    a.single_channel then 1 else a.num_spatial_dims := by
  unfold KortewegDeVries_num_channels
  rw [KortewegDeVries_base_args_eq]

theorem KuramotoSivashinsky_base_args_eq (a : KuramotoSivashinskyArgs ℂ) :
    KuramotoSivashinsky_base_args a =
      ({ num_spatial_dims := a.num_spatial_dims, domain_extent := a.domain_extent, num_points := a.num_points,
         dt := a.dt, num_channels := 1, order := a.order, num_circle_points := a.num_circle_points,
         circle_radius := a.circle_radius } : BaseStepperArgs ℂ) :=
  KuramotoSivashinsky_super_args_eq a

theorem KuramotoSivashinsky_num_channels_eq (a : KuramotoSivashinskyArgs ℂ) : KuramotoSivashinsky_num_channels a = 1
    := by
  unfold KuramotoSivashinsky_num_channels
  rw [KuramotoSivashinsky_base_args_eq]

theorem KuramotoSivashinskyConservative_base_args_eq (a : KuramotoSivashinskyConservativeArgs ℂ) :
    KuramotoSivashinskyConservative_base_args a =
      ({ num_spatial_dims := a.num_spatial_dims, domain_extent := a.domain_extent, num_points := a.num_points,
         dt := a.dt, num_channels := if a.single_channel then 1 else a.num_spatial_dims, order := a.order,
         num_circle_points := a.num_circle_points, circle_radius := a.circle_radius } : BaseStepperArgs ℂ) :=
  KuramotoSivashinskyConservative_super_args_eq a

theorem KuramotoSivashinskyConservative_num_channels_eq (a : KuramotoSivashinskyConservativeArgs ℂ) :
    KuramotoSivashinskyConservative_num_channels a = if a.single_channel then 1 else a.num_spatial_dims := by
  unfold KuramotoSivashinskyConservative_num_channels
  rw [KuramotoSivashinskyConservative_base_args_eq]

theorem NavierStokesVelocity_base_args_eq (a : NavierStokesVelocityArgs ℂ) :
    NavierStokesVelocity_base_args a =
      ({ num_spatial_dims := a.num_spatial_dims, domain_extent := a.domain_extent, num_points := a.num_points,
         dt := a.dt, num_channels := 3, order := a.order, num_circle_points := a.num_circle_points,
         circle_radius := a.circle_radius } : BaseStepperArgs ℂ) :=
  NavierStokesVelocity_super_args_eq a

theorem NavierStokesVelocity_num_channels_eq (a : NavierStokesVelocityArgs ℂ) : NavierStokesVelocity_num_channels a =
    3 := by
  unfold NavierStokesVelocity_num_channels
  rw [NavierStokesVelocity_base_args_eq]

theorem NavierStokesVorticity_base_args_eq (a : NavierStokesVorticityArgs ℂ) :
    NavierStokesVorticity_base_args a =
      ({ num_spatial_dims := a.num_spatial_dims, domain_extent := a.domain_extent, num_points := a.num_points,
         dt := a.dt, num_channels := 1, order := a.order, num_circle_points := a.num_circle_points,
         circle_radius := a.circle_radius } : BaseStepperArgs ℂ) :=
  NavierStokesVorticity_super_args_eq a

theorem NavierStokesVorticity_num_channels_eq (a : NavierStokesVorticityArgs ℂ) : NavierStokesVorticity_num_channels
    a = 1 := by
  unfold NavierStokesVorticity_num_channels
  rw [NavierStokesVorticity_base_args_eq]

theorem SwiftHohenberg_base_args_eq (a : SwiftHohenbergArgs ℂ) :
    SwiftHohenberg_base_args a =
      ({ num_spatial_dims := a.num_spatial_dims, domain_extent := a.domain_extent, num_points := a.num_points,
         dt := a.dt, num_channels := 1, order := a.order, num_circle_points := a.num_circle_points,
         circle_radius := a.circle_radius } : BaseStepperArgs ℂ) :=
  SwiftHohenberg_super_args_eq a

theorem SwiftHohenberg_num_channels_eq (a : SwiftHohenbergArgs ℂ) : SwiftHohenberg_num_channels a = 1 := by
  unfold SwiftHohenberg_num_channels
  rw [SwiftHohenberg_base_args_eq]

theorem Wave_base_args_eq (a : WaveArgs ℂ) :
    Wave_base_args a =
      ({ num_spatial_dims := a.num_spatial_dims, domain_extent := a.domain_extent, num_points := a.num_points,
         dt := a.dt, num_channels := 2, order := 0, num_circle_points := 16, circle_radius := 1 } : BaseStepperArgs
             ℂ) :=
  Wave_super_args_eq a

theorem Wave_num_channels_eq (a : WaveArgs ℂ) : Wave_num_channels a = 2 := by
  unfold Wave_num_channels
  rw [Wave_base_args_eq]

/-! ### `Normalized*`: the parent `General*Stepper` receives `denormalize_*` of the user's values at `L = 1`, `dt = 1`
     (the documented conversion), every other argument unchanged (`*_super_args_eq` above) -/

theorem NormalizedConvectionStepper_parent_receives_denormalized (a : NormalizedConvectionStepperArgs ℂ) :
    let g := NormalizedConvectionStepper_super_args a
    g.domain_extent = 1 ∧
    g.dt = 1 ∧
    g.linear_coefficients = denormalize_coefficients a.normalized_linear_coefficients g.domain_extent g.dt ∧
    g.convection_scale = denormalize_convection_scale a.normalized_convection_scale g.domain_extent g.dt := by
  simp [NormalizedConvectionStepper_super_args_eq, denormalize_coefficients_one, denormalize_convection_scale_one,
    denormalize_gradient_norm_scale_one, denormalize_polynomial_scales_one]

theorem NormalizedGradientNormStepper_parent_receives_denormalized (a : NormalizedGradientNormStepperArgs ℂ) :
    let g := NormalizedGradientNormStepper_super_args a
    g.domain_extent = 1 ∧
    g.dt = 1 ∧
    g.linear_coefficients = denormalize_coefficients a.normalized_linear_coefficients g.domain_extent g.dt ∧
    g.gradient_norm_scale = denormalize_gradient_norm_scale a.normalized_gradient_norm_scale g.domain_extent g.dt :=
        by
  simp [NormalizedGradientNormStepper_super_args_eq, denormalize_coefficients_one, denormalize_convection_scale_one,
    denormalize_gradient_norm_scale_one, denormalize_polynomial_scales_one]

theorem NormalizedLinearStepper_parent_receives_denormalized (a : NormalizedLinearStepperArgs ℂ) :
    let g := NormalizedLinearStepper_super_args a
    g.domain_extent = 1 ∧
    g.dt = 1 ∧
    g.linear_coefficients = denormalize_coefficients a.normalized_linear_coefficients g.domain_extent g.dt := by
  simp [NormalizedLinearStepper_super_args_eq, denormalize_coefficients_one, denormalize_convection_scale_one,
    denormalize_gradient_norm_scale_one, denormalize_polynomial_scales_one]

theorem NormalizedNonlinearStepper_parent_receives_denormalized (a : NormalizedNonlinearStepperArgs ℂ) :
    let g := NormalizedNonlinearStepper_super_args a
    g.domain_extent = 1 ∧
    g.dt = 1 ∧
    g.linear_coefficients = denormalize_coefficients a.normalized_linear_coefficients g.domain_extent g.dt ∧
    g.nonlinear_coefficients.1 = a.normalized_nonlinear_coefficients.1 ∧
    g.nonlinear_coefficients.2.1 = denormalize_convection_scale a.normalized_nonlinear_coefficients.2.1
        g.domain_extent g.dt ∧
    g.nonlinear_coefficients.2.2 = denormalize_gradient_norm_scale a.normalized_nonlinear_coefficients.2.2
        g.domain_extent g.dt := by
  simp [NormalizedNonlinearStepper_super_args_eq, denormalize_coefficients_one, denormalize_convection_scale_one,
    denormalize_gradient_norm_scale_one, denormalize_polynomial_scales_one]

theorem NormalizedPolynomialStepper_parent_receives_denormalized (a : NormalizedPolynomialStepperArgs ℂ) :
    let g := NormalizedPolynomialStepper_super_args a
    g.domain_extent = 1 ∧
    g.dt = 1 ∧
    g.linear_coefficients = denormalize_coefficients a.normalized_linear_coefficients g.domain_extent g.dt ∧
    g.polynomial_coefficients = denormalize_polynomial_scales a.normalized_polynomial_coefficients g.domain_extent
        g.dt := by
  simp [NormalizedPolynomialStepper_super_args_eq, denormalize_coefficients_one, denormalize_convection_scale_one,
    denormalize_gradient_norm_scale_one, denormalize_polynomial_scales_one]

/-! ### `Difficulty*`: the composition difficulty → normalized → `General*Stepper` (documented formulas), every flag
     forwarded unchanged -/

theorem DifficultyConvectionStepper_general_args (a : DifficultyConvectionStepperArgs ℂ) :
    NormalizedConvectionStepper_super_args (DifficultyConvectionStepper_super_args a) =
      ({ num_spatial_dims := a.num_spatial_dims, domain_extent := 1, num_points := a.num_points, dt := 1,
         linear_coefficients := normalizedOfDifficulty a.linear_difficulties a.num_spatial_dims a.num_points,
         convection_scale := a.convection_difficulty / (a.maximum_absolute * a.num_points * a.num_spatial_dims),
         single_channel := a.single_channel, conservative := a.conservative, order := a.order,
         dealiasing_fraction := a.dealiasing_fraction, num_circle_points := a.num_circle_points,
         circle_radius := a.circle_radius } : GeneralConvectionStepperArgs ℂ) := by
  rw [DifficultyConvectionStepper_super_args_eq, NormalizedConvectionStepper_super_args_eq]
  simp only [extract_coefficients_eq, extract_convection_eq, extract_gradient_norm_eq, extract_nonlinear_eq]

theorem DifficultyGradientNormStepper_general_args (a : DifficultyGradientNormStepperArgs ℂ) :
    NormalizedGradientNormStepper_super_args (DifficultyGradientNormStepper_super_args a) =
      ({ num_spatial_dims := a.num_spatial_dims, domain_extent := 1, num_points := a.num_points, dt := 1,
         linear_coefficients := normalizedOfDifficulty a.linear_difficulties a.num_spatial_dims a.num_points,
         gradient_norm_scale := a.gradient_norm_difficulty / (a.maximum_absolute * (a.num_points : ℂ) ^ 2 *
             a.num_spatial_dims),
         order := a.order, dealiasing_fraction := a.dealiasing_fraction, num_circle_points := a.num_circle_points,
         circle_radius := a.circle_radius } : GeneralGradientNormStepperArgs ℂ) := by
  rw [DifficultyGradientNormStepper_super_args_eq, NormalizedGradientNormStepper_super_args_eq]
  simp only [extract_coefficients_eq, extract_convection_eq, extract_gradient_norm_eq, extract_nonlinear_eq]

theorem DifficultyLinearStepper_general_args (a : DifficultyLinearStepperArgs ℂ) :
    NormalizedLinearStepper_super_args (DifficultyLinearStepper_super_args a) =
      ({ num_spatial_dims := a.num_spatial_dims, domain_extent := 1, num_points := a.num_points, dt := 1,
         linear_coefficients := normalizedOfDifficulty a.linear_difficulties a.num_spatial_dims a.num_points } :
             GeneralLinearStepperArgs ℂ) := by
  rw [DifficultyLinearStepper_super_args_eq, NormalizedLinearStepper_super_args_eq]
  simp only [extract_coefficients_eq, extract_convection_eq, extract_gradient_norm_eq, extract_nonlinear_eq]

theorem DifficultyLinearStepperSimple_general_args (a : DifficultyLinearStepperSimpleArgs ℂ) :
    NormalizedLinearStepper_super_args (DifficultyLinearStepper_super_args (DifficultyLinearStepperSimple_super_args
        a)) =
      ({ num_spatial_dims := a.num_spatial_dims, domain_extent := 1, num_points := a.num_points, dt := 1,
         linear_coefficients := normalizedOfDifficulty (List.replicate a.order 0 ++ [a.difficulty])
             a.num_spatial_dims a.num_points } : GeneralLinearStepperArgs ℂ) := by
  rw [DifficultyLinearStepperSimple_super_args_eq, DifficultyLinearStepper_general_args]

theorem DifficultyNonlinearStepper_general_args (a : DifficultyNonlinearStepperArgs ℂ) :
    NormalizedNonlinearStepper_super_args (DifficultyNonlinearStepper_super_args a) =
      ({ num_spatial_dims := a.num_spatial_dims, domain_extent := 1, num_points := a.num_points, dt := 1,
         linear_coefficients := normalizedOfDifficulty a.linear_difficulties a.num_spatial_dims a.num_points,
         nonlinear_coefficients := (a.nonlinear_difficulties.1, a.nonlinear_difficulties.2.1 / (a.maximum_absolute *
             a.num_points * a.num_spatial_dims), a.nonlinear_difficulties.2.2 / (a.maximum_absolute * (a.num_points :
                 ℂ) ^ 2 * a.num_spatial_dims)),
         order := a.order, dealiasing_fraction := a.dealiasing_fraction, num_circle_points := a.num_circle_points,
         circle_radius := a.circle_radius } : GeneralNonlinearStepperArgs ℂ) := by
  rw [DifficultyNonlinearStepper_super_args_eq, NormalizedNonlinearStepper_super_args_eq]
  simp only [extract_coefficients_eq, extract_convection_eq, extract_gradient_norm_eq, extract_nonlinear_eq]

theorem DifficultyPolynomialStepper_general_args (a : DifficultyPolynomialStepperArgs ℂ) :
    NormalizedPolynomialStepper_super_args (DifficultyPolynomialStepper_super_args a) =
      ({ num_spatial_dims := a.num_spatial_dims, domain_extent := 1, num_points := a.num_points, dt := 1,
         linear_coefficients := normalizedOfDifficulty a.linear_difficulties a.num_spatial_dims a.num_points,
         polynomial_coefficients := a.polynomial_difficulties, order := a.order,
         dealiasing_fraction := a.dealiasing_fraction, num_circle_points := a.num_circle_points,
         circle_radius := a.circle_radius } : GeneralPolynomialStepperArgs ℂ) := by
  rw [DifficultyPolynomialStepper_super_args_eq, NormalizedPolynomialStepper_super_args_eq]
  simp only [extract_coefficients_eq, extract_convection_eq, extract_gradient_norm_eq, extract_nonlinear_eq]

end Exponax.StepperWiringEq
