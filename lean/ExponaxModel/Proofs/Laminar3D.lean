import ExponaxModel.Proofs.LaminarWholeExact
/-
C12 / PART A1, 3-D — the rotational term of `Nonlin.projected3d` vanishes identically (all three channels, all modes)
on velocity spectra of the form `(û₀, 0, 0)` with `û₀` carried by the two conjugate Kolmogorov modes
`k = (0, ±m, 0)`, `0 < m`, `2m < N` — ARBITRARY complex amplitudes `a`, `b` (no Hermitian symmetry assumed), any
dealiasing mask, `s ≠ 0` real.

Mechanism (read off the model): `ω = ∇×u = (0, 0, −∂₁u₀)`, `u × ω = (0, −u₀ ω₂, 0)`, and on the grid
`u₀ ω₂ = −(σ/2G²) Im((A + B̄)² ζ^{−2p})` (`σ = s m`, `p = m j₁`): a pure `(0, ±2m, 0)` field with no mean, whose masked
transform lives on stored modes with `k₀ = k₂ = 0`, `k₁ ≠ 0`; there the Leray projection removes the channel-1 entry
(`1 − d₁²/d₁² = 0`) and adds nothing to channels 0, 2 (`d₀ = d₂ = 0`).
-/
set_option linter.unusedVariables false
namespace Exponax.Laminar3D
open Exponax Exponax.Layout Exponax.Transform Exponax.DFT Exponax.ExactLinear Finset
open Exponax.Nonlin (Cfg MC at2 tab2 tabC modes gridSize mask nfft nifft projected3d leray kInt deriv proj3
  invLapZero laplace specDiv)
open scoped ComplexConjugate

/-! ### scalar algebra on the grid -/

theorem re_cast (z : ℂ) : ((z.re : ℝ) : ℂ) = (z + conj z) / 2 := Complex.re_eq_add_conj z

/-- `−Re(A w̄ + B w)/G · Re(−iσA w̄ + iσB w)/G` is a pure `w^{∓2}` field (`|w| = 1`, `σ` real) -/
theorem shear_product (A B σ G w : ℂ) (hw0 : w ≠ 0) (hw : conj w = w⁻¹) (hσ : conj σ = σ) (hG : G ≠ 0) :
    -(((((A * w⁻¹).re : ℝ) : ℂ) + (((B * w).re : ℝ) : ℂ)) / G)
        * ((((((-(Complex.I * σ) * A) * w⁻¹).re : ℝ) : ℂ) + (((((Complex.I * σ) * B) * w).re : ℝ) : ℂ)) / G)
      = (σ * Complex.I / (4 * G ^ 2)) * (A + conj B) ^ 2 * (w⁻¹) ^ 2
        + (-(σ * Complex.I) / (4 * G ^ 2)) * (conj A + B) ^ 2 * w ^ 2 := by
  have hw' : conj (w⁻¹) = w := by rw [map_inv₀, hw, inv_inv]
  simp only [re_cast, map_mul, map_neg, Complex.conj_I, hσ, hw, hw']
  field_simp
  ring_nf

/-! ### the two Kolmogorov modes -/

/-- stored index of `k = (0, m, 0)` -/
def hP (c : Cfg ℂ) (m : ℕ) : ℕ := modeIdx c.D c.N [0, (m : ℤ), 0]
/-- stored index of `k = (0, −m, 0)` -/
def hM (c : Cfg ℂ) (m : ℕ) : ℕ := modeIdx c.D c.N (negK [0, (m : ℤ), 0])

section modes
variable (c : Cfg ℂ) (hD : c.D = 3) (m : ℕ) (hm : 2 * m < c.N)
include hD hm

theorem bn : BelowNyquist c.D c.N [0, (m : ℤ), 0] := by rw [hD]; exact ReadOff.belowNyquist_3d c.N m hm

theorem hP_lt : hP c m < modes c :=
  modeIdx_lt c.D c.N (by omega) (by omega) _ (bn c hD m hm) (by rw [hD]; simp)

theorem hM_lt : hM c m < modes c :=
  modeIdx_lt c.D c.N (by omega) (by omega) _ (bn c hD m hm).negK (by rw [hD]; simp [negK])

theorem wnFlat_hP : wnFlat c.D c.N (hP c m) = [0, (m : ℤ), 0] :=
  wnFlat_modeIdx c.D c.N (by omega) (by omega) _ (bn c hD m hm) (by rw [hD]; simp)

theorem wnFlat_hM : wnFlat c.D c.N (hM c m) = negK [0, (m : ℤ), 0] :=
  wnFlat_modeIdx c.D c.N (by omega) (by omega) _ (bn c hD m hm).negK (by rw [hD]; simp [negK])

theorem kInt_hP : kInt c 0 (hP c m) = 0 ∧ kInt c 1 (hP c m) = (m : ℤ) ∧ kInt c 2 (hP c m) = 0 := by
  unfold kInt; rw [wnFlat_hP c hD m hm]; simp

theorem kInt_hM : kInt c 0 (hM c m) = 0 ∧ kInt c 1 (hM c m) = -(m : ℤ) ∧ kInt c 2 (hM c m) = 0 := by
  unfold kInt; rw [wnFlat_hM c hD m hm]; simp [negK]

theorem eq_hP_iff (h : ℕ) (hh : h < modes c) :
    (kInt c 0 h = 0 ∧ kInt c 2 h = 0 ∧ kInt c 1 h = (m : ℤ)) ↔ h = hP c m := by
  constructor
  · rintro ⟨h0, h2, h1⟩
    apply wnFlat_inj c.D c.N (by omega) (by omega) h _ hh (hP_lt c hD m hm)
    rw [wnFlat_hP c hD m hm]
    exact (ReadOff.wnFlat_eq_3d c hD h 0 m 0).mpr ⟨h0, h1, h2⟩
  · rintro rfl
    obtain ⟨a, b, e⟩ := kInt_hP c hD m hm
    exact ⟨a, e, b⟩

theorem eq_hM_iff (h : ℕ) (hh : h < modes c) :
    (kInt c 0 h = 0 ∧ kInt c 2 h = 0 ∧ kInt c 1 h = -(m : ℤ)) ↔ h = hM c m := by
  constructor
  · rintro ⟨h0, h2, h1⟩
    apply wnFlat_inj c.D c.N (by omega) (by omega) h _ hh (hM_lt c hD m hm)
    rw [wnFlat_hM c hD m hm]
    have : negK [0, (m : ℤ), 0] = [0, -(m : ℤ), 0] := by simp [negK]
    rw [this]
    exact (ReadOff.wnFlat_eq_3d c hD h 0 (-(m : ℤ)) 0).mpr ⟨h0, h1, h2⟩
  · rintro rfl
    obtain ⟨a, b, e⟩ := kInt_hM c hD m hm
    exact ⟨a, e, b⟩

theorem hP_ne_hM (hm0 : 0 < m) : hP c m ≠ hM c m := by
  intro he
  have h1 := (kInt_hP c hD m hm).2.1
  have h2 := (kInt_hM c hD m hm).2.1
  rw [he] at h1
  omega

theorem herm_weight_hP : herm_weight c.D c.N (hP c m) = 1 := by
  rw [herm_weight_of_wn c.D c.N _ (by omega), wnFlat_hP c hD m hm, hD]
  simp

theorem herm_weight_hM : herm_weight c.D c.N (hM c m) = 1 := by
  rw [herm_weight_of_wn c.D c.N _ (by omega), wnFlat_hM c hD m hm, hD]
  simp [negK]

end modes

/-! ### T1: the inverse transform of a two-mode spectrum -/

/-- `ζ^{p(x)}`, `p = κ·x = m x₁` -/
noncomputable def wph (c : Cfg ℂ) (m x : ℕ) : ℂ := zeta c.N ^ (phaseK c.D c.N [0, (m : ℤ), 0] x)

theorem wph_ne (c : Cfg ℂ) (m x : ℕ) : wph c m x ≠ 0 := zpow_ne_zero _ (zeta_ne_zero c.N)

theorem conj_wph (c : Cfg ℂ) (m x : ℕ) : conj (wph c m x) = (wph c m x)⁻¹ := by
  unfold wph
  rw [conj_zeta_zpow, zpow_neg]

theorem nifft_two_mode (c : Cfg ℂ) (hD : c.D = 3) (m : ℕ) (hm0 : 0 < m) (hm : 2 * m < c.N) (z : Array ℂ)
    (hz : ∀ h, h < modes c → h ≠ hP c m → h ≠ hM c m → z.getD h 0 = 0) (x : ℕ) (hx : x < gridSize c) :
    (nifft c z).getD x 0
      = (((((mask c (hP c m) * z.getD (hP c m) 0) * (wph c m x)⁻¹).re : ℝ) : ℂ)
          + ((((mask c (hM c m) * z.getD (hM c m) 0) * wph c m x).re : ℝ) : ℂ)) / ((c.N ^ c.D : ℕ) : ℂ) := by
  have hN : 0 < c.N := by omega
  unfold nifft
  rw [irfftnM_getD c.D c.N hN _ x hx]
  congr 1
  rw [Finset.sum_eq_add (hP c m) (hM c m) (hP_ne_hM c hD m hm hm0)]
  · rw [herm_weight_hP c hD m hm, herm_weight_hM c hD m hm, Nonlin.tab_getD _ _ _ _ (hP_lt c hD m hm),
      Nonlin.tab_getD _ _ _ _ (hM_lt c hD m hm), wnFlat_hP c hD m hm, wnFlat_hM c hD m hm, phaseK_negK, neg_neg,
      twiddle_eq_zpow, twiddle_eq_zpow, zpow_neg]
    unfold wph
    push_cast
    ring
  · intro h hh hne
    have hh' : h < modes c := Finset.mem_range.mp hh
    rw [Nonlin.tab_getD _ _ _ _ hh', hz h hh' hne.1 hne.2]
    simp
  · intro hn
    exact absurd (Finset.mem_range.mpr (hP_lt c hD m hm)) hn
  · intro hn
    exact absurd (Finset.mem_range.mpr (hM_lt c hD m hm)) hn

/-! ### T2: the transform of a two-exponential field -/

theorem rfftnM_two_exp (D N : ℕ) (hN : 0 < N) (κ : List ℤ) (α β : ℂ) (u : Array ℂ)
    (hu : ∀ j < N ^ D, u.getD j 0 = α * zeta N ^ (-(phaseK D N κ j)) + β * zeta N ^ (phaseK D N κ j))
    (h : ℕ) (hh : h < numModes D N) :
    (rfftnM D N u).getD h 0
      = α * (if ∀ d < D, (N : ℤ) ∣ (wnFlat D N h).getD d 0 - κ.getD d 0 then ((N ^ D : ℕ) : ℂ) else 0)
        + β * (if ∀ d < D, (N : ℤ) ∣ (wnFlat D N h).getD d 0 + κ.getD d 0 then ((N ^ D : ℕ) : ℂ) else 0) := by
  rw [rfftnM_getD D N hN u h hh]
  have hterm : ∀ j ∈ range (N ^ D), u.getD j 0 * twiddle N (phaseK D N (wnFlat D N h) j)
      = α * zeta N ^ (∑ d ∈ range D, ((wnFlat D N h).getD d 0 - κ.getD d 0) * (digit D N j d : ℤ))
        + β * zeta N ^ (∑ d ∈ range D, ((wnFlat D N h).getD d 0 + κ.getD d 0) * (digit D N j d : ℤ)) := by
    intro j hj
    have e1 : ∑ d ∈ range D, ((wnFlat D N h).getD d 0 - κ.getD d 0) * (digit D N j d : ℤ)
        = -phaseK D N κ j + phaseK D N (wnFlat D N h) j := by
      rw [phaseK_eq_sum, phaseK_eq_sum, ← Finset.sum_neg_distrib, ← Finset.sum_add_distrib]
      exact Finset.sum_congr rfl (fun d _ => by ring)
    have e2 : ∑ d ∈ range D, ((wnFlat D N h).getD d 0 + κ.getD d 0) * (digit D N j d : ℤ)
        = phaseK D N κ j + phaseK D N (wnFlat D N h) j := by
      rw [phaseK_eq_sum, phaseK_eq_sum, ← Finset.sum_add_distrib]
      exact Finset.sum_congr rfl (fun d _ => by ring)
    rw [hu j (Finset.mem_range.mp hj), twiddle_eq_zpow, e1, e2, zpow_add₀ (zeta_ne_zero N),
      zpow_add₀ (zeta_ne_zero N)]
    ring
  rw [Finset.sum_congr rfl hterm, Finset.sum_add_distrib, ← Finset.mul_sum, ← Finset.mul_sum,
    sum_zeta_digits N hN (fun d => (wnFlat D N h).getD d 0 - κ.getD d 0) D,
    sum_zeta_digits N hN (fun d => (wnFlat D N h).getD d 0 + κ.getD d 0) D]

/-- where the transform of a `(0, ±2m, 0)` field does not vanish: `k₀ = k₂ = 0` and `k₁ ≠ 0` -/
theorem two_exp_support (c : Cfg ℂ) (hD : c.D = 3) (m : ℕ) (hm0 : 0 < m) (hm : 2 * m < c.N) (α β : ℂ)
    (u : Array ℂ)
    (hu : ∀ j < c.N ^ c.D, u.getD j 0 = α * zeta c.N ^ (-(phaseK c.D c.N [0, 2 * (m : ℤ), 0] j))
      + β * zeta c.N ^ (phaseK c.D c.N [0, 2 * (m : ℤ), 0] j))
    (h : ℕ) (hh : h < modes c) (hne : (nfft c u).getD h 0 ≠ 0) :
    kInt c 0 h = 0 ∧ kInt c 2 h = 0 ∧ kInt c 1 h ≠ 0 := by
  have hN : 0 < c.N := by omega
  rw [Alias.nfft_getD c u h hh, rfftnM_two_exp c.D c.N hN _ α β u hu h hh] at hne
  have key : (∀ d < c.D, (c.N : ℤ) ∣ (wnFlat c.D c.N h).getD d 0 - ([0, 2 * (m : ℤ), 0] : List ℤ).getD d 0) ∨
      (∀ d < c.D, (c.N : ℤ) ∣ (wnFlat c.D c.N h).getD d 0 + ([0, 2 * (m : ℤ), 0] : List ℤ).getD d 0) := by
    by_contra hcon
    rw [not_or] at hcon
    rw [if_neg hcon.1, if_neg hcon.2] at hne
    simp at hne
  have hb : ∀ d < c.D, 2 * |kInt c d h| ≤ (c.N : ℤ) := fun d hd =>
    wnFlat_getD_abs_le c.D c.N h (by omega) hN hh d hd
  have zero_of_dvd : ∀ d < c.D, (c.N : ℤ) ∣ kInt c d h → kInt c d h = 0 := by
    intro d hd hdv
    have := hb d hd
    exact eq_zero_of_dvd_of_abs_lt c.N _ hdv (by omega)
  have h1ne : ∀ e : ℤ, (e = 2 * (m : ℤ) ∨ e = -(2 * (m : ℤ))) → (c.N : ℤ) ∣ kInt c 1 h + e → kInt c 1 h ≠ 0 := by
    intro e he hdv h0
    rw [h0, zero_add] at hdv
    have habs : |e| < (c.N : ℤ) := by
      rcases he with rfl | rfl
      · rw [abs_of_nonneg (by positivity)]; omega
      · rw [abs_neg, abs_of_nonneg (by positivity)]; omega
    have := eq_zero_of_dvd_of_abs_lt c.N e hdv habs
    rcases he with rfl | rfl <;> omega
  rcases key with hk | hk
  · have d0 := hk 0 (by omega)
    have d1 := hk 1 (by omega)
    have d2 := hk 2 (by omega)
    simp only [List.getD_cons_zero, List.getD_cons_succ, sub_zero] at d0 d1 d2
    refine ⟨zero_of_dvd 0 (by omega) d0, zero_of_dvd 2 (by omega) d2, ?_⟩
    have e : kInt c 1 h + -(2 * (m : ℤ)) = (wnFlat c.D c.N h).getD 1 0 - 2 * (m : ℤ) := by
      unfold kInt; ring
    exact h1ne (-(2 * (m : ℤ))) (Or.inr rfl) (by rw [e]; exact d1)
  · have d0 := hk 0 (by omega)
    have d1 := hk 1 (by omega)
    have d2 := hk 2 (by omega)
    simp only [List.getD_cons_zero, List.getD_cons_succ, add_zero] at d0 d1 d2
    exact ⟨zero_of_dvd 0 (by omega) d0, zero_of_dvd 2 (by omega) d2, h1ne (2 * (m : ℤ)) (Or.inl rfl) d1⟩

/-! ### T4: the Leray projection removes an `x₁`-only channel-1 field -/

theorem leray_kills (c : Cfg ℂ) (hD : c.D = 3) (s : ℝ) (hs : c.s = (s : ℂ)) (hs0 : s ≠ 0) (wh : MC ℂ)
    (h02 : ∀ h, h < modes c → at2 wh 0 h = 0 ∧ at2 wh 2 h = 0)
    (h1 : ∀ h, h < modes c → at2 wh 1 h ≠ 0 → kInt c 0 h = 0 ∧ kInt c 2 h = 0 ∧ kInt c 1 h ≠ 0)
    (i h : ℕ) (hi : i < 3) (hh : h < modes c) : at2 (leray c wh) i h = 0 := by
  rw [Nonlin.at2_leray c wh i h (by omega) hh, Nonlin.specDiv_eq_sum, hD]
  simp only [Finset.sum_range_succ, Finset.sum_range_zero, zero_add]
  rw [(h02 h hh).1, (h02 h hh).2, mul_zero, mul_zero, zero_add, add_zero]
  by_cases hw : at2 wh 1 h = 0
  · rw [hw, mul_zero, mul_zero, mul_zero, add_zero]
    interval_cases i
    · exact (h02 h hh).1
    · exact hw
    · exact (h02 h hh).2
  · obtain ⟨k0, k2, k1⟩ := h1 h hh hw
    have d0 : deriv c 0 h = 0 := Nonlin.deriv_eq_zero_of_k c 0 h k0
    have d2 : deriv c 2 h = 0 := Nonlin.deriv_eq_zero_of_k c 2 h k2
    have d1 : deriv c 1 h ≠ 0 := by
      rw [Nonlin.deriv_eq, hs]
      refine mul_ne_zero Complex.I_ne_zero (mul_ne_zero ?_ ?_)
      · exact_mod_cast hs0
      · exact_mod_cast k1
    have hl : laplace c 2 h = deriv c 1 h ^ 2 := by
      rw [Nonlin.laplace_two_eq_sum, hD]
      simp only [Finset.sum_range_succ, Finset.sum_range_zero, zero_add, d0, d2]
      ring
    have hl0 : laplace c 2 h ≠ 0 := by rw [hl]; exact pow_ne_zero 2 d1
    rw [Nonlin.invLapZero_eq, if_neg hl0, hl]
    interval_cases i
    · rw [(h02 h hh).1, d0]; ring
    · field_simp; ring
    · rw [(h02 h hh).2, d2]; ring

end Exponax.Laminar3D
