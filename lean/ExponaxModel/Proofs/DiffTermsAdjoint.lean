import ExponaxModel.Proofs.DiffTermsSteps
import ExponaxModel.Proofs.C2RProjection
/-
C07 support — T4: transposes (adjoints w.r.t. the grid inner product `⟪f, g⟫ = Σ_j f_j g_j`) of the ℝ-linear pieces.

Every ℝ-linear piece of the model between the transforms is a FOURIER MULTIPLIER on real grid functions

    multOp c σ f = Re irfftn (σ ⊙ rfftn f)          (`σ : ℕ → ℂ` an arbitrary array over the stored modes)

and the single fact behind reverse mode is (`multOp_adjoint`, from `Conserve.real_inner_irfftn`):

    ⟪g, multOp c σ f⟫ = ⟪multOp c (conj σ) g, f⟫      for ALL real `f g`, ALL `σ`, every `D`, every `N ≥ 1`.

NOTE (stronger than requested).  No Nyquist-free / odd-`N` / Hermitian-consistency hypothesis is needed: the model's
`irfftnM` takes real parts with the half-spectrum weights, and with THAT definition the identity is exact for every stored
array `σ`.  Consequences, all for the model's own definitions:
  * `derivativeM_adjoint`   : `(∂_d^m)ᵀ = (−1)^m ∂_d^m`  (real `2π/L`), in particular `∂_dᵀ = −∂_d`;
  * `dealias_self_adjoint`  : the dealiasing projection `nifft ∘ nfft` is self-adjoint;
  * `linearStep_adjoint`    : the linear step with symbol array `E` has transpose the step with `conj E`
                              (whole multi-channel state).
The reverse-mode formula for the convection term is in `DiffTermsAdjointConv`.
-/
set_option linter.unusedVariables false
namespace Exponax.DiffTerms
open Exponax Exponax.Layout Exponax.Transform Exponax.Nonlin Finset

/-- a real grid function as the model's array -/
noncomputable def emb1 (G : ℕ) (f : Fin G → ℝ) : Array ℂ :=
  tab G (fun j => if h : j < G then ((f ⟨j, h⟩ : ℝ) : ℂ) else 0)

theorem emb1_getD (G : ℕ) (f : Fin G → ℝ) (j : Fin G) : (emb1 G f).getD j 0 = ((f j : ℝ) : ℂ) := by
  unfold emb1
  rw [tab_getD _ _ _ _ j.2, dif_pos j.2]

theorem emb1_real (G : ℕ) (f : Fin G → ℝ) (j : ℕ) (hj : j < G) : ((emb1 G f).getD j 0).im = 0 := by
  rw [emb1_getD G f ⟨j, hj⟩, Complex.ofReal_im]

/-- the grid inner product -/
def ip {G : ℕ} (f g : Fin G → ℝ) : ℝ := ∑ j, f j * g j

theorem ip_comm {G : ℕ} (f g : Fin G → ℝ) : ip f g = ip g f := by
  unfold ip; exact Finset.sum_congr rfl (fun j _ => mul_comm _ _)

/-- the Fourier multiplier with symbol array `σ` on real grid functions: `Re irfftn (σ ⊙ rfftn f)` -/
noncomputable def multOp (c : Cfg ℂ) (σ : ℕ → ℂ) (f : Fin (gridSize c) → ℝ) : Fin (gridSize c) → ℝ :=
  fun j => ((irfftnM c.D c.N (tab (modes c) (fun h => σ h * (rfftnM c.D c.N (emb1 (gridSize c) f)).getD h 0))).getD j 0).re

/-- the value of `irfftn` is real, so `multOp` loses nothing -/
theorem multOp_ofReal (c : Cfg ℂ) (hN : 0 < c.N) (σ : ℕ → ℂ) (f : Fin (gridSize c) → ℝ) (j : Fin (gridSize c)) :
    ((multOp c σ f j : ℝ) : ℂ)
      = (irfftnM c.D c.N (tab (modes c) (fun h => σ h * (rfftnM c.D c.N (emb1 (gridSize c) f)).getD h 0))).getD j 0 := by
  apply Complex.ext
  · rw [Complex.ofReal_re]; rfl
  · rw [Complex.ofReal_im, Conserve.irfftnM_real c.D c.N hN _ j j.2]

/-- `⟪g, multOp σ f⟫` as a weighted pairing of the two half spectra -/
theorem ip_multOp (c : Cfg ℂ) (hN : 0 < c.N) (σ : ℕ → ℂ) (f g : Fin (gridSize c) → ℝ) :
    ip g (multOp c σ f)
      = (∑ h ∈ range (modes c), (herm_weight c.D c.N h : ℝ) *
          ((σ h * (rfftnM c.D c.N (emb1 (gridSize c) f)).getD h 0) *
            (starRingEnd ℂ) ((rfftnM c.D c.N (emb1 (gridSize c) g)).getD h 0)).re) / ((gridSize c : ℕ) : ℝ) := by
  have h := Conserve.real_inner_irfftn c.D c.N hN (emb1 (gridSize c) g)
    (tab (modes c) (fun h => σ h * (rfftnM c.D c.N (emb1 (gridSize c) f)).getD h 0))
    (fun j hj => emb1_real _ g j hj)
  apply Complex.ofReal_injective
  have hL : ((ip g (multOp c σ f) : ℝ) : ℂ)
      = ∑ j ∈ range (c.N ^ c.D), (emb1 (gridSize c) g).getD j 0 *
          (irfftnM c.D c.N (tab (modes c) (fun h => σ h * (rfftnM c.D c.N (emb1 (gridSize c) f)).getD h 0))).getD j 0 := by
    unfold ip
    rw [Complex.ofReal_sum]
    rw [Finset.sum_range (fun j => (emb1 (gridSize c) g).getD j 0 *
          (irfftnM c.D c.N (tab (modes c) (fun h => σ h * (rfftnM c.D c.N (emb1 (gridSize c) f)).getD h 0))).getD j 0)]
    refine Finset.sum_congr rfl (fun j _ => ?_)
    rw [Complex.ofReal_mul, multOp_ofReal c hN σ f j, emb1_getD]
  rw [hL, h, Complex.ofReal_div]
  have hS : (∑ h ∈ range (numModes c.D c.N), (herm_weight c.D c.N h : ℝ) *
        ((tab (modes c) (fun h => σ h * (rfftnM c.D c.N (emb1 (gridSize c) f)).getD h 0)).getD h 0 *
          (starRingEnd ℂ) ((rfftnM c.D c.N (emb1 (gridSize c) g)).getD h 0)).re)
      = ∑ h ∈ range (modes c), (herm_weight c.D c.N h : ℝ) *
          ((σ h * (rfftnM c.D c.N (emb1 (gridSize c) f)).getD h 0) *
            (starRingEnd ℂ) ((rfftnM c.D c.N (emb1 (gridSize c) g)).getD h 0)).re :=
    Finset.sum_congr rfl (fun m hm => by rw [tab_getD _ _ _ _ (Finset.mem_range.mp hm)])
  rw [hS]
  rfl

/-- **T4, the core.**  The transpose of the Fourier multiplier `σ` is the multiplier `conj σ` — for every stored
    array `σ`, all real grid functions, every `D`, every `N ≥ 1` (even `N` included) -/
theorem multOp_adjoint (c : Cfg ℂ) (hN : 0 < c.N) (σ : ℕ → ℂ) (f g : Fin (gridSize c) → ℝ) :
    ip g (multOp c σ f) = ip (multOp c (fun h => (starRingEnd ℂ) (σ h)) g) f := by
  rw [ip_comm (multOp c _ g) f, ip_multOp c hN σ f g, ip_multOp c hN _ g f]
  congr 1
  refine Finset.sum_congr rfl (fun h _ => ?_)
  congr 1
  rw [← Complex.conj_re]
  congr 1
  simp only [map_mul, Complex.conj_conj]
  ring

/-! ### linearity of `multOp` in the symbol and in the function -/

/-- explicit formula -/
theorem multOp_formula (c : Cfg ℂ) (hN : 0 < c.N) (σ : ℕ → ℂ) (f : Fin (gridSize c) → ℝ) (j : Fin (gridSize c)) :
    multOp c σ f j
      = (∑ h ∈ range (modes c), (herm_weight c.D c.N h : ℝ) *
          (σ h * (rfftnM c.D c.N (emb1 (gridSize c) f)).getD h 0 *
            twiddle c.N (-(phaseK c.D c.N (wnFlat c.D c.N h) j))).re) / ((c.N ^ c.D : ℕ) : ℝ) := by
  apply Complex.ofReal_injective
  rw [multOp_ofReal c hN, DFT.irfftnM_getD c.D c.N hN _ j j.2]
  push_cast
  congr 1
  refine Finset.sum_congr rfl (fun h hh => ?_)
  rw [tab_getD _ _ _ _ (Finset.mem_range.mp hh)]

/-- a real factor in the symbol comes out -/
theorem multOp_smul_symbol (c : Cfg ℂ) (hN : 0 < c.N) (a : ℝ) (σ : ℕ → ℂ) (f : Fin (gridSize c) → ℝ)
    (j : Fin (gridSize c)) : multOp c (fun h => (a : ℂ) * σ h) f j = a * multOp c σ f j := by
  rw [multOp_formula c hN, multOp_formula c hN, ← mul_div_assoc, Finset.mul_sum]
  congr 1
  refine Finset.sum_congr rfl (fun h _ => ?_)
  rw [mul_assoc (a : ℂ), mul_assoc (a : ℂ), Complex.re_ofReal_mul]
  ring

theorem multOp_neg_symbol (c : Cfg ℂ) (hN : 0 < c.N) (σ : ℕ → ℂ) (f : Fin (gridSize c) → ℝ)
    (j : Fin (gridSize c)) : multOp c (fun h => -σ h) f j = -multOp c σ f j := by
  have := multOp_smul_symbol c hN (-1) σ f j
  simpa using this

/-- symbols only matter on the stored modes -/
theorem multOp_congr (c : Cfg ℂ) (σ τ : ℕ → ℂ) (h : ∀ m, m < modes c → σ m = τ m) (f : Fin (gridSize c) → ℝ) :
    multOp c σ f = multOp c τ f := by
  funext j
  unfold multOp
  have : tab (modes c) (fun h => σ h * (rfftnM c.D c.N (emb1 (gridSize c) f)).getD h 0)
      = tab (modes c) (fun h => τ h * (rfftnM c.D c.N (emb1 (gridSize c) f)).getD h 0) :=
    NonlinFunsEq.tab_congr' (fun m hm => by rw [h m hm])
  rw [this]

/-! ### the model's pieces are multipliers -/

/-- conjugating the derivative symbol (real `2π/L`): `conj (i s k) = −(i s k)` -/
theorem conj_deriv (c : Cfg ℂ) (s : ℝ) (hs : c.s = (s : ℂ)) (d h : ℕ) :
    (starRingEnd ℂ) (Nonlin.deriv c d h) = -Nonlin.deriv c d h := by
  unfold Nonlin.deriv
  rw [hs]
  simp only [hasI_complex, map_mul, Complex.conj_I, Complex.conj_ofReal]
  have : (starRingEnd ℂ) ((IntCast.intCast ((wnFlat c.D c.N h).getD d 0) : ℂ)) = (IntCast.intCast ((wnFlat c.D c.N h).getD d 0) : ℂ) :=
    map_intCast (starRingEnd ℂ) _
  rw [this]
  ring

theorem conj_mask' (c : Cfg ℂ) (h : ℕ) : (starRingEnd ℂ) (mask c h) = mask c h := by
  rcases Conserve.mask_zero_or_one c h with h1 | h0
  · rw [h1, map_one]
  · rw [h0, map_zero]

/-- `derivative(u, L, order)` of the model on a real grid function -/
noncomputable def derivOp (c : Cfg ℂ) (order d : ℕ) (f : Fin (gridSize c) → ℝ) : Fin (gridSize c) → ℝ :=
  fun j => ((derivativeM c order d (emb1 (gridSize c) f)).getD j 0).re

theorem derivOp_eq_multOp (c : Cfg ℂ) (order d : ℕ) (f : Fin (gridSize c) → ℝ) :
    derivOp c order d f = multOp c (fun h => npow (Nonlin.deriv c d h) order) f := rfl

/-- **T4.** `(∂_d^m)ᵀ = (−1)^m ∂_d^m` for the model's `derivativeM`; every `N ≥ 1`, every `D` -/
theorem derivativeM_adjoint (c : Cfg ℂ) (hN : 0 < c.N) (s : ℝ) (hs : c.s = (s : ℂ)) (order d : ℕ)
    (f g : Fin (gridSize c) → ℝ) :
    ip g (derivOp c order d f) = (-1) ^ order * ip (derivOp c order d g) f := by
  rw [derivOp_eq_multOp, derivOp_eq_multOp, multOp_adjoint c hN]
  have e : (fun h => (starRingEnd ℂ) (npow (Nonlin.deriv c d h) order))
      = fun h => (((-1 : ℝ) ^ order : ℝ) : ℂ) * npow (Nonlin.deriv c d h) order := by
    funext h
    rw [npow_eq, map_pow, conj_deriv c s hs, neg_pow]
    push_cast
    ring
  rw [e]
  unfold ip
  rw [Finset.mul_sum]
  refine Finset.sum_congr rfl (fun j _ => ?_)
  rw [multOp_smul_symbol c hN]
  ring

/-- first derivative: `∂_dᵀ = −∂_d` -/
theorem derivativeM_adjoint_one (c : Cfg ℂ) (hN : 0 < c.N) (s : ℝ) (hs : c.s = (s : ℂ)) (d : ℕ)
    (f g : Fin (gridSize c) → ℝ) :
    ip g (derivOp c 1 d f) = -ip (derivOp c 1 d g) f := by
  rw [derivativeM_adjoint c hN s hs 1 d f g]; ring

/-- the dealiasing projection of the model: `nifft ∘ nfft` (mask applied by both) -/
noncomputable def dealiasOp (c : Cfg ℂ) (f : Fin (gridSize c) → ℝ) : Fin (gridSize c) → ℝ :=
  fun j => ((nifft c (nfft c (emb1 (gridSize c) f))).getD j 0).re

theorem dealiasOp_eq_multOp (c : Cfg ℂ) (f : Fin (gridSize c) → ℝ) :
    dealiasOp c f = multOp c (fun h => mask c h * mask c h) f := by
  funext j
  unfold dealiasOp multOp nifft nfft
  have : tab (modes c) (fun h => mask c h *
        (tab (modes c) (fun h => mask c h * (rfftnM c.D c.N (emb1 (gridSize c) f)).getD h 0)).getD h 0)
      = tab (modes c) (fun h => mask c h * mask c h * (rfftnM c.D c.N (emb1 (gridSize c) f)).getD h 0) :=
    NonlinFunsEq.tab_congr' (fun m hm => by rw [tab_getD _ _ _ _ hm, mul_assoc])
  simp only []
  rw [this]

/-- **T4.** the dealiasing projection is self-adjoint -/
theorem dealias_self_adjoint (c : Cfg ℂ) (hN : 0 < c.N) (f g : Fin (gridSize c) → ℝ) :
    ip g (dealiasOp c f) = ip (dealiasOp c g) f := by
  rw [dealiasOp_eq_multOp, dealiasOp_eq_multOp, multOp_adjoint c hN]
  congr 1
  exact multOp_congr c _ _ (fun m _ => by rw [map_mul, conj_mask']) g

/-! ### the linear step, whole multi-channel state -/

/-- the inner product of multi-channel grid states -/
def ipP {C G : ℕ} (u v : Phys C G) : ℝ := ∑ ch, ip (u ch) (v ch)

/-- a row of the embedded state is the embedded row -/
theorem rfftnM_embP_row (c : Cfg ℂ) (C : ℕ) (u : Phys C (gridSize c)) (ch : Fin C) :
    rfftnM c.D c.N ((embP C (gridSize c) u).getD ch #[]) = rfftnM c.D c.N (emb1 (gridSize c) (u ch)) := by
  apply NonlinFunsEq.rfftnM_congr
  intro j hj
  have hj' : j < gridSize c := hj
  unfold embP Nonlin.tab2
  rw [tab_getD _ _ _ _ ch.2, tab_getD _ _ _ _ hj', emb1_getD (gridSize c) (u ch) ⟨j, hj'⟩]
  exact dif_pos ⟨ch.2, hj'⟩

theorem at2_fftC_embP (c : Cfg ℂ) (C : ℕ) (u : Phys C (gridSize c)) (ch : Fin C) (h : ℕ) :
    at2 (fftC c C (embP C (gridSize c) u)) ch h = (rfftnM c.D c.N (emb1 (gridSize c) (u ch))).getD h 0 := by
  unfold at2 fftC Nonlin.tabC
  rw [tab_getD _ _ _ _ ch.2, rfftnM_embP_row]

/-- the physical-space linear step is, channel by channel, the multiplier with symbol `E ch` -/
theorem linearStep_phys_eq_multOp (c : Cfg ℂ) (C : ℕ) (E : ℕ → ℕ → ℂ) (u : Phys C (gridSize c)) (ch : Fin C) :
    physMap c C C (linearStepTerm c C E) u ch = multOp c (E ch) (u ch) := by
  funext j
  have e1 : (linearStepTerm c C E (fftC c C (embP C (gridSize c) u))).getD ch #[]
      = tab (modes c) (fun h => E ch h * (rfftnM c.D c.N (emb1 (gridSize c) (u ch))).getD h 0) := by
    unfold linearStepTerm
    rw [NonlinFunsEq.tab2_getD _ _ _ _ ch.2]
    exact NonlinFunsEq.tab_congr' (fun m hm => by rw [at2_fftC_embP]; rfl)
  have e2 : at2 (ifftC c C (linearStepTerm c C E (fftC c C (embP C (gridSize c) u)))) ch j
      = (irfftnM c.D c.N ((linearStepTerm c C E (fftC c C (embP C (gridSize c) u))).getD ch #[])).getD j 0 := by
    unfold at2 ifftC
    rw [NonlinFunsEq.tabC_getD _ _ _ ch.2]
  show (at2 (ifftC c C (linearStepTerm c C E (fftC c C (embP C (gridSize c) u)))) ch j).re = _
  rw [e2, e1]
  rfl

/-- **T4.** the transpose of the linear step with symbol array `E` is the linear step with `conj E` (whole state,
    every `D`, `N ≥ 1`, `C`; no Hermitian-consistency assumption on `E` is needed for THIS identity) -/
theorem linearStep_adjoint (c : Cfg ℂ) (hN : 0 < c.N) (C : ℕ) (E : ℕ → ℕ → ℂ) (u w : Phys C (gridSize c)) :
    ipP w (physMap c C C (linearStepTerm c C E) u)
      = ipP (physMap c C C (linearStepTerm c C (fun ch h => (starRingEnd ℂ) (E ch h))) w) u := by
  unfold ipP
  refine Finset.sum_congr rfl (fun ch _ => ?_)
  rw [linearStep_phys_eq_multOp, linearStep_phys_eq_multOp, multOp_adjoint c hN]

/-- reverse mode through the linear stepper: `⟪w, DS(u) v⟫ = ⟪S_{conj E} w, v⟫` -/
theorem linearStep_vjp (c : Cfg ℂ) (hN : 0 < c.N) (C : ℕ) (E : ℕ → ℕ → ℂ) (u v w : Phys C (gridSize c)) :
    ipP w (fderiv ℝ (physMap c C C (linearStepTerm c C E)) u v)
      = ipP (physMap c C C (linearStepTerm c C (fun ch h => (starRingEnd ℂ) (E ch h))) w) v := by
  rw [linearStep_phys_fderiv, linearStep_adjoint c hN]

end Exponax.DiffTerms
