import ExponaxModel.Proofs.LoopsLemmas
/-
C06 — "mapping a rollout equals rolling out the mapped stepper with batch and time axes
exchanged".  Pure list lemmas about `Loops.rollout` / `Loops.repeatN` for an arbitrary state
type `S`.  A batch of states is a `List S`; the batched (`vmap`-ped) stepper is `List.map f`.
Nothing here restates a model definition.
-/
namespace Exponax.Loops

variable {S P : Type}

/-! ### iterating a mapped stepper -/

/-- `(vmap f)^k = vmap (f^k)` -/
theorem iterate_map (f : S → S) (k : ℕ) (us : List S) :
    (List.map f)^[k] us = us.map (f^[k]) := by
  induction k generalizing us with
  | zero => simp
  | succ k ih =>
    rw [Function.iterate_succ_apply, ih, List.map_map]
    apply List.map_congr_left
    intro u _
    rw [Function.comp_apply, Function.iterate_succ_apply]

/-- **B1 (`repeat`).** `repeat(vmap f, n) = vmap (repeat(f, n))` -/
theorem repeatN_map (f : S → S) (n : ℕ) (us : List S) :
    repeatN (List.map f) n us = us.map (repeatN f n) := by
  rw [repeatN_eq_iterate, iterate_map]
  apply List.map_congr_left
  intro u _
  rw [repeatN_eq_iterate]

/-! ### closed form of `rollout` for both values of `include_init` -/

/-- number of time entries of a rollout -/
def trjLen (n : ℕ) (incl : Bool) : ℕ := if incl then n + 1 else n

/-- number of applications of the stepper in entry `t` of a rollout -/
def trjPow (incl : Bool) (t : ℕ) : ℕ := if incl then t else t + 1

theorem rollout_eq_map (f : S → S) (n : ℕ) (incl : Bool) (u0 : S) :
    rollout f n incl u0 = (List.range (trjLen n incl)).map (fun t => f^[trjPow incl t] u0) := by
  cases incl
  · simpa [trjLen, trjPow] using rollout_false f n u0
  · simpa [trjLen, trjPow] using rollout_true f n u0

theorem rollout_length' (f : S → S) (n : ℕ) (incl : Bool) (u0 : S) :
    (rollout f n incl u0).length = trjLen n incl := by
  rw [rollout_eq_map]; simp

/-- entry `t` of a rollout (every `t`; `none` beyond the end) -/
theorem rollout_getElem?' (f : S → S) (n : ℕ) (incl : Bool) (u0 : S) (t : ℕ) :
    (rollout f n incl u0)[t]? = if t < trjLen n incl then some (f^[trjPow incl t] u0) else none := by
  rw [rollout_eq_map]
  split_ifs with h
  · simp [h]
  · simp [Nat.le_of_not_lt h]

/-! ### B1 — the batched rollout is the transpose of the list of rollouts -/

/-- **B1 (lengths).** the batched rollout has `n` (`n+1` with the initial state) time entries … -/
theorem rollout_map_length (f : S → S) (n : ℕ) (incl : Bool) (us : List S) :
    (rollout (List.map f) n incl us).length = trjLen n incl :=
  rollout_length' _ n incl us

/-- … each of which is a batch of the same size as `us` -/
theorem rollout_map_entry_length (f : S → S) (n : ℕ) (incl : Bool) (us : List S) (x : List S)
    (hx : x ∈ rollout (List.map f) n incl us) : x.length = us.length := by
  rw [rollout_eq_map, List.mem_map] at hx
  obtain ⟨t, _, rfl⟩ := hx
  rw [iterate_map, List.length_map]

/-- the list of per-member rollouts has one row per batch member, each with `n` (`n+1`) entries -/
theorem map_rollout_length (f : S → S) (n : ℕ) (incl : Bool) (us : List S) :
    (us.map (rollout f n incl)).length = us.length := List.length_map _

theorem map_rollout_entry_length (f : S → S) (n : ℕ) (incl : Bool) (us : List S) (x : List S)
    (hx : x ∈ us.map (rollout f n incl)) : x.length = trjLen n incl := by
  rw [List.mem_map] at hx
  obtain ⟨u, _, rfl⟩ := hx
  exact rollout_length' f n incl u

/-- time entry `t` of the batched rollout is the batch of the `t`-th iterates -/
theorem rollout_map_getElem? (f : S → S) (n : ℕ) (incl : Bool) (us : List S) (t : ℕ) :
    (rollout (List.map f) n incl us)[t]?
      = if t < trjLen n incl then some (us.map (f^[trjPow incl t])) else none := by
  rw [rollout_getElem?', iterate_map]

/-- entry `(t, b)` of the batched rollout (every `t`, every `b`) -/
theorem rollout_map_entry (f : S → S) (n : ℕ) (incl : Bool) (us : List S) (t b : ℕ) :
    ((rollout (List.map f) n incl us)[t]?).bind (fun x => x[b]?)
      = if t < trjLen n incl then (us[b]?).map (f^[trjPow incl t]) else none := by
  rw [rollout_map_getElem?]
  split_ifs with h
  · simp
  · rfl

/-- entry `(b, t)` of the list of per-member rollouts (every `t`, every `b`) -/
theorem map_rollout_entry (f : S → S) (n : ℕ) (incl : Bool) (us : List S) (t b : ℕ) :
    ((us.map (rollout f n incl))[b]?).bind (fun x => x[t]?)
      = if t < trjLen n incl then (us[b]?).map (f^[trjPow incl t]) else none := by
  rw [List.getElem?_map]
  cases hb : us[b]? with
  | none => simp
  | some u =>
    simp only [Option.map_some, Option.bind_some]
    rw [rollout_getElem?']

/-- **B1 (transposition).** For EVERY time index `t` and batch index `b` (in or out of range),
    entry `[t][b]` of `rollout (vmap f)` is entry `[b][t]` of `vmap (rollout f)`. -/
theorem rollout_map_transpose (f : S → S) (n : ℕ) (incl : Bool) (us : List S) (t b : ℕ) :
    ((rollout (List.map f) n incl us)[t]?).bind (fun x => x[b]?)
      = ((us.map (rollout f n incl))[b]?).bind (fun x => x[t]?) := by
  rw [rollout_map_entry, map_rollout_entry]

/-- **B1 (transposition, `getD` form).** the same with default values instead of options -/
theorem rollout_map_transpose_getD (f : S → S) (n : ℕ) (incl : Bool) (us : List S) (t b : ℕ)
    (d : S) :
    ((rollout (List.map f) n incl us).getD t []).getD b d
      = ((us.map (rollout f n incl)).getD b []).getD t d := by
  have h := rollout_map_transpose f n incl us t b
  simp only [List.getD_eq_getElem?_getD]
  cases h1 : (rollout (List.map f) n incl us)[t]? with
  | none =>
    rw [h1] at h
    cases h2 : (us.map (rollout f n incl))[b]? with
    | none => simp
    | some y =>
      rw [h2] at h
      simp only [Option.bind_none, Option.bind_some] at h
      simp [← h]
  | some x =>
    rw [h1] at h
    cases h2 : (us.map (rollout f n incl))[b]? with
    | none =>
      rw [h2] at h
      simp only [Option.bind_none, Option.bind_some] at h
      simp [h]
    | some y =>
      rw [h2] at h
      simp only [Option.bind_some] at h
      simp [h]

/-- **B1 (transposition, dependent-index form).** in-range indices, `getElem` -/
theorem rollout_map_transpose_getElem (f : S → S) (n : ℕ) (incl : Bool) (us : List S) (t b : ℕ)
    (ht : t < (rollout (List.map f) n incl us).length)
    (hb : b < ((rollout (List.map f) n incl us)[t]).length)
    (hb' : b < (us.map (rollout f n incl)).length)
    (ht' : t < ((us.map (rollout f n incl))[b]).length) :
    ((rollout (List.map f) n incl us)[t])[b] = ((us.map (rollout f n incl))[b])[t] := by
  have h := rollout_map_transpose f n incl us t b
  rw [List.getElem?_eq_getElem ht, List.getElem?_eq_getElem hb'] at h
  simp only [Option.bind_some] at h
  rw [List.getElem?_eq_getElem hb, List.getElem?_eq_getElem ht'] at h
  exact Option.some.inj h

/-- value form: entry `[t][b]` of the batched rollout is the `t`-th (`t+1`-st) iterate of
    member `b` -/
theorem rollout_map_value (f : S → S) (n : ℕ) (incl : Bool) (us : List S) (t b : ℕ)
    (ht : t < trjLen n incl) (hb : b < us.length) :
    ((rollout (List.map f) n incl us)[t]?).bind (fun x => x[b]?)
      = some (f^[trjPow incl t] us[b]) := by
  rw [rollout_map_entry, if_pos ht, List.getElem?_eq_getElem hb]
  rfl

/-! ### B2 — batch independence -/

/-- entry `b` of the batched step depends only on `us[b]` -/
theorem map_getElem?_congr (f : S → S) (us vs : List S) (b : ℕ) (h : us[b]? = vs[b]?) :
    (us.map f)[b]? = (vs.map f)[b]? := by
  rw [List.getElem?_map, List.getElem?_map, h]

/-- **B2.** row `b` of the batched rollout depends only on member `b` of the batch: two batches
    (of possibly different sizes) that agree at index `b` have the same row `b` at every time -/
theorem rollout_map_row_congr (f : S → S) (n : ℕ) (incl : Bool) (us vs : List S) (b : ℕ)
    (h : us[b]? = vs[b]?) (t : ℕ) :
    ((rollout (List.map f) n incl us)[t]?).bind (fun x => x[b]?)
      = ((rollout (List.map f) n incl vs)[t]?).bind (fun x => x[b]?) := by
  rw [rollout_map_entry, rollout_map_entry, h]

/-- **B2 (overwrite form).** changing the batch at an index `b' ≠ b` does not change row `b` -/
theorem rollout_map_row_set (f : S → S) (n : ℕ) (incl : Bool) (us : List S) (b b' : ℕ)
    (hb : b' ≠ b) (x : S) (t : ℕ) :
    ((rollout (List.map f) n incl (us.set b' x))[t]?).bind (fun y => y[b]?)
      = ((rollout (List.map f) n incl us)[t]?).bind (fun y => y[b]?) := by
  apply rollout_map_row_congr
  rw [List.getElem?_set_ne hb]

/-- **B2 (`repeat`).** the same for `repeat(vmap f, n)` -/
theorem repeatN_map_row_congr (f : S → S) (n : ℕ) (us vs : List S) (b : ℕ)
    (h : us[b]? = vs[b]?) :
    (repeatN (List.map f) n us)[b]? = (repeatN (List.map f) n vs)[b]? := by
  rw [repeatN_map, repeatN_map]
  exact map_getElem?_congr _ us vs b h

/-- the batched rollout of a singleton batch is the rollout of its member, entry by entry -/
theorem rollout_map_singleton (f : S → S) (n : ℕ) (incl : Bool) (u : S) :
    rollout (List.map f) n incl [u] = (rollout f n incl u).map (fun x => [x]) := by
  rw [rollout_eq_map, rollout_eq_map, List.map_map]
  apply List.map_congr_left
  intro t _
  rw [iterate_map]
  rfl

/-! ### B3 — constructor sweep (a family of steppers `mk : P → S → S`) -/

/-- **B3.** applying the list of constructed steppers member-wise is applying `mk p` to the
    member paired with `p` -/
theorem zipWith_map_mk (mk : P → S → S) (ps : List P) (us : List S) :
    List.zipWith (fun f u => f u) (ps.map mk) us = List.zipWith (fun p u => mk p u) ps us := by
  rw [List.zipWith_map_left]

/-- entry `b` of the swept step -/
theorem zipWith_mk_getElem? (mk : P → S → S) (ps : List P) (us : List S) (b : ℕ) :
    (List.zipWith (fun f u => f u) (ps.map mk) us)[b]?
      = (ps[b]?).bind (fun p => (us[b]?).map (mk p)) := by
  rw [zipWith_map_mk, List.getElem?_zipWith]
  cases ps[b]? <;> cases us[b]? <;> rfl

/-- iterating the swept step (at least as many parameters as states) -/
theorem iterate_zipWith_mk (mk : P → S → S) (ps : List P) (k : ℕ) (us : List S)
    (hlen : us.length ≤ ps.length) :
    (List.zipWith (fun f u => f u) (ps.map mk))^[k] us
      = List.zipWith (fun p u => (mk p)^[k] u) ps us := by
  induction k generalizing us with
  | zero =>
    simp only [Function.iterate_zero, id_eq]
    apply List.ext_getElem?
    intro i
    rw [List.getElem?_zipWith]
    rcases Nat.lt_or_ge i us.length with hi | hi
    · rw [List.getElem?_eq_getElem hi, List.getElem?_eq_getElem (Nat.lt_of_lt_of_le hi hlen)]
    · rw [List.getElem?_eq_none hi]
      cases ps[i]? <;> rfl
  | succ k ih =>
    rw [Function.iterate_succ_apply, ih _ (by
      rw [zipWith_map_mk, List.length_zipWith]; omega), zipWith_map_mk]
    apply List.ext_getElem?
    intro i
    simp only [List.getElem?_zipWith]
    cases ps[i]? <;> cases us[i]? <;> simp [Function.iterate_succ_apply]

/-- **B3 (rollout of a sweep).** entry `[t][b]` of the rollout of the swept stepper is the
    rollout of the stepper `mk ps[b]` on `us[b]` at time `t` -/
theorem rollout_sweep_entry (mk : P → S → S) (ps : List P) (n : ℕ) (incl : Bool) (us : List S)
    (hlen : us.length ≤ ps.length) (t b : ℕ) :
    ((rollout (List.zipWith (fun f u => f u) (ps.map mk)) n incl us)[t]?).bind (fun x => x[b]?)
      = (ps[b]?).bind (fun p => (us[b]?).bind (fun u => (rollout (mk p) n incl u)[t]?)) := by
  rw [rollout_getElem?', iterate_zipWith_mk mk ps _ us hlen]
  split_ifs with h
  · simp only [Option.bind_some, List.getElem?_zipWith]
    cases ps[b]? with
    | none => rfl
    | some p =>
      cases us[b]? with
      | none => rfl
      | some u => simp [rollout_getElem?', h]
  · cases ps[b]? with
    | none => rfl
    | some p =>
      cases us[b]? with
      | none => rfl
      | some u => simp [rollout_getElem?', h]

end Exponax.Loops
