import ExponaxModel.Proofs.LinearTestOrderNonlinear3
/-
C02 support — preparation for the nonlinear order-4 theorem of ETDRK4 (T8): fourth-order variation of constants,
third-order Taylor lemma, the φ-identities and φ-difference bounds used by the ETDRK4 proof, and the constants.
-/
set_option linter.unusedVariables false
noncomputable section
namespace Exponax.LinearOrder
open Exponax Exponax.Spec Exponax.ContourTail Exponax.Gen.Etdrk intervalIntegral MeasureTheory

/-- order 4, written out (`phi1e, phi2e, phi3e`, `phiE 4`) -/
theorem etd_defect4 (c : ℂ) (ω G : ℝ) (y f : ℝ → ℂ) (a b : ℝ) (hab : a ≤ b) (hω : 0 ≤ ω)
    (hc : c.re ≤ ω)
    (hy : ∀ s ∈ Set.Icc a b, HasDerivAt y (c * y s + f s) s) (hf : ContinuousOn f (Set.Icc a b))
    (d1 d2 d3 : ℂ)
    (hTay : ∀ s ∈ Set.Icc a b,
      ‖f s - f a - ((s - a : ℝ) : ℂ) * d1 - ((s - a : ℝ) : ℂ) ^ 2 / 2 * d2
        - ((s - a : ℝ) : ℂ) ^ 3 / 6 * d3‖ ≤ G * (s - a) ^ 4 / 24) :
    ‖y b - (Complex.exp (c * ((b - a : ℝ) : ℂ)) * y a
        + ((b - a : ℝ) : ℂ) * phi1e (c * ((b - a : ℝ) : ℂ)) * f a
        + ((b - a : ℝ) : ℂ) ^ 2 * phi2e (c * ((b - a : ℝ) : ℂ)) * d1
        + ((b - a : ℝ) : ℂ) ^ 3 * phi3e (c * ((b - a : ℝ) : ℂ)) * d2
        + ((b - a : ℝ) : ℂ) ^ 4 * phiE 4 (c * ((b - a : ℝ) : ℂ)) * d3)‖
      ≤ Real.exp (ω * (b - a)) * G * (b - a) ^ 5 / 120 := by
  have h := etd_defect_gen 4 c ω G y f a b hab hω hc hy hf
    (fun j => if j = 0 then f a else if j = 1 then d1 else if j = 2 then d2 else d3)
    (fun s hs => by
      have := hTay s hs
      generalize ((s - a : ℝ) : ℂ) = σ at this ⊢
      simp only [Finset.sum_range_succ, Finset.sum_range_zero, Nat.factorial, if_true, if_false,
        one_ne_zero, OfNat.ofNat_ne_zero, OfNat.ofNat_ne_one, Nat.cast_one, Nat.cast_ofNat,
        pow_zero, pow_one, div_one, one_mul, mul_one, zero_add, Nat.succ_eq_add_one, Nat.reduceAdd,
        Nat.reduceMul, Nat.reduceEqDiff]
      refine le_trans (le_of_eq ?_) (this.trans (le_of_eq ?_))
      · congr 1; ring
      · norm_num)
  generalize ((b - a : ℝ) : ℂ) = hh at h ⊢
  simp only [Finset.sum_range_succ, Finset.sum_range_zero, Nat.factorial, if_true, if_false,
    one_ne_zero, OfNat.ofNat_ne_zero, OfNat.ofNat_ne_one, zero_add, Nat.succ_eq_add_one, Nat.reduceAdd,
    Nat.reduceMul, Nat.cast_ofNat, phiE_one, phiE_two, phiE_three, pow_one, Nat.reduceEqDiff] at h
  refine le_trans (le_of_eq ?_) (h.trans (le_of_eq ?_))
  · congr 1; ring
  · norm_num

theorem real_int_cube (a b : ℝ) : ∫ s in a..b, (s - a) ^ 3 / 6 = (b - a) ^ 4 / 24 := by
  have h := real_int_pow_fact 3 a b
  have e6 : ((Nat.factorial 3 : ℕ) : ℝ) = 6 := by norm_num [Nat.factorial]
  have e24 : ((Nat.factorial (3 + 1) : ℕ) : ℝ) = 24 := by norm_num [Nat.factorial]
  rw [e6, e24] at h
  exact h

/-- third order: `f' = f₁`, `f₁' = f₂`, `f₂' = f₃`, `f₃` `G`-Lipschitz on `[0,T]` -/
theorem taylor3_of_lipschitz_deriv (f f1 f2 f3 : ℝ → ℂ) (T G : ℝ)
    (hf : ∀ t ∈ Set.Icc (0 : ℝ) T, HasDerivAt f (f1 t) t)
    (hf1 : ∀ t ∈ Set.Icc (0 : ℝ) T, HasDerivAt f1 (f2 t) t)
    (hf2 : ∀ t ∈ Set.Icc (0 : ℝ) T, HasDerivAt f2 (f3 t) t)
    (hG : ∀ x ∈ Set.Icc (0 : ℝ) T, ∀ y ∈ Set.Icc (0 : ℝ) T, ‖f3 x - f3 y‖ ≤ G * |x - y|)
    (t s : ℝ) (ht : 0 ≤ t) (hs : 0 ≤ s) (hts : t + s ≤ T) :
    ‖f (t + s) - f t - (s : ℂ) * f1 t - (s : ℂ) ^ 2 / 2 * f2 t - (s : ℂ) ^ 3 / 6 * f3 t‖
      ≤ G * s ^ 4 / 24 := by
  have hsub : Set.Icc t (t + s) ⊆ Set.Icc (0 : ℝ) T := fun x hx => ⟨ht.trans hx.1, hx.2.trans hts⟩
  have hts' : t ≤ t + s := by linarith
  have hderiv : ∀ x ∈ Set.uIcc t (t + s),
      HasDerivAt (fun x : ℝ => f x - (x : ℂ) * f1 t - ((x : ℂ) - t) ^ 2 / 2 * f2 t
          - ((x : ℂ) - t) ^ 3 / 6 * f3 t)
        (f1 x - f1 t - ((x : ℂ) - t) * f2 t - ((x : ℂ) - t) ^ 2 / 2 * f3 t) x := by
    intro x hx
    rw [Set.uIcc_of_le hts'] at hx
    have h1 := (hasDerivAt_ofReal x).mul_const (f1 t)
    have h2 : HasDerivAt (fun x : ℝ => ((x : ℂ) - t) ^ 2 / 2 * f2 t)
        (((2 : ℕ) : ℂ) * ((x : ℂ) - t) ^ (2 - 1) * 1 / 2 * f2 t) x :=
      ((((hasDerivAt_ofReal x).sub_const (t : ℂ)).pow 2).div_const 2).mul_const (f2 t)
    have h3 : HasDerivAt (fun x : ℝ => ((x : ℂ) - t) ^ 3 / 6 * f3 t)
        (((3 : ℕ) : ℂ) * ((x : ℂ) - t) ^ (3 - 1) * 1 / 6 * f3 t) x :=
      ((((hasDerivAt_ofReal x).sub_const (t : ℂ)).pow 3).div_const 6).mul_const (f3 t)
    have h4 := (((hf x (hsub hx)).sub h1).sub h2).sub h3
    refine h4.congr_deriv ?_
    push_cast
    ring
  have hc1 : ContinuousOn f1 (Set.Icc t (t + s)) := fun x hx =>
    (hf1 x (hsub hx)).continuousAt.continuousWithinAt
  have hint : IntervalIntegrable
      (fun x : ℝ => f1 x - f1 t - ((x : ℂ) - t) * f2 t - ((x : ℂ) - t) ^ 2 / 2 * f3 t) volume t (t + s) := by
    apply ContinuousOn.intervalIntegrable
    rw [Set.uIcc_of_le hts']
    exact ((hc1.sub continuousOn_const).sub (Continuous.continuousOn (by fun_prop))).sub
      (Continuous.continuousOn (by fun_prop))
  have h := integral_eq_sub_of_hasDerivAt hderiv hint
  have heq : f (t + s) - f t - (s : ℂ) * f1 t - (s : ℂ) ^ 2 / 2 * f2 t - (s : ℂ) ^ 3 / 6 * f3 t
      = ∫ x in t..(t + s), (f1 x - f1 t - ((x : ℂ) - t) * f2 t - ((x : ℂ) - t) ^ 2 / 2 * f3 t) := by
    rw [h]; push_cast; ring
  rw [heq]
  have hbound : ∀ x ∈ Set.Ioc t (t + s),
      ‖f1 x - f1 t - ((x : ℂ) - t) * f2 t - ((x : ℂ) - t) ^ 2 / 2 * f3 t‖ ≤ G * ((x - t) ^ 3 / 6) := by
    intro x hx
    have h0 := taylor2_of_lipschitz_deriv f1 f2 f3 T G hf1 hf2 hG t (x - t) ht (by linarith [hx.1])
      (by linarith [hx.2])
    rw [show t + (x - t) = x by ring] at h0
    have e1 : (((x - t : ℝ)) : ℂ) = (x : ℂ) - t := by push_cast; ring
    rw [e1] at h0
    calc _ ≤ G * (x - t) ^ 3 / 6 := h0
      _ = G * ((x - t) ^ 3 / 6) := by ring
  have hg : IntervalIntegrable (fun x : ℝ => G * ((x - t) ^ 3 / 6)) volume t (t + s) :=
    (by fun_prop : Continuous fun x : ℝ => G * ((x - t) ^ 3 / 6)).intervalIntegrable _ _
  refine (norm_integral_le_of_norm_le hts' (Filter.Eventually.of_forall hbound) hg).trans (le_of_eq ?_)
  rw [intervalIntegral.integral_const_mul, real_int_cube]
  ring

/-! ### φ-identities for ETDRK4 -/

/-- `φ₁(z) = φ₁(z/2)(e^{z/2} + 1)/2` -/
theorem phi1e_double (z : ℂ) : phi1e z = phi1e (z / 2) * (Complex.exp (z / 2) + 1) / 2 := by
  rcases eq_or_ne z 0 with rfl | hz
  · simp
  · have hz2 : z / 2 ≠ 0 := div_ne_zero hz (by norm_num)
    rw [phi1e_of_ne z hz, phi1e_of_ne _ hz2, phi1_closed, phi1_closed, ← exp_half_sq z]
    field_simp
    ring

theorem phi1e_sub_one (w : ℂ) : phi1e w - 1 = w * phi2e w := by
  have h := phiE_succ 1 w
  rw [phiE_one, phiE_two] at h
  rw [h]; norm_num [Nat.factorial]

theorem phi_q1_sub_2q2 (w : ℂ) : phi1e w - 2 * phi2e w - w / 6 = w ^ 2 * (phi3e w - 2 * phiE 4 w) := by
  have h1 := phiE_expand 1 2 w
  have h2 := phiE_expand 2 2 w
  rw [phiE_one, phiE_three] at h1
  rw [phiE_two] at h2
  norm_num [Finset.sum_range_succ, Nat.factorial] at h1 h2
  linear_combination h1 - 2 * h2

theorem phi_q1_sub_4q3 (w : ℂ) : phi1e w - 4 * phi3e w - 1 / 3 = w * (phi2e w - 4 * phiE 4 w) := by
  have h1 := phiE_succ 1 w
  have h3 := phiE_succ 3 w
  rw [phiE_one, phiE_two] at h1
  rw [phiE_three] at h3
  norm_num [Nat.factorial] at h1 h3
  linear_combination h1 - 4 * h3

/-- `φ₁(z/2)/2 − φ₂(z) + z/24 = z²(φ₃(z/2)/8 − φ₄(z))` -/
theorem phi_c1 (z : ℂ) :
    phi1e (z / 2) / 2 - phi2e z + z / 24 = z ^ 2 * (phi3e (z / 2) / 8 - phiE 4 z) := by
  have h1 := phiE_expand 1 2 (z / 2)
  have h2 := phiE_expand 2 2 z
  rw [phiE_one, phiE_three] at h1
  rw [phiE_two] at h2
  norm_num [Finset.sum_range_succ, Nat.factorial] at h1 h2
  linear_combination (1 / 2) * h1 - h2

/-- `φ₁(z/2)/8 − φ₃(z) + 1/24 = z(φ₂(z/2)/16 − φ₄(z))` -/
theorem phi_c2 (z : ℂ) :
    phi1e (z / 2) / 8 - phi3e z + 1 / 24 = z * (phi2e (z / 2) / 16 - phiE 4 z) := by
  have h1 := phiE_succ 1 (z / 2)
  have h3 := phiE_succ 3 z
  rw [phiE_one, phiE_two] at h1
  rw [phiE_three] at h3
  norm_num [Nat.factorial] at h1 h3
  linear_combination (1 / 8) * h1 - h3

/-- `β − γ = z(2φ₃ − 6φ₄)` -/
theorem phi_beta_sub_gamma (w : ℂ) :
    (phi2e w - 2 * phi3e w) - (4 * phi3e w - phi2e w) = w * (2 * phi3e w - 6 * phiE 4 w) := by
  have h := phi_gamma_sub_beta w
  linear_combination -h

/-- cubic quadrature defect: `−φ₂/12 + φ₃/2 − φ₄ = z(−φ₃/12 + φ₄/2 − φ₅)` -/
theorem phi_quad4 (w : ℂ) :
    -(phi2e w) / 12 + phi3e w / 2 - phiE 4 w = w * (-(phi3e w) / 12 + phiE 4 w / 2 - phiE 5 w) := by
  have h2 := phiE_succ 2 w
  have h3 := phiE_succ 3 w
  have h4 := phiE_succ 4 w
  rw [phiE_two, phiE_three] at h2
  rw [phiE_three] at h3
  norm_num [Nat.factorial] at h2 h3 h4
  linear_combination (-1 / 12 : ℂ) * h2 + (1 / 2 : ℂ) * h3 - h4

/-! ### constants -/

/-- the data entering the ETDRK4 constants -/
structure NL4 where
  K : ℝ
  M1 : ℝ
  M2 : ℝ
  M3 : ℝ
  G4 : ℝ
  H : ℝ
  HL : ℝ
  Lam : ℝ
  ω : ℝ
  T : ℝ

namespace NL4
def W (c : NL4) : ℝ := Real.exp (c.ω * c.T)
/-- third- and second-order Taylor constants of `f` -/
def G3 (c : NL4) : ℝ := c.M3 + c.G4 * c.T / 4
def G2 (c : NL4) : ℝ := c.M2 + c.G3 * c.T / 3
def EA (c : NL4) : ℝ := c.W * (c.Lam * c.M1 + c.M2) / 48 + c.W * c.G3 * c.T / 384
def Ea2 (c : NL4) : ℝ := c.M1 / 8 + c.EA * c.T
def EB (c : NL4) : ℝ := c.EA + c.Lam * c.W * c.M1 / 16 + c.W * c.G2 / 16 + c.W * c.K * c.Ea2 / 2
def Eb2 (c : NL4) : ℝ := c.M1 / 8 + c.EB * c.T
/-- bound of `P = (λ f₁ + f₂)/48 − L f₁/16` -/
def Pb (c : NL4) : ℝ := (c.Lam * c.M1 + c.M2) / 48 + c.K * c.M1 / 16
def EAB (c : NL4) : ℝ :=
  c.Lam ^ 2 * c.W * c.M1 / 64 + c.Lam * c.W * c.M2 / 48 + c.Lam * c.W * c.K * c.M1 / 64
    + c.W * c.G3 / 192 + c.W / 2 * (c.G3 / 48 + c.K * c.EA + c.H / 2 * c.Ea2 ^ 2 * c.T)
def EC (c : NL4) : ℝ :=
  c.Lam ^ 2 * c.W * c.M1 / 16 + c.Lam * c.W * c.M2 * (7 / 96) + c.Lam * c.W * c.K * c.M1 / 32
    + c.W * (c.G3 / 48 + c.K * c.EB + c.H / 2 * c.Eb2 ^ 2 * c.T) + c.W * c.G3 / 24
def Ec3 (c : NL4) : ℝ := 2 * c.Pb + c.EC * c.T
/-- local error constant of ETDRK4 -/
def Cloc (c : NL4) : ℝ :=
  (10 * c.W / 3) * (c.G4 / 384) + (7 * c.W / 6) * (c.G4 / 24) + c.W * c.G4 / 120
    + c.Lam * (c.W / 72 + c.W / 48 + c.W / 120) * c.M3
    + 2 * (c.Lam * (7 * c.W / 12) * (c.K * c.Pb) + (7 * c.W / 6) * (c.HL / 2 * c.Pb))
    + 2 * (5 * c.W / 6) * (c.K * c.EAB + c.H / 2 * c.Ea2 ^ 2 + c.H / 2 * c.Eb2 ^ 2)
    + (7 * c.W / 6) * (c.K * c.EC + c.H / 2 * c.Ec3 ^ 2 * c.T ^ 2)
end NL4

/-- stability constants of ETDRK4 -/
def etd4Aa (K ω T : ℝ) : ℝ := Real.exp (ω * T) * (1 + K * T / 2)
def etd4Ab (K ω T : ℝ) : ℝ := Real.exp (ω * T) * (1 + T / 2 * K * etd4Aa K ω T)
def etd4Ac (K ω T : ℝ) : ℝ :=
  Real.exp (ω * T) * (etd4Aa K ω T + T / 2 * K * (2 * etd4Ab K ω T + 1))
def etd4Θ (K ω T : ℝ) : ℝ :=
  K * Real.exp (ω * T) * (19 / 6 + 5 / 3 * (etd4Aa K ω T + etd4Ab K ω T) + 7 / 6 * etd4Ac K ω T)
def NL4.Cglob (c : NL4) : ℝ := c.T * c.Cloc * Real.exp ((c.ω + etd4Θ c.K c.ω c.T) * c.T)

end Exponax.LinearOrder
end
