import ExponaxModel.Proofs.DifferentiabilityCoef
import ExponaxModel.Proofs.StepperSymbols
/-
C07 support — F3 (partial statements) and F4.

F3  for every stored coefficient `E?_coef_i`:
      `_differentiableAt_lam`, `_differentiableAt_dt` : real `λ₀ dt₀ = x`, real radius `r ≠ 0`, even `M > 0`;
      `_differentiableAt_lam_zero`                    : `λ₀ = 0` (the guarded point), any `dt₀`, any complex
                                                        radius `r ≠ 0`, any `M`.
F4  a linear step and an ETDRK1 step differentiated w.r.t. a PDE coefficient `θ` entering through the
    symbol `λ(θ)`; instance: `Burgers` w.r.t. its diffusivity.
-/
set_option linter.unusedVariables false
namespace Exponax.Diff
open Exponax Exponax.Gen.Etdrk Exponax.Gen.Steppers Exponax.Stiffness Exponax.Nonlin Finset

/-! ## F3 — partial differentiability at real `λ₀ dt₀` -/

section Real
variable (M : ℕ) (hM : 0 < M) (hev : M % 2 = 0) (r x : ℝ) (hr : r ≠ 0) (dt₀ lam₀ : ℂ)
  (hx : lam₀ * dt₀ = (x : ℂ))
include hM hev hr hx

/-- **F3.** `E1_coef_1` is complex-differentiable in the symbol at every `λ₀` with `λ₀ dt₀` real -/
theorem E1_coef_1_differentiableAt_lam :
    DifferentiableAt ℂ (fun lam => E1_coef_1 dt₀ lam M (r : ℂ)) lam₀ :=
  differentiableAt_lam_of_joint (fun dt lam => E1_coef_1 dt lam M (r : ℂ)) dt₀ lam₀
    (E1_coef_1_differentiableAt_joint M r dt₀ lam₀ (hx ▸ nodesAvoidZero_real M hM hev r x hr))

/-- **F3.** … and in `dt` -/
theorem E1_coef_1_differentiableAt_dt :
    DifferentiableAt ℂ (fun dt => E1_coef_1 dt lam₀ M (r : ℂ)) dt₀ :=
  differentiableAt_dt_of_joint (fun dt lam => E1_coef_1 dt lam M (r : ℂ)) dt₀ lam₀
    (E1_coef_1_differentiableAt_joint M r dt₀ lam₀ (hx ▸ nodesAvoidZero_real M hM hev r x hr))

/-- **F3.** `E2_coef_1` is complex-differentiable in the symbol at every `λ₀` with `λ₀ dt₀` real -/
theorem E2_coef_1_differentiableAt_lam :
    DifferentiableAt ℂ (fun lam => E2_coef_1 dt₀ lam M (r : ℂ)) lam₀ :=
  differentiableAt_lam_of_joint (fun dt lam => E2_coef_1 dt lam M (r : ℂ)) dt₀ lam₀
    (E2_coef_1_differentiableAt_joint M r dt₀ lam₀ (hx ▸ nodesAvoidZero_real M hM hev r x hr))

/-- **F3.** … and in `dt` -/
theorem E2_coef_1_differentiableAt_dt :
    DifferentiableAt ℂ (fun dt => E2_coef_1 dt lam₀ M (r : ℂ)) dt₀ :=
  differentiableAt_dt_of_joint (fun dt lam => E2_coef_1 dt lam M (r : ℂ)) dt₀ lam₀
    (E2_coef_1_differentiableAt_joint M r dt₀ lam₀ (hx ▸ nodesAvoidZero_real M hM hev r x hr))

/-- **F3.** `E2_coef_2` is complex-differentiable in the symbol at every `λ₀` with `λ₀ dt₀` real -/
theorem E2_coef_2_differentiableAt_lam :
    DifferentiableAt ℂ (fun lam => E2_coef_2 dt₀ lam M (r : ℂ)) lam₀ :=
  differentiableAt_lam_of_joint (fun dt lam => E2_coef_2 dt lam M (r : ℂ)) dt₀ lam₀
    (E2_coef_2_differentiableAt_joint M r dt₀ lam₀ (hx ▸ nodesAvoidZero_real M hM hev r x hr))

/-- **F3.** … and in `dt` -/
theorem E2_coef_2_differentiableAt_dt :
    DifferentiableAt ℂ (fun dt => E2_coef_2 dt lam₀ M (r : ℂ)) dt₀ :=
  differentiableAt_dt_of_joint (fun dt lam => E2_coef_2 dt lam M (r : ℂ)) dt₀ lam₀
    (E2_coef_2_differentiableAt_joint M r dt₀ lam₀ (hx ▸ nodesAvoidZero_real M hM hev r x hr))

/-- **F3.** `E3_coef_1` is complex-differentiable in the symbol at every `λ₀` with `λ₀ dt₀` real -/
theorem E3_coef_1_differentiableAt_lam :
    DifferentiableAt ℂ (fun lam => E3_coef_1 dt₀ lam M (r : ℂ)) lam₀ :=
  differentiableAt_lam_of_joint (fun dt lam => E3_coef_1 dt lam M (r : ℂ)) dt₀ lam₀
    (E3_coef_1_differentiableAt_joint M r dt₀ lam₀ (hx ▸ nodesAvoidZero_real M hM hev r x hr))

/-- **F3.** … and in `dt` -/
theorem E3_coef_1_differentiableAt_dt :
    DifferentiableAt ℂ (fun dt => E3_coef_1 dt lam₀ M (r : ℂ)) dt₀ :=
  differentiableAt_dt_of_joint (fun dt lam => E3_coef_1 dt lam M (r : ℂ)) dt₀ lam₀
    (E3_coef_1_differentiableAt_joint M r dt₀ lam₀ (hx ▸ nodesAvoidZero_real M hM hev r x hr))

/-- **F3.** `E3_coef_2` is complex-differentiable in the symbol at every `λ₀` with `λ₀ dt₀` real -/
theorem E3_coef_2_differentiableAt_lam :
    DifferentiableAt ℂ (fun lam => E3_coef_2 dt₀ lam M (r : ℂ)) lam₀ :=
  differentiableAt_lam_of_joint (fun dt lam => E3_coef_2 dt lam M (r : ℂ)) dt₀ lam₀
    (E3_coef_2_differentiableAt_joint M r dt₀ lam₀ (hx ▸ nodesAvoidZero_real M hM hev r x hr))

/-- **F3.** … and in `dt` -/
theorem E3_coef_2_differentiableAt_dt :
    DifferentiableAt ℂ (fun dt => E3_coef_2 dt lam₀ M (r : ℂ)) dt₀ :=
  differentiableAt_dt_of_joint (fun dt lam => E3_coef_2 dt lam M (r : ℂ)) dt₀ lam₀
    (E3_coef_2_differentiableAt_joint M r dt₀ lam₀ (hx ▸ nodesAvoidZero_real M hM hev r x hr))

/-- **F3.** `E3_coef_3` is complex-differentiable in the symbol at every `λ₀` with `λ₀ dt₀` real -/
theorem E3_coef_3_differentiableAt_lam :
    DifferentiableAt ℂ (fun lam => E3_coef_3 dt₀ lam M (r : ℂ)) lam₀ :=
  differentiableAt_lam_of_joint (fun dt lam => E3_coef_3 dt lam M (r : ℂ)) dt₀ lam₀
    (E3_coef_3_differentiableAt_joint M r dt₀ lam₀ (hx ▸ nodesAvoidZero_real M hM hev r x hr))

/-- **F3.** … and in `dt` -/
theorem E3_coef_3_differentiableAt_dt :
    DifferentiableAt ℂ (fun dt => E3_coef_3 dt lam₀ M (r : ℂ)) dt₀ :=
  differentiableAt_dt_of_joint (fun dt lam => E3_coef_3 dt lam M (r : ℂ)) dt₀ lam₀
    (E3_coef_3_differentiableAt_joint M r dt₀ lam₀ (hx ▸ nodesAvoidZero_real M hM hev r x hr))

/-- **F3.** `E3_coef_4` is complex-differentiable in the symbol at every `λ₀` with `λ₀ dt₀` real -/
theorem E3_coef_4_differentiableAt_lam :
    DifferentiableAt ℂ (fun lam => E3_coef_4 dt₀ lam M (r : ℂ)) lam₀ :=
  differentiableAt_lam_of_joint (fun dt lam => E3_coef_4 dt lam M (r : ℂ)) dt₀ lam₀
    (E3_coef_4_differentiableAt_joint M r dt₀ lam₀ (hx ▸ nodesAvoidZero_real M hM hev r x hr))

/-- **F3.** … and in `dt` -/
theorem E3_coef_4_differentiableAt_dt :
    DifferentiableAt ℂ (fun dt => E3_coef_4 dt lam₀ M (r : ℂ)) dt₀ :=
  differentiableAt_dt_of_joint (fun dt lam => E3_coef_4 dt lam M (r : ℂ)) dt₀ lam₀
    (E3_coef_4_differentiableAt_joint M r dt₀ lam₀ (hx ▸ nodesAvoidZero_real M hM hev r x hr))

/-- **F3.** `E3_coef_5` is complex-differentiable in the symbol at every `λ₀` with `λ₀ dt₀` real -/
theorem E3_coef_5_differentiableAt_lam :
    DifferentiableAt ℂ (fun lam => E3_coef_5 dt₀ lam M (r : ℂ)) lam₀ :=
  differentiableAt_lam_of_joint (fun dt lam => E3_coef_5 dt lam M (r : ℂ)) dt₀ lam₀
    (E3_coef_5_differentiableAt_joint M r dt₀ lam₀ (hx ▸ nodesAvoidZero_real M hM hev r x hr))

/-- **F3.** … and in `dt` -/
theorem E3_coef_5_differentiableAt_dt :
    DifferentiableAt ℂ (fun dt => E3_coef_5 dt lam₀ M (r : ℂ)) dt₀ :=
  differentiableAt_dt_of_joint (fun dt lam => E3_coef_5 dt lam M (r : ℂ)) dt₀ lam₀
    (E3_coef_5_differentiableAt_joint M r dt₀ lam₀ (hx ▸ nodesAvoidZero_real M hM hev r x hr))

/-- **F3.** `E4_coef_1` is complex-differentiable in the symbol at every `λ₀` with `λ₀ dt₀` real -/
theorem E4_coef_1_differentiableAt_lam :
    DifferentiableAt ℂ (fun lam => E4_coef_1 dt₀ lam M (r : ℂ)) lam₀ :=
  differentiableAt_lam_of_joint (fun dt lam => E4_coef_1 dt lam M (r : ℂ)) dt₀ lam₀
    (E4_coef_1_differentiableAt_joint M r dt₀ lam₀ (hx ▸ nodesAvoidZero_real M hM hev r x hr))

/-- **F3.** … and in `dt` -/
theorem E4_coef_1_differentiableAt_dt :
    DifferentiableAt ℂ (fun dt => E4_coef_1 dt lam₀ M (r : ℂ)) dt₀ :=
  differentiableAt_dt_of_joint (fun dt lam => E4_coef_1 dt lam M (r : ℂ)) dt₀ lam₀
    (E4_coef_1_differentiableAt_joint M r dt₀ lam₀ (hx ▸ nodesAvoidZero_real M hM hev r x hr))

/-- **F3.** `E4_coef_2` is complex-differentiable in the symbol at every `λ₀` with `λ₀ dt₀` real -/
theorem E4_coef_2_differentiableAt_lam :
    DifferentiableAt ℂ (fun lam => E4_coef_2 dt₀ lam M (r : ℂ)) lam₀ :=
  differentiableAt_lam_of_joint (fun dt lam => E4_coef_2 dt lam M (r : ℂ)) dt₀ lam₀
    (E4_coef_2_differentiableAt_joint M r dt₀ lam₀ (hx ▸ nodesAvoidZero_real M hM hev r x hr))

/-- **F3.** … and in `dt` -/
theorem E4_coef_2_differentiableAt_dt :
    DifferentiableAt ℂ (fun dt => E4_coef_2 dt lam₀ M (r : ℂ)) dt₀ :=
  differentiableAt_dt_of_joint (fun dt lam => E4_coef_2 dt lam M (r : ℂ)) dt₀ lam₀
    (E4_coef_2_differentiableAt_joint M r dt₀ lam₀ (hx ▸ nodesAvoidZero_real M hM hev r x hr))

/-- **F3.** `E4_coef_3` is complex-differentiable in the symbol at every `λ₀` with `λ₀ dt₀` real -/
theorem E4_coef_3_differentiableAt_lam :
    DifferentiableAt ℂ (fun lam => E4_coef_3 dt₀ lam M (r : ℂ)) lam₀ :=
  differentiableAt_lam_of_joint (fun dt lam => E4_coef_3 dt lam M (r : ℂ)) dt₀ lam₀
    (E4_coef_3_differentiableAt_joint M r dt₀ lam₀ (hx ▸ nodesAvoidZero_real M hM hev r x hr))

/-- **F3.** … and in `dt` -/
theorem E4_coef_3_differentiableAt_dt :
    DifferentiableAt ℂ (fun dt => E4_coef_3 dt lam₀ M (r : ℂ)) dt₀ :=
  differentiableAt_dt_of_joint (fun dt lam => E4_coef_3 dt lam M (r : ℂ)) dt₀ lam₀
    (E4_coef_3_differentiableAt_joint M r dt₀ lam₀ (hx ▸ nodesAvoidZero_real M hM hev r x hr))

/-- **F3.** `E4_coef_4` is complex-differentiable in the symbol at every `λ₀` with `λ₀ dt₀` real -/
theorem E4_coef_4_differentiableAt_lam :
    DifferentiableAt ℂ (fun lam => E4_coef_4 dt₀ lam M (r : ℂ)) lam₀ :=
  differentiableAt_lam_of_joint (fun dt lam => E4_coef_4 dt lam M (r : ℂ)) dt₀ lam₀
    (E4_coef_4_differentiableAt_joint M r dt₀ lam₀ (hx ▸ nodesAvoidZero_real M hM hev r x hr))

/-- **F3.** … and in `dt` -/
theorem E4_coef_4_differentiableAt_dt :
    DifferentiableAt ℂ (fun dt => E4_coef_4 dt lam₀ M (r : ℂ)) dt₀ :=
  differentiableAt_dt_of_joint (fun dt lam => E4_coef_4 dt lam M (r : ℂ)) dt₀ lam₀
    (E4_coef_4_differentiableAt_joint M r dt₀ lam₀ (hx ▸ nodesAvoidZero_real M hM hev r x hr))

/-- **F3.** `E4_coef_5` is complex-differentiable in the symbol at every `λ₀` with `λ₀ dt₀` real -/
theorem E4_coef_5_differentiableAt_lam :
    DifferentiableAt ℂ (fun lam => E4_coef_5 dt₀ lam M (r : ℂ)) lam₀ :=
  differentiableAt_lam_of_joint (fun dt lam => E4_coef_5 dt lam M (r : ℂ)) dt₀ lam₀
    (E4_coef_5_differentiableAt_joint M r dt₀ lam₀ (hx ▸ nodesAvoidZero_real M hM hev r x hr))

/-- **F3.** … and in `dt` -/
theorem E4_coef_5_differentiableAt_dt :
    DifferentiableAt ℂ (fun dt => E4_coef_5 dt lam₀ M (r : ℂ)) dt₀ :=
  differentiableAt_dt_of_joint (fun dt lam => E4_coef_5 dt lam M (r : ℂ)) dt₀ lam₀
    (E4_coef_5_differentiableAt_joint M r dt₀ lam₀ (hx ▸ nodesAvoidZero_real M hM hev r x hr))

/-- **F3.** `E4_coef_6` is complex-differentiable in the symbol at every `λ₀` with `λ₀ dt₀` real -/
theorem E4_coef_6_differentiableAt_lam :
    DifferentiableAt ℂ (fun lam => E4_coef_6 dt₀ lam M (r : ℂ)) lam₀ :=
  differentiableAt_lam_of_joint (fun dt lam => E4_coef_6 dt lam M (r : ℂ)) dt₀ lam₀
    (E4_coef_6_differentiableAt_joint M r dt₀ lam₀ (hx ▸ nodesAvoidZero_real M hM hev r x hr))

/-- **F3.** … and in `dt` -/
theorem E4_coef_6_differentiableAt_dt :
    DifferentiableAt ℂ (fun dt => E4_coef_6 dt lam₀ M (r : ℂ)) dt₀ :=
  differentiableAt_dt_of_joint (fun dt lam => E4_coef_6 dt lam M (r : ℂ)) dt₀ lam₀
    (E4_coef_6_differentiableAt_joint M r dt₀ lam₀ (hx ▸ nodesAvoidZero_real M hM hev r x hr))

end Real

/-- non-vacuity of the hypotheses of the section above: `M = 16`, `r = 1`, `λ₀ = −3`, `dt₀ = 2` -/
example : DifferentiableAt ℂ (fun lam => E4_coef_6 (2 : ℂ) lam 16 ((1 : ℝ) : ℂ)) (-3 : ℂ) :=
  E4_coef_6_differentiableAt_lam 16 (by norm_num) (by norm_num) 1 (-6) one_ne_zero 2 (-3)
    (by push_cast; norm_num)

/-- the guarded point `λ₀ = 0`, `dt₀ = 0.1` -/
example : DifferentiableAt ℂ (fun lam => E4_coef_4 (1 / 10 : ℂ) lam 16 ((1 : ℝ) : ℂ)) (0 : ℂ) :=
  E4_coef_4_differentiableAt_lam 16 (by norm_num) (by norm_num) 1 0 one_ne_zero (1 / 10) 0
    (by push_cast; norm_num)

/-! ## F3 — the guarded point `λ₀ = 0` (any complex radius, any `M`, any `dt₀`) -/

section Zero
variable (M : ℕ) (r : ℂ) (hr : r ≠ 0) (dt₀ : ℂ)
include hr

private theorem nodes_zero_mul : NodesAvoidZero M r (0 * dt₀) := by
  rw [zero_mul]
  exact nodesAvoidZero_zero M r hr

/-- **F3 (`λ₀ = 0`).** the stored `E1_coef_1` is an honest analytic function of the symbol at the mean mode -/
theorem E1_coef_1_differentiableAt_lam_zero :
    DifferentiableAt ℂ (fun lam => E1_coef_1 dt₀ lam M r) 0 :=
  differentiableAt_lam_of_joint (fun dt lam => E1_coef_1 dt lam M r) dt₀ 0
    (E1_coef_1_differentiableAt_joint M r dt₀ 0 (nodes_zero_mul M r hr dt₀))

theorem E1_coef_1_differentiableAt_dt_zero :
    DifferentiableAt ℂ (fun dt => E1_coef_1 dt 0 M r) dt₀ :=
  differentiableAt_dt_of_joint (fun dt lam => E1_coef_1 dt lam M r) dt₀ 0
    (E1_coef_1_differentiableAt_joint M r dt₀ 0 (nodes_zero_mul M r hr dt₀))

/-- **F3 (`λ₀ = 0`).** the stored `E2_coef_1` is an honest analytic function of the symbol at the mean mode -/
theorem E2_coef_1_differentiableAt_lam_zero :
    DifferentiableAt ℂ (fun lam => E2_coef_1 dt₀ lam M r) 0 :=
  differentiableAt_lam_of_joint (fun dt lam => E2_coef_1 dt lam M r) dt₀ 0
    (E2_coef_1_differentiableAt_joint M r dt₀ 0 (nodes_zero_mul M r hr dt₀))

theorem E2_coef_1_differentiableAt_dt_zero :
    DifferentiableAt ℂ (fun dt => E2_coef_1 dt 0 M r) dt₀ :=
  differentiableAt_dt_of_joint (fun dt lam => E2_coef_1 dt lam M r) dt₀ 0
    (E2_coef_1_differentiableAt_joint M r dt₀ 0 (nodes_zero_mul M r hr dt₀))

/-- **F3 (`λ₀ = 0`).** the stored `E2_coef_2` is an honest analytic function of the symbol at the mean mode -/
theorem E2_coef_2_differentiableAt_lam_zero :
    DifferentiableAt ℂ (fun lam => E2_coef_2 dt₀ lam M r) 0 :=
  differentiableAt_lam_of_joint (fun dt lam => E2_coef_2 dt lam M r) dt₀ 0
    (E2_coef_2_differentiableAt_joint M r dt₀ 0 (nodes_zero_mul M r hr dt₀))

theorem E2_coef_2_differentiableAt_dt_zero :
    DifferentiableAt ℂ (fun dt => E2_coef_2 dt 0 M r) dt₀ :=
  differentiableAt_dt_of_joint (fun dt lam => E2_coef_2 dt lam M r) dt₀ 0
    (E2_coef_2_differentiableAt_joint M r dt₀ 0 (nodes_zero_mul M r hr dt₀))

/-- **F3 (`λ₀ = 0`).** the stored `E3_coef_1` is an honest analytic function of the symbol at the mean mode -/
theorem E3_coef_1_differentiableAt_lam_zero :
    DifferentiableAt ℂ (fun lam => E3_coef_1 dt₀ lam M r) 0 :=
  differentiableAt_lam_of_joint (fun dt lam => E3_coef_1 dt lam M r) dt₀ 0
    (E3_coef_1_differentiableAt_joint M r dt₀ 0 (nodes_zero_mul M r hr dt₀))

theorem E3_coef_1_differentiableAt_dt_zero :
    DifferentiableAt ℂ (fun dt => E3_coef_1 dt 0 M r) dt₀ :=
  differentiableAt_dt_of_joint (fun dt lam => E3_coef_1 dt lam M r) dt₀ 0
    (E3_coef_1_differentiableAt_joint M r dt₀ 0 (nodes_zero_mul M r hr dt₀))

/-- **F3 (`λ₀ = 0`).** the stored `E3_coef_2` is an honest analytic function of the symbol at the mean mode -/
theorem E3_coef_2_differentiableAt_lam_zero :
    DifferentiableAt ℂ (fun lam => E3_coef_2 dt₀ lam M r) 0 :=
  differentiableAt_lam_of_joint (fun dt lam => E3_coef_2 dt lam M r) dt₀ 0
    (E3_coef_2_differentiableAt_joint M r dt₀ 0 (nodes_zero_mul M r hr dt₀))

theorem E3_coef_2_differentiableAt_dt_zero :
    DifferentiableAt ℂ (fun dt => E3_coef_2 dt 0 M r) dt₀ :=
  differentiableAt_dt_of_joint (fun dt lam => E3_coef_2 dt lam M r) dt₀ 0
    (E3_coef_2_differentiableAt_joint M r dt₀ 0 (nodes_zero_mul M r hr dt₀))

/-- **F3 (`λ₀ = 0`).** the stored `E3_coef_3` is an honest analytic function of the symbol at the mean mode -/
theorem E3_coef_3_differentiableAt_lam_zero :
    DifferentiableAt ℂ (fun lam => E3_coef_3 dt₀ lam M r) 0 :=
  differentiableAt_lam_of_joint (fun dt lam => E3_coef_3 dt lam M r) dt₀ 0
    (E3_coef_3_differentiableAt_joint M r dt₀ 0 (nodes_zero_mul M r hr dt₀))

theorem E3_coef_3_differentiableAt_dt_zero :
    DifferentiableAt ℂ (fun dt => E3_coef_3 dt 0 M r) dt₀ :=
  differentiableAt_dt_of_joint (fun dt lam => E3_coef_3 dt lam M r) dt₀ 0
    (E3_coef_3_differentiableAt_joint M r dt₀ 0 (nodes_zero_mul M r hr dt₀))

/-- **F3 (`λ₀ = 0`).** the stored `E3_coef_4` is an honest analytic function of the symbol at the mean mode -/
theorem E3_coef_4_differentiableAt_lam_zero :
    DifferentiableAt ℂ (fun lam => E3_coef_4 dt₀ lam M r) 0 :=
  differentiableAt_lam_of_joint (fun dt lam => E3_coef_4 dt lam M r) dt₀ 0
    (E3_coef_4_differentiableAt_joint M r dt₀ 0 (nodes_zero_mul M r hr dt₀))

theorem E3_coef_4_differentiableAt_dt_zero :
    DifferentiableAt ℂ (fun dt => E3_coef_4 dt 0 M r) dt₀ :=
  differentiableAt_dt_of_joint (fun dt lam => E3_coef_4 dt lam M r) dt₀ 0
    (E3_coef_4_differentiableAt_joint M r dt₀ 0 (nodes_zero_mul M r hr dt₀))

/-- **F3 (`λ₀ = 0`).** the stored `E3_coef_5` is an honest analytic function of the symbol at the mean mode -/
theorem E3_coef_5_differentiableAt_lam_zero :
    DifferentiableAt ℂ (fun lam => E3_coef_5 dt₀ lam M r) 0 :=
  differentiableAt_lam_of_joint (fun dt lam => E3_coef_5 dt lam M r) dt₀ 0
    (E3_coef_5_differentiableAt_joint M r dt₀ 0 (nodes_zero_mul M r hr dt₀))

theorem E3_coef_5_differentiableAt_dt_zero :
    DifferentiableAt ℂ (fun dt => E3_coef_5 dt 0 M r) dt₀ :=
  differentiableAt_dt_of_joint (fun dt lam => E3_coef_5 dt lam M r) dt₀ 0
    (E3_coef_5_differentiableAt_joint M r dt₀ 0 (nodes_zero_mul M r hr dt₀))

/-- **F3 (`λ₀ = 0`).** the stored `E4_coef_1` is an honest analytic function of the symbol at the mean mode -/
theorem E4_coef_1_differentiableAt_lam_zero :
    DifferentiableAt ℂ (fun lam => E4_coef_1 dt₀ lam M r) 0 :=
  differentiableAt_lam_of_joint (fun dt lam => E4_coef_1 dt lam M r) dt₀ 0
    (E4_coef_1_differentiableAt_joint M r dt₀ 0 (nodes_zero_mul M r hr dt₀))

theorem E4_coef_1_differentiableAt_dt_zero :
    DifferentiableAt ℂ (fun dt => E4_coef_1 dt 0 M r) dt₀ :=
  differentiableAt_dt_of_joint (fun dt lam => E4_coef_1 dt lam M r) dt₀ 0
    (E4_coef_1_differentiableAt_joint M r dt₀ 0 (nodes_zero_mul M r hr dt₀))

/-- **F3 (`λ₀ = 0`).** the stored `E4_coef_2` is an honest analytic function of the symbol at the mean mode -/
theorem E4_coef_2_differentiableAt_lam_zero :
    DifferentiableAt ℂ (fun lam => E4_coef_2 dt₀ lam M r) 0 :=
  differentiableAt_lam_of_joint (fun dt lam => E4_coef_2 dt lam M r) dt₀ 0
    (E4_coef_2_differentiableAt_joint M r dt₀ 0 (nodes_zero_mul M r hr dt₀))

theorem E4_coef_2_differentiableAt_dt_zero :
    DifferentiableAt ℂ (fun dt => E4_coef_2 dt 0 M r) dt₀ :=
  differentiableAt_dt_of_joint (fun dt lam => E4_coef_2 dt lam M r) dt₀ 0
    (E4_coef_2_differentiableAt_joint M r dt₀ 0 (nodes_zero_mul M r hr dt₀))

/-- **F3 (`λ₀ = 0`).** the stored `E4_coef_3` is an honest analytic function of the symbol at the mean mode -/
theorem E4_coef_3_differentiableAt_lam_zero :
    DifferentiableAt ℂ (fun lam => E4_coef_3 dt₀ lam M r) 0 :=
  differentiableAt_lam_of_joint (fun dt lam => E4_coef_3 dt lam M r) dt₀ 0
    (E4_coef_3_differentiableAt_joint M r dt₀ 0 (nodes_zero_mul M r hr dt₀))

theorem E4_coef_3_differentiableAt_dt_zero :
    DifferentiableAt ℂ (fun dt => E4_coef_3 dt 0 M r) dt₀ :=
  differentiableAt_dt_of_joint (fun dt lam => E4_coef_3 dt lam M r) dt₀ 0
    (E4_coef_3_differentiableAt_joint M r dt₀ 0 (nodes_zero_mul M r hr dt₀))

/-- **F3 (`λ₀ = 0`).** the stored `E4_coef_4` is an honest analytic function of the symbol at the mean mode -/
theorem E4_coef_4_differentiableAt_lam_zero :
    DifferentiableAt ℂ (fun lam => E4_coef_4 dt₀ lam M r) 0 :=
  differentiableAt_lam_of_joint (fun dt lam => E4_coef_4 dt lam M r) dt₀ 0
    (E4_coef_4_differentiableAt_joint M r dt₀ 0 (nodes_zero_mul M r hr dt₀))

theorem E4_coef_4_differentiableAt_dt_zero :
    DifferentiableAt ℂ (fun dt => E4_coef_4 dt 0 M r) dt₀ :=
  differentiableAt_dt_of_joint (fun dt lam => E4_coef_4 dt lam M r) dt₀ 0
    (E4_coef_4_differentiableAt_joint M r dt₀ 0 (nodes_zero_mul M r hr dt₀))

/-- **F3 (`λ₀ = 0`).** the stored `E4_coef_5` is an honest analytic function of the symbol at the mean mode -/
theorem E4_coef_5_differentiableAt_lam_zero :
    DifferentiableAt ℂ (fun lam => E4_coef_5 dt₀ lam M r) 0 :=
  differentiableAt_lam_of_joint (fun dt lam => E4_coef_5 dt lam M r) dt₀ 0
    (E4_coef_5_differentiableAt_joint M r dt₀ 0 (nodes_zero_mul M r hr dt₀))

theorem E4_coef_5_differentiableAt_dt_zero :
    DifferentiableAt ℂ (fun dt => E4_coef_5 dt 0 M r) dt₀ :=
  differentiableAt_dt_of_joint (fun dt lam => E4_coef_5 dt lam M r) dt₀ 0
    (E4_coef_5_differentiableAt_joint M r dt₀ 0 (nodes_zero_mul M r hr dt₀))

/-- **F3 (`λ₀ = 0`).** the stored `E4_coef_6` is an honest analytic function of the symbol at the mean mode -/
theorem E4_coef_6_differentiableAt_lam_zero :
    DifferentiableAt ℂ (fun lam => E4_coef_6 dt₀ lam M r) 0 :=
  differentiableAt_lam_of_joint (fun dt lam => E4_coef_6 dt lam M r) dt₀ 0
    (E4_coef_6_differentiableAt_joint M r dt₀ 0 (nodes_zero_mul M r hr dt₀))

theorem E4_coef_6_differentiableAt_dt_zero :
    DifferentiableAt ℂ (fun dt => E4_coef_6 dt 0 M r) dt₀ :=
  differentiableAt_dt_of_joint (fun dt lam => E4_coef_6 dt lam M r) dt₀ 0
    (E4_coef_6_differentiableAt_joint M r dt₀ 0 (nodes_zero_mul M r hr dt₀))

end Zero

example : DifferentiableAt ℂ (fun lam => E1_coef_1 (1 / 10 : ℂ) lam 7 Complex.I) 0 :=
  E1_coef_1_differentiableAt_lam_zero 7 Complex.I Complex.I_ne_zero _

/-! ## F4 — one step w.r.t. a PDE coefficient -/

/-- **F4 (linear stepper).** `θ ↦ e^{dt λ(θ)} u` has derivative `dt λ'(θ) e^{dt λ(θ)} u` -/
theorem linear_step_hasDerivAt_param (dt u : ℂ) (lamf : ℂ → ℂ) (lam' θ₀ : ℂ) (hl : HasDerivAt lamf lam' θ₀) :
    HasDerivAt (fun θ => E0step (exp_term dt (lamf θ)) u)
      (dt * lam' * exp_term dt (lamf θ₀) * u) θ₀ := by
  simp only [E0step, exp_term, hasExp_complex]
  have h1 : HasDerivAt (fun θ => Complex.exp (dt * lamf θ)) (Complex.exp (dt * lamf θ₀) * (dt * lam')) θ₀ :=
    (hl.const_mul dt).cexp
  have h2 := h1.mul_const u
  have e : dt * lam' * Complex.exp (dt * lamf θ₀) * u = Complex.exp (dt * lamf θ₀) * (dt * lam') * u := by
    ring
  rw [e]
  exact h2

/-- **F4 (real parameter).** the same for a real PDE coefficient `θ` (what `jax.grad` differentiates) -/
theorem linear_step_hasDerivAt_param_real (dt u : ℂ) (lamf : ℂ → ℂ) (lam' : ℂ) (θ₀ : ℝ)
    (hl : HasDerivAt lamf lam' (θ₀ : ℂ)) :
    HasDerivAt (fun θ : ℝ => E0step (exp_term dt (lamf (θ : ℂ))) u)
      (dt * lam' * exp_term dt (lamf (θ₀ : ℂ)) * u) θ₀ :=
  (linear_step_hasDerivAt_param dt u lamf lam' (θ₀ : ℂ) hl).comp_ofReal

/-- **F4 (symbol polynomial in the parameter).** `λ(θ) = Σ_k c_k θ^k` -/
theorem linear_step_hasDerivAt_poly (dt u : ℂ) (cs : List ℂ) (θ₀ : ℂ) :
    HasDerivAt (fun θ => E0step (exp_term dt (polyEval cs θ)) u)
      (dt * polyDeriv cs θ₀ * exp_term dt (polyEval cs θ₀) * u) θ₀ :=
  linear_step_hasDerivAt_param dt u (polyEval cs) _ θ₀ (polyEval_hasDerivAt cs θ₀)

/-- **F4 (diffusion, `λ = −ν k²`).** derivative w.r.t. the diffusivity: `−dt k² e^{−dt ν k²} u` -/
theorem linear_step_hasDerivAt_diffusivity (dt u k ν₀ : ℂ) :
    HasDerivAt (fun ν => E0step (exp_term dt (-ν * k ^ 2)) u)
      (dt * (-(k ^ 2)) * exp_term dt (-ν₀ * k ^ 2) * u) ν₀ := by
  have hl : HasDerivAt (fun ν : ℂ => -ν * k ^ 2) (-(k ^ 2)) ν₀ := by
    have h := ((hasDerivAt_id ν₀).neg).mul_const (k ^ 2)
    simpa using h
  exact linear_step_hasDerivAt_param dt u _ _ ν₀ hl

/-- **F4 (generated symbol).** the regenerated `Burgers._build_linear_operator` at one stored mode is linear
    in the diffusivity, derivative `Σ_d κ_d²` (`κ_d = i s k_d`, so this is `−|k|²s²`) -/
theorem Burgers_linear_operator_hasDerivAt (κ : List ℂ) (ν₀ : ℂ) :
    HasDerivAt (fun ν => Burgers_linear_operator κ ν) (psum κ 2) ν₀ := by
  have e : (fun ν => Burgers_linear_operator κ ν) = fun ν => ν * psum κ 2 :=
    funext (Burgers_linear_operator_eq κ)
  rw [e]
  have h := (hasDerivAt_id ν₀).mul_const (psum κ 2)
  simpa using h

/-- … hence the linear part of one `Burgers` step w.r.t. the diffusivity -/
theorem Burgers_linear_step_hasDerivAt (dt u : ℂ) (κ : List ℂ) (ν₀ : ℂ) :
    HasDerivAt (fun ν => E0step (exp_term dt (Burgers_linear_operator κ ν)) u)
      (dt * psum κ 2 * exp_term dt (Burgers_linear_operator κ ν₀) * u) ν₀ :=
  linear_step_hasDerivAt_param dt u _ _ ν₀ (Burgers_linear_operator_hasDerivAt κ ν₀)

/-- chain rule for a stored coefficient through the symbol -/
theorem coef_param_hasDerivAt (coef : ℂ → ℂ) (lamf : ℂ → ℂ) (lam' θ₀ : ℂ) (hl : HasDerivAt lamf lam' θ₀)
    (hc : DifferentiableAt ℂ coef (lamf θ₀)) :
    HasDerivAt (fun θ => coef (lamf θ)) (deriv coef (lamf θ₀) * lam') θ₀ :=
  HasDerivAt.comp θ₀ hc.hasDerivAt hl

/-- **F4 (ETDRK1, state-independent `N`).** with `c(λ) = E1_coef_1 dt λ M r`, wherever the contour nodes
    avoid `0` at `λ(θ₀) dt`:
    `∂_θ E1step = dt λ' e^{dt λ} u + c'(λ(θ₀)) λ' N(u)` -/
theorem E1step_hasDerivAt_param (dt u r : ℂ) (M : ℕ) (N : ℂ → ℂ) (lamf : ℂ → ℂ) (lam' θ₀ : ℂ)
    (hl : HasDerivAt lamf lam' θ₀) (hn : NodesAvoidZero M r (lamf θ₀ * dt)) :
    HasDerivAt (fun θ => E1step (exp_term dt (lamf θ)) (E1_coef_1 dt (lamf θ) M r) N u)
      (dt * lam' * exp_term dt (lamf θ₀) * u
        + deriv (fun lam => E1_coef_1 dt lam M r) (lamf θ₀) * lam' * N u) θ₀ := by
  have h1 := linear_step_hasDerivAt_param dt u lamf lam' θ₀ hl
  have hc : DifferentiableAt ℂ (fun lam => E1_coef_1 dt lam M r) (lamf θ₀) :=
    differentiableAt_lam_of_joint (fun dt lam => E1_coef_1 dt lam M r) dt (lamf θ₀)
      (E1_coef_1_differentiableAt_joint M r dt (lamf θ₀) hn)
  have h2 := (coef_param_hasDerivAt (fun lam => E1_coef_1 dt lam M r) lamf lam' θ₀ hl hc).mul_const (N u)
  exact h1.add h2

/-- **F4 (ETDRK1, real symbol).** real radius `r ≠ 0`, even `M`, `λ(θ₀) dt` real -/
theorem E1step_differentiableAt_param (dt u : ℂ) (r x : ℝ) (hr : r ≠ 0) (M : ℕ) (hM : 0 < M) (hev : M % 2 = 0)
    (N : ℂ → ℂ) (lamf : ℂ → ℂ) (θ₀ : ℂ) (hl : DifferentiableAt ℂ lamf θ₀) (hx : lamf θ₀ * dt = (x : ℂ)) :
    DifferentiableAt ℂ (fun θ => E1step (exp_term dt (lamf θ)) (E1_coef_1 dt (lamf θ) M (r : ℂ)) N u) θ₀ :=
  (E1step_hasDerivAt_param dt u r M N lamf _ θ₀ hl.hasDerivAt
    (hx ▸ nodesAvoidZero_real M hM hev r x hr)).differentiableAt

/-- **F4 (ETDRK1, `Burgers` diffusivity at the mean mode).** `κ = 0` (so `λ = 0` whatever `ν`): the step is
    differentiable in `ν` — the guarded point -/
theorem E1step_Burgers_differentiableAt_mean_mode (dt u r : ℂ) (hr : r ≠ 0) (M : ℕ) (N : ℂ → ℂ) (D : ℕ) (ν₀ : ℂ) :
    DifferentiableAt ℂ (fun ν => E1step (exp_term dt (Burgers_linear_operator (List.replicate D 0) ν))
      (E1_coef_1 dt (Burgers_linear_operator (List.replicate D 0) ν) M r) N u) ν₀ := by
  apply (E1step_hasDerivAt_param dt u r M N _ _ ν₀
    (Burgers_linear_operator_hasDerivAt (List.replicate D 0) ν₀) _).differentiableAt
  have h0 : Burgers_linear_operator (List.replicate D (0 : ℂ)) ν₀ = 0 := by
    rw [Burgers_linear_operator_eq, psum_def]
    apply mul_eq_zero_of_right
    apply Finset.sum_eq_zero
    intro d _
    have hd : (List.replicate D (0 : ℂ)).getD d 0 = 0 := by
      rw [List.getD_eq_getElem?_getD, List.getElem?_replicate]
      split_ifs <;> rfl
    rw [hd]
    norm_num
  rw [h0, zero_mul]
  exact nodesAvoidZero_zero M r hr

/-- non-vacuity: diffusion `λ(ν) = −ν·4`, `ν₀ = 1/100`, `dt = 1/10` -/
example (u : ℂ) (N : ℂ → ℂ) :
    DifferentiableAt ℂ (fun ν : ℂ => E1step (exp_term (1 / 10) (-ν * 4))
      (E1_coef_1 (1 / 10) (-ν * 4) 16 ((1 : ℝ) : ℂ)) N u) (1 / 100) :=
  E1step_differentiableAt_param (1 / 10) u 1 (-(1 / 250)) one_ne_zero 16 (by norm_num) (by norm_num) N
    (fun ν => -ν * 4) (1 / 100) (by fun_prop) (by push_cast; norm_num)

/-! ## F3 + F4 — the whole step as a function of `(dt, λ)` -/

/-- the stage formulas are differentiable in the coefficients: if every coefficient depends differentiably on
    a parameter `p` and `N` is differentiable, so does one ETDRK4 step (state `u` fixed) -/
theorem E4step_differentiableAt_coefs {X : Type} [NormedAddCommGroup X] [NormedSpace ℂ X]
    (E Eh c1 c2 c3 c4 c5 c6 : X → ℂ) (N : ℂ → ℂ) (u : ℂ) (p₀ : X) (hN : Differentiable ℂ N)
    (hE : DifferentiableAt ℂ E p₀) (hEh : DifferentiableAt ℂ Eh p₀) (h1 : DifferentiableAt ℂ c1 p₀)
    (h2 : DifferentiableAt ℂ c2 p₀) (h3 : DifferentiableAt ℂ c3 p₀) (h4 : DifferentiableAt ℂ c4 p₀)
    (h5 : DifferentiableAt ℂ c5 p₀) (h6 : DifferentiableAt ℂ c6 p₀) :
    DifferentiableAt ℂ (fun p => E4step (E p) (Eh p) (c1 p) (c2 p) (c3 p) (c4 p) (c5 p) (c6 p) N u) p₀ := by
  simp only [E4step, lit_eq]
  fun_prop

theorem E1step_differentiableAt_coefs {X : Type} [NormedAddCommGroup X] [NormedSpace ℂ X]
    (E c1 : X → ℂ) (N : ℂ → ℂ) (u : ℂ) (p₀ : X) (hE : DifferentiableAt ℂ E p₀) (h1 : DifferentiableAt ℂ c1 p₀) :
    DifferentiableAt ℂ (fun p => E1step (E p) (c1 p) N u) p₀ := by
  simp only [E1step]
  fun_prop

theorem E2step_differentiableAt_coefs {X : Type} [NormedAddCommGroup X] [NormedSpace ℂ X]
    (E c1 c2 : X → ℂ) (N : ℂ → ℂ) (u : ℂ) (p₀ : X) (hN : Differentiable ℂ N) (hE : DifferentiableAt ℂ E p₀)
    (h1 : DifferentiableAt ℂ c1 p₀) (h2 : DifferentiableAt ℂ c2 p₀) :
    DifferentiableAt ℂ (fun p => E2step (E p) (c1 p) (c2 p) N u) p₀ := by
  simp only [E2step]
  fun_prop

/-- **F3 + F4 (ETDRK1 in `(dt, λ)`).** one ETDRK1 step with the STORED coefficient is jointly differentiable in
    `(dt, λ)` wherever the nodes avoid `0`; no assumption on `N` -/
theorem E1step_model_differentiableAt_joint (M : ℕ) (r dt₀ lam₀ : ℂ) (h : NodesAvoidZero M r (lam₀ * dt₀))
    (N : ℂ → ℂ) (u : ℂ) :
    DifferentiableAt ℂ (fun p : ℂ × ℂ => E1step (exp_term p.1 p.2) (E1_coef_1 p.1 p.2 M r) N u) (dt₀, lam₀) :=
  E1step_differentiableAt_coefs _ _ N u _ (exp_term_differentiable _)
    (E1_coef_1_differentiableAt_joint M r dt₀ lam₀ h)

/-- **F3 + F4 (ETDRK2 in `(dt, λ)`).** -/
theorem E2step_model_differentiableAt_joint (M : ℕ) (r dt₀ lam₀ : ℂ) (h : NodesAvoidZero M r (lam₀ * dt₀))
    (N : ℂ → ℂ) (hN : Differentiable ℂ N) (u : ℂ) :
    DifferentiableAt ℂ (fun p : ℂ × ℂ => E2step (exp_term p.1 p.2) (E2_coef_1 p.1 p.2 M r) (E2_coef_2 p.1 p.2 M r)
      N u) (dt₀, lam₀) :=
  E2step_differentiableAt_coefs _ _ _ N u _ hN (exp_term_differentiable _)
    (E2_coef_1_differentiableAt_joint M r dt₀ lam₀ h) (E2_coef_2_differentiableAt_joint M r dt₀ lam₀ h)

/-- **F3 + F4 (ETDRK4 in `(dt, λ)`).** one ETDRK4 step assembled from the STORED propagators and coefficients is
    jointly differentiable in `(dt, λ)` wherever the nodes avoid `0` (every real `λ₀ dt₀`, in particular
    `λ₀ = 0`), for every differentiable `N` -/
theorem E4step_model_differentiableAt_joint (M : ℕ) (r dt₀ lam₀ : ℂ) (h : NodesAvoidZero M r (lam₀ * dt₀))
    (N : ℂ → ℂ) (hN : Differentiable ℂ N) (u : ℂ) :
    DifferentiableAt ℂ (fun p : ℂ × ℂ => E4step (exp_term p.1 p.2) (E4_half_exp_term p.1 p.2 M r)
      (E4_coef_1 p.1 p.2 M r) (E4_coef_2 p.1 p.2 M r) (E4_coef_3 p.1 p.2 M r) (E4_coef_4 p.1 p.2 M r)
      (E4_coef_5 p.1 p.2 M r) (E4_coef_6 p.1 p.2 M r) N u) (dt₀, lam₀) :=
  E4step_differentiableAt_coefs _ _ _ _ _ _ _ _ N u _ hN (exp_term_differentiable _)
    (E4_half_exp_term_differentiable M r _)
    (E4_coef_1_differentiableAt_joint M r dt₀ lam₀ h) (E4_coef_2_differentiableAt_joint M r dt₀ lam₀ h)
    (E4_coef_3_differentiableAt_joint M r dt₀ lam₀ h) (E4_coef_4_differentiableAt_joint M r dt₀ lam₀ h)
    (E4_coef_5_differentiableAt_joint M r dt₀ lam₀ h) (E4_coef_6_differentiableAt_joint M r dt₀ lam₀ h)

/-- **F3 + F4 (ETDRK4 in `dt`).** -/
theorem E4step_model_differentiableAt_dt (M : ℕ) (r dt₀ lam₀ : ℂ) (h : NodesAvoidZero M r (lam₀ * dt₀))
    (N : ℂ → ℂ) (hN : Differentiable ℂ N) (u : ℂ) :
    DifferentiableAt ℂ (fun dt : ℂ => E4step (exp_term dt lam₀) (E4_half_exp_term dt lam₀ M r)
      (E4_coef_1 dt lam₀ M r) (E4_coef_2 dt lam₀ M r) (E4_coef_3 dt lam₀ M r) (E4_coef_4 dt lam₀ M r)
      (E4_coef_5 dt lam₀ M r) (E4_coef_6 dt lam₀ M r) N u) dt₀ :=
  differentiableAt_dt_of_joint (fun dt lam => E4step (exp_term dt lam) (E4_half_exp_term dt lam M r)
      (E4_coef_1 dt lam M r) (E4_coef_2 dt lam M r) (E4_coef_3 dt lam M r) (E4_coef_4 dt lam M r)
      (E4_coef_5 dt lam M r) (E4_coef_6 dt lam M r) N u) dt₀ lam₀
    (E4step_model_differentiableAt_joint M r dt₀ lam₀ h N hN u)

/-- **F3 + F4 (ETDRK4 in the symbol).** -/
theorem E4step_model_differentiableAt_lam (M : ℕ) (r dt₀ lam₀ : ℂ) (h : NodesAvoidZero M r (lam₀ * dt₀))
    (N : ℂ → ℂ) (hN : Differentiable ℂ N) (u : ℂ) :
    DifferentiableAt ℂ (fun lam : ℂ => E4step (exp_term dt₀ lam) (E4_half_exp_term dt₀ lam M r)
      (E4_coef_1 dt₀ lam M r) (E4_coef_2 dt₀ lam M r) (E4_coef_3 dt₀ lam M r) (E4_coef_4 dt₀ lam M r)
      (E4_coef_5 dt₀ lam M r) (E4_coef_6 dt₀ lam M r) N u) lam₀ :=
  differentiableAt_lam_of_joint (fun dt lam => E4step (exp_term dt lam) (E4_half_exp_term dt lam M r)
      (E4_coef_1 dt lam M r) (E4_coef_2 dt lam M r) (E4_coef_3 dt lam M r) (E4_coef_4 dt lam M r)
      (E4_coef_5 dt lam M r) (E4_coef_6 dt lam M r) N u) dt₀ lam₀
    (E4step_model_differentiableAt_joint M r dt₀ lam₀ h N hN u)

/-- non-vacuity / the guarded point: the mean mode `λ₀ = 0`, any `dt₀`, any radius `r ≠ 0`, any `M`,
    polynomial reaction term -/
example (M : ℕ) (r : ℂ) (hr : r ≠ 0) (dt₀ u : ℂ) (cs : List ℂ) :
    DifferentiableAt ℂ (fun lam : ℂ => E4step (exp_term dt₀ lam) (E4_half_exp_term dt₀ lam M r)
      (E4_coef_1 dt₀ lam M r) (E4_coef_2 dt₀ lam M r) (E4_coef_3 dt₀ lam M r) (E4_coef_4 dt₀ lam M r)
      (E4_coef_5 dt₀ lam M r) (E4_coef_6 dt₀ lam M r) (polyEval cs) u) 0 :=
  E4step_model_differentiableAt_lam M r dt₀ 0 (by rw [zero_mul]; exact nodesAvoidZero_zero M r hr)
    (polyEval cs) (polyEval_differentiable cs) u

end Exponax.Diff
