import ExponaxModel.Proofs.SmallGapsInterp
import ExponaxModel.Proofs.MetricsAlgebra
import ExponaxModel.Proofs.MetricsGenEq
/-
SmallGaps, part G2 (C16 "unchanged when a band-limited pair is sampled at another resolution").

For a real state band-limited below both Nyquist wavenumbers (hypothesis of `C15_map_is_exact`) the p = 2 spatial
aggregate — `((L/N)^D Σ_j |u_j|²)^q`, any outer exponent `q`, any `L` — of the state mapped to another resolution
equals that of the state (`spatialAggregator_mapBetween`); the map is linear (`mapBetween_sub_getD`), so the
aggregate of the DIFFERENCE of a band-limited pair is unchanged as well (`spatialAggregator_mapBetween_pair`), hence
the regenerated `MSE` and `RMSE` of the pair agree across resolutions (`MSE_RMSE_resolution_independent`).

Route (G1-type spectrum facts + Parseval + the `(L/N)^D` weight): the state is `stateOf D N ms` with all modes inside
the band; its stored spectrum is `N^D · coefOf ms (k_h)` at EVERY resolution `N ≥ m` (`rfftnM_stateOf`); by Parseval
the mean square `N^{-D} Σ_j |u_j|²` is the in-band sum `Σ_h w_h |coefOf ms (k_h)|²`, which does not depend on `N`
(`Interp.full_sum`); `mapBetween` sends `stateOf D Nold ms` to `stateOf D Nnew ms` (`mapBetween_stateOf`).
-/
set_option linter.unusedVariables false
namespace Exponax.SmallGaps
open Exponax Exponax.Layout Exponax.Transform Exponax.DFT Exponax.Interp Exponax.ExactLinear Exponax.Metrics Finset

/-! ### the spectrum of an in-band superposition, at every resolution -/

/-- the resolution-independent Fourier coefficient of `Σ_m a_m cos(κ_m·x + φ_m)` at the wave vector `k` -/
noncomputable def coefOf (ms : Modes) (k : List ℤ) : ℂ :=
  (ms.map (fun x =>
    (if k = x.1 then (x.2.1 / 2 : ℂ) * Complex.exp (x.2.2 * Complex.I) else 0)
      + (if k = negK x.1 then (x.2.1 / 2 : ℂ) * Complex.exp (-(x.2.2 * Complex.I)) else 0))).sum

theorem rfftnM_stateOf (D N : ℕ) (hD : 0 < D) (hN : 0 < N) (ms : Modes)
    (hms : ∀ x ∈ ms, BelowNyquist D N x.1) (h : ℕ) (hh : h < numModes D N) :
    (rfftnM D N (stateOf D N ms)).getD h 0 = ((N ^ D : ℕ) : ℂ) * coefOf ms (wnFlat D N h) := by
  induction ms with
  | nil =>
    rw [stateOf, List.map_nil, vsum_nil, rfftnM_vzero D N hN, vzero_getD]
    simp [coefOf]
  | cons x ms ih =>
    have hx := hms x List.mem_cons_self
    have ih' := ih (fun x' hx' => hms x' (List.mem_cons_of_mem _ hx'))
    rw [stateOf] at ih'
    rw [stateOf, List.map_cons, vsum_cons, rfftnM_vadd D N hN, vadd_getD _ _ _ _ hh, ih',
      rfftnM_modeField D N hD hN x.1 hx x.2.1 x.2.2 h hh]
    unfold coefOf
    rw [List.map_cons, List.sum_cons]
    split_ifs <;> ring

theorem coefOf_eq_zero (D m : ℕ) (ms : Modes) (hms : ∀ x ∈ ms, BelowNyquist D m x.1) (k : List ℤ)
    (hk : ¬ BelowNyquist D m k) : coefOf ms k = 0 := by
  unfold coefOf
  apply List.sum_eq_zero
  intro z hz
  rw [List.mem_map] at hz
  obtain ⟨x, hx, rfl⟩ := hz
  rw [if_neg (fun (he : k = x.1) => hk (by rw [he]; exact hms x hx)),
    if_neg (fun (he : k = negK x.1) => hk (by rw [he]; exact (hms x hx).negK)), add_zero]

/-! ### the mean square of an in-band superposition does not depend on the resolution -/

/-- the summand of the in-band Parseval sum, as a function of the wave vector -/
noncomputable def msG (D : ℕ) (ms : Modes) (k : List ℤ) : ℂ :=
  (((bandWeight D k : ℝ) * ‖coefOf ms k‖ ^ 2 : ℝ) : ℂ)

/-- the resolution-independent value of the mean square -/
noncomputable def msCanon (E m : ℕ) (ms : Modes) : ℝ :=
  (∑ l ∈ range ((m + 1) / 2), leadCanon m E (fun κ => msG (E + 1) ms (κ ++ [((l : ℕ) : ℤ)]))).re

theorem meanSquare_stateOf (E N m : ℕ) (hN : 0 < N) (hmN : m ≤ N) (hm1 : 1 ≤ m) (ms : Modes)
    (hms : ∀ x ∈ ms, BelowNyquist (E + 1) m x.1) :
    1 / ((N ^ (E + 1) : ℕ) : ℝ) * ∑ j ∈ range (N ^ (E + 1)), ‖(stateOf (E + 1) N ms).getD j 0‖ ^ 2
      = msCanon E m ms := by
  have hmo : ∀ x ∈ ms, BelowNyquist (E + 1) N x.1 := fun x hx => belowNyquist_mono hmN (hms x hx)
  have hNne : ((N ^ (E + 1) : ℕ) : ℝ) ≠ 0 := by exact_mod_cast (pow_pos hN _).ne'
  have key : ((1 / ((N ^ (E + 1) : ℕ) : ℝ) * ∑ j ∈ range (N ^ (E + 1)),
      ‖(stateOf (E + 1) N ms).getD j 0‖ ^ 2 : ℝ) : ℂ)
      = ∑ l ∈ range ((m + 1) / 2), leadCanon m E (fun κ => msG (E + 1) ms (κ ++ [((l : ℕ) : ℤ)])) := by
    rw [← full_sum m N hN hmN hm1 E (msG (E + 1) ms),
      parseval_nd (E + 1) N (by omega) hN _ (stateOf_real (E + 1) N ms), ← mul_assoc, Finset.mul_sum,
      Complex.ofReal_sum]
    apply Finset.sum_congr rfl
    intro h hh
    have hh' := Finset.mem_range.mp hh
    rw [rfftnM_stateOf (E + 1) N (by omega) hN ms hmo h hh', norm_mul, Complex.norm_natCast, mul_pow]
    by_cases hb : inBand m (wnFlat (E + 1) N h)
    · rw [if_pos hb, herm_weight_of_inBand (E + 1) N m (by omega) hN hmN h hh' hb]
      unfold msG
      congr 1
      field_simp
    · rw [if_neg hb, coefOf_eq_zero (E + 1) m ms hms _
        (fun hB => hb ((inBand_wnFlat_iff_belowNyquist (E + 1) N m h).mpr hB))]
      simp
  unfold msCanon
  rw [← key, Complex.ofReal_re]

/-- **G2 (sum form).** the mean square `N^{-D} Σ_j |u_j|²` of a real band-limited state is unchanged by
    `map_between_resolutions` — every `D ≥ 1`, finer or coarser, all parities, both oddball options -/
theorem meanSquare_mapBetween (D Nold Nnew : ℕ) (hD : 0 < D) (hNo : 0 < Nold) (hNn : 0 < Nnew) (ob : Bool)
    (u : Array ℂ) (hsz : u.size = Nold ^ D) (hre : ∀ j < Nold ^ D, (u.getD j 0).im = 0)
    (hb : BandLimitedN D Nold (min Nold Nnew) u) :
    1 / ((Nnew ^ D : ℕ) : ℝ) * ∑ j ∈ range (Nnew ^ D), ‖(mapBetween D Nold Nnew ob u).getD j 0‖ ^ 2
      = 1 / ((Nold ^ D : ℕ) : ℝ) * ∑ j ∈ range (Nold ^ D), ‖u.getD j 0‖ ^ 2 := by
  by_cases hne : Nold = Nnew
  · subst hne
    unfold mapBetween
    rw [if_pos rfl]
  · obtain ⟨ms, hms, rfl⟩ := exists_modes_inBand D Nold (min Nold Nnew) hD hNo (by omega) u hsz hre hb
    rw [mapBetween_stateOf D Nold Nnew hD hNo hNn hne ob ms hms]
    obtain ⟨E, rfl⟩ : ∃ E, D = E + 1 := ⟨D - 1, by omega⟩
    rw [meanSquare_stateOf E Nnew (min Nold Nnew) hNn (by omega) (by omega) ms hms,
      meanSquare_stateOf E Nold (min Nold Nnew) hNo (by omega) (by omega) ms hms]

/-! ### the spatial aggregator on real arrays -/

/-- real parts of a complex array (the physical field returned by `map_between_resolutions` is real) -/
noncomputable def reArr (v : Array ℂ) : Array ℝ := v.map Complex.re

@[simp] theorem reArr_size (v : Array ℂ) : (reArr v).size = v.size := by simp [reArr]

theorem reArr_getD (v : Array ℂ) (j : ℕ) : (reArr v).getD j 0 = (v.getD j 0).re := by
  unfold reArr
  simp only [Array.getD_eq_getD_getElem?, Array.getElem?_map]
  cases v[j]? <;> simp

theorem reArr_toComplex (ur : Array ℝ) : reArr (toComplex ur) = ur := by
  apply Array.ext
  · simp [toComplex]
  · intro i h1 h2
    simp [reArr, toComplex]

theorem mapBetween_real (D Nold Nnew : ℕ) (hNn : 0 < Nnew) (ob : Bool) (u : Array ℂ)
    (hre : ∀ j < Nold ^ D, (u.getD j 0).im = 0) (j : ℕ) (hj : j < Nnew ^ D) :
    ((mapBetween D Nold Nnew ob u).getD j 0).im = 0 := by
  unfold mapBetween
  split_ifs with he
  · subst he; exact hre j hj
  · exact Conserve.irfftnM_real D Nnew hNn _ j hj

theorem norm_sq_of_im_zero' (z : ℂ) (hz : z.im = 0) : ‖z‖ ^ 2 = z.re ^ 2 := by
  rw [Complex.sq_norm, Complex.normSq_apply, hz]
  ring

/-- the p = 2 aggregate of the real parts of a real complex array of length `N^D`, through the mean square -/
theorem spatialAggregator_reArr (D N : ℕ) (hN : 0 < N) (L q : ℝ) (v : Array ℂ) (hsz : v.size = N ^ D)
    (hre : ∀ j < N ^ D, (v.getD j 0).im = 0) :
    spatialAggregator D N L 2 q (reArr v)
      = (L ^ D * (1 / ((N ^ D : ℕ) : ℝ) * ∑ j ∈ range (N ^ D), ‖v.getD j 0‖ ^ 2)) ^ q := by
  rw [spatialAggregator_eq_sum, reArr_size, hsz]
  congr 1
  have h1 : ∀ j ∈ range (N ^ D), |(reArr v).getD j 0| ^ (2 : ℝ) = ‖v.getD j 0‖ ^ 2 := by
    intro j hj
    rw [Real.rpow_two, reArr_getD, sq_abs, norm_sq_of_im_zero' _ (hre j (Finset.mem_range.mp hj))]
  rw [Finset.sum_congr rfl h1, div_pow]
  have hNne : ((N : ℝ) ^ D) ≠ 0 := pow_ne_zero _ (by exact_mod_cast hN.ne')
  push_cast
  field_simp

/-- **G2.** `spatialAggregator D Nnew L 2 q (map_between_resolutions u) = spatialAggregator D Nold L 2 q u` for every
    real band-limited `u` (given as a real array `ur`), every `L`, every outer exponent `q` -/
theorem spatialAggregator_mapBetween (D Nold Nnew : ℕ) (hD : 0 < D) (hNo : 0 < Nold) (hNn : 0 < Nnew) (ob : Bool)
    (L q : ℝ) (ur : Array ℝ) (hsz : ur.size = Nold ^ D)
    (hb : BandLimitedN D Nold (min Nold Nnew) (toComplex ur)) :
    spatialAggregator D Nnew L 2 q (reArr (mapBetween D Nold Nnew ob (toComplex ur)))
      = spatialAggregator D Nold L 2 q ur := by
  have hszc : (toComplex ur).size = Nold ^ D := by simp [toComplex, hsz]
  have hrec : ∀ j < Nold ^ D, ((toComplex ur).getD j 0).im = 0 := fun j _ => by
    rw [toComplex_getD]; exact Complex.ofReal_im _
  have hszm : (mapBetween D Nold Nnew ob (toComplex ur)).size = Nnew ^ D := by
    by_cases hne : Nold = Nnew
    · subst hne; unfold mapBetween; rw [if_pos rfl]; exact hszc
    · exact mapBetween_size D Nold Nnew hne ob _
  rw [spatialAggregator_reArr D Nnew hNn L q _ hszm (mapBetween_real D Nold Nnew hNn ob _ hrec),
    meanSquare_mapBetween D Nold Nnew hD hNo hNn ob _ hszc hrec hb,
    ← spatialAggregator_reArr D Nold hNo L q _ hszc hrec, reArr_toComplex]

/-! ### linearity of the map, and the pair -/

/-- entrywise difference of two arrays (length `n`) -/
noncomputable def vsubA (n : ℕ) (u r : Array ℂ) : Array ℂ := tab n (fun j => u.getD j 0 - r.getD j 0)

theorem rfftnM_vsubA (D N : ℕ) (hN : 0 < N) (u r : Array ℂ) (h : ℕ) (hh : h < numModes D N) :
    (rfftnM D N (vsubA (N ^ D) u r)).getD h 0 = (rfftnM D N u).getD h 0 - (rfftnM D N r).getD h 0 := by
  rw [rfftnM_getD D N hN _ h hh, rfftnM_getD D N hN u h hh, rfftnM_getD D N hN r h hh, ← Finset.sum_sub_distrib]
  apply Finset.sum_congr rfl
  intro j hj
  rw [vsubA, tab_getD _ _ _ _ (Finset.mem_range.mp hj), sub_mul]

theorem mapSpectrum_sub (D Nold Nnew : ℕ) (ob : Bool) (A B C : Array ℂ)
    (hABC : ∀ h < numModes D Nold, A.getD h 0 = B.getD h 0 - C.getD h 0) (h' : ℕ) (hh : h' < numModes D Nnew) :
    (mapSpectrum D Nold Nnew ob A).getD h' 0
      = (mapSpectrum D Nold Nnew ob B).getD h' 0 - (mapSpectrum D Nold Nnew ob C).getD h' 0 := by
  have hold : ∀ i, oldSpec D Nold Nnew ob A i = oldSpec D Nold Nnew ob B i - oldSpec D Nold Nnew ob C i := by
    intro i
    unfold oldSpec
    split_ifs with h1 h2
    · rw [sub_zero]
    · rw [hABC i h1, sub_div]
    · rw [sub_zero]
  rw [mapSpectrum_getD D Nold Nnew ob A h' hh, mapSpectrum_getD D Nold Nnew ob B h' hh,
    mapSpectrum_getD D Nold Nnew ob C h' hh]
  split_ifs with hc
  · rw [sub_zero]
  · cases srcIndex D Nold Nnew (unflatten (wavenumberShape D Nnew) h') with
    | none => simp
    | some idx => simp only [hold]; ring

theorem irfftnM_sub (D N : ℕ) (hN : 0 < N) (A B C : Array ℂ)
    (hABC : ∀ h < numModes D N, A.getD h 0 = B.getD h 0 - C.getD h 0) (j : ℕ) (hj : j < N ^ D) :
    (irfftnM D N A).getD j 0 = (irfftnM D N B).getD j 0 - (irfftnM D N C).getD j 0 := by
  rw [irfftnM_getD D N hN A j hj, irfftnM_getD D N hN B j hj, irfftnM_getD D N hN C j hj, ← sub_div,
    ← Finset.sum_sub_distrib]
  congr 1
  apply Finset.sum_congr rfl
  intro h hh
  rw [hABC h (Finset.mem_range.mp hh), sub_mul, Complex.sub_re, Complex.ofReal_sub, mul_sub]

/-- **`map_between_resolutions` is linear**: the map of a difference is the difference of the maps -/
theorem mapBetween_sub_getD (D Nold Nnew : ℕ) (hNo : 0 < Nold) (hNn : 0 < Nnew) (ob : Bool) (u r : Array ℂ)
    (j : ℕ) (hj : j < Nnew ^ D) :
    (mapBetween D Nold Nnew ob (vsubA (Nold ^ D) u r)).getD j 0
      = (mapBetween D Nold Nnew ob u).getD j 0 - (mapBetween D Nold Nnew ob r).getD j 0 := by
  unfold mapBetween
  split_ifs with he
  · subst he
    rw [vsubA, tab_getD _ _ _ _ hj]
  · exact irfftnM_sub D Nnew hNn _ _ _ (fun h' hh' =>
      mapSpectrum_sub D Nold Nnew ob _ _ _ (fun h hh => rfftnM_vsubA D Nold hNo u r h hh) h' hh') j hj

/-- the difference of two band-limited states is band-limited -/
theorem bandLimitedN_vsubA (D N m : ℕ) (hN : 0 < N) (u r : Array ℂ) (hu : BandLimitedN D N m u)
    (hr : BandLimitedN D N m r) : BandLimitedN D N m (vsubA (N ^ D) u r) := by
  intro h hh hnb
  rw [rfftnM_vsubA D N hN u r h hh, hu h hh hnb, hr h hh hnb, sub_zero]

/-- the difference of two real arrays -/
noncomputable def rsub (n : ℕ) (u r : Array ℝ) : Array ℝ := tab n (fun j => u.getD j 0 - r.getD j 0)

theorem toComplex_rsub (n : ℕ) (u r : Array ℝ) : toComplex (rsub n u r) = vsubA n (toComplex u) (toComplex r) := by
  apply Array.ext
  · simp [toComplex, rsub, vsubA]
  · intro i h1 h2
    have hi : i < n := by simpa [vsubA] using h2
    have e1 : (toComplex (rsub n u r))[i] = (toComplex (rsub n u r)).getD i 0 := by
      simp [Array.getD, h1]
    have e2 : (vsubA n (toComplex u) (toComplex r))[i] = (vsubA n (toComplex u) (toComplex r)).getD i 0 := by
      simp [Array.getD, h2]
    rw [e1, e2, toComplex_getD, rsub, tab_getD _ _ _ _ hi, vsubA, tab_getD _ _ _ _ hi, toComplex_getD,
      toComplex_getD]
    push_cast; rfl

/-- **G2 for a pair.** the p = 2 aggregate of the difference of a band-limited real pair is the same whether the
    pair is compared on the old grid or after both members have been mapped to the new one -/
theorem spatialAggregator_mapBetween_pair (D Nold Nnew : ℕ) (hD : 0 < D) (hNo : 0 < Nold) (hNn : 0 < Nnew)
    (ob : Bool) (L q : ℝ) (ur rr : Array ℝ) (hszu : ur.size = Nold ^ D) (hszr : rr.size = Nold ^ D)
    (hbu : BandLimitedN D Nold (min Nold Nnew) (toComplex ur))
    (hbr : BandLimitedN D Nold (min Nold Nnew) (toComplex rr)) :
    spatialAggregator D Nnew L 2 q (rsub (Nnew ^ D)
        (reArr (mapBetween D Nold Nnew ob (toComplex ur))) (reArr (mapBetween D Nold Nnew ob (toComplex rr))))
      = spatialAggregator D Nold L 2 q (rsub (Nold ^ D) ur rr) := by
  have hd := spatialAggregator_mapBetween D Nold Nnew hD hNo hNn ob L q (rsub (Nold ^ D) ur rr)
    (by simp [rsub]) (by rw [toComplex_rsub]; exact bandLimitedN_vsubA D Nold _ hNo _ _ hbu hbr)
  rw [← hd]
  congr 1
  have hszm : (mapBetween D Nold Nnew ob (toComplex (rsub (Nold ^ D) ur rr))).size = Nnew ^ D := by
    by_cases hne : Nold = Nnew
    · subst hne; unfold mapBetween; rw [if_pos rfl]; simp [toComplex, rsub]
    · exact mapBetween_size D Nold Nnew hne ob _
  apply Array.ext
  · rw [reArr_size, hszm]; simp [rsub]
  · intro i h1 h2
    have hi : i < Nnew ^ D := by simpa [rsub] using h1
    have e1 : ∀ (a : Array ℝ) (h : i < a.size), a[i] = a.getD i 0 := fun a h => by simp [Array.getD, h]
    rw [e1 _ h1, e1 _ h2, rsub, tab_getD _ _ _ _ hi, reArr_getD, reArr_getD, reArr_getD, toComplex_rsub,
      mapBetween_sub_getD D Nold Nnew hNo hNn ob _ _ i hi, Complex.sub_re]

/-- **G2, the regenerated metrics.** `MSE` and `RMSE` (`exponax/metrics/_spatial.py`, regenerated) of a band-limited
    real pair (one channel) are the same on the old grid and after mapping both members to the new grid -/
theorem MSE_RMSE_resolution_independent (D Nold Nnew : ℕ) (hD : 0 < D) (hNo : 0 < Nold) (hNn : 0 < Nnew)
    (ob : Bool) (L : ℝ) (ur rr : Array ℝ) (hszu : ur.size = Nold ^ D) (hszr : rr.size = Nold ^ D)
    (hbu : BandLimitedN D Nold (min Nold Nnew) (toComplex ur))
    (hbr : BandLimitedN D Nold (min Nold Nnew) (toComplex rr)) :
    let vu := reArr (mapBetween D Nold Nnew ob (toComplex ur))
    let vr := reArr (mapBetween D Nold Nnew ob (toComplex rr))
    Gen.MetricsGen.MSE D Nnew [vu] (some [vr]) L = Gen.MetricsGen.MSE D Nold [ur] (some [rr]) L ∧
    Gen.MetricsGen.RMSE D Nnew [vu] (some [vr]) L = Gen.MetricsGen.RMSE D Nold [ur] (some [rr]) L := by
  intro vu vr
  have hszv : vu.size = Nnew ^ D := by
    show (reArr _).size = _
    rw [reArr_size]
    by_cases hne : Nold = Nnew
    · subst hne; unfold mapBetween; rw [if_pos rfl]; simp [toComplex, hszu]
    · exact mapBetween_size D Nold Nnew hne ob _
  have hmodel : ∀ (N : ℕ) (a b : Array ℝ) (p q : ℝ), a.size = N ^ D →
      Gen.MetricsGen.spatialModel 0 D N L p q [a] [b] = spatialAggregator D N L p q (rsub (N ^ D) a b) := by
    intro N a b p q ha
    unfold Gen.MetricsGen.spatialModel Gen.MetricsGen.chanAgg Gen.MetricsGen.chanSub
    rw [Metrics.combine_zero]
    simp [rsub, ha]
  rw [Gen.MetricsGen.MSE_eq, Gen.MetricsGen.MSE_eq, Gen.MetricsGen.RMSE_eq, Gen.MetricsGen.RMSE_eq,
    hmodel Nnew vu vr _ _ hszv, hmodel Nold ur rr _ _ hszu, hmodel Nnew vu vr _ _ hszv,
    hmodel Nold ur rr _ _ hszu, lit_two_real, qlit_half_real]
  have h1 : (lit 1 : ℝ) = 1 := by simp
  rw [h1]
  exact ⟨congrArg some (spatialAggregator_mapBetween_pair D Nold Nnew hD hNo hNn ob L 1 ur rr hszu hszr hbu hbr),
    congrArg some (spatialAggregator_mapBetween_pair D Nold Nnew hD hNo hNn ob L (1 / 2) ur rr hszu hszr hbu hbr)⟩

/-! ### non-vacuity -/

/-- a real array of the right length whose complexification is band-limited below both Nyquist wavenumbers
    (`4 × 4` grid, to be mapped to `6 × 6`), and which is not constant -/
example : ∃ ur : Array ℝ, ur.size = 4 ^ 2 ∧ BandLimitedN 2 4 (min 4 6) (toComplex ur) := by
  have hms : ∀ x ∈ ([([1, 1], 2, 0.5)] : Modes), BelowNyquist 2 (min 4 6) x.1 := by
    intro x hx
    simp only [List.mem_cons, List.mem_nil_iff, or_false] at hx
    subst hx
    exact ⟨rfl, by intro d hd; interval_cases d <;> simp⟩
  refine ⟨reArr (stateOf 2 4 [([1, 1], 2, 0.5)]), by simp, ?_⟩
  have e : toComplex (reArr (stateOf 2 4 [([1, 1], 2, 0.5)])) = stateOf 2 4 [([1, 1], 2, 0.5)] := by
    apply array_ext_getD _ _ (4 ^ 2) (by simp [toComplex]) (by simp)
    intro j hj
    rw [toComplex_getD, reArr_getD]
    apply Complex.ext
    · simp
    · rw [Complex.ofReal_im, stateOf_real 2 4 _ j hj]
  rw [e]
  exact bandLimitedN_stateOf 2 4 (min 4 6) (by norm_num) (by norm_num) (by norm_num) _ hms

end Exponax.SmallGaps
