import ExponaxModel.Proofs.AliasMultiOperators
import ExponaxModel.Proofs.AliasMultiChannels
/-
C03, T1 (link to the model), continued: the pointwise polynomial `c₀ + c₁u + c₂u² (+ c₃u³)` and the single-channel
non-conservative convection `−b·u·Σ_d ∂_d u` as continuous operators applied to the continuous band-truncated field
`P_K u = PKfield c s x`.

  **`polynomial_quadratic_continuous_nd`** (`3·Kc < N`), **`polynomial_cubic_continuous_nd`** (`4·Kc < N`),
  **`convection_single_nc_continuous_nd`** (`3·Kc < N`): on every retained stored mode the model output is `N^D ×` the
  coefficient at `k(h)` of the continuous operator applied to `P_K u` (a trigonometric polynomial of band `2Kc` resp.
  `3Kc`, coefficient family unique by `hasCoeffs_unique`, computable on any finer grid by `hasCoeffs_fine_grid`);
  `0` on dropped modes.
-/
set_option linter.unusedVariables false
namespace Exponax.AliasMulti
open Exponax Exponax.Layout Exponax.Transform Exponax.DFT Exponax.Nonlin Exponax.Alias Exponax.AliasND Finset

/-! ### two more closure properties -/

/-- a constant function: coefficient family `a·δ_0` -/
theorem hasCoeffs_const {D : ℕ} (s : ℝ) {L : ℤ} (hL : 0 ≤ L) (a : ℂ) :
    HasCoeffs s L (fun _ : Fin D → ℝ => a) (fun r => if r = 0 then a else 0) := by
  intro ξ
  have h0 : (0 : Fin D → ℤ) ∈ box D L := mem_box.mpr (fun d => by rw [Pi.zero_apply, abs_zero]; exact hL)
  unfold tpoly trigEval
  rw [Finset.sum_eq_single (0 : Fin D → ℤ)]
  · beta_reduce
    rw [if_pos rfl, mono_zero, mul_one]
  · intro p _ hp
    beta_reduce
    rw [if_neg hp, zero_mul]
  · intro h
    exact absurd h0 h

/-- a band-`K` polynomial is a band-`L` polynomial for `K ≤ L` (coefficients extended by `0`) -/
theorem hasCoeffs_raise {D : ℕ} {s : ℝ} {K L : ℤ} (hKL : K ≤ L) {f : (Fin D → ℝ) → ℂ} {A : (Fin D → ℤ) → ℂ}
    (hf : HasCoeffs s K f A) : HasCoeffs s L f (truncV K A) := by
  intro ξ
  rw [hf ξ]
  unfold tpoly trigEval
  have h1 : ∑ p ∈ box D K, A p * mono (torusPt s ξ) p
      = ∑ p ∈ box D K, truncV K A p * mono (torusPt s ξ) p :=
    Finset.sum_congr rfl (fun p hp => by rw [truncV_of_le _ _ _ (mem_box.mp hp)])
  rw [h1]
  apply Finset.sum_subset
  · intro p hp
    rw [mem_box] at hp ⊢
    exact fun d => (hp d).trans hKL
  · intro p _ hp
    rw [truncV_of_not _ _ _ (fun h => hp (mem_box.mpr h)), zero_mul]

/-! ### the documented operators -/

/-- `c₀ + c₁u + c₂u²` -/
noncomputable def opPoly2 {D : ℕ} (c0 c1 c2 : ℂ) (u : (Fin D → ℝ) → ℂ) : (Fin D → ℝ) → ℂ :=
  fun ξ => c0 + c1 * u ξ + c2 * (u ξ * u ξ)

/-- `c₀ + c₁u + c₂u² + c₃u³` -/
noncomputable def opPoly3 {D : ℕ} (c0 c1 c2 c3 : ℂ) (u : (Fin D → ℝ) → ℂ) : (Fin D → ℝ) → ℂ :=
  fun ξ => c0 + c1 * u ξ + c2 * (u ξ * u ξ) + c3 * (u ξ * u ξ * u ξ)

/-- `−b·u·Σ_d ∂_d u` (`ConvectionNonlinearFun(single_channel=True, conservative=False)`) -/
noncomputable def opNonConsConv {D : ℕ} (b : ℂ) (u : (Fin D → ℝ) → ℂ) : (Fin D → ℝ) → ℂ :=
  fun ξ => -b * ∑ d : Fin D, u ξ * pderiv d u ξ

noncomputable def poly2Coef {D : ℕ} (K : ℤ) (c0 c1 c2 : ℂ) (U : (Fin D → ℤ) → ℂ) : (Fin D → ℤ) → ℂ :=
  fun r => (if r = 0 then c0 else 0) + c1 * truncV K U r + c2 * conv K K U U r

noncomputable def poly3Coef {D : ℕ} (K : ℤ) (c0 c1 c2 c3 : ℂ) (U : (Fin D → ℤ) → ℂ) : (Fin D → ℤ) → ℂ :=
  fun r => (if r = 0 then c0 else 0) + c1 * truncV K U r + c2 * truncV (K + K) (conv K K U U) r
    + c3 * conv3 K U U U r

noncomputable def nonConsConvCoef {D : ℕ} (s : ℝ) (K : ℤ) (b : ℂ) (U : (Fin D → ℤ) → ℂ) :
    (Fin D → ℤ) → ℂ :=
  fun r => -b * ∑ d : Fin D, conv K K U (dcoef s d U) r

theorem opPoly2_hasCoeffs {D : ℕ} {s : ℝ} {K : ℤ} (hK : 0 ≤ K) (c0 c1 c2 : ℂ) {u : (Fin D → ℝ) → ℂ}
    {U : (Fin D → ℤ) → ℂ} (hu : HasCoeffs s K u U) :
    HasCoeffs s (K + K) (opPoly2 c0 c1 c2 u) (poly2Coef K c0 c1 c2 U) := by
  unfold opPoly2 poly2Coef
  exact hasCoeffs_add (hasCoeffs_add (hasCoeffs_const s (by omega) c0)
    (hasCoeffs_smul c1 (hasCoeffs_raise (by omega) hu))) (hasCoeffs_smul c2 (hasCoeffs_mul hu hu))

theorem opPoly3_hasCoeffs {D : ℕ} {s : ℝ} {K : ℤ} (hK : 0 ≤ K) (c0 c1 c2 c3 : ℂ) {u : (Fin D → ℝ) → ℂ}
    {U : (Fin D → ℤ) → ℂ} (hu : HasCoeffs s K u U) :
    HasCoeffs s (K + K + K) (opPoly3 c0 c1 c2 c3 u) (poly3Coef K c0 c1 c2 c3 U) := by
  unfold opPoly3 poly3Coef
  exact hasCoeffs_add (hasCoeffs_add (hasCoeffs_add (hasCoeffs_const s (by omega) c0)
    (hasCoeffs_smul c1 (hasCoeffs_raise (by omega) hu)))
    (hasCoeffs_smul c2 (hasCoeffs_raise (by omega) (hasCoeffs_mul hu hu))))
    (hasCoeffs_smul c3 (hasCoeffs_mul3 hu hu hu))

theorem opNonConsConv_hasCoeffs {D : ℕ} {s : ℝ} {K : ℤ} (b : ℂ) {u : (Fin D → ℝ) → ℂ}
    {U : (Fin D → ℤ) → ℂ} (hu : HasCoeffs s K u U) :
    HasCoeffs s (K + K) (opNonConsConv b u) (nonConsConvCoef s K b U) := by
  unfold opNonConsConv nonConsConvCoef
  exact hasCoeffs_smul (-b)
    (hasCoeffs_sum Finset.univ _ _ (fun d _ => hasCoeffs_mul hu (hasCoeffs_pderiv d hu)))

/-! ### link with the model's alias-free forms -/

theorem conv_ucoef (c : Cfg ℂ) (x : Array ℂ) (k : Fin c.D → ℤ) :
    conv (Kc c) (Kc c) (ucoef c x) (ucoef c x) k
      = (1 / ((c.N ^ c.D : ℕ) : ℂ)) * linConv c.D c.N (Kc c) (dftV c.D c.N x) (dftV c.D c.N x) k := by
  rw [linConv_eq_conv]
  unfold ucoef
  rw [conv_smul]
  ring

theorem conv3_ucoef (c : Cfg ℂ) (x : Array ℂ) (k : Fin c.D → ℤ) :
    conv3 (Kc c) (ucoef c x) (ucoef c x) (ucoef c x) k
      = (1 / ((c.N ^ c.D : ℕ) : ℂ)) *
          linConv3 c.D c.N (Kc c) (dftV c.D c.N x) (dftV c.D c.N x) (dftV c.D c.N x) k := by
  rw [linConv3_eq_conv3]
  unfold ucoef
  rw [conv3_smul]
  ring

/-- **polynomial `c₀ + c₁u + c₂u²`, every `D ≥ 1`, `3·Kc < N`** — upgraded statement -/
theorem polynomial_quadratic_continuous_nd (c : Cfg ℂ) (hD : 0 < c.D) (hq : c.fq ≠ 0)
    (hK : 3 * Kc c < (c.N : ℤ)) (hN : 0 < c.N) (s : ℝ) (c0 c1 c2 : ℂ) (x : Array ℂ)
    (hx : IsRealND c.D c.N x) :
    (0 ≤ Kc c → HasCoeffs s (Kc c + Kc c) (opPoly2 c0 c1 c2 (PKfield c s x))
      (poly2Coef (Kc c) c0 c1 c2 (ucoef c x))) ∧
    ∀ h, h < numModes c.D c.N →
      (mask c h = 1 → at2 (polynomial c 1 [c0, c1, c2] #[rfftnM c.D c.N x]) 0 h
          = ((c.N ^ c.D : ℕ) : ℂ) * poly2Coef (Kc c) c0 c1 c2 (ucoef c x) (kvec c.D c.N h)) ∧
      (mask c h = 0 → at2 (polynomial c 1 [c0, c1, c2] #[rfftnM c.D c.N x]) 0 h = 0) := by
  have hne : ((c.N ^ c.D : ℕ) : ℂ) ≠ 0 := by exact_mod_cast (pow_pos hN c.D).ne'
  refine ⟨fun hK0 => opPoly2_hasCoeffs hK0 c0 c1 c2 (PKfield_hasCoeffs c s x), fun h hh => ?_⟩
  have := polynomial_quadratic_alias_free_nd c hD hq hK hN c0 c1 c2 x hx h hh
  refine ⟨fun hm => ?_, this.2⟩
  have hk : ∀ d, |kvec c.D c.N h d| ≤ Kc c := (mask_nd_eq_one_iff c hq h).mp hm
  rw [this.1 hm]
  unfold poly2Coef
  rw [truncV_of_le _ _ _ hk, conv_ucoef, rfftn_eq_dftV c.D c.N hN x h hh]
  simp only [kvec_eq_zero_iff c.D c.N h hD hN hh]
  unfold ucoef
  split_ifs <;> field_simp
  ring

/-- **polynomial `c₀ + c₁u + c₂u² + c₃u³`, every `D ≥ 1`, `4·Kc < N`** — upgraded statement -/
theorem polynomial_cubic_continuous_nd (c : Cfg ℂ) (hD : 0 < c.D) (hq : c.fq ≠ 0)
    (hK : 4 * Kc c < (c.N : ℤ)) (hN : 0 < c.N) (s : ℝ) (c0 c1 c2 c3 : ℂ) (x : Array ℂ)
    (hx : IsRealND c.D c.N x) :
    (0 ≤ Kc c → HasCoeffs s (Kc c + Kc c + Kc c) (opPoly3 c0 c1 c2 c3 (PKfield c s x))
      (poly3Coef (Kc c) c0 c1 c2 c3 (ucoef c x))) ∧
    ∀ h, h < numModes c.D c.N →
      (mask c h = 1 → at2 (polynomial c 1 [c0, c1, c2, c3] #[rfftnM c.D c.N x]) 0 h
          = ((c.N ^ c.D : ℕ) : ℂ) * poly3Coef (Kc c) c0 c1 c2 c3 (ucoef c x) (kvec c.D c.N h)) ∧
      (mask c h = 0 → at2 (polynomial c 1 [c0, c1, c2, c3] #[rfftnM c.D c.N x]) 0 h = 0) := by
  have hne : ((c.N ^ c.D : ℕ) : ℂ) ≠ 0 := by exact_mod_cast (pow_pos hN c.D).ne'
  refine ⟨fun hK0 => opPoly3_hasCoeffs hK0 c0 c1 c2 c3 (PKfield_hasCoeffs c s x), fun h hh => ?_⟩
  have := polynomial_cubic_alias_free_nd c hD hq hK hN c0 c1 c2 c3 x hx h hh
  refine ⟨fun hm => ?_, this.2⟩
  have hk : ∀ d, |kvec c.D c.N h d| ≤ Kc c := (mask_nd_eq_one_iff c hq h).mp hm
  rw [this.1 hm]
  unfold poly3Coef
  rw [truncV_of_le _ _ _ hk, truncV_of_le _ _ _ (box_le_double (Kc c) _ hk), conv_ucoef, conv3_ucoef,
    rfftn_eq_dftV c.D c.N hN x h hh]
  simp only [kvec_eq_zero_iff c.D c.N h hD hN hh]
  unfold ucoef
  split_ifs <;> field_simp
  ring

theorem nonConsConvCoef_model (c : Cfg ℂ) (hN : 0 < c.N) (s : ℝ) (hs : c.s = (s : ℂ)) (b : ℂ) (x : Array ℂ)
    (k : Fin c.D → ℤ) :
    ((c.N ^ c.D : ℕ) : ℂ) * nonConsConvCoef s (Kc c) b (ucoef c x) k
      = -b * ∑ d ∈ range c.D, linConv c.D c.N (Kc c) (dftV c.D c.N x) (dspec c d x) k := by
  have hne : ((c.N ^ c.D : ℕ) : ℂ) ≠ 0 := by exact_mod_cast (pow_pos hN c.D).ne'
  unfold nonConsConvCoef
  rw [← Fin.sum_univ_eq_sum_range (fun d => linConv c.D c.N (Kc c) (dftV c.D c.N x) (dspec c d x) k) c.D]
  have e : ∀ d : Fin c.D, conv (Kc c) (Kc c) (ucoef c x) (dcoef s d (ucoef c x)) k
      = (1 / ((c.N ^ c.D : ℕ) : ℂ)) * linConv c.D c.N (Kc c) (dftV c.D c.N x) (dspec c d x) k := by
    intro d
    rw [dcoef_ucoef c s hs x d, linConv_eq_conv]
    unfold ucoef
    rw [conv_smul (Kc c) (Kc c) (1 / ((c.N ^ c.D : ℕ) : ℂ)) (1 / ((c.N ^ c.D : ℕ) : ℂ))
      (dftV c.D c.N x) (dspec c d x) k]
    ring
  rw [Finset.sum_congr rfl (fun d _ => e d), ← Finset.mul_sum]
  field_simp

/-- **single-channel non-conservative convection `−b·u·Σ_d ∂_d u`, every `D ≥ 1`, `3·Kc < N`** — upgraded statement -/
theorem convection_single_nc_continuous_nd (c : Cfg ℂ) (hD : 0 < c.D) (hq : c.fq ≠ 0)
    (hK : 3 * Kc c < (c.N : ℤ)) (hN : 0 < c.N) (s : ℝ) (hs : c.s = (s : ℂ)) (b : ℂ) (x : Array ℂ)
    (hx : IsRealND c.D c.N x) :
    HasCoeffs s (Kc c + Kc c) (opNonConsConv b (PKfield c s x)) (nonConsConvCoef s (Kc c) b (ucoef c x)) ∧
    ∀ h, h < numModes c.D c.N →
      (mask c h = 1 → at2 (convection c 1 b true false #[rfftnM c.D c.N x]) 0 h
          = ((c.N ^ c.D : ℕ) : ℂ) * nonConsConvCoef s (Kc c) b (ucoef c x) (kvec c.D c.N h)) ∧
      (mask c h = 0 → at2 (convection c 1 b true false #[rfftnM c.D c.N x]) 0 h = 0) := by
  refine ⟨opNonConsConv_hasCoeffs b (PKfield_hasCoeffs c s x), fun h hh => ?_⟩
  have := convection_single_nc_nd c hD hq hK hN s hs b x hx h hh
  refine ⟨fun hm => ?_, this.2⟩
  rw [this.1 hm, nonConsConvCoef_model c hN s hs b x]

end Exponax.AliasMulti
