import Mathlib.Tactic
import ExponaxModel.Proofs.Instances
import ExponaxModel.Generated.Misc
/-
P2 — algebra of the REGENERATED `Gen.Misc.cross_product_3d` over any commutative ring.

Every proof is `simp only [Gen.Misc.cross_product_3d]` followed by `ring` on the components, so a
harmless reordering of the regenerated definition does not break anything.
-/
set_option linter.unusedVariables false
set_option linter.unusedSimpArgs false
namespace Exponax.Cross
open Exponax.Gen.Misc

variable {K : Type} [CommRing K]

/-- Euclidean (bilinear, not Hermitian) dot product of two triples -/
def dot3 (a b : K × K × K) : K := a.1 * b.1 + a.2.1 * b.2.1 + a.2.2 * b.2.2

/-- cyclic permutation `(a₁,a₂,a₃) ↦ (a₂,a₃,a₁)` -/
def cyc (a : K × K × K) : K × K × K := (a.2.1, a.2.2, a.1)
/-- transpositions -/
def swap12 (a : K × K × K) : K × K × K := (a.2.1, a.1, a.2.2)
def swap13 (a : K × K × K) : K × K × K := (a.2.2, a.2.1, a.1)
def swap23 (a : K × K × K) : K × K × K := (a.1, a.2.2, a.2.1)

/-- componentwise: unfold semantically, finish each component with `ring` -/
macro "cross_tac" : tactic =>
  `(tactic| (refine Prod.ext ?_ (Prod.ext ?_ ?_) <;>
      simp only [cross_product_3d, dot3, cyc, swap12, swap13, swap23, Prod.fst_add, Prod.snd_add, Prod.fst_neg,
        Prod.snd_neg, Prod.fst_sub, Prod.snd_sub, Prod.smul_fst, Prod.smul_snd, smul_eq_mul, Prod.fst_zero,
        Prod.snd_zero] <;> ring))

/-- (a) the documented formula `(a₂b₃ − a₃b₂, a₃b₁ − a₁b₃, a₁b₂ − a₂b₁)` -/
theorem cross_formula (a1 a2 a3 b1 b2 b3 : K) :
    cross_product_3d (a1, a2, a3) (b1, b2, b3)
      = (a2 * b3 - a3 * b2, a3 * b1 - a1 * b3, a1 * b2 - a2 * b1) := by
  cross_tac

theorem cross_formula' (a b : K × K × K) :
    cross_product_3d a b
      = (a.2.1 * b.2.2 - a.2.2 * b.2.1, a.2.2 * b.1 - a.1 * b.2.2, a.1 * b.2.1 - a.2.1 * b.1) := by
  obtain ⟨a1, a2, a3⟩ := a
  obtain ⟨b1, b2, b3⟩ := b
  exact cross_formula a1 a2 a3 b1 b2 b3

/-- (b) `a · (a × b) = 0` -/
theorem dot_cross_self_left (a b : K × K × K) : dot3 a (cross_product_3d a b) = 0 := by
  simp only [dot3, cross_product_3d]; ring

/-- (b) `b · (a × b) = 0` -/
theorem dot_cross_self_right (a b : K × K × K) : dot3 b (cross_product_3d a b) = 0 := by
  simp only [dot3, cross_product_3d]; ring

/-- (c) antisymmetry `a × b = −(b × a)` -/
theorem cross_antisymm (a b : K × K × K) : cross_product_3d a b = -(cross_product_3d b a) := by
  cross_tac

theorem cross_self (a : K × K × K) : cross_product_3d a a = 0 := by
  cross_tac

/-- (d) bilinearity: additivity in each slot -/
theorem cross_add_left (a a' b : K × K × K) :
    cross_product_3d (a + a') b = cross_product_3d a b + cross_product_3d a' b := by
  cross_tac

theorem cross_add_right (a b b' : K × K × K) :
    cross_product_3d a (b + b') = cross_product_3d a b + cross_product_3d a b' := by
  cross_tac

/-- (d) bilinearity: homogeneity in each slot -/
theorem cross_smul_left (r : K) (a b : K × K × K) :
    cross_product_3d (r • a) b = r • cross_product_3d a b := by
  cross_tac

theorem cross_smul_right (r : K) (a b : K × K × K) :
    cross_product_3d a (r • b) = r • cross_product_3d a b := by
  cross_tac

/-- (d) bilinearity in one statement -/
theorem cross_bilinear (r t : K) (a a' b b' : K × K × K) :
    cross_product_3d (r • a + t • a') b = r • cross_product_3d a b + t • cross_product_3d a' b ∧
    cross_product_3d a (r • b + t • b') = r • cross_product_3d a b + t • cross_product_3d a b' := by
  rw [cross_add_left, cross_add_right, cross_smul_left, cross_smul_left, cross_smul_right, cross_smul_right]
  exact ⟨rfl, rfl⟩

theorem cross_neg_left (a b : K × K × K) : cross_product_3d (-a) b = -cross_product_3d a b := by
  cross_tac

theorem cross_sub_left (a a' b : K × K × K) :
    cross_product_3d (a - a') b = cross_product_3d a b - cross_product_3d a' b := by
  rw [sub_eq_add_neg, cross_add_left, cross_neg_left, ← sub_eq_add_neg]

/-- (e) covariance under the cyclic permutation -/
theorem cross_cyc (a b : K × K × K) :
    cross_product_3d (cyc a) (cyc b) = cyc (cross_product_3d a b) := by
  cross_tac

/-- (e) the other cyclic permutation `cyc ∘ cyc` -/
theorem cross_cyc_cyc (a b : K × K × K) :
    cross_product_3d (cyc (cyc a)) (cyc (cyc b)) = cyc (cyc (cross_product_3d a b)) := by
  rw [cross_cyc, cross_cyc]

omit [CommRing K] in
theorem cyc_cyc_cyc (a : K × K × K) : cyc (cyc (cyc a)) = a := rfl

/-- (e) a transposition flips the sign (pseudo-vector) -/
theorem cross_swap12 (a b : K × K × K) :
    cross_product_3d (swap12 a) (swap12 b) = -swap12 (cross_product_3d a b) := by
  cross_tac

theorem cross_swap13 (a b : K × K × K) :
    cross_product_3d (swap13 a) (swap13 b) = -swap13 (cross_product_3d a b) := by
  cross_tac

theorem cross_swap23 (a b : K × K × K) :
    cross_product_3d (swap23 a) (swap23 b) = -swap23 (cross_product_3d a b) := by
  cross_tac

/-- (f) `a × (b × c) = b (a·c) − c (a·b)` -/
theorem cross_cross (a b c : K × K × K) :
    cross_product_3d a (cross_product_3d b c) = dot3 a c • b - dot3 a b • c := by
  obtain ⟨a1, a2, a3⟩ := a
  obtain ⟨b1, b2, b3⟩ := b
  obtain ⟨c1, c2, c3⟩ := c
  cross_tac

/-- rotational form: with `ω = ∇ × u` in Fourier space, `u × ω`-type identity
    `a × (a × b) = a (a·b) − b (a·a)` -/
theorem cross_cross_self (a b : K × K × K) :
    cross_product_3d a (cross_product_3d a b) = dot3 a b • a - dot3 a a • b :=
  cross_cross a a b

/-- the scalar triple product is cyclic: `a · (b × c) = b · (c × a)` -/
theorem triple_cyclic (a b c : K × K × K) :
    dot3 a (cross_product_3d b c) = dot3 b (cross_product_3d c a) := by
  simp only [dot3, cross_product_3d]; ring

/-- Lagrange: `(a × b)·(a × b) = (a·a)(b·b) − (a·b)²` -/
theorem cross_norm_sq (a b : K × K × K) :
    dot3 (cross_product_3d a b) (cross_product_3d a b) = dot3 a a * dot3 b b - dot3 a b ^ 2 := by
  simp only [dot3, cross_product_3d]; ring

/-- the curl of any spectrum is divergence-free mode by mode: `k · (k × û) = 0` -/
theorem div_curl (k u : K × K × K) : dot3 k (cross_product_3d k u) = 0 := dot_cross_self_left k u

end Exponax.Cross
